(* Proofs about Model/Options.v (C13). *)
From XV Require Import Base Options.
Open Scope Z_scope.

Ltac split_ifs :=
  repeat match goal with
  | |- context [if ?b then _ else _] => destruct b eqn:?
  | H : context [if ?b then _ else _] |- _ => destruct b eqn:?
  end.

(* -n0: plain in-process run, never an error *)
Lemma n0_plain_l auto o :
  numprocesses o = NPNum 0 ->
  exists o', cmdline_main auto o = Ok o' /\ dist o' = DNo /\ tx o' = [] /\
             is_distribution_mode o' = false /\ installs_dsession o' = false.
Proof.
  intros H. destruct o as [np mp d dl t pdb co lf lg]. cbn in H. subst np.
  unfold cmdline_main. cbn.
  destruct dl, co; cbn; eexists; (split; [reflexivity|]); cbn;
    unfold installs_dsession, is_distribution_mode; cbn; auto.
Qed.

Definition cap (k : Z) (mp : option Z) : Z :=
  match mp with Some m => if m =? 0 then k else Z.min k m | None => k end.

Definition eff_dist (o : opts) : dist_mode :=
  let d := if distload o then DLoad else dist o in
  if dist_eqb d DNo then DLoad else d.

(* -nK, K <> 0: K local workers capped by --maxprocesses, load unless a mode is named *)
Lemma nK_workers_l auto o k o' :
  numprocesses o = NPNum k -> k <> 0 ->
  cmdline_main auto o = Ok o' ->
  tx o' = repeat "popen"%string (Z.to_nat (cap k (maxprocesses o))) /\
  dist o' = eff_dist o /\ numprocesses o' = NPNum k.
Proof.
  intros H Hk. destruct o as [np mp d dl t pdb co lf lg]. cbn in H. subst np.
  unfold cmdline_main, eff_dist, cap. cbn.
  assert (Hk' : (k =? 0) = false) by (apply Z.eqb_neq; exact Hk).
  destruct dl; cbn; rewrite ?Hk'; cbn.
  - destruct mp as [m|]; cbn; [destruct (m =? 0) eqn:Hm; cbn|];
      destruct k; try congruence; cbn;
      split_ifs; intros E; inversion E; subst; cbn; auto.
  - destruct (dist_eqb d DNo) eqn:Hd; cbn; rewrite ?Hd;
      (destruct mp as [m|]; cbn; [destruct (m =? 0) eqn:Hm; cbn|]);
      destruct k; try congruence; cbn;
      split_ifs; intros E; inversion E; subst; cbn; auto.
Qed.

(* with K > 0 workers the run is distributed (if there is at least one after capping) *)
Lemma nK_distributed_l auto o k o' :
  numprocesses o = NPNum k -> k <> 0 -> 0 < cap k (maxprocesses o) ->
  cmdline_main auto o = Ok o' -> is_distribution_mode o' = true.
Proof.
  intros H Hk Hc E. destruct (nK_workers_l auto o k o' H Hk E) as (Ht & Hd & _).
  unfold is_distribution_mode. rewrite Ht, Hd.
  assert (Hn : exists n, Z.to_nat (cap k (maxprocesses o)) = S n).
  { exists (Nat.pred (Z.to_nat (cap k (maxprocesses o)))). lia. }
  destruct Hn as [n Hn]. rewrite Hn. cbn.
  unfold eff_dist. destruct (distload o); cbn; auto.
  destruct (dist o); cbn; auto.
Qed.

(* no -n: the options pass through unchanged (apart from -d naming load), so
   a mode without environments, or environments without a mode, is no distribution *)
Lemma no_n_passthrough_l auto o o' :
  numprocesses o = NPNone -> cmdline_main auto o = Ok o' ->
  tx o' = tx o /\ dist o' = (if distload o then DLoad else dist o).
Proof.
  intros H. destruct o as [np mp d dl t pdb co lf lg]. cbn in H. subst np.
  unfold cmdline_main. cbn. destruct dl; cbn; split_ifs; intros E; inversion E; subst; cbn; auto.
Qed.

Lemma mode_without_env_l auto o o' :
  numprocesses o = NPNone -> tx o = [] -> cmdline_main auto o = Ok o' ->
  is_distribution_mode o' = false /\ installs_dsession o' = false.
Proof.
  intros H Ht E. destruct (no_n_passthrough_l auto o o' H E) as (Htx & _).
  unfold installs_dsession, is_distribution_mode. rewrite Htx, Ht.
  rewrite andb_false_r. destruct (collectonly o'); auto.
Qed.

Lemma env_without_mode_l auto o o' :
  numprocesses o = NPNone -> dist o = DNo -> distload o = false -> cmdline_main auto o = Ok o' ->
  is_distribution_mode o' = false /\ installs_dsession o' = false.
Proof.
  intros H Hd Hdl E. destruct (no_n_passthrough_l auto o o' H E) as (_ & Hdist).
  rewrite Hdl, Hd in Hdist.
  unfold installs_dsession, is_distribution_mode. rewrite Hdist. cbn.
  destruct (collectonly o'); auto.
Qed.

(* the flags --pdb / --collect-only are never changed by cmdline_main *)
Lemma flags_kept_l auto o o' :
  cmdline_main auto o = Ok o' ->
  usepdb o' = usepdb o /\ collectonly o' = collectonly o /\ looponfail o' = looponfail o.
Proof.
  destruct o as [np mp d dl t pdb co lf lg]. unfold cmdline_main. cbn.
  repeat match goal with
  | |- context [match ?x with _ => _ end] => destruct x eqn:?; cbn
  end; intros E; inversion E; subst; cbn; auto.
Qed.

(* --pdb together with distribution is rejected (unless only collecting) *)
Lemma pdb_rejected_l auto o o' :
  cmdline_main auto o = Ok o' -> is_distribution_mode o' = true -> usepdb o = true ->
  collectonly o = true.
Proof.
  intros E Hd Hp.
  destruct (flags_kept_l auto o o' E) as (Hpdb & Hco & _).
  unfold cmdline_main in E.
  match type of E with (if ?c then _ else Ok ?x) = _ =>
    destruct c eqn:Hc; [discriminate|]; assert (Hx : x = o') by congruence end.
  rewrite Hx in Hc. rewrite Hd, Hpdb, Hp, Hco in Hc.
  destruct (collectonly o); cbn in Hc; auto; discriminate.
Qed.

(* ... except that it turns -n auto / -n logical into 0 *)
Lemma pdb_auto_zero_l auto o :
  (numprocesses o = NPAuto \/ numprocesses o = NPLogical) -> usepdb o = true ->
  exists o', cmdline_main auto o = Ok o' /\ numprocesses o' = NPNum 0 /\ dist o' = DNo /\ tx o' = [] /\
             is_distribution_mode o' = false /\ installs_dsession o' = false.
Proof.
  intros H Hp. destruct o as [np mp d dl t pdb co lf lg]. cbn in H, Hp. subst pdb.
  unfold cmdline_main.
  destruct H as [H|H]; subst np; destruct dl, co; cbn; eexists; (split; [reflexivity|]); cbn;
    unfold installs_dsession, is_distribution_mode; cbn; auto.
Qed.

(* -n auto without --pdb behaves as -n <hook value> *)
Lemma auto_is_hook_value_l auto o :
  (numprocesses o = NPAuto \/ numprocesses o = NPLogical) -> usepdb o = false ->
  cmdline_main auto o = cmdline_main auto (set_np o (NPNum auto)).
Proof.
  intros H Hp. destruct o as [np mp d dl t pdb co lf lg]. cbn in H, Hp. subst pdb.
  unfold cmdline_main. destruct H as [H|H]; subst np; destruct dl; cbn; reflexivity.
Qed.

(* --collect-only never starts workers *)
Lemma collectonly_no_workers_l auto o o' :
  collectonly o = true -> cmdline_main auto o = Ok o' -> installs_dsession o' = false.
Proof.
  intros Hc E. destruct (flags_kept_l auto o o' E) as (_ & Hco & _).
  unfold installs_dsession. rewrite Hco, Hc. reflexivity.
Qed.

(* the distributed session is installed exactly in distribution mode without --collect-only *)
Lemma installs_iff_l o :
  installs_dsession o = true <-> (collectonly o = false /\ dist o <> DNo /\ tx o <> []).
Proof.
  unfold installs_dsession, is_distribution_mode.
  destruct (collectonly o), (dist o), (tx o); cbn; split; intros; try discriminate;
    try (repeat split; congruence); try tauto; destruct H as (?&?&?); congruence.
Qed.

(* inside a worker nothing is ever distributed, whatever was inherited *)
Lemma worker_never_distributes_l auto o :
  exists o', cmdline_main auto (setup_config o) = Ok o' /\
             is_distribution_mode o' = false /\ installs_dsession o' = false /\
             looponfail o' = false /\ usepdb o' = false /\ numprocesses o' = NPNone /\
             looponfail_main o' = Ok false.
Proof.
  destruct o as [np mp d dl t pdb co lf lg]. unfold setup_config, cmdline_main. cbn.
  destruct co; cbn; (eexists; split; [reflexivity|]); cbn;
    unfold installs_dsession, is_distribution_mode, looponfail_main; cbn; auto 10.
Qed.

(* -f with --pdb is rejected; -f alone hands over to loop-on-fail *)
Lemma looponfail_rules_l o :
  (looponfail o = true -> usepdb o = true -> looponfail_main o = Err EUsage) /\
  (looponfail o = true -> usepdb o = false -> looponfail_main o = Ok true) /\
  (looponfail o = false -> looponfail_main o = Ok false).
Proof. unfold looponfail_main. destruct (looponfail o), (usepdb o); repeat split; intros; congruence. Qed.

(* ---- N*spec expansion ---- *)
Lemma find_star_none s i : find_star s i = None <-> ~ In "*"%char s.
Proof.
  revert i. induction s as [|c s IH]; intros i; cbn; [tauto|].
  destruct (Ascii.eqb c "*") eqn:E.
  - apply Ascii.eqb_eq in E. subst. split; [discriminate|]. intros H; exfalso; apply H; auto.
  - rewrite IH. apply Ascii.eqb_neq in E. split; intros H; [intros [H1|H1]; congruence|tauto].
Qed.

Lemma find_star_app pre post i :
  ~ In "*"%char pre -> find_star (pre ++ "*"%char :: post) i = Some (i + length pre)%nat.
Proof.
  revert i. induction pre as [|c pre IH]; intros i Hn; cbn.
  - f_equal. lia.
  - destruct (Ascii.eqb c "*") eqn:E.
    + apply Ascii.eqb_eq in E. subst. exfalso. apply Hn. left; auto.
    + rewrite IH; [f_equal; lia|]. intros H; apply Hn; right; auto.
Qed.

Lemma skipn_S_app {A} (pre : list A) c post : skipn (S (length pre)) (pre ++ c :: post) = post.
Proof. induction pre as [|x pre IH]; cbn; auto. Qed.

Lemma mult_expands_l (pre post : list ascii) n :
  ~ In "*"%char pre -> py_int (string_of_list_ascii pre) = Some n ->
  expand_tx (string_of_list_ascii (pre ++ "*"%char :: post)) =
  repeat (string_of_list_ascii post) (Z.to_nat n).
Proof.
  intros Hn Hi. unfold expand_tx. rewrite list_ascii_of_string_of_list_ascii.
  rewrite find_star_app by exact Hn. cbn [Nat.add].
  rewrite firstn_app, firstn_all, Nat.sub_diag. cbn [firstn]. rewrite app_nil_r.
  rewrite skipn_S_app, Hi. reflexivity.
Qed.

(* a spec without a (parsable) multiplier in front of '*' is kept as it is *)
Lemma no_mult_kept_l x :
  (forall pre post, list_ascii_of_string x = pre ++ "*"%char :: post -> ~ In "*"%char pre ->
                    py_int (string_of_list_ascii pre) = None) ->
  py_int (string_of_list_ascii (removelast (list_ascii_of_string x))) = None ->
  expand_tx x = [x].
Proof.
  intros Hstar Hlast. unfold expand_tx.
  destruct (find_star (list_ascii_of_string x) 0) as [i|] eqn:E.
  - assert (exists pre post, list_ascii_of_string x = pre ++ "*"%char :: post /\ ~ In "*"%char pre /\ length pre = i).
    { clear Hstar Hlast. revert E. generalize (list_ascii_of_string x) as s.
      assert (G : forall s k i, find_star s k = Some i ->
                exists pre post, s = pre ++ "*"%char :: post /\ ~ In "*"%char pre /\ (k + length pre = i)%nat).
      { induction s as [|c s IH]; intros k j; cbn; [discriminate|].
        destruct (Ascii.eqb c "*") eqn:Ec.
        - intros E; inversion E; subst. apply Ascii.eqb_eq in Ec; subst.
          exists [], s. cbn. repeat split; auto; lia.
        - intros E. destruct (IH _ _ E) as (pre & post & -> & Hn & Hl).
          exists (c :: pre), post. cbn. repeat split; auto.
          + apply Ascii.eqb_neq in Ec. intros [H|H]; congruence.
          + lia. }
      intros s E. destruct (G s 0%nat i E) as (pre & post & ? & ? & ?). exists pre, post. auto. }
    destruct H as (pre & post & Hx & Hn & Hl). rewrite Hx.
    rewrite <- Hl, firstn_app, firstn_all, Nat.sub_diag. cbn [firstn]. rewrite app_nil_r.
    rewrite (Hstar pre post Hx Hn). reflexivity.
  - rewrite Hlast. reflexivity.
Qed.

Lemma parse_tx_nonempty_l l r : parse_tx_spec l = Ok r -> r <> [].
Proof. unfold parse_tx_spec. destruct (flat_map expand_tx l); intros E; inversion E; congruence. Qed.

Lemma parse_tx_empty_l : parse_tx_spec [] = Err EUsage.
Proof. reflexivity. Qed.

Lemma parse_tx_all_empty_l l : flat_map expand_tx l = [] <-> parse_tx_spec l = Err EUsage.
Proof. unfold parse_tx_spec. destruct (flat_map expand_tx l); split; congruence. Qed.

(* auto worker count *)
Lemma auto_at_least_one_l cpu :
  (forall n, cpu = Some n -> 0 <= n) -> 1 <= auto_default None cpu.
Proof.
  intros H. unfold auto_default. destruct cpu as [n|]; [|lia].
  specialize (H n eq_refl). destruct (n =? 0) eqn:E; [lia|]. apply Z.eqb_neq in E. lia.
Qed.

Lemma auto_env_override_l s n cpu :
  s <> ""%string -> py_int s = Some n -> auto_default (Some s) cpu = n.
Proof.
  intros Hs Hi. unfold auto_default. destruct (String.eqb s "") eqn:E.
  - apply String.eqb_eq in E. congruence.
  - rewrite Hi. reflexivity.
Qed.

Lemma auto_env_ignored_l s cpu :
  py_int s = None -> auto_default (Some s) cpu = auto_default None cpu.
Proof. intros Hi. unfold auto_default. rewrite Hi. destruct (String.eqb s ""); reflexivity. Qed.

(* non-vacuity: concrete option records meeting the hypotheses *)
Definition ex_opts np mp d dl t pdb co lf :=
  {| numprocesses := np; maxprocesses := mp; dist := d; distload := dl; tx := t;
     usepdb := pdb; collectonly := co; looponfail := lf; loadgroup := false |}.
Example ex_n3_capped :
  cmdline_main 16 (ex_opts (NPNum 3) (Some 2) DNo false [] false false false) =
  Ok (ex_opts (NPNum 3) (Some 2) DLoad false ["popen"; "popen"]%string false false false).
Proof. reflexivity. Qed.
Example ex_pdb_rejected :
  cmdline_main 16 (ex_opts (NPNum 2) None DNo false [] true false false) = Err EUsage.
Proof. reflexivity. Qed.
Example ex_mult : parse_tx_spec ["3*popen"; "ssh=h"]%string = Ok ["popen"; "popen"; "popen"; "ssh=h"]%string.
Proof. reflexivity. Qed.
Example ex_worker :
  cmdline_main 16 (setup_config (ex_opts (NPNum 4) None DLoadGroup true ["popen"]%string true false true)) =
  Ok {| numprocesses := NPNone; maxprocesses := None; dist := DNo; distload := false; tx := ["popen"]%string;
        usepdb := false; collectonly := false; looponfail := false; loadgroup := true |}.
Proof. reflexivity. Qed.
