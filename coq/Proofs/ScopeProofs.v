(* ScopeProofs.v — machine-checked facts about Model/SchedScope.v
   (LoadScopeScheduling / loadfile / loadgroup). *)
From XV Require Import Base Worker Ctl SchedLoad SchedScope.
From Coq Require Import Permutation.
Open Scope nat_scope.

(* ================================================================== *)
(* PART A — the key functions over arbitrary strings                   *)
(* ================================================================== *)

Definition colon : ascii := ":"%char.
Definition at_c : ascii := "@"%char.
Definition rbr : ascii := "]"%char.

(* "::" occurs somewhere in l *)
Definition has_sep (l : list ascii) : Prop :=
  exists a b, l = a ++ colon :: colon :: b.

Lemma has_sep_cons x l : has_sep l -> has_sep (x :: l).
Proof. intros [a [b ->]]. exists (x :: a), b. reflexivity. Qed.

Lemma has_sep_rev l : has_sep (rev l) -> has_sep l.
Proof.
  intros [a [b H]]. exists (rev b), (rev a).
  rewrite <- (rev_involutive l), H, rev_app_distr. cbn.
  rewrite <- !app_assoc. reflexivity.
Qed.

Lemma find_sep_cons2 a b r i :
  find_sep (a :: b :: r) i =
  if Ascii.eqb a colon && Ascii.eqb b colon then Some i else find_sep (b :: r) (S i).
Proof. reflexivity. Qed.

(* the two fixpoints have the same body, hence are convertible *)
Lemma rfind_sep_right_eq l i : rfind_sep_right l i = find_sep l i.
Proof. reflexivity. Qed.

Lemma find_sep_none l : forall i, ~ has_sep l -> find_sep l i = None.
Proof.
  induction l as [|a l IH]; intros i H; [reflexivity|].
  destruct l as [|b r]; [reflexivity|].
  rewrite find_sep_cons2.
  destruct (Ascii.eqb a colon) eqn:Ea; destruct (Ascii.eqb b colon) eqn:Eb; cbn [andb];
    try (apply IH; intro Hs; apply H; apply has_sep_cons; exact Hs).
  apply Ascii.eqb_eq in Ea, Eb. subst. exfalso. apply H. exists [], r. reflexivity.
Qed.

(* the separator is found at the end of [pre] when "::" neither occurs in [pre]
   nor straddles its end *)
Lemma find_sep_at pre post : forall i,
  ~ has_sep (pre ++ [colon]) ->
  find_sep (pre ++ colon :: colon :: post) i = Some (i + length pre).
Proof.
  induction pre as [|a pre IH]; intros i H.
  - cbn. f_equal. lia.
  - assert (Hn : ~ has_sep (pre ++ [colon])).
    { intro Hs. apply H. cbn. apply has_sep_cons. exact Hs. }
    cbn [app length].
    destruct (pre ++ colon :: colon :: post) as [|b r] eqn:E.
    { destruct pre; discriminate. }
    rewrite find_sep_cons2.
    destruct (Ascii.eqb a colon) eqn:Ea; destruct (Ascii.eqb b colon) eqn:Eb; cbn [andb];
      try (rewrite IH by exact Hn; f_equal; lia).
    apply Ascii.eqb_eq in Ea, Eb. subst a b. exfalso. apply H.
    destruct pre as [|p pre'].
    + exists [], []. reflexivity.
    + cbn in E. injection E as -> _. exists [], (pre' ++ [colon]). reflexivity.
Qed.

Lemma no_colon_no_straddle pre : ~ In colon pre -> ~ has_sep (pre ++ [colon]).
Proof.
  induction pre as [|a pre IH]; intros Hn [x [y H]].
  - destruct x as [|? [|? ?]]; cbn in H; discriminate.
  - destruct x as [|x0 x].
    + cbn in H. injection H as -> _. apply Hn. left. reflexivity.
    + cbn in H. injection H as _ H. apply IH.
      * intro Hi. apply Hn. right. exact Hi.
      * exists x, y. exact H.
Qed.

(* ---- (A1) split_file ---- *)
Theorem split_file_no_sep s :
  ~ has_sep (list_ascii_of_string s) -> split_file s = s.
Proof.
  intro H. unfold split_file. cbv zeta. rewrite find_sep_none by exact H. reflexivity.
Qed.

Theorem split_file_first_sep pre post :
  ~ has_sep (pre ++ [colon]) ->
  split_file (string_of_list_ascii (pre ++ colon :: colon :: post)) = string_of_list_ascii pre.
Proof.
  intro H. unfold split_file. cbv zeta.
  rewrite list_ascii_of_string_of_list_ascii, find_sep_at by exact H.
  cbn [plus]. rewrite firstn_app, Nat.sub_diag, firstn_all. cbn. rewrite app_nil_r. reflexivity.
Qed.

Corollary split_file_no_colon pre post :
  ~ In colon pre ->
  split_file (string_of_list_ascii (pre ++ colon :: colon :: post)) = string_of_list_ascii pre.
Proof. intro H. apply split_file_first_sep, no_colon_no_straddle, H. Qed.

(* all tests of one file get the same key *)
Corollary split_file_same_file pre t1 t2 :
  ~ In colon pre ->
  split_file (string_of_list_ascii (pre ++ colon :: colon :: t1)) =
  split_file (string_of_list_ascii (pre ++ colon :: colon :: t2)).
Proof. intro H. rewrite !split_file_no_colon by exact H. reflexivity. Qed.

(* ---- (A2) split_scope ---- *)
Theorem split_scope_no_sep s :
  ~ has_sep (list_ascii_of_string s) -> split_scope s = s.
Proof.
  intro H. unfold split_scope. cbv zeta. rewrite rfind_sep_right_eq, find_sep_none; [reflexivity|].
  intro Hs. apply H, has_sep_rev, Hs.
Qed.

Theorem split_scope_last_sep pre post :
  ~ has_sep (rev post ++ [colon]) ->
  split_scope (string_of_list_ascii (pre ++ colon :: colon :: post)) = string_of_list_ascii pre.
Proof.
  intro H. unfold split_scope. cbv zeta.
  rewrite list_ascii_of_string_of_list_ascii, rfind_sep_right_eq.
  replace (rev (pre ++ colon :: colon :: post)) with (rev post ++ colon :: colon :: rev pre).
  2:{ rewrite rev_app_distr. cbn. rewrite <- !app_assoc. reflexivity. }
  rewrite find_sep_at by exact H. cbn [plus]. rewrite rev_length, app_length. cbn [length].
  replace (length pre + S (S (length post)) - length post - 2) with (length pre) by lia.
  rewrite firstn_app, Nat.sub_diag, firstn_all. cbn. rewrite app_nil_r. reflexivity.
Qed.

Corollary split_scope_no_colon pre post :
  ~ In colon post ->
  split_scope (string_of_list_ascii (pre ++ colon :: colon :: post)) = string_of_list_ascii pre.
Proof.
  intro H. apply split_scope_last_sep, no_colon_no_straddle.
  intro Hi. apply H, in_rev, Hi.
Qed.

(* ---- (A3) two tests of the same class / module get the same key ---- *)
Corollary split_scope_same_scope pre t1 t2 :
  ~ In colon t1 -> ~ In colon t2 ->
  split_scope (string_of_list_ascii (pre ++ colon :: colon :: t1)) =
  split_scope (string_of_list_ascii (pre ++ colon :: colon :: t2)).
Proof. intros H1 H2. rewrite !split_scope_no_colon by assumption. reflexivity. Qed.

(* ---- (A4) split_group ---- *)
Lemma rfind_char_app c l1 l2 : forall i best,
  rfind_char c (l1 ++ l2) i best = rfind_char c l2 (i + length l1) (rfind_char c l1 i best).
Proof.
  induction l1 as [|a l1 IH]; intros i best; cbn.
  - rewrite Nat.add_0_r. reflexivity.
  - rewrite IH. f_equal. lia.
Qed.

Lemma rfind_char_absent c l : forall i best, ~ In c l -> rfind_char c l i best = best.
Proof.
  induction l as [|a l IH]; intros i best H; cbn; [reflexivity|].
  rewrite IH by (intro Hi; apply H; right; exact Hi).
  destruct (Ascii.eqb a c) eqn:E; [|reflexivity].
  apply Ascii.eqb_eq in E. exfalso. apply H. left. exact E.
Qed.

Lemma rfind_char_bound c l : forall i best j,
  rfind_char c l i best = Some j -> best = Some j \/ (i <= j < i + length l).
Proof.
  induction l as [|a l IH]; intros i best j H; cbn in *; [left; exact H|].
  apply IH in H. destruct H as [H|H]; [|right; lia].
  destruct (Ascii.eqb a c); [|left; exact H]. injection H as <-. right. lia.
Qed.

Lemma rfind_char_last c l1 l2 i best :
  ~ In c l2 -> rfind_char c (l1 ++ c :: l2) i best = Some (i + length l1).
Proof.
  intro H. rewrite rfind_char_app. cbn. rewrite Ascii.eqb_refl.
  apply rfind_char_absent, H.
Qed.

Theorem split_group_marked base g :
  ~ In at_c g -> ~ In rbr g ->
  split_group (string_of_list_ascii (base ++ at_c :: g)) = string_of_list_ascii g.
Proof.
  intros Ha Hb. unfold split_group. cbv zeta.
  rewrite list_ascii_of_string_of_list_ascii.
  fold at_c rbr. rewrite rfind_char_last by exact Ha. cbn [plus].
  assert (Hs : skipn (S (length base)) (base ++ at_c :: g) = g).
  { rewrite skipn_app.
    rewrite (skipn_all2 base) by lia.
    replace (S (length base) - length base) with 1 by lia. reflexivity. }
  rewrite Hs.
  destruct (rfind_char rbr (base ++ at_c :: g) 0 None) as [ib|] eqn:E; [|reflexivity].
  rewrite rfind_char_app in E. cbn [rfind_char] in E.
  change (Ascii.eqb at_c rbr) with false in E. cbv iota in E.
  rewrite rfind_char_absent in E by exact Hb.
  apply rfind_char_bound in E. destruct E as [E|E]; [discriminate|].
  replace (ib <? length base) with true; [reflexivity|].
  symmetry. apply Nat.ltb_lt. lia.
Qed.

Theorem split_group_unmarked s :
  ~ In at_c (list_ascii_of_string s) -> split_group s = s.
Proof.
  intro H. unfold split_group. cbv zeta. fold at_c.
  rewrite rfind_char_absent by exact H. reflexivity.
Qed.

(* all tests carrying the same (well-formed) group name get the same key *)
Corollary split_group_same_group b1 b2 g :
  ~ In at_c g -> ~ In rbr g ->
  split_group (string_of_list_ascii (b1 ++ at_c :: g)) =
  split_group (string_of_list_ascii (b2 ++ at_c :: g)).
Proof. intros Ha Hb. rewrite !split_group_marked by assumption. reflexivity. Qed.

(* ---- (A5) the adversarial cases ---- *)
Open Scope string_scope.
Example c06_param_id_with_sep_value :
  split_scope "m.py::t[a::b]" = "m.py::t[a".
Proof. vm_compute. reflexivity. Qed.

(* two parametrisations of ONE test function (same module) whose ids contain "::"
   end up in different work units *)
Example c06_param_id_with_sep_refuted :
  split_scope "m.py::t[a::b]" <> split_scope "m.py::t[c::d]".
Proof. vm_compute. discriminate. Qed.

Example c06_group_name_with_bracket_value :
  split_group "m.py::t@a]b" = "m.py::t@a]b".
Proof. vm_compute. reflexivity. Qed.

(* two tests of ONE xdist_group whose name contains ']' are each their own group *)
Example c06_group_name_with_bracket_refuted :
  split_group "m.py::t1@a]b" <> split_group "m.py::t2@a]b".
Proof. vm_compute. discriminate. Qed.

(* positive non-vacuity instances of A2 / A4 *)
Example split_scope_instance :
  split_scope "m.py::C::t1" = "m.py::C" /\ split_scope "m.py::C::t2[x]" = "m.py::C".
Proof. vm_compute. split; reflexivity. Qed.
Example split_group_instance :
  split_group "m.py::t[a@b]@g1" = "g1" /\ split_group "other.py::C::u@g1" = "g1".
Proof. vm_compute. split; reflexivity. Qed.
Close Scope string_scope.

(* ================================================================== *)
(* PART B — work units                                                 *)
(* ================================================================== *)

(* ---- generic dictionary facts ---- *)
Lemma aget_aset_same {V} n (v : V) m : aget n (aset n v m) = Some v.
Proof.
  induction m as [|[k x] m IH]; cbn.
  - rewrite Nat.eqb_refl. reflexivity.
  - destruct (Nat.eqb n k) eqn:E; cbn; rewrite E; [reflexivity|exact IH].
Qed.

Lemma aget_aset_other {V} n k (v : V) m : k <> n -> aget k (aset n v m) = aget k m.
Proof.
  intro H. induction m as [|[k' x] m IH]; cbn.
  - apply Nat.eqb_neq in H. rewrite H. reflexivity.
  - destruct (Nat.eqb n k') eqn:E; cbn.
    + apply Nat.eqb_eq in E. subst k'. apply Nat.eqb_neq in H. rewrite H. reflexivity.
    + rewrite IH. reflexivity.
Qed.

Lemma sget_sset {V} k k' (v : V) m :
  sget k (sset k' v m) = if String.eqb k k' then Some v else sget k m.
Proof.
  induction m as [|[k0 x] m IH]; cbn.
  - reflexivity.
  - destruct (String.eqb k' k0) eqn:E; cbn.
    + apply String.eqb_eq in E. subst k0. destruct (String.eqb k k'); reflexivity.
    + rewrite IH. destruct (String.eqb k k') eqn:E2; [|reflexivity].
      apply String.eqb_eq in E2. subst k. rewrite E. reflexivity.
Qed.

Lemma sget_sset_same {V} k (v : V) m : sget k (sset k v m) = Some v.
Proof. rewrite sget_sset, String.eqb_refl. reflexivity. Qed.

Lemma index_of_str_nth x l : forall i, index_of_str x l = Some i -> nth_error l i = Some x.
Proof.
  induction l as [|y l IH]; intros i H; cbn in H; [discriminate|].
  destruct (String.eqb x y) eqn:E.
  - injection H as <-. apply String.eqb_eq in E. subst. reflexivity.
  - destruct (index_of_str x l) as [j|]; [|discriminate]. injection H as <-. cbn. apply IH. reflexivity.
Qed.

Lemma opt_map_spec {A B} (f : A -> option B) l : forall ys,
  opt_map f l = Some ys -> map f l = map Some ys.
Proof.
  induction l as [|x l IH]; intros ys H; cbn in H.
  - injection H as <-. reflexivity.
  - destruct (f x) as [y|] eqn:E; [|discriminate].
    destruct (opt_map f l) as [ys'|]; [|discriminate]. injection H as <-.
    cbn. rewrite E, (IH ys') by reflexivity. reflexivity.
Qed.

(* the not-completed tests of a unit, in unit order *)
Definition undone (u : unit_t) : list string := map fst (filter (fun p => negb (snd p)) u).

(* the indices sent are exactly the positions, in the worker's collection, of the
   not-completed tests of the unit, in unit order *)
Lemma unit_indices_exact wcoll u ixs :
  opt_map (fun p => index_of_str (fst p) wcoll) (filter (fun p => negb (snd p)) u) = Some ixs ->
  map (nth_error wcoll) ixs = map Some (undone u).
Proof.
  unfold undone. generalize (filter (fun p => negb (snd p)) u). intros l. revert ixs.
  induction l as [|p l IH]; intros ixs H; cbn in H.
  - injection H as <-. reflexivity.
  - destruct (index_of_str (fst p) wcoll) as [i|] eqn:E; [|discriminate].
    destruct (opt_map _ l) as [ys|]; [|discriminate]. injection H as <-.
    cbn. rewrite (index_of_str_nth _ _ _ E), (IH ys) by reflexivity. reflexivity.
Qed.

(* ---- (B1) sc_assign_work_unit ---- *)
Theorem assign_work_unit_spec n s scope u wq' wcoll ixs c :
  sc_wq s = (scope, u) :: wq' ->
  aget n (sc_reg s) = Some wcoll ->
  opt_map (fun p => index_of_str (fst p) wcoll) (filter (fun p => negb (snd p)) u) = Some ixs ->
  aget n (sc_nt s) = Some c ->
  exists s',
    sc_assign_work_unit n s =
      (s', (if n_closed c then [] else [OSend n (CRun ixs)]), Ok tt) /\
    sc_wq s' = wq' /\
    (exists w', aget n (sc_assigned s') = Some w' /\ sget scope w' = Some u) /\
    (forall m, m <> n -> aget m (sc_assigned s') = aget m (sc_assigned s)) /\
    sc_nt s' = sc_nt s /\ sc_reg s' = sc_reg s /\ sc_coll s' = sc_coll s /\
    map (nth_error wcoll) ixs = map Some (undone u).
Proof.
  intros Hwq Hreg Hix Hnt.
  eexists. split.
  - unfold sc_assign_work_unit, node_send, node_flags, mbind, get, put, of_opt.
    rewrite Hwq. cbn. rewrite Hreg. cbn. rewrite Hix. cbn. rewrite Hnt. cbn.
    destruct (n_closed c); cbn; reflexivity.
  - cbn. repeat split.
    + eexists. split; [apply aget_aset_same|apply sget_sset_same].
    + intros m Hm. apply aget_aset_other. exact Hm.
    + eapply unit_indices_exact. exact Hix.
Qed.

(* ---- (B5) sc_reschedule sends nothing to a shutting-down node, and no work to a node
        without a registered collection ---- *)
Theorem reschedule_shutting_down n s c :
  aget n (sc_nt s) = Some c -> shutting_down c = true ->
  sc_reschedule n s = (s, [], Ok tt).
Proof.
  intros Hnt Hsd.
  unfold sc_reschedule, node_shutting_down, node_flags, mbind, get, of_opt.
  rewrite Hnt. cbn. rewrite Hsd. reflexivity.
Qed.

Theorem reschedule_unregistered n s c :
  aget n (sc_nt s) = Some c -> sc_wq s <> [] -> ahas n (sc_reg s) = false ->
  sc_reschedule n s = (s, [], Ok tt).
Proof.
  intros Hnt Hwq Hreg.
  unfold sc_reschedule, node_shutting_down, node_flags, mbind, get, of_opt.
  rewrite Hnt. cbn. destruct (shutting_down c); [reflexivity|]. cbn.
  destruct (sc_wq s); [contradiction|]. rewrite Hreg. reflexivity.
Qed.

(* whatever the queue holds: the only thing a node without registered collection can be
   sent by sc_reschedule is the shutdown command (when the queue is empty) *)
Theorem reschedule_unregistered_only_shutdown n s s' outs r :
  ahas n (sc_reg s) = false ->
  sc_reschedule n s = (s', outs, r) ->
  outs = [] \/ outs = [OSend n CShutdown].
Proof.
  intros Hreg.
  unfold sc_reschedule, node_shutting_down, node_shutdown, node_send, node_flags, mbind, get, put,
    of_opt.
  destruct (aget n (sc_nt s)) as [c|] eqn:Hnt; cbn.
  2:{ intro H. injection H as _ <- _. left. reflexivity. }
  destruct (shutting_down c) eqn:Hsd; cbn.
  { intro H. injection H as _ <- _. left. reflexivity. }
  destruct (sc_wq s); cbn.
  - rewrite Hnt. cbn. unfold shutting_down in Hsd. rewrite Hsd. cbn. rewrite Hnt. cbn.
    destruct (n_closed c); cbn; intro H; injection H as _ <- _; [left|right]; reflexivity.
  - rewrite Hreg. cbn. intro H. injection H as _ <- _. left. reflexivity.
Qed.

(* ---- (B3) sort_units ---- *)
Lemma insert_by_len_perm p l : Permutation (p :: l) (insert_by_len p l).
Proof.
  induction l as [|q r IH]; cbn; [reflexivity|].
  destruct (length (snd q) <=? length (snd p)); [reflexivity|].
  rewrite perm_swap. constructor. exact IH.
Qed.

Theorem sort_units_perm w : Permutation w (sort_units w).
Proof.
  induction w as [|p w IH]; cbn; [constructor|].
  rewrite <- insert_by_len_perm. constructor. exact IH.
Qed.

(* every later unit is no longer than every earlier one *)
Inductive len_sorted : workload -> Prop :=
| ls_nil : len_sorted []
| ls_cons p l : Forall (fun q => length (snd q) <= length (snd p)) l -> len_sorted l ->
                len_sorted (p :: l).

Lemma insert_by_len_sorted p l : len_sorted l -> len_sorted (insert_by_len p l).
Proof.
  induction 1 as [|q r Hall Hs IH]; cbn.
  - constructor; constructor.
  - destruct (_ <=? _) eqn:E.
    + apply Nat.leb_le in E. constructor; [|constructor; assumption].
      constructor; [exact E|]. eapply Forall_impl; [|exact Hall]. cbn. intros a Ha. eapply Nat.le_trans; [exact Ha|exact E].
    + apply Nat.leb_gt in E. constructor; [|exact IH].
      rewrite <- insert_by_len_perm. constructor; [apply Nat.lt_le_incl; exact E|exact Hall].
Qed.

Theorem sort_units_sorted w : len_sorted (sort_units w).
Proof.
  induction w as [|p w IH]; cbn; [constructor|]. apply insert_by_len_sorted, IH.
Qed.

Corollary sort_units_nth_order w i j p q :
  i < j -> nth_error (sort_units w) i = Some p -> nth_error (sort_units w) j = Some q ->
  length (snd q) <= length (snd p).
Proof.
  generalize (sort_units_sorted w). generalize (sort_units w). intros l Hs. revert i j.
  induction Hs as [|x l Hall Hs IH]; intros i j Hij Hi Hj.
  - destruct i; discriminate.
  - destruct j as [|j]; [lia|]. cbn in Hj. destruct i as [|i]; cbn in Hi.
    + injection Hi as <-. rewrite Forall_forall in Hall. apply Hall. eapply nth_error_In, Hj.
    + eapply IH; [|exact Hi|exact Hj]. lia.
Qed.

(* stability: units of equal length keep their relative (collection) order *)
Definition len_is (n : nat) (q : string * unit_t) : bool := length (snd q) =? n.

Lemma insert_by_len_filter n p l :
  filter (len_is n) (insert_by_len p l) = filter (len_is n) (p :: l).
Proof.
  induction l as [|q r IH]; [reflexivity|]. cbn [insert_by_len].
  destruct (_ <=? _) eqn:E; [reflexivity|].
  apply Nat.leb_gt in E. cbn [filter] in *. rewrite IH.
  destruct (len_is n p) eqn:Ep; [|reflexivity].
  replace (len_is n q) with false; [reflexivity|].
  symmetry. unfold len_is in *. apply Nat.eqb_eq in Ep. apply Nat.eqb_neq.
  intro Hq. rewrite <- Hq in Ep. rewrite Ep in E. exact (Nat.lt_irrefl _ E).
Qed.

Theorem sort_units_stable n w :
  filter (len_is n) (sort_units w) = filter (len_is n) w.
Proof.
  induction w as [|p w IH]; [reflexivity|]. cbn [sort_units fold_right].
  rewrite insert_by_len_filter. cbn [filter]. fold (sort_units w). rewrite IH. reflexivity.
Qed.

(* ---- (B2) build_units groups the collection by key, keeping collection order ---- *)
Definition add_ids (l : list string) (u : unit_t) : unit_t :=
  fold_left (fun u nid => sset nid false u) l u.

Definition upd_units (k : scope_kind) (acc : workload) (nid : string) : workload :=
  let scope := split_of k nid in
  let u := match sget scope acc with Some u => u | None => [] end in
  sset scope (sset nid false u) acc.

Lemma build_units_fold k coll : build_units k coll = fold_left (upd_units k) coll [].
Proof. reflexivity. Qed.

Definition odflt (o : option unit_t) : unit_t := match o with Some u => u | None => [] end.

Lemma fold_upd_units k key l : forall acc,
  sget key (fold_left (upd_units k) l acc) =
  match filter (fun nid => String.eqb (split_of k nid) key) l with
  | [] => sget key acc
  | fl => Some (add_ids fl (odflt (sget key acc)))
  end.
Proof.
  induction l as [|nid l IH]; intros acc; [reflexivity|].
  cbn [fold_left filter]. rewrite IH.
  assert (Hs : sget key (upd_units k acc nid) =
               if String.eqb (split_of k nid) key
               then Some (sset nid false (odflt (sget key acc))) else sget key acc).
  { unfold upd_units. cbv zeta. rewrite sget_sset, (String.eqb_sym key).
    destruct (String.eqb (split_of k nid) key) eqn:E; [|reflexivity].
    apply String.eqb_eq in E. rewrite E. reflexivity. }
  rewrite Hs.
  destruct (String.eqb (split_of k nid) key); [|reflexivity].
  destruct (filter _ l); reflexivity.
Qed.

Lemma map_fst_sset {V} nid (b : V) (u : list (string * V)) :
  map fst (sset nid b u) = if mem_str nid (map fst u) then map fst u else map fst u ++ [nid].
Proof.
  unfold mem_str. induction u as [|[x c] u IH]; cbn; [reflexivity|].
  destruct (String.eqb nid x); cbn; [reflexivity|].
  rewrite IH. destruct (existsb _ _); reflexivity.
Qed.

Lemma dedup_str_ext l : forall s1 s2,
  (forall x, mem_str x s1 = mem_str x s2) -> dedup_str s1 l = dedup_str s2 l.
Proof.
  induction l as [|y l IH]; intros s1 s2 H; cbn [dedup_str]; [reflexivity|].
  rewrite <- H. destruct (mem_str y s1); [apply IH, H|].
  f_equal. apply IH. intro x. unfold mem_str in *. cbn [existsb]. rewrite H. reflexivity.
Qed.

Lemma mem_str_snoc x a b : mem_str x (a ++ [b]) = mem_str x (b :: a).
Proof.
  unfold mem_str. rewrite existsb_app. cbn. rewrite orb_false_r. apply orb_comm.
Qed.

Lemma add_ids_keys l : forall u,
  map fst (add_ids l u) = map fst u ++ dedup_str (map fst u) l.
Proof.
  induction l as [|x l IH]; intros u; cbn; [rewrite app_nil_r; reflexivity|].
  fold (add_ids l (sset x false u)). rewrite IH, map_fst_sset.
  destruct (mem_str x (map fst u)); [reflexivity|].
  rewrite <- app_assoc. cbn. do 2 f_equal. apply dedup_str_ext. intro y. apply mem_str_snoc.
Qed.

Definition all_false (u : unit_t) : Prop := Forall (fun p => snd p = false) u.

Lemma sset_false_all_false nid u : all_false u -> all_false (sset nid false u).
Proof.
  unfold all_false. induction 1 as [|[x c] u Hx Hu IH]; cbn.
  - constructor; [reflexivity|constructor].
  - destruct (String.eqb nid x); constructor; auto.
Qed.

Lemma add_ids_all_false l : forall u, all_false u -> all_false (add_ids l u).
Proof.
  induction l as [|x l IH]; intros u H; cbn; [exact H|]. apply IH, sset_false_all_false, H.
Qed.

Lemma all_false_shape u : all_false u -> u = map (fun nid => (nid, false)) (map fst u).
Proof.
  induction 1 as [|[x c] u Hx Hu IH]; cbn; [reflexivity|]. cbn in Hx. subst c. f_equal. exact IH.
Qed.

Lemma add_ids_nil l : add_ids l [] = map (fun nid => (nid, false)) (dedup_str [] l).
Proof.
  rewrite (all_false_shape (add_ids l [])) by (apply add_ids_all_false; constructor).
  rewrite add_ids_keys. reflexivity.
Qed.

(* the unit stored under [key] consists of exactly the tests of the collection whose key is
   [key], in collection order (first occurrences), every one not yet completed; a key that no
   test has gets no unit *)
Theorem build_units_spec kind coll key :
  sget key (build_units kind coll) =
  match filter (fun nid => String.eqb (split_of kind nid) key) coll with
  | [] => None
  | fl => Some (map (fun nid => (nid, false)) (dedup_str [] fl))
  end.
Proof.
  rewrite build_units_fold, fold_upd_units. cbn [sget odflt].
  destruct (filter _ coll) eqn:E; [reflexivity|]. rewrite add_ids_nil. reflexivity.
Qed.

Lemma dedup_str_nodup l : forall seen,
  NoDup l -> (forall x, In x l -> mem_str x seen = false) -> dedup_str seen l = l.
Proof.
  induction l as [|y l IH]; intros seen Hnd Hs; cbn [dedup_str]; [reflexivity|].
  rewrite (Hs y) by (left; reflexivity). f_equal.
  inversion Hnd as [|? ? Hy Hl]; subst. apply IH; [exact Hl|].
  intros x Hx. unfold mem_str in *. cbn [existsb]. rewrite (Hs x) by (right; exact Hx).
  destruct (String.eqb x y) eqn:E; [|reflexivity].
  apply String.eqb_eq in E. subst. contradiction.
Qed.

Corollary build_units_spec_nodup kind coll key :
  NoDup coll ->
  sget key (build_units kind coll) =
  match filter (fun nid => String.eqb (split_of kind nid) key) coll with
  | [] => None
  | fl => Some (map (fun nid => (nid, false)) fl)
  end.
Proof.
  intro H. rewrite build_units_spec.
  destruct (filter _ coll) eqn:E; [reflexivity|].
  rewrite dedup_str_nodup; [reflexivity| |intros; reflexivity].
  rewrite <- E. apply NoDup_filter, H.
Qed.

(* in particular: the unit's test ids, and the fact that every entry starts not-completed *)
Corollary build_units_unit_ids kind coll key u :
  sget key (build_units kind coll) = Some u ->
  map fst u = dedup_str [] (filter (fun nid => String.eqb (split_of kind nid) key) coll) /\
  all_false u.
Proof.
  rewrite build_units_spec. destruct (filter _ coll) as [|a fl] eqn:E; [discriminate|].
  generalize (dedup_str [] (a :: fl)). intros dl H. injection H as <-. split.
  - rewrite map_map. cbn. apply map_id.
  - unfold all_false. rewrite Forall_forall. intros p Hp. apply in_map_iff in Hp.
    destruct Hp as [x [<- _]]. reflexivity.
Qed.

(* every collected test sits in the unit of its own key (and, by build_units_spec, in no other) *)
Corollary build_units_covers kind coll nid :
  In nid coll ->
  exists u, sget (split_of kind nid) (build_units kind coll) = Some u /\ In (nid, false) u.
Proof.
  intro Hin. rewrite build_units_spec.
  assert (Hf : In nid (filter (fun x => String.eqb (split_of kind x) (split_of kind nid)) coll)).
  { apply filter_In. split; [exact Hin|apply String.eqb_refl]. }
  destruct (filter _ coll) as [|a fl] eqn:E; [contradiction|].
  eexists. split; [reflexivity|]. apply (in_map (fun x : string => (x, false))).
  clear E. revert Hf. generalize (a :: fl). intros l.
  assert (G : forall seen, In nid l -> mem_str nid seen = false -> In nid (dedup_str seen l)).
  { induction l as [|y l IH]; intros seen Hl Hs; [contradiction|]. cbn.
    destruct (String.eqb nid y) eqn:Ey.
    - apply String.eqb_eq in Ey. subst y. rewrite Hs. left. reflexivity.
    - destruct Hl as [->|Hl]; [rewrite String.eqb_refl in Ey; discriminate|].
      destruct (mem_str y seen); [apply IH; assumption|].
      right. apply IH; [exact Hl|]. cbn. rewrite Ey. exact Hs. }
  intro Hl. apply G; [exact Hl|reflexivity].
Qed.

(* ---- (B4) sc_remove_node after a crash ---- *)

(* what goes back to the work queue *)
Definition requeued (w : workload) : workload :=
  filter (fun p => negb (unit_pending (snd p) =? 0)) (mark_crashed w).

(* the scheduler state right before the surviving nodes are rescheduled *)
Definition after_removal (n : nat) (s : scstate) (w : workload) : scstate :=
  let s0 := sc_set_assigned s (adel n (sc_assigned s)) in
  let s1 := if sc_collection_is_completed s0 then s0 else sc_set_reg s0 (adel n (sc_reg s0)) in
  sc_set_wq s1 (wq_update (sc_wq s1) (requeued w)).

Lemma pending_first_undone w : pending_of w <> 0 -> exists c, first_undone w = Some c.
Proof.
  induction w as [|[sc u] w IH]; cbn; [congruence|].
  unfold unit_pending. destruct (filter _ u) as [|[nid b] r]; cbn.
  - exact IH.
  - intros _. eexists. reflexivity.
Qed.

Theorem remove_node_crash_unfold n s w crash :
  aget n (sc_assigned s) = Some w -> pending_of w <> 0 -> first_undone w = Some crash ->
  sc_remove_node n s =
  (mfor (akeys (sc_assigned (after_removal n s w))) sc_reschedule ;;; ret (Some crash))
    (after_removal n s w).
Proof.
  intros Hw Hp Hc. apply Nat.eqb_neq in Hp.
  unfold sc_remove_node, after_removal, requeued.
  unfold mbind, get, put, of_opt, ret. rewrite Hw. cbn.
  match goal with |- context [if ?b then _ else _] => destruct b end;
    cbn; rewrite Hp; cbn; rewrite Hc; cbn;
    destruct (mfor _ _ _) as [[s2 o2] [a|e]]; reflexivity.
Qed.

(* the crashed test reported is the first not-completed test of the node's workload *)
Theorem remove_node_returns_first_undone n s w s' outs r :
  aget n (sc_assigned s) = Some w -> pending_of w <> 0 ->
  sc_remove_node n s = (s', outs, Ok r) ->
  r = first_undone w /\ r <> None.
Proof.
  intros Hw Hp. destruct (pending_first_undone w Hp) as [c Hc].
  rewrite (remove_node_crash_unfold n s w c Hw Hp Hc), Hc.
  unfold mbind, ret. destruct (mfor _ _ _) as [[s2 o2] [a|e]]; intro H; [|discriminate].
  injection H as _ _ <-. split; [reflexivity|discriminate].
Qed.

(* a node that held no pending test: nothing is re-queued, no crash item *)
Theorem remove_node_idle n s w :
  aget n (sc_assigned s) = Some w -> pending_of w = 0 ->
  exists s', sc_remove_node n s = (s', [], Ok None) /\ sc_wq s' = sc_wq s /\
             sc_assigned s' = adel n (sc_assigned s).
Proof.
  intros Hw Hp. unfold sc_remove_node, mbind, get, put, of_opt, ret. rewrite Hw. cbn.
  match goal with |- context [if ?b then _ else _] => destruct b end;
    cbn; rewrite Hp; cbn;
    (eexists; split; [reflexivity|]); cbn; split; reflexivity.
Qed.

(* structure of mark_crashed: exactly one unit changes — the first one with a pending test —
   and in it the first pending test is set to completed *)
Lemma mark_crashed_split w c :
  first_undone w = Some c ->
  exists w1 sc u w2 r,
    w = w1 ++ (sc, u) :: w2 /\
    Forall (fun p => unit_pending (snd p) = 0) w1 /\
    undone u = c :: r /\
    mark_crashed w = w1 ++ (sc, sset c true u) :: w2.
Proof.
  induction w as [|[sc u] w IH]; cbn; [discriminate|].
  destruct (filter (fun p => negb (snd p)) u) as [|[nid b] r] eqn:E.
  - intro H. destruct (IH H) as (w1 & sc' & u' & w2 & r & -> & Hall & Hu & Hm).
    exists ((sc, u) :: w1), sc', u', w2, r. repeat split.
    + constructor; [|exact Hall]. unfold unit_pending. cbn. rewrite E. reflexivity.
    + exact Hu.
    + rewrite Hm. reflexivity.
  - intro H. injection H as <-.
    exists [], sc, u, w, (map fst r). repeat split.
    + constructor.
    + unfold undone. rewrite E. reflexivity.
Qed.

Lemma mark_crashed_keys w : map fst (mark_crashed w) = map fst w.
Proof.
  induction w as [|[sc u] w IH]; cbn; [reflexivity|].
  destruct (filter _ u) as [|[nid b] r]; cbn; [rewrite IH|]; reflexivity.
Qed.

Lemma undone_in u c r : undone u = c :: r -> mem_str c (map fst u) = true.
Proof.
  intro H. unfold mem_str. apply existsb_exists. exists c. split; [|apply String.eqb_refl].
  assert (Hi : In c (undone u)) by (rewrite H; left; reflexivity).
  unfold undone in Hi. apply in_map_iff in Hi. destruct Hi as [p [<- Hp]].
  apply filter_In in Hp. apply in_map, Hp.
Qed.

(* every unit of mark_crashed w is a unit of w under the same scope with the same test ids in
   the same order; tests already completed stay completed *)
Lemma mark_crashed_units w sc u' :
  In (sc, u') (mark_crashed w) ->
  exists u, In (sc, u) w /\ map fst u' = map fst u /\
            (forall x, sget x u = Some true -> sget x u' = Some true).
Proof.
  induction w as [|[sc0 u0] w IH]; cbn; [contradiction|].
  destruct (filter (fun p => negb (snd p)) u0) as [|[nid b] r] eqn:E; cbn.
  - intros [H|H].
    + injection H as <- <-. exists u0. repeat split; auto.
    + destruct (IH H) as (u & Hin & Hk & Hc). exists u. repeat split; auto.
  - intros [H|H].
    + injection H as <- <-. exists u0. repeat split; auto.
      * rewrite map_fst_sset, (undone_in u0 nid (map fst r)); [reflexivity|].
        unfold undone. rewrite E. reflexivity.
      * intros x Hx. rewrite sget_sset. destruct (String.eqb x nid); [reflexivity|exact Hx].
    + exists u'. repeat split; auto.
Qed.

(* each re-queued unit still has a pending test, and goes back as ONE unit under its scope,
   with all of the original unit's test ids *)
Theorem requeued_units w sc u' :
  In (sc, u') (requeued w) ->
  unit_pending u' <> 0 /\
  exists u, In (sc, u) w /\ map fst u' = map fst u /\
            (forall x, sget x u = Some true -> sget x u' = Some true).
Proof.
  unfold requeued. intro H. apply filter_In in H. destruct H as [Hin Hp]. cbn [snd] in Hp.
  split.
  - intro H0. rewrite H0 in Hp. discriminate.
  - apply mark_crashed_units, Hin.
Qed.

(* units without pending tests are not re-queued *)
Theorem requeued_only_pending w :
  Forall (fun p => unit_pending (snd p) <> 0) (requeued w).
Proof.
  unfold requeued. rewrite Forall_forall. intros p H. apply filter_In in H.
  destruct H as [_ H]. intro H0. rewrite H0 in H. discriminate.
Qed.

(* the scopes re-queued are a sub-sequence of the node's scopes, in the same order *)
Inductive subseq {A} : list A -> list A -> Prop :=
| sub_nil : subseq [] []
| sub_skip x l1 l2 : subseq l1 l2 -> subseq l1 (x :: l2)
| sub_keep x l1 l2 : subseq l1 l2 -> subseq (x :: l1) (x :: l2).

Lemma subseq_filter_map {A B} (g : A -> B) f l : subseq (map g (filter f l)) (map g l).
Proof.
  induction l as [|x l IH]; cbn; [constructor|].
  destruct (f x); cbn; constructor; exact IH.
Qed.

Theorem requeued_scopes w : subseq (map fst (requeued w)) (map fst w).
Proof.
  unfold requeued. rewrite <- (mark_crashed_keys w). apply subseq_filter_map.
Qed.

(* the crashed test is marked completed in the unit it belonged to *)
Theorem crashed_test_marked w c :
  first_undone w = Some c ->
  exists sc u, In (sc, u) (mark_crashed w) /\ sget c u = Some true.
Proof.
  intro H. destruct (mark_crashed_split w c H) as (w1 & sc & u & w2 & r & _ & _ & _ & Hm).
  exists sc, (sset c true u). split.
  - rewrite Hm. apply in_or_app. right. left. reflexivity.
  - apply sget_sset_same.
Qed.

(* with distinct test ids in the unit (a Python dict), the crashed test is the only one removed
   from the unit's outstanding tests: what remains to run is exactly the rest *)
Lemma undone_sset_first u : forall c r,
  NoDup (map fst u) -> undone u = c :: r -> undone (sset c true u) = r.
Proof.
  unfold undone. induction u as [|[x b] u IH]; intros c r Hnd H; cbn in *; [discriminate|].
  inversion Hnd as [|? ? Hx Hu]; subst.
  destruct b; cbn in *.
  - destruct (String.eqb c x) eqn:E.
    + apply String.eqb_eq in E. subst x. exfalso. apply Hx.
      assert (Hi : In c (map fst (filter (fun p => negb (snd p)) u))) by (rewrite H; left; reflexivity).
      apply in_map_iff in Hi. destruct Hi as [p [<- Hp]]. apply filter_In in Hp. apply in_map, Hp.
    + cbn. apply IH; assumption.
  - injection H as <- <-. rewrite String.eqb_refl. reflexivity.
Qed.

Theorem crashed_test_not_rerun w c :
  first_undone w = Some c ->
  exists w1 sc u w2 r,
    w = w1 ++ (sc, u) :: w2 /\ undone u = c :: r /\
    mark_crashed w = w1 ++ (sc, sset c true u) :: w2 /\
    (NoDup (map fst u) -> undone (sset c true u) = r).
Proof.
  intro H. destruct (mark_crashed_split w c H) as (w1 & sc & u & w2 & r & Hw & _ & Hu & Hm).
  exists w1, sc, u, w2, r. repeat split; try assumption.
  intro Hnd. apply undone_sset_first; assumption.
Qed.

(* ---- the re-queued units as entries of the work queue ---- *)
Lemma sget_app {V} k (m1 m2 : list (string * V)) :
  sget k (m1 ++ m2) = match sget k m1 with Some v => Some v | None => sget k m2 end.
Proof.
  induction m1 as [|[k' v] m1 IH]; cbn; [reflexivity|].
  destruct (String.eqb k k'); [reflexivity|exact IH].
Qed.

Lemma sget_wq_update k add : forall wq,
  sget k (wq_update wq add) =
  match sget k (rev add) with Some u => Some u | None => sget k wq end.
Proof.
  unfold wq_update. induction add as [|[k' u] add IH]; intros wq; cbn [fold_left rev]; [reflexivity|].
  rewrite IH, sget_app. destruct (sget k (rev add)); [reflexivity|].
  cbn. rewrite sget_sset. destruct (String.eqb k k'); reflexivity.
Qed.

Lemma sget_in_nodup {V} k (v : V) m : NoDup (map fst m) -> In (k, v) m -> sget k m = Some v.
Proof.
  induction m as [|[k' v'] m IH]; cbn; intros Hnd Hin; [contradiction|].
  inversion Hnd as [|? ? Hk Hm]; subst.
  destruct Hin as [Hin|Hin].
  - injection Hin as -> ->. rewrite String.eqb_refl. reflexivity.
  - destruct (String.eqb k k') eqn:E; [|apply IH; assumption].
    apply String.eqb_eq in E. subst k'. exfalso. apply Hk.
    apply (in_map fst) in Hin. exact Hin.
Qed.

Lemma nodup_map_filter {A B} (g : A -> B) f l : NoDup (map g l) -> NoDup (map g (filter f l)).
Proof.
  induction l as [|x l IH]; cbn; intro H; [constructor|].
  inversion H as [|? ? Hx Hl]; subst.
  destruct (f x); cbn; [|apply IH, Hl].
  constructor; [|apply IH, Hl]. intro Hi. apply Hx.
  apply in_map_iff in Hi. destruct Hi as [y [Hy Hi]]. apply filter_In in Hi.
  rewrite <- Hy. apply in_map, Hi.
Qed.

Lemma after_removal_wq n s w :
  sc_wq (after_removal n s w) = wq_update (sc_wq s) (requeued w).
Proof.
  unfold after_removal. cbv zeta.
  destruct (sc_collection_is_completed _); reflexivity.
Qed.

(* each unit that goes back is ONE entry of the work queue, under its own scope; scopes
   that are not re-queued keep what the queue held for them *)
Theorem requeued_in_queue n s w sc u' :
  NoDup (map fst w) -> In (sc, u') (requeued w) ->
  sget sc (sc_wq (after_removal n s w)) = Some u'.
Proof.
  intros Hnd Hin. rewrite after_removal_wq, sget_wq_update.
  rewrite (sget_in_nodup sc u' (rev (requeued w))); [reflexivity| |apply in_rev; rewrite rev_involutive; exact Hin].
  rewrite map_rev. apply NoDup_rev. unfold requeued. apply nodup_map_filter.
  rewrite mark_crashed_keys. exact Hnd.
Qed.

Theorem not_requeued_untouched n s w sc :
  ~ In sc (map fst (requeued w)) ->
  sget sc (sc_wq (after_removal n s w)) = sget sc (sc_wq s).
Proof.
  intro H. rewrite after_removal_wq, sget_wq_update.
  destruct (sget sc (rev (requeued w))) as [u|] eqn:E; [|reflexivity].
  exfalso. apply H.
  assert (G : forall (m : workload) k v, sget k m = Some v -> In k (map fst m)).
  { induction m as [|[k' v'] m IH]; cbn; intros k v Hs; [discriminate|].
    destruct (String.eqb k k') eqn:Ek.
    - left. apply String.eqb_eq in Ek. auto.
    - right. eapply IH, Hs. }
  apply G in E. rewrite map_rev in E. apply in_rev in E. exact E.
Qed.

(* ---- the dictionaries built by the model have distinct keys ---- *)
Lemma mem_str_false_not_in x l : mem_str x l = false -> ~ In x l.
Proof.
  intros H Hi. unfold mem_str in H.
  assert (existsb (String.eqb x) l = true).
  { apply existsb_exists. exists x. split; [exact Hi|apply String.eqb_refl]. }
  congruence.
Qed.

Lemma sset_keys_nodup {V} k (v : V) m : NoDup (map fst m) -> NoDup (map fst (sset k v m)).
Proof.
  intro H. rewrite map_fst_sset. destruct (mem_str k (map fst m)) eqn:E; [exact H|].
  eapply Permutation_NoDup; [apply Permutation_cons_append|].
  constructor; [apply mem_str_false_not_in, E|exact H].
Qed.

Lemma build_units_scopes_nodup kind coll : NoDup (map fst (build_units kind coll)).
Proof.
  rewrite build_units_fold.
  assert (G : forall l acc, NoDup (map fst acc) -> NoDup (map fst (fold_left (upd_units kind) l acc))).
  { induction l as [|x l IH]; intros acc H; cbn; [exact H|].
    apply IH. unfold upd_units. apply sset_keys_nodup, H. }
  apply G. constructor.
Qed.

Lemma dedup_str_nodup_out l : forall seen, NoDup (dedup_str seen l) /\
  (forall x, In x (dedup_str seen l) -> mem_str x seen = false).
Proof.
  induction l as [|y l IH]; intros seen; cbn [dedup_str].
  - split; [constructor|contradiction].
  - destruct (mem_str y seen) eqn:E; [apply IH|].
    destruct (IH (y :: seen)) as [Hnd Hout]. split.
    + constructor; [|exact Hnd]. intro Hi. apply Hout in Hi.
      unfold mem_str in Hi. cbn in Hi. rewrite String.eqb_refl in Hi. discriminate.
    + intros x [<-|Hx]; [exact E|]. apply Hout in Hx. unfold mem_str in *. cbn in Hx.
      apply orb_false_iff in Hx. apply Hx.
Qed.

Corollary build_units_unit_nodup kind coll key u :
  sget key (build_units kind coll) = Some u -> NoDup (map fst u).
Proof.
  intro H. apply build_units_unit_ids in H. destruct H as [-> _]. apply dedup_str_nodup_out.
Qed.

(* ---- non-vacuity: a concrete loadscope run ---- *)
Definition nc (spec : nat) : nctl :=
  {| n_spec := spec; n_down := false; n_sdsent := false; n_closed := false |}.
Open Scope string_scope.

Example ex_build_sort :
  sort_units (build_units KScope ["a.py::t1"; "b.py::C::x"; "a.py::t2"; "b.py::C::y"; "a.py::t3"]) =
  [("a.py", [("a.py::t1", false); ("a.py::t2", false); ("a.py::t3", false)]);
   ("b.py::C", [("b.py::C::x", false); ("b.py::C::y", false)])].
Proof. vm_compute. reflexivity. Qed.

(* node 0 gets the whole unit "a.py" as one CRun, in unit order; it then crashes on its first
   test: "a.py::t1" is reported, the unit goes back as ONE unit with t1 marked done and node 1
   (idle, registered) is handed the whole remainder *)
Example ex_assign_then_crash :
  let coll := ["a.py::t1"; "b.py::C::x"; "a.py::t2"; "b.py::C::y"; "a.py::t3"] in
  let s := {| sc_nt := [(0, nc 1); (1, nc 1)]; sc_kind := KScope; sc_numnodes := 2;
              sc_coll := Some coll;
              sc_wq := [("a.py", [("a.py::t1", false); ("a.py::t2", false); ("a.py::t3", false)])];
              sc_assigned := [(0, []); (1, [])];
              sc_reg := [(0, coll); (1, coll)] |} in
  let '(s1, o1, r1) := sc_assign_work_unit 0 s in
  let '(s2, o2, r2) := sc_remove_node 0 s1 in
  o1 = [OSend 0 (CRun [0; 2; 4])] /\ r1 = Ok tt /\ sc_wq s1 = [] /\
  r2 = Ok (Some "a.py::t1") /\ o2 = [OSend 1 (CRun [2; 4])] /\
  sc_assigned s2 = [(1, [("a.py", [("a.py::t1", true); ("a.py::t2", false); ("a.py::t3", false)])])].
Proof. vm_compute. repeat split. Qed.
Close Scope string_scope.

Print Assumptions split_file_first_sep.
Print Assumptions split_scope_last_sep.
Print Assumptions split_scope_same_scope.
Print Assumptions split_group_marked.
Print Assumptions split_group_unmarked.
Print Assumptions c06_param_id_with_sep_refuted.
Print Assumptions c06_group_name_with_bracket_refuted.
Print Assumptions assign_work_unit_spec.
Print Assumptions build_units_spec.
Print Assumptions build_units_spec_nodup.
Print Assumptions build_units_covers.
Print Assumptions sort_units_perm.
Print Assumptions sort_units_sorted.
Print Assumptions sort_units_stable.
Print Assumptions remove_node_crash_unfold.
Print Assumptions remove_node_returns_first_undone.
Print Assumptions requeued_units.
Print Assumptions requeued_scopes.
Print Assumptions crashed_test_not_rerun.
Print Assumptions requeued_in_queue.
Print Assumptions reschedule_shutting_down.
Print Assumptions reschedule_unregistered.
Print Assumptions reschedule_unregistered_only_shutdown.
