(* CrashSteal.v -- the work-stealing scheduler (--dist worksteal) and the controller (DSession) of
   pytest-xdist in runs WITH worker crashes and replacement workers: parts A-C of the crash coupling
   proof for worksteal (part D, the system invariant and the theorems, is in CrashStealTheorems.v).
   The worksteal analogue of CrashCoupling.v; it builds on CouplingSteal.v (the transition relation TW of
   a scheduling step, the per-operation closed forms of StealProofs.v).

     part A  virtual outputs (as in CrashCoupling.v): what the scheduler WOULD send if no channel were
             closed.  A command for a closed channel (a dead worker whose end marker has been read, or
             any dead worker when c_strict) is dropped by WorkerController.sendcommand, but the scheduler
             books it all the same -- indices in node2pending, the marker steal_requested_from_node.
     part B  the worksteal scheduler with closed channels: send_tests, the distribution loop, the
             shutdown loop, check_schedule (it never raises; its effect TWv).
     part C  the controller: invariant DJX (node ids range below the group counter d_next_gw), every
             handler -- errordown with crash item, cancelled withdrawal request, re-queueing, restart
             budget and _clone_node included -- and one loop iteration (loop_once_okx: it never raises;
             HEFFX: its exact effect on books, flags, marker; the crash report names the head of the
             dead node's book).

   Nothing is assumed beyond what the lemmas state: closed channels, workers with different collections,
   stop requests, --maxfail, any restart budget are covered.  Two hypotheses appear:
     - xd_rq (in the invariant): no plugin re-queues crash items, or the collections are duplicate-free.
       mark_test_pending inserts collection.index(item), the FIRST index with that id: with duplicate ids
       the books are no longer duplicate-free, and remove_pending_tests_from_node (a filter) then strikes
       out too much -- see CrashStealTheorems.v, example (g), where the controller ends with ValueError;
     - SAMEX ("every worker collects the same list") only guards the facts that make
       RuntimeError("no active workers") impossible (field xd_k2, last conjunct of loop_once_okx). *)
From XV Require Import Base Worker Ctl SchedLoad SchedSteal SchedScope SchedEach Sched DSession System
  NoHook DSessionProofs WorkerProofs StealProofs LoadProofs FifoProofs ExactlyOnce Coupling ExactlyOnceSteal
  CouplingSteal CrashCoupling.
From Coq Require Import Permutation.
Open Scope nat_scope.

(* ====================================================================================== *)
(* A. virtual outputs                                                                      *)
(* ====================================================================================== *)
Lemma NRWo_closed nt nt' m cs : NRWo (aget m nt) cs (aget m nt') -> closedb nt' m = closedb nt m.
Proof.
  unfold closedb. destruct (aget m nt) as [f|], (aget m nt') as [f'|]; cbn; try tauto.
  intros R. destruct (NRW_fields _ _ _ R) as (_ & _ & C & _). exact C.
Qed.

Lemma TW_closed s s' vo : TW s s' vo -> forall m, closedb (ws_nt s') m = closedb (ws_nt s) m.
Proof. intros T m. eapply NRWo_closed. apply (tw_nt _ _ _ T m). Qed.

Definition TWv (s s' : wsstate) (o : list out) : Prop := exists vo, TW s s' vo /\ o = vfilter (ws_nt s) vo.

Lemma TWv_refl s : TWv s s [].
Proof. exists []. split; [apply TW_refl|reflexivity]. Qed.

Lemma TWv_trans s s1 s2 o1 o2 : TWv s s1 o1 -> TWv s1 s2 o2 -> TWv s s2 (o1 ++ o2).
Proof.
  intros (v1 & T1 & ->) (v2 & T2 & ->). exists (v1 ++ v2). split; [eapply TW_trans; eauto|].
  rewrite vfilter_app. f_equal. apply vfilter_ext. apply (TW_closed _ _ _ T1).
Qed.

Lemma TWv_nt_keys s s' o n : TWv s s' o -> (aget n (ws_nt s') <> None <-> aget n (ws_nt s) <> None).
Proof. intros (vo & T & _). apply (TW_nt_keys _ _ _ n T). Qed.

Lemma TWv_keeps s s' o : TWv s s' o -> keepsw s s'.
Proof. intros (vo & T & _). apply (tw_keeps _ _ _ T). Qed.

(* ... without any shutdown command *)
Definition TWvn (s s' : wsstate) (o : list out) : Prop :=
  exists vo, TW s s' vo /\ o = vfilter (ws_nt s) vo /\ no_sd vo.

Lemma TWvn_refl s : TWvn s s [].
Proof. exists []. split; [apply TW_refl|]. split; [reflexivity|apply no_sd_nil]. Qed.

Lemma TWvn_trans s s1 s2 o1 o2 : TWvn s s1 o1 -> TWvn s1 s2 o2 -> TWvn s s2 (o1 ++ o2).
Proof.
  intros (v1 & T1 & -> & N1) (v2 & T2 & -> & N2). exists (v1 ++ v2). split; [eapply TW_trans; eauto|]. split.
  - rewrite vfilter_app. f_equal. apply vfilter_ext. apply (TW_closed _ _ _ T1).
  - apply no_sd_app; assumption.
Qed.

Lemma TWvn_TWv s s' o : TWvn s s' o -> TWv s s' o.
Proof. intros (vo & T & E & _). exists vo. auto. Qed.

(* ====================================================================================== *)
(* B. the worksteal scheduler with closed channels                                         *)
(* ====================================================================================== *)
Lemma send_TWv n num s s' o r :
  node_readyw s n ->
  ws_send_tests n num s = (s', o, r) ->
  r = Ok tt /\ TWvn s s' o /\ ws_nt s' = ws_nt s /\ ws_steal s' = ws_steal s /\
  (s' = s /\ py_take num (ws_pending s) = [] \/ ws_pending s' = py_drop num (ws_pending s)).
Proof.
  intros (Hp & f & Ef & Hs) H. rewrite send_tests_eq in H.
  pose proof (StealProofs.py_take_drop num (ws_pending s)) as Etd.
  destruct (py_take num (ws_pending s)) as [|t0 tl] eqn:Et.
  { inv H. split; [reflexivity|]. split; [apply TWvn_refl|]. split; [reflexivity|]. split; [reflexivity|]. left. auto. }
  destruct (aget n (ws_n2p s)) as [cur|] eqn:Ec; [|congruence]. rewrite Ef in H. inv H.
  split; [reflexivity|]. unfold st_after. rewrite ?Et. wsproj. split; [|split; [reflexivity|split; [reflexivity|]]].
  - exists [OSend n (CRun (t0 :: tl))]. split; [|split; [symmetry; apply vfilter_send; exact Ef|]].
    2:{ intros m Hin. rewrite cmds_to_one in Hin. destruct (Nat.eqb n m); [destruct Hin as [F|[]]; discriminate|destruct Hin]. }
    constructor; wsproj.
    + intros m. rewrite cmds_to_one. destruct (Nat.eqb n m) eqn:E.
      * apply Nat.eqb_eq in E. subst m. rewrite Ef. cbn. apply NRW_run; [exact Hs|constructor].
      * apply NRWo_refl.
    + intros m. unfold bkw. wsproj. rewrite cmds_to_one. destruct (Nat.eqb n m) eqn:E.
      * apply Nat.eqb_eq in E. subst m. rewrite FifoProofs.alist_get_aset_eq. unfold alist_get. rewrite Ec.
        cbn. rewrite app_nil_r. reflexivity.
      * apply Nat.eqb_neq in E. rewrite FifoProofs.alist_get_aset_neq by congruence. cbn. rewrite app_nil_r. reflexivity.
    + unfold keepsw. wsproj. repeat split; try reflexivity. eapply akeys_aset; eauto.
    + intros m. rewrite cmds_to_one. destruct (Nat.eqb n m); unfold nstc; cbn; lia.
    + auto.
    + exists (t0 :: tl). symmetry. exact Etd.
  - right. reflexivity.
Qed.

Lemma distribute_TWv idle : forall s s' o r,
  (forall n, In n idle -> node_readyw s n) ->
  ws_distribute idle s = (s', o, r) ->
  r = Ok tt /\ TWvn s s' o /\ ws_nt s' = ws_nt s /\ ws_steal s' = ws_steal s /\
  (idle <> [] -> ws_pending s' = []).
Proof.
  induction idle as [|n rest IH]; intros s s' o r Hr H.
  - cbn in H. unfold ret in H. inv H. split; [reflexivity|]. split; [apply TWvn_refl|].
    split; [reflexivity|]. split; [reflexivity|]. congruence.
  - rewrite distribute_cons in H.
    destruct (ws_send_tests n _ s) as [[s1 o1] r1] eqn:E1.
    destruct (send_TWv _ _ _ _ _ _ (Hr n (or_introl eq_refl)) E1) as (-> & T1 & N1 & S1 & P1).
    destruct (ws_distribute rest s1) as [[s2 o2] r2] eqn:E2. inv H.
    assert (Hr1 : forall m, In m rest -> node_readyw s1 m).
    { intros m Hm. apply (node_readyw_ext s s1); [apply (TWv_keeps _ _ _ (TWvn_TWv _ _ _ T1))|exact N1|]. apply Hr. right. exact Hm. }
    destruct (IH _ _ _ _ Hr1 E2) as (-> & T2 & N2 & S2 & P2).
    split; [reflexivity|]. split; [eapply TWvn_trans; eauto|]. split; [congruence|]. split; [congruence|].
    intros _.
    destruct rest as [|m rest'].
    + cbn in E2. unfold ret in E2. inv E2. cbn [length] in P1.
      change (Z.of_nat 1) with 1%Z in P1. destruct (py_take_all (ws_pending s)) as (Ta & Td).
      destruct P1 as [(-> & P1)|P1].
      * rewrite Ta in P1. exact P1.
      * rewrite P1. exact Td.
    + apply P2. discriminate.
Qed.

Lemma node_shutdown_TWv n s s' o r :
  aget n (ws_nt s) <> None ->
  node_shutdown ws_nt ws_set_nt n s = (s', o, r) ->
  r = Ok tt /\ (exists vo, TW s s' vo /\ o = vfilter (ws_nt s) vo /\ forall m, m <> n -> cmds_to m vo = []) /\ nt_only s s' /\
  (forall f', aget n (ws_nt s') = Some f' -> shutting_down f' = true) /\
  (forall m, m <> n -> aget m (ws_nt s') = aget m (ws_nt s)).
Proof.
  intros Hn H. rewrite node_shutdown_eq in H.
  destruct (aget n (ws_nt s)) as [f|] eqn:Ef; [|congruence].
  destruct (n_down f || n_sdsent f) eqn:Esd.
  - inv H. split; [reflexivity|]. split; [exists []; split; [apply TW_refl|split; reflexivity]|]. split; [apply nt_only_refl|].
    split; [|reflexivity]. intros f' E. rewrite Ef in E. inv E. exact Esd.
  - inv H. split; [reflexivity|].
    assert (Hs : n_sdsent f = false) by (apply orb_false_iff in Esd; tauto).
    split; [|split; [|split]].
    + exists [OSend n CShutdown]. split; [|split; [symmetry; apply vfilter_send; exact Ef|]].
      2:{ intros m Hm. rewrite cmds_to_one. destruct (Nat.eqb n m) eqn:E; [apply Nat.eqb_eq in E; congruence|reflexivity]. }
      constructor; wsproj.
      * intros m. rewrite cmds_to_one, LoadProofs.aget_aset. destruct (Nat.eqb n m) eqn:E.
        -- apply Nat.eqb_eq in E. subst m. rewrite Nat.eqb_refl, Ef. cbn. apply NRW_sd; [exact Hs|constructor].
        -- rewrite Nat.eqb_sym, E. apply NRWo_refl.
      * intros m. unfold bkw. wsproj. rewrite cmds_to_one. destruct (Nat.eqb n m); cbn; rewrite app_nil_r; reflexivity.
      * unfold keepsw. wsproj. auto.
      * intros m. rewrite cmds_to_one. destruct (Nat.eqb n m); unfold nstc; cbn; lia.
      * auto.
      * exists []. reflexivity.
    + unfold nt_only. wsproj. repeat split; auto. eapply akeys_aset; eauto.
    + intros f'. wsproj. rewrite StealProofs.aget_aset_eq. intros E. inv E. unfold sd_flags, shutting_down. cbn.
      apply orb_true_r.
    + intros m Hm. wsproj. apply StealProofs.aget_aset_neq. exact Hm.
Qed.

Lemma shut_loop_TWv l : forall s s' o r,
  (forall n, In n l -> aget n (ws_nt s) <> None) ->
  shut_loop l s = (s', o, r) ->
  r = Ok tt /\ (exists vo, TW s s' vo /\ o = vfilter (ws_nt s) vo /\ forall m, ~ In m l -> cmds_to m vo = []) /\ nt_only s s' /\
  (forall n f', In n l -> aget n (ws_nt s') = Some f' -> shutting_down f' = true) /\
  (forall m, ~ In m l -> aget m (ws_nt s') = aget m (ws_nt s)).
Proof.
  unfold shut_loop. induction l as [|x l IH]; intros s s' o r Hl H.
  - cbn in H. unfold ret in H. inv H. split; [reflexivity|]. split; [exists []; split; [apply TW_refl|split; reflexivity]|].
    split; [apply nt_only_refl|]. split; [intros n f' []|reflexivity].
  - cbn [mfor] in H. apply StealProofs.mbind_inv in H.
    destruct H as [(e & H1 & ->)|(s1 & o1 & a & o2 & H1 & H2 & ->)].
    + destruct (node_shutdown_TWv _ _ _ _ _ (Hl x (or_introl eq_refl)) H1) as (F & _). discriminate.
    + destruct (node_shutdown_TWv _ _ _ _ _ (Hl x (or_introl eq_refl)) H1) as (_ & (vo1 & T1 & -> & C1) & F1 & S1 & O1).
      assert (Hl1 : forall n, In n l -> aget n (ws_nt s1) <> None).
      { intros n Hn. apply (TW_nt_keys _ _ _ n T1). apply Hl. right. exact Hn. }
      destruct (IH _ _ _ _ Hl1 H2) as (-> & (vo2 & T2 & -> & C2) & F2 & S2 & O2).
      split; [reflexivity|]. split.
      { exists (vo1 ++ vo2). split; [eapply TW_trans; eauto|]. split.
        - rewrite vfilter_app. f_equal. apply vfilter_ext. apply (TW_closed _ _ _ T1).
        - intros m Hm. rewrite cmds_to_app, C1, C2; [reflexivity| |]; intros F; apply Hm; [right; exact F|left; congruence]. }
      split; [eapply nt_only_trans; eauto|].
      split.
      * intros n f' [->|Hn] Ef'.
        -- destruct (NRWo_open _ _ _ _ (tw_nt _ _ _ T2 n) Ef') as (f1 & Ef1 & R).
           specialize (S1 f1 Ef1). destruct (NRW_fields _ _ _ R) as (_ & B & _ & D & _).
           unfold shutting_down in *. rewrite B. apply orb_true_iff in S1. destruct S1 as [S1|S1]; [rewrite S1; reflexivity|].
           assert (X : n_sdsent f' = true) by (apply D; left; exact S1). rewrite X. apply orb_true_r.
        -- eapply S2; eauto.
      * intros m Hm. rewrite O2 by (intros F; apply Hm; right; exact F). apply O1. intros ->. apply Hm. left. reflexivity.
Qed.

(* check_schedule with closed channels: it never raises; its effect; it does nothing when no node is
   up or before the initial distribution; a new withdrawal request needs a non-empty book; shutdown
   commands are sent only when the pool is empty and no request is outstanding; a new request is sent only
   when some node is up, and then no shutdown command is sent *)
Definition CHKX (s s' : wsstate) (o : list out) : Prop :=
  exists vo, TW s s' vo /\ o = vfilter (ws_nt s) vo /\
    (has_sd vo -> ws_pending s' = [] /\ ws_steal s' = None /\ ws_coll s <> None) /\
    (ws_steal s' <> ws_steal s -> no_sd vo /\ ws_up s <> []).

Theorem check_TWv s s' o r :
  ws_check_schedule s = (s', o, r) ->
  r = Ok tt /\ CHKX s s' o /\ (ws_up s = [] -> s' = s /\ o = []) /\ (ws_coll s = None -> s' = s /\ o = []) /\
  Permutation (wtokens s') (wtokens s) /\
  (ws_steal s' = ws_steal s \/ wtokens s <> []).
Proof.
  intros H. pose proof (W10_check_schedule_never_raises _ _ _ _ H) as ->. split; [reflexivity|].
  pose proof (proj1 (W5_conservation _ _ _ _ H)) as Ptok.
  assert (CREFL : CHKX s s []).
  { exists []. split; [apply TW_refl|]. split; [reflexivity|]. split; [intros (n & [])|]. intros F. exfalso. apply F. reflexivity. }
  assert (TRIV : s' = s -> o = [] ->
    CHKX s s' o /\ (ws_up s = [] -> s' = s /\ o = []) /\ (ws_coll s = None -> s' = s /\ o = []) /\
    Permutation (wtokens s') (wtokens s) /\ (ws_steal s' = ws_steal s \/ wtokens s <> [])).
  { intros -> ->. split; [exact CREFL|]. split; [auto|]. split; [auto|]. split; [reflexivity|left; reflexivity]. }
  rewrite check_schedule_eq in H.
  destruct (ws_coll s) as [coll|] eqn:Ec; [|inv H; apply TRIV; reflexivity].
  destruct (ws_idle s (ws_up s)) as [|i0 il] eqn:Ei; [inv H; apply TRIV; reflexivity|].
  assert (Hidle : forall n, In n (i0 :: il) -> In n (ws_up s)).
  { intros n Hn. rewrite <- Ei in Hn. apply ws_idle_spec in Hn. tauto. }
  assert (Hupne : ws_up s <> []) by (intros F; specialize (Hidle i0 (or_introl eq_refl)); rewrite F in Hidle; destruct Hidle).
  destruct (match ws_pending s with [] => (s, [], Ok tt) | _ :: _ => ws_distribute (i0 :: il) s end)
    as [[s1 o1] r1] eqn:E1.
  assert (D : r1 = Ok tt /\ TWvn s s1 o1 /\ ws_nt s1 = ws_nt s /\ ws_steal s1 = ws_steal s /\
              Permutation (wtokens s1) (wtokens s) /\ ws_pending s1 = []).
  { destruct (ws_pending s) as [|p0 pl] eqn:Ep.
    - inv E1. split; [reflexivity|]. split; [apply TWvn_refl|]. split; [reflexivity|]. split; [reflexivity|]. split; [reflexivity|exact Ep].
    - pose proof (distribute_post _ _ _ _ _ E1) as DP.
      destruct (distribute_TWv (i0 :: il) s s1 o1 r1) as (A & B & C & D0 & F); [|exact E1|].
      + intros n Hn. apply up_ready. apply Hidle. exact Hn.
      + split; [exact A|]. split; [exact B|]. split; [exact C|]. split; [exact D0|].
        split; [|apply F; discriminate]. destruct DP as (_ & DP & _). apply DP. exact A. }
  destruct D as (-> & (vo1 & T1 & -> & NS1) & N1 & S1 & P1 & Pe1).
  destruct (ws_phase2 (ws_up s) s1) as [[s2 o2] r2] eqn:E2. inv H.
  destruct (tw_keeps _ _ _ T1) as (Kc & Kn & Km & Kk).
  assert (Hup1 : forall m, In m (ws_up s) -> aget m (ws_nt s1) <> None).
  { intros m Hm. rewrite N1. apply up_ready. exact Hm. }
  assert (CL1 : forall m, closedb (ws_nt s1) m = closedb (ws_nt s) m) by (intros m; rewrite N1; reflexivity).
  assert (NOSD1 : ~ has_sd vo1) by (intros (n & Hn); exact (NS1 n Hn)).
  assert (CSAME : s' = s1 -> o2 = [] -> CHKX s s' (vfilter (ws_nt s) vo1 ++ o2)).
  { intros -> ->. rewrite app_nil_r. exists vo1. split; [exact T1|]. split; [reflexivity|].
    split; [intros F; contradiction|]. intros F. exfalso. apply F. exact S1. }
  split; [|split; [|split; [discriminate|split; [exact Ptok|]]]].
  2:{ intros Hu. contradiction. }
  - (* the effect *)
    unfold ws_phase2, steal_res, MIN_PENDING in E2.
    destruct (ws_idle s1 (ws_up s)) as [|j0 jl] eqn:Ej; [inv E2; apply CSAME; reflexivity|].
    destruct (ws_steal s1) as [m|] eqn:Es; [inv E2; apply CSAME; reflexivity|].
    assert (SHUT : forall s3 o3 r3, shut_loop (j0 :: jl) s1 = (s3, o3, r3) -> CHKX s s3 (vfilter (ws_nt s) vo1 ++ o3)).
    { intros s3 o3 r3 Hsl.
      assert (Hl1 : forall n, In n (j0 :: jl) -> aget n (ws_nt s1) <> None).
      { intros n Hn. apply Hup1. rewrite <- Ej in Hn. apply ws_idle_spec in Hn. tauto. }
      destruct (shut_loop_TWv _ _ _ _ _ Hl1 Hsl) as (_ & (vo3 & T3 & E3 & _) & F3 & _).
      destruct F3 as (F31 & F32 & F33 & F34 & _).
      exists (vo1 ++ vo3). split; [eapply TW_trans; eauto|]. split.
      - rewrite vfilter_app, E3. f_equal. apply vfilter_ext. exact CL1.
      - split; [intros _; split; [congruence|split; [congruence|rewrite Ec; discriminate]]|]. intros F. exfalso. apply F. congruence. }
    destruct (first_max s1 (ws_up s) None) as [v|] eqn:Ev; [|eapply SHUT; exact E2].
    pose proof (first_max_in _ _ _ _ Ev) as [Hv|Hv]; [|discriminate].
    destruct (Nat.min (ws_len s1 v / 2) (ws_len s1 v - 2)) as [|k] eqn:Ek; [eapply SHUT; exact E2|].
    destruct (up_ready s v Hv) as ((Rp & f & Ef & Hs) & _).
    destruct (aget v (ws_n2p s1)) as [vp|] eqn:Evp.
    2:{ exfalso. apply LoadProofs.aget_none_keys in Evp. apply Evp. rewrite Kk. apply LoadProofs.aget_In_keys. exact Rp. }
    rewrite N1, Ef in E2. inv E2.
    assert (T2 : TW s1 (ws_set_steal s1 (Some v)) [OSend v (CSteal (py_lastn (S k) vp))]).
    { constructor; wsproj.
      + intros m. rewrite cmds_to_one. destruct (Nat.eqb v m) eqn:E.
        * apply Nat.eqb_eq in E. subst m. rewrite N1, Ef. cbn. apply NRW_steal; [exact Hs|constructor].
        * apply NRWo_refl.
      + intros m. unfold bkw. wsproj. rewrite cmds_to_one. destruct (Nat.eqb v m); cbn; rewrite app_nil_r; reflexivity.
      + unfold keepsw. wsproj. auto.
      + intros m. rewrite Es, cmds_to_one. cbn [cnt]. destruct (Nat.eqb v m); unfold nstc; cbn; lia.
      + intros v0 E. inv E. right. apply LoadProofs.aget_In_keys. congruence.
      + exists []. reflexivity. }
    assert (NS2 : no_sd [OSend v (CSteal (py_lastn (S k) vp))]).
    { intros m Hin. rewrite cmds_to_one in Hin. destruct (Nat.eqb v m); [destruct Hin as [F|[]]; discriminate|destruct Hin]. }
    exists (vo1 ++ [OSend v (CSteal (py_lastn (S k) vp))]). split; [eapply TW_trans; eauto|]. split.
    + rewrite vfilter_app. f_equal. symmetry. apply vfilter_send. exact Ef.
    + pose proof (no_sd_app _ _ NS1 NS2) as NS. split; [intros (n & Hn); exfalso; exact (NS n Hn)|].
      intros _. split; [exact NS|exact Hupne].
  - (* a new request needs something to withdraw *)
    unfold ws_phase2, steal_res, MIN_PENDING in E2.
    destruct (ws_idle s1 (ws_up s)) as [|j0 jl] eqn:Ej; [inv E2; left; exact S1|].
    destruct (ws_steal s1) as [m|] eqn:Es; [inv E2; left; congruence|].
    assert (SHUT : forall s3 o3 r3, shut_loop (j0 :: jl) s1 = (s3, o3, r3) -> ws_steal s3 = ws_steal s).
    { intros s3 o3 r3 Hsl. destruct (shut_loop_frame _ _ _ _ _ Hsl) as ((_ & _ & _ & F4 & _) & _). congruence. }
    destruct (first_max s1 (ws_up s) None) as [v|] eqn:Ev; [|left; eapply SHUT; exact E2].
    destruct (Nat.min (ws_len s1 v / 2) (ws_len s1 v - 2)) as [|k] eqn:Ek; [left; eapply SHUT; exact E2|].
    right. intros Htok. rewrite Htok in P1. apply Permutation_sym, Permutation_nil in P1.
    assert (Hb : wbooks s1 = []) by (unfold StealProofs.tokens in P1; apply app_eq_nil in P1; tauto).
    assert (Hlen : ws_len s1 v = 0).
    { rewrite ws_len_bkw. destruct (bkw s1 v) as [|i l] eqn:Eb; [reflexivity|exfalso].
      assert (Hi : In i (bkw s1 v)) by (rewrite Eb; left; reflexivity).
      apply in_bkw_books in Hi. rewrite Hb in Hi. destruct Hi. }
    rewrite Hlen in Ek. cbn in Ek. discriminate.
Qed.

(* ====================================================================================== *)
(* C. the controller                                                                       *)
(* ====================================================================================== *)
Lemma NRWo_outx (a b : option nctl) cs : a = None -> NRWo a cs b -> cs = [] /\ b = None.
Proof. intros -> H. destruct b; cbn in H; [destruct H|auto]. Qed.

Lemma length_aset_gex {V} n (v : V) m : length m <= length (aset n v m).
Proof. induction m as [|[k x] m IH]; cbn; [lia|]. destruct (Nat.eqb n k); cbn; lia. Qed.

Lemma in_vfilter_hook nt h vo : In (OHook h) (vfilter nt vo) <-> In (OHook h) vo.
Proof. unfold vfilter. rewrite filter_In. cbn. tauto. Qed.

Section CtlX.
Variable N : nat.                      (* the initial number of workers (numnodes never changes) *)
Variable collf : nat -> list string.   (* what worker n collects (replacement workers included) *)
Hypothesis HN : 0 < N.

(* the scheduler's own invariant; node ids range below the group counter G *)
Record LJX (G : nat) (ws : wsstate) : Prop := {
  xj_num : ws_numnodes ws = N;
  xj_ntk : forall n, aget n (ws_nt ws) <> None <-> n < G;
  xj_nodes : forall n, In n (ws_nodes ws) -> n < G;
  xj_wf : NoDup (ws_nodes ws);
  xj_n2c : forall n, In n (akeys (ws_n2c ws)) -> n < G;
  xj_cc : ws_coll ws <> None -> ws_collection_is_completed ws = true;
  xj_ids : forall k ids, In (k, ids) (ws_n2c ws) -> ids = collf k;
  xj_cin : forall X, ws_coll ws = Some X -> exists k, X = collf k;
  xj_st : forall v, ws_steal ws = Some v -> In v (ws_nodes ws);
  xj_nd : NoDup (wtokens ws);
  xj_b0 : ws_coll ws = None -> wtokens ws = [];
  xj_valid : forall X, ws_coll ws = Some X -> forall i, In i (wtokens ws) -> i < length X;
  xj_s0 : forall v, ws_steal ws = Some v -> exists X, ws_coll ws = Some X /\ X <> [];
}.

Lemma nodes_knownx G ws : LJX G ws -> forall n, In n (ws_nodes ws) -> aget n (ws_nt ws) <> None.
Proof. intros J n Hn. apply (xj_ntk _ _ J). apply (xj_nodes _ _ J). exact Hn. Qed.

Lemma completed_keepsw ws ws' :
  ws_n2c ws' = ws_n2c ws -> ws_numnodes ws' = ws_numnodes ws ->
  ws_collection_is_completed ws' = ws_collection_is_completed ws.
Proof. intros A B. unfold ws_collection_is_completed. rewrite A, B. reflexivity. Qed.

(* a scheduling step keeps the scheduler invariant *)
Lemma LJX_TW G ws ws' vo :
  LJX G ws -> TW ws ws' vo -> Permutation (wtokens ws') (wtokens ws) ->
  (ws_steal ws' = ws_steal ws \/ wtokens ws <> []) -> LJX G ws'.
Proof.
  intros J T P HS. destruct (tw_keeps _ _ _ T) as (Kc & Kn & Km & Kk).
  pose proof (completed_keepsw ws ws' Kn Km) as Kcomp. constructor.
  - rewrite Km. apply J.
  - intros n. rewrite (TW_nt_keys _ _ _ n T). apply J.
  - unfold ws_nodes. rewrite Kk. apply J.
  - unfold ws_nodes. rewrite Kk. apply J.
  - rewrite Kn. apply J.
  - rewrite Kc, Kcomp. apply J.
  - rewrite Kn. apply J.
  - rewrite Kc. apply J.
  - intros v Hv. unfold ws_nodes. rewrite Kk. destruct (tw_stin _ _ _ T v Hv) as [X|X]; [apply (xj_st _ _ J); exact X|exact X].
  - eapply Permutation_NoDup; [apply Permutation_sym; exact P|apply J].
  - rewrite Kc. intros Ec. apply Permutation_nil. rewrite P, (xj_b0 _ _ J Ec). reflexivity.
  - rewrite Kc. intros X Ec i Hi. apply (xj_valid _ _ J X Ec). eapply Permutation_in; eauto.
  - intros v Hv. rewrite Kc. destruct HS as [E|Hne].
    + apply (xj_s0 _ _ J v). congruence.
    + destruct (ws_coll ws) as [X|] eqn:Ec; [|exfalso; apply Hne; apply (xj_b0 _ _ J Ec)].
      exists X. split; [reflexivity|]. intros ->. destruct (wtokens ws) as [|i t] eqn:Et; [contradiction|].
      pose proof (xj_valid _ _ J [] Ec i) as V. rewrite Et in V. specialize (V (or_introl eq_refl)). cbn in V. lia.
Qed.

Lemma LJX_check G mid ws1 o r :
  LJX G mid -> ws_check_schedule mid = (ws1, o, r) ->
  r = Ok tt /\ LJX G ws1 /\ exists vo, TW mid ws1 vo /\ o = vfilter (ws_nt mid) vo /\
    (has_sd vo -> ws_pending ws1 = [] /\ ws_steal ws1 = None /\ ws_coll mid <> None) /\
    (ws_steal ws1 <> ws_steal mid -> no_sd vo /\ ws_up mid <> []).
Proof.
  intros J H. destruct (check_TWv _ _ _ _ H) as (-> & (vo & T & Eo & C1 & C2) & _ & _ & P & HS).
  split; [reflexivity|]. split; [eapply LJX_TW; eauto|]. exists vo. auto.
Qed.

(* steps that only touch node flags *)
Lemma LJX_flags G ws ws' vo : LJX G ws -> TW ws ws' vo -> nt_only ws ws' -> LJX G ws'.
Proof.
  intros J T F. eapply LJX_TW; [exact J|exact T| |].
  - rewrite (nt_only_tokens ws ws' F). reflexivity.
  - left. destruct F as (_ & _ & _ & F4 & _). exact F4.
Qed.

Lemma tokens_nil_of_coll G ws : LJX G ws -> ws_coll ws = None \/ ws_coll ws = Some [] -> wtokens ws = [].
Proof.
  intros J [E|E]; [apply (xj_b0 _ _ J E)|].
  destruct (wtokens ws) as [|i t] eqn:Et; [reflexivity|exfalso].
  pose proof (xj_valid _ _ J [] E i) as V. rewrite Et in V. specialize (V (or_introl eq_refl)). cbn in V. lia.
Qed.

(* before the initial distribution, and when nothing was collected, the session has nothing to do *)
Definition degenerate (ws : wsstate) : Prop :=
  ws_collection_is_completed ws = true /\ (ws_coll ws = None \/ ws_coll ws = Some []).

Lemma degenerate_finished G ws : LJX G ws -> degenerate ws -> ws_tests_finished ws = true.
Proof.
  intros J (C & E). pose proof (tokens_nil_of_coll _ _ J E) as T.
  unfold StealProofs.tokens in T. apply app_eq_nil in T. destruct T as (P0 & B0).
  assert (S0 : ws_steal ws = None).
  { destruct (ws_steal ws) as [v|] eqn:Es; [|reflexivity]. destruct (xj_s0 _ _ J v Es) as (X & Ec & HX).
    destruct E as [E|E]; rewrite E in Ec; [discriminate|]. inv Ec. contradiction. }
  unfold ws_tests_finished, MIN_PENDING. rewrite C, P0, S0. cbn [andb]. apply books_nil_forallb. exact B0.
Qed.

(* ---- the controller's invariant ---- *)
(* every worker collects the same list: needed for "no active workers" never to happen, for nothing else *)
Definition SAMEX : Prop := forall n, collf n = collf 0.
(* some active node has not been told to shut down / there is nothing left to hand out *)
Definition UX (act : list nat) (ws : wsstate) : Prop :=
  exists k f, In k act /\ aget k (ws_nt ws) = Some f /\ n_sdsent f = false.
Definition QX (ws : wsstate) : Prop :=
  ws_collection_is_completed ws = true /\ ws_pending ws = [] /\ ws_steal ws = None.

Record DJX0 (d : dstate) (ws : wsstate) : Prop := {
  xd_sched : d_sched d = StW ws;
  xd_lj : LJX (d_next_gw d) ws;
  xd_alt : forall n, In n (d_active d) -> n < d_next_gw d;
  xd_rq : d_requeue d = 0 \/ forall k, NoDup (collf k);
  xd_b : d_shouldstop d = false -> incl (ws_nodes ws) (d_active d);
  xd_k2 : SAMEX -> d_shuttingdown d = false -> d_shouldstop d = false -> UX (d_active d) ws \/ QX ws;
}.
(* at the start of a loop iteration: a session that is not shutting down has a non-empty collection
   once the collection is complete *)
Definition DJX (d : dstate) (ws : wsstate) : Prop :=
  DJX0 d ws /\ (degenerate ws -> d_shuttingdown d = true) /\ (d_shouldstop d = true -> d_shuttingdown d = true).

Definition PREX (ev : cevent) (d : dstate) (ws : wsstate) : Prop :=
  match ev with
  | QReady n => n < d_next_gw d /\ In n (d_active d) /\ (d_shuttingdown d = false -> ~ In n (ws_nodes ws))
  | QCollFinish n ids => n < d_next_gw d /\ ids = collf n
  | QComplete n i _ => In i (bkw ws n)
  | QUnscheduled n ixs => ws_steal ws = Some n /\ exists rest, Permutation (bkw ws n) (ixs ++ rest)
  | QFinished n SKNone => In n (d_active d) /\ (In n (ws_nodes ws) -> aget n (ws_n2p ws) = Some []) /\
                          ws_steal ws <> Some n /\ (exists f, aget n (ws_nt ws) = Some f /\ n_sdsent f = true)
  | QFinished n SKStop => In n (d_active d)
  | QErrorDown n => In n (d_active d)
  | QFinished _ SKKbd | QInternalError _ => False
  | _ => True
  end.

Definition bookmidx (ev : cevent) (m : nat) (b : list nat) : list nat :=
  match ev with
  | QErrorDown n => if Nat.eqb m n then [] else b
  | _ => bookmidw ev m b
  end.

(* the effect of a handler (and, later, of a whole loop iteration); vo are the virtual outputs *)
Record HEFFX (ev : cevent) (d : dstate) (ws : wsstate) (d1 : dstate) (ws1 : wsstate) (vo : list out) : Prop := {
  hx_dj : DJX0 d1 ws1;
  hx_nt : forall m, m < d_next_gw d -> NRWo (aget m (ws_nt ws)) (cmds_to m vo) (aget m (ws_nt ws1));
  hx_out : forall m, d_next_gw d <= m -> cmds_to m vo = [];
  hx_bk : forall m, bkw ws1 m = bookmidx ev m (bkw ws m) ++ flat_map cmd_inds (cmds_to m vo);
  hx_steal : forall m, ev <> QErrorDown m ->
             cnt (ws_steal ws) m + nstc (cmds_to m vo) = cnt (ws_steal ws1) m + unsev ev m;
  hx_nodes : forall m, In m (ws_nodes ws1) -> In m (ws_nodes ws) \/ ev_xsig ev = Some (m, XReady);
  hx_n2c : forall m, In m (akeys (ws_n2c ws1)) -> In m (akeys (ws_n2c ws)) \/ ev_xsig ev = Some (m, XCF);
  hx_act : forall m, In m (d_active d) ->
           In m (d_active d1) \/ (exists b, ev_xsig ev = Some (m, XFin b)) \/ ev = QErrorDown m;
  hx_gw : d_next_gw d1 = d_next_gw d \/
          (d_next_gw d1 = S (d_next_gw d) /\
           (exists f, aget (d_next_gw d) (ws_nt ws1) = Some f /\ fresh_flags f) /\
           In (d_next_gw d) (d_active d1) /\ ~ In (d_next_gw d) (ws_nodes ws1) /\
           ~ In (d_next_gw d) (akeys (ws_n2c ws1)));
  hx_err : forall n, ev = QErrorDown n -> ~ In n (ws_nodes ws1) /\ ~ In n (d_active d1);
  hx_closed : forall m, closedb (ws_nt ws1) m = closedb (ws_nt ws) m;
  hx_actb : forall m, In m (d_active d1) -> In m (d_active d) \/ (m = d_next_gw d /\ d_next_gw d1 = S (d_next_gw d));
}.

Ltac dprx := cbn [d_sched d_shuttingdown d_shouldstop d_active d_countfailures d_maxfail d_failed_nodes
  d_max_restart d_collect_seen d_next_gw d_requeue d_set_sched d_set_active d_set_shouldstop
  d_set_shuttingdown d_set_countfailures d_set_collect_seen d_set_failed_nodes d_set_next_gw d_set_requeue d_withw].

(* the effect of a scheduler call made of a silent update [mid] of the scheduler state followed by
   check_schedule, lifted to HEFFX *)
Lemma TW_out G ws ws' vo : LJX G ws -> TW ws ws' vo -> forall m, G <= m -> cmds_to m vo = [].
Proof.
  intros J T m Hm. pose proof (tw_nt _ _ _ T m) as R.
  assert (E : aget m (ws_nt ws) = None).
  { destruct (aget m (ws_nt ws)) eqn:E0; [|reflexivity]. exfalso.
    assert (X : m < G) by (apply (xj_ntk _ _ J); congruence). lia. }
  exact (proj1 (NRWo_outx _ _ _ E R)).
Qed.

Lemma same_ctl'_DJX0 d ws d1 : DJX0 d ws -> same_ctl' d d1 -> DJX0 d1 ws.
Proof.
  intros [Els J AL RQ JB K2] (S1 & S2 & S3 & S4 & S5 & S6 & S7 & S8). constructor.
  - rewrite S1. exact Els.
  - rewrite S5. exact J.
  - rewrite S3, S5. exact AL.
  - rewrite S6. exact RQ.
  - rewrite S3. intros H. apply JB. apply not_true_false. intros F. rewrite (S4 F) in H. discriminate.
  - rewrite S2, S3. intros HS H1 H2. apply K2; [exact HS|exact H1|]. apply not_true_false. intros F. rewrite (S4 F) in H2. discriminate.
Qed.

Lemma heff_samex ev d ws d1 :
  DJX0 d ws -> same_ctl' d d1 ->
  (forall m b, bookmidx ev m b = b) -> (forall m, unsev ev m = 0) -> (forall m b, ev_xsig ev <> Some (m, XFin b)) ->
  (forall n, ev <> QErrorDown n) ->
  forall vo, (forall m, cmds_to m vo = []) ->
  HEFFX ev d ws d1 ws vo.
Proof.
  intros J0 S Hb Hu Hf Hne vo Hc. pose proof S as (S1 & S2 & S3 & S4 & S5 & S6 & S7 & S8). constructor.
  - eapply same_ctl'_DJX0; eauto.
  - intros m _. rewrite Hc. apply NRWo_refl.
  - intros m _. apply Hc.
  - intros m. rewrite Hc, Hb. cbn. rewrite app_nil_r. reflexivity.
  - intros m _. rewrite Hc, Hu. unfold nstc. cbn. lia.
  - auto.
  - auto.
  - intros m Hm. left. rewrite S3. exact Hm.
  - left. exact S5.
  - intros n E. exfalso. exact (Hne n E).
  - reflexivity.
  - intros m Hm. left. rewrite <- S3. exact Hm.
Qed.

(* ---- triggershutdown and the end of a loop iteration ---- *)
Lemma trigger_effx G d ws d' o r :
  d_sched d = StW ws -> LJX G ws ->
  d_triggershutdown d = (d', o, r) ->
  r = Ok tt /\ exists ws' vo, d' = d_withw d true ws' /\ TW ws ws' vo /\ o = vfilter (ws_nt ws) vo /\ nt_only ws ws' /\
    (d_shuttingdown d = true -> ws' = ws /\ vo = []) /\ Forall not_hook o /\
    (forall m, ~ In m (ws_nodes ws) -> cmds_to m vo = []).
Proof.
  intros Els J H.
  assert (NHT : nohook d_triggershutdown).
  { unfold d_triggershutdown. nh; try (unfold d_node_shutdown; apply nohook_node_shutdown). }
  pose proof (NHT _ _ _ _ H) as NH.
  unfold d_triggershutdown in H. unfold mbind at 1, get in H.
  destruct (d_shuttingdown d) eqn:Esd.
  - unfold ret in H. injection H as <- <- <-. split; [reflexivity|]. exists ws, [].
    split. { unfold d_withw. destruct d; cbn in *; subst; reflexivity. }
    split; [apply TW_refl|]. split; [reflexivity|]. split; [apply nt_only_refl|]. split; [auto|]. split; [constructor|reflexivity].
  - unfold mbind, put in H.
    rewrite (mfor_liftW d_node_shutdown (fun n => node_shutdown ws_nt ws_set_nt n) _ d_node_shutdown_liftw
               (d_set_shuttingdown d true) ws) in H by exact Els.
    rewrite Els in H. cbn [s_nodes] in H.
    destruct (mfor (ws_nodes ws) (fun n => node_shutdown ws_nt ws_set_nt n) ws) as [[ws2 o2] r2] eqn:Em.
    cbn [liftW app] in H. inv H.
    destruct (shut_loop_TWv _ _ _ _ _ (nodes_knownx G ws J) Em) as (-> & (vo & T & Eo & Co) & F & _).
    split; [reflexivity|]. exists ws2, vo. split; [reflexivity|]. split; [exact T|]. split; [exact Eo|].
    split; [exact F|]. split; [discriminate|]. split; [exact NH|exact Co].
Qed.

Lemma loop_rest_effx G d ws d' o r :
  d_sched d = StW ws -> LJX G ws ->
  loop_rest d = (d', o, r) ->
  r = Ok tt /\ exists ws' vo,
    d' = d_withw d (d_shuttingdown d || ws_tests_finished ws || d_shouldstop d) ws' /\
    TW ws ws' vo /\ o = vfilter (ws_nt ws) vo /\ nt_only ws ws' /\
    (forall m, ~ In m (ws_nodes ws) -> cmds_to m vo = []) /\
    (d_shuttingdown d || ws_tests_finished ws || d_shouldstop d = false -> ws' = ws).
Proof.
  intros Els J H. unfold loop_rest in H.
  apply LoadProofs.mbind_inv in H. destruct H as [(e & H1 & ->)|(d1 & o1 & a & o2 & H1 & H2 & ->)].
  - exfalso. unfold mbind at 1, get in H1. rewrite Els in H1. cbn [s_tests_finished] in H1.
    destruct (ws_tests_finished ws).
    + destruct (d_triggershutdown d) as [[dx ox] rx] eqn:Et.
      destruct (trigger_effx _ _ _ _ _ _ Els J Et) as (-> & _). inv H1.
    + unfold ret in H1. inv H1.
  - unfold mbind at 1, get in H1. rewrite Els in H1. cbn [s_tests_finished] in H1.
    unfold mbind at 1, get in H2.
    destruct (ws_tests_finished ws) eqn:Etf.
    + destruct (d_triggershutdown d) as [[dx ox] rx] eqn:Et.
      destruct (trigger_effx _ _ _ _ _ _ Els J Et) as (-> & ws1 & vo & -> & T1 & E1 & F1 & _ & _ & C1). inv H1.
      assert (Z : forall b : bool, (if b then d_triggershutdown else ret tt) (d_withw d true ws1)
                  = (d_withw d true ws1, [], Ok tt)).
      { intros [|]; [|reflexivity]. unfold d_triggershutdown, mbind, get. reflexivity. }
      rewrite Z in H2. inv H2. rewrite app_nil_r, orb_true_r. cbn [orb].
      split; [reflexivity|]. exists ws1, vo. split; [reflexivity|]. split; [exact T1|]. split; [reflexivity|].
      split; [exact F1|]. split; [exact C1|discriminate].
    + unfold ret in H1. inv H1. cbn [app]. rewrite orb_false_r.
      destruct (d_shouldstop d1) eqn:Ess.
      * destruct (d_triggershutdown d1) as [[dx ox] rx] eqn:Et.
        destruct (trigger_effx _ _ _ _ _ _ Els J Et) as (-> & ws1 & vo & -> & T1 & E1 & F1 & _ & _ & C1). inv H2.
        rewrite orb_true_r. split; [reflexivity|]. exists ws1, vo. split; [reflexivity|]. split; [exact T1|]. split; [reflexivity|].
        split; [exact F1|]. split; [exact C1|discriminate].
      * unfold ret in H2. inv H2. rewrite orb_false_r. split; [reflexivity|]. exists ws, [].
        split. { unfold d_withw. destruct d'; cbn in *; subst; reflexivity. }
        split; [apply TW_refl|]. split; [reflexivity|]. split; [apply nt_only_refl|]. split; [reflexivity|reflexivity].
Qed.


(* what a scheduling step says about shutdown commands and new withdrawal requests *)
Definition C12 (mid ws1 : wsstate) (vo : list out) : Prop :=
  (has_sd vo -> ws_pending ws1 = [] /\ ws_steal ws1 = None /\ ws_coll mid <> None) /\
  (ws_steal ws1 <> ws_steal mid -> no_sd vo /\ ws_up mid <> []).

Lemma C12_nil mid : C12 mid mid [].
Proof. split; [intros (n & [])|]. intros F. exfalso. apply F. reflexivity. Qed.

(* a session that still has an active node that was not told to shut down, or has nothing left to hand
   out, stays so over a scheduling step *)
Lemma k2_check G act mid ws1 vo :
  LJX G ws1 -> TW mid ws1 vo -> incl (ws_nodes mid) act -> C12 mid ws1 vo ->
  UX act mid \/ QX mid -> UX act ws1 \/ QX ws1.
Proof.
  intros J1 T Hincl (C1 & C2) H. destruct (tw_keeps _ _ _ T) as (Kc & Kn & Km & Kk).
  assert (SDQ : has_sd vo -> QX ws1).
  { intros Hsd. destruct (C1 Hsd) as (P0 & S0 & Hc). split; [|auto]. apply (xj_cc _ _ J1). rewrite Kc. exact Hc. }
  destruct H as [(k & f & Hk & Ef & Hs)|(Qc & Qp & Qs)].
  - pose proof (tw_nt _ _ _ T k) as R0. rewrite Ef in R0.
    destruct (aget k (ws_nt ws1)) as [f'|] eqn:Ef'; [|destruct R0]. cbn in R0.
    destruct (NRW_fields _ _ _ R0) as (_ & _ & _ & D & _).
    destruct (n_sdsent f') eqn:Es'.
    + right. apply SDQ. destruct (proj1 D eq_refl) as [F|F]; [congruence|]. exists k. exact F.
    + left. exists k, f'. auto.
  - destruct (ws_steal ws1) as [v|] eqn:Es1.
    + rewrite Qs in C2. destruct (C2 ltac:(discriminate)) as (NS & Hup).
      destruct (ws_up mid) as [|k l] eqn:Eu; [contradiction|].
      assert (Hk : In k (ws_up mid)) by (rewrite Eu; left; reflexivity).
      apply ws_up_spec in Hk. destruct Hk as (Hk1 & c0 & Ec0 & Hsd0 & _).
      pose proof (tw_nt _ _ _ T k) as R0. rewrite Ec0 in R0.
      destruct (aget k (ws_nt ws1)) as [f'|] eqn:Ef'; [|destruct R0]. cbn in R0.
      destruct (NRW_fields _ _ _ R0) as (_ & _ & _ & D & _).
      left. exists k, f'. split; [apply Hincl; exact Hk1|]. split; [exact Ef'|].
      destruct (n_sdsent f') eqn:Es'; [|reflexivity]. exfalso. destruct (proj1 D eq_refl) as [F|F].
      * unfold shutting_down in Hsd0. apply orb_false_iff in Hsd0. destruct Hsd0 as (_ & X). congruence.
      * exact (NS k F).
    + right. split; [|split; [|exact Es1]].
      * unfold ws_collection_is_completed in *. rewrite Km, Kn. exact Qc.
      * destruct (tw_pend _ _ _ T) as (moved & Em). rewrite Qp in Em. symmetry in Em. apply app_eq_nil in Em. tauto.
Qed.

(* a handler that changes the scheduler state by a silent update [mid] followed by a scheduling step *)
Lemma heff_of_TW ev d ws mid ws1 vo pre d1 :
  DJX0 d ws ->
  d_sched d1 = StW ws1 -> d_next_gw d1 = d_next_gw d -> d_requeue d1 = d_requeue d ->
  (forall m, In m (d_active d1) -> In m (d_active d)) ->
  (forall m, In m (d_active d) -> In m (d_active d1) \/ (exists b, ev_xsig ev = Some (m, XFin b))) ->
  (d_shouldstop d1 = false -> d_shouldstop d = false /\ incl (ws_nodes mid) (d_active d1)) ->
  LJX (d_next_gw d) ws1 -> TW mid ws1 vo -> (forall m, cmds_to m pre = []) ->
  ws_nt mid = ws_nt ws ->
  (forall m, bkw mid m = bookmidx ev m (bkw ws m)) ->
  (forall m, cnt (ws_steal ws) m = cnt (ws_steal mid) m + unsev ev m) ->
  (forall m, In m (ws_nodes mid) -> In m (ws_nodes ws) \/ ev_xsig ev = Some (m, XReady)) ->
  (forall m, In m (akeys (ws_n2c mid)) -> In m (akeys (ws_n2c ws)) \/ ev_xsig ev = Some (m, XCF)) ->
  (forall n, ev <> QErrorDown n) ->
  (SAMEX -> d_shuttingdown d1 = false -> d_shouldstop d1 = false -> (UX (d_active d1) mid \/ QX mid) /\ C12 mid ws1 vo) ->
  HEFFX ev d ws d1 ws1 (pre ++ vo).
Proof.
  intros [Els J AL RQ JB K2] E1 E2 E3 A1 A2 A3 J1 T Hpre Ent Hbk Hst Hnodes Hn2c Hne K2M.
  destruct (tw_keeps _ _ _ T) as (Kc & Kn & Km & Kk).
  assert (CC : forall m, cmds_to m (pre ++ vo) = cmds_to m vo) by (intros m; rewrite cmds_to_app, Hpre; reflexivity).
  constructor.
  - constructor; [exact E1|rewrite E2; exact J1|intros n Hn; rewrite E2; apply AL; apply A1; exact Hn|rewrite E3; exact RQ| |].
    + intros Hs. unfold ws_nodes. rewrite Kk. exact (proj2 (A3 Hs)).
    + intros HS H1 H2. destruct (K2M HS H1 H2) as (KA & KB).
      exact (k2_check (d_next_gw d) (d_active d1) mid ws1 vo J1 T (proj2 (A3 H2)) KB KA).
  - intros m _. rewrite CC, <- Ent. apply (tw_nt _ _ _ T m).
  - intros m Hm. rewrite CC. pose proof (tw_nt _ _ _ T m) as R. rewrite Ent in R.
    assert (E : aget m (ws_nt ws) = None).
    { destruct (aget m (ws_nt ws)) eqn:E0; [|reflexivity]. exfalso.
      assert (X : m < d_next_gw d) by (apply (xj_ntk _ _ J); congruence). lia. }
    exact (proj1 (NRWo_outx _ _ _ E R)).
  - intros m. rewrite CC, (tw_bk _ _ _ T m), Hbk. reflexivity.
  - intros m _. rewrite CC. pose proof (tw_steal _ _ _ T m) as X. rewrite (Hst m). lia.
  - intros m Hm. apply Hnodes. unfold ws_nodes in *. rewrite <- Kk. exact Hm.
  - intros m Hm. apply Hn2c. rewrite <- Kn. exact Hm.
  - intros m Hm. destruct (A2 m Hm) as [X|X]; [left; exact X|right; left; exact X].
  - left. exact E2.
  - intros n E. exfalso. exact (Hne n E).
  - intros m. rewrite (TW_closed _ _ _ T m), Ent. reflexivity.
  - intros m Hm. left. apply A1. exact Hm.
Qed.

Lemma vfilter_pre nt pre vo : (forall m, cmds_to m pre = []) -> vfilter nt (pre ++ vo) = pre ++ vfilter nt vo.
Proof. intros H. rewrite vfilter_app, (vfilter_quiet nt pre H). reflexivity. Qed.

Lemma sched_op_runx op d ws :
  d_sched d = StW ws ->
  d_sched_op op d = let '(st, o, r) := s_step (StW ws) op in (d_set_sched d st, o, r).
Proof. intros Els. unfold d_sched_op. rewrite Els. reflexivity. Qed.

(* ---- workerready ---- *)
Lemma handle_readyx n d ws d1 o1 r :
  DJX d ws -> PREX (QReady n) d ws ->
  d_handle (QReady n) d = (d1, o1, r) ->
  r = Ok tt /\ exists ws1 vo, o1 = vfilter (ws_nt ws) vo /\ HEFFX (QReady n) d ws d1 ws1 vo.
Proof.
  intros (J0 & _) (HnG & Hact & Hpre) H. pose proof J0 as [Els J AL RQ JB K2].
  cbn [d_handle] in H. unfold hook in H. rewrite mbind_emit, mbind_get in H.
  assert (PRE1 : forall m, cmds_to m [OHook (HNodeReady n)] = []) by reflexivity.
  destruct (d_shuttingdown d) eqn:Esd.
  - rewrite (d_node_shutdown_liftw n d ws Els) in H.
    destruct (node_shutdown ws_nt ws_set_nt n ws) as [[ws1 o2] r2] eqn:En. cbn [liftW] in H. inv H.
    assert (Hk : aget n (ws_nt ws) <> None) by (apply (xj_ntk _ _ J); exact HnG).
    destruct (node_shutdown_TWv _ _ _ _ _ Hk En) as (-> & (vo & T & -> & _) & F & _).
    split; [reflexivity|]. exists ws1, ([OHook (HNodeReady n)] ++ vo).
    split; [rewrite (vfilter_pre _ _ _ PRE1); reflexivity|].
    apply (heff_of_TW (QReady n) d ws ws ws1 vo [OHook (HNodeReady n)] _ J0);
      [reflexivity|reflexivity|reflexivity|auto|auto|intros Hs; split; [exact Hs|exact (JB Hs)]
      |eapply LJX_flags; eauto|exact T|exact PRE1|reflexivity
      |reflexivity|intros m; cbn; lia|auto|auto|intros k E; discriminate
      |intros _ FF; cbn in FF; rewrite Esd in FF; discriminate FF].
  - specialize (Hpre eq_refl).
    assert (Ea : aget n (ws_n2p ws) = None) by (apply LoadProofs.aget_none_keys; exact Hpre).
    unfold mbind at 1 in H. rewrite (sched_op_runx _ d ws Els) in H. cbn [s_step] in H.
    unfold ws_add_node, massert, ahas in H. rewrite mbind_get in H. rewrite Ea in H. cbn [negb] in H.
    rewrite mbind_ret in H. unfold put, lift, no_str, ret in H. inv H.
    split; [reflexivity|]. set (ws1 := ws_set_n2p ws (aset n [] (ws_n2p ws))).
    exists ws1, ([OHook (HNodeReady n)] ++ []). split; [reflexivity|].
    assert (Ek : ws_nodes ws1 = ws_nodes ws ++ [n]) by (apply LoadProofs.akeys_aset_new; exact Ea).
    assert (Ebk : forall m, bkw ws1 m = bkw ws m).
    { intros m. unfold bkw, ws1. wsproj. destruct (Nat.eq_dec m n) as [->|Hm].
      - rewrite FifoProofs.alist_get_aset_eq. symmetry. apply alist_get_none. exact Ea.
      - apply FifoProofs.alist_get_aset_neq. exact Hm. }
    apply (heff_of_TW (QReady n) d ws ws1 ws1 [] [OHook (HNodeReady n)] _ J0);
      [reflexivity|reflexivity|reflexivity|auto|auto
      |intros Hs; split; [exact Hs|]; intros m Hm; rewrite Ek in Hm; apply in_app_or in Hm;
       destruct Hm as [Hm|[<-|[]]]; [apply (JB Hs); exact Hm|exact Hact]
      | |apply TW_refl|exact PRE1|reflexivity
      |exact Ebk|intros m; cbn; lia| |auto|intros k E; discriminate
      |intros HS H1 H2; split; [exact (K2 HS eq_refl H2)|apply C12_nil]].
    + constructor; try apply J.
      * intros m Hm. rewrite Ek in Hm. apply in_app_or in Hm.
        destruct Hm as [Hm|[<-|[]]]; [apply (xj_nodes _ _ J); exact Hm|exact HnG].
      * apply akeys_aset_nodup. apply J.
      * intros v Hv. rewrite Ek. apply in_or_app. left. apply (xj_st _ _ J). exact Hv.
      * unfold StealProofs.tokens, StealProofs.books, ws1. wsproj. rewrite (books_add_empty n _ Ea). apply J.
      * intros Ec. unfold StealProofs.tokens, StealProofs.books, ws1. wsproj. rewrite (books_add_empty n _ Ea). apply (xj_b0 _ _ J Ec).
      * intros X Ec i Hi. apply (xj_valid _ _ J X Ec). unfold StealProofs.tokens, StealProofs.books, ws1 in Hi. wsproj.
        rewrite (books_add_empty n _ Ea) in Hi. exact Hi.
    + intros m Hm. rewrite Ek in Hm. apply in_app_or in Hm. destruct Hm as [Hm|[<-|[]]]; [left; exact Hm|right; reflexivity].
Qed.

(* ---- runtest_protocol_complete ---- *)
Lemma handle_completex n i ms d ws d1 o1 r :
  DJX d ws -> PREX (QComplete n i ms) d ws ->
  d_handle (QComplete n i ms) d = (d1, o1, r) ->
  r = Ok tt /\ exists ws1 vo, o1 = vfilter (ws_nt ws) vo /\ HEFFX (QComplete n i ms) d ws d1 ws1 vo.
Proof.
  intros (J0 & _) Hin H. pose proof J0 as [Els J AL RQ JB K2]. cbn [PREX] in Hin.
  assert (Hcur : exists cur, aget n (ws_n2p ws) = Some cur /\ In i cur).
  { unfold bkw, alist_get in Hin. destruct (aget n (ws_n2p ws)) as [cur|]; [eauto|destruct Hin]. }
  destruct Hcur as (cur & Ecur & Hic). destruct (remove_first_in i cur Hic) as (cur' & Erf).
  cbn [d_handle] in H. unfold mbind at 1 in H. rewrite (sched_op_runx _ d ws Els) in H. cbn [s_step] in H.
  destruct (ws_mark_test_complete n i ws) as [[ws1 o2] r2] eqn:Em. cbn [lift] in H.
  pose proof (W8_mark_test_complete n i ws ws1 o2 r2 Em) as PW8.
  unfold ws_mark_test_complete in Em. rewrite mbind_get in Em. rewrite Ecur in Em. cbn [of_opt] in Em.
  rewrite mbind_ret in Em. rewrite Erf in Em. cbn [of_opt] in Em. rewrite mbind_ret, mbind_put in Em.
  set (mid := ws_set_n2p ws (aset n cur' (ws_n2p ws))) in *.
  assert (Kk0 : akeys (ws_n2p mid) = akeys (ws_n2p ws)) by (eapply akeys_aset; eauto).
  assert (Hcoll : ws_coll ws <> None).
  { intros E. pose proof (xj_b0 _ _ J E) as B0. apply (in_bkw_books ws n i) in Hin.
    unfold StealProofs.tokens in B0. apply app_eq_nil in B0. destruct B0 as (_ & B0). rewrite B0 in Hin. destruct Hin. }
  assert (Ptm : Permutation (i :: wtokens mid) (wtokens ws)).
  { unfold StealProofs.tokens, StealProofs.books, mid. wsproj.
    pose proof (books_aset n cur cur' _ Ecur) as P1. pose proof (books_adel n cur _ Ecur) as P2.
    pose proof (remove_first_perm _ _ _ Erf) as P3. perm_count. }
  assert (Jm : LJX (d_next_gw d) mid).
  { constructor; try apply J.
    - unfold ws_nodes. rewrite Kk0. apply J.
    - unfold ws_nodes. rewrite Kk0. apply J.
    - intros v Hv. unfold ws_nodes. rewrite Kk0. apply (xj_st _ _ J). exact Hv.
    - pose proof (xj_nd _ _ J) as ND. apply (Permutation_NoDup (Permutation_sym Ptm)) in ND. inversion ND; assumption.
    - intros E. contradiction.
    - intros X Ec j Hj. apply (xj_valid _ _ J X Ec). eapply Permutation_in; [exact Ptm|right; exact Hj]. }
  destruct (LJX_check _ _ _ _ _ Jm Em) as (-> & J1 & vo & T & -> & CK).
  unfold no_str, ret in H. inv H. rewrite app_nil_r.
  split; [reflexivity|]. exists ws1, ([] ++ vo). split; [reflexivity|].
  apply (heff_of_TW (QComplete n i ms) d ws mid ws1 vo [] _ J0);
    [reflexivity|reflexivity|reflexivity|auto|auto
    |intros Hs; split; [exact Hs|]; unfold ws_nodes; rewrite Kk0; exact (JB Hs)
    |exact J1|exact T|reflexivity|reflexivity
    | |intros m; cbn; lia| |auto|intros k E; discriminate
    |intros HS H1 H2; split; [exact (K2 HS H1 H2)|exact CK]].
  - intros m. unfold bkw, mid. wsproj. cbn [bookmidx bookmidw]. destruct (Nat.eqb m n) eqn:E.
    + apply Nat.eqb_eq in E. subst m. rewrite FifoProofs.alist_get_aset_eq. unfold alist_get. rewrite Ecur, Erf. reflexivity.
    + apply Nat.eqb_neq in E. apply FifoProofs.alist_get_aset_neq. exact E.
  - intros m Hm. left. unfold ws_nodes in *. rewrite Kk0 in Hm. exact Hm.
Qed.

(* ---- the worker's `unscheduled` reply ---- *)
Lemma handle_unschedx n ixs d ws d1 o1 r :
  DJX d ws -> PREX (QUnscheduled n ixs) d ws ->
  d_handle (QUnscheduled n ixs) d = (d1, o1, r) ->
  r = Ok tt /\ exists ws1 vo, o1 = vfilter (ws_nt ws) vo /\ HEFFX (QUnscheduled n ixs) d ws d1 ws1 vo.
Proof.
  intros (J0 & _) (Hst & rest & Prest) H. pose proof J0 as [Els J AL RQ JB K2].
  assert (Hnode : In n (ws_nodes ws)) by (apply (xj_st _ _ J); exact Hst).
  assert (Hcur : exists cur, aget n (ws_n2p ws) = Some cur).
  { apply LoadProofs.aget_In_keys in Hnode. destruct (aget n (ws_n2p ws)) as [cur|]; [eauto|congruence]. }
  destruct Hcur as (cur & Ecur). rewrite (bkw_some ws n cur Ecur) in Prest.
  destruct (xj_s0 _ _ J n Hst) as (X & EcX & HX).
  cbn [d_handle] in H. unfold mbind at 1 in H. rewrite (sched_op_runx _ d ws Els) in H. cbn [s_step] in H.
  rewrite (W6_eq n ixs ws cur Hst Ecur) in H.
  set (mid := rp_mid n ixs ws cur) in *.
  destruct (ws_check_schedule mid) as [[ws1 o2] r2] eqn:Em. cbn [lift] in H.
  assert (NDcur : NoDup cur) by (rewrite <- (bkw_some ws n cur Ecur); apply bkw_nodup; apply J).
  destruct (nodup_perm_disj ixs rest cur NDcur Prest) as (Hdisj & NDix & Hincl).
  assert (Kk0 : akeys (ws_n2p mid) = akeys (ws_n2p ws)) by (unfold mid, rp_mid; wsproj; eapply akeys_aset; eauto).
  assert (Ptm : Permutation (wtokens mid) (wtokens ws)).
  { pose proof (filter_withdraw ixs rest cur Prest Hdisj) as Pfil.
    unfold StealProofs.tokens, StealProofs.books, mid, rp_mid. wsproj.
    pose proof (books_aset n cur (filter (fun i => negb (mem_nat i ixs)) cur) _ Ecur) as P1.
    pose proof (books_adel n cur _ Ecur) as P2. perm_count. }
  assert (Jm : LJX (d_next_gw d) mid).
  { constructor; try apply J.
    - unfold ws_nodes. rewrite Kk0. apply J.
    - unfold ws_nodes. rewrite Kk0. apply J.
    - intros v Hv. discriminate Hv.
    - eapply Permutation_NoDup; [apply Permutation_sym; exact Ptm|apply J].
    - intros E. change (ws_coll mid) with (ws_coll ws) in E. congruence.
    - intros X0 Ec j Hj. apply (xj_valid _ _ J X0 Ec). eapply Permutation_in; [exact Ptm|exact Hj].
    - intros v Hv. discriminate Hv. }
  destruct (LJX_check _ _ _ _ _ Jm Em) as (-> & J1 & vo & T & -> & CK).
  unfold no_str, ret in H. inv H. rewrite app_nil_r.
  split; [reflexivity|]. exists ws1, ([] ++ vo). split; [reflexivity|].
  apply (heff_of_TW (QUnscheduled n ixs) d ws mid ws1 vo [] _ J0);
    [reflexivity|reflexivity|reflexivity|auto|auto
    |intros Hs; split; [exact Hs|]; unfold ws_nodes; rewrite Kk0; exact (JB Hs)
    |exact J1|exact T|reflexivity|reflexivity
    | | | |auto|intros k E; discriminate
    |intros HS H1 H2; split; [|exact CK]; destruct (K2 HS H1 H2) as [XU|(_ & _ & XQ)]; [left; exact XU|congruence]].
  - intros m. unfold bkw, mid, rp_mid. wsproj. cbn [bookmidx bookmidw]. destruct (Nat.eqb m n) eqn:E.
    + apply Nat.eqb_eq in E. subst m. rewrite FifoProofs.alist_get_aset_eq. unfold alist_get. rewrite Ecur. reflexivity.
    + apply Nat.eqb_neq in E. apply FifoProofs.alist_get_aset_neq. exact E.
  - intros m. rewrite Hst. unfold mid, rp_mid. wsproj. cbn [cnt unsev]. lia.
  - intros m Hm. left. unfold ws_nodes in *. rewrite Kk0 in Hm. exact Hm.
Qed.


(* ---- workerfinished ---- *)
Lemma handle_finished_stopx n d ws d1 o1 r :
  DJX d ws -> PREX (QFinished n SKStop) d ws ->
  d_handle (QFinished n SKStop) d = (d1, o1, r) ->
  r = Ok tt /\ exists ws1 vo, o1 = vfilter (ws_nt ws) vo /\ HEFFX (QFinished n SKStop) d ws d1 ws1 vo.
Proof.
  intros (J0 & _) Hpre H. pose proof J0 as [Els J AL RQ JB K2]. cbn [PREX] in Hpre.
  cbn [d_handle] in H. unfold d_worker_workerfinished, hook in H. rewrite mbind_emit in H.
  assert (STEP : exists d2, (d0 <- get;; (if d_shouldstop d0 then ret tt else put (d_set_shouldstop d0 true))) d = (d2, [], Ok tt) /\
            d_sched d2 = d_sched d /\ d_active d2 = d_active d /\ d_next_gw d2 = d_next_gw d /\ d_requeue d2 = d_requeue d /\
            d_shouldstop d2 = true).
  { rewrite mbind_get. destruct (d_shouldstop d) eqn:Ess.
    - exists d. auto 6.
    - eexists. split; [reflexivity|]. auto 6. }
  destruct STEP as (d2 & Erun & S1 & S3 & S5 & S6 & S4).
  unfold mbind at 1 in H. rewrite Erun in H.
  assert (Hina : In n (d_active d2)) by (rewrite S3; exact Hpre).
  rewrite (active_remove_run n d2 Hina) in H. inv H.
  split; [reflexivity|]. exists ws, ([OHook (HNodeDown n false)] ++ []). split; [reflexivity|].
  apply (heff_of_TW (QFinished n SKStop) d ws ws ws [] [OHook (HNodeDown n false)] _ J0);
    [dprx; rewrite S1; exact Els|dprx; exact S5|dprx; exact S6| | |dprx; rewrite S4; discriminate
    |exact J|apply TW_refl|reflexivity|reflexivity
    |reflexivity|intros m; cbn; lia|auto|auto|intros k E; discriminate
    |intros _ _ FF; cbn in FF; rewrite S4 in FF; discriminate FF].
  - dprx. intros m Hm. apply in_filter_neq in Hm. rewrite <- S3. tauto.
  - dprx. intros m Hm. destruct (Nat.eq_dec m n) as [->|Hne]; [right; eexists; reflexivity|].
    left. apply in_filter_neq. rewrite S3. split; assumption.
Qed.

Lemma rn_mid_LJX G n ws rest :
  LJX G ws -> (exists cur, aget n (ws_n2p ws) = Some cur /\ exists hd, cur = hd ++ rest /\ length hd <= 1) ->
  LJX G (rn_mid n ws rest).
Proof.
  intros J (cur & Ecur & hd & -> & Hhd). set (mid := rn_mid n ws rest).
  assert (Hnodes : forall m, In m (ws_nodes mid) -> In m (ws_nodes ws) /\ m <> n).
  { intros m Hm. unfold ws_nodes, mid, rn_mid in Hm. wsproj. split; [eapply StealProofs.adel_keys_incl; eauto|].
    intros ->. exact (StealProofs.adel_not_key _ _ (xj_wf _ _ J) Hm). }
  assert (Hn2c : forall x, In x (ws_n2c mid) -> In x (ws_n2c ws)).
  { intros x. unfold mid, rn_mid. wsproj. destruct (ws_collection_is_completed ws); [auto|]. apply in_adel. }
  assert (Hn2ck : forall m, In m (akeys (ws_n2c mid)) -> In m (akeys (ws_n2c ws))).
  { intros m. unfold mid, rn_mid. wsproj. destruct (ws_collection_is_completed ws); [auto|]. apply StealProofs.adel_keys_incl. }
  assert (Ptok : Permutation (hd ++ wtokens mid) (wtokens ws)).
  { unfold StealProofs.tokens, StealProofs.books, mid, rn_mid. wsproj.
    pose proof (books_adel n _ _ Ecur) as P2. perm_count. }
  assert (Hsub : forall i, In i (wtokens mid) -> In i (wtokens ws)).
  { intros i Hi. eapply Permutation_in; [exact Ptok|]. apply in_or_app. right. exact Hi. }
  constructor.
  - apply J.
  - apply J.
  - intros m Hm. apply (xj_nodes _ _ J). apply Hnodes. exact Hm.
  - unfold ws_nodes, mid, rn_mid. wsproj. apply keys_nodup_adel. apply J.
  - intros m Hm. apply (xj_n2c _ _ J). apply Hn2ck. exact Hm.
  - intros Hc. apply (rn_mid_completed n ws rest). apply (xj_cc _ _ J). exact Hc.
  - intros k ids Hin. apply (xj_ids _ _ J). apply Hn2c. exact Hin.
  - apply (xj_cin _ _ J).
  - intros v Hv. unfold mid, rn_mid in Hv. wsproj. destruct (ws_steal ws) as [m|] eqn:Es; [|discriminate].
    destruct (Nat.eqb m n) eqn:E; [discriminate|]. inv Hv. apply Nat.eqb_neq in E.
    unfold ws_nodes, mid, rn_mid. wsproj. apply in_keys_adel; [apply (xj_st _ _ J); exact Es|exact E].
  - pose proof (xj_nd _ _ J) as ND. apply (Permutation_NoDup (Permutation_sym Ptok)) in ND.
    apply WorkerProofs.nodup_app_r in ND. exact ND.
  - intros Ec. change (ws_coll mid) with (ws_coll ws) in Ec. pose proof (xj_b0 _ _ J Ec) as B0.
    destruct (wtokens mid) as [|i t] eqn:Et; [reflexivity|exfalso].
    assert (Hi : In i (wtokens ws)) by (apply Hsub; left; reflexivity). rewrite B0 in Hi. destruct Hi.
  - intros X Ec i Hi. apply (xj_valid _ _ J X Ec). apply Hsub. exact Hi.
  - intros v Hv. change (ws_coll mid) with (ws_coll ws). unfold mid, rn_mid in Hv. wsproj.
    destruct (ws_steal ws) as [m|] eqn:Es; [|discriminate]. apply (xj_s0 _ _ J m). exact Es.
Qed.

Lemma rn_mid_bkw G n ws rest m :
  LJX G ws -> bkw (rn_mid n ws rest) m = if Nat.eqb m n then [] else bkw ws m.
Proof.
  intros J. unfold bkw, rn_mid. wsproj. destruct (Nat.eqb m n) eqn:E.
  - apply Nat.eqb_eq in E. subst m. apply alist_get_none. apply aget_adel_eq. apply (xj_wf _ _ J).
  - apply Nat.eqb_neq in E. unfold alist_get. rewrite aget_adel_neq by exact E. reflexivity.
Qed.

Lemma rn_mid_nodes n ws rest m : NoDup (ws_nodes ws) -> In m (ws_nodes (rn_mid n ws rest)) -> In m (ws_nodes ws) /\ m <> n.
Proof.
  intros ND Hm. unfold ws_nodes, rn_mid in Hm. wsproj. split; [eapply StealProofs.adel_keys_incl; eauto|].
  intros ->. exact (StealProofs.adel_not_key _ _ ND Hm).
Qed.

Lemma rn_mid_n2ck n ws rest m : In m (akeys (ws_n2c (rn_mid n ws rest))) -> In m (akeys (ws_n2c ws)).
Proof. unfold rn_mid. wsproj. destruct (ws_collection_is_completed ws); [auto|]. apply StealProofs.adel_keys_incl. Qed.

Lemma handle_finishedx n sk d ws d1 o1 r :
  DJX d ws -> PREX (QFinished n sk) d ws ->
  d_handle (QFinished n sk) d = (d1, o1, r) ->
  r = Ok tt /\ exists ws1 vo, o1 = vfilter (ws_nt ws) vo /\ HEFFX (QFinished n sk) d ws d1 ws1 vo.
Proof.
  intros DJd0 Hpre H.
  destruct sk; [|exact (handle_finished_stopx n d ws d1 o1 r DJd0 Hpre H)|cbn [PREX] in Hpre; contradiction].
  destruct DJd0 as (J0 & _). pose proof J0 as [Els J AL RQ JB K2].
  cbn [d_handle] in H. unfold d_worker_workerfinished, hook in H. rewrite mbind_emit in H.
  cbn [PREX] in Hpre. destruct Hpre as (Hina & Hbook & Hstn & (fn & Efn & Hsdn)).
  rewrite mbind_get in H. rewrite Els in H. cbn [s_nodes] in H.
  assert (PRE1 : forall m, cmds_to m [OHook (HNodeDown n false)] = []) by reflexivity.
  assert (A1 : forall m, In m (filter (fun k => negb (Nat.eqb k n)) (d_active d)) -> In m (d_active d)).
  { intros m Hm. apply in_filter_neq in Hm. tauto. }
  assert (A2 : forall m, In m (d_active d) ->
             In m (filter (fun k => negb (Nat.eqb k n)) (d_active d)) \/ exists b, ev_xsig (QFinished n SKNone) = Some (m, XFin b)).
  { intros m Hm. destruct (Nat.eq_dec m n) as [->|Hne]; [right; eexists; reflexivity|].
    left. apply in_filter_neq. split; assumption. }
  assert (UXF : UX (d_active d) ws -> UX (filter (fun k => negb (Nat.eqb k n)) (d_active d)) ws).
  { intros (k & f & Hk & Ef & Hs). exists k, f. split; [|auto]. apply in_filter_neq. split; [exact Hk|].
    intros ->. congruence. }
  destruct (mem_nat n (ws_nodes ws)) eqn:Emem.
  - apply StealProofs.mem_nat_In in Emem. specialize (Hbook Emem).
    set (mid := rn_mid n ws []).
    destruct (ws_check_schedule mid) as [[ws1 o2] r2] eqn:Em.
    assert (Jm : LJX (d_next_gw d) mid).
    { apply rn_mid_LJX; [exact J|]. exists []. split; [exact Hbook|]. exists []. split; [reflexivity|cbn; lia]. }
    destruct (LJX_check _ _ _ _ _ Jm Em) as (-> & J1 & vo & T & -> & CK).
    assert (Erun : (r0 <- d_sched_op (SRemove n);; massert match r0 with Some s0 => (s0 =? "")%string | None => true end) d
                   = (d_set_sched d (StW ws1), vfilter (ws_nt mid) vo, Ok tt)).
    { unfold mbind. rewrite (sched_op_runx _ d ws Els). cbn [s_step]. rewrite (W7_eq_idle n ws Hbook).
      fold mid. rewrite Em. cbn [lift]. unfold massert, ret. rewrite app_nil_r. reflexivity. }
    unfold mbind at 1 in H. rewrite Erun in H.
    rewrite (active_remove_run n (d_set_sched d (StW ws1)) Hina) in H. inv H. rewrite app_nil_r.
    split; [reflexivity|]. exists ws1, ([OHook (HNodeDown n false)] ++ vo).
    split; [rewrite (vfilter_pre _ _ _ PRE1); reflexivity|].
    apply (heff_of_TW (QFinished n SKNone) d ws mid ws1 vo [OHook (HNodeDown n false)] _ J0);
      [reflexivity|reflexivity|reflexivity|dprx; exact A1|dprx; exact A2
      |dprx; intros Hs; split; [exact Hs|]; intros m Hm; destruct (rn_mid_nodes n ws [] m (xj_wf _ _ J) Hm) as (Hm1 & Hm2);
       apply in_filter_neq; split; [apply (JB Hs); exact Hm1|exact Hm2]
      |exact J1|exact T|exact PRE1|reflexivity
      | | | | |intros k E; discriminate
      |dprx; intros HS H1 H2; split; [|exact CK]; destruct (K2 HS H1 H2) as [XU|(Q1 & Q2 & Q3)];
       [left; exact (UXF XU)|right; split; [exact (proj1 (rn_mid_completed n ws [] Q1))|split;
        [unfold mid, rn_mid; wsproj; rewrite Q2; reflexivity|unfold mid; rewrite (rn_mid_steal n ws [] Hstn); exact Q3]]]].
    + intros m. unfold mid. rewrite (rn_mid_bkw _ n ws [] m J). cbn [bookmidx bookmidw].
      destruct (Nat.eqb m n) eqn:E; [|reflexivity]. apply Nat.eqb_eq in E. subst m. symmetry. apply bkw_some. exact Hbook.
    + intros m. cbn [unsev]. unfold mid. rewrite (rn_mid_steal n ws [] Hstn). lia.
    + intros m Hm. left. apply (rn_mid_nodes n ws [] m (xj_wf _ _ J) Hm).
    + intros m Hm. left. apply (rn_mid_n2ck n ws [] m Hm).
  - rewrite mbind_ret in H.
    rewrite (active_remove_run n d Hina) in H. inv H.
    split; [reflexivity|]. exists ws, ([OHook (HNodeDown n false)] ++ []). split; [reflexivity|].
    apply (heff_of_TW (QFinished n SKNone) d ws ws ws [] [OHook (HNodeDown n false)] _ J0);
      [exact Els|reflexivity|reflexivity|dprx; exact A1|dprx; exact A2
      |dprx; intros Hs; split; [exact Hs|]; intros m Hm; apply in_filter_neq; split; [apply (JB Hs); exact Hm|];
       intros ->; apply WorkerProofs.mem_nat_false in Emem; contradiction
      |exact J|apply TW_refl|exact PRE1|reflexivity
      |reflexivity|intros m; cbn; lia|auto|auto|intros k E; discriminate
      |dprx; intros HS H1 H2; split; [|apply C12_nil]; destruct (K2 HS H1 H2) as [XU|XQ]; [left; exact (UXF XU)|right; exact XQ]].
Qed.


(* ---- collectionfinish / schedule() ---- *)
Lemma add_coll_late_runx n ids ws c0 cr :
  aget n (ws_n2p ws) <> None -> ws_collection_is_completed ws = true -> ws_coll ws = Some (c0 :: cr) ->
  ws_add_node_collection n ids ws =
  if coll_eqb ids (c0 :: cr) then (ws_set_n2c ws (aset n ids (ws_n2c ws)), [], Ok tt)
  else match first_key (ws_n2c ws) with
       | None => (ws, [], Err EOther)
       | Some other => let '(s', o, r) := node_shutdown ws_nt ws_set_nt n ws in (s', OLogDiff other n :: o, r)
       end.
Proof.
  intros Hp Hc Ec. unfold ws_add_node_collection. rewrite mbind_get. unfold massert, ahas.
  destruct (aget n (ws_n2p ws)); [|congruence]. rewrite mbind_ret, Hc, Ec.
  destruct (coll_eqb ids (c0 :: cr)); [reflexivity|].
  destruct (first_key (ws_n2c ws)) as [other|]; cbn [of_opt].
  - rewrite mbind_ret, mbind_emit. destruct (node_shutdown ws_nt ws_set_nt n ws) as [[s' o] r]. reflexivity.
  - reflexivity.
Qed.

Lemma completed_aset n ids ws :
  ws_collection_is_completed ws = true ->
  ws_collection_is_completed (ws_set_n2c ws (aset n ids (ws_n2c ws))) = true.
Proof.
  unfold ws_collection_is_completed. wsproj. intros H. apply Nat.leb_le in H. apply Nat.leb_le.
  pose proof (length_aset_gex n ids (ws_n2c ws)). lia.
Qed.

Lemma LJX_addcoll G ws n ids :
  LJX G ws -> n < G -> ids = collf n -> LJX G (ws_set_n2c ws (aset n ids (ws_n2c ws))).
Proof.
  intros J HnG Hids. constructor; try apply J.
  - wsproj. intros m Hm. apply akeys_aset_cases in Hm. destruct Hm as [->|Hm]; [exact HnG|apply (xj_n2c _ _ J); exact Hm].
  - wsproj. intros Hc. apply completed_aset. apply (xj_cc _ _ J). exact Hc.
  - wsproj. intros k x Hin. apply in_aset in Hin. destruct Hin as [(-> & ->)|Hin]; [exact Hids|apply (xj_ids _ _ J); exact Hin].
Qed.

Lemma schedule_again_runx s c :
  ws_collection_is_completed s = true -> ws_coll s = Some c -> ws_schedule s = ws_check_schedule s.
Proof.
  intros Hc Ec. unfold ws_schedule. rewrite mbind_get, Hc. unfold massert. rewrite mbind_ret, Ec. reflexivity.
Qed.

(* the effect of add_node_collection followed (once the collection is complete) by schedule() *)
Definition CFEFF (G n : nat) (ws wsB : wsstate) (o : list out) : Prop :=
  LJX G wsB /\ exists mid pre vo,
    o = pre ++ vfilter (ws_nt ws) vo /\ (forall m, cmds_to m pre = []) /\
    TW mid wsB vo /\ ws_nt mid = ws_nt ws /\ (forall m, bkw mid m = bkw ws m) /\ ws_steal mid = ws_steal ws /\
    akeys (ws_n2p mid) = akeys (ws_n2p ws) /\
    (forall m, In m (akeys (ws_n2c mid)) -> m = n \/ In m (akeys (ws_n2c ws))) /\
    (SAMEX -> forall act, UX act ws \/ QX ws -> (UX act mid \/ QX mid) /\ C12 mid wsB vo).

Lemma n2c_nonempty ws : ws_collection_is_completed ws = true -> ws_numnodes ws = N -> ws_n2c ws <> [].
Proof.
  unfold ws_collection_is_completed. intros H E F. rewrite F, E in H. cbn in H. apply Nat.leb_le in H. lia.
Qed.

Lemma collfinish_sched G n ids ws wsA oA rA :
  LJX G ws -> n < G -> ids = collf n -> In n (ws_nodes ws) -> ~ degenerate ws ->
  ws_add_node_collection n ids ws = (wsA, oA, rA) ->
  rA = Ok tt /\
  forall wsB oB rB,
    (if ws_collection_is_completed wsA then ws_schedule wsA else (wsA, [], Ok tt)) = (wsB, oB, rB) ->
    rB = Ok tt /\ CFEFF G n ws wsB (oA ++ oB).
Proof.
  intros J HnG -> Hnode Hnd H.
  assert (Hp : aget n (ws_n2p ws) <> None) by (apply LoadProofs.aget_In_keys; exact Hnode).
  destruct (ws_collection_is_completed ws) eqn:Hc.
  - (* a late node: the collection is fixed *)
    assert (Ecoll : exists c0 cr, ws_coll ws = Some (c0 :: cr)).
    { destruct (ws_coll ws) as [[|c0 cr]|] eqn:E; [exfalso; apply Hnd; split; auto| eauto |exfalso; apply Hnd; split; auto]. }
    destruct Ecoll as (c0 & cr & Ecoll).
    rewrite (add_coll_late_runx n (collf n) ws c0 cr Hp Hc Ecoll) in H.
    destruct (coll_eqb (collf n) (c0 :: cr)) eqn:Eeq.
    + inv H. split; [reflexivity|]. intros wsB oB rB HB.
      set (lsa := ws_set_n2c ws (aset n (collf n) (ws_n2c ws))) in *.
      assert (Eca : ws_collection_is_completed lsa = true) by (apply completed_aset; exact Hc).
      rewrite Eca in HB. rewrite (schedule_again_runx lsa (c0 :: cr) Eca Ecoll) in HB.
      assert (Ja : LJX G lsa) by (apply LJX_addcoll; auto).
      destruct (LJX_check _ _ _ _ _ Ja HB) as (-> & J1 & vo & T & -> & CK).
      split; [reflexivity|]. split; [exact J1|]. exists lsa, [], vo.
      split; [reflexivity|]. split; [reflexivity|]. split; [exact T|]. split; [reflexivity|].
      split; [reflexivity|]. split; [reflexivity|]. split; [reflexivity|]. split.
      { intros m Hm. unfold lsa in Hm. wsproj. apply akeys_aset_cases in Hm. exact Hm. }
      intros _ act [XU|(Q1 & Q2 & Q3)]; (split; [|exact CK]); [left; exact XU|right].
      split; [exact Eca|split; [exact Q2|exact Q3]].
    + destruct (first_key (ws_n2c ws)) as [other|] eqn:Efk.
      2:{ exfalso. apply (n2c_nonempty ws Hc (xj_num _ _ J)). destruct (ws_n2c ws) as [|[k v] l]; [reflexivity|discriminate]. }
      destruct (node_shutdown ws_nt ws_set_nt n ws) as [[ws_sd o_sd] r_sd] eqn:Esd. inv H.
      assert (Hk : aget n (ws_nt ws) <> None) by (apply (xj_ntk _ _ J); exact HnG).
      destruct (node_shutdown_TWv _ _ _ _ _ Hk Esd) as (-> & (vo1 & T1 & -> & _) & F & _).
      split; [reflexivity|]. intros wsB oB rB HB.
      pose proof F as (F1 & F2 & F3 & F4 & F5 & F6 & F7).
      assert (Hc' : ws_collection_is_completed wsA = true) by (rewrite (completed_keepsw ws wsA F5 F6); exact Hc).
      rewrite Hc' in HB. rewrite (schedule_again_runx wsA (c0 :: cr) Hc' (eq_trans F3 Ecoll)) in HB.
      assert (Ja : LJX G wsA) by (eapply LJX_flags; eauto).
      destruct (LJX_check _ _ _ _ _ Ja HB) as (-> & J1 & vo2 & T2 & -> & _).
      split; [reflexivity|]. split; [exact J1|]. exists ws, [OLogDiff other n], (vo1 ++ vo2).
      split. { cbn [app]. f_equal. rewrite vfilter_app. f_equal. apply vfilter_ext. apply (TW_closed _ _ _ T1). }
      split; [reflexivity|]. split; [eapply TW_trans; eauto|]. split; [reflexivity|].
      split; [reflexivity|]. split; [reflexivity|]. split; [reflexivity|]. split; [auto|].
      (* when every worker collects the same list a late node is never refused *)
      intros HS act _. exfalso. destruct (xj_cin _ _ J _ Ecoll) as (k0 & EX). rewrite EX, (HS k0), <- (HS n) in Eeq.
      rewrite coll_eqb_refl in Eeq. discriminate.
  - (* one of the first N collections *)
    assert (Ecoll : ws_coll ws = None).
    { destruct (ws_coll ws) eqn:E; [|reflexivity]. rewrite (xj_cc _ _ J) in Hc; [discriminate|]. rewrite E. discriminate. }
    rewrite (add_coll_runw n (collf n) ws Hp Hc) in H. inv H. split; [reflexivity|]. intros wsB oB rB HB.
    set (lsa := ws_set_n2c ws (aset n (collf n) (ws_n2c ws))) in *.
    assert (Ja : LJX G lsa) by (apply LJX_addcoll; auto).
    assert (N2C : forall m, In m (akeys (ws_n2c lsa)) -> m = n \/ In m (akeys (ws_n2c ws))).
    { intros m Hm. unfold lsa in Hm. wsproj. apply akeys_aset_cases in Hm. exact Hm. }
    pose proof (xj_b0 _ _ J Ecoll) as Tok0.
    assert (Est0 : ws_steal ws = None).
    { destruct (ws_steal ws) as [v|] eqn:Es; [|reflexivity]. destruct (xj_s0 _ _ J v Es) as (X & F & _). congruence. }
    cbn [app].
    assert (UXQ : forall act, UX act ws \/ QX ws -> UX act ws).
    { intros act [XU|(Q1 & _)]; [exact XU|congruence]. }
    destruct (ws_collection_is_completed lsa) eqn:Eca.
    2:{ inv HB. split; [reflexivity|]. split; [exact Ja|]. exists lsa, [], [].
        split; [reflexivity|]. split; [reflexivity|]. split; [apply TW_refl|]. split; [reflexivity|].
        split; [reflexivity|]. split; [reflexivity|]. split; [reflexivity|]. split; [exact N2C|].
        intros _ act HK. split; [left; exact (UXQ act HK)|apply C12_nil]. }
    (* the last collection: the first and only real schedule() *)
    assert (Hn2c : ws_n2c lsa <> []) by (apply (n2c_nonempty lsa Eca); apply J).
    unfold ws_schedule in HB. rewrite mbind_get in HB. rewrite Eca in HB. unfold massert in HB. rewrite mbind_ret in HB.
    change (ws_coll lsa) with (ws_coll ws) in HB. rewrite Ecoll in HB.
    unfold mbind at 1 in HB. destruct (ws_same_collection lsa) as [[t2 p2] r2] eqn:Es.
    apply (same_collection_quietw _ _ _ _ Hn2c) in Es. destruct Es as (-> & C2 & (f0 & c0 & ot0 & En0 & ->)).
    destruct (forallb (fun p => coll_eqb c0 (snd p)) ot0) eqn:Esame; cbn [negb] in HB.
    2:{ unfold ret in HB. inv HB. rewrite app_nil_r. split; [reflexivity|]. split; [exact Ja|]. exists lsa, p2, [].
        split; [rewrite app_nil_r; reflexivity|]. split; [exact C2|]. split; [apply TW_refl|]. split; [reflexivity|].
        split; [reflexivity|]. split; [reflexivity|]. split; [reflexivity|]. split; [exact N2C|].
        intros _ act HK. split; [left; exact (UXQ act HK)|apply C12_nil]. }
    rewrite mbind_get in HB. rewrite En0 in HB. cbn [of_opt] in HB. rewrite mbind_ret, mbind_put in HB.
    set (mid := ws_set_pending (ws_set_coll lsa (Some c0)) (seq 0 (length c0))) in *.
    assert (Bk0 : wbooks ws = []) by (unfold StealProofs.tokens in Tok0; apply app_eq_nil in Tok0; tauto).
    assert (Tokm : wtokens mid = seq 0 (length c0)).
    { unfold StealProofs.tokens, StealProofs.books, mid, lsa. wsproj. fold (wbooks ws). rewrite Bk0, app_nil_r. reflexivity. }
    assert (Jm : LJX G mid).
    { constructor; try apply Ja.
      - intros _. exact Eca.
      - intros X E. injection E as <-. exists f0. apply (xj_ids _ _ Ja f0 c0). rewrite En0. left. reflexivity.
      - rewrite Tokm. apply seq_NoDup.
      - intros F. discriminate.
      - intros X E i Hi. injection E as <-. rewrite Tokm in Hi. apply in_seq in Hi. lia.
      - intros v Hv. change (ws_steal mid) with (ws_steal ws) in Hv. congruence. }
    assert (MIDOK : forall wsB' o2, (mid, @nil out, Ok tt) = (wsB', o2, rB) \/ ws_check_schedule mid = (wsB', o2, rB) ->
              rB = Ok tt /\ CFEFF G n ws wsB' (p2 ++ o2)).
    { intros wsB' o2 [E|E].
      - inv E. split; [reflexivity|]. split; [exact Jm|]. exists mid, p2, [].
        split; [reflexivity|]. split; [exact C2|]. split; [apply TW_refl|]. split; [reflexivity|].
        split; [reflexivity|]. split; [reflexivity|]. split; [reflexivity|]. split; [exact N2C|].
        intros _ act HK. split; [left; exact (UXQ act HK)|apply C12_nil].
      - destruct (LJX_check _ _ _ _ _ Jm E) as (-> & J1 & vo & T & -> & CK).
        split; [reflexivity|]. split; [exact J1|]. exists mid, p2, vo.
        split; [reflexivity|]. split; [exact C2|]. split; [exact T|]. split; [reflexivity|].
        split; [reflexivity|]. split; [reflexivity|]. split; [reflexivity|]. split; [exact N2C|].
        intros _ act HK. split; [left; exact (UXQ act HK)|exact CK]. }
    destruct c0 as [|x c].
    + unfold ret in HB. inv HB. destruct (MIDOK mid [] (or_introl eq_refl)) as (A & B). split; [exact A|exact B].
    + destruct (ws_check_schedule mid) as [[ws2 o2] r2] eqn:Ech. inv HB.
      exact (MIDOK wsB o2 (or_intror eq_refl)).
Qed.

Lemma handle_collfinishx n ids d ws d1 o1 r :
  DJX d ws -> PREX (QCollFinish n ids) d ws ->
  d_handle (QCollFinish n ids) d = (d1, o1, r) ->
  r = Ok tt /\ exists ws1 vo, o1 = vfilter (ws_nt ws) vo /\ HEFFX (QCollFinish n ids) d ws d1 ws1 vo.
Proof.
  intros (J0 & K & _) (HnG & Hids) H. pose proof J0 as [Els J AL RQ JB K2].
  assert (SAMEX : forall x, (d, @nil out, x) = (d1, o1, r) -> x = Ok tt ->
                 r = Ok tt /\ exists ws1 vo, o1 = vfilter (ws_nt ws) vo /\ HEFFX (QCollFinish n ids) d ws d1 ws1 vo).
  { intros x E Ex. inv E. split; [reflexivity|]. exists ws, []. split; [reflexivity|]. apply heff_samex; auto.
    - apply same_ctl'_refl.
    - intros m b E. discriminate.
    - intros k E. discriminate. }
  cbn [d_handle] in H. rewrite mbind_get in H.
  destruct (d_shuttingdown d) eqn:Esd; [eapply SAMEX; [exact H|reflexivity]|].
  rewrite Els in H. cbn [s_nodes] in H.
  destruct (mem_nat n (ws_nodes ws)) eqn:Em; cbn [negb] in H; [|eapply SAMEX; [exact H|reflexivity]].
  clear SAMEX. apply StealProofs.mem_nat_In in Em.
  assert (Hnd : ~ degenerate ws) by (intros F; discriminate (K F)).
  unfold hook in H. rewrite mbind_emit in H. unfold mbind at 1 in H.
  rewrite (sched_op_runx _ d ws Els) in H. cbn [s_step] in H.
  destruct (ws_add_node_collection n ids ws) as [[wsA oA] rA] eqn:EA. cbn [lift] in H.
  destruct (collfinish_sched _ _ _ _ _ _ _ J HnG Hids Em Hnd EA) as (-> & NEXT).
  rewrite mbind_get in H. cbn [d_sched d_set_sched s_collection_is_completed] in H.
  assert (FIN : forall wsB oB, CFEFF (d_next_gw d) n ws wsB (oA ++ oB) ->
            exists vo, OHook (HCollFinished n) :: oA ++ oB = vfilter (ws_nt ws) vo /\
                       HEFFX (QCollFinish n ids) d ws (d_set_sched d (StW wsB)) wsB vo).
  { intros wsB oB (J1 & mid & pre & vo & Eo & Hpre & T & Ent & Ebk & Est & Ek & En2c & CFK).
    assert (PRE2 : forall m, cmds_to m (OHook (HCollFinished n) :: pre) = []) by (intros m; cbn; apply Hpre).
    exists ((OHook (HCollFinished n) :: pre) ++ vo).
    split; [rewrite (vfilter_pre _ _ _ PRE2), Eo; reflexivity|].
    apply (heff_of_TW (QCollFinish n ids) d ws mid wsB vo (OHook (HCollFinished n) :: pre) _ J0);
      [reflexivity|reflexivity|reflexivity|auto|auto
      |intros Hs; split; [exact Hs|]; unfold ws_nodes; rewrite Ek; exact (JB Hs)
      |exact J1|exact T|exact PRE2|exact Ent
      |exact Ebk|intros m; rewrite Est; cbn; lia| | |intros k E; discriminate
      |intros HS H1 H2; exact (CFK HS (d_active d) (K2 HS eq_refl H2))].
    - intros m Hm. left. unfold ws_nodes in *. rewrite Ek in Hm. exact Hm.
    - intros m Hm. destruct (En2c m Hm) as [->|X]; [right; reflexivity|left; exact X]. }
  destruct (ws_collection_is_completed wsA) eqn:EcA.
  - unfold mbind at 1 in H. rewrite (sched_op_runx _ (d_set_sched d (StW wsA)) wsA eq_refl) in H. cbn [s_step] in H.
    destruct (ws_schedule wsA) as [[wsB oB] rB] eqn:Es. cbn [lift] in H.
    destruct (NEXT wsB oB rB eq_refl) as (-> & CF). unfold no_str, ret in H. inv H. rewrite app_nil_r.
    split; [reflexivity|]. exists wsB. destruct (FIN wsB oB CF) as (vo & E1 & E2). exists vo. split; [exact E1|exact E2].
  - destruct (NEXT wsA [] (Ok tt) eq_refl) as (_ & CF). unfold ret in H. inv H.
    split; [reflexivity|]. exists wsA. destruct (FIN wsA [] CF) as (vo & E1 & E2). exists vo. split; [exact E1|exact E2].
Qed.


(* ---- errordown: a worker died ---- *)
Lemma index_of_str_nth X : NoDup X -> forall i item, nth_error X i = Some item -> index_of_str item X = Some i.
Proof.
  induction X as [|a X IH]; intros ND i item H; [destruct i; discriminate|].
  inversion ND as [|a' X' Ha NDX]; subst. destruct i as [|j]; cbn in H |- *.
  - inv H. rewrite String.eqb_refl. reflexivity.
  - assert (Hne : String.eqb item a = false).
    { apply String.eqb_neq. intros ->. apply Ha. eapply nth_error_In; eauto. }
    rewrite Hne, (IH NDX j item H). reflexivity.
Qed.

Lemma ws_remove_node_unknownx n ws : aget n (ws_n2p ws) = None -> ws_remove_node n ws = (ws, [], Err EKey).
Proof. intros E. unfold ws_remove_node. rewrite mbind_get, E. reflexivity. Qed.

(* mark_test_pending (a plugin re-queues the crash item): the index goes to the FRONT of the pool, then
   check_schedule runs *)
Lemma mark_pending_effx G item ws ws' o r X i :
  LJX G ws -> ws_coll ws = Some X -> nth_error X i = Some item -> ~ In i (wtokens ws) ->
  index_of_str item X = Some i ->
  ws_mark_test_pending item ws = (ws', o, r) ->
  r = Ok tt /\ LJX G ws' /\ exists vo, TW (ws_set_pending ws (i :: ws_pending ws)) ws' vo /\ o = vfilter (ws_nt ws) vo.
Proof.
  intros J Ec Enth Hni Eidx H. unfold ws_mark_test_pending in H.
  rewrite mbind_get, Ec in H. cbn [of_opt] in H. rewrite mbind_ret, Eidx in H. cbn [of_opt] in H.
  rewrite mbind_ret, mbind_put in H.
  set (mid := ws_set_pending ws (i :: ws_pending ws)) in *.
  assert (Hi : i < length X) by (apply nth_error_Some; congruence).
  assert (Jm : LJX G mid).
  { constructor; try apply J.
    - unfold StealProofs.tokens, mid. wsproj. cbn [app]. constructor; [exact Hni|apply J].
    - intros F. change (ws_coll mid) with (ws_coll ws) in F. congruence.
    - intros X0 E j Hj. change (ws_coll mid) with (ws_coll ws) in E. unfold StealProofs.tokens, mid in Hj. wsproj.
      destruct Hj as [<-|Hj]; [congruence|]. apply (xj_valid _ _ J X0 E). exact Hj. }
  destruct (LJX_check _ _ _ _ _ Jm H) as (-> & J1 & vo & T & -> & _).
  split; [reflexivity|]. split; [exact J1|]. exists vo. auto.
Qed.

Lemma cnt_rn_mid n ws rest m : m <> n -> cnt (ws_steal (rn_mid n ws rest)) m = cnt (ws_steal ws) m.
Proof.
  intros Hm. unfold rn_mid. wsproj. destruct (ws_steal ws) as [v|]; [|reflexivity].
  destruct (Nat.eqb v n) eqn:E; [|reflexivity]. apply Nat.eqb_eq in E. subst v. cbn.
  destruct (Nat.eqb n m) eqn:E2; [apply Nat.eqb_eq in E2; congruence|reflexivity].
Qed.

(* try: crashitem = sched.remove_node(node) / except KeyError: pass / else: handle_crashitem *)
Lemma try_block_effx n d ws d1 o1 r :
  DJX0 d ws -> try_block n d = (d1, o1, r) ->
  r = Ok tt /\ exists ws1 vo rq, d1 = d_set_requeue (d_set_sched d (StW ws1)) rq /\ o1 = vfilter (ws_nt ws) vo /\
    LJX (d_next_gw d) ws1 /\ (d_requeue d = 0 -> rq = 0) /\
    (forall m, NRWo (aget m (ws_nt ws)) (cmds_to m vo) (aget m (ws_nt ws1))) /\
    (forall m, bkw ws1 m = (if Nat.eqb m n then [] else bkw ws m) ++ flat_map cmd_inds (cmds_to m vo)) /\
    (forall m, m <> n -> cnt (ws_steal ws) m + nstc (cmds_to m vo) = cnt (ws_steal ws1) m) /\
    (forall m, In m (ws_nodes ws1) -> In m (ws_nodes ws) /\ m <> n) /\
    (forall m, In m (akeys (ws_n2c ws1)) -> In m (akeys (ws_n2c ws))) /\
    (forall t k, In (OHook (HCrashReport t k)) vo ->
       k = n /\ exists X i rest, ws_coll ws = Some X /\ bkw ws n = i :: rest /\ nth_error X i = Some t).
Proof.
  intros [Els J AL RQ JB K2] H. unfold try_block in H.
  rewrite (sched_op_runx _ d ws Els) in H. cbn [s_step] in H.
  destruct (ws_remove_node n ws) as [[ws2 o2] r2] eqn:Er. cbn [lift] in H.
  assert (NH : Forall not_hook o2) by (eapply (nh_ws_remove n); exact Er).
  destruct (aget n (ws_n2p ws)) as [[|i rest]|] eqn:Eb.
  - (* empty book *)
    rewrite (W7_eq_idle n ws Eb) in Er. set (mid := rn_mid n ws []) in *.
    destruct (ws_check_schedule mid) as [[ws1 o3] r3] eqn:Em.
    assert (Jm : LJX (d_next_gw d) mid).
    { apply rn_mid_LJX; [exact J|]. exists []. split; [exact Eb|]. exists []. split; [reflexivity|cbn; lia]. }
    destruct (LJX_check _ _ _ _ _ Jm Em) as (-> & J1 & vo & T & -> & CK). inv Er. inv H.
    destruct (tw_keeps _ _ _ T) as (Kc & Kn & Km & Kk).
    split; [reflexivity|]. exists ws2, vo, (d_requeue d).
    split; [reflexivity|]. split; [reflexivity|]. split; [exact J1|]. split; [auto|].
    split; [exact (tw_nt _ _ _ T)|].
    split. { intros m. rewrite (tw_bk _ _ _ T m). unfold mid. rewrite (rn_mid_bkw _ n ws [] m J). reflexivity. }
    split. { intros m Hm. rewrite <- (tw_steal _ _ _ T m). unfold mid. rewrite (cnt_rn_mid n ws [] m Hm). reflexivity. }
    split. { intros m Hm. unfold ws_nodes in Hm. rewrite Kk in Hm. exact (rn_mid_nodes n ws [] m (xj_wf _ _ J) Hm). }
    split. { intros m Hm. rewrite Kn in Hm. exact (rn_mid_n2ck n ws [] m Hm). }
    intros t k Hin. exfalso. rewrite Forall_forall in NH. apply (NH (OHook (HCrashReport t k))). apply in_vfilter_hook. exact Hin.
  - (* the head of the book is the crash item *)
    assert (Hit : In i (wtokens ws)).
    { unfold StealProofs.tokens. apply in_or_app. right. apply (in_bkw_books ws n i). rewrite (bkw_some ws n _ Eb). left. reflexivity. }
    assert (EXc : exists X, ws_coll ws = Some X).
    { destruct (ws_coll ws) as [X|] eqn:E; [eauto|]. rewrite (xj_b0 _ _ J E) in Hit. destruct Hit. }
    destruct EXc as (X & Ecoll).
    assert (Hi : i < length X) by (apply (xj_valid _ _ J X Ecoll); exact Hit).
    destruct (nth_error X i) as [item|] eqn:Enth; [|apply nth_error_None in Enth; lia].
    rewrite (W7_eq n ws i rest X item Eb Ecoll Enth) in Er. set (mid := rn_mid n ws rest) in *.
    destruct (ws_check_schedule mid) as [[ws1 o3] r3] eqn:Em.
    assert (Jm : LJX (d_next_gw d) mid).
    { apply rn_mid_LJX; [exact J|]. exists (i :: rest). split; [exact Eb|]. exists [i]. split; [reflexivity|cbn; lia]. }
    destruct (LJX_check _ _ _ _ _ Jm Em) as (-> & J1 & vo & T & -> & CK). inv Er. cbn [lift] in H.
    destruct (tw_keeps _ _ _ T) as (Kc & Kn & Km & Kk).
    assert (Ec2 : ws_coll ws2 = Some X) by (rewrite Kc; exact Ecoll).
    assert (Ptok : Permutation (i :: wtokens ws2) (wtokens ws)).
    { destruct (check_TWv _ _ _ _ Em) as (_ & _ & _ & _ & P & _).
      assert (P2 : Permutation (i :: wtokens mid) (wtokens ws)).
      { unfold StealProofs.tokens, StealProofs.books, mid, rn_mid. wsproj. pose proof (books_adel n _ _ Eb) as P2. perm_count. }
      rewrite <- P2. constructor. exact P. }
    assert (Hni2 : ~ In i (wtokens ws2)).
    { pose proof (xj_nd _ _ J) as ND. apply (Permutation_NoDup (Permutation_sym Ptok)) in ND. inversion ND; assumption. }
    assert (CRF : forall m, bkw mid m = if Nat.eqb m n then [] else bkw ws m) by (intros m; apply (rn_mid_bkw _ n ws rest m J)).
    assert (CR : forall t k, OHook (HCrashReport item n) = OHook (HCrashReport t k) ->
              k = n /\ exists X0 i0 rest0, ws_coll ws = Some X0 /\ bkw ws n = i0 :: rest0 /\ nth_error X0 i0 = Some t).
    { intros t k E. inv E. split; [reflexivity|]. exists X, i, rest. split; [exact Ecoll|]. split; [apply bkw_some; exact Eb|exact Enth]. }
    (* handle_crashitem *)
    unfold d_handle_crashitem, hook in H. rewrite mbind_emit, mbind_get in H. cbn [d_requeue d_set_sched] in H.
    destruct (d_requeue d) as [|k] eqn:Erq.
    + (* the item is not re-queued *)
      rewrite mbind_ret in H. unfold emit in H. inv H.
      split; [reflexivity|]. exists ws2, (vo ++ [OHook (HCrashItem item n); OHook (HCrashReport item n)]), 0.
      split; [rewrite <- Erq; reflexivity|].
      split. { rewrite vfilter_app. reflexivity. }
      split; [exact J1|]. split; [auto|].
      assert (CC : forall m, cmds_to m (vo ++ [OHook (HCrashItem item n); OHook (HCrashReport item n)]) = cmds_to m vo).
      { intros m. rewrite cmds_to_app. cbn. apply app_nil_r. }
      split. { intros m. rewrite CC. apply (tw_nt _ _ _ T m). }
      split. { intros m. rewrite CC, (tw_bk _ _ _ T m), CRF. reflexivity. }
      split. { intros m Hm. rewrite CC, <- (tw_steal _ _ _ T m). unfold mid. rewrite (cnt_rn_mid n ws rest m Hm). reflexivity. }
      split. { intros m Hm. unfold ws_nodes in Hm. rewrite Kk in Hm. exact (rn_mid_nodes n ws rest m (xj_wf _ _ J) Hm). }
      split. { intros m Hm. rewrite Kn in Hm. exact (rn_mid_n2ck n ws rest m Hm). }
      intros t k Hin. apply in_app_or in Hin. destruct Hin as [Hin|[Hin|[Hin|[]]]]; try discriminate.
      * exfalso. rewrite Forall_forall in NH. apply (NH (OHook (HCrashReport t k))). apply in_vfilter_hook. exact Hin.
      * apply CR. exact Hin.
    + (* a plugin re-queues the item: mark_test_pending *)
      assert (NDX : NoDup X).
      { destruct RQ as [F|RQ]; [discriminate|]. destruct (xj_cin _ _ J X Ecoll) as (k0 & ->). apply RQ. }
      unfold mbind, put in H.
      rewrite (sched_op_runx _ (d_set_requeue (d_set_sched d (StW ws2)) k) ws2 eq_refl) in H. cbn [s_step] in H.
      destruct (ws_mark_test_pending item ws2) as [[ws3 o4] r4] eqn:Emp. cbn [lift] in H.
      assert (NH3 : Forall not_hook o4) by (eapply (nh_ws_pending item); exact Emp).
      destruct (mark_pending_effx _ item ws2 ws3 o4 r4 X i J1 Ec2 Enth Hni2 (index_of_str_nth X NDX i item Enth) Emp)
        as (-> & J3 & vo3 & T3 & ->).
      unfold no_str, ret, emit in H. cbn [app] in H. inv H.
      destruct (tw_keeps _ _ _ T3) as (Kc3 & Kn3 & Km3 & Kk3).
      split; [reflexivity|].
      exists ws3, (vo ++ OHook (HCrashItem item n) :: vo3 ++ [OHook (HCrashReport item n)]), k.
      split; [reflexivity|].
      split. { rewrite vfilter_app. f_equal. rewrite vfilter_cons_hook. f_equal. rewrite vfilter_app, app_nil_r.
               f_equal. apply vfilter_ext. apply (TW_closed _ _ _ T). }
      split; [exact J3|]. split; [discriminate|].
      assert (CC : forall m, cmds_to m (vo ++ OHook (HCrashItem item n) :: vo3 ++ [OHook (HCrashReport item n)]) = cmds_to m vo ++ cmds_to m vo3).
      { intros m. rewrite cmds_to_app, cmds_to_hook, cmds_to_app. cbn. rewrite app_nil_r. reflexivity. }
      split. { intros m. rewrite CC. eapply NRWo_trans; [apply (tw_nt _ _ _ T m)|apply (tw_nt _ _ _ T3 m)]. }
      split. { intros m. rewrite CC, flat_map_app, (tw_bk _ _ _ T3 m).
               change (bkw (ws_set_pending ws2 (i :: ws_pending ws2)) m) with (bkw ws2 m).
               rewrite (tw_bk _ _ _ T m), CRF, <- app_assoc. reflexivity. }
      split. { intros m Hm. rewrite CC, nstc_app. pose proof (tw_steal _ _ _ T m) as X1. pose proof (tw_steal _ _ _ T3 m) as X3.
               unfold mid in X1. rewrite (cnt_rn_mid n ws rest m Hm) in X1.
               change (ws_steal (ws_set_pending ws2 (i :: ws_pending ws2))) with (ws_steal ws2) in X3. lia. }
      split. { intros m Hm. unfold ws_nodes in Hm. rewrite Kk3 in Hm. change (akeys (ws_n2p (ws_set_pending ws2 (i :: ws_pending ws2)))) with (akeys (ws_n2p ws2)) in Hm. rewrite Kk in Hm. exact (rn_mid_nodes n ws rest m (xj_wf _ _ J) Hm). }
      split. { intros m Hm. rewrite Kn3 in Hm. change (ws_n2c (ws_set_pending ws2 (i :: ws_pending ws2))) with (ws_n2c ws2) in Hm. rewrite Kn in Hm. exact (rn_mid_n2ck n ws rest m Hm). }
      intros t k0 Hin. apply in_app_or in Hin. destruct Hin as [Hin|[Hin|Hin]]; try discriminate.
      * exfalso. rewrite Forall_forall in NH. apply (NH (OHook (HCrashReport t k0))). apply in_vfilter_hook. exact Hin.
      * apply in_app_or in Hin. destruct Hin as [Hin|[Hin|[]]].
        -- exfalso. rewrite Forall_forall in NH3. apply (NH3 (OHook (HCrashReport t k0))). apply in_vfilter_hook. exact Hin.
        -- apply CR. exact Hin.
  - (* not scheduled (never became ready): KeyError, swallowed *)
    rewrite (ws_remove_node_unknownx n ws Eb) in Er. injection Er as <- <- <-. cbn [lift] in H. inv H.
    split; [reflexivity|]. exists ws, [], (d_requeue d).
    split; [reflexivity|]. split; [reflexivity|]. split; [exact J|]. split; [auto|].
    split; [intros m; apply NRWo_refl|].
    split. { intros m. cbn. rewrite app_nil_r. destruct (Nat.eqb m n) eqn:E; [|reflexivity].
             apply Nat.eqb_eq in E. subst m. apply bkw_none. exact Eb. }
    split. { intros m _. unfold nstc. cbn. lia. }
    split. { intros m Hm. split; [exact Hm|]. intros ->. apply LoadProofs.aget_In_keys in Hm. contradiction. }
    split; [auto|]. intros t k [].
Qed.

Lemma clone_runx n d ws f :
  d_sched d = StW ws -> aget n (ws_nt ws) = Some f ->
  d_clone_node n d =
  (d_set_active (d_set_next_gw (d_set_sched d (StW (ws_set_nt ws (aset (d_next_gw d) (mkfresh (n_spec f)) (ws_nt ws)))))
                               (S (d_next_gw d)))
                (d_active d ++ [d_next_gw d]),
   [OHook (HSpawn (d_next_gw d) (n_spec f))], Ok tt).
Proof.
  intros Els Ef. unfold d_clone_node. rewrite mbind_get. unfold d_nt. rewrite Els. cbn [s_nt]. rewrite Ef.
  cbn [of_opt]. rewrite mbind_ret. cbv zeta. unfold mbind at 1. rewrite (sched_op_runx _ d ws Els).
  cbn [s_step s_set_nt s_nt]. rewrite mbind_get, mbind_put. reflexivity.
Qed.

Lemma LJX_spawn G ws spec :
  LJX G ws -> LJX (S G) (ws_set_nt ws (aset G (mkfresh spec) (ws_nt ws))).
Proof.
  intros J. constructor; wsproj; try apply J.
  - intros m. rewrite LoadProofs.aget_aset. destruct (Nat.eqb m G) eqn:E.
    + apply Nat.eqb_eq in E. subst m. split; [intros _; lia|discriminate].
    + apply Nat.eqb_neq in E. rewrite (xj_ntk _ _ J m). lia.
  - intros m Hm. pose proof (xj_nodes _ _ J m Hm). lia.
  - intros m Hm. pose proof (xj_n2c _ _ J m Hm). lia.
Qed.


Definition CRX (ws : wsstate) (vo : list out) : Prop :=
  forall t k, In (OHook (HCrashReport t k)) vo ->
    exists X i rest, ws_coll ws = Some X /\ bkw ws k = i :: rest /\ nth_error X i = Some t.

Lemma handle_errordownx n d ws d1 o1 r :
  DJX d ws -> PREX (QErrorDown n) d ws ->
  d_handle (QErrorDown n) d = (d1, o1, r) ->
  r = Ok tt /\ exists ws1 vo, o1 = vfilter (ws_nt ws) vo /\ HEFFX (QErrorDown n) d ws d1 ws1 vo /\
  (forall t k, In (OHook (HCrashReport t k)) vo ->
     k = n /\ exists X i rest, ws_coll ws = Some X /\ bkw ws n = i :: rest /\ nth_error X i = Some t).
Proof.
  intros (J0 & _) Hina H. cbn [PREX] in Hina. pose proof J0 as [Els J AL RQ JB K2].
  cbn [d_handle] in H. rewrite errordown_unfold in H.
  apply LoadProofs.mbind_inv in H. destruct H as [(e & Hh & _)|(d0 & o0 & [] & oR & Hh & E & ->)]; [rewrite hook_run in Hh; discriminate|].
  rewrite hook_run in Hh. injection Hh as <- <-. cbn [app]. rename d1 into dx.
  apply LoadProofs.mbind_inv in E. destruct E as [(e & Ht & ->)|(da & oa & [] & ob & Ht & E & ->)].
  { destruct (try_block_effx _ _ _ _ _ _ J0 Ht) as (F & _). discriminate. }
  destruct (try_block_effx _ _ _ _ _ _ J0 Ht) as (_ & wsa & voa & rqa & -> & -> & Ja & Trq & Tnt & Tbk & Tst & Tnodes & Tn2c & Tcr).
  assert (HnG : n < d_next_gw d) by (apply AL; exact Hina).
  assert (Efn : exists fn, aget n (ws_nt wsa) = Some fn).
  { destruct (aget n (ws_nt wsa)) as [fn|] eqn:Ef; [eauto|]. exfalso. apply (proj2 (xj_ntk _ _ Ja n) HnG). exact Ef. }
  destruct Efn as (fn & Efn).
  rewrite mbind_get in E. cbv zeta in E. rewrite mbind_put in E.
  set (da := d_set_requeue (d_set_sched d (StW wsa)) rqa) in *.
  set (db := d_set_failed_nodes da (d_failed_nodes da + 1)%Z) in *.
  assert (RQa : rqa = 0 \/ forall k, NoDup (collf k)) by (destruct RQ as [X|X]; [left; apply Trq; exact X|right; exact X]).
  assert (ACTN : forall m, In m (d_active d) -> m = n \/ In m (filter (fun k => negb (Nat.eqb k n)) (d_active d))).
  { intros m Hm. destruct (Nat.eq_dec m n) as [->|Hne]; [left; reflexivity|right; apply in_filter_neq; auto]. }
  assert (OUTA : forall m, d_next_gw d <= m -> cmds_to m voa = []).
  { intros m Hm. assert (E0 : aget m (ws_nt ws) = None).
    { destruct (aget m (ws_nt ws)) eqn:E0; [|reflexivity]. exfalso.
      assert (X : m < d_next_gw d) by (apply (xj_ntk _ _ J); congruence). lia. }
    exact (proj1 (NRWo_outx _ _ _ E0 (Tnt m))). }
  assert (CLA : forall m, closedb (ws_nt wsa) m = closedb (ws_nt ws) m) by (intros m; eapply NRWo_closed; apply Tnt).
  (* the budget decision *)
  assert (DEC :
    (exists m0, d_max_restart d = Some m0 /\
     ((hook (HSummary (m0 =? 0)%Z) ;;; d_triggershutdown) ;;; d_active_remove n) db = (dx, ob, r)) \/
    ((((d2 <- get ;; put (d_set_shuttingdown d2 false)) ;;; d_clone_node n) ;;; d_active_remove n) db = (dx, ob, r))).
  { pose proof E as E'.
    clear E. change (d_max_restart da) with (d_max_restart d) in E'. change (d_failed_nodes da) with (d_failed_nodes d) in E'.
    destruct (d_max_restart d) as [m0|] eqn:Emr.
    - destruct (m0 <? d_failed_nodes d + 1)%Z eqn:Elt.
      + left. exists m0. split; [reflexivity|]. exact E'.
      + right. exact E'.
    - right. exact E'. }
  clear E. destruct DEC as [(m0 & Emr & E)|E].
  - (* the budget is used up: the session shuts down *)
    assert (TRG : forall dc oc rc, (hook (HSummary (m0 =? 0)%Z) ;;; d_triggershutdown) db = (dc, oc, rc) ->
              rc = Ok tt /\ exists ws2 vo2, dc = d_withw db true ws2 /\ TW wsa ws2 vo2 /\
                oc = OHook (HSummary (m0 =? 0)%Z) :: vfilter (ws_nt wsa) vo2 /\ nt_only wsa ws2 /\
                Forall not_hook (vfilter (ws_nt wsa) vo2)).
    { intros dc oc rc Hd. apply LoadProofs.mbind_inv in Hd.
      destruct Hd as [(e & Hh & _)|(d0 & o0 & [] & oR & Hh & Hg & ->)]; [rewrite hook_run in Hh; discriminate|].
      rewrite hook_run in Hh. injection Hh as <- <-. cbn [app].
      destruct (trigger_effx _ db wsa _ _ _ eq_refl Ja Hg) as (-> & ws2 & vo2 & -> & T2 & -> & F2 & _ & NH2 & _).
      split; [reflexivity|]. exists ws2, vo2. split; [reflexivity|]. split; [exact T2|]. split; [reflexivity|].
      split; [exact F2|exact NH2]. }
    apply LoadProofs.mbind_inv in E. destruct E as [(e & Hg & ->)|(dc & oc & [] & od & Hg & E2 & ->)].
    { destruct (TRG _ _ _ Hg) as (F & _). discriminate. }
    destruct (TRG _ _ _ Hg) as (_ & ws2 & vo2 & -> & T2 & -> & F2 & NH2). clear TRG.
    assert (Hin2 : In n (d_active (d_withw db true ws2))) by exact Hina.
    rewrite (active_remove_run n _ Hin2) in E2. inv E2. rewrite app_nil_r.
    destruct (tw_keeps _ _ _ T2) as (Kc & Kn & Km & Kk).
    assert (J2 : LJX (d_next_gw d) ws2) by (eapply LJX_flags; eauto).
    split; [reflexivity|]. exists ws2, (OHook (HNodeDown n true) :: voa ++ OHook (HSummary (m0 =? 0)%Z) :: vo2).
    assert (CC : forall m, cmds_to m (OHook (HNodeDown n true) :: voa ++ OHook (HSummary (m0 =? 0)%Z) :: vo2)
                           = cmds_to m voa ++ cmds_to m vo2).
    { intros m. rewrite cmds_to_hook, cmds_to_app, cmds_to_hook. reflexivity. }
    split.
    { rewrite vfilter_cons_hook, vfilter_app, vfilter_cons_hook, (vfilter_ext _ _ vo2 CLA). reflexivity. }
    split; [|intros t k Hin; apply Tcr; destruct Hin as [Hin|Hin]; [discriminate|];
             apply in_app_or in Hin; destruct Hin as [Hin|[Hin|Hin]]; [exact Hin|discriminate|];
             exfalso; rewrite Forall_forall in NH2; apply (NH2 (OHook (HCrashReport t k))); apply in_vfilter_hook; exact Hin].
    constructor.
    + constructor; dprx.
      * reflexivity.
      * exact J2.
      * intros m Hm. apply in_filter_neq in Hm. apply AL. tauto.
      * exact RQa.
      * intros Hs m Hm. unfold ws_nodes in Hm. rewrite Kk in Hm. destruct (Tnodes m Hm) as (A & B).
        apply in_filter_neq. split; [apply (JB Hs); exact A|exact B].
      * intros _ F. discriminate F.
    + intros m Hm. rewrite CC. eapply NRWo_trans; [apply Tnt|apply (tw_nt _ _ _ T2 m)].
    + intros m Hm. rewrite CC, (OUTA m Hm), (TW_out _ _ _ _ Ja T2 m Hm). reflexivity.
    + intros m. rewrite CC, flat_map_app, (tw_bk _ _ _ T2 m), Tbk. cbn [bookmidx]. rewrite <- app_assoc. reflexivity.
    + intros m Hm. assert (Hmn : m <> n) by (intros ->; apply Hm; reflexivity).
      rewrite CC, nstc_app. pose proof (Tst m Hmn) as X1. pose proof (tw_steal _ _ _ T2 m) as X2. cbn [unsev]. lia.
    + intros m Hm. left. unfold ws_nodes in Hm. rewrite Kk in Hm. apply Tnodes. exact Hm.
    + intros m Hm. left. rewrite Kn in Hm. apply Tn2c. exact Hm.
    + intros m Hm. dprx. destruct (ACTN m Hm) as [->|X]; [right; right; reflexivity|left; exact X].
    + left. reflexivity.
    + intros k E0. inv E0. dprx. split.
      * intros Hm. unfold ws_nodes in Hm. rewrite Kk in Hm. destruct (Tnodes _ Hm) as (_ & F). congruence.
      * intros Hm. apply in_filter_neq in Hm. destruct Hm as (_ & F). congruence.
    + intros m. rewrite (TW_closed _ _ _ T2 m). apply CLA.
    + intros m Hm. left. dprx. apply in_filter_neq in Hm. tauto.
  - (* within the budget: a replacement worker is started *)
    assert (CL : ((d2 <- get ;; put (d_set_shuttingdown d2 false)) ;;; d_clone_node n) db =
                 (d_set_active (d_set_next_gw (d_set_sched (d_set_shuttingdown db false)
                     (StW (ws_set_nt wsa (aset (d_next_gw d) (mkfresh (n_spec fn)) (ws_nt wsa))))) (S (d_next_gw d)))
                    (d_active d ++ [d_next_gw d]),
                  [OHook (HSpawn (d_next_gw d) (n_spec fn))], Ok tt)).
    { unfold mbind at 1. rewrite mbind_get. unfold put.
      rewrite (clone_runx n (d_set_shuttingdown db false) wsa fn eq_refl Efn). reflexivity. }
    apply LoadProofs.mbind_inv in E. destruct E as [(e & Hg & ->)|(dc & oc & [] & od & Hg & E2 & ->)].
    { rewrite CL in Hg. discriminate. }
    rewrite CL in Hg. injection Hg as <- <-. clear CL.
    set (G := d_next_gw d) in *.
    set (wsn := ws_set_nt wsa (aset G (mkfresh (n_spec fn)) (ws_nt wsa))) in *.
    match type of E2 with d_active_remove n ?D = _ => set (dc := D) in * end.
    assert (Hin2 : In n (d_active dc)) by (unfold dc; dprx; apply in_or_app; left; exact Hina).
    rewrite (active_remove_run n _ Hin2) in E2. inv E2. rewrite app_nil_r.
    split; [reflexivity|]. exists wsn, (OHook (HNodeDown n true) :: voa ++ [OHook (HSpawn G (n_spec fn))]).
    assert (CC : forall m, cmds_to m (OHook (HNodeDown n true) :: voa ++ [OHook (HSpawn G (n_spec fn))]) = cmds_to m voa).
    { intros m. rewrite cmds_to_hook, cmds_to_app. cbn. apply app_nil_r. }
    assert (GNn : G <> n) by (unfold G; lia).
    assert (AGN : forall m, m <> G -> aget m (ws_nt wsn) = aget m (ws_nt wsa)).
    { intros m Hm. unfold wsn. cbn [ws_nt ws_set_nt]. apply StealProofs.aget_aset_neq. exact Hm. }
    assert (AGG : aget G (ws_nt wsn) = Some (mkfresh (n_spec fn))) by (unfold wsn; cbn [ws_nt ws_set_nt]; apply StealProofs.aget_aset_eq).
    assert (GIN : In G (filter (fun k => negb (Nat.eqb k n)) (d_active d ++ [G]))).
    { apply in_filter_neq. split; [apply in_or_app; right; left; reflexivity|exact GNn]. }
    split.
    { rewrite vfilter_cons_hook, vfilter_app. reflexivity. }
    split; [|intros t k Hin; apply Tcr; destruct Hin as [Hin|Hin]; [discriminate|];
             apply in_app_or in Hin; destruct Hin as [Hin|[Hin|[]]]; [exact Hin|discriminate]].
    constructor.
    + constructor; unfold dc; dprx.
      * reflexivity.
      * apply LJX_spawn. exact Ja.
      * intros m Hm. apply in_filter_neq in Hm. destruct Hm as (Hm & _). apply in_app_or in Hm.
        destruct Hm as [Hm|[<-|[]]]; [specialize (AL m Hm); unfold G; lia|unfold G; lia].
      * exact RQa.
      * intros Hs m Hm. change (ws_nodes wsn) with (ws_nodes wsa) in Hm. destruct (Tnodes m Hm) as (A & B).
        apply in_filter_neq. split; [apply in_or_app; left; apply (JB Hs); exact A|exact B].
      * intros _ _ _. left. exists G, (mkfresh (n_spec fn)). split; [exact GIN|]. split; [exact AGG|reflexivity].
    + intros m Hm. rewrite CC. rewrite AGN by (unfold G; lia). apply Tnt.
    + intros m Hm. rewrite CC. exact (OUTA m Hm).
    + intros m. rewrite CC. change (bkw wsn m) with (bkw wsa m). rewrite Tbk. reflexivity.
    + intros m Hm. assert (Hmn : m <> n) by (intros ->; apply Hm; reflexivity).
      rewrite CC. change (ws_steal wsn) with (ws_steal wsa). cbn [unsev]. rewrite (Tst m Hmn). lia.
    + intros m Hm. left. apply Tnodes. exact Hm.
    + intros m Hm. left. apply Tn2c. exact Hm.
    + intros m Hm. unfold dc. dprx. destruct (ACTN m Hm) as [->|X]; [right; right; reflexivity|left].
      apply in_filter_neq in X. apply in_filter_neq. split; [apply in_or_app; left; tauto|tauto].
    + right. unfold dc. dprx. split; [reflexivity|]. split; [exists (mkfresh (n_spec fn)); split; [exact AGG|repeat split]|].
      split; [exact GIN|]. split.
      * intros Hm. change (ws_nodes wsn) with (ws_nodes wsa) in Hm. pose proof (xj_nodes _ _ Ja _ Hm). unfold G in *. lia.
      * intros Hm. change (ws_n2c wsn) with (ws_n2c wsa) in Hm. pose proof (xj_n2c _ _ Ja _ Hm). unfold G in *. lia.
    + intros k E0. inv E0. unfold dc. dprx. split.
      * intros Hm. destruct (Tnodes _ Hm) as (_ & F). congruence.
      * intros Hm. apply in_filter_neq in Hm. destruct Hm as (_ & F). congruence.
    + intros m. destruct (Nat.eq_dec m G) as [->|Hm].
      * unfold closedb. rewrite AGG. cbn. destruct (aget G (ws_nt ws)) as [f|] eqn:Ef; [|reflexivity].
        exfalso. assert (X : G < d_next_gw d) by (apply (xj_ntk _ _ J); congruence). unfold G in X. lia.
      * unfold closedb at 1. rewrite (AGN m Hm). apply CLA.
    + intros m Hm. unfold dc in Hm. dprx. apply in_filter_neq in Hm. destruct Hm as (Hm & _).
      apply in_app_or in Hm. destruct Hm as [Hm|[<-|[]]]; [left; exact Hm|right]. split; reflexivity.
Qed.

(* the end of the loop iteration re-establishes the start-of-iteration invariant *)
Lemma DJX_rest d1 ws1 ws2 vo2 :
  DJX0 d1 ws1 -> TW ws1 ws2 vo2 -> nt_only ws1 ws2 ->
  (d_shuttingdown d1 || ws_tests_finished ws1 || d_shouldstop d1 = false -> ws2 = ws1) ->
  DJX (d_withw d1 (d_shuttingdown d1 || ws_tests_finished ws1 || d_shouldstop d1) ws2) ws2.
Proof.
  intros [Els J AL RQ JB K2] T F Same. pose proof F as (F1 & F2 & F3 & F4 & F5 & F6 & F7).
  assert (J2 : LJX (d_next_gw d1) ws2) by (eapply LJX_flags; eauto).
  split; [|split].
  - constructor; dprx; auto.
    + unfold ws_nodes. rewrite F1. exact JB.
    + intros HS Hb Hss. rewrite (Same Hb). apply orb_false_iff in Hb. destruct Hb as (Hb & _).
      apply orb_false_iff in Hb. destruct Hb as (Hb & _). apply K2; assumption.
  - dprx. intros (C & E). rewrite (completed_keepsw ws1 ws2 F5 F6) in C. rewrite F3 in E.
    rewrite (degenerate_finished _ _ J (conj C E)), orb_true_r. reflexivity.
  - dprx. intros Hs. rewrite Hs. apply orb_true_r.
Qed.

(* ---- one iteration of the controller loop: it never raises, and its effect ---- *)
Theorem loop_once_okx ev d ws d' o r :
  DJX d ws -> PREX ev d ws ->
  d_loop_once ev d = (d', o, r) ->
  r = Ok tt /\ exists ws' vo, o = vfilter (ws_nt ws) vo /\ HEFFX ev d ws d' ws' vo /\ DJX d' ws' /\
    (forall t k, In (OHook (HCrashReport t k)) o ->
       ev = QErrorDown k /\ exists X i rest, ws_coll ws = Some X /\ bkw ws k = i :: rest /\ nth_error X i = Some t) /\
    (SAMEX -> d_active d' = [] -> d_shuttingdown d' = true).
Proof.
  intros DJd Hpre H. pose proof H as Hfull. rewrite loop_once_unfold in H.
  assert (HE : forall d1 o1 r1, d_handle ev d = (d1, o1, r1) ->
     r1 = Ok tt /\ exists ws1 vo, o1 = vfilter (ws_nt ws) vo /\ HEFFX ev d ws d1 ws1 vo /\
     (forall t k, In (OHook (HCrashReport t k)) o1 -> forall n, ev = QErrorDown n ->
        k = n /\ exists X i rest, ws_coll ws = Some X /\ bkw ws n = i :: rest /\ nth_error X i = Some t)).
  { intros d1 o1 r1 H1.
    assert (NOCR : forall (P : Prop), (exists ws1 vo, o1 = vfilter (ws_nt ws) vo /\ HEFFX ev d ws d1 ws1 vo) ->
               (forall n, ev <> QErrorDown n) ->
               exists ws1 vo, o1 = vfilter (ws_nt ws) vo /\ HEFFX ev d ws d1 ws1 vo /\
                 (forall t k, In (OHook (HCrashReport t k)) o1 -> forall n, ev = QErrorDown n ->
                    k = n /\ exists X i rest, ws_coll ws = Some X /\ bkw ws n = i :: rest /\ nth_error X i = Some t)).
    { intros _ (ws1 & vo & A & B) Hne. exists ws1, vo. split; [exact A|]. split; [exact B|].
      intros t k _ n E. exfalso. exact (Hne n E). }
    assert (QUIET : match ev with
                    | QLogStart _ _ | QLogFinish _ _ | QWarning | QReport _ _ _ _ | QCollectReport _ _ _ => True
                    | _ => False end -> r1 = Ok tt /\ exists ws1 vo, o1 = vfilter (ws_nt ws) vo /\ HEFFX ev d ws d1 ws1 vo).
    { intros Hq. destruct (handle_quiet' ev d d1 o1 r1 Hq H1) as (-> & S & C). split; [reflexivity|]. exists ws, o1.
      split; [symmetry; apply vfilter_quiet; exact C|].
      apply heff_samex; auto; try apply DJd; destruct ev; try contradiction; try reflexivity; try (intros m b E; discriminate);
        intros ? E; discriminate. }
    destruct ev; try (destruct (QUIET Logic.I) as (-> & X); split; [reflexivity|]; apply (NOCR True X); intros ? E; discriminate);
      try (cbn in Hpre; contradiction).
    - destruct (handle_readyx _ _ _ _ _ _ DJd Hpre H1) as (-> & X). split; [reflexivity|]. apply (NOCR True X); intros ? E; discriminate.
    - destruct (handle_collfinishx _ _ _ _ _ _ _ DJd Hpre H1) as (-> & X). split; [reflexivity|]. apply (NOCR True X); intros ? E; discriminate.
    - destruct (handle_completex _ _ _ _ _ _ _ _ DJd Hpre H1) as (-> & X). split; [reflexivity|]. apply (NOCR True X); intros ? E; discriminate.
    - destruct (handle_unschedx _ _ _ _ _ _ _ DJd Hpre H1) as (-> & X). split; [reflexivity|]. apply (NOCR True X); intros ? E; discriminate.
    - destruct (handle_finishedx _ _ _ _ _ _ _ DJd Hpre H1) as (-> & X). split; [reflexivity|]. apply (NOCR True X); intros ? E; discriminate.
    - destruct (handle_errordownx _ _ _ _ _ _ DJd Hpre H1) as (-> & ws1 & vo & A & B & C). split; [reflexivity|].
      exists ws1, vo. split; [exact A|]. split; [exact B|]. intros t k Hin n0 E. inv E. apply C.
      rewrite <- (in_vfilter_hook (ws_nt ws)). exact Hin. }
  apply LoadProofs.mbind_inv in H. destruct H as [(e & H1 & ->)|(d1 & o1 & a & o2 & H1 & H2 & ->)].
  { destruct (HE _ _ _ H1) as (F & _). discriminate. }
  destruct (HE _ _ _ H1) as (_ & ws1 & vo1 & -> & E1 & CR1). clear HE.
  pose proof (hx_dj _ _ _ _ _ _ E1) as J1. pose proof J1 as [Els1 JJ1 AL1 RQ1 JB1 K21].
  destruct (loop_rest_effx _ _ _ _ _ _ Els1 JJ1 H2) as (-> & ws2 & vo2 & -> & T & -> & F & C2 & Same2).
  pose proof (DJX_rest d1 ws1 ws2 vo2 J1 T F Same2) as DJ2.
  pose proof F as (F1 & F2 & F3 & F4 & F5 & F6 & F7).
  assert (GW : d_next_gw d <= d_next_gw d1) by (destruct (hx_gw _ _ _ _ _ _ E1) as [X|(X & _)]; lia).
  assert (OUT2 : forall m, d_next_gw d <= m -> cmds_to m vo2 = []).
  { intros m Hm. apply C2. intros Hin. pose proof (xj_nodes _ _ JJ1 m Hin) as Hlt.
    destruct (hx_gw _ _ _ _ _ _ E1) as [X|(X & _ & _ & Hnn & _)]; [lia|].
    assert (m = d_next_gw d) by lia. subst m. contradiction. }
  split; [reflexivity|]. exists ws2, (vo1 ++ vo2).
  split. { rewrite vfilter_app. f_equal. apply vfilter_ext. apply (hx_closed _ _ _ _ _ _ E1). }
  destruct (tw_keeps _ _ _ T) as (Kc & Kn & Km & Kk).
  split; [|split; [exact DJ2|split]].
  3:{ (* every worker collects the same list: the last active node leaves only when the session is over *)
      dprx. intros HS Hempty.
      destruct (d_shuttingdown d1 || ws_tests_finished ws1 || d_shouldstop d1) eqn:Eb; [reflexivity|exfalso].
      pose proof Eb as Eb0. apply orb_false_iff in Eb0. destruct Eb0 as (Eb1 & Ess). apply orb_false_iff in Eb1. destruct Eb1 as (Esd & Etf).
      destruct (K21 HS Esd Ess) as [(k & f & Hk & _)|(Q1 & Q2 & Q3)].
      - rewrite Hempty in Hk. destruct Hk.
      - assert (En : ws_n2p ws1 = []).
        { specialize (JB1 Ess). rewrite Hempty in JB1. destruct (ws_n2p ws1) as [|[k v] rr] eqn:E; [reflexivity|].
          exfalso. apply (JB1 k). unfold ws_nodes. rewrite E. left. reflexivity. }
        unfold ws_tests_finished in Etf. rewrite Q1, Q2, Q3, En in Etf. discriminate. }
  - constructor.
    + apply DJ2.
    + intros m Hm. rewrite cmds_to_app. eapply NRWo_trans; [apply (hx_nt _ _ _ _ _ _ E1 m Hm)|apply (tw_nt _ _ _ T m)].
    + intros m Hm. rewrite cmds_to_app, (hx_out _ _ _ _ _ _ E1 m Hm), (OUT2 m Hm). reflexivity.
    + intros m. rewrite cmds_to_app, flat_map_app, (tw_bk _ _ _ T m), (hx_bk _ _ _ _ _ _ E1 m), <- app_assoc. reflexivity.
    + intros m Hm. rewrite cmds_to_app, nstc_app. pose proof (hx_steal _ _ _ _ _ _ E1 m Hm) as X1.
      pose proof (tw_steal _ _ _ T m) as X2. lia.
    + intros m Hm. apply (hx_nodes _ _ _ _ _ _ E1). unfold ws_nodes in *. rewrite F1 in Hm. exact Hm.
    + intros m Hm. apply (hx_n2c _ _ _ _ _ _ E1). rewrite Kn in Hm. exact Hm.
    + intros m Hm. exact (hx_act _ _ _ _ _ _ E1 m Hm).
    + dprx. destruct (hx_gw _ _ _ _ _ _ E1) as [X|(X & (f & Ef & Hf) & Hin & Hnn & Hnc)]; [left; exact X|right].
      split; [exact X|]. split.
      * pose proof (tw_nt _ _ _ T (d_next_gw d)) as R. rewrite Ef in R.
        rewrite (C2 _ Hnn) in R. destruct (aget (d_next_gw d) (ws_nt ws2)) as [f2|]; [|destruct R].
        cbn in R. inversion R; subst. exists f2. auto.
      * split; [exact Hin|]. split; [unfold ws_nodes; rewrite F1; exact Hnn|rewrite Kn; exact Hnc].
    + intros n E. dprx. destruct (hx_err _ _ _ _ _ _ E1 n E) as (A1 & A2). split; [unfold ws_nodes; rewrite F1; exact A1|exact A2].
    + intros m. rewrite (TW_closed _ _ _ T m). apply (hx_closed _ _ _ _ _ _ E1).
    + dprx. exact (hx_actb _ _ _ _ _ _ E1).
  - intros t k Hin. apply in_app_or in Hin. destruct Hin as [Hin|Hin].
    + destruct (death_event ev) eqn:Ed.
      * destruct ev; try discriminate.
        -- destruct sk; try discriminate. cbn in Hpre. contradiction.
        -- destruct (CR1 t k Hin n eq_refl) as (-> & X). split; [reflexivity|exact X].
      * exfalso. pose proof (no_crash_report_without_death _ _ _ _ _ Ed Hfull) as Z.
        assert (Hin' : In (OHook (HCrashReport t k)) (vfilter (ws_nt ws) vo1 ++ vfilter (ws_nt ws1) vo2)) by (apply in_or_app; left; exact Hin).
        pose proof (count_zero_notin _ _ _ Z Hin') as F0. discriminate.
    + exfalso. pose proof (nohook_loop_rest _ _ _ _ H2) as NH. rewrite Forall_forall in NH. exact (NH _ Hin).
Qed.

End CtlX.
