(* SystemCorollariesLoad.v — the parts of the system-level corollaries that need the coupling
   invariant of load mode (XInv, CrashTheorems.v): hypotheses c_mode c = MLoad, no_garbled c,
   0 < c_numnodes c; every schedule, crashes included.

   Part E  C16, second half: in the command stream of every worker nothing follows the shutdown
           command                                                   (load_command_stream) *)
From XV Require Import Base Worker Ctl SchedLoad SchedSteal SchedScope SchedEach Sched DSession System
  NoHook DSessionProofs WorkerProofs LoadProofs FifoProofs ExactlyOnce Coupling CrashCoupling CrashTheorems.
From XV Require ShutdownOnce.
From XV Require Import SystemCorollaries.
Open Scope nat_scope.

(* ====================================================================================== *)
(* Part E: C16 — nothing follows the shutdown command                                      *)
(* ====================================================================================== *)
(* [sd_ok sent cs]: cs is a legal continuation of a command stream whose shutdown command has
   (sent = true) or has not (sent = false) been sent: nothing after a shutdown *)
Fixpoint sd_ok (sent : bool) (cs : list cmd) : Prop :=
  match cs with
  | [] => True
  | x :: r => sent = false /\ sd_ok (is_shutdown x) r
  end.

Definition has_sd (cs : list cmd) : bool := existsb is_shutdown cs.

Lemma sd_ok_app b xs : forall ys, sd_ok b xs -> sd_ok (b || has_sd xs) ys -> sd_ok b (xs ++ ys).
Proof.
  revert b. induction xs as [|x r IH]; intros b ys H1 H2; cbn [app].
  - unfold has_sd in H2. cbn in H2. rewrite orb_false_r in H2. exact H2.
  - destruct H1 as (-> & H1). cbn [sd_ok]. split; [reflexivity|]. apply IH; [exact H1|].
    unfold has_sd in *. cbn [existsb orb] in H2. exact H2.
Qed.

Lemma sd_ok_true cs : sd_ok true cs -> cs = [].
Proof. destruct cs; [reflexivity|]. intros (F & _). discriminate. Qed.

Lemma sd_ok_spec cs : sd_ok false cs -> forall a b, cs = a ++ CShutdown :: b -> b = [] /\ ~ In CShutdown a.
Proof.
  intros H a. revert cs H. induction a as [|x a IH]; intros cs H b E; subst cs; cbn [app sd_ok] in H.
  - destruct H as (_ & H). cbn in H. split; [apply sd_ok_true; exact H|intros []].
  - destruct H as (_ & H). destruct (is_shutdown x) eqn:Ex.
    + apply sd_ok_true in H. destruct a; discriminate.
    + destruct (IH _ H b eq_refl) as (A & B). split; [exact A|].
      intros [->|Hin]; [discriminate|exact (B Hin)].
Qed.

Lemma has_sd_in cs : has_sd cs = true <-> In CShutdown cs.
Proof.
  unfold has_sd. rewrite existsb_exists. split.
  - intros (x & Hin & Hx). destruct x; try discriminate. exact Hin.
  - intros Hin. exists CShutdown. split; [exact Hin|reflexivity].
Qed.

Lemma NR_sd_ok f cs f' : NR f cs f' -> sd_ok (n_sdsent f) cs.
Proof.
  induction 1 as [f|f ixs cs f' Hs H1 IH|f cs f' Hs H1 IH]; cbn [sd_ok is_shutdown].
  - exact I.
  - split; [exact Hs|]. rewrite Hs in IH. exact IH.
  - split; [exact Hs|]. exact IH.
Qed.

(* the relation between two system states and the outputs in between, per worker *)
Definition stream_rel (d d' : dstate) (o : list out) : Prop :=
  forall m, sd_ok (ShutdownOnce.flag (d_nt d) m) (cmds_to m o) /\
            (ShutdownOnce.flag (d_nt d) m = true \/ In CShutdown (cmds_to m o) ->
             ShutdownOnce.flag (d_nt d') m = true).

Lemma stream_rel_refl d : stream_rel d d [].
Proof. intros m. split; [exact I|]. intros [H|[]]. exact H. Qed.

Lemma stream_rel_trans a b c o1 o2 : stream_rel a b o1 -> stream_rel b c o2 -> stream_rel a c (o1 ++ o2).
Proof.
  intros H1 H2 m. destruct (H1 m) as (A1 & B1). destruct (H2 m) as (A2 & B2).
  rewrite cmds_to_app. split.
  - apply sd_ok_app; [exact A1|].
    destruct (ShutdownOnce.flag (d_nt a) m) eqn:Fa.
    + cbn [orb]. rewrite (B1 (or_introl eq_refl)) in A2. exact A2.
    + cbn [orb]. destruct (has_sd (cmds_to m o1)) eqn:Hs.
      * rewrite (B1 (or_intror (proj1 (has_sd_in _) Hs))) in A2. exact A2.
      * destruct (ShutdownOnce.flag (d_nt b) m); [|exact A2]. apply sd_ok_true in A2. rewrite A2. exact I.
  - intros [H|H]; [apply B2; left; apply B1; left; exact H|].
    apply in_app_or in H. destruct H as [H|H]; [apply B2; left; apply B1; right; exact H|apply B2; right; exact H].
Qed.

Lemma sd_count_in n o : In CShutdown (cmds_to n o) -> 1 <= ShutdownOnce.sd_count n o.
Proof.
  rewrite sd_count_cmds. unfold nsd. induction (cmds_to n o) as [|x l IH]; [intros []|].
  intros [->|Hin]; cbn; [lia|]. destruct (is_shutdown x); cbn; [lia|auto].
Qed.

(* the flag part holds for every step in every mode *)
Lemma step_flag_part c s l s' o w :
  ShutdownOnce.fresh (y_d s) -> sys_step c s l = Some (s', o, w) ->
  ShutdownOnce.fresh (y_d s') /\
  forall m, (ShutdownOnce.flag (d_nt (y_d s)) m = true \/ In CShutdown (cmds_to m o) ->
             ShutdownOnce.flag (d_nt (y_d s')) m = true).
Proof.
  intros F H. destruct (sys_step_ctrace _ _ _ _ _ _ H) as (k & T & _).
  pose proof (ctrace_lift ShutdownOnce.RD ShutdownOnce.RD_refl ShutdownOnce.RD_trans cmove_RD _ _ _ _ T F) as (F' & Hs).
  split; [exact F'|]. intros m [Hm|Hm].
  - exact (proj1 (proj1 (Hs m) Hm)).
  - destruct (Hs m) as (_ & B & C). apply sd_count_in in Hm.
    assert (E : ShutdownOnce.sd_count m o = 1) by lia. exact (proj2 (C E)).
Qed.

Section LoadStream.
Variable c : config.
Hypothesis Hng : no_garbled c.
Hypothesis Hpos : 0 < c_numnodes c.

Lemma flag_load d ls m :
  d_sched d = StL ls ->
  ShutdownOnce.flag (d_nt d) m = match aget m (l_nt ls) with Some f => n_sdsent f | None => false end.
Proof. intros E. unfold ShutdownOnce.flag, d_nt. rewrite E. reflexivity. Qed.

(* one controller iteration in a state satisfying the invariant *)
Lemma ctl_stream s ev q d' outs r :
  XInv c s -> y_result s = None -> y_evq s = ev :: q ->
  d_loop_once ev (y_d s) = (d', outs, r) ->
  forall m, sd_ok (ShutdownOnce.flag (d_nt (y_d s)) m) (cmds_to m outs).
Proof.
  intros X Eres Eevq El m. pose proof X as [Lo Hi (ls & DJd & NIs) Eq Eu Ea Er Edead].
  specialize (Ea Eres).
  pose proof (pre_from_inv' c s ls ev q X DJd NIs Eevq) as Hpre.
  destruct (loop_once_ok' _ _ Hpos ev _ ls d' outs r DJd Ea Hpre El) as (-> & ls' & vo & Eo & E & _).
  pose proof DJd as (DJ0 & _). rewrite (flag_load _ ls m (dj_sched' _ _ _ _ DJ0)).
  rewrite Eo, cmds_to_vfilter. destruct (closedb (l_nt ls) m); [destruct (aget m (l_nt ls)) as [f|]; exact I|].
  destruct (Nat.lt_ge_cases m (d_next_gw (y_d s))) as [Hlt|Hge].
  - pose proof (he_nt' _ _ _ _ _ _ _ _ E m Hlt) as NRm. unfold NRo in NRm.
    destruct (aget m (l_nt ls)) as [f|]; destruct (aget m (l_nt ls')) as [f'|]; try contradiction.
    + apply NR_sd_ok in NRm. exact NRm.
    + rewrite NRm. exact I.
  - rewrite (he_out' _ _ _ _ _ _ _ _ E m Hge). destruct (aget m (l_nt ls)); exact I.
Qed.

Lemma step_stream s l s' o w :
  XInv c s -> ShutdownOnce.fresh (y_d s) -> sys_step c s l = Some (s', o, w) ->
  stream_rel (y_d s) (y_d s') o.
Proof.
  intros X F H m. destruct (step_flag_part _ _ _ _ _ _ F H) as (_ & FL). split; [|apply FL].
  clear FL. pose proof X as [Lo Hi (ls & DJd & NIs) Eq Eu Ea Er Edead].
  unfold sys_step in H. destruct (y_result s) eqn:Eres; [discriminate|].
  assert (NIL : forall b, sd_ok b (cmds_to m [])) by (intros b; exact I).
  destruct l as [n0|n0|n0|n0| |n0].
  - destruct (mem_nat n0 (y_dead s)); [discriminate|].
    destruct (aget n0 (y_down s)) as [[|cmd rest]|]; try discriminate.
    destruct (aget n0 (y_w s)); [|discriminate]. inv H. apply NIL.
  - destruct (mem_nat n0 (y_dead s)); [discriminate|].
    destruct (aget n0 (y_w s)) as [w0|]; [|discriminate].
    destruct (negb (wcb w0)); [discriminate|].
    destruct (recv_step (c_oracle c n0) w0) as [w1 evs]. inv H. apply NIL.
  - destruct (mem_nat n0 (y_dead s)); [discriminate|].
    destruct (aget n0 (y_w s)) as [w0|]; [|discriminate].
    destruct (dies_now c n0 w0); [inv H; apply NIL|].
    destruct (main_step (c_oracle c n0) w0) as [[w1 evs]|]; [|discriminate]. inv H. apply NIL.
  - destruct (aget n0 (y_up s)) as [[|msg rest]|] eqn:Eup; try discriminate.
    cbn [y_d] in H.
    destruct (process_from_remote n0 msg (y_d s)) as [[d' outs] r] eqn:Ep.
    destruct (step_recv c Hpos s n0 msg rest d' outs r X Eup Ep) as (-> & evs & -> & _).
    inv H. apply NIL.
  - specialize (Ea eq_refl).
    destruct (d_active (y_d s)) as [|a0 ar] eqn:Eact; [contradiction|].
    destruct (y_evq s) as [|ev q] eqn:Eevq; [discriminate|].
    destruct (d_loop_once ev (y_d s)) as [[d' outs] r] eqn:El.
    pose proof (ctl_stream s ev q d' outs r X Eres Eevq El m) as ST.
    destruct (step_ctl_core c Hpos s ev q d' outs r X Eres Eevq El) as (-> & Hfin & CORE).
    destruct (d_session_finished d') eqn:Efin; [inv H; exact ST|].
    destruct (d_active d') as [|b0 br] eqn:Eact'; [|inv H; exact ST].
    (* nobody is left: d_no_active sends nothing, because no node is registered any more *)
    assert (Hsd : d_shuttingdown d' = false).
    { unfold d_session_finished in Efin. rewrite Eact', andb_true_r in Efin. exact Efin. }
    assert (XR : XInv c (set_result (apply_outs (set_d (set_evq s q) d') outs) (Some RFinished)))
      by (apply CORE; [intros e; discriminate|discriminate]).
    pose proof XR as [_ _ (ls' & DJ2 & _) _ _ _ _ _].
    cbn [set_result y_d] in DJ2. rewrite y_d_apply_outs in DJ2. cbn [set_d y_d] in DJ2.
    destruct DJ2 as ([Els2 J2 Jb2 _ _ _ _ _ _ _] & Jss2 & _).
    assert (Hss : d_shouldstop d' = false).
    { destruct (d_shouldstop d'); [|reflexivity]. rewrite (Jss2 eq_refl) in Hsd. discriminate. }
    assert (Hnn : s_nodes (d_sched d') = []).
    { rewrite Els2. cbn [s_nodes]. specialize (Jb2 Hss). rewrite Eact' in Jb2.
      destruct (l_nodes ls') as [|k rr]; [reflexivity|]. exfalso. apply (Jb2 k). left. reflexivity. }
    rewrite (trigger_no_nodes d' Hsd Hnn) in H. inv H. rewrite app_nil_r. exact ST.
  - destruct (mem_nat n0 (y_dead s)); [discriminate|].
    destruct (aget n0 (y_w s)) as [w0|]; [|discriminate].
    destruct (wph w0); try discriminate; inv H; apply NIL.
Qed.

Lemma exec_stream ls : forall s s' o w,
  XInv c s \/ y_result s <> None -> ShutdownOnce.fresh (y_d s) ->
  sys_exec c s ls = (s', o, w) -> stream_rel (y_d s) (y_d s') o.
Proof.
  induction ls as [|l ls IH]; intros s s' o w HX F H; cbn [sys_exec] in H.
  - inv H. apply stream_rel_refl.
  - destruct (sys_step c s l) as [[[s1 o1] w1]|] eqn:E; [|eapply IH; eassumption].
    destruct (sys_exec c s1 ls) as [[s2 o2] w2] eqn:E2. inv H.
    destruct HX as [X|Hr]; [|unfold sys_step in E; destruct (y_result s); [discriminate|contradiction]].
    destruct (step_flag_part _ _ _ _ _ _ F E) as (F1 & _).
    eapply stream_rel_trans; [eapply step_stream; eassumption|].
    eapply IH; [|exact F1|exact E2].
    destruct (step_xinv c Hng Hpos _ _ _ _ _ X E) as [X1|(Hr & _)]; [left; exact X1|right; rewrite Hr; discriminate].
Qed.

(* ---- C16, second half (load): in the whole session, nothing is sent to a worker after its
        shutdown command, and there is at most one ---- *)
Theorem load_command_stream ls s outs wevs :
  c_mode c = MLoad ->
  sys_exec c (sys_init c) ls = (s, outs, wevs) ->
  forall n a b, cmds_to n outs = a ++ CShutdown :: b -> b = [] /\ ~ In CShutdown a.
Proof.
  intros Hmode H n a b E.
  pose proof (exec_stream ls _ _ _ _ (or_introl (XInv_init c Hmode Hpos)) (fresh_init c) H n) as (A & _).
  rewrite flag_init in A. exact (sd_ok_spec _ A a b E).
Qed.

(* the same between any two points of the session, relative to the flag *)
Theorem load_no_command_after_shutdown ls1 ls2 s1 o1 w1 s2 o2 w2 n :
  c_mode c = MLoad ->
  sys_exec c (sys_init c) ls1 = (s1, o1, w1) -> sys_exec c s1 ls2 = (s2, o2, w2) ->
  In CShutdown (cmds_to n o1) -> cmds_to n o2 = [].
Proof.
  intros Hmode H1 H2 Hin.
  assert (H : sys_exec c (sys_init c) (ls1 ++ ls2) = (s2, o1 ++ o2, w1 ++ w2)).
  { rewrite sys_exec_app, H1, H2. reflexivity. }
  apply in_split in Hin. destruct Hin as (a & b & E).
  assert (E' : cmds_to n (o1 ++ o2) = a ++ CShutdown :: (b ++ cmds_to n o2)).
  { rewrite cmds_to_app, E, <- app_assoc. reflexivity. }
  destruct (load_command_stream _ _ _ _ Hmode H n a _ E') as (Z & _).
  apply app_eq_nil in Z. exact (proj2 Z).
Qed.
End LoadStream.

Check load_command_stream.
Print Assumptions load_command_stream.
Print Assumptions load_no_command_after_shutdown.

(* ====================================================================================== *)
(* Non-vacuity                                                                             *)
(* ====================================================================================== *)
Lemma xc_no_garbled m mr mf rq crash : no_garbled (xc_cfg m mr mf rq crash).
Proof. intros n i H. cbn in H. destruct i; cbn in H; intuition discriminate. Qed.

(* the budget-4 session of SystemCorollaries.v (two crashes, two replacements): every worker's
   command stream ends with its shutdown command, by the theorem *)
Example xc_stream_applies :
  let c := xc_cfg MLoad (Some 4%Z) 0%Z 0 xc_crash in
  let '(s, o, w) := sys_exec c (sys_init c) (rounds 80 xc_round) in
  cmds_to 0 o = [CRun [0; 1]; CRun [5]] ++ CShutdown :: [] /\
  forall n a b, cmds_to n o = a ++ CShutdown :: b -> b = [] /\ ~ In CShutdown a.
Proof.
  cbv zeta.
  destruct (sys_exec (xc_cfg MLoad (Some 4%Z) 0%Z 0 xc_crash) (sys_init (xc_cfg MLoad (Some 4%Z) 0%Z 0 xc_crash))
              (rounds 80 xc_round)) as [[s o] w] eqn:E.
  split; [vm_compute in E; inversion E; subst; vm_compute; reflexivity|].
  exact (load_command_stream _ (xc_no_garbled _ _ _ _ _) (Nat.lt_0_succ 1) _ _ _ _ eq_refl E).
Qed.
Print Assumptions xc_stream_applies.
