(* SystemGaps3c.v — C09 "whoever is sent tests is registered", part 3: the whole system.

   MAIN THEOREM (all six modes, every schedule, crashes and written-off workers included, no
   hypothesis on the configuration):

     sys_sent_is_registered :
       sys_exec c (sys_init c) ls = (s, o0, w0) -> sys_step c s l = Some (s', o, w) ->
       In (OSend n cm) o -> is_workcmd cm = true ->           (* CRun / CRunAll / CSteal *)
       exists coll, aget n (s_registered (d_sched (y_d s'))) = Some coll /\ coll = c_coll c n /\
                    (forall ref, s_ref (d_sched (y_d s')) = Some ref -> coll = ref)

   The registration is looked up in the state AFTER the step (the collectionfinish turn registers
   and distributes in one step: xg_prestate_not_enough shows the pre-state does not work).
   Post-state registration is true also for the errordown turn: remove_node drops the registration
   of the dead node before anything is re-dispatched, and nothing is sent to that node afterwards.

   How it is put together:
     sys_step_work   one step from a state satisfying DPre sends work only to nodes registered after
                     the step (from loop_once_work, SystemGaps3b.v)
     sys_dpre        DPre holds in every reachable state without a result:
        worksteal / scope family: DPre is trivial (sys_sched_kind: the scheduler keeps its class)
        each: the scheduler invariant EInv  (sys_sched_inv)
        load: the scheduler invariant LK (sys_sched_inv) and the counting fact
              "not shutting down -> at most numnodes known nodes", from
                sys_active_inv   active nodes are distinct, at most c_numnodes c, ids below the counter
                sys_ready_inv    PI: a workerready event is only handled for an active node (pipeline
                                 invariant over wires and event queue: workerready is the first thing a
                                 worker says, and everything that ends a node marks it down first),
                                 and BL: known nodes are active nodes until a stop is requested
                sys_load_sched   numnodes of the scheduler = c_numnodes c
                sys_stop_shutting_down (SystemCorollaries.v)  stop requested -> shutting down *)
From XV Require Import Base Worker Ctl SchedLoad SchedSteal SchedScope SchedEach Sched DSession System
  NoHook DSessionProofs ShutdownOnce StopProofs FifoProofs SystemCorollaries SystemCorollariesColl SystemGaps3a SystemGaps3b.
From XV Require CollectionProofs.
Open Scope nat_scope.

(* ====================================================================================== *)
(* the set of active nodes: distinct, at most as many as initial workers, ids below the     *)
(* group counter (every reachable controller state in which no exception escaped)           *)
(* ====================================================================================== *)
Definition FR (d d' : dstate) (o : list out) : Prop :=
  d_active d' = d_active d /\ d_next_gw d' = d_next_gw d.
Lemma FR_refl : rrefl FR. Proof. intros d. split; reflexivity. Qed.
Lemma FR_trans : rtrans FR. Proof. intros a b c o1 o2 (A1 & A2) (B1 & B2). split; congruence. Qed.
#[export] Hint Resolve FR_refl FR_trans : sdrel.

Lemma fr_sched_op op d0 : from FR d0 (d_sched_op op).
Proof.
  intros d' o r H. destruct (d_sched_op_frame _ _ _ _ _ H) as ((st & ->) & _). split; reflexivity.
Qed.
Lemma fr_node_shutdown n d0 : from FR d0 (d_node_shutdown n).
Proof.
  intros d' o r H. destruct (node_shutdown_frame _ _ _ _ _ _ _ H) as [->|(v & ->)]; split; reflexivity.
Qed.
Create HintDb frdb.
#[export] Hint Resolve fr_sched_op fr_node_shutdown : frdb.
Ltac fr1 :=
  first
    [ apply f_ret; rr | apply f_raise; rr | apply f_massert; rr | apply f_of_opt; rr
    | apply f_getv; rr
    | apply f_put; split; reflexivity
    | apply f_emit; split; reflexivity
    | apply f_mfor; [rr | rr | intros ? ?]
    | match goal with
      | |- from _ _ (mbind get _) => apply f_get
      | |- from _ _ (mbind (ret _) _) => apply f_ret_bind
      | |- from _ _ (mbind (of_opt _ _) _) => apply f_of_opt_bind; [rr | intros ? ?]
      | |- from _ _ (mbind (massert _) _) => apply f_massert_bind; [rr | intros ?]
      | |- from _ _ (mbind _ _) => apply f_bind; [rr | | intros ? ?]
      end
    | progress cbv zeta
    | match goal with
      | |- from _ _ (match ?x with _ => _ end) => destruct x eqn:?
      | |- from _ _ (let '(_, _) := ?x in _) => destruct x eqn:?
      end
    | solve [eauto with frdb] ].
Ltac fr := repeat fr1.

Lemma fr_triggershutdown d0 : from FR d0 d_triggershutdown.
Proof. unfold d_triggershutdown. fr. Qed.
#[export] Hint Resolve fr_triggershutdown : frdb.
Lemma fr_handlefailures f d0 : from FR d0 (d_handlefailures f).
Proof. unfold d_handlefailures. fr. Qed.
#[export] Hint Resolve fr_handlefailures : frdb.
Lemma fr_handle_crashitem item n d0 : from FR d0 (d_handle_crashitem item n).
Proof. unfold d_handle_crashitem, hook. fr. Qed.
#[export] Hint Resolve fr_handle_crashitem : frdb.
Lemma fr_try_block n d0 : from FR d0 (try_block n).
Proof.
  intros d' o r H. unfold try_block in H.
  destruct (d_sched_op (SRemove n) d0) as [[d1 o1] r1] eqn:E1.
  pose proof (fr_sched_op _ d0 _ _ _ E1) as R1.
  destruct r1 as [[item|]|e].
  - destruct (d_handle_crashitem item n d1) as [[d2 o2] r2] eqn:E2. inversion H; subst.
    eapply FR_trans; [exact R1|exact (fr_handle_crashitem _ _ _ _ _ _ E2)].
  - inversion H; subst. exact R1.
  - destruct e; inversion H; subst; exact R1.
Qed.
#[export] Hint Resolve fr_try_block : frdb.
Lemma fr_loop_rest d0 : from FR d0 loop_rest.
Proof. unfold loop_rest. fr. Qed.
Lemma fr_no_active d0 : from FR d0 d_no_active.
Proof. unfold d_no_active. fr. Qed.
Lemma fr_process_from_remote n m d0 : from FR d0 (process_from_remote n m).
Proof.
  unfold process_from_remote. apply f_get. apply f_of_opt_bind; [rr|]. intros f Hf. cbv zeta.
  destruct m as [e|ids|sk|i ms|[|]| | |]; try destruct e; fr.
Qed.

Lemma mbind_ok_inv {S A B} (m : M S A) (f : A -> M S B) s s' o b :
  mbind m f s = (s', o, Ok b) ->
  exists s1 o1 a o2, m s = (s1, o1, Ok a) /\ f a s1 = (s', o2, Ok b) /\ o = o1 ++ o2.
Proof.
  intros H. apply DSessionProofs.mbind_inv in H. destruct H as [X|(e & _ & X)]; [exact X|discriminate].
Qed.

Lemma active_remove_ok n d d' o :
  d_active_remove n d = (d', o, Ok tt) ->
  In n (d_active d) /\ d_active d' = filter (fun m => negb (Nat.eqb m n)) (d_active d) /\ d_next_gw d' = d_next_gw d.
Proof.
  unfold d_active_remove, mbind, get. destruct (mem_nat n (d_active d)) eqn:E; cbn; [|discriminate].
  intros H. inversion H; subst. cbn. split; [|auto].
  unfold mem_nat in E. apply existsb_exists in E. destruct E as (x & Hx & Ex). apply Nat.eqb_eq in Ex. subst x. exact Hx.
Qed.
Lemma clone_ok n d d' o :
  d_clone_node n d = (d', o, Ok tt) ->
  d_active d' = d_active d ++ [d_next_gw d] /\ d_next_gw d' = S (d_next_gw d).
Proof.
  unfold d_clone_node, mbind, get, of_opt, hook, emit, put, ret, raise.
  destruct (aget n (d_nt d)) as [f|]; [|discriminate].
  unfold d_sched_op. cbn [s_step]. intros H. inversion H; subst. cbn. split; reflexivity.
Qed.

Definition rm (n : nat) (l : list nat) : list nat := filter (fun m => negb (Nat.eqb m n)) l.
Definition ev_removes (ev : cevent) : option nat :=
  match ev with QFinished n _ | QErrorDown n | QInternalError n => Some n | _ => None end.

(* what a handler that ends normally does to the set of active nodes: at most one replacement
   (fresh id = the group counter) is added, then the node of the event (if it is an event that
   ends a node) is removed -- and it was there *)
Definition act_eff (x : option nat) (d d' : dstate) : Prop :=
  exists extra,
    ((extra = [] /\ d_next_gw d' = d_next_gw d) \/ (extra = [d_next_gw d] /\ d_next_gw d' = S (d_next_gw d))) /\
    match x with
    | Some n => d_active d' = rm n (d_active d ++ extra) /\ In n (d_active d ++ extra)
    | None => d_active d' = d_active d /\ extra = []
    end.

Lemma act_eff_fr_l x a b c o : FR a b o -> act_eff x b c -> act_eff x a c.
Proof. intros (A1 & A2) (extra & E1 & E2). exists extra. rewrite <- A1, <- A2. auto. Qed.
Lemma act_eff_fr_r x a b c o : act_eff x a b -> FR b c o -> act_eff x a c.
Proof. intros (extra & E1 & E2) (A1 & A2). exists extra. rewrite A1, A2. auto. Qed.
Lemma act_eff_none_fr a b o : FR a b o -> act_eff None a b.
Proof. intros (A1 & A2). exists []. split; [left; auto|]. auto. Qed.

Lemma act_eff_remove n d d' o : d_active_remove n d = (d', o, Ok tt) -> act_eff (Some n) d d'.
Proof.
  intros H. destruct (active_remove_ok _ _ _ _ H) as (Hin & E1 & E2). exists []. rewrite app_nil_r.
  split; [left; auto|]. split; [exact E1|exact Hin].
Qed.

Lemma errordown_eff n d d' o : d_worker_errordown n d = (d', o, Ok tt) -> act_eff (Some n) d d'.
Proof.
  rewrite errordown_unfold. intros H.
  apply mbind_ok_inv in H. destruct H as (d1 & o1 & [] & o2 & H1 & H & ->).
  unfold hook, emit in H1. inversion H1; subst d1 o1. clear H1.
  apply mbind_ok_inv in H. destruct H as (d1 & o1 & [] & o3 & H1 & H & ->).
  destruct (fr_try_block _ _ _ _ _ H1) as (F1 & F2).
  rewrite CollectionProofs.mbind_get in H. cbv zeta in H.
  rewrite CollectionProofs.mbind_put in H.
  apply mbind_ok_inv in H. destruct H as (d2 & o4 & [] & o5 & H2 & H3 & ->).
  assert (CL : forall dz dd o0, d_active dz = d_active d -> d_next_gw dz = d_next_gw d ->
               ((d2 <- get ;; put (d_set_shuttingdown d2 false)) ;;; d_clone_node n) dz = (dd, o0, Ok tt) ->
               d_active dd = d_active d ++ [d_next_gw d] /\ d_next_gw dd = S (d_next_gw d)).
  { intros dz dd o0 B1 B2 HC. apply mbind_ok_inv in HC. destruct HC as (dx & ox & [] & oy & HC1 & HC2 & ->).
    rewrite CollectionProofs.mbind_get in HC1. unfold put in HC1. inversion HC1; subst dx ox.
    destruct (clone_ok _ _ _ _ HC2) as (C1 & C2). rewrite C1, C2. cbn [d_active d_next_gw d_set_shuttingdown]. rewrite B1, B2. auto. }
  assert (TR : forall dz dd o0 r0 z, d_active dz = d_active d -> d_next_gw dz = d_next_gw d ->
               (hook (HSummary z) ;;; d_triggershutdown) dz = (dd, o0, r0) ->
               d_active dd = d_active d /\ d_next_gw dd = d_next_gw d).
  { intros dz dd o0 r0 z B1 B2 HT.
    assert (Y : from FR dz (hook (HSummary z) ;;; d_triggershutdown)) by (unfold hook; fr).
    destruct (Y _ _ _ HT) as (Y1 & Y2). split; congruence. }
  assert (X : (d_active d2 = d_active d /\ d_next_gw d2 = d_next_gw d) \/
              (d_active d2 = d_active d ++ [d_next_gw d] /\ d_next_gw d2 = S (d_next_gw d))).
  { destruct (d_max_restart d1) as [mx|].
    - destruct (mx <? d_failed_nodes d1 + 1)%Z; [left; eapply TR; [| |exact H2]|right; eapply CL; [| |exact H2]]; assumption.
    - right. eapply CL; [| |exact H2]; assumption. }
  destruct (active_remove_ok _ _ _ _ H3) as (Hin & E1 & E2).
  destruct X as [(X1 & X2)|(X1 & X2)].
  - exists []. rewrite app_nil_r. split; [left; split; [reflexivity|congruence]|]. rewrite E1, X1. split; [reflexivity|]. rewrite <- X1. exact Hin.
  - exists [d_next_gw d]. split; [right; split; [reflexivity|congruence]|]. rewrite E1, X1. split; [reflexivity|]. rewrite <- X1. exact Hin.
Qed.

Lemma act_eff_from_fr {A} (m : D A) d d' o r : from FR d m -> m d = (d', o, r) -> act_eff None d d'.
Proof. intros F E. eapply act_eff_none_fr. exact (F _ _ _ E). Qed.

Lemma fr_then_remove_eff {A} (m : D A) n d d' o :
  (forall d0, from FR d0 m) -> (m ;;; d_active_remove n) d = (d', o, Ok tt) -> act_eff (Some n) d d'.
Proof.
  intros Hm H. apply mbind_ok_inv in H. destruct H as (d1 & o1 & a & o2 & H1 & H2 & ->).
  eapply act_eff_fr_l; [exact (Hm _ _ _ _ H1)|]. eapply act_eff_remove. exact H2.
Qed.

Lemma handle_eff ev d d' o : d_handle ev d = (d', o, Ok tt) -> act_eff (ev_removes ev) d d'.
Proof.
  destruct ev as [n|n ids|n key fl|n i|n i|n i k oc|n i ms|n ixs| |n|n sk|n]; cbn [d_handle ev_removes]; intros H;
    try ((eapply act_eff_from_fr; [|exact H]); unfold hook; fr; fail).
  - (* QInternalError *)
    apply mbind_ok_inv in H. destruct H as (d1 & o1 & [] & o2 & H1 & H2 & ->).
    eapply act_eff_fr_r; [eapply act_eff_remove; exact H1|]. unfold hook, emit in H2. inversion H2; subst. apply (FR_refl d').
  - (* QFinished *)
    unfold d_worker_workerfinished in H.
    apply mbind_ok_inv in H. destruct H as (d1 & o1 & [] & o2 & H1 & H & ->).
    unfold hook, emit in H1. inversion H1; subst d1 o1. clear H1. destruct sk.
    + rewrite CollectionProofs.mbind_get in H. eapply (fr_then_remove_eff _ n); [|exact H]. intros d0. fr.
    + eapply (fr_then_remove_eff _ n); [|exact H]. intros d0. fr.
    + apply mbind_ok_inv in H. destruct H as (d1 & o1 & [] & o3 & H1 & H & ->).
      apply mbind_ok_inv in H. destruct H as (d3 & o4 & [] & o5 & H3 & H & ->).
      eapply act_eff_fr_l; [|eapply errordown_eff; exact H].
      assert (X : from FR d (d0 <- get ;; put (d_set_shouldstop d0 true))) by fr.
      assert (X3 : from FR d1 d_triggershutdown) by fr.
      exact (FR_trans _ _ _ _ _ (X _ _ _ H1) (X3 _ _ _ H3)).
  - eapply errordown_eff; exact H.
Qed.

Lemma loop_once_eff ev d d' o : d_loop_once ev d = (d', o, Ok tt) -> act_eff (ev_removes ev) d d'.
Proof.
  rewrite loop_once_unfold. intros E. apply mbind_ok_inv in E. destruct E as (d1 & o1 & [] & o2 & H1 & H2 & ->).
  eapply act_eff_fr_r; [eapply handle_eff; exact H1|exact (fr_loop_rest _ _ _ _ H2)].
Qed.

Section Active.
Variable N : nat.
Definition AInv (d : dstate) : Prop :=
  NoDup (d_active d) /\ length (d_active d) <= N /\ forall m, In m (d_active d) -> m < d_next_gw d.

Lemma ainv_fr d d' o : FR d d' o -> AInv d -> AInv d'.
Proof. intros (A1 & A2). unfold AInv. rewrite A1, A2. auto. Qed.

Lemma rm_length n (l : list nat) : NoDup l -> In n l -> S (length (rm n l)) = length l.
Proof.
  unfold rm. induction l as [|x l IH]; [intros _ []|]. intros ND Hin. inversion ND as [|y l' Hx ND']; subst. cbn [filter].
  destruct (Nat.eqb x n) eqn:E; cbn [negb length].
  - apply Nat.eqb_eq in E. subst x. f_equal.
    clear IH ND Hin. induction l as [|y l IH]; [reflexivity|]. inversion ND' as [|z l' Hy ND'']; subst. cbn [filter].
    destruct (Nat.eqb y n) eqn:E; [apply Nat.eqb_eq in E; subst y; exfalso; apply Hx; left; reflexivity|].
    cbn [negb length]. f_equal. apply IH; [intros X; apply Hx; right; exact X|exact ND''].
  - destruct Hin as [->|Hin]; [rewrite Nat.eqb_refl in E; discriminate|]. f_equal. apply IH; assumption.
Qed.

Lemma ainv_eff x d d' : act_eff x d d' -> AInv d -> AInv d'.
Proof.
  intros (extra & E1 & E2) (ND & LE & LT).
  assert (NDx : NoDup (d_active d ++ extra) /\ (forall m, In m (d_active d ++ extra) -> m < d_next_gw d') /\
                length (d_active d ++ extra) = length (d_active d) + length extra /\ d_next_gw d <= d_next_gw d').
  { destruct E1 as [(-> & G)|(-> & G)]; rewrite G, ?app_nil_r.
    - repeat split; auto; cbn; lia.
    - split; [apply g3_nodup_snoc; [exact ND|]; intros Hin; specialize (LT _ Hin); lia|]. split; [|split; [apply app_length|lia]].
      intros m Hm. apply in_app_or in Hm. destruct Hm as [Hm|[<-|[]]]; [specialize (LT _ Hm); lia|lia]. }
  destruct NDx as (NDx & LTx & LEN & GW). destruct x as [n|].
  - destruct E2 as (E2 & Hin). unfold AInv. rewrite E2. split; [apply NoDup_filter; exact NDx|]. split.
    + pose proof (rm_length n _ NDx Hin). destruct E1 as [(-> & _)|(-> & _)]; cbn in *; lia.
    + intros m Hm. apply filter_In in Hm. apply LTx. exact (proj1 Hm).
  - destruct E2 as (E2 & ->). rewrite app_nil_r in *. unfold AInv. rewrite E2. split; [exact NDx|]. split; [exact LE|exact LTx].
Qed.

Lemma ainv_cmove d d' o : cmove true d d' o -> AInv d -> AInv d'.
Proof.
  intros H Hi. destruct (cmove_ok_inv _ _ _ H) as [(ev & E)|[(n & m & evs & E)|(n & f & Hf & -> & ->)]].
  - eapply ainv_eff; [eapply loop_once_eff; exact E|exact Hi].
  - eapply ainv_fr; [exact (fr_process_from_remote _ _ _ _ _ _ E)|exact Hi].
  - eapply (ainv_fr _ _ []); [|exact Hi]. split; reflexivity.
Qed.
End Active.

Lemma ainv_init c : AInv (c_numnodes c) (y_d (sys_init c)).
Proof.
  unfold AInv. cbn [sys_init y_d d_active d_next_gw]. split; [apply seq_NoDup|]. split; [rewrite seq_length; lia|].
  intros m Hm. apply in_seq in Hm. lia.
Qed.

(* every reachable state in which no exception escaped *)
Theorem sys_active_inv c ls s o w :
  sys_exec c (sys_init c) ls = (s, o, w) -> not_errored s -> AInv (c_numnodes c) (y_d s).
Proof.
  intros H Hn.
  refine (proj2 (sys_exec_lift_pre (AInv (c_numnodes c)) (fun _ _ _ => True) _ _ _ c ls _ _ _ _ H (ainv_init c)) Hn).
  - intros d. exact I.
  - intros a b d0 o1 o2 _ _. exact I.
  - intros k d d' o0 M Hi. split; [exact I|]. intros ->. eapply ainv_cmove; eassumption.
Qed.

(* ====================================================================================== *)
(* the scheduler invariants (LK for load, EInv for each) hold in every reachable state     *)
(* ====================================================================================== *)
(* generic: a predicate on scheduler states that every scheduler operation preserves and that does
   not look at the node table holds along every system run *)
Section SchedPred.
Variable P : sstate -> Prop.
Hypothesis P_step : forall st op st' o r, s_step st op = (st', o, r) -> P st -> P st'.
Hypothesis P_nt : forall st v, P (s_set_nt st v) <-> P st.

Definition SID (d d' : dstate) (o : list out) : Prop := P (d_sched d) -> P (d_sched d').
Lemma SID_refl : rrefl SID. Proof. intros d H. exact H. Qed.
Lemma SID_trans : rtrans SID. Proof. intros a b c o1 o2 A B H. exact (B (A H)). Qed.
Hint Resolve SID_refl SID_trans : sdrel.
Lemma sid_sched_op op d0 : from SID d0 (d_sched_op op).
Proof.
  intros d' o r H. unfold d_sched_op in H. destruct (s_step (d_sched d0) op) as [[st o1] r1] eqn:E.
  inversion H; subst. unfold SID. cbn [d_sched d_set_sched]. eapply P_step; exact E.
Qed.
Lemma sid_node_shutdown n d0 : from SID d0 (d_node_shutdown n).
Proof.
  intros d' o r H. destruct (node_shutdown_frame _ _ _ _ _ _ _ H) as [->|(v & ->)]; [intros X; exact X|].
  unfold SID, d_set_nt. cbn [d_sched d_set_sched]. apply P_nt.
Qed.
Hint Resolve sid_sched_op sid_node_shutdown : siddb.
Ltac sid_rel := unfold SID; cbn; rewrite ?P_nt; solve [auto].
Ltac sid1 :=
  first
    [ apply f_ret; rr | apply f_raise; rr | apply f_massert; rr | apply f_of_opt; rr
    | apply f_getv; rr
    | apply f_put; sid_rel
    | apply f_emit; sid_rel
    | apply f_mfor; [rr | rr | intros ? ?]
    | match goal with
      | |- from _ _ (mbind get _) => apply f_get
      | |- from _ _ (mbind (ret _) _) => apply f_ret_bind
      | |- from _ _ (mbind (of_opt _ _) _) => apply f_of_opt_bind; [rr | intros ? ?]
      | |- from _ _ (mbind (massert _) _) => apply f_massert_bind; [rr | intros ?]
      | |- from _ _ (mbind _ _) => apply f_bind; [rr | | intros ? ?]
      end
    | progress cbv zeta
    | match goal with
      | |- from _ _ (match ?x with _ => _ end) => destruct x eqn:?
      | |- from _ _ (let '(_, _) := ?x in _) => destruct x eqn:?
      end
    | solve [eauto with siddb] ].
Ltac sid := repeat sid1.
Lemma sid_triggershutdown d0 : from SID d0 d_triggershutdown.
Proof. unfold d_triggershutdown. sid. Qed.
Hint Resolve sid_triggershutdown : siddb.
Lemma sid_active_remove n d0 : from SID d0 (d_active_remove n).
Proof. unfold d_active_remove. sid. Qed.
Hint Resolve sid_active_remove : siddb.
Lemma sid_handlefailures f d0 : from SID d0 (d_handlefailures f).
Proof. unfold d_handlefailures. sid. Qed.
Hint Resolve sid_handlefailures : siddb.
Lemma sid_handle_crashitem item n d0 : from SID d0 (d_handle_crashitem item n).
Proof. unfold d_handle_crashitem, hook. sid. Qed.
Hint Resolve sid_handle_crashitem : siddb.
Lemma sid_clone n d0 : from SID d0 (d_clone_node n).
Proof. unfold d_clone_node, hook. sid. Qed.
Hint Resolve sid_clone : siddb.
Lemma sid_try_block n d0 : from SID d0 (try_block n).
Proof.
  intros d' o r H. unfold try_block in H.
  destruct (d_sched_op (SRemove n) d0) as [[d1 o1] r1] eqn:E1.
  pose proof (sid_sched_op _ d0 _ _ _ E1) as R1.
  destruct r1 as [[item|]|e].
  - destruct (d_handle_crashitem item n d1) as [[d2 o2] r2] eqn:E2. inversion H; subst.
    eapply SID_trans; [exact R1|exact (sid_handle_crashitem _ _ _ _ _ _ E2)].
  - inversion H; subst. exact R1.
  - destruct e; inversion H; subst; exact R1.
Qed.
Hint Resolve sid_try_block : siddb.
Lemma sid_errordown n d0 : from SID d0 (d_worker_errordown n).
Proof. rewrite errordown_unfold. unfold hook. sid. Qed.
Hint Resolve sid_errordown : siddb.
Lemma sid_handle ev d0 : from SID d0 (d_handle ev).
Proof.
  destruct ev as [n|n ids|n key fl|n i|n i|n i k oc|n i ms|n ixs| |n|n sk|n]; cbn [d_handle]; unfold hook; try (sid; fail).
  unfold d_worker_workerfinished, hook. destruct sk; sid.
Qed.
Hint Resolve sid_handle : siddb.
Lemma sid_loop_once ev d0 : from SID d0 (d_loop_once ev).
Proof. unfold d_loop_once. sid. Qed.
Lemma sid_no_active d0 : from SID d0 d_no_active.
Proof. unfold d_no_active. sid. Qed.
Lemma sid_process_from_remote n m d0 : from SID d0 (process_from_remote n m).
Proof.
  unfold process_from_remote. apply f_get. apply f_of_opt_bind; [rr|]. intros f Hf. cbv zeta.
  destruct m as [e|ids|sk|i ms|[|]| | |]; try destruct e; sid.
Qed.
Lemma cmove_SID k d d' o : cmove k d d' o -> SID d d' o.
Proof.
  intros [ev d0 d1 o1 r H|d0 d1 o1 r H|n m d0 d1 o1 r H|n f d0 Hf].
  - exact (sid_loop_once ev d0 _ _ _ H).
  - exact (sid_no_active d0 _ _ _ H).
  - exact (sid_process_from_remote n m d0 _ _ _ H).
  - unfold SID, d_set_nt. cbn [d_sched d_set_sched]. apply P_nt.
Qed.
Theorem sys_sched_pred c ls s o w :
  sys_exec c (sys_init c) ls = (s, o, w) -> P (d_sched (y_d (sys_init c))) -> P (d_sched (y_d s)).
Proof. intros H. exact (sys_exec_lift SID SID_refl SID_trans cmove_SID _ _ _ _ _ _ H). Qed.
End SchedPred.

Lemma sinv_init c : SInv (d_sched (y_d (sys_init c))).
Proof.
  cbn [sys_init y_d d_sched]. apply SInv_set_nt. destruct (c_mode c); cbn [s_init SInv]; try exact I.
  - apply lk_init.
  - apply einv_init.
Qed.
Theorem sys_sched_inv c ls s o w :
  sys_exec c (sys_init c) ls = (s, o, w) -> SInv (d_sched (y_d s)).
Proof. intros H. exact (sys_sched_pred SInv s_step_sinv SInv_set_nt _ _ _ _ _ H (sinv_init c)). Qed.

(* the scheduler never changes its class *)
Definition skind (st : sstate) : nat := match st with StL _ => 0 | StW _ => 1 | StC _ => 2 | StE _ => 3 end.
Lemma skind_set_nt st v : skind (s_set_nt st v) = skind st.
Proof. destruct st; reflexivity. Qed.
Lemma s_step_kind st op st' o r : s_step st op = (st', o, r) -> skind st' = skind st.
Proof.
  destruct op; cbn [s_step]; intros H;
    try (destruct st; first [destruct (lift_wrap _ _ _ _ _ _ H) as (? & ->); reflexivity | inversion H; reflexivity]; fail).
  destruct (aget n (s_nt st)); inversion H; subst; [apply skind_set_nt|reflexivity].
Qed.
Theorem sys_sched_kind c ls s o w :
  sys_exec c (sys_init c) ls = (s, o, w) ->
  skind (d_sched (y_d s)) = match c_mode c with MLoad => 0 | MSteal => 1 | MScope _ => 2 | MEach => 3 end.
Proof.
  intros H.
  refine (sys_sched_pred (fun st => skind st = match c_mode c with MLoad => 0 | MSteal => 1 | MScope _ => 2 | MEach => 3 end)
            _ _ _ _ _ _ _ H _).
  - intros st op st' o0 r E X. rewrite (s_step_kind _ _ _ _ _ E). exact X.
  - intros st v. rewrite skind_set_nt. tauto.
  - cbn [sys_init y_d d_sched]. rewrite skind_set_nt. destruct (c_mode c); reflexivity.
Qed.
Print Assumptions sys_sched_inv.

(* ====================================================================================== *)
(* one step of the system                                                                  *)
(* ====================================================================================== *)
Lemma close_if_dead_d s n :
  y_d (close_if_dead s n) = y_d s \/ exists v, y_d (close_if_dead s n) = d_set_nt (y_d s) v.
Proof.
  unfold close_if_dead. destruct (mem_nat n (y_dead s)); [|left; reflexivity].
  destruct (aget n (d_nt (y_d s))) as [f|]; [|left; reflexivity].
  destruct (n_down f); [|left; reflexivity]. right. eexists. reflexivity.
Qed.
Lemma crash_worker_d c s n :
  y_d (crash_worker c s n) = y_d s \/ exists v, y_d (crash_worker c s n) = d_set_nt (y_d s) v.
Proof.
  unfold crash_worker. cbn [y_d]. destruct (c_strict c); [|left; reflexivity].
  destruct (aget n (d_nt (y_d s))) as [f|]; [|left; reflexivity]. right. eexists. reflexivity.
Qed.
Lemma regd_close s n : regd (y_d (close_if_dead s n)) = regd (y_d s).
Proof. destruct (close_if_dead_d s n) as [->|(v & ->)]; [reflexivity|apply regd_set_nt]. Qed.

Notation work_registered d' o :=
  (forall n cm, In (OSend n cm) o -> is_workcmd cm = true -> ahas n (regd d') = true).

Theorem sys_step_work c s l s' o w :
  DPre (y_d s) -> sys_step c s l = Some (s', o, w) -> work_registered (y_d s') o.
Proof.
  intros Hp H. unfold sys_step in H. destruct (y_result s); [discriminate|].
  destruct l as [n0|n0|n0|n0| |n0].
  - destruct (mem_nat n0 (y_dead s)); [discriminate|].
    destruct (aget n0 (y_down s)) as [[|cmd rest]|]; try discriminate.
    destruct (aget n0 (y_w s)); [|discriminate]. inversion H; subst. intros n cm [].
  - destruct (mem_nat n0 (y_dead s)); [discriminate|].
    destruct (aget n0 (y_w s)) as [w0|]; [|discriminate].
    destruct (negb (wcb w0)); [discriminate|].
    destruct (recv_step (c_oracle c n0) w0) as [w1 evs]. inversion H; subst. intros n cm [].
  - destruct (mem_nat n0 (y_dead s)); [discriminate|].
    destruct (aget n0 (y_w s)) as [w0|]; [|discriminate].
    destruct (dies_now c n0 w0); [inversion H; subst; intros n cm []|].
    destruct (main_step (c_oracle c n0) w0) as [[w1 evs]|]; [|discriminate]. inversion H; subst. intros n cm [].
  - destruct (aget n0 (y_up s)) as [[|m rest]|]; try discriminate. cbn [y_d] in H.
    destruct (process_from_remote n0 m (y_d s)) as [[d' outs] r] eqn:E.
    pose proof (Mr_Wr _ _ _ _ (mrd_process_from_remote n0 m (y_d s) _ _ _ E)) as G.
    destruct r; inversion H; subst.
    + rewrite regd_close. cbn [set_evq y_d]. rewrite y_d_apply_outs. exact G.
    + cbn [set_result y_d]. rewrite y_d_apply_outs. exact G.
  - destruct (d_active (y_d s)) as [|a act] eqn:Ea.
    + destruct (d_no_active (y_d s)) as [[d' outs] r] eqn:E. inversion H; subst.
      cbn [set_result y_d]. rewrite y_d_apply_outs. exact (Mr_Wr _ _ _ _ (mrd_no_active (y_d s) _ _ _ E)).
    + destruct (y_evq s) as [|ev q]; [discriminate|].
      destruct (d_loop_once ev (y_d s)) as [[d' outs] r] eqn:E.
      pose proof (loop_once_work ev _ _ _ _ Hp E) as G.
      destruct r as [u|e].
      * destruct (d_session_finished d'); [inversion H; subst; cbn [set_result y_d]; rewrite y_d_apply_outs; exact G|].
        destruct (d_active d') as [|a' act'] eqn:Ea'; [|inversion H; subst; rewrite y_d_apply_outs; exact G].
        destruct (d_no_active d') as [[d2 outs2] r2] eqn:E2. inversion H; subst.
        cbn [set_result y_d]. rewrite y_d_apply_outs. cbn [set_d y_d].
        exact (Wr_Mr regd (y_d s) _ _ _ _ G (mrd_no_active _ _ _ _ E2)).
      * inversion H; subst. cbn [set_result y_d]. rewrite y_d_apply_outs. exact G.
  - destruct (mem_nat n0 (y_dead s)); [discriminate|].
    destruct (aget n0 (y_w s)) as [w0|]; [|discriminate].
    destruct (wph w0); try discriminate; inversion H; subst; intros n cm [].
Qed.
Print Assumptions sys_step_work.

(* ====================================================================================== *)
(* load: the set of known nodes along the controller code                                  *)
(* ====================================================================================== *)
(* (only meaningful in load mode) the scheduler stays a load scheduler with the same numnodes, and
   no node becomes known *)
Definition LN (d d' : dstate) (o : list out) : Prop :=
  forall ls, d_sched d = StL ls ->
  exists ls', d_sched d' = StL ls' /\ l_numnodes ls' = l_numnodes ls /\ incl (l_nodes ls') (l_nodes ls).
Lemma LN_refl : rrefl LN.
Proof. intros d ls E. exists ls. split; [exact E|]. split; [reflexivity|apply incl_refl]. Qed.
Lemma LN_trans : rtrans LN.
Proof.
  intros a b c o1 o2 A B ls E. destruct (A ls E) as (l1 & E1 & N1 & I1). destruct (B l1 E1) as (l2 & E2 & N2 & I2).
  exists l2. split; [exact E2|]. split; [congruence|]. eapply incl_tran; eassumption.
Qed.
#[export] Hint Resolve LN_refl LN_trans : sdrel.

Definition is_addnode (op : sop) : bool := match op with SAddNode _ => true | _ => false end.
Lemma ln_sched_op op d0 : is_addnode op = false -> from LN d0 (d_sched_op op).
Proof.
  intros Hop d' o r H ls E. unfold d_sched_op in H. rewrite E in H.
  destruct (s_step (StL ls) op) as [[st o1] r1] eqn:E1. inversion H; subst. cbn [d_sched d_set_sched].
  destruct (l_step_nodes _ _ _ _ _ E1) as (ls' & -> & N & X). exists ls'. split; [reflexivity|]. split; [exact N|].
  destruct op; try discriminate; try (rewrite X; apply incl_refl).
  destruct X as [(_ & ->)| ->]; [apply incl_refl|]. intros k Hk. eapply g3_akeys_adel_incl. exact Hk.
Qed.
Lemma ln_set_nt d v : LN d (d_set_nt d v) [].
Proof.
  intros ls E. unfold d_set_nt. cbn [d_sched d_set_sched]. rewrite E. cbn [s_set_nt].
  eexists. split; [reflexivity|]. split; [reflexivity|apply incl_refl].
Qed.
Lemma ln_node_shutdown n d0 : from LN d0 (d_node_shutdown n).
Proof.
  intros d' o r H. destruct (node_shutdown_frame _ _ _ _ _ _ _ H) as [->|(v & ->)]; [apply LN_refl|apply ln_set_nt].
Qed.
Create HintDb lndb.
#[export] Hint Resolve ln_node_shutdown : lndb.
#[export] Hint Extern 1 (from _ _ (d_sched_op _)) => (apply ln_sched_op; reflexivity) : lndb.
Ltac ln_rel :=
  first [ apply LN_refl | apply ln_set_nt
        | (intros ls0 E0; exists ls0; split; [exact E0|split; [reflexivity|apply incl_refl]]) ].
Ltac ln1 :=
  first
    [ apply f_ret; rr | apply f_raise; rr | apply f_massert; rr | apply f_of_opt; rr
    | apply f_getv; rr
    | apply f_put; ln_rel
    | apply f_emit; ln_rel
    | apply f_mfor; [rr | rr | intros ? ?]
    | match goal with
      | |- from _ _ (mbind get _) => apply f_get
      | |- from _ _ (mbind (ret _) _) => apply f_ret_bind
      | |- from _ _ (mbind (of_opt _ _) _) => apply f_of_opt_bind; [rr | intros ? ?]
      | |- from _ _ (mbind (massert _) _) => apply f_massert_bind; [rr | intros ?]
      | |- from _ _ (mbind _ _) => apply f_bind; [rr | | intros ? ?]
      end
    | progress cbv zeta
    | match goal with
      | |- from _ _ (match ?x with _ => _ end) => destruct x eqn:?
      | |- from _ _ (let '(_, _) := ?x in _) => destruct x eqn:?
      end
    | solve [eauto with lndb] ].
Ltac ln := repeat ln1.
Lemma ln_triggershutdown d0 : from LN d0 d_triggershutdown.
Proof. unfold d_triggershutdown. ln. Qed.
#[export] Hint Resolve ln_triggershutdown : lndb.
Lemma ln_active_remove n d0 : from LN d0 (d_active_remove n).
Proof. unfold d_active_remove. ln. Qed.
#[export] Hint Resolve ln_active_remove : lndb.
Lemma ln_handlefailures f d0 : from LN d0 (d_handlefailures f).
Proof. unfold d_handlefailures. ln. Qed.
#[export] Hint Resolve ln_handlefailures : lndb.
Lemma ln_handle_crashitem item n d0 : from LN d0 (d_handle_crashitem item n).
Proof. unfold d_handle_crashitem, hook. ln. Qed.
#[export] Hint Resolve ln_handle_crashitem : lndb.
Lemma ln_clone n d0 : from LN d0 (d_clone_node n).
Proof.
  unfold d_clone_node, hook. apply f_get. apply f_of_opt_bind; [rr|]. intros f Hf. cbv zeta.
  apply f_bind; [rr| |intros; ln].
  intros d' o r H ls E. unfold d_sched_op in H. cbn [s_step] in H. inversion H; subst. cbn [d_sched d_set_sched].
  rewrite E. cbn [s_set_nt]. eexists. split; [reflexivity|]. split; [reflexivity|apply incl_refl].
Qed.
#[export] Hint Resolve ln_clone : lndb.
Lemma ln_try_block n d0 : from LN d0 (try_block n).
Proof.
  intros d' o r H. unfold try_block in H.
  destruct (d_sched_op (SRemove n) d0) as [[d1 o1] r1] eqn:E1.
  pose proof (ln_sched_op (SRemove n) d0 eq_refl _ _ _ E1) as R1.
  destruct r1 as [[item|]|e].
  - destruct (d_handle_crashitem item n d1) as [[d2 o2] r2] eqn:E2. inversion H; subst.
    eapply LN_trans; [exact R1|exact (ln_handle_crashitem _ _ _ _ _ _ E2)].
  - inversion H; subst. exact R1.
  - destruct e; inversion H; subst; exact R1.
Qed.
#[export] Hint Resolve ln_try_block : lndb.
Lemma ln_errordown n d0 : from LN d0 (d_worker_errordown n).
Proof. rewrite errordown_unfold. unfold hook. ln. Qed.
#[export] Hint Resolve ln_errordown : lndb.
Lemma ln_loop_rest d0 : from LN d0 loop_rest.
Proof. unfold loop_rest. ln. Qed.
Lemma ln_no_active d0 : from LN d0 d_no_active.
Proof. unfold d_no_active. ln. Qed.
Lemma ln_process_from_remote n m d0 : from LN d0 (process_from_remote n m).
Proof.
  unfold process_from_remote. apply f_get. apply f_of_opt_bind; [rr|]. intros f Hf. cbv zeta.
  destruct m as [e|ids|sk|i ms|[|]| | |]; try destruct e; ln.
Qed.
(* every handler except workerready *)
Lemma ln_handle ev d0 : (forall n, ev <> QReady n) -> from LN d0 (d_handle ev).
Proof.
  intros Hev.
  destruct ev as [n|n ids|n key fl|n i|n i|n i k oc|n i ms|n ixs| |n|n sk|n]; cbn [d_handle]; unfold hook; try (ln; fail).
  - exfalso. exact (Hev n eq_refl).
  - unfold d_worker_workerfinished, hook. destruct sk; ln.
Qed.
(* workerready: at most node n becomes known *)
Lemma ready_nodes n d d' o r ls :
  d_handle (QReady n) d = (d', o, r) -> d_sched d = StL ls ->
  exists ls', d_sched d' = StL ls' /\ l_numnodes ls' = l_numnodes ls /\ incl (l_nodes ls') (l_nodes ls ++ [n]).
Proof.
  cbn [d_handle]. intros H E.
  apply DSessionProofs.mbind_inv in H. destruct H as [(d1 & o1 & [] & o2 & H1 & H & ->)|(e & H1 & _)]; [|unfold hook, emit in H1; discriminate].
  unfold hook, emit in H1. inversion H1; subst d1 o1. clear H1.
  rewrite CollectionProofs.mbind_get in H. destruct (d_shuttingdown d).
  - destruct (ln_node_shutdown n d _ _ _ H ls E) as (ls' & A & B & C). exists ls'. split; [exact A|]. split; [exact B|].
    intros k Hk. apply in_or_app. left. apply C. exact Hk.
  - unfold mbind in H. destruct (d_sched_op (SAddNode n) d) as [[d1 o1] r1] eqn:E1.
    assert (X : exists ls', d_sched d1 = StL ls' /\ l_numnodes ls' = l_numnodes ls /\ incl (l_nodes ls') (l_nodes ls ++ [n])).
    { unfold d_sched_op in E1. rewrite E in E1. destruct (s_step (StL ls) (SAddNode n)) as [[st oo] rr] eqn:E2.
      inversion E1; subst. cbn [d_sched d_set_sched]. destruct (l_step_nodes _ _ _ _ _ E2) as (ls' & -> & N & X).
      exists ls'. split; [reflexivity|]. split; [exact N|]. destruct X as [->|(_ & ->)]; [|apply incl_refl].
      intros k Hk. apply in_or_app. left. exact Hk. }
    destruct r1; unfold ret in H; inversion H; subst; exact X.
Qed.

(* remove_node(n): afterwards n is not a known node *)
Lemma sched_remove_nodes n d d1 o1 r1 ls :
  d_sched_op (SRemove n) d = (d1, o1, r1) -> d_sched d = StL ls -> NoDup (l_nodes ls) ->
  exists ls1, d_sched d1 = StL ls1 /\ l_numnodes ls1 = l_numnodes ls /\ incl (l_nodes ls1) (l_nodes ls) /\ ~ In n (l_nodes ls1).
Proof.
  intros H E ND. unfold d_sched_op in H. rewrite E in H.
  destruct (s_step (StL ls) (SRemove n)) as [[st oo] rr] eqn:E1. inversion H; subst. cbn [d_sched d_set_sched].
  destruct (l_step_nodes _ _ _ _ _ E1) as (ls' & -> & N & X). exists ls'. split; [reflexivity|]. split; [exact N|].
  destruct X as [(Hn & ->)| ->]; [split; [apply incl_refl|exact Hn]|]. split.
  - intros k Hk. eapply g3_akeys_adel_incl. exact Hk.
  - apply g3_akeys_adel_notin. exact ND.
Qed.

Definition ends_node (ev : cevent) (n : nat) : Prop := ev = QErrorDown n \/ ev = QFinished n SKNone.

Lemma errordown_nodes n d d' o ls :
  d_worker_errordown n d = (d', o, Ok tt) -> d_sched d = StL ls -> NoDup (l_nodes ls) ->
  exists ls', d_sched d' = StL ls' /\ incl (l_nodes ls') (l_nodes ls) /\ ~ In n (l_nodes ls').
Proof.
  rewrite errordown_unfold. intros H E ND.
  apply mbind_ok_inv in H. destruct H as (d1 & o1 & [] & o2 & H1 & H & ->).
  unfold hook, emit in H1. inversion H1; subst d1 o1. clear H1.
  apply mbind_ok_inv in H. destruct H as (d1 & o1 & [] & o3 & H1 & H & ->).
  assert (X : exists ls1, d_sched d1 = StL ls1 /\ incl (l_nodes ls1) (l_nodes ls) /\ ~ In n (l_nodes ls1)).
  { unfold try_block in H1. destruct (d_sched_op (SRemove n) d) as [[dx ox] rx] eqn:E1.
    destruct (sched_remove_nodes _ _ _ _ _ _ E1 E ND) as (lx & Ex & _ & Ix & Nx).
    destruct rx as [[item|]|e].
    - destruct (d_handle_crashitem item n dx) as [[dy oy] ry] eqn:E2. inversion H1; subst.
      destruct (ln_handle_crashitem _ _ _ _ _ _ E2 lx Ex) as (ly & Ey & _ & Iy).
      exists ly. split; [exact Ey|]. split; [eapply incl_tran; eassumption|]. intros Hin. apply Nx. apply Iy. exact Hin.
    - inversion H1; subst. exists lx. auto.
    - destruct e; inversion H1; subst. exists lx. auto. }
  destruct X as (ls1 & E1 & I1 & N1).
  match type of H with ?m d1 = _ => assert (Y : from LN d1 m) by (unfold hook; ln) end.
  destruct (Y _ _ _ H ls1 E1) as (ls2 & E2 & _ & I2).
  exists ls2. split; [exact E2|]. split; [eapply incl_tran; eassumption|]. intros Hin. apply N1. apply I2. exact Hin.
Qed.

Lemma handle_ends_nodes ev n d d' o ls :
  d_handle ev d = (d', o, Ok tt) -> ends_node ev n -> d_sched d = StL ls -> NoDup (l_nodes ls) ->
  exists ls', d_sched d' = StL ls' /\ incl (l_nodes ls') (l_nodes ls) /\ ~ In n (l_nodes ls').
Proof.
  intros H [->| ->] E ND; cbn [d_handle] in H; [eapply errordown_nodes; eassumption|].
  unfold d_worker_workerfinished in H.
  apply mbind_ok_inv in H. destruct H as (d1 & o1 & [] & o2 & H1 & H & ->).
  unfold hook, emit in H1. inversion H1; subst d1 o1. clear H1.
  rewrite CollectionProofs.mbind_get in H.
  apply mbind_ok_inv in H. destruct H as (d1 & o1 & [] & o3 & H1 & H & ->).
  assert (X : exists ls1, d_sched d1 = StL ls1 /\ incl (l_nodes ls1) (l_nodes ls) /\ ~ In n (l_nodes ls1)).
  { destruct (mem_nat n (s_nodes (d_sched d))) eqn:Em.
    - apply mbind_ok_inv in H1. destruct H1 as (dx & ox & rx & oy & H1 & H2 & ->).
      destruct (sched_remove_nodes _ _ _ _ _ _ H1 E ND) as (lx & Ex & _ & Ix & Nx).
      assert (dx = d1) by (destruct (match rx with None => true | Some s => String.eqb s "" end); cbn in H2; inversion H2; reflexivity).
      subst dx. exists lx. auto.
    - unfold ret in H1. inversion H1; subst. exists ls. split; [exact E|]. split; [apply incl_refl|].
      rewrite E in Em. cbn [s_nodes] in Em. intros Hin. unfold mem_nat in Em.
      assert (existsb (Nat.eqb n) (l_nodes ls) = true) by (apply existsb_exists; exists n; split; [exact Hin|apply Nat.eqb_refl]).
      congruence. }
  destruct X as (ls1 & E1 & I1 & N1).
  destruct (ln_active_remove n d1 _ _ _ H ls1 E1) as (ls2 & E2 & _ & I2).
  exists ls2. split; [exact E2|]. split; [eapply incl_tran; eassumption|]. intros Hin. apply N1. apply I2. exact Hin.
Qed.

Lemma kbd_stop_sets n d d' o r : d_handle (QFinished n SKKbd) d = (d', o, r) -> d_shouldstop d' = true.
Proof.
  cbn [d_handle]. unfold d_worker_workerfinished. intros H.
  assert (X : forall d0, d_shouldstop d0 = true ->
              from (lift2 stop_mono) d0 (d_worker_errordown n)) by (intros d0 _; apply eq_mono; apply eq_errordown).
  apply DSessionProofs.mbind_inv in H. destruct H as [(d0 & o0 & [] & oR & H0 & H & ->)|(e & H0 & _)]; [|inversion H0].
  unfold hook, emit in H0. inversion H0; subst d0 o0. clear H0.
  apply DSessionProofs.mbind_inv in H. destruct H as [(d1 & o1 & [] & oR2 & H1 & H & ->)|(e & H1 & _)].
  2:{ unfold mbind, get, put in H1. inversion H1. }
  unfold mbind, get, put in H1. inversion H1; subst d1 o1. clear H1.
  apply DSessionProofs.mbind_inv in H. destruct H as [(d3 & o3 & [] & oR3 & H3 & H4 & ->)|(e & H3 & ->)].
  - pose proof (proj1 (keep_triggershutdown _ _ _ _ H3)) as K. cbn [d_shouldstop d_set_shouldstop] in K.
    exact (X d3 K _ _ _ H4 K).
  - pose proof (proj1 (keep_triggershutdown _ _ _ _ H3)) as K. exact K.
Qed.

(* ---- load: known nodes are active nodes, until a stop is requested ---- *)
Definition BL (d : dstate) : Prop :=
  match d_sched d with
  | StL ls => d_shouldstop d = false -> incl (l_nodes ls) (d_active d)
  | _ => True
  end.

Lemma keep_loop_rest d0 : from (lift2 sd_keep) d0 loop_rest.
Proof. unfold loop_rest. st. Qed.

Lemma in_rm n k l : In k l -> k <> n -> In k (rm n l).
Proof.
  intros Hk Hne. unfold rm. apply filter_In. split; [exact Hk|]. apply negb_true_iff. apply Nat.eqb_neq. exact Hne.
Qed.

Lemma loop_once_BL ev d d' o ls :
  d_loop_once ev d = (d', o, Ok tt) -> d_sched d = StL ls -> NoDup (l_nodes ls) -> BL d ->
  (forall n, ev = QReady n -> In n (d_active d)) -> (forall n, ev <> QInternalError n) -> BL d'.
Proof.
  rewrite loop_once_unfold. intros H E ND HB Hrd Hie.
  apply mbind_ok_inv in H. destruct H as (d1 & o1 & [] & o2 & H1 & H2 & ->).
  unfold BL in HB. rewrite E in HB.
  pose proof (handle_eff _ _ _ _ H1) as AE.
  pose proof (mono_handle ev d _ _ _ H1) as SM. unfold lift2, stop_mono in SM.
  assert (SF : d_shouldstop d1 = false -> d_shouldstop d = false).
  { intros X. destruct (d_shouldstop d); [rewrite (SM eq_refl) in X; discriminate|reflexivity]. }
  assert (B1 : exists ls1, d_sched d1 = StL ls1 /\ (d_shouldstop d1 = false -> incl (l_nodes ls1) (d_active d1))).
  { destruct ev as [n|n ids|n key fl|n i|n i|n i k oc|n i ms|n ixs| |n|n sk|n].
    2-9: (match type of H1 with d_handle ?e _ = _ =>
            assert (NR : forall n, e <> QReady n) by (intros; discriminate);
            destruct (ln_handle e d NR _ _ _ H1 ls E) as (ls1 & E1 & _ & I1) end;
          destruct AE as (extra & _ & AE & _); exists ls1; split; [exact E1|]; rewrite AE; intros X k0 Hk; apply (HB (SF X)); apply I1; exact Hk).
    - destruct (ready_nodes _ _ _ _ _ _ H1 E) as (ls1 & E1 & _ & I1). destruct AE as (extra & _ & AE & _).
      exists ls1. split; [exact E1|]. rewrite AE. intros X k Hk. apply I1 in Hk. apply in_app_or in Hk.
      destruct Hk as [Hk|[<-|[]]]; [exact (HB (SF X) k Hk)|exact (Hrd n eq_refl)].
    - exfalso. exact (Hie n eq_refl).
    - destruct sk.
      + destruct (handle_ends_nodes _ n _ _ _ _ H1 (or_intror eq_refl) E ND) as (ls1 & E1 & I1 & N1).
        destruct AE as (extra & _ & AE & _). cbn [ev_removes] in AE. exists ls1. split; [exact E1|]. rewrite AE. intros X k Hk.
        apply in_rm; [apply in_or_app; left; apply (HB (SF X)); apply I1; exact Hk|]. intros ->. exact (N1 Hk).
      + assert (NR : forall m, QFinished n SKStop <> QReady m) by (intros; discriminate).
        destruct (ln_handle _ d NR _ _ _ H1 ls E) as (ls1 & E1 & _ & I1).
        pose proof (finished_stop_sets _ _ _ _ H1) as SS. exists ls1. split; [exact E1|]. intros X. congruence.
      + assert (NR : forall m, QFinished n SKKbd <> QReady m) by (intros; discriminate).
        destruct (ln_handle _ d NR _ _ _ H1 ls E) as (ls1 & E1 & _ & I1).
        pose proof (kbd_stop_sets _ _ _ _ _ H1) as SS. exists ls1. split; [exact E1|]. intros X. congruence.
    - destruct (handle_ends_nodes _ n _ _ _ _ H1 (or_introl eq_refl) E ND) as (ls1 & E1 & I1 & N1).
      destruct AE as (extra & _ & AE & _). cbn [ev_removes] in AE. exists ls1. split; [exact E1|]. rewrite AE. intros X k Hk.
      apply in_rm; [apply in_or_app; left; apply (HB (SF X)); apply I1; exact Hk|]. intros ->. exact (N1 Hk). }
  destruct B1 as (ls1 & E1 & B1).
  destruct (fr_loop_rest _ _ _ _ H2) as (F1 & _).
  destruct (keep_loop_rest _ _ _ _ H2) as (K1 & _).
  destruct (ln_loop_rest _ _ _ _ H2 ls1 E1) as (ls2 & E2 & _ & I2). unfold BL. rewrite E2, F1, K1.
  intros X k Hk. apply (B1 X). apply I2. exact Hk.
Qed.

(* ====================================================================================== *)
(* the workerready invariant: when a workerready event is handled its node is active        *)
(* ====================================================================================== *)
(* an event queue is fine for a set of active nodes when every workerready event finds its node
   active, given that the events before it that end a node have removed theirs *)
Definition act_after (ev : cevent) (act : list nat) : list nat :=
  match ev_removes ev with Some n => rm n act | None => act end.
Fixpoint okq (act : list nat) (q : list cevent) : Prop :=
  match q with
  | [] => True
  | ev :: r => (forall n, ev = QReady n -> In n act) /\ okq (act_after ev act) r
  end.

Lemma rm_incl n a b : incl a b -> incl (rm n a) (rm n b).
Proof. intros H k Hk. unfold rm in *. apply filter_In in Hk. apply filter_In. split; [apply H; exact (proj1 Hk)|exact (proj2 Hk)]. Qed.
Lemma act_after_incl ev a b : incl a b -> incl (act_after ev a) (act_after ev b).
Proof. intros H. unfold act_after. destruct (ev_removes ev); [apply rm_incl; exact H|exact H]. Qed.
Lemma okq_mono q : forall a b, incl a b -> okq a q -> okq b q.
Proof.
  induction q as [|ev r IH]; intros a b H; cbn [okq]; [auto|]. intros (A & B).
  split; [intros n E; apply H; exact (A n E)|]. eapply IH; [apply act_after_incl; exact H|exact B].
Qed.
Lemma okq_snoc q ev : forall act,
  okq act q -> (forall n, ev = QReady n -> In n act /\ forall e, In e q -> ev_removes e <> Some n) -> okq act (q ++ [ev]).
Proof.
  induction q as [|e r IH]; intros act Hq Hev; cbn [app okq].
  - split; [intros n E; exact (proj1 (Hev n E))|exact I].
  - destruct Hq as (A & B). split; [exact A|]. apply IH; [exact B|]. intros n E. destruct (Hev n E) as (Hin & Hno). split.
    + unfold act_after. destruct (ev_removes e) as [k|] eqn:Ek; [|exact Hin].
      apply in_rm; [exact Hin|]. intros ->. apply (Hno e); [left; reflexivity|exact Ek].
    + intros e0 He0. apply Hno. right. exact He0.
Qed.

Definition BLs (s : sys) : Prop := BL (y_d s).
Record PI (s : sys) : Prop := {
  pi_act : forall m, m < d_next_gw (y_d s) -> dn m (y_d s) = false -> In m (d_active (y_d s));
  pi_down : forall ev n, In ev (y_evq s) -> ev_removes ev = Some n -> dn n (y_d s) = true;
  pi_q : okq (d_active (y_d s)) (y_evq s);
  pi_noie : forall n, ~ In (QInternalError n) (y_evq s);
  pi_wire : forall n, ~ In UInternalError (alist_get [] n (y_up s));
  pi_b : BL (y_d s);
}.

(* what the receiver thread queues *)
Lemma pfr_events n m d d' outs evs f :
  process_from_remote n m d = (d', outs, Ok evs) -> aget n (d_nt d) = Some f -> m <> UInternalError ->
  (evs = [] \/ exists ev, evs = [ev] /\
     (forall k, ev_removes ev = Some k -> k = n /\ cut_msg m = true /\ n_down f = false) /\
     (forall k, ev = QReady k -> k = n /\ n_down f = false) /\
     (forall k, ev <> QInternalError k)).
Proof.
  intros H Ef Hm. unfold process_from_remote, mbind, get, of_opt, ret, raise, put in H. rewrite Ef in H.
  assert (ONE : forall ev, (forall k, ev_removes ev = Some k -> k = n /\ cut_msg m = true /\ n_down f = false) ->
                (forall k, ev = QReady k -> k = n /\ n_down f = false) -> (forall k, ev <> QInternalError k) ->
                [ev] = [] \/ exists ev0, [ev] = [ev0] /\
                  (forall k, ev_removes ev0 = Some k -> k = n /\ cut_msg m = true /\ n_down f = false) /\
                  (forall k, ev0 = QReady k -> k = n /\ n_down f = false) /\ (forall k, ev0 <> QInternalError k)).
  { intros ev A B C. right. exists ev. auto. }
  destruct m as [e|ids0|sk|i ms|dec| | |]; destruct (n_down f) eqn:Edn; cbn in H;
    try (inversion H; subst; (left; reflexivity) ||
         (apply ONE; [intros ? E; inversion E; subst; auto|intros ? E; inversion E; subst; auto|intros ? E; discriminate]); fail).
  - destruct e; cbn in H; inversion H; subst; try (left; reflexivity);
      (apply ONE; [intros ? E; inversion E; subst; auto|intros ? E; inversion E; subst; auto|intros ? E; discriminate]).
  - contradiction.
  - destruct (d_node_shutdown n d) as [[d1 o1] [[]|e]]; [|discriminate].
    destruct (aget n (d_nt d1)); cbn in H; inversion H; subst;
      (apply ONE; [intros ? E; inversion E; subst; auto|intros ? E; inversion E; subst; auto|intros ? E; discriminate]).
Qed.

Lemma BL_nt d d' :
  d_active d' = d_active d -> d_shouldstop d' = d_shouldstop d ->
  (d' = d \/ exists v, d' = d_set_nt d v) -> BL d -> BL d'.
Proof.
  intros A B [->|(v & ->)] H; [exact H|]. unfold BL in *. unfold d_set_nt in *. cbn [d_sched d_set_sched d_active d_shouldstop] in *.
  destruct (d_sched d); cbn [s_set_nt]; auto.
Qed.

Lemma PI_frame s s' :
  (y_d s' = y_d s \/ exists v, y_d s' = d_set_nt (y_d s) v) ->
  dsig (y_d s') = dsig (y_d s) -> y_evq s' = y_evq s ->
  (forall n, ~ In UInternalError (alist_get [] n (y_up s'))) -> PI s -> PI s'.
Proof.
  intros Hd Hs Hq Hw [P1 P2 P3 P4 P5 P6].
  assert (DN : forall m, dn m (y_d s') = dn m (y_d s)) by (apply dn_same_sig; exact Hs).
  assert (FRM : d_active (y_d s') = d_active (y_d s) /\ d_next_gw (y_d s') = d_next_gw (y_d s) /\
                d_shouldstop (y_d s') = d_shouldstop (y_d s)).
  { destruct Hd as [->|(v & ->)]; repeat split. }
  destruct FRM as (FA & FG & FS).
  constructor.
  - intros m Hm Hdn. rewrite FA. apply P1; [rewrite <- FG; exact Hm|rewrite <- DN; exact Hdn].
  - intros ev n Hin Hr. rewrite DN. rewrite Hq in Hin. eapply P2; eassumption.
  - rewrite FA, Hq. exact P3.
  - intros n. rewrite Hq. apply P4.
  - exact Hw.
  - eapply BL_nt; [exact FA|exact FS|exact Hd|exact P6].
Qed.

Lemma up_not_ie c n evs : ~ In UInternalError (map (up_of_wevent c n) evs).
Proof.
  induction evs as [|e evs IH]; [intros []|]. cbn [map]. intros [E|Hin]; [|exact (IH Hin)].
  destruct e as [| |k0 f0| |i0|i0 k0 [| | |]|i0|i0|ixs0|b0]; cbn in E; discriminate.
Qed.

Lemma PI_push c s n w' evs : PI s -> PI (push_up (set_w s n w') n (map (up_of_wevent c n) evs)).
Proof.
  intros X. apply (PI_frame s); [left; reflexivity|reflexivity|reflexivity| |exact X].
  intros k. unfold push_up, set_w. cbn [y_up]. rewrite alist_get_aset.
  destruct (Nat.eqb k n) eqn:Ek; [|apply (pi_wire _ X)].
  intros Hin. apply in_app_or in Hin. destruct Hin as [Hin|Hin]; [exact (pi_wire _ X n Hin)|exact (up_not_ie _ _ _ Hin)].
Qed.

Lemma PI_crash c s n : PI s -> PI (crash_worker c s n).
Proof.
  intros X. destruct (crash_d c s n) as (S0 & _).
  apply (PI_frame s); [apply crash_worker_d|exact S0|reflexivity| |exact X].
  intros k. unfold crash_worker. cbn [y_up]. rewrite alist_get_aset.
  destruct (Nat.eqb k n) eqn:Ek; [|apply (pi_wire _ X)].
  intros Hin. apply in_app_or in Hin. destruct Hin as [Hin|[Hin|[]]]; [exact (pi_wire _ X n Hin)|discriminate].
Qed.

Lemma wire_apply_outs outs : forall s,
  (forall n, ~ In UInternalError (alist_get [] n (y_up s))) ->
  forall n, ~ In UInternalError (alist_get [] n (y_up (apply_outs s outs))).
Proof.
  induction outs as [|x outs IH]; intros s H; [exact H|].
  destruct x as [h|n cmd| |]; cbn [apply_outs]; try (apply IH; exact H).
  - destruct h; try (apply IH; exact H). apply IH. intros n. cbn [y_up]. rewrite alist_get_aset.
    destruct (Nat.eqb n newid); [intros []|apply H].
  - destruct (mem_nat n (y_dead s)); apply IH; exact H.
Qed.

Lemma pfr_known n m d d' outs evs :
  process_from_remote n m d = (d', outs, Ok evs) -> exists f, aget n (d_nt d) = Some f.
Proof.
  intros H. destruct (aget n (d_nt d)) as [f|] eqn:Ef; [exists f; reflexivity|].
  unfold process_from_remote, mbind, get, of_opt in H. rewrite Ef in H. cbn in H. discriminate.
Qed.

Lemma dn_known n d f : aget n (d_nt d) = Some f -> dn n d = n_down f.
Proof. intros E. unfold dn. rewrite E. reflexivity. Qed.

(* the receiver thread *)
Lemma PI_recv s n m rest d' outs evs :
  WF s -> (exists ls, d_sched (y_d s) = StL ls) -> PI s ->
  aget n (y_up s) = Some (m :: rest) ->
  process_from_remote n m (y_d s) = (d', outs, Ok evs) ->
  PI (set_evq (apply_outs (set_d {| y_d := y_d s; y_evq := y_evq s; y_down := y_down s; y_up := aset n rest (y_up s);
                                     y_w := y_w s; y_dead := y_dead s; y_result := y_result s |} d') outs)
              (y_evq (apply_outs (set_d {| y_d := y_d s; y_evq := y_evq s; y_down := y_down s; y_up := aset n rest (y_up s);
                                           y_w := y_w s; y_dead := y_dead s; y_result := y_result s |} d') outs) ++ evs)).
Proof.
  intros (W1 & W2 & W3) (ls & Els) [P1 P2 P3 P4 P5 P6] Eup E.
  set (s1 := {| y_d := y_d s; y_evq := y_evq s; y_down := y_down s; y_up := aset n rest (y_up s);
                y_w := y_w s; y_dead := y_dead s; y_result := y_result s |}).
  destruct (apply_outs_frame outs (set_d s1 d')) as (F1 & F2 & _).
  destruct (pfr_known _ _ _ _ _ _ E) as (f & Ef).
  destruct (pfr_spec _ _ _ _ _ _ _ E Ef) as (_ & G & _ & DQ & DNn & _).
  destruct (fr_process_from_remote _ _ _ _ _ _ E) as (FA & _).
  destruct (keep_process_from_remote _ _ _ _ _ _ E) as (KS & _).
  assert (Em : alist_get [] n (y_up s) = m :: rest) by (unfold alist_get; rewrite Eup; reflexivity).
  assert (Hm : m <> UInternalError).
  { intros ->. apply (P5 n). rewrite Em. left. reflexivity. }
  assert (Hn : n < d_next_gw (y_d s)).
  { destruct (Nat.lt_ge_cases n (d_next_gw (y_d s))) as [X|X]; [exact X|]. destruct (W1 n X) as (Y & _). congruence. }
  assert (MONO : forall k, dn k (y_d s) = true -> dn k d' = true).
  { intros k Hk. destruct (Nat.eq_dec k n) as [->|Hne]; [|rewrite DQ; auto].
    rewrite DNn. rewrite (dn_known _ _ _ Ef) in Hk. rewrite Hk. reflexivity. }
  assert (MONO' : forall k, dn k d' = false -> dn k (y_d s) = false).
  { intros k Hk. destruct (dn k (y_d s)) eqn:X; [rewrite (MONO k X) in Hk; discriminate|reflexivity]. }
  pose proof (pfr_events _ _ _ _ _ _ _ E Ef Hm) as EV.
  constructor; cbn [set_evq y_d y_evq y_up]; rewrite ?F1, ?F2; cbn [set_d y_d y_evq s1].
  - rewrite G, FA. intros k Hk Hdn. apply P1; [exact Hk|apply MONO'; exact Hdn].
  - intros ev k Hin Hr. apply in_app_or in Hin. destruct Hin as [Hin|Hin]; [apply MONO; eapply P2; eassumption|].
    destruct EV as [->|(ev0 & -> & A & _)]; [destruct Hin|]. destruct Hin as [<-|[]].
    destruct (A k Hr) as (-> & Hc & _). rewrite DNn, Hc. apply orb_true_r.
  - rewrite FA. destruct EV as [->|(ev0 & -> & A & B & _)]; [rewrite app_nil_r; exact P3|].
    apply okq_snoc; [exact P3|]. intros k Ek. destruct (B k Ek) as (-> & Hdn).
    assert (Dn : dn n (y_d s) = false) by (rewrite (dn_known _ _ _ Ef); exact Hdn).
    split; [apply P1; assumption|]. intros e He Hr. rewrite (P2 e n He Hr) in Dn. discriminate.
  - intros k Hin. apply in_app_or in Hin. destruct Hin as [Hin|Hin]; [exact (P4 k Hin)|].
    destruct EV as [->|(ev0 & -> & _ & _ & C)]; [destruct Hin|]. destruct Hin as [X|[]]. exact (C k X).
  - apply wire_apply_outs. intros k. cbn [set_d y_up s1]. rewrite alist_get_aset.
    destruct (Nat.eqb k n) eqn:Ek; [|apply P5]. apply Nat.eqb_eq in Ek. subst k.
    intros Hin. apply (P5 n). rewrite Em. right. exact Hin.
  - unfold BL in *. rewrite Els in P6. destruct (ln_process_from_remote _ _ _ _ _ _ E ls Els) as (ls' & E' & _ & I').
    rewrite E', FA, KS. intros X k Hk. apply (P6 X). apply I'. exact Hk.
Qed.

(* one iteration of the controller loop *)
Lemma PI_ctl s ev q d' outs :
  WF s -> SInv (d_sched (y_d s)) -> (exists ls, d_sched (y_d s) = StL ls) -> PI s ->
  y_evq s = ev :: q -> d_loop_once ev (y_d s) = (d', outs, Ok tt) ->
  PI (apply_outs (set_d (set_evq s q) d') outs).
Proof.
  intros (W1 & W2 & W3) SI (ls & Els) [P1 P2 P3 P4 P5 P6] Eq E.
  destruct (apply_outs_frame outs (set_d (set_evq s q) d')) as (F1 & F2 & _).
  destruct (loop_once_fifo _ _ _ _ _ 0 E) as ((_ & _ & GW & RK) & _).
  pose proof (loop_once_eff _ _ _ _ E) as (extra & EX & AE).
  rewrite Eq in P2, P3, P4. cbn [okq] in P3. destruct P3 as (P3a & P3b).
  assert (RM : forall n, ev_removes ev = Some n -> dn n (y_d s) = true /\ n < d_next_gw (y_d s)).
  { intros n Hr. assert (X : dn n (y_d s) = true) by (apply (P2 ev n); [left; reflexivity|exact Hr]). split; [exact X|].
    destruct (Nat.lt_ge_cases n (d_next_gw (y_d s))) as [Y|Y]; [exact Y|]. rewrite (W3 n Y) in X. discriminate. }
  assert (INC : incl (act_after ev (d_active (y_d s))) (d_active d')).
  { unfold act_after. destruct (ev_removes ev) as [n|].
    - destruct AE as (-> & _). apply rm_incl. apply incl_appl. apply incl_refl.
    - destruct AE as (-> & _). apply incl_refl. }
  constructor; rewrite ?F1, ?F2; cbn [set_d set_evq y_d y_evq].
  - intros m Hm Hdn. destruct (Nat.lt_ge_cases m (d_next_gw (y_d s))) as [Hlt|Hge].
    + destruct (RK m) as [X|(X & _)]; [|lia]. rewrite X in Hdn. apply INC. unfold act_after.
      destruct (ev_removes ev) as [n|] eqn:Er; [|apply P1; assumption].
      apply in_rm; [apply P1; assumption|]. intros ->. destruct (RM n eq_refl) as (Y & _). congruence.
    + destruct EX as [(_ & G)|(-> & G)]; [lia|]. assert (m = d_next_gw (y_d s)) by lia. subst m.
      destruct (ev_removes ev) as [n|] eqn:Er; [|destruct AE as (_ & X); discriminate].
      destruct AE as (-> & _). apply in_rm; [apply in_or_app; right; left; reflexivity|].
      destruct (RM n eq_refl) as (_ & Y). lia.
  - intros e n Hin Hr. assert (X : dn n (y_d s) = true) by (apply (P2 e n); [right; exact Hin|exact Hr]).
    destruct (RK n) as [Y|(Y & _)]; [rewrite Y; exact X|]. rewrite (W3 n) in X by lia. discriminate.
  - eapply okq_mono; [exact INC|exact P3b].
  - intros n Hin. apply (P4 n). right. exact Hin.
  - apply wire_apply_outs. exact P5.
  - unfold SInv in SI. rewrite Els in SI. destruct SI as (ND & _).
    eapply loop_once_BL; [exact E|exact Els|exact ND|exact P6|exact P3a|].
    intros n ->. apply (P4 n). left. reflexivity.
Qed.

(* ---- load mode: the scheduler stays a load scheduler with the initial numnodes ---- *)
Definition LSR (d d' : dstate) (o : list out) : Prop :=
  forall ls, d_sched d = StL ls -> exists ls', d_sched d' = StL ls' /\ l_numnodes ls' = l_numnodes ls.
Lemma LSR_refl : rrefl LSR. Proof. intros d ls E. exists ls. auto. Qed.
Lemma LSR_trans : rtrans LSR.
Proof.
  intros a b c o1 o2 A B ls E. destruct (A ls E) as (l1 & E1 & N1). destruct (B l1 E1) as (l2 & E2 & N2).
  exists l2. split; [exact E2|congruence].
Qed.
Lemma LN_LSR d d' o : LN d d' o -> LSR d d' o.
Proof. intros H ls E. destruct (H ls E) as (ls' & A & B & _). exists ls'. auto. Qed.
Lemma lsr_handle ev d d' o r : d_handle ev d = (d', o, r) -> LSR d d' o.
Proof.
  intros H ls E. destruct ev as [n|n ids|n key fl|n i|n i|n i k oc|n i ms|n ixs| |n|n sk|n].
  1: (destruct (ready_nodes _ _ _ _ _ _ H E) as (ls' & A & B & _); exists ls'; auto).
  all: (match type of H with d_handle ?e _ = _ =>
          assert (NR : forall m, e <> QReady m) by (intros; discriminate);
          destruct (ln_handle e d NR _ _ _ H ls E) as (ls' & A & B & _) end; exists ls'; auto).
Qed.
Lemma cmove_LSR k d d' o : cmove k d d' o -> LSR d d' o.
Proof.
  intros [ev d0 d1 o1 r H|d0 d1 o1 r H|n m d0 d1 o1 r H|n f d0 Hf].
  - rewrite loop_once_unfold in H. apply DSessionProofs.mbind_inv in H.
    destruct H as [(dx & ox & [] & oy & H1 & H2 & ->)|(e & H1 & _)]; [|eapply lsr_handle; exact H1].
    eapply LSR_trans; [eapply lsr_handle; exact H1|apply LN_LSR; exact (ln_loop_rest _ _ _ _ H2)].
  - apply LN_LSR. exact (ln_no_active d0 _ _ _ H).
  - apply LN_LSR. exact (ln_process_from_remote n m d0 _ _ _ H).
  - apply LN_LSR. apply ln_set_nt.
Qed.
Theorem sys_load_sched c ls s o w :
  c_mode c = MLoad -> sys_exec c (sys_init c) ls = (s, o, w) ->
  exists lst, d_sched (y_d s) = StL lst /\ l_numnodes lst = c_numnodes c.
Proof.
  intros Hm H.
  pose proof (sys_exec_lift LSR LSR_refl LSR_trans cmove_LSR _ _ _ _ _ _ H) as L.
  specialize (L (l_set_nt (l_init [] (c_numnodes c) (c_chunk c)) (init_nt c))).
  cbn [sys_init y_d d_sched] in L. rewrite Hm in L. exact (L eq_refl).
Qed.

(* ---- the workerready invariant holds in every reachable state without a result ---- *)
Lemma PI_init c : PI (sys_init c).
Proof.
  constructor; cbn [sys_init y_d y_evq y_up d_active d_next_gw].
  - intros m Hm _. apply in_seq. lia.
  - intros ev n [].
  - exact I.
  - intros n [].
  - intros n. rewrite alist_get_map_nil. intros [].
  - unfold BL. cbn [d_sched d_shouldstop d_active]. destruct (c_mode c); cbn; auto. intros _ k [].
Qed.

Lemma PI_step c s l s' o w :
  WF s -> SInv (d_sched (y_d s)) -> (exists ls, d_sched (y_d s) = StL ls) -> PI s ->
  sys_step c s l = Some (s', o, w) -> y_result s' = None -> PI s'.
Proof.
  intros W SI IL X H Hres. unfold sys_step in H. destruct (y_result s) eqn:Eres; [discriminate|].
  destruct l as [n|n|n|n| |n].
  - destruct (mem_nat n (y_dead s)); [discriminate|].
    destruct (aget n (y_down s)) as [[|cmd rest]|]; try discriminate.
    destruct (aget n (y_w s)); [|discriminate]. inversion H; subst.
    apply (PI_frame s); [left; reflexivity|reflexivity|reflexivity|exact (pi_wire _ X)|exact X].
  - destruct (mem_nat n (y_dead s)); [discriminate|].
    destruct (aget n (y_w s)) as [w0|]; [|discriminate].
    destruct (negb (wcb w0)); [discriminate|].
    destruct (recv_step (c_oracle c n) w0) as [w1 evs]. inversion H; subst. apply PI_push. exact X.
  - destruct (mem_nat n (y_dead s)); [discriminate|].
    destruct (aget n (y_w s)) as [w0|]; [|discriminate].
    destruct (dies_now c n w0); [inversion H; subst; apply PI_crash; exact X|].
    destruct (main_step (c_oracle c n) w0) as [[w1 evs]|]; [|discriminate]. inversion H; subst. apply PI_push. exact X.
  - destruct (aget n (y_up s)) as [[|m rest]|] eqn:Eup; try discriminate. cbn [y_d] in H.
    destruct (process_from_remote n m (y_d s)) as [[d' outs] r] eqn:E.
    destruct r as [evs|e]; [|inversion H; subst; cbn in Hres; discriminate].
    pose proof (PI_recv s n m rest d' outs evs W IL X Eup E) as X1. rewrite Eres in X1.
    inversion H; subst; clear H.
    match goal with |- PI (close_if_dead ?s3 n) => set (s3x := s3) in * end.
    destruct (close_if_dead_frame s3x n) as (C1 & C2 & _ & _ & C5 & _).
    apply (PI_frame s3x); [apply close_if_dead_d|exact C5|exact C1|rewrite C2; exact (pi_wire _ X1)|exact X1].
  - destruct (d_active (y_d s)) as [|a act] eqn:Ea.
    + destruct (d_no_active (y_d s)) as [[d' outs] r] eqn:E. inversion H; subst. cbn in Hres. discriminate.
    + destruct (y_evq s) as [|ev q] eqn:Eq; [discriminate|].
      destruct (d_loop_once ev (y_d s)) as [[d' outs] r] eqn:E.
      destruct r as [u|e]; [|inversion H; subst; cbn in Hres; discriminate]. destruct u.
      destruct (d_session_finished d'); [inversion H; subst; cbn in Hres; discriminate|].
      destruct (d_active d') as [|a' act'] eqn:Ea'.
      { destruct (d_no_active d') as [[d2 outs2] r2] eqn:E2. inversion H; subst. cbn in Hres. discriminate. }
      inversion H; subst. eapply PI_ctl; eassumption.
  - destruct (mem_nat n (y_dead s)); [discriminate|].
    destruct (aget n (y_w s)) as [w0|]; [|discriminate].
    destruct (wph w0); try discriminate; inversion H; subst; apply PI_crash; exact X.
Qed.

Lemma result_none_not_errored s : y_result s = None -> not_errored s.
Proof. intros H e. rewrite H. discriminate. Qed.

Theorem sys_ready_inv c ls s o w :
  c_mode c = MLoad -> sys_exec c (sys_init c) ls = (s, o, w) -> y_result s = None -> PI s.
Proof.
  intros Hm.
  enough (G : forall ls s0 ls0 o0 w0 s o w,
             sys_exec c (sys_init c) ls0 = (s0, o0, w0) -> (y_result s0 = None -> PI s0) ->
             sys_exec c s0 ls = (s, o, w) -> y_result s = None -> PI s).
  { intros H. eapply (G ls (sys_init c) []); [reflexivity|intros _; apply PI_init|exact H]. }
  clear ls s o w. induction ls as [|l ls IH]; intros s0 ls0 o0 w0 s o w R0 P0 H; cbn [sys_exec] in H.
  - inversion H; subst. exact P0.
  - destruct (sys_step c s0 l) as [[[s1 o1] w1]|] eqn:E; [|eapply IH; eassumption].
    destruct (sys_exec c s1 ls) as [[s2 o2] w2] eqn:E2. inversion H; subst.
    assert (R1 : sys_exec c (sys_init c) (ls0 ++ [l]) = (s1, o0 ++ o1, w0 ++ w1)).
    { rewrite sys_exec_app, R0. cbn [sys_exec]. rewrite E. rewrite !app_nil_r. reflexivity. }
    assert (N0 : y_result s0 = None).
    { unfold sys_step in E. destruct (y_result s0); [discriminate|reflexivity]. }
    eapply (IH s1 (ls0 ++ [l])); [exact R1| |exact E2].
    intros N1. eapply PI_step; [eapply fifo_wf; exact R0|eapply sys_sched_inv; exact R0| |exact (P0 N0)|exact E|exact N1].
    destruct (sys_load_sched _ _ _ _ _ Hm R0) as (lst & A & _). exists lst. exact A.
Qed.

(* ---- the precondition of the send law holds in every reachable state without a result ---- *)
Theorem sys_dpre c ls s o w :
  sys_exec c (sys_init c) ls = (s, o, w) -> y_result s = None -> DPre (y_d s).
Proof.
  intros H Hres. pose proof (sys_sched_kind _ _ _ _ _ H) as K. pose proof (sys_sched_inv _ _ _ _ _ H) as SI.
  unfold DPre. destruct (d_sched (y_d s)) as [lst|ws|cs|es] eqn:Es; cbn [SInv] in SI; try exact I; [|exact SI].
  assert (Hm : c_mode c = MLoad) by (cbn [skind] in K; destruct (c_mode c); [reflexivity|discriminate..]).
  split; [exact SI|]. intros Hsd.
  destruct (sys_load_sched _ _ _ _ _ Hm H) as (lst' & A & NN). rewrite Es in A. inversion A; subst lst'.
  pose proof (result_none_not_errored _ Hres) as NE.
  destruct (sys_active_inv _ _ _ _ _ H NE) as (_ & LE & _).
  pose proof (pi_b _ (sys_ready_inv _ _ _ _ _ Hm H Hres)) as B. unfold BL in B. rewrite Es in B.
  assert (SS : d_shouldstop (y_d s) = false).
  { destruct (d_shouldstop (y_d s)) eqn:X; [|reflexivity].
    rewrite (sys_stop_shutting_down _ _ _ _ _ H NE X) in Hsd. discriminate. }
  destruct SI as (ND & _).
  pose proof (NoDup_incl_length ND (B SS)). unfold l_nodes in *. lia.
Qed.

(* ====================================================================================== *)
(* C09: whoever is sent tests is registered                                                *)
(* ====================================================================================== *)
Theorem sys_sent_is_registered c ls s o0 w0 l s' o w n cm :
  sys_exec c (sys_init c) ls = (s, o0, w0) -> sys_step c s l = Some (s', o, w) ->
  In (OSend n cm) o -> is_workcmd cm = true ->
  exists coll, aget n (s_registered (d_sched (y_d s'))) = Some coll /\ coll = c_coll c n /\
               (forall ref, s_ref (d_sched (y_d s')) = Some ref -> coll = ref).
Proof.
  intros H Hs Hin Hw.
  assert (N0 : y_result s = None).
  { unfold sys_step in Hs. destruct (y_result s); [discriminate|reflexivity]. }
  pose proof (sys_step_work _ _ _ _ _ _ (sys_dpre _ _ _ _ _ H N0) Hs n cm Hin Hw) as R.
  unfold regd in R. apply CollectionProofs.ahas_aget in R. destruct R as (coll & Hc). exists coll. split; [exact Hc|].
  assert (R1 : sys_exec c (sys_init c) (ls ++ [l]) = (s', o0 ++ o, w0 ++ w)).
  { rewrite sys_exec_app, H. cbn [sys_exec]. rewrite Hs. rewrite !app_nil_r. reflexivity. }
  split; [exact (sys_registered_reported _ _ _ _ _ _ _ R1 Hc)|].
  intros ref Hr. exact (proj1 (sys_registered_collected _ _ _ _ _ _ _ _ R1 Hr Hc)).
Qed.

(* the statement for the commands that start tests *)
Corollary sys_sent_tests_is_registered c ls s o0 w0 l s' o w n cm :
  sys_exec c (sys_init c) ls = (s, o0, w0) -> sys_step c s l = Some (s', o, w) ->
  In (OSend n cm) o -> (cm = CRunAll \/ exists ixs, cm = CRun ixs) ->
  exists coll, aget n (s_registered (d_sched (y_d s'))) = Some coll /\ coll = c_coll c n /\
               (forall ref, s_ref (d_sched (y_d s')) = Some ref -> coll = ref).
Proof.
  intros H Hs Hin Hc. eapply sys_sent_is_registered; [exact H|exact Hs|exact Hin|].
  destruct Hc as [->|(ixs & ->)]; reflexivity.
Qed.

(* per mode (instances of the theorem; the mode hypothesis is not used) *)
Corollary sys_sent_is_registered_worksteal c ls s o0 w0 l s' o w n cm :
  c_mode c = MSteal ->
  sys_exec c (sys_init c) ls = (s, o0, w0) -> sys_step c s l = Some (s', o, w) ->
  In (OSend n cm) o -> is_workcmd cm = true ->
  exists coll, aget n (s_registered (d_sched (y_d s'))) = Some coll /\ coll = c_coll c n /\
               (forall ref, s_ref (d_sched (y_d s')) = Some ref -> coll = ref).
Proof. intros _. apply sys_sent_is_registered. Qed.
Corollary sys_sent_is_registered_scope c k ls s o0 w0 l s' o w n cm :
  c_mode c = MScope k ->
  sys_exec c (sys_init c) ls = (s, o0, w0) -> sys_step c s l = Some (s', o, w) ->
  In (OSend n cm) o -> is_workcmd cm = true ->
  exists coll, aget n (s_registered (d_sched (y_d s'))) = Some coll /\ coll = c_coll c n /\
               (forall ref, s_ref (d_sched (y_d s')) = Some ref -> coll = ref).
Proof. intros _. apply sys_sent_is_registered. Qed.
Corollary sys_sent_is_registered_each c ls s o0 w0 l s' o w n cm :
  c_mode c = MEach ->
  sys_exec c (sys_init c) ls = (s, o0, w0) -> sys_step c s l = Some (s', o, w) ->
  In (OSend n cm) o -> is_workcmd cm = true ->
  exists coll, aget n (s_registered (d_sched (y_d s'))) = Some coll /\ coll = c_coll c n /\
               (forall ref, s_ref (d_sched (y_d s')) = Some ref -> coll = ref).
Proof. intros _. apply sys_sent_is_registered. Qed.
Corollary sys_sent_is_registered_load c ls s o0 w0 l s' o w n cm :
  c_mode c = MLoad ->
  sys_exec c (sys_init c) ls = (s, o0, w0) -> sys_step c s l = Some (s', o, w) ->
  In (OSend n cm) o -> is_workcmd cm = true ->
  exists coll, aget n (s_registered (d_sched (y_d s'))) = Some coll /\ coll = c_coll c n /\
               (forall ref, s_ref (d_sched (y_d s')) = Some ref -> coll = ref).
Proof. intros _. apply sys_sent_is_registered. Qed.

(* worksteal and the scope family: the registration part needs no reachability at all -- from ANY
   system state, a step only sends work to nodes registered after the step *)
Corollary sys_step_work_any_state c s l s' o w :
  (exists ws, d_sched (y_d s) = StW ws) \/ (exists cs, d_sched (y_d s) = StC cs) ->
  sys_step c s l = Some (s', o, w) ->
  forall n cm, In (OSend n cm) o -> is_workcmd cm = true -> ahas n (s_registered (d_sched (y_d s'))) = true.
Proof.
  intros Hk. apply sys_step_work. unfold DPre. destruct Hk as [(ws & ->)|(cs & ->)]; exact I.
Qed.

Check sys_sent_is_registered.
Check sys_sent_tests_is_registered.
Check sys_step_work.
Check sys_dpre.
Check sys_active_inv.
Check sys_ready_inv.
Check sys_sched_inv.
Check sys_step_work_any_state.
Print Assumptions sys_sent_is_registered.
Print Assumptions sys_sent_tests_is_registered.
Print Assumptions sys_step_work.
Print Assumptions sys_dpre.
Print Assumptions sys_active_inv.
Print Assumptions sys_ready_inv.
Print Assumptions sys_sched_inv.
Print Assumptions sys_sched_kind.
Print Assumptions sys_load_sched.
Print Assumptions sys_step_work_any_state.

(* ====================================================================================== *)
(* Non-vacuity: concrete sessions (two initial workers, six tests, worker 1 dies entering     *)
(* test 3, its replacement -- worker 2 -- dies later too; SystemCorollaries.v), evaluated     *)
(* ====================================================================================== *)
(* the step at position k of the schedule, from the state reached by the k labels before it *)
Definition xg_at (c : config) (sched : list label) (k : nat) :=
  let '(s, o0, _) := sys_exec c (sys_init c) (firstn k sched) in
  match sys_step c s (nth k sched LCtl) with
  | Some (s', o, _) => Some (s, o0, s', o)
  | None => None
  end.
(* a replacement worker (spawned before) is sent tests in this step, and the theorem applies *)
Definition xg_claim (c : config) (sched : list label) (k n : nat) (cm : cmd) : Prop :=
  match xg_at c sched k with
  | Some (s, o0, s', o) =>
      In (OHook (HSpawn n 0)) o0 /\ In (OSend n cm) o /\
      aget n (s_registered (d_sched (y_d s'))) = Some (c_coll c n) /\
      (forall ref, s_ref (d_sched (y_d s')) = Some ref -> c_coll c n = ref)
  | None => False
  end.
Lemma xg_prove c sched k n cm :
  is_workcmd cm = true ->
  (match xg_at c sched k with
   | Some (s, o0, s', o) => existsb (fun x => match x with OHook (HSpawn m 0) => Nat.eqb m n | _ => false end) o0 &&
                            existsb (fun x => match x with OSend m cm' => Nat.eqb m n && list_eqb Nat.eqb
                                                  (match cm' with CRun l => 0 :: l | CRunAll => [1] | CSteal l => 2 :: l | _ => [3] end)
                                                  (match cm with CRun l => 0 :: l | CRunAll => [1] | CSteal l => 2 :: l | _ => [3] end)
                                              | _ => false end) o
   | None => false
   end = true) ->
  xg_claim c sched k n cm.
Proof.
  intros Hw. unfold xg_claim, xg_at.
  destruct (sys_exec c (sys_init c) (firstn k sched)) as [[s o0] w0] eqn:E.
  destruct (sys_step c s (nth k sched LCtl)) as [[[s' o] w]|] eqn:E2; [|discriminate].
  intros Hb. apply andb_true_iff in Hb. destruct Hb as (B1 & B2).
  assert (I1 : In (OHook (HSpawn n 0)) o0).
  { apply existsb_exists in B1. destruct B1 as (x & Hx & Ex). destruct x as [[]| | |]; try discriminate.
    destruct spec; [|discriminate]. apply Nat.eqb_eq in Ex. subst. exact Hx. }
  assert (LE : forall a b : list nat, list_eqb Nat.eqb a b = true -> a = b).
  { induction a as [|x a IH]; destruct b as [|y b]; cbn; try discriminate; [reflexivity|].
    intros X. apply andb_true_iff in X. destruct X as (X1 & X2). apply Nat.eqb_eq in X1. f_equal; [exact X1|apply IH; exact X2]. }
  assert (I2 : In (OSend n cm) o).
  { apply existsb_exists in B2. destruct B2 as (x & Hx & Ex). destruct x as [|m cm'| |]; try discriminate.
    apply andb_true_iff in Ex. destruct Ex as (X1 & X2). apply Nat.eqb_eq in X1. subst m. apply LE in X2.
    assert (cm' = cm) by (destruct cm', cm; inversion X2; subst; try reflexivity; discriminate Hw). subst. exact Hx. }
  split; [exact I1|]. split; [exact I2|].
  destruct (sys_sent_is_registered _ _ _ _ _ _ _ _ _ _ _ E E2 I2 Hw) as (coll & A & -> & C). split; [exact A|exact C].
Qed.

(* load: the replacement (worker 2) gets CRun [4] in its collectionfinish turn *)
Example xg_load : xg_claim (xc_cfg MLoad (Some 4%Z) 0%Z 0 xc_crash) (rounds 80 xc_round) 424 2 (CRun [4]).
Proof. apply xg_prove; [reflexivity|vm_compute; reflexivity]. Qed.
(* worksteal (one crash item re-queued by a plugin): worker 2 gets CRun [3;4;5] *)
Example xg_steal : xg_claim (xc_cfg MSteal (Some 4%Z) 0%Z 1 xc_crash) (rounds 80 xc_round) 271 2 (CRun [3; 4; 5]).
Proof. apply xg_prove; [reflexivity|vm_compute; reflexivity]. Qed.
(* each: worker 2 takes over the tests of the dead worker 1 (CRun [4;5]); worker 3 those of worker 2 *)
Example xg_each : xg_claim (xc_cfg MEach (Some 4%Z) 0%Z 0 xc_crash) (rounds 80 xc_round) 849 2 (CRun [4; 5]).
Proof. apply xg_prove; [reflexivity|vm_compute; reflexivity]. Qed.
Example xg_each' : xg_claim (xc_cfg MEach (Some 4%Z) 0%Z 0 xc_crash) (rounds 80 xc_round) 985 3 (CRun [5]).
Proof. apply xg_prove; [reflexivity|vm_compute; reflexivity]. Qed.
Print Assumptions xg_load.
Print Assumptions xg_steal.
Print Assumptions xg_each.

(* loadfile, the errordown turn (position 339): worker 1 is removed and the rest of its work unit is
   re-dispatched to worker 0 in the same step; worker 0 is registered after the step *)
Example xg_scope_errordown :
  match xg_at (xc_cfg (MScope KFile) (Some 4%Z) 0%Z 0 xc_crash) (rounds 80 xc_round) 339 with
  | Some (s, o0, s', o) =>
      In (OHook (HNodeDown 1 true)) o /\ In (OSend 0 (CRun [4])) o /\ In (OHook (HSpawn 2 0)) o /\
      aget 0 (s_registered (d_sched (y_d s'))) = Some (c_coll (xc_cfg (MScope KFile) (Some 4%Z) 0%Z 0 xc_crash) 0)
  | None => False
  end.
Proof.
  unfold xg_at.
  destruct (sys_exec (xc_cfg (MScope KFile) (Some 4%Z) 0%Z 0 xc_crash) (sys_init (xc_cfg (MScope KFile) (Some 4%Z) 0%Z 0 xc_crash))
              (firstn 339 (rounds 80 xc_round))) as [[s o0] w0] eqn:E.
  destruct (sys_step (xc_cfg (MScope KFile) (Some 4%Z) 0%Z 0 xc_crash) s (nth 339 (rounds 80 xc_round) LCtl)) as [[[s' o] w]|] eqn:E2.
  - assert (F : In (OHook (HNodeDown 1 true)) o /\ In (OSend 0 (CRun [4])) o /\ In (OHook (HSpawn 2 0)) o).
    { vm_compute in E. inversion E; subst. vm_compute in E2. inversion E2; subst. cbn. tauto. }
    destruct F as (F1 & F2 & F3). split; [exact F1|]. split; [exact F2|]. split; [exact F3|].
    destruct (sys_sent_is_registered _ _ _ _ _ _ _ _ _ _ _ E E2 F2 eq_refl) as (coll & A & -> & _). exact A.
  - vm_compute in E. inversion E; subst. vm_compute in E2. discriminate.
Qed.

(* why the registration is looked up AFTER the step: in the collectionfinish turn that completes
   collection (position 67 of the load session) worker 1 is registered and sent its first tests in
   one step -- before the step it is not registered *)
Example xg_prestate_not_enough :
  match xg_at (xc_cfg MLoad (Some 4%Z) 0%Z 0 xc_crash) (rounds 80 xc_round) 67 with
  | Some (s, o0, s', o) =>
      In (OSend 1 (CRun [2; 3])) o /\ aget 1 (s_registered (d_sched (y_d s))) = None /\
      aget 1 (s_registered (d_sched (y_d s'))) = Some (c_coll (xc_cfg MLoad (Some 4%Z) 0%Z 0 xc_crash) 1)
  | None => False
  end.
Proof. vm_compute. split; [tauto|split; reflexivity]. Qed.

(* ====================================================================================== *)
(* Why reachability is needed for load and each: the scheduler classes alone do not give it  *)
(* ====================================================================================== *)
Definition xg_up : nctl := {| n_spec := 0; n_down := false; n_sdsent := false; n_closed := false |}.
(* load: three known nodes but numnodes = 2 (cannot happen in the system: sys_dpre); the two
   registered nodes complete collection and schedule() also sends tests to node 2, which has not
   reported a collection *)
Example xg_load_needs_count :
  let st := StL {| l_nt := [(0, xg_up); (1, xg_up); (2, xg_up)]; l_numnodes := 2;
                   l_n2c := [(0, ["a"; "b"; "c"; "d"; "e"; "f"]); (1, ["a"; "b"; "c"; "d"; "e"; "f"])]%string;
                   l_n2p := [(0, []); (1, []); (2, [])]; l_pending := []; l_coll := None; l_chunk := None |} in
  let '(st', o, r) := s_step st SSchedule in
  r = Ok None /\ In (OSend 2 (CRun [4; 5])) o /\ ahas 2 (s_registered st') = false /\ ~ SPre st SSchedule.
Proof.
  cbv zeta. vm_compute. split; [reflexivity|]. split; [tauto|]. split; [reflexivity|].
  intros H. specialize (H eq_refl 2). cbn in H. assert (X : false = true) by (apply H; tauto). discriminate.
Qed.
(* each: a node with pending tests and no registered collection (EInv excludes it) is sent them *)
Example xg_each_needs_inv :
  let st := StE {| e_nt := [(5, xg_up)]; e_numnodes := 1; e_n2c := []; e_n2p := [(5, [1; 2])];
                   e_started := []; e_removed := []; e_completed := true |} in
  let '(st', o, r) := s_step st SSchedule in
  r = Ok None /\ In (OSend 5 (CRun [1; 2])) o /\ ahas 5 (s_registered st') = false /\ ~ SPre st SSchedule.
Proof.
  cbv zeta. vm_compute. split; [reflexivity|]. split; [tauto|]. split; [reflexivity|].
  intros (_ & H). specialize (H 5 [1; 2] eq_refl). assert (X : false = true) by (apply H; discriminate). discriminate.
Qed.
