(* ProgressEach.v -- property C02 for --dist each, the no-stand-off half: a --dist each session without
   worker failure cannot get stuck.

   In every reachable state of Model/System.v (c_mode c = MEach, no worker failure: the hypotheses of
   EachSystem.v) in which the session has not ended, some component can make a USEFUL move
   (Progress.useful: not a crash, not an idle turn of a worker's receiver thread): theorem
   c02_each_no_deadlock_useful; plain enabledness c02_each_no_deadlock is a corollary.

   The workers may collect DIFFERENT lists, stop requests (a worker's own session asks to stop) and
   every --maxfail are covered; the only extra hypothesis is the coherence of the test oracle that
   EachSystem.v already needs (H-coh).

   Organisation: part A small facts; part B what one controller iteration guarantees beyond
   EachSystem.LEFFe (who stays active, who stays registered, whose collection is recorded, who was
   told to shut down); part C the progress invariant PInvE on top of EachSystem.EInv and its
   preservation; part D quiescent states are impossible; part E the theorems and examples.
   TerminationEach.v builds on this file. *)
From XV Require Import Base Worker Ctl SchedLoad SchedSteal SchedScope SchedEach Sched DSession System
  NoHook DSessionProofs WorkerProofs LoadProofs FifoProofs ExactlyOnce Coupling Completeness Progress EachSystem.
From XV Require LivenessLaws.
From Coq Require Import Permutation.
Open Scope nat_scope.

(* ====================================================================================== *)
(* A. small facts                                                                          *)
(* ====================================================================================== *)
Notation sd_in := LivenessLaws.sd_in.

Lemma sd_in_FRo nt nt' m cs : FRo (aget m nt) cs (aget m nt') -> sd_in nt m -> sd_in nt' m.
Proof.
  intros R (f & Ef & Hs). destruct (FRo_fwd _ _ _ _ R Ef) as (f' & Ef' & R'). exists f'. split; [exact Ef'|].
  destruct (FR_fields _ _ _ R') as (_ & Fd & _ & _ & _ & Fs & _). unfold shutting_down in *. rewrite Fd.
  destruct (n_down f); [reflexivity|]. cbn [orb] in *. apply Fs. left. exact Hs.
Qed.

Lemma sdsent_FRo nt nt' m cs f :
  FRo (aget m nt) cs (aget m nt') -> aget m nt = Some f -> n_sdsent f = true ->
  exists f', aget m nt' = Some f' /\ n_sdsent f' = true.
Proof.
  intros R Ef Hs. destruct (FRo_fwd _ _ _ _ R Ef) as (f' & Ef' & R'). exists f'. split; [exact Ef'|].
  destruct (FR_fields _ _ _ R') as (_ & _ & _ & _ & _ & Fs & _). apply Fs. left. exact Hs.
Qed.

(* the end of a loop iteration, for every scheduler: when the session starts shutting down there,
   every node of the scheduler has been told to shut down (or is down) *)
Lemma loop_rest_sd_gen d d' o :
  loop_rest d = (d', o, Ok tt) -> d_shuttingdown d = false -> d_shuttingdown d' = true ->
  forall m, In m (s_nodes (d_sched d)) -> sd_in (d_nt d') m.
Proof.
  intros H Hsd Hsd' m Hm. unfold loop_rest in H.
  apply LoadProofs.mbind_inv in H.
  destruct H as [(e & _ & F)|(d2 & o3 & [] & o4 & Hmid & H & ->)]; [discriminate|].
  apply LoadProofs.mbind_inv in Hmid.
  destruct Hmid as [(e & _ & F)|(t1 & p1 & a & p2 & Hg & Hmid & ->)]; [discriminate|].
  unfold get in Hg. injection Hg as <- <- <-.
  apply LoadProofs.mbind_inv in H.
  destruct H as [(e & _ & F)|(t2 & p3 & a2 & p4 & Hg & H & ->)]; [discriminate|].
  unfold get in Hg. injection Hg as <- <- <-.
  destruct (s_tests_finished (d_sched d)) eqn:Efin.
  - apply LivenessLaws.d_triggershutdown_spec in Hmid.
    destruct Hmid as (A & _ & Ball & _).
    pose proof (Ball Hsd m Hm) as X.
    destruct (d_shouldstop d2) eqn:Estop.
    + apply LivenessLaws.d_triggershutdown_spec in H. destruct H as (_ & Hsame & _).
      destruct (Hsame A) as (-> & _). exact X.
    + unfold ret in H. inv H. exact X.
  - unfold ret in Hmid. inv Hmid.
    destruct (d_shouldstop d2) eqn:Estop.
    + apply LivenessLaws.d_triggershutdown_spec in H. destruct H as (_ & _ & Ball & _).
      exact (Ball Hsd m Hm).
    + unfold ret in H. inv H. congruence.
Qed.

(* ====================================================================================== *)
(* B. one controller iteration: the facts needed for progress                              *)
(* ====================================================================================== *)
Section CtlXE.
Variable N : nat.
Variable collf : nat -> list string.
Notation EJn := (EJ N collf).
Notation PREn := (PREe N collf).

Record XEe (ev : cevent) (d : dstate) (es : estate) (d1 : dstate) (es1 : estate) : Prop := {
  xq_sub : forall m, In m (d_active d1) -> In m (d_active d);
  xq_fin : forall m b, ev_sig ev = Some (m, SgFin b) -> ~ In m (d_active d1);
  xq_keep : forall m, In m (e_nodes es) -> In m (e_nodes es1) \/ exists b, ev_sig ev = Some (m, SgFin b);
  xq_ready : forall n, ev = QReady n ->
             if d_shuttingdown d then sd_in (e_nt es1) n else In n (e_nodes es1);
  xq_nsd : d_shuttingdown d = true -> forall m, In m (e_nodes es1) -> In m (e_nodes es);
  xq_cf : forall n ids, ev = QCollFinish n ids -> d_shuttingdown d = false -> In n (e_nodes es) ->
          In n (akeys (e_n2c es1));
  xq_n2c : d_shuttingdown d = false -> forall m, In m (akeys (e_n2c es)) -> In m (akeys (e_n2c es1));
}.

Lemma xe_same ev d es d1 :
  same_ctl d d1 -> d_sched d = StE es ->
  (forall m b, ev_sig ev <> Some (m, SgFin b)) -> (forall n, ev <> QReady n) ->
  (forall n ids, ev = QCollFinish n ids -> d_shuttingdown d = false -> In n (e_nodes es) -> False) ->
  forall es1, d_sched d1 = StE es1 -> XEe ev d es d1 es1.
Proof.
  intros (S1 & S2 & S3 & S4) Els Hf Hr Hc es1 E1.
  assert (es1 = es) by congruence. subst es1. constructor.
  - intros m Hm. rewrite <- S3. exact Hm.
  - intros m b E. exfalso. exact (Hf _ _ E).
  - auto.
  - intros n E. exfalso. exact (Hr _ E).
  - auto.
  - intros n ids E A B. exfalso. exact (Hc _ _ E A B).
  - auto.
Qed.

(* ---- workerready ---- *)
Lemma handle_readyX n d es d1 o1 r :
  EJn d es -> PREn (QReady n) d es -> d_handle (QReady n) d = (d1, o1, r) ->
  forall es1, d_sched d1 = StE es1 -> XEe (QReady n) d es d1 es1.
Proof.
  intros (J0 & Jss) (HnN & Hnc & Hpre) H es1 E1. pose proof J0 as [Els J Jb Jp Jg].
  cbn [d_handle] in H. unfold hook in H. rewrite mbind_emit, mbind_get in H.
  destruct (d_shuttingdown d) eqn:Esd.
  - rewrite (d_node_shutdown_liftE n d es Els) in H.
    assert (Hk : aget n (e_nt es) <> None) by (apply (ej_ntk _ _ _ J); exact HnN).
    destruct (node_shutdown_SD n es Hk (ej_ok _ _ _ J)) as (es2 & o2 & En & S & (f' & Ef' & Hs') & C).
    rewrite En in H. cbn [liftE] in H. inv H. cbn in E1. inv E1.
    destruct (sd_keep _ _ _ S) as (K1 & K2 & K3 & K4 & K5 & K6).
    constructor.
    + intros m Hm. exact Hm.
    + intros m b E. discriminate.
    + intros m Hm. left. unfold e_nodes in *. rewrite K1. exact Hm.
    + intros n' E. inv E. rewrite Esd. exists f'. split; [exact Ef'|]. unfold shutting_down. rewrite Hs'. apply orb_true_r.
    + intros _ m Hm. unfold e_nodes in *. rewrite K1 in Hm. exact Hm.
    + intros n' ids E. discriminate.
    + intros F. congruence.
  - destruct (Hpre eq_refl) as (Hnew & Hina).
    assert (Ea : aget n (e_n2p es) = None) by (apply ea_get_none; exact Hnew).
    unfold mbind at 1 in H. rewrite (sched_op_runE _ d es Els) in H. cbn [s_step] in H.
    rewrite (e_add_node_run n es Ea) in H. cbn [lift] in H. unfold no_str, ret in H. inv H.
    cbn in E1. inv E1.
    assert (Ek : forall m, In m (e_nodes (e_set_n2p es (aset n [] (e_n2p es)))) <-> m = n \/ In m (e_nodes es)).
    { intros m. unfold e_nodes. cbn [e_n2p e_set_n2p]. apply ea_keys_set. }
    constructor.
    + intros m Hm. exact Hm.
    + intros m b E. discriminate.
    + intros m Hm. left. apply Ek. right. exact Hm.
    + intros n' E. inv E. rewrite Esd. apply Ek. left. reflexivity.
    + intros F. congruence.
    + intros n' ids E. discriminate.
    + intros _ m Hm. exact Hm.
Qed.

(* ---- collectionfinish ---- *)
Lemma handle_collfinishX n ids d es d1 o1 r :
  EJn d es -> PREn (QCollFinish n ids) d es -> d_handle (QCollFinish n ids) d = (d1, o1, r) ->
  forall es1, d_sched d1 = StE es1 -> XEe (QCollFinish n ids) d es d1 es1.
Proof.
  intros DJd (HnN & Hnew & Hids) H es1 E1. pose proof DJd as (J0 & Jss). pose proof J0 as [Els J Jb Jp Jg].
  assert (SAME : forall x, (d, @nil out, x) = (d1, o1, r) ->
                 (d_shuttingdown d = false -> In n (e_nodes es) -> False) ->
                 XEe (QCollFinish n ids) d es d1 es1).
  { intros x E Hno. inv E. apply xe_same.
    - unfold same_ctl. auto.
    - exact Els.
    - intros m b E. discriminate.
    - intros n' E. discriminate.
    - intros n' ids' E A B. inv E. exact (Hno A B).
    - exact E1. }
  cbn [d_handle] in H. rewrite mbind_get in H.
  destruct (d_shuttingdown d) eqn:Esd; [eapply SAME; [exact H|discriminate]|].
  rewrite Els in H. cbn [s_nodes] in H.
  destruct (mem_nat n (e_nodes es)) eqn:Em; cbn [negb] in H.
  2:{ eapply SAME; [exact H|]. intros _ Hin. apply mem_nat_false in Em. contradiction. }
  clear SAME. apply mem_nat_In in Em.
  assert (Hp : aget n (e_n2p es) <> None) by (apply ea_keys_get; exact Em).
  assert (Hc : e_completed es = false) by (eapply completed_pigeonE; eauto).
  assert (NOSD : forall m f, aget m (e_nt es) = Some f -> n_sdsent f = false /\ n_down f = false /\ n_closed f = false).
  { intros m f Ef. destruct (ej_ok _ _ _ J m f Ef) as (O1 & O2).
    assert (X : n_sdsent f = false).
    { destruct (n_sdsent f) eqn:E; [|reflexivity]. rewrite (Jp eq_refl m f Ef E) in Hc. discriminate. }
    split; [exact X|]. split; [|exact O1]. destruct (n_down f); [|reflexivity]. rewrite O2 in X by reflexivity. discriminate. }
  unfold hook in H. rewrite mbind_emit in H. unfold mbind at 1 in H.
  rewrite (sched_op_runE _ d es Els) in H. cbn [s_step] in H. rewrite (e_add_coll_run n ids es Hp Hc) in H.
  cbn [lift] in H.
  set (esa := e_set_n2p (e_set_n2c es (aset n ids (e_n2c es))) (aset n [] (e_n2p es))) in *.
  change (es_addcoll n ids es) with (if e_numnodes esa <=? length (e_n2c esa) then e_set_completed esa true else esa) in H.
  assert (Ekeys : akeys (e_n2p esa) = e_nodes es).
  { unfold esa, e_nodes. cbn [e_n2p e_set_n2p]. apply ea_keys_set_in. exact Em. }
  assert (Kn : In n (akeys (e_n2c esa))).
  { unfold esa. cbn [e_n2c e_set_n2p e_set_n2c]. apply ea_keys_set. left. reflexivity. }
  assert (Kkeep : forall m, In m (akeys (e_n2c es)) -> In m (akeys (e_n2c esa))).
  { intros m Hm. unfold esa. cbn [e_n2c e_set_n2p e_set_n2c]. apply ea_keys_set. right. exact Hm. }
  assert (IDS : forall k x, In (k, x) (e_n2c esa) -> x = collf k).
  { intros k x Hin. unfold esa in Hin. cbn [e_n2c e_set_n2p e_set_n2c] in Hin. apply ea_in_set in Hin.
    destruct Hin as [(-> & ->)|Hin]; [exact Hids|]. apply (ej_ids _ _ _ J). exact Hin. }
  assert (N2Ck : forall m, In m (akeys (e_n2c esa)) -> m < N).
  { intros m Hm. unfold esa in Hm. cbn [e_n2c e_set_n2p e_set_n2c] in Hm. apply ea_keys_set in Hm.
    destruct Hm as [->|Hm]; [exact HnN|apply (ej_n2c _ _ _ J); exact Hm]. }
  assert (N2Cnd : NoDup (akeys (e_n2c esa))).
  { unfold esa. cbn [e_n2c e_set_n2p e_set_n2c]. apply ea_keys_set_nodup. apply J. }
  assert (Enum : e_numnodes esa = N) by exact (ej_num _ _ _ J).
  destruct (e_numnodes esa <=? length (e_n2c esa)) eqn:Eca.
  - set (esc := e_set_completed esa true) in *.
    rewrite mbind_get in H. cbn [d_sched d_set_sched s_collection_is_completed app] in H.
    change (e_completed esc) with true in H. cbv iota in H.
    unfold mbind at 1 in H. rewrite (sched_op_runE _ (d_set_sched d (StE esc)) esc eq_refl) in H. cbn [s_step] in H.
    rewrite (e_schedule_run esc eq_refl) in H.
    assert (Hall : forall m, m < N -> In m (akeys (e_n2c esa))).
    { apply pigeon_all; [exact N2Cnd|exact N2Ck|]. rewrite ea_keys_length. apply Nat.leb_le. rewrite <- Enum. exact Eca. }
    assert (Hready : forall m, In m (akeys (e_n2p esc)) -> sched_ready collf esc m).
    { intros m Hm. change (akeys (e_n2p esc)) with (akeys (e_n2p esa)) in Hm. rewrite Ekeys in Hm.
      pose proof (ej_nodes _ _ _ J m Hm) as HmN.
      split.
      { change (e_started esc) with (e_started es). rewrite (ej_st _ _ _ J Hc). reflexivity. }
      split.
      { change (e_n2p esc) with (aset n [] (e_n2p es)). destruct (Nat.eq_dec m n) as [->|Hmn].
        - apply ea_get_set_eq.
        - rewrite ea_get_set_neq by exact Hmn. pose proof (ej_bk0 _ _ _ J Hc m) as B. unfold bkE, alist_get in B.
          apply ea_keys_get in Hm. destruct (aget m (e_n2p es)); [congruence|contradiction]. }
      split.
      { change (e_n2c esc) with (e_n2c esa). pose proof (Hall m HmN) as X. apply ea_keys_get in X.
        destruct (aget m (e_n2c esa)) as [x|] eqn:Ex; [|contradiction].
        apply ea_aget_in in Ex. rewrite (IDS m x Ex). reflexivity. }
      change (e_nt esc) with (e_nt es).
      destruct (aget m (e_nt es)) as [f|] eqn:Ef.
      - exists f. destruct (NOSD m f Ef) as (A & B & C). auto.
      - exfalso. apply (proj2 (ej_ntk _ _ _ J m)); assumption. }
    assert (NDl : NoDup (akeys (e_n2p esc))).
    { change (akeys (e_n2p esc)) with (akeys (e_n2p esa)). rewrite Ekeys. apply J. }
    destruct (sched_sweep collf (akeys (e_n2p esc)) esc NDl Hready) as (es' & Esw & [Sk Sks Sin Sout]).
    rewrite Esw in H. cbn [lift] in H. unfold no_str, ret in H. inv H. cbn in E1. inv E1.
    change (akeys (e_n2p esc)) with (akeys (e_n2p esa)) in *. rewrite Ekeys in *.
    destruct Sk as (Kc & Kr & Kcomp & Kn').
    change (e_n2c esc) with (e_n2c esa) in Kc.
    constructor.
    + intros m Hm. exact Hm.
    + intros m b E. discriminate.
    + intros m Hm. left. unfold e_nodes in *. rewrite Sks. exact Hm.
    + intros n' E. discriminate.
    + intros F. congruence.
    + intros n' ids' E _ _. inv E. rewrite Kc. exact Kn.
    + intros _ m Hm. rewrite Kc. apply Kkeep. exact Hm.
  - rewrite mbind_get in H. cbn [d_sched d_set_sched s_collection_is_completed app] in H.
    change (e_completed esa) with (e_completed es) in H. rewrite Hc in H. unfold ret in H. inv H.
    cbn in E1. inv E1. constructor.
    + intros m Hm. exact Hm.
    + intros m b E. discriminate.
    + intros m Hm. left. unfold e_nodes. rewrite Ekeys. exact Hm.
    + intros n' E. discriminate.
    + intros F. congruence.
    + intros n' ids' E _ _. inv E. exact Kn.
    + intros _ m Hm. apply Kkeep. exact Hm.
Qed.

(* ---- runtest_protocol_complete ---- *)
Lemma handle_completeX n i ms d es d1 o1 r :
  EJn d es -> PREn (QComplete n i ms) d es -> d_handle (QComplete n i ms) d = (d1, o1, r) ->
  forall es1, d_sched d1 = StE es1 -> XEe (QComplete n i ms) d es d1 es1.
Proof.
  intros (J0 & Jss) (rest & Hb) H es1 E1. pose proof J0 as [Els J Jb Jp Jg].
  cbn [d_handle] in H. unfold mbind at 1 in H. rewrite (sched_op_runE _ d es Els) in H. cbn [s_step] in H.
  rewrite (e_complete_run n i rest es Hb) in H. cbn [lift] in H. unfold no_str, ret in H. inv H.
  cbn in E1. inv E1.
  assert (Hin : In n (e_nodes es)) by (apply ea_keys_get; congruence).
  assert (Ekeys : e_nodes (e_set_n2p es (aset n rest (e_n2p es))) = e_nodes es).
  { unfold e_nodes. cbn [e_n2p e_set_n2p]. apply ea_keys_set_in. exact Hin. }
  constructor.
  - intros m Hm. exact Hm.
  - intros m b E. discriminate.
  - intros m Hm. left. rewrite Ekeys. exact Hm.
  - intros n' E. discriminate.
  - intros _ m Hm. rewrite Ekeys in Hm. exact Hm.
  - intros n' ids E. discriminate.
  - intros _ m Hm. exact Hm.
Qed.

(* ---- workerfinished ---- *)
Lemma handle_finishedX n sk d es d1 o1 r :
  EJn d es -> PREn (QFinished n sk) d es -> d_handle (QFinished n sk) d = (d1, o1, r) ->
  forall es1, d_sched d1 = StE es1 -> XEe (QFinished n sk) d es d1 es1.
Proof.
  intros (J0 & Jss) Hpre H es1 E1. pose proof J0 as [Els J Jb Jp Jg].
  cbn [d_handle] in H. unfold d_worker_workerfinished, hook in H. rewrite mbind_emit in H.
  destruct sk; cbn [PREe] in Hpre; [| |contradiction].
  - destruct Hpre as (Hina & Hbook & (f & Ef & Hsd)).
    rewrite mbind_get in H. rewrite Els in H. cbn [s_nodes] in H.
    assert (STEP : exists es2,
      ((if mem_nat n (e_nodes es)
        then r0 <- d_sched_op (SRemove n);; massert match r0 with Some s0 => (s0 =? "")%string | None => true end
        else ret tt) d) = (d_set_sched d (StE es2), [], Ok tt) /\
      (forall m, In m (e_nodes es2) -> In m (e_nodes es)) /\
      (forall m, In m (e_nodes es) -> m <> n -> In m (e_nodes es2)) /\
      (e_completed es = true -> e_n2c es2 = e_n2c es)).
    { destruct (mem_nat n (e_nodes es)) eqn:Em.
      - apply mem_nat_In in Em. specialize (Hbook Em).
        exists (es_remove n es). split.
        { unfold mbind. rewrite (sched_op_runE _ d es Els). cbn [s_step].
          rewrite (e_remove_idle_run n es Hbook). cbn [lift]. reflexivity. }
        unfold es_remove. cbv zeta.
        destruct (e_completed es) eqn:C; cbn [e_n2p e_n2c e_set_n2p e_set_n2c e_nodes].
        + split; [intros m Hm; exact (ea_keys_del n _ m Hm)|].
          split; [intros m Hm Hne; exact (in_akeys_adel_neq n m _ Hm Hne)|]. auto.
        + split; [intros m Hm; exact (ea_keys_del n _ m Hm)|].
          split; [intros m Hm Hne; exact (in_akeys_adel_neq n m _ Hm Hne)|]. discriminate.
      - apply mem_nat_false in Em. exists es. split; [rewrite d_set_sched_same by exact Els; reflexivity|].
        repeat split; auto. }
    destruct STEP as (es2 & Erun & Fsub & Fkeep & Fn2c).
    unfold mbind at 1 in H. rewrite Erun in H.
    rewrite (active_remove_run n (d_set_sched d (StE es2)) Hina) in H. inv H.
    cbn in E1. inv E1. constructor.
    + intros m Hm. cbn [d_active d_set_active d_set_sched] in Hm. apply in_filter_neq in Hm. tauto.
    + intros m b E. cbn in E. inv E. cbn [d_active d_set_active d_set_sched]. intros Hm. apply in_filter_neq in Hm. tauto.
    + intros m Hm. destruct (Nat.eq_dec m n) as [->|Hne]; [right; exists false; reflexivity|left; apply Fkeep; assumption].
    + intros n' E. discriminate.
    + intros _ m Hm. apply Fsub. exact Hm.
    + intros n' ids E. discriminate.
    + intros Hs m Hm. rewrite (Fn2c (Jp Hs n f Ef Hsd)). exact Hm.
  - assert (STEP : exists d2, (d0 <- get;; (if d_shouldstop d0 then ret tt else put (d_set_shouldstop d0 true))) d = (d2, [], Ok tt) /\
              d_sched d2 = d_sched d /\ d_shuttingdown d2 = d_shuttingdown d /\ d_active d2 = d_active d /\ d_shouldstop d2 = true).
    { rewrite mbind_get. destruct (d_shouldstop d) eqn:Ess.
      - exists d. auto.
      - eexists. split; [reflexivity|]. auto. }
    destruct STEP as (d2 & Erun & S1 & S2 & S3 & S4).
    unfold mbind at 1 in H. rewrite Erun in H.
    assert (Hina : In n (d_active d2)) by (rewrite S3; exact Hpre).
    rewrite (active_remove_run n d2 Hina) in H. inv H.
    cbn [d_sched d_set_active] in E1. assert (es1 = es) by congruence. subst es1. constructor.
    + intros m Hm. cbn [d_active d_set_active] in Hm. apply in_filter_neq in Hm. rewrite <- S3. tauto.
    + intros m b E. cbn in E. inv E. cbn [d_active d_set_active]. intros Hm. apply in_filter_neq in Hm. tauto.
    + auto.
    + intros n' E. discriminate.
    + auto.
    + intros n' ids E. discriminate.
    + auto.
Qed.

Theorem handle_xE ev d es d1 o1 r :
  EJn d es -> PREn ev d es -> d_handle ev d = (d1, o1, r) ->
  forall es1, d_sched d1 = StE es1 -> XEe ev d es d1 es1.
Proof.
  intros DJd Hpre H es1 E1.
  assert (QUIET : match ev with
                  | QLogStart _ _ | QLogFinish _ _ | QWarning | QReport _ _ _ _ | QCollectReport _ _ _ => True
                  | _ => False end -> XEe ev d es d1 es1).
  { intros Hq. destruct (handle_quiet ev d d1 o1 r Hq H) as (-> & S & C).
    apply xe_same.
    - exact S.
    - destruct DJd as ([Els _ _ _ _] & _). exact Els.
    - destruct ev; try contradiction; intros m b E; discriminate.
    - destruct ev; try contradiction; intros n' E; discriminate.
    - destruct ev; try contradiction; intros n' ids' E; discriminate.
    - exact E1. }
  destruct ev; try (apply QUIET; exact Logic.I); try (cbn in Hpre; contradiction).
  - eapply handle_readyX; eauto.
  - eapply handle_collfinishX; eauto.
  - eapply handle_completeX; eauto.
  - eapply handle_finishedX; eauto.
Qed.

Ltac dprojX := cbn [d_sched d_shuttingdown d_shouldstop d_active d_countfailures d_maxfail d_failed_nodes
  d_max_restart d_collect_seen d_next_gw d_requeue d_set_sched d_set_active d_set_shouldstop
  d_set_shuttingdown d_set_countfailures d_set_collect_seen d_withE].

(* ---- the whole iteration ---- *)
Record LXe (ev : cevent) (d : dstate) (es : estate) (d' : dstate) (es' : estate) : Prop := {
  ly_sub : forall m, In m (d_active d') -> In m (d_active d);
  ly_fin : forall m b, ev_sig ev = Some (m, SgFin b) -> ~ In m (d_active d');
  ly_keep : forall m, In m (e_nodes es) -> In m (e_nodes es') \/ exists b, ev_sig ev = Some (m, SgFin b);
  ly_ready : forall n, ev = QReady n -> In n (e_nodes es') \/ sd_in (e_nt es') n;
  ly_cf : forall n ids, ev = QCollFinish n ids -> d_shuttingdown d' = false -> In n (e_nodes es) ->
          In n (akeys (e_n2c es'));
  ly_n2c : d_shuttingdown d' = false -> forall m, In m (akeys (e_n2c es)) -> In m (akeys (e_n2c es'));
  ly_sd : d_shuttingdown d' = true ->
          (d_shuttingdown d = true -> forall m, In m (e_nodes es) -> sd_in (e_nt es) m) ->
          forall m, In m (e_nodes es') -> sd_in (e_nt es') m;
}.

Theorem loop_xE ev d es d' o r :
  EJn d es -> d_active d <> [] -> PREn ev d es ->
  d_loop_once ev d = (d', o, r) -> forall es', d_sched d' = StE es' -> LXe ev d es d' es'.
Proof.
  intros DJd Hact Hpre H es' E'. rewrite loop_once_unfold in H.
  apply LoadProofs.mbind_inv in H. destruct H as [(e & H1 & ->)|(d1 & o1 & a & o2 & H1 & H2 & ->)].
  { destruct (handle_effE N collf _ _ _ _ _ _ DJd Hact Hpre H1) as (F & _). discriminate. }
  destruct (handle_effE N collf _ _ _ _ _ _ DJd Hact Hpre H1) as (_ & es1 & E1).
  pose proof (he_dj _ _ _ _ _ _ _ _ E1) as J1. pose proof J1 as [Els1 Js1 Jb1 Jp1 Jg1].
  pose proof (handle_xE _ _ _ _ _ _ DJd Hpre H1 es1 Els1) as X1.
  pose proof H2 as H2'.
  destruct (loop_rest_effE _ _ _ _ _ Els1 (nodes_knownE _ _ _ Js1) (ej_ok _ _ _ Js1) (ej_c _ _ _ Js1) H2)
    as (-> & es2 & -> & S & Cs & Same).
  cbn in E'. inv E'.
  destruct (sd_keep _ _ _ S) as (K1 & K2 & K3 & K4 & K5 & K6).
  pose proof (he_sd _ _ _ _ _ _ _ _ E1) as Hsd1.
  assert (SDF : d_shuttingdown d1 || e_tests_finished es1 || d_shouldstop d1 = false ->
                d_shuttingdown d1 = false).
  { intros E. apply orb_false_iff in E. destruct E as (E & E3).
    apply orb_false_iff in E. destruct E as (E1' & E2). exact E1'. }
  assert (Knodes : e_nodes es' = e_nodes es1) by (unfold e_nodes; rewrite K1; reflexivity).
  assert (SDM : forall m, sd_in (e_nt es1) m -> sd_in (e_nt es') m).
  { intros m Hm. exact (sd_in_FRo _ _ _ _ (proj1 (sd_nt _ _ _ S m)) Hm). }
  constructor; dprojX.
  - apply (xq_sub _ _ _ _ _ X1).
  - apply (xq_fin _ _ _ _ _ X1).
  - intros m Hm. rewrite Knodes. apply (xq_keep _ _ _ _ _ X1). exact Hm.
  - intros n E. pose proof (xq_ready _ _ _ _ _ X1 n E) as X. destruct (d_shuttingdown d).
    + right. apply SDM. exact X.
    + left. rewrite Knodes. exact X.
  - intros n ids E Hsd Hin. pose proof (SDF Hsd) as A. rewrite Hsd1 in A. rewrite K2.
    exact (xq_cf _ _ _ _ _ X1 n ids E A Hin).
  - intros Hsd m Hm. pose proof (SDF Hsd) as A. rewrite Hsd1 in A. rewrite K2.
    exact (xq_n2c _ _ _ _ _ X1 A m Hm).
  - intros Hsd Hold m Hm. rewrite Knodes in Hm. destruct (d_shuttingdown d1) eqn:Esd1.
    + apply SDM. symmetry in Hsd1.
      apply (sd_in_FRo _ _ _ _ (he_nt _ _ _ _ _ _ _ _ E1 m)). apply (Hold Hsd1).
      apply (xq_nsd _ _ _ _ _ X1 Hsd1). exact Hm.
    + pose proof (loop_rest_sd_gen d1 _ _ H2' Esd1) as G. cbn [d_withE d_shuttingdown d_set_sched d_set_shuttingdown] in G.
      specialize (G Hsd m). rewrite Els1 in G. cbn [s_nodes] in G. specialize (G Hm).
      unfold d_nt in G. cbn in G. exact G.
Qed.

End CtlXE.

(* ====================================================================================== *)
(* C. the progress invariant                                                               *)
(* ====================================================================================== *)
Section SysPE.
Variable c : config.
Notation N := (c_numnodes c).
Hypothesis Hnc : forall n i, c_crash_in c n i = false.
Hypothesis Hng : no_garbled c.
Hypothesis Hcoh : forall n, n < N -> ncollected (c_oracle c n) = length (c_coll c n).

Record PNe (act : list nat) (sd : bool) (es : estate) (n : nat) (L : list sig) (w : wst) : Prop := {
  (* a worker that has booted: its "ready" is in flight, or it is registered, or it was told to shut down *)
  pe_ready : In n act -> wph w <> PBoot -> wph w <> PExited ->
             In SgReady L \/ In n (e_nodes es) \/ (exists f, aget n (e_nt es) = Some f /\ n_sdsent f = true);
  (* a worker that has collected: its collection is in flight or recorded *)
  pe_cf : sd = false -> In n act -> 2 <= prank (wph w) -> wph w <> PExited ->
          In SgCF L \/ In n (akeys (e_n2c es));
  (* a worker that has exited: its "finished" is in flight, or the controller has dropped the node *)
  pe_fin : wph w = PExited -> In n act -> exists b, In (SgFin b) L;
  pe_cb : CB w;
}.

Record PCe (d : dstate) (es : estate) : Prop := {
  pce_sd : d_shuttingdown d = true -> forall m, In m (e_nodes es) -> sd_in (e_nt es) m;
  pce_act : forall m, In m (d_active d) -> m < N;
}.

Definition PInvE (s : sys) : Prop :=
  exists es, d_sched (y_d s) = StE es /\ PCe (y_d s) es /\
    forall n w, aget n (y_w s) = Some w ->
      PNe (d_active (y_d s)) (d_shuttingdown (y_d s)) es n (sigs s n) w.

Lemma PInvE_set_result s r : PInvE s -> PInvE (set_result s r).
Proof. intros H. exact H. Qed.

(* ---- worker steps ---- *)
Lemma PNe_deliver act sd es n L cm w : PNe act sd es n L w -> PNe act sd es n L (deliver w cm).
Proof.
  intros [A B C D]. constructor; [| | |apply CB_deliver; exact D]; unfold deliver; cbn [upd_recv wph]; auto.
Qed.

Lemma PNe_recv o act sd es n L w : PNe act sd es n L w -> PNe act sd es n L (fst (recv_step o w)).
Proof.
  intros [A B C D]. destruct (recv_step_cb o w) as (Ep & _).
  constructor; rewrite ?Ep; auto. apply CB_recv. exact D.
Qed.

Lemma PNe_main o act sd es n L w w' evs :
  WX w -> PNe act sd es n L w -> main_step o w = Some (w', evs) ->
  PNe act sd es n (L ++ flat_map we_sig evs) w'.
Proof.
  intros X [A B C D] H.
  destruct (main_step_boot _ _ _ _ X H) as (Bt1 & Bt2 & Bt3).
  pose proof (main_step_not_exited _ _ _ _ H) as Hne0.
  constructor.
  - intros Hact _ _. destruct (phase_eq_dec_boot (wph w)) as [Eb|Eb].
    + left. apply in_or_app. right. apply Bt1. exact Eb.
    + destruct (A Hact Eb Hne0) as [X1|X1]; [left; apply in_or_app; left; exact X1|right; exact X1].
  - intros Hsd Hact Hr _. destruct (main_step_cf _ _ _ _ H Hr) as [Hr0|Hin].
    + destruct (B Hsd Hact Hr0 Hne0) as [X1|X1]; [left; apply in_or_app; left; exact X1|right; exact X1].
    + left. apply in_or_app. right. exact Hin.
  - intros Hex _. destruct (main_step_exit _ _ _ _ H Hex) as (b & Hb). exists b. apply in_or_app. right. exact Hb.
  - eapply CB_main; eauto.
Qed.

(* ---- the controller's receiver thread only touches the down flag ---- *)
Lemma PNe_flags act sd es es' n L w :
  (forall f, aget n (e_nt es) = Some f -> exists f', aget n (e_nt es') = Some f' /\ n_sdsent f' = n_sdsent f) ->
  e_n2p es' = e_n2p es -> e_n2c es' = e_n2c es ->
  PNe act sd es n L w -> PNe act sd es' n L w.
Proof.
  intros FU Ep Ec [A B C D]. constructor; auto.
  - intros H1 H2 H3. destruct (A H1 H2 H3) as [X|[X|(f & Ef & Hs)]]; [left; exact X|right; left|right; right].
    + unfold e_nodes. rewrite Ep. exact X.
    + destruct (FU f Ef) as (f' & Ef' & E). exists f'. split; [exact Ef'|congruence].
  - rewrite Ec. exact B.
Qed.

(* ---- one iteration of the controller loop, seen from node n ---- *)
Lemma PNe_ctl ev d es d' es' o n L' dn w :
  LEFFe N (c_coll c) ev d es d' es' o -> LXe ev d es d' es' ->
  EJ N (c_coll c) d es -> n < N ->
  NEI (c_coll c) es (d_active d) (d_shouldstop d) n (ev_sigs_for n ev ++ L') dn w ->
  (forall f, aget n (e_nt es) = Some f -> n_down f = true -> wph w = PExited) ->
  PNe (d_active d) (d_shuttingdown d) es n (ev_sigs_for n ev ++ L') w ->
  PNe (d_active d') (d_shuttingdown d') es' n L' w.
Proof.
  intros LE LX (J0 & Jss) HnN X Hdown [A B C D]. pose proof J0 as [Els J Jb Jp Jg].
  pose proof (ne_chan _ _ _ _ _ _ _ _ X) as Ch.
  assert (SDd : d_shuttingdown d' = false -> d_shuttingdown d = false).
  { intros Hs. destruct (d_shuttingdown d) eqn:Esd; [|reflexivity]. rewrite (le_sd _ _ _ _ _ _ _ _ LE Esd) in Hs. discriminate. }
  constructor.
  - intros Hact Hnb Hnx. pose proof (ly_sub _ _ _ _ _ LX n Hact) as Hact0.
    destruct (A Hact0 Hnb Hnx) as [Hi|[Hi|(f & Ef & Hs)]].
    + apply in_app_or in Hi. destruct Hi as [Hi|Hi]; [|left; exact Hi].
      apply ev_sigs_for_in, ev_sig_ready in Hi.
      destruct (ly_ready _ _ _ _ _ LX n Hi) as [Y|(f' & Ef' & Hs')]; [right; left; exact Y|].
      right. right. exists f'. split; [exact Ef'|]. unfold shutting_down in Hs'.
      destruct (n_down f') eqn:Edn; [|exact Hs']. exfalso. apply Hnx.
      destruct (FRo_open _ _ _ _ (le_nt _ _ _ _ _ _ _ _ LE n) Ef') as (f & Ef & R).
      destruct (FR_fields _ _ _ R) as (_ & Fd & _). apply (Hdown f Ef). congruence.
    + destruct (ly_keep _ _ _ _ _ LX n Hi) as [Y|(b & Hev)]; [right; left; exact Y|].
      exfalso. exact (ly_fin _ _ _ _ _ LX n b Hev Hact).
    + right. right. exact (sdsent_FRo _ _ _ _ _ (le_nt _ _ _ _ _ _ _ _ LE n) Ef Hs).
  - intros Hsd' Hact Hr Hnx. pose proof (ly_sub _ _ _ _ _ LX n Hact) as Hact0. pose proof (SDd Hsd') as Hsd.
    destruct (B Hsd Hact0 Hr Hnx) as [Hi|Hi].
    + apply in_app_or in Hi. destruct Hi as [Hi|Hi]; [|left; exact Hi].
      right. apply ev_sigs_for_in in Hi. pose proof Hi as Hev. apply ev_sig_cf in Hi. destruct Hi as (ids & ->).
      apply (ly_cf _ _ _ _ _ LX n ids eq_refl Hsd').
      rewrite (ev_sigs_for_self _ _ _ Hev) in *. cbn [app] in *.
      assert (Hnb : wph w <> PBoot) by (intros Eb; rewrite Eb in Hr; cbn in Hr; lia).
      assert (Hnc2 : ~ In n (akeys (e_n2c es))).
      { intros Hin. destruct (ne_n2c _ _ _ _ _ _ _ _ X Hin) as (_ & Y & _). apply Y. left. reflexivity. }
      destruct (A Hact0 Hnb Hnx) as [[Y|Y]|[Y|(f & Ef & Hs)]].
      * discriminate.
      * exfalso. destruct (chan_ok_cf_head' _ _ Ch) as (Fa & _). exact (Fa Y).
      * exact Y.
      * exfalso. pose proof (Jp Hsd n f Ef Hs) as Cc.
        rewrite (completed_pigeonE N (c_coll c) es n J HnN Hnc2) in Cc. discriminate.
    + right. exact (ly_n2c _ _ _ _ _ LX Hsd' n Hi).
  - intros Hex Hact. pose proof (ly_sub _ _ _ _ _ LX n Hact) as Hact0.
    destruct (C Hex Hact0) as (b & Hi). apply in_app_or in Hi. destruct Hi as [Hi|Hi]; [|exists b; exact Hi].
    exfalso. apply ev_sigs_for_in in Hi. exact (ly_fin _ _ _ _ _ LX n b Hi Hact).
  - exact D.
Qed.

Lemma PInvE_init : c_mode c = MEach -> PInvE (sys_init c).
Proof.
  intros Hm. unfold PInvE. cbn [sys_init y_d d_sched]. rewrite Hm. cbn [s_init s_set_nt].
  eexists. split; [reflexivity|]. split.
  - constructor; cbn [d_shuttingdown d_active].
    + discriminate.
    + intros m Hin. apply in_seq in Hin. lia.
  - intros n w Ew. cbn [sys_init y_w] in Ew. apply aget_map_const in Ew. subst w.
    constructor; cbn [w_init wph prank].
    + intros _ Fb. exfalso. apply Fb. reflexivity.
    + intros _ _ Fb. lia.
    + discriminate.
    + exact CB_init.
Qed.

Lemma pinvE_push s n0 w0 w' evs es :
  d_sched (y_d s) = StE es -> PCe (y_d s) es ->
  (forall n w, aget n (y_w s) = Some w ->
     PNe (d_active (y_d s)) (d_shuttingdown (y_d s)) es n (sigs s n) w) ->
  aget n0 (y_w s) = Some w0 ->
  PNe (d_active (y_d s)) (d_shuttingdown (y_d s)) es n0 (sigs s n0 ++ flat_map we_sig evs) w' ->
  PInvE (push_up (set_w s n0 w') n0 (map (up_of_wevent c n0) evs)).
Proof.
  intros Els PCd PNs Ew X.
  set (s' := push_up (set_w s n0 w') n0 (map (up_of_wevent c n0) evs)).
  assert (Sg : forall n, sigs s' n = if Nat.eqb n n0 then sigs s n0 ++ flat_map we_sig evs else sigs s n).
  { intros n. unfold sigs, s'. cbn [push_up set_w y_evq y_up]. destruct (Nat.eqb n n0) eqn:E.
    - apply Nat.eqb_eq in E. subst n. rewrite ea_alist_get_set_eq, flat_map_app, up_sigs_of_wevents, app_assoc. reflexivity.
    - apply Nat.eqb_neq in E. rewrite ea_alist_get_set_neq by exact E. reflexivity. }
  exists es. split; [exact Els|]. split; [exact PCd|].
  intros n w Hw. rewrite Sg. unfold s' in Hw |- *. cbn [push_up set_w y_w y_d y_down] in Hw |- *.
  destruct (Nat.eqb n n0) eqn:E.
  - apply Nat.eqb_eq in E. subst n. rewrite ea_get_set_eq in Hw. inv Hw. exact X.
  - apply Nat.eqb_neq in E. rewrite ea_get_set_neq in Hw by exact E. apply PNs. exact Hw.
Qed.

(* ---- the one-step lemma ---- *)
Lemma step_pinvE s l s' o w :
  no_crash_label l -> EInv c s -> PInvE s -> sys_step c s l = Some (s', o, w) -> PInvE s'.
Proof.
  intros Hl EI (esp & Elsp & PCd & PNs) H.
  pose proof EI as [Ed Ek (es & DJd & NIs) Ew Eq Eu Edn Ea Er Efn Edw].
  pose proof DJd as (J0 & Jss). pose proof J0 as [Els J Jb Jp Jg].
  assert (esp = es) by congruence. subst esp.
  unfold sys_step in H. destruct (y_result s) eqn:Eres; [discriminate|].
  destruct l as [n0|n0|n0|n0| |n0]; [| | | | |contradiction].
  - (* LDeliver *)
    replace (mem_nat n0 (y_dead s)) with false in H by (rewrite Ed; reflexivity).
    destruct (aget n0 (y_down s)) as [[|cmd rest]|] eqn:Edw0; try discriminate.
    destruct (aget n0 (y_w s)) as [w0|] eqn:Ew0; try discriminate.
    fin3 H s' o w.
    exists es. split; [exact Els|]. split; [exact PCd|].
    intros n w Hw. unfold sigs. cbn [y_d y_down y_evq y_up y_w] in *. fold (sigs s n).
    destruct (Nat.eq_dec n n0) as [->|Hn].
    + rewrite ea_get_set_eq in Hw. inv Hw. apply PNe_deliver. exact (PNs n0 w0 Ew0).
    + rewrite ea_get_set_neq in Hw by exact Hn. apply PNs. exact Hw.
  - (* LRecvW *)
    replace (mem_nat n0 (y_dead s)) with false in H by (rewrite Ed; reflexivity).
    destruct (aget n0 (y_w s)) as [w0|] eqn:Ew0; try discriminate.
    destruct (negb (wcb w0)); [discriminate|].
    destruct (recv_step (c_oracle c n0) w0) as [w' evs] eqn:Es. fin3 H s' o w.
    assert (HnN : n0 < N) by (eapply worker_ltE; eauto).
    destruct (NEI_recv (c_coll c) (c_oracle c n0) _ _ _ _ _ _ _ (Hcoh n0 HnN) (NIs n0 w0 Ew0)) as (Ev & _).
    rewrite Es in Ev. cbn [snd] in Ev. subst evs.
    apply pinvE_push with (w0 := w0) (es := es); auto.
    cbn [flat_map]. rewrite app_nil_r.
    pose proof (PNe_recv (c_oracle c n0) _ _ _ _ _ _ (PNs n0 w0 Ew0)) as X. rewrite Es in X. exact X.
  - (* LMain *)
    replace (mem_nat n0 (y_dead s)) with false in H by (rewrite Ed; reflexivity).
    destruct (aget n0 (y_w s)) as [w0|] eqn:Ew0; try discriminate.
    assert (Hd : dies_now c n0 w0 = false).
    { unfold dies_now. destruct (wph w0); auto. }
    rewrite Hd in H.
    destruct (main_step (c_oracle c n0) w0) as [[w' evs]|] eqn:Es; [|discriminate]. fin3 H s' o w.
    apply pinvE_push with (w0 := w0) (es := es); auto.
    eapply PNe_main; [exact (ne_wx _ _ _ _ _ _ _ _ (NIs n0 w0 Ew0))|exact (PNs n0 w0 Ew0)|exact Es].
  - (* LRecv *)
    destruct (aget n0 (y_up s)) as [[|m rest]|] eqn:Eup; try discriminate.
    cbn [y_d] in H.
    destruct (process_from_remote n0 m (y_d s)) as [[d' outs] r] eqn:Ep.
    destruct (Eu n0) as (Eu1 & Eu2). rewrite (ea_alist_get_some [] _ _ _ Eup) in Eu1, Eu2.
    inversion Eu1 as [|m2 r2 Gm3 Gr3]; subst.
    assert (HnN : n0 < N).
    { destruct (Nat.lt_ge_cases n0 N) as [X|X]; [exact X|]. specialize (Eu2 X). discriminate. }
    destruct (aget n0 (e_nt es)) as [f|] eqn:Ef.
    2:{ exfalso. apply (proj2 (ej_ntk _ _ _ J n0)); [exact HnN|exact Ef]. }
    destruct (worker_knownE c s n0 Ek HnN) as (wn & Ewn).
    assert (Hdn : n_down f = true -> up_sig m = []).
    { intros Hd. destruct (Edw es n0 f wn Els Ef Hd Ewn) as (X & _).
      rewrite (ea_alist_get_some [] _ _ _ Eup) in X. cbn [flat_map] in X. apply app_eq_nil in X. tauto. }
    destruct (pfr_effE c _ _ _ _ _ _ _ _ Els Ef Gm3 HnN Hdn Ep)
      as (-> & evs & es' & -> & Els' & Hsig & Hok3 & S1 & S2 & S3 & Hes).
    cbn [apply_outs] in H. unfold close_if_dead in H. cbn [set_evq set_d y_dead] in H.
    replace (mem_nat n0 (y_dead s)) with false in H by (rewrite Ed; reflexivity).
    fin3 H s' o w.
    assert (CASE :
      (forall k g, aget k (e_nt es) = Some g -> exists g', aget k (e_nt es') = Some g' /\ n_sdsent g' = n_sdsent g /\
                                                   (n_down g = true -> n_down g' = true)) /\
      e_n2p es' = e_n2p es /\ e_n2c es' = e_n2c es).
    { destruct Hes as [->|((b & ->) & Hd0 & ->)].
      - split; [intros k g Eg; exists g; auto|]. auto.
      - cbn [e_set_nt e_nt e_n2p e_n2c]. split; [|auto].
        intros k g Eg. rewrite ea_get_set. destruct (Nat.eqb k n0) eqn:E; [|exists g; auto].
        apply Nat.eqb_eq in E. subst k. assert (g = f) by congruence. subst g. eexists. split; [reflexivity|]. cbn. auto. }
    destruct CASE as (FL & P1 & P2).
    exists es'. cbn [set_evq set_d y_d y_evq y_down y_up y_w y_dead y_result]. split; [exact Els'|].
    destruct PCd as [Psd Pact]. split.
    + constructor; rewrite ?S1, ?S3; [|exact Pact].
      intros Hs m0 Hm0. unfold e_nodes in Hm0. rewrite P1 in Hm0.
      destruct (Psd Hs m0 Hm0) as (g & Eg & Hg). destruct (FL m0 g Eg) as (g' & Eg' & X1 & X2).
      exists g'. split; [exact Eg'|]. unfold shutting_down in *. rewrite X1.
      destruct (n_down g); [rewrite (X2 eq_refl); reflexivity|]. cbn [orb] in Hg. rewrite Hg. apply orb_true_r.
    + intros n w Hw. unfold sigs. cbn [set_evq set_d y_d y_down y_evq y_up].
      assert (Esg : evq_sigs n (y_evq s ++ evs) ++ flat_map up_sig (alist_get [] n (aset n0 rest (y_up s))) = sigs s n).
      { unfold sigs. rewrite evq_sigs_app, Hsig. destruct (Nat.eqb n0 n) eqn:E0.
        - apply Nat.eqb_eq in E0. subst n. rewrite ea_alist_get_set_eq, (ea_alist_get_some [] _ _ _ Eup).
          cbn [flat_map]. rewrite <- app_assoc. reflexivity.
        - apply Nat.eqb_neq in E0. rewrite ea_alist_get_set_neq by congruence. rewrite app_nil_r. reflexivity. }
      rewrite Esg, S1, S3. apply (PNe_flags _ _ es es'); [|exact P1|exact P2|apply PNs; exact Hw].
      intros g Eg. destruct (FL n g Eg) as (g' & Eg' & X1 & _). exists g'. auto.
  - (* LCtl *)
    specialize (Ea eq_refl).
    destruct (d_active (y_d s)) as [|a0 ar] eqn:Eact; [contradiction|].
    destruct (y_evq s) as [|ev q] eqn:Eevq; [discriminate|].
    inversion Eq as [|ev2 q2 Gev3 Gq3]; subst.
    destruct (d_loop_once ev (y_d s)) as [[d' outs] r] eqn:El.
    assert (Hpre : PREe N (c_coll c) ev (y_d s) es).
    { eapply pre_from_invE; eauto. }
    assert (Hact : d_active (y_d s) <> []) by (rewrite Eact; discriminate).
    destruct (loop_once_okE N (c_coll c) ev (y_d s) es d' outs r DJd Hact Hpre El) as (-> & es' & LE).
    pose proof (loop_once_nospawnE _ _ _ _ _ (ok_evE_not_death c _ Gev3) El) as Go.
    assert (Els' : d_sched d' = StE es').
    { destruct (le_dj _ _ _ _ _ _ _ _ LE) as ([E1 _ _ _ _] & _). exact E1. }
    pose proof (loop_xE N (c_coll c) ev (y_d s) es d' outs (Ok tt) DJd Hact Hpre El es' Els') as LX.
    set (s1 := apply_outs (set_d (set_evq s q) d') outs) in *.
    assert (Hd1 : y_dead (set_d (set_evq s q) d') = []) by (cbn; exact Ed).
    destruct (apply_outs_each outs _ Hd1 Go) as (A1 & A2 & A3 & A4 & A5 & A6 & A7).
    cbn [set_d set_evq y_d y_evq y_up y_w y_dead y_result y_down] in A1, A2, A3, A4, A5, A6, A7.
    fold s1 in A1, A2, A3, A4, A5, A6, A7.
    assert (S' : exists rr, s' = set_result s1 rr).
    { destruct (d_session_finished d') eqn:Efin.
      - fin3 H s' o w. eexists. reflexivity.
      - destruct (d_active d') as [|b0 br] eqn:Eact'.
        + exfalso. pose proof (le_fin _ _ _ _ _ _ _ _ LE) as Hf. rewrite Eact' in Hf. specialize (Hf eq_refl).
          unfold d_session_finished in Efin. rewrite Hf, Eact' in Efin. discriminate.
        + fin3 H s' o w. exists (y_result s1). symmetry. apply set_result_same. reflexivity. }
    destruct S' as (rr & ->).
    apply PInvE_set_result.
    exists es'. rewrite A1. split; [exact Els'|]. destruct PCd as [Psd Pact]. split.
    + constructor.
      * intros Hs. apply (ly_sd _ _ _ _ _ LX Hs). exact Psd.
      * intros m Hm. apply Pact. exact (ly_sub _ _ _ _ _ LX m Hm).
    + intros n w1 Hw. rewrite A4 in Hw.
      assert (Es : sigs s1 n = evq_sigs n q ++ flat_map up_sig (alist_get [] n (y_up s))).
      { unfold sigs. rewrite A2, A3. reflexivity. }
      rewrite Es. pose proof (worker_ltE c s n w1 Ek Hw) as HnN.
      eapply PNe_ctl; [exact LE|exact LX|exact DJd|exact HnN| | |].
      * rewrite <- (sigs_head s ev q n Eevq). apply NIs. exact Hw.
      * intros f Ef Hdn'. exact (proj2 (Edw es n f w1 Els Ef Hdn' Hw)).
      * rewrite <- (sigs_head s ev q n Eevq). rewrite Eact. apply PNs. exact Hw.
Qed.

Lemma pinvE_run ls :
  c_mode c = MEach -> 0 < N -> Forall no_crash_label ls -> EInv c (sys_run c ls) /\ PInvE (sys_run c ls).
Proof.
  intros Hm Hpos Hls. unfold sys_run.
  assert (G : forall s, EInv c s /\ PInvE s ->
     let s' := fold_left (fun s l => match sys_step c s l with Some (s', _, _) => s' | None => s end) ls s in
     EInv c s' /\ PInvE s').
  { induction Hls as [|l ls Hl Hls IH]; intros s Hs; cbn [fold_left]; [exact Hs|].
    apply IH. destruct (sys_step c s l) as [[[s' o] w]|] eqn:E; [|exact Hs].
    destruct Hs as (H1 & H2). split; [eapply (step_einv c Hnc Hng Hcoh); eauto|eapply step_pinvE; eauto]. }
  apply G. split; [apply EInv_init; assumption|apply PInvE_init; assumption].
Qed.

(* ====================================================================================== *)
(* D. quiescent states cannot occur while the session is running                           *)
(* ====================================================================================== *)
(* (recv_busy, useful, node_label, find_label, quiet and Good_label are those of Progress.v) *)

Lemma quiescent_falseE s :
  EInv c s -> PInvE s -> y_result s = None -> y_evq s = [] ->
  (forall n w, aget n (y_w s) = Some w -> quiet c s n w) -> False.
Proof.
  intros EI (esp & Elsp & PCd & PNs) Hres Hevq HQ.
  pose proof EI as [Ed Ek (es & DJd & NIs) Ew Eq Eu Edn Ea Er Efn Edw].
  pose proof DJd as (J0 & Jss). pose proof J0 as [Els J Jb Jp Jg].
  assert (esp = es) by congruence. subst esp.
  destruct PCd as [Psd Pact].
  assert (SG : forall n w, aget n (y_w s) = Some w -> sigs s n = []).
  { intros n w Hw. destruct (HQ n w Hw) as (_ & Hu & _). unfold sigs. rewrite Hevq, Hu. reflexivity. }
  (* an active node: its worker waits at an empty queue with nothing received that it has not taken,
     it has collected, was not told to shut down, is not down, and is registered *)
  assert (ACT : forall n, In n (d_active (y_d s)) -> exists w f, aget n (y_w s) = Some w /\ aget n (e_nt es) = Some f /\
            wph w <> PExited /\ 2 <= prank (wph w) /\ n_sdsent f = false /\ n_down f = false /\ In n (e_nodes es)).
  { intros n Hact. pose proof (Pact n Hact) as HnN. destruct (worker_knownE c s n Ek HnN) as (w & Ew0).
    pose proof (NIs n w Ew0) as X. unfold NEv in X. pose proof (PNs n w Ew0) as Y. rewrite (SG n w Ew0) in X, Y.
    destruct (HQ n w Ew0) as (Hd & Hu & Hb & Hm). rewrite Hd in X.
    destruct (ne_flags _ _ _ _ _ _ _ _ X) as (f & Ef & Mk). exists w, f. split; [exact Ew0|]. split; [exact Ef|].
    assert (Hnx : wph w <> PExited).
    { intros Ex. destruct (pe_fin _ _ _ _ _ _ Y Ex Hact) as (b & []). }
    apply LivenessLaws.V6_main_step_blocked in Hm.
    destruct (Ew n w Ew0) as (Iw & _). pose proof (inv_phase w Iw) as PI. unfold phase_inv in PI.
    assert (BL : wq w = [] /\ wcb w = true /\ 2 <= prank (wph w) /\ wph w <> PBoot /\
                 ~ In Mark (map snd (wpopped w))).
    { destruct Hm as [(Ep & Eq0 & Ecb)|[(cur & Ep & Eq0)|Ep]]; [| |contradiction].
      - rewrite Ep in PI. destruct PI as (Epop & _). rewrite Epop, Ep. cbn.
        repeat split; auto; try lia; try discriminate.
      - pose proof (pe_cb _ _ _ _ _ _ Y) as Cb. unfold CB in Cb. rewrite Ep in Cb, PI.
        destruct PI as (pre & Epop & Hnm & _). rewrite Ep, Epop. cbn [prank].
        repeat split; auto; try lia; try discriminate.
        intros Hin. apply in_map_iff in Hin. destruct Hin as (e & Ee & Hin). apply in_app_or in Hin.
        destruct Hin as [Hin|[<-|[]]].
        + specialize (Hnm e Hin). unfold is_idx in Hnm. rewrite Ee in Hnm. discriminate.
        + discriminate Ee. }
    destruct BL as (Eq0 & Ecb & Hr & Hnb & Hnm).
    unfold recv_busy in Hb. rewrite Ecb in Hb. cbn [andb] in Hb. apply negb_false_iff in Hb.
    destruct (wrpend w) eqn:Erp; [|discriminate]. destruct (winbox w) eqn:Eib; [|discriminate].
    assert (Estr : wstr (length (c_coll c n)) w ++ flat_map (citems (length (c_coll c n))) [] = map snd (wpopped w)).
    { unfold wstr, wrest. rewrite Eq0, Erp, Eib. cbn. rewrite !app_nil_r. reflexivity. }
    rewrite Estr in Mk.
    assert (Hsf : n_sdsent f = false).
    { destruct Mk as [(E1 & _)|[(_ & E1 & _)|(_ & E1 & _)]]; [exact E1| |]; exfalso; apply Hnm; rewrite E1.
      - left. reflexivity.
      - unfold full. apply in_or_app. right. left. reflexivity. }
    assert (Hdf : n_down f = false).
    { destruct (n_down f) eqn:Ed0; [|reflexivity]. exfalso. apply Hnx. exact (proj2 (Edw es n f w Els Ef Ed0 Ew0)). }
    split; [exact Hnx|]. split; [exact Hr|]. split; [exact Hsf|]. split; [exact Hdf|].
    destruct (pe_ready _ _ _ _ _ _ Y Hact Hnb Hnx) as [[]|[Hin|(f1 & Ef1 & Hs1)]]; [exact Hin|]. congruence. }
  assert (Hact0 : exists a, In a (d_active (y_d s))).
  { destruct (d_active (y_d s)) as [|a ar] eqn:Eact; [exfalso; exact (Ea Hres eq_refl)|]. exists a. left. reflexivity. }
  destruct Hact0 as (a & Hacta).
  destruct (ACT a Hacta) as (wa & fa & Ewa & Efa & Hnxa & Hra & Hsfa & Hdfa & Hina).
  destruct (d_shuttingdown (y_d s)) eqn:Esd.
  - (* shutting down: the registered node a was told to shut down, or is down *)
    destruct (Psd eq_refl a Hina) as (f' & Ef' & Hs'). rewrite Efa in Ef'. inv Ef'.
    unfold shutting_down in Hs'. rewrite Hsfa, Hdfa in Hs'. discriminate.
  - (* not shutting down: every collection is in, hence schedule() has told everybody to run and shut down *)
    assert (Hcomp : e_completed es = true).
    { destruct (e_completed es) eqn:Ec; [reflexivity|]. exfalso.
      assert (ALL : forall n, n < N -> In n (akeys (e_n2c es))).
      { intros n HnN. destruct (worker_knownE c s n Ek HnN) as (w & Ew0).
        destruct (in_dec Nat.eq_dec n (d_active (y_d s))) as [Hact|Hna].
        - destruct (ACT n Hact) as (w' & f & Ew' & Ef & Hnx & Hr & _). rewrite Ew0 in Ew'. inv Ew'.
          pose proof (PNs n w' Ew0) as Y. rewrite (SG n w' Ew0) in Y.
          destruct (pe_cf _ _ _ _ _ _ Y eq_refl Hact Hr Hnx) as [[]|Hin]. exact Hin.
        - exfalso. pose proof (NIs n w Ew0) as X. unfold NEv in X.
          destruct (ne_act _ _ _ _ _ _ _ _ X Hna) as (_ & Ex).
          destruct (ne_flags _ _ _ _ _ _ _ _ X) as (f & Ef & Mk).
          pose proof (exited_sdsent _ _ _ _ _ _ (proj1 (Ew n w Ew0)) Ex Mk) as Hs.
          pose proof (Jp eq_refl n f Ef Hs) as F. congruence. }
      rewrite (ej_cc _ _ _ J) in Ec. apply Nat.leb_gt in Ec.
      assert (Hinc : incl (seq 0 N) (akeys (e_n2c es))) by (intros n Hn; apply in_seq in Hn; apply ALL; lia).
      pose proof (NoDup_incl_length (seq_NoDup N 0) Hinc) as Hlen. rewrite seq_length, ea_keys_length in Hlen. lia. }
    destruct (ej_c _ _ _ J Hcomp a Hina) as (f' & Ef' & Hs'). congruence.
Qed.

(* in every state satisfying the invariants in which the session has not ended, a useful move exists *)
Theorem progressE s :
  EInv c s -> PInvE s -> y_result s = None -> exists l, Good_label c s l.
Proof.
  intros EI PI Hres. pose proof (ei_dead _ _ EI) as Hd.
  destruct (y_evq s) as [|ev q] eqn:Eevq.
  - destruct (find_label c s (seq 0 N)) as [l|] eqn:Ef.
    + destruct (find_label_some _ _ _ _ Ef) as (n & Hn). exists l. eapply node_label_ok; eauto.
    + exfalso. apply (quiescent_falseE s EI PI Hres Eevq). intros n w Ew.
      apply node_label_none; [|exact Ew]. apply (find_label_none _ _ _ Ef). apply in_seq.
      pose proof (worker_ltE c s n w (ei_keys _ _ EI) Ew). lia.
  - exists LCtl. split; [exact Logic.I|]. split; [reflexivity|].
    unfold sys_step. rewrite Hres, Eevq.
    destruct (d_active (y_d s)).
    + destruct (d_no_active (y_d s)) as [[d' outs] r]. discriminate.
    + destruct (d_loop_once ev (y_d s)) as [[d' outs] r]. destruct r; [|discriminate].
      destruct (d_session_finished d'); [discriminate|].
      destruct (d_active d'); [|discriminate].
      destruct (d_no_active d') as [[d2 outs2] r2]. discriminate.
Qed.

End SysPE.

(* ====================================================================================== *)
(* E. the theorems                                                                         *)
(* ====================================================================================== *)
Section MainE.
  Variable c : config.
  Variable ls : list label.
  Hypothesis Hmode : c_mode c = MEach.
  Hypothesis Hnocrash : forall n i, c_crash_in c n i = false.
  Hypothesis Hnogarbled : no_garbled c.
  Hypothesis Hcoh : forall n, n < c_numnodes c -> ncollected (c_oracle c n) = length (c_coll c n).
  Hypothesis Hsched : Forall no_crash_label ls.
  Hypothesis Hnodes : 0 < c_numnodes c.

  Theorem run_pinvE : PInvE c (sys_run c ls).
  Proof. exact (proj2 (pinvE_run c Hnocrash Hnogarbled Hcoh ls Hmode Hnodes Hsched)). Qed.

  (* C02 for --dist each, no stand-off: while the session has not ended, some component can make a
     useful move (not a crash, not an idle turn of a worker's receiver thread) *)
  Theorem c02_each_no_deadlock_useful :
    y_result (sys_run c ls) = None ->
    exists l, no_crash_label l /\ useful (sys_run c ls) l = true /\ sys_step c (sys_run c ls) l <> None.
  Proof.
    intros Hres. destruct (pinvE_run c Hnocrash Hnogarbled Hcoh ls Hmode Hnodes Hsched) as (EI & PI).
    exact (progressE c Hnocrash _ EI PI Hres).
  Qed.

  Theorem c02_each_no_deadlock :
    y_result (sys_run c ls) = None ->
    exists l, no_crash_label l /\ sys_step c (sys_run c ls) l <> None.
  Proof.
    intros Hres. destruct (c02_each_no_deadlock_useful Hres) as (l & A & _ & B). exists l. split; assumption.
  Qed.
End MainE.

Print Assumptions c02_each_no_deadlock_useful.
Print Assumptions c02_each_no_deadlock.
Check c02_each_no_deadlock_useful.
Check c02_each_no_deadlock.
Check progressE.
Check step_pinvE.

(* ====================================================================================== *)
(* Non-vacuity: concrete states, evaluated                                                 *)
(* ====================================================================================== *)
(* (a) the mid-run state of EachSystem.each_ex_mid (2 workers, 3 and 4 tests): five useful moves *)
Example each_prog_ex_mid :
  let s := sys_run each_cfg each_mid in
  y_result s = None /\ prog_moves each_cfg s = [LCtl; LDeliver 0; LDeliver 1; LRecvW 1; LRecv 1] /\
  prog_idle each_cfg s = [LRecvW 0].
Proof. vm_compute. repeat split. Qed.

(* (b) the state closest to a stand-off: both workers have collected and wait at their empty queues
   (the callback is installed), all wires are empty, nothing has been sent yet.  The only useful move
   is the controller's: the last "collectionfinish" is on its queue, and handling it makes schedule()
   send "run everything; shutdown" to both.  The receiver threads of both workers can take a turn,
   but such a turn changes nothing. *)
Definition each_wait : list label :=
  c01_rep 5 [LMain 0] ++ c01_rep 5 [LMain 1] ++ c01_rep 3 [LRecv 0] ++ c01_rep 3 [LRecv 1] ++ c01_rep 3 [LCtl].
Example each_prog_ex_standoff :
  let s := sys_run each_cfg each_wait in
  y_result s = None /\
  map (fun p => (fst p, wph (snd p), wq (snd p), wcb (snd p))) (y_w s) = [(0, PWaitFirst, [], true); (1, PWaitFirst, [], true)] /\
  length (y_evq s) = 1 /\
  prog_moves each_cfg s = [LCtl] /\ prog_idle each_cfg s = [LRecvW 0; LRecvW 1] /\
  sys_step each_cfg s (LRecvW 0) = Some (s, [], []).
Proof. vm_compute. repeat split. Qed.

(* the theorem applies to that state (and yields a useful move, which can only be LCtl) *)
Example each_prog_ex_theorem_applies :
  let s := sys_run each_cfg each_wait in
  exists l, no_crash_label l /\ useful s l = true /\ sys_step each_cfg s l <> None.
Proof.
  cbv zeta. destruct each_cfg_hyps as (H1 & H2 & H3 & H4 & H5).
  apply (c02_each_no_deadlock_useful each_cfg each_wait H1 H2 H3 H4); [|exact H5|].
  - vm_compute. repeat constructor.
  - vm_compute. reflexivity.
Qed.
Print Assumptions each_prog_ex_theorem_applies.

(* ====================================================================================== *)
(* F. WITH worker failure the theorem is false: the recorded stand-off, as evaluated        *)
(*    witnesses (finding KF-each-disagreeing-replacement-standoff), and a sharper form      *)
(* ====================================================================================== *)
Open Scope string_scope.
(* two initial workers of the same spec; both die when they enter their test 0; budget 4 *)
Definition each_crash_cfg (coll : nat -> list string) : config :=
  {| c_mode := MEach; c_numnodes := 2; c_chunk := None; c_maxfail := 0%Z; c_max_restart := Some 4%Z;
     c_requeue := 0; c_coll := coll; c_oracle := fun n => each_oracle (length (coll n)) [];
     c_dur := fun _ => 0%Z; c_crash_in := fun n i => Nat.ltb n 2 && Nat.eqb i 0; c_strict := false;
     c_spec := fun _ => 0 |}.
(* one turn of every component, workers 0..3 (two initial workers and two replacements) *)
Definition each_round4 : list label :=
  [LMain 0; LMain 1; LMain 2; LMain 3; LRecvW 0; LRecvW 1; LRecvW 2; LRecvW 3;
   LDeliver 0; LDeliver 1; LDeliver 2; LDeliver 3; LRecv 0; LRecv 1; LRecv 2; LRecv 3; LCtl].
(* result; dead workers; active nodes; shutting down?; controller queue; per worker (id, phase, queue,
   tests started); node2pending, _removed2pending, tests_finished; the wires *)
Definition each_stuck_view (s : sys) :=
  (y_result s, y_dead s, d_active (y_d s), d_shuttingdown (y_d s), y_evq s,
   map (fun p => (fst p, wph (snd p), wq (snd p), ran_idx (snd p))) (y_w s),
   match d_sched (y_d s) with StE es => (e_n2p es, e_removed es, e_tests_finished es) | _ => ([], [], false) end,
   (y_down s, y_up s)).

(* (F1) the recorded finding.  All workers collect [a; b; c] except replacement 3, which collects a
   permutation.  Workers 0 and 1 die in test 0 (crash items 0; remainders [1; 2] go to
   _removed2pending).  Replacement 2 agrees, inherits [1; 2], is sent "run [1; 2]" WITHOUT a shutdown,
   runs test 1 and holds test 2 waiting for its successor.  Replacement 3 disagrees: the difference is
   logged, it inherits nothing and is shut down.  The remainder of worker 1 stays in _removed2pending for
   ever, tests_finished is never true, nobody tells worker 2 to shut down: the session has not ended,
   the controller's queue and all wires are empty, and NO useful non-crash move is enabled. *)
Definition each_stuck_cfg : config :=
  each_crash_cfg (fun n => if Nat.eqb n 3 then ["c"; "b"; "a"] else ["a"; "b"; "c"]).
Example each_stuck_witness :
  let s := sys_run each_stuck_cfg (c01_rep 30 each_round4) in
  each_stuck_view s =
    (None, [1; 0], [2], false, [],
     [(0, PGot (0, 0) (1, Idx 1), [(2, Idx 2)], []); (1, PGot (0, 0) (1, Idx 1), [(2, Idx 2)], []);
      (2, PWaitNext (1, 2), [], [1]); (3, PExited, [], [])],
     ([(2, [2])], [(1, [1; 2])], false),
     ([(0, []); (1, []); (2, []); (3, [])], [(0, []); (1, []); (2, []); (3, [])])) /\
  (forall l, no_crash_label l -> useful s l = true -> sys_step each_stuck_cfg s l = None).
Proof.
  cbv zeta. split; [vm_compute; reflexivity|].
  intros l Hl Hu.
  destruct l as [n|n|n|n| |n]; try contradiction;
  try (destruct n as [|[|[|[|n]]]]; vm_compute in Hu |- *; try reflexivity; try discriminate).
  vm_compute. reflexivity.
Qed.

(* the same configuration with an agreeing replacement 3 ends as "finished" *)
Example each_stuck_control :
  y_result (sys_run (each_crash_cfg (fun _ => ["a"; "b"; "c"])) (c01_rep 40 each_round4)) = Some RFinished.
Proof. vm_compute. reflexivity. Qed.

(* (F2) SHARPER than the recorded finding: the stand-off does NOT need a replacement that collects a
   different list than the worker it replaces.  Here worker 0 and ITS replacement 2 collect [a; b; c],
   worker 1 and ITS replacement 3 collect [a; b; c; d] (each mode allows different collections), all of
   the same spec.  EachScheduling.add_node_collection compares a late node's collection with the FIRST
   dead node of equal spec in _removed2pending and `break`s after logging a difference.  When
   replacement 3 reports before replacement 2 (worker 2's main thread is held back for 40 rounds), it is
   compared with dead worker 0, differs, is shut down; replacement 2 then inherits worker 0's remainder;
   worker 1's remainder [1; 2; 3] is never handed out: the same stand-off. *)
Definition each_stuck_cfg2 : config :=
  each_crash_cfg (fun n => if Nat.even n then ["a"; "b"; "c"] else ["a"; "b"; "c"; "d"]).
Definition each_round4_no2 : list label :=
  filter (fun l => match l with LMain 2 => false | _ => true end) each_round4.
Example each_stuck_witness2 :
  (forall n, n < 2 -> c_coll each_stuck_cfg2 (n + 2) = c_coll each_stuck_cfg2 n) /\
  let s := sys_run each_stuck_cfg2 (c01_rep 40 each_round4_no2 ++ c01_rep 30 each_round4) in
  each_stuck_view s =
    (None, [1; 0], [2], false, [],
     [(0, PGot (0, 0) (1, Idx 1), [(2, Idx 2)], []); (1, PGot (0, 0) (1, Idx 1), [(2, Idx 2)], []);
      (2, PWaitNext (1, 2), [], [1]); (3, PExited, [], [])],
     ([(2, [2])], [(1, [1; 2; 3])], false),
     ([(0, []); (1, []); (2, []); (3, [])], [(0, []); (1, []); (2, []); (3, [])])) /\
  (forall l, no_crash_label l -> useful s l = true -> sys_step each_stuck_cfg2 s l = None).
Proof.
  split; [intros [|[|n]] H; try reflexivity; lia|].
  cbv zeta. split; [vm_compute; reflexivity|].
  intros l Hl Hu.
  destruct l as [n|n|n|n| |n]; try contradiction;
  try (destruct n as [|[|[|[|n]]]]; vm_compute in Hu |- *; try reflexivity; try discriminate).
  vm_compute. reflexivity.
Qed.
(* ... while with the fair schedule the same configuration ends as "finished" *)
Example each_stuck_control2 :
  y_result (sys_run each_stuck_cfg2 (c01_rep 80 each_round4)) = Some RFinished.
Proof. vm_compute. reflexivity. Qed.

(* (F3) When every worker (replacements included) collects the same list there is NO stand-off with
   crashes: PROVED for every configuration and schedule in ProgressEachCrash.v
   (c02_each_crash_no_deadlock_useful).  The random search below is kept as an independent check of that
   theorem and of the witnesses above.  A random scheduler picks, at every step, either a crash label
   (probability 1/cp while the crash quota lasts) or one of the useful enabled non-crash moves; it
   stops at the first state without a useful move.  Outcome classes:
   [out of fuel; STUCK (session not over, no useful move); finished; interrupted;
    RuntimeError("no active workers"); any other exception]. *)
From Coq Require Import NArith.
Definition es_cand (m : nat) : list label :=
  LCtl :: flat_map (fun n => [LDeliver n; LRecvW n; LMain n; LRecv n]) (seq 0 m).
Definition es_moves (c : config) (m : nat) (s : sys) : list label :=
  filter (fun l => useful s l && prog_enabled c s l) (es_cand m).
Definition es_crashes (c : config) (m : nat) (s : sys) : list label :=
  filter (prog_enabled c s) (map LCrash (seq 0 m)).
Definition es_lcg (x : N) : N := N.modulo (x * 75 + 74)%N 65537%N.
Definition es_rmod (x : N) (k : nat) : nat := N.to_nat (N.modulo x (N.of_nat k)).
Fixpoint es_walk (c : config) (m : nat) (s : sys) (rng : N) (quota cp fuel : nat) : option (option result_kind) :=
  match fuel with 0 => None | S f =>
   match y_result s with Some r => Some (Some r) | None =>
   let mv := es_moves c m s in
   let cr := if Nat.eqb quota 0 then [] else es_crashes c m s in
   let r1 := es_lcg rng in let r2 := es_lcg r1 in
   let docrash := match cr with [] => false | _ => Nat.eqb (es_rmod r1 cp) 0 end in
   if docrash then
     match sys_step c s (nth (es_rmod r2 (length cr)) cr LCtl) with
     | Some (s', _, _) => es_walk c m s' r2 (quota - 1) cp f | None => None end
   else
   match mv with
   | [] => Some None
   | _ => match sys_step c s (nth (es_rmod r2 (length mv)) mv LCtl) with
          | Some (s', _, _) => es_walk c m s' r2 quota cp f | None => None end
   end end end.
Definition es_code (x : option (option result_kind)) : nat :=
  match x with None => 0 | Some None => 1 | Some (Some RFinished) => 2 | Some (Some RInterrupted) => 3
  | Some (Some (RError ERuntimeNoWorkers)) => 4 | Some (Some (RError _)) => 5 end.
(* m: worker ids 0..m-1 are scheduled; quota: external crashes per run; seeds 1..k *)
Definition es_stats (c : config) (m quota cp k : nat) : list nat :=
  let rs := map (fun sd => es_code (es_walk c m (sys_init c) (N.of_nat sd) quota cp 4000)) (seq 1 k) in
  map (fun j => length (filter (Nat.eqb j) rs)) (seq 0 6).
Definition es_names (k : nat) : list string :=
  map (fun i => String (Ascii.ascii_of_nat (48 + i)) EmptyString) (seq 0 k).
Definition es_cfg (nn k : nat) (mr : option Z) (strict : bool) (stops : list nat)
    (crash : nat -> nat -> bool) (spec : nat -> nat) (coll : nat -> list string) : config :=
  {| c_mode := MEach; c_numnodes := nn; c_chunk := None; c_maxfail := 0%Z; c_max_restart := mr;
     c_requeue := 0; c_coll := coll; c_oracle := fun n => each_oracle (length (coll n)) stops;
     c_dur := fun _ => 0%Z; c_crash_in := crash; c_strict := strict; c_spec := spec |}.
Definition es_cr (n i : nat) : bool := (Nat.eqb n 0 && Nat.eqb i 1) || (Nat.eqb n 2 && Nat.eqb i 2).

(* the search does find the stand-off (and "no active workers") when replacement 3 disagrees ... *)
Example each_search_disagree :
  es_stats (es_cfg 2 3 (Some 4%Z) false [] (fun _ _ => false) (fun _ => 0)
              (fun n => if Nat.eqb n 3 then rev (es_names 3) else es_names 3)) 7 3 15 80 =
  [0; 32; 42; 0; 6; 0].
Proof. vm_compute. reflexivity. Qed.
(* ... and finds nothing but "finished"/"interrupted" when all collections are equal: crashes inside
   tests plus 3-5 external crashes per run, budgets 2, 4, 5 and unlimited, strict channels or not, two
   spec classes, a stop request *)
Example each_search_same :
  es_stats (es_cfg 2 3 (Some 4%Z) false [] es_cr (fun _ => 0) (fun _ => es_names 3)) 7 3 15 80 = [0; 0; 80; 0; 0; 0] /\
  es_stats (es_cfg 2 3 (Some 4%Z) true [] es_cr (fun _ => 0) (fun _ => es_names 3)) 7 4 9 80 = [0; 0; 80; 0; 0; 0] /\
  es_stats (es_cfg 3 4 (Some 2%Z) false [] (fun _ _ => false) (fun n => n mod 2) (fun _ => es_names 4)) 8 4 12 80 = [0; 0; 80; 0; 0; 0] /\
  es_stats (es_cfg 3 4 (Some 5%Z) true [] (fun _ _ => false) (fun n => n mod 2) (fun _ => es_names 4)) 9 5 12 80 = [0; 0; 80; 0; 0; 0] /\
  es_stats (es_cfg 2 4 (Some 3%Z) true [2] es_cr (fun _ => 0) (fun _ => es_names 4)) 7 3 10 80 = [0; 0; 4; 76; 0; 0] /\
  es_stats (es_cfg 2 3 None false [] es_cr (fun _ => 0) (fun _ => es_names 3)) 9 5 10 80 = [0; 0; 80; 0; 0; 0].
Proof. vm_compute. repeat split. Qed.
Close Scope string_scope.
