(* CrashStealTokens.v -- C03 (b), (c) / C01 for --dist worksteal WITH worker crashes and replacement workers,
   when no plugin re-queues crash items (c_requeue c = 0): nothing is started twice, and token conservation.
   The worksteal analogue of CrashTokens.v, built on the system invariant XW of CrashStealTheorems.v (which
   holds in every reachable state).

   Hypotheses of the theorems: c_mode c = MSteal, no_garbled c, 0 < c_numnodes c, c_requeue c = 0.  Nothing
   else: any schedule, any LCrash / c_crash_in, any restart budget, c_strict, --maxfail, stop requests of the
   workers' own sessions, any collections (also different ones, also duplicate test ids).
   Example (c) at the end shows that c_requeue c = 0 cannot be dropped.

     steal_crash_started_nodup         NoDup (started (sys_run c ls)): a finished test is not run again, the test a
                                       dead worker was running is reported as crashed and not run again, every
                                       other test -- withdrawn ones included -- is started at most once
     steal_crash_conservation          pool ++ holdings of all workers ++ positions reported as crashed is a
                                       permutation of the collected positions; holdings of a worker = the tests it
                                       completed ++ the rest of its book (restw; restw_alive: for an alive worker
                                       whose session has not stopped that is what it holds ++ its wire down ++ the
                                       indices withdrawn from it whose reply the controller has not processed)
     steal_crash_started_in_range      what is started is a position of the collection
     steal_crash_book_order            THE NEW INVARIANT (ORDN), in every reachable state: the indices withdrawn
                                       from an alive worker for a reply that the controller has not processed are
                                       a suffix of the node's book (SUFx), not all of it unless the node was told
                                       to shut down (Kx); a request on its way names a proper suffix of the book
                                       unless the main thread has already taken one of the named tests (FLx); for
                                       a dead worker awaiting its errordown the completions in flight and then the
                                       test it was running head its book (PREFx)
     steal_crash_item_is_running_test  C03 (a) sharpened: the crash item IS the test the dead worker was running

   Why the order matters: remove_node reports the HEAD of the dead node's book as crashed and puts the rest back
   into the pool.  If a withdrawn index whose reply was never sent stood in front of the test the dead worker was
   running, that test would go back to the pool and be run a second time.  It cannot: withdrawn indices form a
   suffix, because check_schedule appends to a book only when it holds fewer than MIN_PENDING = 2 tests
   (check_guard) and a request leaves the victim at least two tests (STAIL), and because a worker needs the
   successor of a test in its queue before it completes it.

   Organisation: A the scheduler (check_guard); B the controller: three more facts about one loop iteration
   (loop_factsx: token law TOKLAW, the guard GUARD, requests name tails STAIL) and the re-queue budget never
   grows (loop_once_requeue0); C one worker (running, recv_step_shape); D the system invariant TS (ghosts:
   the completions handled so far with their node, the positions reported as crashed) and its preservation by
   every label (ts_deliver, ts_recvw, ts_main, ts_crash, ts_recv, ts_ctl_core with ctl_node_ord); E the
   theorems; F non-vacuity examples. *)
From XV Require Import Base Worker Ctl SchedLoad SchedSteal SchedScope SchedEach Sched DSession System
  NoHook DSessionProofs WorkerProofs StealProofs LoadProofs FifoProofs ExactlyOnce Coupling ExactlyOnceSteal
  CouplingSteal CompletenessSteal CrashCoupling CrashTheorems CrashTokens CrashSteal CrashStealTheorems.
From XV Require ShutdownOnce.
From Coq Require Import Permutation Lia.
Open Scope nat_scope.

(* ====================================================================================== *)
(* A. the scheduler: who is sent tests by check_schedule                                   *)
(* ====================================================================================== *)
Lemma send_tests_bkw n num s s' o r m :
  ws_send_tests n num s = (s', o, r) -> m <> n -> bkw s' m = bkw s m.
Proof.
  rewrite send_tests_eq. intros H Hm.
  destruct (py_take num (ws_pending s)); [inv H; reflexivity|].
  destruct (aget n (ws_n2p s)) as [cur|] eqn:Ec; [|inv H; reflexivity].
  assert (E : bkw (st_after n num s cur) m = bkw s m).
  { unfold bkw, st_after. wsproj. apply FifoProofs.alist_get_aset_neq. exact Hm. }
  destruct (aget n (ws_nt s)); inv H; exact E.
Qed.

Lemma distribute_bkw idle : forall s s' o r m,
  ws_distribute idle s = (s', o, r) -> ~ In m idle -> bkw s' m = bkw s m.
Proof.
  induction idle as [|n rest IH]; intros s s' o r m H Hm.
  - cbn in H. inv H. reflexivity.
  - rewrite distribute_cons in H.
    destruct (ws_send_tests n _ s) as [[s1 o1] r1] eqn:E1.
    assert (Hmn : m <> n) by (intros ->; apply Hm; left; reflexivity).
    pose proof (send_tests_bkw _ _ _ _ _ _ m E1 Hmn) as B1.
    destruct r1 as [[]|e].
    + destruct (ws_distribute rest s1) as [[s2 o2] r2] eqn:E2. inv H.
      rewrite (IH _ _ _ _ m E2), B1; [reflexivity|]. intros F. apply Hm. right. exact F.
    + inv H. exact B1.
Qed.

Lemma phase2_n2p up s1 s2 o r : ws_phase2 up s1 = (s2, o, r) -> ws_n2p s2 = ws_n2p s1.
Proof.
  unfold ws_phase2, steal_res. intros H.
  assert (SH : forall l, shut_loop l s1 = (s2, o, r) -> ws_n2p s2 = ws_n2p s1).
  { intros l Hl. destruct (shut_loop_frame _ _ _ _ _ Hl) as ((F1 & _) & _). exact F1. }
  destruct (ws_idle s1 up); [inv H; reflexivity|].
  destruct (ws_steal s1); [inv H; reflexivity|].
  destruct (first_max s1 up None) as [v|]; [|eapply SH; exact H].
  destruct (Nat.min _ _); [eapply SH; exact H|].
  destruct (aget v (ws_n2p s1)); [|inv H; reflexivity].
  destruct (aget v (ws_nt s1)); inv H; reflexivity.
Qed.

(* check_schedule appends to the book of a node only if the node is idle (fewer than two tests booked)
   and has not been told to shut down *)
Theorem check_guard s s' o r m :
  ws_check_schedule s = (s', o, r) -> bkw s' m <> bkw s m ->
  length (bkw s m) < 2 /\ exists f, aget m (ws_nt s) = Some f /\ n_sdsent f = false.
Proof.
  intros H Hne.
  assert (IDLE : In m (ws_idle s (ws_up s))).
  { rewrite check_schedule_eq in H.
    destruct (ws_coll s); [|inv H; contradiction].
    destruct (ws_idle s (ws_up s)) as [|i0 il] eqn:Ei; [inv H; contradiction|].
    destruct (in_dec Nat.eq_dec m (i0 :: il)) as [Hin|Hni]; [exact Hin|exfalso].
    destruct (match ws_pending s with [] => (s, [], Ok tt) | _ :: _ => ws_distribute (i0 :: il) s end)
      as [[s1 o1] r1] eqn:E1.
    assert (B1 : bkw s1 m = bkw s m).
    { destruct (ws_pending s); [inv E1; reflexivity|]. eapply distribute_bkw; eauto. }
    destruct r1 as [[]|e]; [|inv H; contradiction].
    destruct (ws_phase2 (ws_up s) s1) as [[s2 o2] r2] eqn:E2. inv H.
    apply Hne. unfold bkw. rewrite (phase2_n2p _ _ _ _ _ E2). exact B1. }
  apply ws_idle_spec in IDLE. destruct IDLE as (Hup & Hlen). split; [rewrite <- ws_len_bkw; exact Hlen|].
  apply ws_up_spec in Hup. destruct Hup as (_ & f & Ef & Hs & _). exists f. split; [exact Ef|].
  unfold shutting_down in Hs. apply orb_false_iff in Hs. tauto.
Qed.

(* ====================================================================================== *)
(* B. the controller: three more facts about one loop iteration                            *)
(* ====================================================================================== *)
(* the indices that leave the scheduler's accounts in the iteration handling [ev] *)
Definition evtokx (ev : cevent) (ws : wsstate) : list nat :=
  match ev with QComplete _ i _ => [i] | QErrorDown n => firstn 1 (bkw ws n) | _ => [] end.

(* tokens: pool ++ books lose exactly evtokx; the iteration that fixes the collection creates them *)
Definition TOKLAW (ev : cevent) (ws ws' : wsstate) : Prop :=
  (forall c, ws_coll ws = Some c ->
     ws_coll ws' = Some c /\ Permutation (wtokens ws' ++ evtokx ev ws) (wtokens ws)) /\
  (ws_coll ws = None ->
     ws_coll ws' = None \/ exists c, ws_coll ws' = Some c /\ Permutation (wtokens ws') (seq 0 (length c))).

(* a book is appended to only if (after the silent update of the handler) it holds fewer than two tests,
   and the node has not been told to shut down *)
Definition GUARD (ev : cevent) (ws ws' : wsstate) : Prop :=
  forall m, bkw ws' m <> bookmidx ev m (bkw ws m) ->
    length (bookmidx ev m (bkw ws m)) < 2 /\ exists f, aget m (ws_nt ws) = Some f /\ n_sdsent f = false.

Definition HFX (ev : cevent) (ws ws' : wsstate) (o : list out) : Prop :=
  TOKLAW ev ws ws' /\ GUARD ev ws ws' /\ STAIL ws' o.

Definition same_books (a b : wsstate) : Prop :=
  ws_n2p b = ws_n2p a /\ ws_pending b = ws_pending a /\ ws_coll b = ws_coll a.

Lemma same_books_refl a : same_books a a.
Proof. unfold same_books. auto. Qed.

Lemma same_books_bkw a b m : same_books a b -> bkw b m = bkw a m.
Proof. intros (E & _). unfold bkw. rewrite E. reflexivity. Qed.

Lemma same_books_tokens a b : same_books a b -> wtokens b = wtokens a.
Proof. intros (E1 & E2 & _). unfold StealProofs.tokens, StealProofs.books. rewrite E1, E2. reflexivity. Qed.

Lemma nt_only_same_books a b : nt_only a b -> same_books a b.
Proof. intros (F1 & F2 & F3 & _). unfold same_books. auto. Qed.

(* outputs without a withdrawal request *)
Definition nost (o : list out) : Prop := forall v, nstc (cmds_to v o) = 0.

Lemma nost_quiet o : (forall v, cmds_to v o = []) -> nost o.
Proof. intros H v. rewrite H. reflexivity. Qed.

Lemma nost_nil : nost [].
Proof. intros v. reflexivity. Qed.

Lemma nost_app a b : nost a -> nost b -> nost (a ++ b).
Proof. intros Ha Hb v. rewrite cmds_to_app, nstc_app, Ha, Hb. reflexivity. Qed.

Lemma nost_hook h o : nost o -> nost (OHook h :: o).
Proof. intros H v. rewrite cmds_to_hook. apply H. Qed.

Lemma nost_vfilter nt vo : nost vo -> nost (vfilter nt vo).
Proof. intros H v. rewrite cmds_to_vfilter. destruct (closedb nt v); [reflexivity|apply H]. Qed.

Lemma nost_TW s s' vo : TW s s' vo -> ws_steal s' = ws_steal s -> nost vo.
Proof. intros T E v. pose proof (tw_steal _ _ _ T v) as X. rewrite E in X. lia. Qed.

Lemma nost_no_steal o v ixs : nost o -> ~ In (OSend v (CSteal ixs)) o.
Proof. intros H Hin. apply in_cmds_to in Hin. exact (nstc_zero_no_steal _ _ (H v) Hin). Qed.

Lemma HFX_ext ev ws ws1 ws2 pre o post :
  same_books ws1 ws2 -> nost pre -> nost post -> HFX ev ws ws1 o -> HFX ev ws ws2 (pre ++ o ++ post).
Proof.
  intros SB Hpre Hpost ((T1 & T2) & G & S). pose proof SB as (E1 & E2 & E3). split; [|split].
  - split.
    + intros c Hc. destruct (T1 c Hc) as (A & B). rewrite E3, (same_books_tokens _ _ SB). auto.
    + intros Hc. rewrite E3, (same_books_tokens _ _ SB). auto.
  - intros m Hm. rewrite (same_books_bkw _ _ m SB) in Hm. exact (G m Hm).
  - intros v ixs Hin. rewrite (same_books_bkw _ _ v SB).
    apply in_app_or in Hin. destruct Hin as [Hin|Hin]; [exfalso; exact (nost_no_steal _ _ _ Hpre Hin)|].
    apply in_app_or in Hin. destruct Hin as [Hin|Hin]; [exact (S v ixs Hin)|].
    exfalso. exact (nost_no_steal _ _ _ Hpost Hin).
Qed.

(* a handler made of a silent update [mid] followed by check_schedule *)
Lemma facts_of_check ev ws mid ws1 oc rc :
  ws_check_schedule mid = (ws1, oc, rc) ->
  (forall m f, aget m (ws_nt mid) = Some f -> n_sdsent f = false ->
     exists f0, aget m (ws_nt ws) = Some f0 /\ n_sdsent f0 = false) ->
  (forall m, bkw mid m = bookmidx ev m (bkw ws m)) ->
  TOKLAW ev ws mid -> HFX ev ws ws1 oc.
Proof.
  intros H Ent Hbk (T1 & T2).
  pose proof (proj1 (W5_conservation _ _ _ _ H)) as Ptok.
  destruct (check_frame _ _ _ _ H) as (_ & Kc & _).
  split; [|split].
  - split.
    + intros c Hc. destruct (T1 c Hc) as (A & B). rewrite Kc, Ptok. auto.
    + intros Hc. rewrite Kc. destruct (T2 Hc) as [A|(c & A & B)]; [left; exact A|right].
      exists c. rewrite Ptok. auto.
  - intros m Hm. rewrite <- (Hbk m) in Hm |- *. destruct (check_guard _ _ _ _ m H Hm) as (A & f & Ef & Hf).
    split; [exact A|]. exact (Ent m f Ef Hf).
  - exact (check_tail _ _ _ _ H).
Qed.

(* a handler that leaves books and pool alone, up to the silent update *)
Lemma facts_of_silent ev ws ws1 o :
  (forall m, bkw ws1 m = bookmidx ev m (bkw ws m)) -> TOKLAW ev ws ws1 -> nost o -> HFX ev ws ws1 o.
Proof.
  intros Hbk T Ho. split; [exact T|]. split; [|apply STAIL_nosteal; exact Ho].
  intros m Hm. exfalso. apply Hm. apply Hbk.
Qed.

Lemma TOKLAW_same ev ws ws1 :
  evtokx ev ws = [] -> ws_coll ws1 = ws_coll ws -> Permutation (wtokens ws1) (wtokens ws) -> TOKLAW ev ws ws1.
Proof.
  intros E0 Ec P. split.
  - intros c Hc. rewrite Ec, E0, app_nil_r. auto.
  - intros Hc. left. congruence.
Qed.

(* ---- the re-queue budget never grows ---- *)
Definition RQ (d d' : dstate) (o : list out) : Prop := d_requeue d' <= d_requeue d.
Lemma RQ_refl : ShutdownOnce.rrefl RQ.
Proof. intros d. unfold RQ. lia. Qed.
Lemma RQ_trans : ShutdownOnce.rtrans RQ.
Proof. intros a b c o1 o2 A B. unfold RQ in *. lia. Qed.

Lemma rq_sched_op op d0 : ShutdownOnce.from RQ d0 (d_sched_op op).
Proof.
  intros d' o r H. unfold d_sched_op in H. destruct (s_step (d_sched d0) op) as [[st o1] r1]. inversion H; subst.
  unfold RQ. cbn. lia.
Qed.
Lemma rq_node_shutdown n d0 : ShutdownOnce.from RQ d0 (d_node_shutdown n).
Proof.
  intros d' o r H. destruct (ShutdownOnce.node_shutdown_frame _ _ _ _ _ _ _ H) as [->|(v & ->)]; unfold RQ; cbn; lia.
Qed.

Ltac rq_rel := unfold RQ; cbn; lia.
Ltac rq1 :=
  first
    [ apply ShutdownOnce.f_ret; apply RQ_refl | apply ShutdownOnce.f_raise; apply RQ_refl
    | apply ShutdownOnce.f_massert; apply RQ_refl | apply ShutdownOnce.f_of_opt; apply RQ_refl
    | apply ShutdownOnce.f_getv; apply RQ_refl
    | apply ShutdownOnce.f_put; rq_rel
    | apply ShutdownOnce.f_emit; rq_rel
    | apply ShutdownOnce.f_mfor; [apply RQ_refl | apply RQ_trans | intros ? ?]
    | apply rq_node_shutdown
    | apply rq_sched_op
    | match goal with
      | |- ShutdownOnce.from _ _ (mbind get _) => apply ShutdownOnce.f_get
      | |- ShutdownOnce.from _ _ (mbind (ret _) _) => apply ShutdownOnce.f_ret_bind
      | |- ShutdownOnce.from _ _ (mbind (of_opt _ _) _) => apply ShutdownOnce.f_of_opt_bind; [apply RQ_refl | intros ? ?]
      | |- ShutdownOnce.from _ _ (mbind (massert _) _) => apply ShutdownOnce.f_massert_bind; [apply RQ_refl | intros ?]
      | |- ShutdownOnce.from _ _ (mbind _ _) => apply ShutdownOnce.f_bind; [apply RQ_trans | | intros ? ?]
      end
    | progress cbv zeta
    | match goal with
      | |- ShutdownOnce.from _ _ (match ?x with _ => _ end) => destruct x eqn:?
      | |- ShutdownOnce.from _ _ (let '(_, _) := ?x in _) => destruct x eqn:?
      | |- ShutdownOnce.from _ _ (if ?x then _ else _) => destruct x eqn:?
      end ].
Ltac rqs := repeat rq1.

Lemma rq_triggershutdown d0 : ShutdownOnce.from RQ d0 d_triggershutdown.
Proof. unfold d_triggershutdown, d_node_shutdown. rqs. Qed.
Lemma rq_active_remove n d0 : ShutdownOnce.from RQ d0 (d_active_remove n).
Proof. unfold d_active_remove. rqs. Qed.
Lemma rq_handlefailures b d0 : ShutdownOnce.from RQ d0 (d_handlefailures b).
Proof. unfold d_handlefailures. rqs. Qed.
Lemma rq_clone n d0 : ShutdownOnce.from RQ d0 (d_clone_node n).
Proof. unfold d_clone_node, hook. rqs. Qed.
Lemma rq_crashitem item n d0 : ShutdownOnce.from RQ d0 (d_handle_crashitem item n).
Proof.
  unfold d_handle_crashitem, hook. rqs.
Qed.

Lemma rq_try_block n d0 : ShutdownOnce.from RQ d0 (try_block n).
Proof.
  intros d' o r H. unfold try_block in H.
  destruct (d_sched_op (SRemove n) d0) as [[d1 o1] r1] eqn:E1.
  pose proof (rq_sched_op _ _ _ _ _ E1) as R1.
  destruct r1 as [[item|]|e].
  - destruct (d_handle_crashitem item n d1) as [[d2 o2] r2] eqn:E2. inversion H; subst.
    pose proof (rq_crashitem _ _ _ _ _ _ E2) as R2. unfold RQ in *. lia.
  - inversion H; subst. exact R1.
  - destruct e; inversion H; subst; exact R1.
Qed.
Lemma rq_errordown n d0 : ShutdownOnce.from RQ d0 (d_worker_errordown n).
Proof.
  rewrite errordown_unfold. unfold hook.
  pose proof rq_try_block. pose proof rq_triggershutdown. pose proof rq_clone. pose proof rq_active_remove.
  rqs; auto.
Qed.
Lemma rq_workerfinished n sk d0 : ShutdownOnce.from RQ d0 (d_worker_workerfinished n sk).
Proof.
  unfold d_worker_workerfinished, hook.
  pose proof rq_errordown. pose proof rq_triggershutdown. pose proof rq_active_remove.
  rqs; auto.
Qed.
Lemma rq_handle ev d0 : ShutdownOnce.from RQ d0 (d_handle ev).
Proof.
  pose proof rq_errordown. pose proof rq_workerfinished. pose proof rq_active_remove. pose proof rq_handlefailures.
  destruct ev; cbn [d_handle]; unfold hook, d_node_shutdown; rqs; auto.
Qed.
Lemma rq_loop_once ev d0 : ShutdownOnce.from RQ d0 (d_loop_once ev).
Proof.
  pose proof rq_handle. pose proof rq_triggershutdown.
  unfold d_loop_once. rqs; auto.
Qed.
Lemma loop_once_requeue0 ev d d' o r : d_loop_once ev d = (d', o, r) -> d_requeue d = 0 -> d_requeue d' = 0.
Proof. intros H E. pose proof (rq_loop_once _ _ _ _ _ H) as R. unfold RQ in R. lia. Qed.

Section CtlF.
Variable N : nat.
Variable collf : nat -> list string.
Hypothesis HN : 0 < N.
Notation DJXc := (DJX N collf).
Notation LJXc := (LJX N collf).
Notation PREXc := (PREX collf).

Lemma books_nil_bkw ws n : wbooks ws = [] -> bkw ws n = [].
Proof.
  intros H. destruct (bkw ws n) as [|i l] eqn:E; [reflexivity|exfalso].
  assert (Hi : In i (bkw ws n)) by (rewrite E; left; reflexivity).
  apply in_bkw_books in Hi. rewrite H in Hi. destruct Hi.
Qed.

Lemma ljx_nocoll_bkw G ws n : LJXc G ws -> ws_coll ws = None -> bkw ws n = [].
Proof.
  intros J E. apply books_nil_bkw. pose proof (xj_b0 _ _ _ _ J E) as T.
  unfold StealProofs.tokens in T. apply app_eq_nil in T. tauto.
Qed.

(* ---- events that do not concern the scheduler ---- *)
Lemma hf_same ev d ws d1 o1 :
  d_sched d = StW ws -> d_sched d1 = d_sched d -> nost o1 ->
  evtokx ev ws = [] -> (forall m b, bookmidx ev m b = b) ->
  exists ws1, d_sched d1 = StW ws1 /\ HFX ev ws ws1 o1.
Proof.
  intros Els E1 Ho E0 Hb. exists ws. split; [congruence|].
  apply facts_of_silent; [intros m; rewrite Hb; reflexivity| |exact Ho].
  apply TOKLAW_same; [exact E0|reflexivity|reflexivity].
Qed.

(* ---- runtest_protocol_complete ---- *)
Lemma hf_complete n i ms d ws d1 o1 r :
  DJXc d ws -> PREXc (QComplete n i ms) d ws ->
  d_handle (QComplete n i ms) d = (d1, o1, r) ->
  exists ws1, d_sched d1 = StW ws1 /\ HFX (QComplete n i ms) ws ws1 o1.
Proof.
  intros (J0 & _) Hin H. pose proof J0 as [Els J AL RQ JB K2]. cbn [PREX] in Hin.
  assert (Hcur : exists cur, aget n (ws_n2p ws) = Some cur /\ In i cur).
  { unfold bkw, alist_get in Hin. destruct (aget n (ws_n2p ws)) as [cur|]; [eauto|destruct Hin]. }
  destruct Hcur as (cur & Ecur & Hic). destruct (remove_first_in i cur Hic) as (cur' & Erf).
  cbn [d_handle] in H. unfold mbind at 1 in H. rewrite (sched_op_runx _ d ws Els) in H. cbn [s_step] in H.
  destruct (ws_mark_test_complete n i ws) as [[ws1 o2] r2] eqn:Em. cbn [lift] in H.
  unfold ws_mark_test_complete in Em. rewrite mbind_get in Em. rewrite Ecur in Em. cbn [of_opt] in Em.
  rewrite mbind_ret in Em. rewrite Erf in Em. cbn [of_opt] in Em. rewrite mbind_ret, mbind_put in Em.
  set (mid := ws_set_n2p ws (aset n cur' (ws_n2p ws))) in *.
  pose proof (W10_check_schedule_never_raises _ _ _ _ Em) as ->.
  unfold no_str, ret in H. inv H. rewrite app_nil_r.
  exists ws1. split; [reflexivity|].
  apply (facts_of_check _ ws mid ws1 o2 (Ok tt) Em); [intros m f Ef Hf; exists f; auto| |].
  - intros m. unfold bkw, mid. wsproj. cbn [bookmidx bookmidw]. destruct (Nat.eqb m n) eqn:E.
    + apply Nat.eqb_eq in E. subst m. rewrite FifoProofs.alist_get_aset_eq. unfold alist_get. rewrite Ecur, Erf. reflexivity.
    + apply Nat.eqb_neq in E. apply FifoProofs.alist_get_aset_neq. exact E.
  - assert (Ptm : Permutation (wtokens mid ++ [i]) (wtokens ws)).
    { unfold StealProofs.tokens, StealProofs.books, mid. wsproj.
      pose proof (books_aset n cur cur' _ Ecur) as P1. pose proof (books_adel n cur _ Ecur) as P2.
      pose proof (remove_first_perm _ _ _ Erf) as P3. perm_count. }
    split.
    + intros c Hc. split; [exact Hc|exact Ptm].
    + intros Hc. left. exact Hc.
Qed.

(* ---- the worker's `unscheduled` reply ---- *)
Lemma hf_unsched n ixs d ws d1 o1 r :
  DJXc d ws -> PREXc (QUnscheduled n ixs) d ws ->
  d_handle (QUnscheduled n ixs) d = (d1, o1, r) ->
  exists ws1, d_sched d1 = StW ws1 /\ HFX (QUnscheduled n ixs) ws ws1 o1.
Proof.
  intros (J0 & _) (Hst & rest & Prest) H. pose proof J0 as [Els J AL RQ JB K2].
  assert (Hnode : In n (ws_nodes ws)) by (apply (xj_st _ _ _ _ J); exact Hst).
  assert (Hcur : exists cur, aget n (ws_n2p ws) = Some cur).
  { apply LoadProofs.aget_In_keys in Hnode. destruct (aget n (ws_n2p ws)) as [cur|]; [eauto|congruence]. }
  destruct Hcur as (cur & Ecur). rewrite (bkw_some ws n cur Ecur) in Prest.
  cbn [d_handle] in H. unfold mbind at 1 in H. rewrite (sched_op_runx _ d ws Els) in H. cbn [s_step] in H.
  rewrite (W6_eq n ixs ws cur Hst Ecur) in H.
  set (mid := rp_mid n ixs ws cur) in *.
  destruct (ws_check_schedule mid) as [[ws1 o2] r2] eqn:Em. cbn [lift] in H.
  pose proof (W10_check_schedule_never_raises _ _ _ _ Em) as ->.
  assert (NDcur : NoDup cur) by (rewrite <- (bkw_some ws n cur Ecur); apply bkw_nodup; apply J).
  destruct (nodup_perm_disj ixs rest cur NDcur Prest) as (Hdisj & NDix & Hincl).
  unfold no_str, ret in H. inv H. rewrite app_nil_r.
  exists ws1. split; [reflexivity|].
  apply (facts_of_check _ ws mid ws1 o2 (Ok tt) Em); [intros m f Ef Hf; exists f; auto| |].
  - intros m. unfold bkw, mid, rp_mid. wsproj. cbn [bookmidx bookmidw]. destruct (Nat.eqb m n) eqn:E.
    + apply Nat.eqb_eq in E. subst m. rewrite FifoProofs.alist_get_aset_eq. unfold alist_get. rewrite Ecur. reflexivity.
    + apply Nat.eqb_neq in E. apply FifoProofs.alist_get_aset_neq. exact E.
  - assert (Ptm : Permutation (wtokens mid) (wtokens ws)).
    { pose proof (filter_withdraw ixs rest cur Prest Hdisj) as Pfil.
      unfold StealProofs.tokens, StealProofs.books, mid, rp_mid. wsproj.
      pose proof (books_aset n cur (filter (fun i => negb (mem_nat i ixs)) cur) _ Ecur) as P1.
      pose proof (books_adel n cur _ Ecur) as P2. perm_count. }
    apply TOKLAW_same; [reflexivity|reflexivity|exact Ptm].
Qed.

(* ---- WorkerController.shutdown ---- *)
Lemma node_shutdown_quiet n s s' o r :
  node_shutdown ws_nt ws_set_nt n s = (s', o, r) ->
  same_books s s' /\ nost o /\
  (forall m f, aget m (ws_nt s') = Some f -> n_sdsent f = false ->
     exists f0, aget m (ws_nt s) = Some f0 /\ n_sdsent f0 = false).
Proof.
  rewrite node_shutdown_eq. intros H.
  assert (SAME : (s, @nil out) = (s', o) ->
     same_books s s' /\ nost o /\
     (forall m f, aget m (ws_nt s') = Some f -> n_sdsent f = false ->
        exists f0, aget m (ws_nt s) = Some f0 /\ n_sdsent f0 = false)).
  { intros E. inv E. split; [apply same_books_refl|]. split; [apply nost_nil|]. intros m f Ef Hf. eauto. }
  destruct (aget n (ws_nt s)) as [f|] eqn:Ef; [|inv H; apply SAME; reflexivity].
  destruct (n_down f || n_sdsent f); [inv H; apply SAME; reflexivity|]. inv H.
  split; [unfold same_books; wsproj; auto|]. split.
  - intros v. destruct (n_closed f); [reflexivity|]. rewrite cmds_to_one. destruct (Nat.eqb n v); reflexivity.
  - intros m g Eg Hg. wsproj. rewrite LoadProofs.aget_aset in Eg. destruct (Nat.eqb m n) eqn:E.
    + inv Eg. discriminate.
    + eauto.
Qed.

(* ---- workerready ---- *)
Lemma hf_ready n d ws d1 o1 r :
  DJXc d ws -> PREXc (QReady n) d ws ->
  d_handle (QReady n) d = (d1, o1, r) ->
  exists ws1, d_sched d1 = StW ws1 /\ HFX (QReady n) ws ws1 o1.
Proof.
  intros (J0 & _) (HnG & Hact & Hpre) H. pose proof J0 as [Els J AL RQ JB K2].
  cbn [d_handle] in H. unfold hook in H. rewrite mbind_emit, mbind_get in H.
  destruct (d_shuttingdown d) eqn:Esd.
  - rewrite (d_node_shutdown_liftw n d ws Els) in H.
    destruct (node_shutdown ws_nt ws_set_nt n ws) as [[ws1 o2] r2] eqn:En. cbn [liftW] in H. inv H.
    destruct (node_shutdown_quiet _ _ _ _ _ En) as (SB & NS & _).
    exists ws1. split; [reflexivity|].
    apply facts_of_silent.
    + intros m. rewrite (same_books_bkw _ _ m SB). reflexivity.
    + apply TOKLAW_same; [reflexivity|apply SB|rewrite (same_books_tokens _ _ SB); reflexivity].
    + apply nost_hook. exact NS.
  - specialize (Hpre eq_refl).
    assert (Ea : aget n (ws_n2p ws) = None) by (apply LoadProofs.aget_none_keys; exact Hpre).
    unfold mbind at 1 in H. rewrite (sched_op_runx _ d ws Els) in H. cbn [s_step] in H.
    unfold ws_add_node, massert, ahas in H. rewrite mbind_get in H. rewrite Ea in H. cbn [negb] in H.
    rewrite mbind_ret in H. unfold put, lift, no_str, ret in H. inv H.
    set (ws1 := ws_set_n2p ws (aset n [] (ws_n2p ws))).
    exists ws1. split; [reflexivity|].
    apply facts_of_silent.
    + intros m. unfold bkw, ws1. wsproj. cbn [bookmidx bookmidw]. destruct (Nat.eq_dec m n) as [->|Hm].
      * rewrite FifoProofs.alist_get_aset_eq. symmetry. apply alist_get_none. exact Ea.
      * apply FifoProofs.alist_get_aset_neq. exact Hm.
    + apply TOKLAW_same; [reflexivity|reflexivity|].
      unfold StealProofs.tokens, StealProofs.books, ws1. wsproj. rewrite (books_add_empty n _ Ea). reflexivity.
    + apply nost_quiet. intros v. reflexivity.
Qed.

(* ---- workerfinished ---- *)
Lemma rn_mid_tokens n ws cur hd rest :
  aget n (ws_n2p ws) = Some cur -> cur = hd ++ rest ->
  Permutation (wtokens (rn_mid n ws rest) ++ hd) (wtokens ws).
Proof.
  intros Eb ->. unfold StealProofs.tokens, StealProofs.books, rn_mid. wsproj.
  pose proof (books_adel n _ _ Eb) as P2. perm_count.
Qed.

Lemma hf_finished n sk d ws d1 o1 r :
  DJXc d ws -> PREXc (QFinished n sk) d ws ->
  d_handle (QFinished n sk) d = (d1, o1, r) ->
  exists ws1, d_sched d1 = StW ws1 /\ HFX (QFinished n sk) ws ws1 o1.
Proof.
  intros (J0 & _) Hpre H. pose proof J0 as [Els J AL RQ JB K2].
  destruct sk; [| |cbn [PREX] in Hpre; contradiction].
  - (* a normal exit *)
    cbn [d_handle] in H. unfold d_worker_workerfinished, hook in H. rewrite mbind_emit in H.
    cbn [PREX] in Hpre. destruct Hpre as (Hina & Hbook & Hstn & (fn & Efn & Hsdn)).
    rewrite mbind_get in H. rewrite Els in H. cbn [s_nodes] in H.
    destruct (mem_nat n (ws_nodes ws)) eqn:Emem.
    + apply StealProofs.mem_nat_In in Emem. specialize (Hbook Emem).
      set (mid := rn_mid n ws []).
      destruct (ws_check_schedule mid) as [[ws1 o2] r2] eqn:Em.
      pose proof (W10_check_schedule_never_raises _ _ _ _ Em) as ->.
      assert (Erun : (r0 <- d_sched_op (SRemove n);; massert match r0 with Some s0 => (s0 =? "")%string | None => true end) d
                     = (d_set_sched d (StW ws1), o2, Ok tt)).
      { unfold mbind. rewrite (sched_op_runx _ d ws Els). cbn [s_step]. rewrite (W7_eq_idle n ws Hbook).
        fold mid. rewrite Em. cbn [lift]. unfold massert, ret. rewrite app_nil_r. reflexivity. }
      unfold mbind at 1 in H. rewrite Erun in H.
      rewrite (active_remove_run n (d_set_sched d (StW ws1)) Hina) in H. inv H. rewrite app_nil_r.
      exists ws1. split; [reflexivity|].
      replace (OHook (HNodeDown n false) :: o2) with ([OHook (HNodeDown n false)] ++ o2 ++ [])
        by (rewrite app_nil_r; reflexivity).
      apply (HFX_ext _ ws ws1 ws1 [OHook (HNodeDown n false)] o2 []);
        [apply same_books_refl|apply nost_quiet; reflexivity|apply nost_nil|].
      apply (facts_of_check _ ws mid ws1 o2 (Ok tt) Em); [intros m f Ef Hf; exists f; auto| |].
      * intros m. unfold mid. rewrite (rn_mid_bkw _ _ _ n ws [] m J). cbn [bookmidx bookmidw].
        destruct (Nat.eqb m n) eqn:E; [|reflexivity]. apply Nat.eqb_eq in E. subst m. symmetry. apply bkw_some. exact Hbook.
      * apply TOKLAW_same; [reflexivity|reflexivity|].
        pose proof (rn_mid_tokens n ws [] [] [] Hbook eq_refl) as P. rewrite app_nil_r in P. exact P.
    + rewrite mbind_ret in H. rewrite (active_remove_run n d Hina) in H. inv H.
      exists ws. split; [exact Els|].
      apply facts_of_silent; [reflexivity|apply TOKLAW_same; reflexivity|apply nost_quiet; reflexivity].
  - (* the worker's own session has stopped *)
    cbn [PREX] in Hpre.
    cbn [d_handle] in H. unfold d_worker_workerfinished, hook in H. rewrite mbind_emit in H.
    assert (STEP : exists d2, (d0 <- get;; (if d_shouldstop d0 then ret tt else put (d_set_shouldstop d0 true))) d = (d2, [], Ok tt) /\
              d_sched d2 = d_sched d /\ d_active d2 = d_active d).
    { rewrite mbind_get. destruct (d_shouldstop d) eqn:Ess.
      - exists d. auto.
      - eexists. split; [reflexivity|]. auto. }
    destruct STEP as (d2 & Erun & S1 & S3).
    unfold mbind at 1 in H. rewrite Erun in H.
    assert (Hina : In n (d_active d2)) by (rewrite S3; exact Hpre).
    rewrite (active_remove_run n d2 Hina) in H. inv H.
    exists ws. split; [cbn [d_sched d_set_active]; rewrite S1; exact Els|].
    apply facts_of_silent; [reflexivity|apply TOKLAW_same; reflexivity|apply nost_quiet; reflexivity].
Qed.

(* ---- collectionfinish / schedule() ---- *)
Lemma HFX_pre ev ws ws1 pre o : nost pre -> HFX ev ws ws1 o -> HFX ev ws ws1 (pre ++ o).
Proof.
  intros Hp Hf. rewrite <- (app_nil_r o). apply (HFX_ext ev ws ws1 ws1 pre o []); auto using same_books_refl, nost_nil.
Qed.

Lemma collfinish_facts G n ids ws wsA oA :
  LJXc G ws -> n < G -> ids = collf n -> In n (ws_nodes ws) -> ~ degenerate ws ->
  ws_add_node_collection n ids ws = (wsA, oA, Ok tt) ->
  forall wsB oB rB,
    (if ws_collection_is_completed wsA then ws_schedule wsA else (wsA, [], Ok tt)) = (wsB, oB, rB) ->
    HFX (QCollFinish n ids) ws wsB (oA ++ oB).
Proof.
  intros J HnG -> Hnode Hnd H.
  assert (Hp : aget n (ws_n2p ws) <> None) by (apply LoadProofs.aget_In_keys; exact Hnode).
  assert (BM : forall m b, bookmidx (QCollFinish n (collf n)) m b = b) by reflexivity.
  destruct (ws_collection_is_completed ws) eqn:Hc.
  - (* a late node: the collection is fixed *)
    assert (Ecoll : exists c0 cr, ws_coll ws = Some (c0 :: cr)).
    { destruct (ws_coll ws) as [[|c0 cr]|] eqn:E; [exfalso; apply Hnd; split; auto| eauto |exfalso; apply Hnd; split; auto]. }
    destruct Ecoll as (c0 & cr & Ecoll).
    rewrite (add_coll_late_runx n (collf n) ws c0 cr Hp Hc Ecoll) in H.
    destruct (coll_eqb (collf n) (c0 :: cr)) eqn:Eeq.
    + inv H. intros wsB oB rB HB.
      set (lsa := ws_set_n2c ws (aset n (collf n) (ws_n2c ws))) in *.
      assert (Eca : ws_collection_is_completed lsa = true) by (apply (completed_aset N HN); exact Hc).
      rewrite Eca in HB. rewrite (schedule_again_runx lsa (c0 :: cr) Eca Ecoll) in HB. cbn [app].
      apply (facts_of_check _ ws lsa wsB oB rB HB); [intros m f Ef Hf; exists f; auto|intros m; reflexivity|].
      apply TOKLAW_same; reflexivity.
    + destruct (first_key (ws_n2c ws)) as [other|] eqn:Efk; [|discriminate H].
      destruct (node_shutdown ws_nt ws_set_nt n ws) as [[ws_sd o_sd] r_sd] eqn:Esd. inv H.
      destruct (node_shutdown_quiet _ _ _ _ _ Esd) as (SB & NS & NT).
      destruct (node_shutdown_TWv _ _ _ _ _ (proj2 (xj_ntk _ _ _ _ J n) HnG) Esd) as (_ & _ & F & _).
      intros wsB oB rB HB.
      pose proof F as (F1 & F2 & F3 & F4 & F5 & F6 & F7).
      assert (Hc' : ws_collection_is_completed wsA = true) by (rewrite (completed_keepsw ws wsA F5 F6); exact Hc).
      rewrite Hc' in HB. rewrite (schedule_again_runx wsA (c0 :: cr) Hc' (eq_trans F3 Ecoll)) in HB.
      apply HFX_pre.
      * intros v. cbn [cmds_to flat_map cmd_to app]. apply NS.
      * apply (facts_of_check _ ws wsA wsB oB rB HB); [exact NT| |].
        -- intros m. rewrite (same_books_bkw _ _ m SB). reflexivity.
        -- apply TOKLAW_same; [reflexivity|exact F3|rewrite (same_books_tokens _ _ SB); reflexivity].
  - (* one of the first N collections *)
    assert (Ecoll : ws_coll ws = None).
    { destruct (ws_coll ws) eqn:E; [|reflexivity]. rewrite (xj_cc _ _ _ _ J) in Hc; [discriminate|]. rewrite E. discriminate. }
    rewrite (add_coll_runw n (collf n) ws Hp Hc) in H. inv H. intros wsB oB rB HB.
    set (lsa := ws_set_n2c ws (aset n (collf n) (ws_n2c ws))) in *.
    assert (Ja : LJXc G lsa) by (apply (LJX_addcoll N collf HN); auto).
    pose proof (xj_b0 _ _ _ _ J Ecoll) as Tok0.
    cbn [app].
    assert (SIL : forall o, nost o -> HFX (QCollFinish n (collf n)) ws lsa o).
    { intros o Ho. apply facts_of_silent; [intros m; reflexivity|apply TOKLAW_same; reflexivity|exact Ho]. }
    destruct (ws_collection_is_completed lsa) eqn:Eca.
    2:{ inv HB. apply SIL. apply nost_nil. }
    assert (Hn2c : ws_n2c lsa <> []) by (apply (n2c_nonempty N HN lsa Eca); apply Ja).
    unfold ws_schedule in HB. rewrite mbind_get in HB. rewrite Eca in HB. unfold massert in HB. rewrite mbind_ret in HB.
    change (ws_coll lsa) with (ws_coll ws) in HB. rewrite Ecoll in HB.
    unfold mbind at 1 in HB. destruct (ws_same_collection lsa) as [[t2 p2] r2] eqn:Es.
    apply (same_collection_quietw _ _ _ _ Hn2c) in Es. destruct Es as (-> & C2 & (f0 & c0 & ot0 & En0 & ->)).
    destruct (forallb (fun p => coll_eqb c0 (snd p)) ot0) eqn:Esame; cbn [negb] in HB.
    2:{ unfold ret in HB. inv HB. rewrite app_nil_r. apply SIL. apply nost_quiet. exact C2. }
    rewrite mbind_get in HB. rewrite En0 in HB. cbn [of_opt] in HB. rewrite mbind_ret, mbind_put in HB.
    set (mid := ws_set_pending (ws_set_coll lsa (Some c0)) (seq 0 (length c0))) in *.
    assert (Bk0 : wbooks ws = []) by (unfold StealProofs.tokens in Tok0; apply app_eq_nil in Tok0; tauto).
    assert (Tokm : wtokens mid = seq 0 (length c0)).
    { unfold StealProofs.tokens, StealProofs.books, mid, lsa. wsproj. fold (wbooks ws). rewrite Bk0, app_nil_r. reflexivity. }
    assert (TM : TOKLAW (QCollFinish n (collf n)) ws mid).
    { split; [intros c Hc0; congruence|]. intros _. right. exists c0. split; [reflexivity|rewrite Tokm; reflexivity]. }
    destruct c0 as [|x c].
    + unfold ret in HB. inv HB. rewrite app_nil_r.
      apply facts_of_silent; [intros m; reflexivity|exact TM|apply nost_quiet; exact C2].
    + destruct (ws_check_schedule mid) as [[ws2 o2] r2] eqn:Ech. inv HB.
      apply HFX_pre; [apply nost_quiet; exact C2|].
      apply (facts_of_check _ ws mid wsB o2 rB Ech); [intros m f Ef Hf; exists f; auto|intros m; reflexivity|exact TM].
Qed.

Lemma hf_collfinish n ids d ws d1 o1 r :
  DJXc d ws -> PREXc (QCollFinish n ids) d ws ->
  d_handle (QCollFinish n ids) d = (d1, o1, r) ->
  exists ws1, d_sched d1 = StW ws1 /\ HFX (QCollFinish n ids) ws ws1 o1.
Proof.
  intros (J0 & K & _) (HnG & Hids) H. pose proof J0 as [Els J AL RQ JB K2].
  assert (SAME : forall x, (d, @nil out, x) = (d1, o1, r) ->
                 exists ws1, d_sched d1 = StW ws1 /\ HFX (QCollFinish n ids) ws ws1 o1).
  { intros x E. inv E. exists ws. split; [exact Els|].
    apply facts_of_silent; [reflexivity|apply TOKLAW_same; reflexivity|apply nost_nil]. }
  cbn [d_handle] in H. rewrite mbind_get in H.
  destruct (d_shuttingdown d) eqn:Esd; [eapply SAME; exact H|].
  rewrite Els in H. cbn [s_nodes] in H.
  destruct (mem_nat n (ws_nodes ws)) eqn:Em; cbn [negb] in H; [|eapply SAME; exact H].
  clear SAME. apply StealProofs.mem_nat_In in Em.
  assert (Hnd : ~ degenerate ws) by (intros F; discriminate (K F)).
  unfold hook in H. rewrite mbind_emit in H. unfold mbind at 1 in H.
  rewrite (sched_op_runx _ d ws Els) in H. cbn [s_step] in H.
  destruct (ws_add_node_collection n ids ws) as [[wsA oA] rA] eqn:EA. cbn [lift] in H.
  destruct (collfinish_sched N collf HN _ _ _ _ _ _ _ J HnG Hids Em Hnd EA) as (-> & NEXT).
  pose proof (collfinish_facts _ _ _ _ _ _ J HnG Hids Em Hnd EA) as FACTS.
  rewrite mbind_get in H. cbn [d_sched d_set_sched s_collection_is_completed] in H.
  destruct (ws_collection_is_completed wsA) eqn:EcA.
  - unfold mbind at 1 in H. rewrite (sched_op_runx _ (d_set_sched d (StW wsA)) wsA eq_refl) in H. cbn [s_step] in H.
    destruct (ws_schedule wsA) as [[wsB oB] rB] eqn:Es. cbn [lift] in H.
    destruct (NEXT wsB oB rB eq_refl) as (-> & _). unfold no_str, ret in H. inv H. rewrite app_nil_r.
    exists wsB. split; [reflexivity|].
    change (OHook (HCollFinished n) :: oA ++ oB) with ([OHook (HCollFinished n)] ++ (oA ++ oB)).
    apply HFX_pre; [apply nost_quiet; reflexivity|]. exact (FACTS wsB oB (Ok tt) eq_refl).
  - unfold ret in H. inv H.
    exists wsA. split; [reflexivity|].
    change (OHook (HCollFinished n) :: oA ++ []) with ([OHook (HCollFinished n)] ++ (oA ++ [])).
    apply HFX_pre; [apply nost_quiet; reflexivity|]. exact (FACTS wsA [] (Ok tt) eq_refl).
Qed.

(* ---- errordown: a worker died ---- *)
Lemma try_block_facts n d ws d1 o1 r :
  DJX0 N collf d ws -> d_requeue d = 0 -> try_block n d = (d1, o1, r) ->
  exists ws1, d_sched d1 = StW ws1 /\ HFX (QErrorDown n) ws ws1 o1.
Proof.
  intros [Els J AL RQ JB K2] Erq H. unfold try_block in H.
  rewrite (sched_op_runx _ d ws Els) in H. cbn [s_step] in H.
  destruct (ws_remove_node n ws) as [[ws2 o2] r2] eqn:Er. cbn [lift] in H.
  assert (BMID : forall rest m, bkw (rn_mid n ws rest) m = bookmidx (QErrorDown n) m (bkw ws m)).
  { intros rest m. rewrite (rn_mid_bkw _ _ _ n ws rest m J). reflexivity. }
  destruct (aget n (ws_n2p ws)) as [[|i rest]|] eqn:Eb.
  - (* empty book *)
    rewrite (W7_eq_idle n ws Eb) in Er. set (mid := rn_mid n ws []) in *.
    destruct (ws_check_schedule mid) as [[ws1 o3] r3] eqn:Em.
    pose proof (W10_check_schedule_never_raises _ _ _ _ Em) as ->. injection Er as <- <- <-. inv H.
    exists ws1. split; [reflexivity|].
    eapply facts_of_check; [exact Em|intros m f Ef Hf; exists f; auto|apply BMID|].
    apply TOKLAW_same; [cbn [evtokx]; rewrite (bkw_some ws n _ Eb); reflexivity|reflexivity|].
    pose proof (rn_mid_tokens n ws [] [] [] Eb eq_refl) as P. rewrite app_nil_r in P. exact P.
  - (* the head of the book is the crash item *)
    assert (Hit : In i (wtokens ws)).
    { unfold StealProofs.tokens. apply in_or_app. right. apply (in_bkw_books ws n i). rewrite (bkw_some ws n _ Eb). left. reflexivity. }
    assert (EXc : exists X, ws_coll ws = Some X).
    { destruct (ws_coll ws) as [X|] eqn:E; [eauto|]. rewrite (xj_b0 _ _ _ _ J E) in Hit. destruct Hit. }
    destruct EXc as (X & Ecoll).
    assert (Hi : i < length X) by (apply (xj_valid _ _ _ _ J X Ecoll); exact Hit).
    destruct (nth_error X i) as [item|] eqn:Enth; [|apply nth_error_None in Enth; lia].
    rewrite (W7_eq n ws i rest X item Eb Ecoll Enth) in Er. set (mid := rn_mid n ws rest) in *.
    destruct (ws_check_schedule mid) as [[ws1 o3] r3] eqn:Em.
    pose proof (W10_check_schedule_never_raises _ _ _ _ Em) as ->. injection Er as <- <- <-. cbn [lift] in H.
    unfold d_handle_crashitem, hook in H. rewrite mbind_emit, mbind_get in H. cbn [d_requeue d_set_sched] in H.
    rewrite Erq in H. rewrite mbind_ret in H. unfold emit in H. inv H.
    exists ws1. split; [reflexivity|].
    match goal with |- HFX _ _ _ (?o ++ ?post) => replace (o ++ post) with ([] ++ o ++ post) by reflexivity end.
    eapply HFX_ext; [apply same_books_refl|apply nost_nil|apply nost_quiet; reflexivity|].
    eapply facts_of_check; [exact Em|intros m f Ef Hf; exists f; auto|apply BMID|].
    split.
    + intros c Hc. split; [exact Hc|]. cbn [evtokx]. rewrite (bkw_some ws n _ Eb). cbn [firstn].
      exact (rn_mid_tokens n ws (i :: rest) [i] rest Eb eq_refl).
    + intros Hc. congruence.
  - (* not scheduled (never became ready): KeyError, swallowed *)
    rewrite (ws_remove_node_unknownx n ws Eb) in Er. injection Er as <- <- <-. cbn [lift] in H. inv H.
    exists ws. split; [reflexivity|].
    apply facts_of_silent; [|apply TOKLAW_same; [cbn [evtokx]; rewrite (bkw_none ws n Eb); reflexivity|reflexivity|reflexivity]|apply nost_nil].
    intros m. cbn [bookmidx]. destruct (Nat.eqb m n) eqn:E; [|reflexivity].
    apply Nat.eqb_eq in E. subst m. apply bkw_none. exact Eb.
Qed.

Lemma hf_errordown n d ws d1 o1 r :
  DJXc d ws -> PREXc (QErrorDown n) d ws -> d_requeue d = 0 ->
  d_handle (QErrorDown n) d = (d1, o1, r) ->
  exists ws1, d_sched d1 = StW ws1 /\ HFX (QErrorDown n) ws ws1 o1.
Proof.
  intros (J0 & _) Hina Erq H. cbn [PREX] in Hina. pose proof J0 as [Els J AL RQ JB K2].
  cbn [d_handle] in H. rewrite errordown_unfold in H.
  apply LoadProofs.mbind_inv in H. destruct H as [(e & Hh & _)|(d0 & o0 & [] & oR & Hh & E & ->)]; [rewrite hook_run in Hh; discriminate|].
  rewrite hook_run in Hh. injection Hh as <- <-. rename d1 into dx.
  apply LoadProofs.mbind_inv in E. destruct E as [(e & Ht & ->)|(da & oa & [] & ob & Ht & E & ->)].
  { destruct (try_block_effx N collf HN _ _ _ _ _ _ J0 Ht) as (F & _). discriminate. }
  destruct (try_block_facts _ _ _ _ _ _ J0 Erq Ht) as (wsa' & Ewsa & FA).
  destruct (try_block_effx N collf HN _ _ _ _ _ _ J0 Ht) as (_ & wsa & voa & rqa & -> & -> & Ja & Trq & Tnt & Tbk & Tst & Tnodes & Tn2c & Tcr).
  cbn [d_sched d_set_requeue d_set_sched] in Ewsa. injection Ewsa as <-.
  assert (HnG : n < d_next_gw d) by (apply AL; exact Hina).
  assert (Efn : exists fn, aget n (ws_nt wsa) = Some fn).
  { destruct (aget n (ws_nt wsa)) as [fn|] eqn:Ef; [eauto|]. exfalso. apply (proj2 (xj_ntk _ _ _ _ Ja n) HnG). exact Ef. }
  destruct Efn as (fn & Efn).
  rewrite mbind_get in E. cbv zeta in E. rewrite mbind_put in E.
  set (da := d_set_requeue (d_set_sched d (StW wsa)) rqa) in *.
  set (db := d_set_failed_nodes da (d_failed_nodes da + 1)%Z) in *.
  assert (FIN : forall ws2 post, same_books wsa ws2 -> nost post ->
            HFX (QErrorDown n) ws ws2 ([OHook (HNodeDown n true)] ++ vfilter (ws_nt ws) voa ++ post)).
  { intros ws2 post SB NP. apply (HFX_ext _ ws wsa ws2); [exact SB|apply nost_quiet; reflexivity|exact NP|exact FA]. }
  assert (DEC :
    (exists m0, d_max_restart d = Some m0 /\
     ((hook (HSummary (m0 =? 0)%Z) ;;; d_triggershutdown) ;;; d_active_remove n) db = (dx, ob, r)) \/
    ((((d2 <- get ;; put (d_set_shuttingdown d2 false)) ;;; d_clone_node n) ;;; d_active_remove n) db = (dx, ob, r))).
  { pose proof E as E'.
    clear E. change (d_max_restart da) with (d_max_restart d) in E'. change (d_failed_nodes da) with (d_failed_nodes d) in E'.
    destruct (d_max_restart d) as [m0|] eqn:Emr.
    - destruct (m0 <? d_failed_nodes d + 1)%Z eqn:Elt.
      + left. exists m0. split; [reflexivity|]. exact E'.
      + right. exact E'.
    - right. exact E'. }
  clear E. destruct DEC as [(m0 & Emr & E)|E].
  - (* the budget is used up: the session shuts down *)
    apply LoadProofs.mbind_inv in E. destruct E as [(e & Hg & ->)|(dc & oc & [] & od & Hg & E2 & ->)].
    { exfalso. apply LoadProofs.mbind_inv in Hg.
      destruct Hg as [(e' & Hh & _)|(d0 & o0 & [] & oR & Hh & Hg & _)]; [rewrite hook_run in Hh; discriminate|].
      rewrite hook_run in Hh. injection Hh as <- <-.
      destruct (trigger_effx N collf _ db wsa _ _ _ eq_refl Ja Hg) as (F & _). discriminate. }
    apply LoadProofs.mbind_inv in Hg.
    destruct Hg as [(e' & Hh & _)|(d0 & o0 & [] & oR & Hh & Hg & ->)]; [rewrite hook_run in Hh; discriminate|].
    rewrite hook_run in Hh. injection Hh as <- <-.
    destruct (trigger_effx N collf _ db wsa _ _ _ eq_refl Ja Hg) as (_ & ws2 & vo2 & -> & T2 & -> & F2 & _).
    assert (Hin2 : In n (d_active (d_withw db true ws2))) by exact Hina.
    rewrite (active_remove_run n _ Hin2) in E2. inv E2. rewrite app_nil_r.
    exists ws2. split; [reflexivity|].
    change (OHook (HNodeDown n true) :: vfilter (ws_nt ws) voa ++ OHook (HSummary (m0 =? 0)%Z) :: vfilter (ws_nt wsa) vo2)
      with ([OHook (HNodeDown n true)] ++ vfilter (ws_nt ws) voa ++ (OHook (HSummary (m0 =? 0)%Z) :: vfilter (ws_nt wsa) vo2)).
    apply FIN; [apply nt_only_same_books; exact F2|].
    apply nost_hook. apply nost_vfilter. apply (nost_TW _ _ _ T2). destruct F2 as (_ & _ & _ & F4 & _). exact F4.
  - (* within the budget: a replacement worker is started *)
    assert (CL : ((d2 <- get ;; put (d_set_shuttingdown d2 false)) ;;; d_clone_node n) db =
                 (d_set_active (d_set_next_gw (d_set_sched (d_set_shuttingdown db false)
                     (StW (ws_set_nt wsa (aset (d_next_gw d) (mkfresh (n_spec fn)) (ws_nt wsa))))) (S (d_next_gw d)))
                    (d_active d ++ [d_next_gw d]),
                  [OHook (HSpawn (d_next_gw d) (n_spec fn))], Ok tt)).
    { unfold mbind at 1. rewrite mbind_get. unfold put.
      rewrite (clone_runx n (d_set_shuttingdown db false) wsa fn eq_refl Efn). reflexivity. }
    apply LoadProofs.mbind_inv in E. destruct E as [(e & Hg & ->)|(dc & oc & [] & od & Hg & E2 & ->)].
    { rewrite CL in Hg. discriminate. }
    rewrite CL in Hg. injection Hg as <- <-. clear CL.
    match type of E2 with d_active_remove n ?D = _ => set (dc := D) in * end.
    assert (Hin2 : In n (d_active dc)) by (unfold dc; cbn [d_active d_set_active]; apply in_or_app; left; exact Hina).
    rewrite (active_remove_run n _ Hin2) in E2. inv E2. rewrite app_nil_r.
    eexists. split; [reflexivity|].
    change (OHook (HNodeDown n true) :: vfilter (ws_nt ws) voa ++ [OHook (HSpawn (d_next_gw d) (n_spec fn))])
      with ([OHook (HNodeDown n true)] ++ vfilter (ws_nt ws) voa ++ [OHook (HSpawn (d_next_gw d) (n_spec fn))]).
    apply FIN; [unfold same_books; wsproj; auto|apply nost_quiet; reflexivity].
Qed.

(* ---- triggershutdown and the end of a loop iteration ---- *)
Definition nsq (x : out) : Prop := match x with OSend _ (CSteal _) => False | _ => True end.

Lemma nsq_nost o : Forall nsq o -> nost o.
Proof.
  intros H v. induction H as [|x o Hx _ IH]; [reflexivity|].
  change (x :: o) with ([x] ++ o). rewrite cmds_to_app, nstc_app, IH, Nat.add_0_r.
  destruct x as [h|m c| |]; try reflexivity. cbn [cmds_to flat_map cmd_to app]. destruct (Nat.eqb m v); [|reflexivity].
  destruct c; try reflexivity. destruct Hx.
Qed.

Lemma same_books_trans a b c : same_books a b -> same_books b c -> same_books a c.
Proof. unfold same_books. intuition congruence. Qed.

Lemma node_shutdown_nsq n s s' o r :
  node_shutdown ws_nt ws_set_nt n s = (s', o, r) -> same_books s s' /\ Forall nsq o.
Proof.
  rewrite node_shutdown_eq. intros H.
  destruct (aget n (ws_nt s)) as [f|]; [|inv H; split; [apply same_books_refl|constructor]].
  destruct (n_down f || n_sdsent f); [inv H; split; [apply same_books_refl|constructor]|]. inv H.
  split; [unfold same_books; wsproj; auto|]. destruct (n_closed f); repeat constructor.
Qed.

Lemma trigger_quiet d ws d' o r :
  d_sched d = StW ws -> d_triggershutdown d = (d', o, r) ->
  exists ws', d_sched d' = StW ws' /\ same_books ws ws' /\ nost o.
Proof.
  intros Els H. unfold d_triggershutdown in H. unfold mbind at 1, get in H.
  destruct (d_shuttingdown d) eqn:Esd.
  - unfold ret in H. inv H. exists ws. split; [exact Els|]. split; [apply same_books_refl|apply nost_nil].
  - unfold mbind, put in H.
    rewrite (mfor_liftW d_node_shutdown (fun n => node_shutdown ws_nt ws_set_nt n) _ d_node_shutdown_liftw
               (d_set_shuttingdown d true) ws) in H by exact Els.
    destruct (mfor (s_nodes (d_sched d)) (fun n => node_shutdown ws_nt ws_set_nt n) ws) as [[ws2 o2] r2] eqn:Em.
    cbn [liftW app] in H. inv H.
    destruct (mfor_ind same_books nsq _ _ same_books_refl same_books_trans
                (fun x s s' o r _ Hx => node_shutdown_nsq x s s' o r Hx) _ _ _ _ Em) as (SB & Q).
    exists ws2. split; [reflexivity|]. split; [exact SB|apply nsq_nost; exact Q].
Qed.

Lemma loop_rest_quiet d ws d' o r :
  d_sched d = StW ws -> loop_rest d = (d', o, r) ->
  exists ws', d_sched d' = StW ws' /\ same_books ws ws' /\ nost o.
Proof.
  intros Els H. unfold loop_rest in H.
  assert (STEP : forall (b : dstate -> bool) d0 ws0 d1 o1 r1, d_sched d0 = StW ws0 ->
            (d <- get ;; if b d then d_triggershutdown else ret tt) d0 = (d1, o1, r1) ->
            exists ws1, d_sched d1 = StW ws1 /\ same_books ws0 ws1 /\ nost o1).
  { intros b d0 ws0 d1 o1 r1 E0 H0. rewrite mbind_get in H0. destruct (b d0).
    - eapply trigger_quiet; eauto.
    - unfold ret in H0. inv H0. exists ws0. split; [exact E0|]. split; [apply same_books_refl|apply nost_nil]. }
  apply LoadProofs.mbind_inv in H. destruct H as [(e & H1 & ->)|(d1 & o1 & a & o2 & H1 & H2 & ->)].
  - exact (STEP _ _ _ _ _ _ Els H1).
  - destruct (STEP _ _ _ _ _ _ Els H1) as (ws1 & E1 & SB1 & N1).
    destruct (STEP _ _ _ _ _ _ E1 H2) as (ws2 & E2 & SB2 & N2).
    exists ws2. split; [exact E2|]. split; [eapply same_books_trans; eauto|apply nost_app; assumption].
Qed.

(* ---- one iteration of the controller loop ---- *)
Theorem loop_factsx ev d ws d' o r :
  DJXc d ws -> PREXc ev d ws -> d_requeue d = 0 ->
  d_loop_once ev d = (d', o, r) ->
  exists ws', d_sched d' = StW ws' /\ HFX ev ws ws' o.
Proof.
  intros DJd Hpre Erq H. rewrite loop_once_unfold in H.
  pose proof DJd as ([Els J AL RQ JB K2] & _).
  assert (HE : forall d1 o1 r1, d_handle ev d = (d1, o1, r1) ->
            exists ws1, d_sched d1 = StW ws1 /\ HFX ev ws ws1 o1).
  { intros d1 o1 r1 H1.
    assert (QUIET : match ev with
                    | QLogStart _ _ | QLogFinish _ _ | QWarning | QReport _ _ _ _ | QCollectReport _ _ _ => True
                    | _ => False end -> evtokx ev ws = [] -> (forall m b, bookmidx ev m b = b) ->
                    exists ws1, d_sched d1 = StW ws1 /\ HFX ev ws ws1 o1).
    { intros Hq E0 Hb. destruct (handle_quiet' ev d d1 o1 r1 Hq H1) as (_ & (S1 & _) & C).
      apply (hf_same ev d ws d1 o1 Els S1); [apply nost_quiet; exact C|exact E0|exact Hb]. }
    destruct ev; try (apply QUIET; [exact I|reflexivity|reflexivity]); try (cbn in Hpre; contradiction).
    - eapply hf_ready; eauto.
    - eapply hf_collfinish; eauto.
    - eapply hf_complete; eauto.
    - eapply hf_unsched; eauto.
    - eapply hf_finished; eauto.
    - eapply hf_errordown; eauto. }
  apply LoadProofs.mbind_inv in H. destruct H as [(e & H1 & ->)|(d1 & o1 & a & o2 & H1 & H2 & ->)].
  - exact (HE _ _ _ H1).
  - destruct (HE _ _ _ H1) as (ws1 & E1 & F1).
    destruct (loop_rest_quiet _ _ _ _ _ E1 H2) as (ws2 & E2 & SB & NS).
    exists ws2. split; [exact E2|].
    replace (o1 ++ o2) with ([] ++ o1 ++ o2) by reflexivity.
    apply (HFX_ext ev ws ws1 ws2 [] o1 o2 SB nost_nil NS F1).
Qed.

End CtlF.

(* ====================================================================================== *)
(* C. one worker                                                                           *)
(* ====================================================================================== *)
(* the test the main thread is running (entered, not completed) *)
Definition running (w : wst) : list nat :=
  match wph w with PRun cur _ _ => [snd cur] | _ => [] end.
(* the main thread has not left the loop through the stop exit, and has not exited *)
Definition in_regime (w : wst) : bool :=
  match wph w with PFinishing true | PExited => false | _ => true end.

Lemma running_ext w w' : wph w' = wph w -> running w' = running w.
Proof. intros E. unfold running. rewrite E. reflexivity. Qed.
Lemma in_regime_ext w w' : wph w' = wph w -> in_regime w' = in_regime w.
Proof. intros E. unfold in_regime. rewrite E. reflexivity. Qed.

(* what a worker has started: the tests it completed, and the one it is running *)
Lemma wran_done_running w :
  WInv w -> map (fun r => snd (fst r)) (wran w) = done_w w ++ running w.
Proof.
  intros I. pose proof (inv_phase w I) as E. unfold phase_inv in E.
  assert (PE : forall pre lst, no_mark pre -> map (fun r => snd (fst r)) (pairs (pre ++ [lst])) = ents_idx pre).
  { intros pre lst Hn. rewrite <- ents_idx_map_ent, pairs_ents by exact Hn. reflexivity. }
  unfold done_w, running, owed_main.
  destruct (wph w) as [|rest| | |cur|cur nxt|cur nxt script|sfin|].
  - destruct E as (-> & ->). reflexivity.
  - destruct E as (-> & ->). reflexivity.
  - destruct E as (-> & ->). reflexivity.
  - destruct E as (-> & ->). reflexivity.
  - destruct E as (pre & Ep & Hn & ->). rewrite Ep, (PE pre (ent cur) Hn), ents_idx_app.
    replace (ents_idx [ent cur]) with [snd cur] by (destruct cur; reflexivity).
    rewrite (firstn_app_exact (ents_idx pre) [snd cur]), app_nil_r. reflexivity.
  - destruct E as (pre & Ep & Hn & ->). rewrite Ep, (PE pre (ent cur) Hn), ents_idx_app.
    replace (ents_idx [ent cur; nxt]) with (snd cur :: item_inds [snd nxt]) by (destruct cur, nxt as [t' [j|]]; reflexivity).
    rewrite (firstn_app_exact (ents_idx pre) (snd cur :: item_inds [snd nxt])), app_nil_r. reflexivity.
  - destruct E as (pre & Ep & Hn & ->). rewrite Ep.
    change (pre ++ [ent cur; nxt]) with (pre ++ [ent cur] ++ [nxt]). rewrite app_assoc, (PE (pre ++ [ent cur]) nxt).
    + rewrite <- app_assoc. cbn [app]. rewrite !ents_idx_app.
      replace (ents_idx [ent cur; nxt]) with (snd cur :: item_inds [snd nxt]) by (destruct cur, nxt as [t' [j|]]; reflexivity).
      replace (ents_idx [ent cur]) with [snd cur] by (destruct cur; reflexivity).
      rewrite (firstn_app_exact (ents_idx pre) (snd cur :: item_inds [snd nxt])). reflexivity.
    + intros e He. apply in_app_or in He. destruct He as [He|[<-|[]]]; [apply Hn; exact He|destruct cur; reflexivity].
  - destruct E as (pre & lst & Ep & Hn & ->). rewrite Ep, last_last, (PE pre lst Hn), ents_idx_app.
    replace (ents_idx [lst]) with (item_inds [snd lst]) by (destruct lst as [t [j|]]; reflexivity).
    rewrite (firstn_app_exact (ents_idx pre) (item_inds [snd lst])), app_nil_r. reflexivity.
  - destruct E as (pre & lst & Ep & Hn & ->). rewrite Ep, last_last, (PE pre lst Hn), ents_idx_app.
    replace (ents_idx [lst]) with (item_inds [snd lst]) by (destruct lst as [t [j|]]; reflexivity).
    rewrite (firstn_app_exact (ents_idx pre) (item_inds [snd lst])), app_nil_r. reflexivity.
Qed.

(* the test a worker is running heads what it owes *)
Lemma running_owed w : exists y, owed_w w = running w ++ y.
Proof.
  unfold owed_w, owed_main, running. destruct (wph w); eexists; cbn [app]; reflexivity.
Qed.

(* a completion is emitted exactly when a test moves to "done" (worksteal: a reply may be pending) *)
Lemma main_step_done2 o w w' evs :
  WInv w -> WX2 w -> main_step o w = Some (w', evs) ->
  done_w w' = done_w w ++ completes (flat_map we_sig evs).
Proof.
  intros I X H. pose proof (main_step_clr _ _ _ _ H) as Hc.
  pose proof (main_step_done _ _ _ _ (WInv_clr w I) (WX_clr w X) Hc) as D.
  rewrite (done_ext w' (clr w')), (done_ext w (clr w)) in D by reflexivity. exact D.
Qed.

Lemma main_step_regime o w w' evs :
  main_step o w = Some (w', evs) -> in_regime w' = true -> in_regime w = true.
Proof.
  intros H. unfold in_regime. ms_cases H; cbn [wph upd_ph w_pop set_cb add_ran]; rewrite ?P; try reflexivity; try discriminate.
Qed.

Lemma main_step_q_incl o w w' evs :
  main_step o w = Some (w', evs) -> incl (ents_idx (wq w')) (ents_idx (wq w)).
Proof.
  intros H. ms_cases H; cbn [wq upd_ph w_pop set_cb add_ran]; rewrite ?Q; try apply incl_refl.
  all: intros j Hj; match goal with |- In j (ents_idx (?e :: ?q)) => change (e :: q) with ([e] ++ q) end;
       rewrite ents_idx_app; apply in_or_app; right; exact Hj.
Qed.

(* a worker that owes nothing on the main thread's side although it has completed a test has taken
   the shutdown marker *)
Lemma owed_main_nil_markpopped w :
  WInv w -> owed_main w = [] -> done_w w <> [] -> markpopped w.
Proof.
  intros I E0 Hd. pose proof (inv_phase w I) as E. unfold phase_inv in E. unfold done_w in Hd. unfold owed_main in *.
  destruct (wph w) as [|rest| | |cur|cur nxt|cur nxt script|sfin|]; try discriminate E0.
  - destruct E as (E1 & _). rewrite E1 in Hd. exfalso. apply Hd. reflexivity.
  - destruct E as (E1 & _). rewrite E1 in Hd. exfalso. apply Hd. reflexivity.
  - destruct E as (E1 & _). rewrite E1 in Hd. exfalso. apply Hd. reflexivity.
  - destruct E as (E1 & _). rewrite E1 in Hd. exfalso. apply Hd. reflexivity.
  - destruct E as (pre & lst & Ep & _). rewrite Ep, last_last in E0. destruct lst as [t [j|]]; [discriminate|].
    exists pre, t. exact Ep.
  - destruct E as (pre & lst & Ep & _). rewrite Ep, last_last in E0. destruct lst as [t [j|]]; [discriminate|].
    exists pre, t. exact Ep.
Qed.

(* ---- the receiver thread, command by command ---- *)
Lemma nstc_cons_nosteal c cs : is_steal c = false -> nstc (c :: cs) = nstc cs.
Proof. intros H. unfold nstc. cbn [filter]. rewrite H. reflexivity. Qed.

(* recv_next either executes no withdrawal request (the commands it consumed are unpacked towards the
   queue), or it skips empty run commands and executes the request that heads the inbox *)
Lemma recv_next_shape o inbox : forall w1,
  Forall good_cmd_ws inbox -> wreply w1 = None ->
  let w' := recv_next o w1 inbox in
  (exists consumed, inbox = consumed ++ winbox w' /\ nstc consumed = 0 /\ wreply w' = None /\
     incl (ents_idx (wq w') ++ item_inds (wrpend w')) (ents_idx (wq w1) ++ flat_map cmd_inds consumed)) \/
  (exists skipped T, inbox = skipped ++ CSteal T :: winbox w' /\ flat_map cmd_inds skipped = [] /\ nstc skipped = 0 /\
     wrpend w' = [] /\ wq w' = fst (steal_q (wq w1) T) /\ wreply w' = Some (ents_idx (snd (steal_q (wq w1) T)))).
Proof.
  induction inbox as [|c r IH]; intros w1 G E0; cbv zeta.
  - left. exists []. cbn [recv_next upd_recv winbox wreply wq wrpend app flat_map item_inds].
    split; [reflexivity|]. split; [reflexivity|]. split; [exact E0|]. rewrite !app_nil_r. apply incl_refl.
  - inversion G as [|c' r' Gc Gr]; subst. destruct c as [ixs| |s| |]; try contradiction.
    + destruct ixs as [|i ixs].
      * cbn [recv_next]. destruct (IH w1 Gr E0) as [(cs & A & B & C & D)|(sk & T & A & B & C & D)].
        -- left. exists (CRun [] :: cs). split; [cbn [app]; f_equal; exact A|]. split; [rewrite nstc_cons_nosteal by reflexivity; exact B|].
           split; [exact C|exact D].
        -- right. exists (CRun [] :: sk), T. split; [cbn [app]; f_equal; exact A|]. split; [exact B|].
           split; [rewrite nstc_cons_nosteal by reflexivity; exact C|exact D].
      * left. exists [CRun (i :: ixs)].
        cbn [recv_next upd_recv w_put winbox wreply wq wrpend app flat_map cmd_inds].
        split; [reflexivity|]. split; [reflexivity|]. split; [exact E0|].
        rewrite ents_idx_app, item_inds_map_idx. cbn [ents_idx ent_idx snd app]. rewrite ?app_nil_r, <- app_assoc. apply incl_refl.
    + right. exists [], s. cbn [recv_next upd_recv winbox wrpend app flat_map]. unfold w_steal.
      destruct (steal_q (wq w1) s) as [q' st]. cbn [wq wreply fst snd]. repeat split; reflexivity.
    + left. exists [CShutdown].
      cbn [recv_next upd_recv w_put winbox wreply wq wrpend app flat_map cmd_inds item_inds].
      split; [reflexivity|]. split; [reflexivity|]. split; [exact E0|].
      rewrite ents_idx_app. cbn [ents_idx ent_idx snd app]. rewrite ?app_nil_r. apply incl_refl.
    + left. exists [CEnd].
      cbn [recv_next upd_recv w_put winbox wreply wq wrpend app flat_map cmd_inds item_inds].
      split; [reflexivity|]. split; [reflexivity|]. split; [exact E0|].
      rewrite ents_idx_app. cbn [ents_idx ent_idx snd app]. rewrite ?app_nil_r. apply incl_refl.
Qed.

Lemma recv_step_shape o w :
  Forall good_cmd_ws (winbox w) -> wcb w = true ->
  let w' := fst (recv_step o w) in
  snd (recv_step o w) = reply_ev (wreply w) /\
  ((exists consumed, winbox w = consumed ++ winbox w' /\ nstc consumed = 0 /\ wreply w' = None /\
      incl (ents_idx (wq w') ++ item_inds (wrpend w'))
           (ents_idx (wq w) ++ item_inds (wrpend w) ++ flat_map cmd_inds consumed)) \/
   (exists skipped T, wrpend w = [] /\ winbox w = skipped ++ CSteal T :: winbox w' /\
      flat_map cmd_inds skipped = [] /\ nstc skipped = 0 /\
      wrpend w' = [] /\ wq w' = fst (steal_q (wq w) T) /\ wreply w' = Some (ents_idx (snd (steal_q (wq w) T))))).
Proof.
  intros G Ecb. cbv zeta. unfold recv_step. rewrite Ecb. cbn [negb].
  fold (reply_ev (wreply w)). cbn [upd_recv wrpend winbox].
  destruct (wrpend w) as [|it rest] eqn:Er; cbn [fst snd].
  - split; [reflexivity|].
    destruct (recv_next_shape o (winbox w) (upd_recv w (winbox w) [] None) G eq_refl) as [(cs & A & B & C & D)|(sk & T & A & B & C & D & E & F)].
    + left. exists cs. split; [exact A|]. split; [exact B|]. split; [exact C|].
      cbn [upd_recv wq] in D. cbn [item_inds flat_map app]. exact D.
    + right. exists sk, T. cbn [upd_recv wq] in E, F. auto 10.
  - split; [reflexivity|]. left. exists [].
    cbn [upd_recv w_put winbox wreply wq wrpend app flat_map]. split; [reflexivity|]. split; [reflexivity|]. split; [reflexivity|].
    rewrite ents_idx_app, (item_inds_cons it rest), app_nil_r, ents_idx_one.
    rewrite <- app_assoc. apply incl_refl.
Qed.

(* ====================================================================================== *)
(* D. the token accounts and the order of the books, whole system                          *)
(* ====================================================================================== *)
(* ---- lists ---- *)
Lemma filter_notin_none B l : (forall i, In i l -> In i B) -> filter (notin B) l = [].
Proof.
  intros H. induction l as [|a l IH]; [reflexivity|]. cbn [filter].
  assert (Ha : notin B a = false).
  { destruct (notin B a) eqn:E; [|reflexivity]. apply notin_true in E. exfalso. apply E. apply H. left. reflexivity. }
  rewrite Ha. apply IH. intros i Hi. apply H. right. exact Hi.
Qed.

(* a book whose withdrawn indices B form a suffix: the rest is the book with B struck out *)
Lemma suf_front (book U V B front : list nat) :
  NoDup book -> book = U ++ V -> Permutation V B -> filter (notin B) book = front -> U = front.
Proof.
  intros ND -> P <-. rewrite filter_app.
  rewrite (filter_notin_none B V) by (intros i Hi; eapply Permutation_in; eauto).
  rewrite app_nil_r. symmetry. apply filter_notin_id. intros i Hi HB.
  apply (WorkerProofs.nodup_app_disj _ _ i ND Hi). eapply Permutation_in; [apply Permutation_sym; exact P|exact HB].
Qed.

Lemma nuns_zero_xbacks L : nuns L = 0 -> xbacks L = [].
Proof.
  unfold nuns, xbacks. induction L as [|g L IH]; [reflexivity|]. cbn [filter flat_map].
  destruct g; cbn [is_uns length]; try (intros H; cbn [app]; apply IH; exact H). discriminate.
Qed.

Lemma nrep_zero_R w : nrep (wreply w) = 0 -> R w = [].
Proof. unfold R. destruct (wreply w); [discriminate|reflexivity]. Qed.

Lemma app_split_steal (l1 l2 pre post : list cmd) T :
  l1 ++ l2 = pre ++ CSteal T :: post ->
  (exists post1, l1 = pre ++ CSteal T :: post1 /\ post = post1 ++ l2) \/
  (exists pre2, pre = l1 ++ pre2 /\ l2 = pre2 ++ CSteal T :: post).
Proof.
  revert pre. induction l1 as [|a l1 IH]; intros pre E.
  - right. exists pre. auto.
  - destruct pre as [|b pre]; cbn [app] in E.
    + injection E as -> E. left. exists l1. auto.
    + injection E as -> E. destruct (IH pre E) as [(p1 & -> & ->)|(p2 & -> & ->)]; [left; exists p1; auto|right; exists p2; auto].
Qed.

Lemma nstc_has_steal pre T post : 1 <= nstc (pre ++ CSteal T :: post).
Proof. rewrite nstc_app. unfold nstc at 2. cbn [filter is_steal length]. lia. Qed.

(* ---- the accounts ---- *)
(* completions the controller has handled, by node (ghost) *)
Definition hn (n : nat) (H : list (nat * nat)) : list nat :=
  map snd (filter (fun p => Nat.eqb (fst p) n) H).

Lemma hn_app n a b : hn n (a ++ b) = hn n a ++ hn n b.
Proof. unfold hn. rewrite filter_app, map_app. reflexivity. Qed.

Lemma hn_none n H : (forall p, In p H -> fst p <> n) -> hn n H = [].
Proof.
  intros Hn. unfold hn. induction H as [|p H IH]; [reflexivity|]. cbn [filter].
  destruct (Nat.eqb (fst p) n) eqn:E.
  - apply Nat.eqb_eq in E. exfalso. exact (Hn p (or_introl eq_refl) E).
  - apply IH. intros q Hq. apply Hn. right. exact Hq.
Qed.

Lemma hn_sum H : forall keys, NoDup keys -> sub (flat_map (fun n => hn n H) keys) (map snd H).
Proof.
  induction H as [|[k i] H IH]; intros keys ND.
  - rewrite flat_map_nil_in; [apply sub_refl|]. intros n _. reflexivity.
  - cbn [map snd].
    assert (E : forall n, hn n ((k, i) :: H) = (if Nat.eqb k n then [i] else []) ++ hn n H).
    { intros n. unfold hn. cbn [filter fst]. destruct (Nat.eqb k n); reflexivity. }
    rewrite (flat_map_ext_in _ (fun n => (if Nat.eqb k n then [i] else []) ++ hn n H) keys) by (intros n _; apply E).
    eapply sub_trans; [apply sub_perm; apply flat_map_app_perm|].
    change (i :: map snd H) with ([i] ++ map snd H). apply sub_app; [|apply IH; exact ND].
    destruct (in_dec Nat.eq_dec k keys) as [Hin|Hni].
    + apply sub_perm. apply flat_map_single; assumption.
    + rewrite flat_map_nil_in; [exists [i]; reflexivity|]. intros n Hn. destruct (Nat.eqb k n) eqn:E0; [|reflexivity].
      apply Nat.eqb_eq in E0. subst. contradiction.
Qed.

(* what the controller still hears of a worker: everything in flight, if the worker is dead *)
Definition hsx (s : sys) (n : nat) : list xsig :=
  if mem_nat n (y_dead s) then xsigs s n else hsigs_of s n.

(* the test a dead worker whose errordown has been handled was running *)
Definition DHx (s : sys) : list nat := fmkv (fun k w => if gone s k then running w else []) (y_w s).

Definition backs (s : sys) (n : nat) (w : wst) : list nat := xbacks (xsigs s n) ++ R w.
Definition sdsent_of (ws : wsstate) (n : nat) : bool :=
  match aget n (ws_nt ws) with Some f => n_sdsent f | None => false end.

(* the indices withdrawn from a worker for a reply the controller has not processed are a suffix of
   the node's book *)
Definition SUFx (s : sys) (ws : wsstate) (n : nat) (w : wst) : Prop :=
  exists U V, bkw ws n = U ++ V /\ Permutation V (backs s n w).
(* ... and not the whole book, unless the node has been told to shut down *)
Definition Kx (s : sys) (ws : wsstate) (n : nat) (w : wst) : Prop :=
  backs s n w <> [] -> length (backs s n w) < length (bkw ws n) \/ sdsent_of ws n = true.
(* a withdrawal request on its way to a worker names a proper suffix of the book, unless the main thread
   has already taken one of the named tests (the request will then be refused) *)
Definition FLx (s : sys) (ws : wsstate) (n : nat) (w : wst) : Prop :=
  forall pre T post, winbox w ++ alist_get [] n (y_down s) = pre ++ CSteal T :: post ->
    T <> [] /\
    (incl T (ents_idx (wq w) ++ item_inds (wrpend w) ++ flat_map cmd_inds pre) ->
     exists A, A <> [] /\ bkw ws n = A ++ T).
(* a dead worker whose errordown is still to come: the completions in flight, then the test it was
   running, head its book *)
Definition PREFx (s : sys) (ws : wsstate) (n : nat) (w : wst) : Prop :=
  running w <> [] ->
  exists Z, bkw ws n = xcompletes (xsigs s n) ++ running w ++ Z /\ sub (xbacks (xsigs s n)) Z.
Definition ORDN (s : sys) (ws : wsstate) (n : nat) (w : wst) : Prop :=
  if mem_nat n (y_dead s) then In n (d_active (y_d s)) -> PREFx s ws n w
  else in_regime w = true -> SUFx s ws n w /\ Kx s ws n w /\ FLx s ws n w.

(* cr: the indices reported as crashed so far; H: the completions handled so far, with their node *)
Record TS (s : sys) (H : list (nat * nat)) (cr : list nat) : Prop := {
  ts_keys : NoDup (akeys (y_w s));
  ts_rq : d_requeue (y_d s) = 0;
  ts_hw : forall p, In p H -> aget (fst p) (y_w s) <> None;
  ts_tok : forall ws, d_sched (y_d s) = StW ws ->
           match ws_coll ws with
           | None => H = [] /\ cr = []
           | Some coll => Permutation (wtokens ws ++ map snd H ++ cr) (seq 0 (length coll))
           end;
  ts_done : forall n w, aget n (y_w s) = Some w ->
            Permutation (done_w w) (hn n H ++ xcompletes (hsx s n));
  ts_dh : sub (DHx s) cr;
  ts_ord : forall ws n w, d_sched (y_d s) = StW ws -> aget n (y_w s) = Some w -> ORDN s ws n w;
}.

Lemma ORDN_ext s s' ws ws' n w :
  mem_nat n (y_dead s') = mem_nat n (y_dead s) -> d_active (y_d s') = d_active (y_d s) -> xsigs s' n = xsigs s n ->
  alist_get [] n (y_down s') = alist_get [] n (y_down s) ->
  bkw ws' n = bkw ws n -> sdsent_of ws' n = sdsent_of ws n ->
  ORDN s ws n w -> ORDN s' ws' n w.
Proof.
  intros Ed Ea Ex Edn Eb Es O. unfold ORDN, PREFx, SUFx, Kx, FLx, backs in *. rewrite Ed, Ea, Ex, Edn, Eb, Es. exact O.
Qed.

Lemma hsx_ext s s' n :
  mem_nat n (y_dead s') = mem_nat n (y_dead s) -> d_sched (y_d s') = d_sched (y_d s) -> y_evq s' = y_evq s ->
  alist_get [] n (y_up s') = alist_get [] n (y_up s) -> hsx s' n = hsx s n.
Proof.
  intros Ed Es Eq Eu. unfold hsx, hsigs_of, hsigs, xsigs. rewrite Ed, Es, Eq, Eu. reflexivity.
Qed.

Lemma aget_aset_some {V} n k (v : V) m : aget k m <> None -> aget k (aset n v m) <> None.
Proof. rewrite LoadProofs.aget_aset. destruct (Nat.eqb k n); [discriminate|auto]. Qed.

(* a step of an alive worker (or of its transport): the controller's accounts are not touched *)
Lemma TS_worker s s' n0 w0 w' H cr :
  TS s H cr ->
  aget n0 (y_w s) = Some w0 -> mem_nat n0 (y_dead s) = false ->
  y_w s' = aset n0 w' (y_w s) -> y_d s' = y_d s -> y_dead s' = y_dead s -> y_evq s' = y_evq s ->
  (forall k, k <> n0 -> alist_get [] k (y_up s') = alist_get [] k (y_up s) /\
                        alist_get [] k (y_down s') = alist_get [] k (y_down s)) ->
  Permutation (done_w w') (hn n0 H ++ xcompletes (hsx s' n0)) ->
  (forall ws, d_sched (y_d s) = StW ws -> ORDN s' ws n0 w') ->
  TS s' H cr.
Proof.
  intros [K Rq Hw Tk Dn Dh Or] Ew Hd Ey Ed Edd Eq Eoth Hdone Hord.
  assert (Ek : akeys (y_w s') = akeys (y_w s)) by (rewrite Ey; apply FifoProofs.akeys_aset_in; eapply FifoProofs.aget_some_in; eauto).
  constructor.
  - rewrite Ek. exact K.
  - rewrite Ed. exact Rq.
  - intros p Hp. rewrite Ey. apply aget_aset_some. apply Hw. exact Hp.
  - rewrite Ed. exact Tk.
  - intros n w Hn. rewrite Ey, LoadProofs.aget_aset in Hn. destruct (Nat.eqb n n0) eqn:E.
    + apply Nat.eqb_eq in E. subst n. injection Hn as <-. exact Hdone.
    + apply Nat.eqb_neq in E. rewrite (hsx_ext s s' n (f_equal (mem_nat n) Edd) (f_equal d_sched Ed) Eq (proj1 (Eoth n E))). apply Dn. exact Hn.
  - assert (E : DHx s' = DHx s).
    { unfold DHx. rewrite Ey.
      rewrite (fmkv_ext (fun k w => if gone s' k then running w else []) (fun k w => if gone s k then running w else [])).
      - apply (fmkv_aset_same _ n0 w' w0); [exact Ew|]. unfold gone. rewrite Hd. reflexivity.
      - intros k v _. unfold gone. rewrite Edd, Ed. reflexivity. }
    rewrite E. exact Dh.
  - intros ws n w Els Hn. rewrite Ed in Els. rewrite Ey, LoadProofs.aget_aset in Hn. destruct (Nat.eqb n n0) eqn:E.
    + apply Nat.eqb_eq in E. subst n. injection Hn as <-. apply Hord. exact Els.
    + apply Nat.eqb_neq in E. destruct (Eoth n E) as (E1 & E2).
      apply (ORDN_ext s s' ws ws n w (f_equal (mem_nat n) Edd) (f_equal d_active Ed)); auto.
      apply xsigs_ext; assumption.
Qed.

Lemma xcompletes_nil_in L : xcompletes L = [] -> forall i, ~ In (XComp i) L.
Proof.
  unfold xcompletes. induction L as [|g L IH]; intros H i F; [destruct F|]. destruct F as [F|F].
  - subst g. discriminate H.
  - cbn [flat_map] in H. apply app_eq_nil in H. exact (IH (proj2 H) i F).
Qed.

Lemma xcompletes_in L i : In (XComp i) L -> In i (xcompletes L).
Proof. intros H. unfold xcompletes. apply in_flat_map. exists (XComp i). split; [exact H|left; reflexivity]. Qed.

Lemma xcompletes_sub_nil L L' : (forall g, In g L' -> In g L) -> xcompletes L = [] -> xcompletes L' = [].
Proof.
  intros Hi H. destruct (xcompletes L') as [|i l] eqn:E; [reflexivity|exfalso].
  assert (Hin : In i (xcompletes L')) by (rewrite E; left; reflexivity).
  unfold xcompletes in Hin. apply in_flat_map in Hin. destruct Hin as (g & Hg & Hgi).
  destruct g as [| |i0| |]; cbn in Hgi; try contradiction. destruct Hgi as [->|[]]. exact (xcompletes_nil_in L H i (Hi _ Hg)).
Qed.

(* signals without a completion appended to a wire: the completions heard are the same *)
Lemma xcompletes_hup_app dn l l' :
  xcompletes (flat_map up_xsig l') = [] -> xcompletes (hup dn (l ++ l')) = xcompletes (hup dn l).
Proof.
  intros H. unfold hup. destruct dn; [reflexivity|]. rewrite flat_map_app, cutfin_app.
  destruct (hasfin (flat_map up_xsig l)) eqn:Ef; [reflexivity|].
  rewrite (cutfin_nofin _ Ef), xcompletes_app.
  rewrite (xcompletes_sub_nil _ (cutfin (flat_map up_xsig l')) (cutfin_incl _) H). apply app_nil_r.
Qed.

Section TokW.
Variable c : config.
Notation N := (c_numnodes c).
Notation X0 := (c_coll c).
Notation OR := (c_oracle c).
Hypothesis Hng : no_garbled c.
Hypothesis Hpos : 0 < N.

Lemma regime_alx P s ws n w :
  NodeInvW OR P s ws n w -> mem_nat n (y_dead s) = false -> in_regime w = true ->
  WInv w /\ Forall good_cmd_ws (winbox w) /\ ALX s ws n w.
Proof.
  intros (A & B & _ & D) Hd Hr. rewrite Hd in D. split; [exact A|]. split; [exact B|].
  destruct (P n); [|exact D]. exfalso. destruct D as [D1 _ _ _ _ _ _].
  unfold in_regime in Hr. destruct (sw_ph _ _ _ _ _ _ _ D1) as [E|E]; rewrite E in Hr; discriminate.
Qed.

Lemma xw_ws s ws : XW c s -> d_sched (y_d s) = StW ws ->
  exists P, DJX N X0 (y_d s) ws /\ (forall n w, aget n (y_w s) = Some w -> NodeInvW OR P s ws n w).
Proof.
  intros X Els. destruct (w_dj _ _ X) as (ws0 & P & DJd & NIs & _).
  pose proof DJd as ([Els0 _ _ _ _ _] & _). assert (ws0 = ws) by congruence. subst ws0. exists P. auto.
Qed.

(* ---- LDeliver ---- *)
Lemma ts_deliver s n0 cmd rest w0 rr H cr :
  TS s H cr -> mem_nat n0 (y_dead s) = false ->
  aget n0 (y_down s) = Some (cmd :: rest) -> aget n0 (y_w s) = Some w0 ->
  TS {| y_d := y_d s; y_evq := y_evq s; y_down := aset n0 rest (y_down s); y_up := y_up s;
        y_w := aset n0 (deliver w0 cmd) (y_w s); y_dead := y_dead s; y_result := rr |} H cr.
Proof.
  intros T Hd Edn Ew. pose proof T as [K Rq Hw Tk Dn Dh Or].
  destruct (deliver_owed2 w0 cmd) as (_ & Ep & Epop & Er & _ & _).
  match goal with |- TS ?x _ _ => set (s' := x) end.
  apply (TS_worker s s' n0 w0 (deliver w0 cmd) H cr T Ew Hd); try reflexivity.
  - intros k Hk. split; [reflexivity|]. unfold s'. cbn [y_down]. apply FifoProofs.alist_get_aset_neq. exact Hk.
  - rewrite (done_ext w0 (deliver w0 cmd) Ep Epop), (hsx_ext s s' n0); try reflexivity. apply Dn. exact Ew.
  - intros ws Els. pose proof (Or ws n0 w0 Els Ew) as O. unfold ORDN in *. change (y_dead s') with (y_dead s). rewrite Hd in *.
    rewrite (in_regime_ext w0 (deliver w0 cmd) Ep). intros Hr. destruct (O Hr) as (S1 & K1 & F1).
    assert (Eb : backs s' n0 (deliver w0 cmd) = backs s n0 w0).
    { unfold backs, R. rewrite Er. reflexivity. }
    split; [|split].
    + unfold SUFx. rewrite Eb. exact S1.
    + unfold Kx. rewrite Eb. exact K1.
    + intros pre T0 post E. apply (F1 pre T0 post).
      unfold s' in E. cbn [y_down deliver upd_recv winbox] in E. rewrite FifoProofs.alist_get_aset_eq, <- app_assoc in E.
      rewrite (alist_get_some [] _ _ _ Edn). exact E.
Qed.

Lemma xsigs_push s n0 w' evs :
  xsigs (push_up (set_w s n0 w') n0 (map (up_of_wevent c n0) evs)) n0 = xsigs s n0 ++ flat_map we_xsig evs.
Proof.
  unfold xsigs. cbn [push_up set_w y_evq y_up]. rewrite FifoProofs.alist_get_aset_eq, flat_map_app, up_xsigs_of_wevents, app_assoc.
  reflexivity.
Qed.

Lemma reply_ev_backs r : xbacks (flat_map we_xsig (reply_ev r)) = reply_inds r.
Proof. destruct r; cbn; [rewrite !app_nil_r|]; reflexivity. Qed.

Lemma niw_queue_nodup ws act n L dn w : NIW ws act n L dn w -> NoDup (owed_w w) /\ NoDup (ents_idx (wq w)).
Proof.
  intros D1. destruct (coupled_nodup _ _ _ _ _ _ (nw_nd _ _ _ _ _ _ D1) (nw_coupled _ _ _ _ _ _ D1)) as (_ & ND).
  split; [exact ND|]. unfold owed_w in ND. apply WorkerProofs.nodup_app_r in ND. apply nodup_app_l in ND. exact ND.
Qed.

(* ---- LRecvW ---- *)
Lemma ts_recvw s n0 w0 w' evs H cr :
  XW c s -> TS s H cr -> mem_nat n0 (y_dead s) = false -> aget n0 (y_w s) = Some w0 -> wcb w0 = true ->
  recv_step (OR n0) w0 = (w', evs) ->
  TS (push_up (set_w s n0 w') n0 (map (up_of_wevent c n0) evs)) H cr.
Proof.
  intros X T Hd Ew Ecb Es. pose proof T as [K Rq Hw Tk Dn Dh Or].
  destruct (w_dj _ _ X) as (ws & P & DJd & NIs & _). pose proof DJd as ([Els _ _ _ _ _] & _).
  pose proof (NIs n0 w0 Ew) as NI. pose proof NI as (Iw & Gw & _ & _).
  pose proof (recv_step_owed2 (OR n0) w0 Gw) as RS. rewrite Es in RS. cbn [fst snd] in RS.
  destruct RS as (_ & _ & Ep & Epop & _ & _ & Exc & _).
  match goal with |- TS ?x _ _ => set (s' := x) end.
  apply (TS_worker s s' n0 w0 w' H cr T Ew Hd); try reflexivity.
  - intros k Hk. split; [|reflexivity]. unfold s'. cbn [push_up set_w y_up]. apply FifoProofs.alist_get_aset_neq. exact Hk.
  - rewrite (done_ext w0 w' Ep Epop). rewrite (Dn n0 w0 Ew). apply Permutation_app_head.
    unfold hsx. change (y_dead s') with (y_dead s). rewrite Hd. unfold hsigs_of. change (y_d s') with (y_d s). rewrite Els.
    unfold hsigs. rewrite !xcompletes_app. change (y_evq s') with (y_evq s). apply Permutation_app_head.
    unfold s'. cbn [push_up set_w y_up]. rewrite FifoProofs.alist_get_aset_eq.
    rewrite xcompletes_hup_app; [reflexivity|]. rewrite up_xsigs_of_wevents. exact Exc.
  - intros ws' Els'. assert (ws' = ws) by congruence. subst ws'.
    pose proof (Or ws n0 w0 Els Ew) as O. unfold ORDN in *. change (y_dead s') with (y_dead s). rewrite Hd in *.
    rewrite (in_regime_ext w0 w' Ep). intros Hr. destruct (O Hr) as (S1 & K1 & F1).
    destruct (regime_alx _ _ _ _ _ NI Hd Hr) as (_ & _ & AX). pose proof (ax_ni _ _ _ _ AX) as D1.
    pose proof (nw_steal _ _ _ _ _ _ D1) as St. pose proof (cnt_le1 (ws_steal ws) n0) as Cle.
    pose proof (recv_step_shape (OR n0) w0 Gw Ecb) as SH. rewrite Es in SH. cbn [fst snd] in SH.
    destruct SH as (Eevs & [(cs & EA & NA & RA & IA)|(sk & T0 & Erp & EB & Isk & Nsk & Erp' & Eq' & Er')]).
    + (* no withdrawal request executed *)
      assert (Eb : backs s' n0 w' = backs s n0 w0).
      { unfold backs, s'. rewrite xsigs_push, xbacks_app, Eevs, reply_ev_backs. unfold R. rewrite RA. cbn [reply_inds].
        rewrite app_nil_r. reflexivity. }
      split; [|split].
      * unfold SUFx. rewrite Eb. exact S1.
      * unfold Kx. rewrite Eb. exact K1.
      * intros pre T1 post E. change (alist_get [] n0 (y_down s')) with (alist_get [] n0 (y_down s)) in E.
        assert (E0 : winbox w0 ++ alist_get [] n0 (y_down s) = (cs ++ pre) ++ CSteal T1 :: post).
        { rewrite EA, <- !app_assoc, E. reflexivity. }
        destruct (F1 _ _ _ E0) as (Tne & Imp). split; [exact Tne|]. intros Hin. apply Imp.
        intros i Hi. specialize (Hin i Hi). rewrite fm_cmd_app. rewrite !in_app_iff in *.
        destruct Hin as [Hq|[Hq|Hq]].
        -- assert (X1 : In i (ents_idx (wq w') ++ item_inds (wrpend w'))) by (apply in_or_app; left; exact Hq).
           apply IA in X1. rewrite !in_app_iff in X1. tauto.
        -- assert (X1 : In i (ents_idx (wq w') ++ item_inds (wrpend w'))) by (apply in_or_app; right; exact Hq).
           apply IA in X1. rewrite !in_app_iff in X1. tauto.
        -- tauto.
    + (* the request that heads the inbox is executed *)
      assert (Hn : nstc (winbox w0) = S (nstc (winbox w'))).
      { rewrite EB, nstc_app, Nsk. unfold nstc. cbn [filter is_steal length]. reflexivity. }
      assert (Z1 : nstc (alist_get [] n0 (y_down s)) = 0) by lia.
      assert (Z2 : nstc (winbox w') = 0) by lia.
      assert (Z3 : nrep (wreply w0) = 0) by lia.
      assert (Z4 : nuns (xsigs s n0) = 0) by lia.
      assert (Er0 : wreply w0 = None) by (destruct (wreply w0); [discriminate|reflexivity]).
      rewrite Er0 in Eevs. cbn [reply_ev] in Eevs. subst evs.
      destruct (steal_q (wq w0) T0) as [q' st] eqn:Esq. cbn [fst snd] in Eq', Er'.
      assert (Eb : backs s' n0 w' = ents_idx st).
      { unfold backs, s'. rewrite xsigs_push. cbn [flat_map]. rewrite app_nil_r, (nuns_zero_xbacks _ Z4).
        unfold R. rewrite Er'. reflexivity. }
      assert (E0 : winbox w0 ++ alist_get [] n0 (y_down s) = sk ++ CSteal T0 :: (winbox w' ++ alist_get [] n0 (y_down s))).
      { rewrite EB, <- app_assoc. reflexivity. }
      destruct (F1 _ _ _ E0) as (Tne & Imp).
      assert (FL' : FLx s' ws n0 w').
      { intros pre T1 post E. exfalso. change (alist_get [] n0 (y_down s')) with (alist_get [] n0 (y_down s)) in E.
        pose proof (nstc_has_steal pre T1 post) as X1. rewrite <- E, nstc_app in X1. lia. }
      destruct st as [|e0 st0].
      * split; [|split; [|exact FL']].
        -- exists (bkw ws n0), []. rewrite Eb, app_nil_r. split; [reflexivity|constructor].
        -- intros F. rewrite Eb in F. exfalso. apply F. reflexivity.
      * destruct (niw_queue_nodup _ _ _ _ _ _ D1) as (_ & NDq).
        assert (Hne : e0 :: st0 <> []) by discriminate.
        destruct (steal_success_exact _ _ _ _ NDq Esq Hne) as (Hiff & _).
        pose proof (steal_q_tokens _ _ _ _ Esq) as Pq.
        assert (Hincl : incl T0 (ents_idx (wq w0) ++ item_inds (wrpend w0) ++ flat_map cmd_inds sk)).
        { intros i Hi. apply in_or_app. left. eapply Permutation_in; [apply Permutation_sym; exact Pq|].
          apply in_or_app. right. apply Hiff. exact Hi. }
        destruct (Imp Hincl) as (A & Ane & Ebk).
        assert (NDb : NoDup (bkw ws n0)) by exact (nw_nd _ _ _ _ _ _ D1).
        assert (PT : Permutation T0 (ents_idx (e0 :: st0))).
        { apply NoDup_Permutation.
          - rewrite Ebk in NDb. apply WorkerProofs.nodup_app_r in NDb. exact NDb.
          - apply (Permutation_NoDup Pq) in NDq. apply WorkerProofs.nodup_app_r in NDq. exact NDq.
          - exact Hiff. }
        split; [|split; [|exact FL']].
        -- exists A, T0. rewrite Eb. split; [exact Ebk|exact PT].
        -- intros _. left. rewrite Eb, <- (Permutation_length PT), Ebk, app_length.
           destruct A; [contradiction|cbn; lia].
Qed.

Lemma node_wx2 P s ws n w : NodeInvW OR P s ws n w -> mem_nat n (y_dead s) = false -> WX2 w.
Proof.
  intros (_ & _ & _ & D) Hd. rewrite Hd in D. destruct (P n).
  - destruct D as [D1 _ _ _ _ _ _]. unfold WX2. destruct (sw_ph _ _ _ _ _ _ _ D1) as [E|E]; rewrite E; exact I.
  - destruct D as [D1 _ _ _ _ _]. exact (nw_wx _ _ _ _ _ _ D1).
Qed.

(* ---- LMain (the worker does not die) ---- *)
Lemma ts_main s n0 w0 w' evs H cr :
  XW c s -> TS s H cr -> mem_nat n0 (y_dead s) = false -> aget n0 (y_w s) = Some w0 ->
  main_step (OR n0) w0 = Some (w', evs) ->
  TS (push_up (set_w s n0 w') n0 (map (up_of_wevent c n0) evs)) H cr.
Proof.
  intros X T Hd Ew Es. pose proof T as [K Rq Hw Tk Dn Dh Or].
  destruct (w_dj _ _ X) as (ws & P & DJd & NIs & _). pose proof DJd as ([Els _ _ _ _ _] & _).
  pose proof (NIs n0 w0 Ew) as NI. pose proof NI as (Iw & Gw & _ & DD). rewrite Hd in DD.
  pose proof (node_wx2 _ _ _ _ _ NI Hd) as Wx.
  destruct (main_step_rank2 _ _ _ _ Wx Es) as (Hok & Hrank).
  pose proof (main_step_done2 _ _ _ _ Iw Wx Es) as Hdone.
  destruct (main_step_frame _ _ _ _ Es) as (Erp & Einb & Erep & _).
  assert (Exs : flat_map we_xsig evs = map inj (flat_map we_sig evs)) by (apply we_xsigs_inj; exact Hok).
  match goal with |- TS ?x _ _ => set (s' := x) end.
  apply (TS_worker s s' n0 w0 w' H cr T Ew Hd); try reflexivity.
  - intros k Hk. split; [|reflexivity]. unfold s'. cbn [push_up set_w y_up]. apply FifoProofs.alist_get_aset_neq. exact Hk.
  - rewrite Hdone, (Dn n0 w0 Ew), <- app_assoc. apply Permutation_app_head.
    unfold hsx. change (y_dead s') with (y_dead s). rewrite Hd. unfold hsigs_of. change (y_d s') with (y_d s). rewrite Els.
    unfold hsigs. rewrite !xcompletes_app, <- app_assoc. change (y_evq s') with (y_evq s). apply Permutation_app_head.
    unfold s'. cbn [push_up set_w y_up]. rewrite FifoProofs.alist_get_aset_eq.
    destruct (completes (flat_map we_sig evs)) as [|i l] eqn:Ecomp.
    + rewrite app_nil_r, xcompletes_hup_app; [reflexivity|]. rewrite up_xsigs_of_wevents, Exs, xcompletes_inj. exact Ecomp.
    + (* a completion is emitted: the node is heard *)
      destruct Hrank as [(E0 & _)|(g & Eg & Hsr & _ & _)]; [rewrite E0 in Ecomp; discriminate|].
      rewrite Eg in Ecomp. destruct g as [| |j|]; try discriminate Ecomp. cbn in Ecomp. injection Ecomp as Ei El.
      subst i l. cbn in Hsr.
      assert (Hph : wph w0 <> PExited /\ wph w0 <> PFinishing true).
      { split; intros F; rewrite F in Hsr; discriminate. }
      destruct (P n0) eqn:EP.
      { exfalso. destruct DD as [D1 _ _ _ _ _ _]. destruct (sw_ph _ _ _ _ _ _ _ D1) as [E|E]; tauto. }
      destruct DD as [D1 _ _ _ _ D6].
      assert (Hnd : ndown ws n0 = false).
      { unfold ndown. destruct (aget n0 (ws_nt ws)) as [f|] eqn:Ef; [|reflexivity]. destruct (n_down f) eqn:Edf; [|reflexivity].
        exfalso. destruct (D6 f eq_refl Edf) as (_ & F). tauto. }
      assert (Hnf : hasfin (flat_map up_xsig (alist_get [] n0 (y_up s))) = false).
      { destruct (hasfin _) eqn:Ef; [|reflexivity]. exfalso. apply hasfin_in in Ef. destruct Ef as (b & Hb).
        pose proof (nw_chan _ _ _ _ _ _ D1) as Ch.
        assert (Hin : In (XFin b) (xsigs s n0)) by (unfold xsigs; apply in_or_app; right; exact Hb).
        pose proof (xchan_ok_in _ _ _ Ch Hin) as Hp. unfold prec in Hp. cbn in Hp. lia. }
      rewrite Hnd. unfold hup. rewrite flat_map_app, up_xsigs_of_wevents, Exs, Eg, cutfin_app, Hnf, (cutfin_nofin _ Hnf).
      cbn [map inj]. rewrite (cutfin_small [XComp j]) by (cbn; lia). rewrite xcompletes_app. reflexivity.
  - intros ws' Els'. assert (ws' = ws) by congruence. subst ws'.
    pose proof (Or ws n0 w0 Els Ew) as O. unfold ORDN in *. change (y_dead s') with (y_dead s). rewrite Hd in *.
    intros Hr'. pose proof (main_step_regime _ _ _ _ Es Hr') as Hr. destruct (O Hr) as (S1 & K1 & F1).
    assert (Eb : backs s' n0 w' = backs s n0 w0).
    { unfold backs, s'. rewrite xsigs_push, xbacks_app, Exs, xbacks_inj, app_nil_r. unfold R. rewrite Erep. reflexivity. }
    split; [|split].
    + unfold SUFx. rewrite Eb. exact S1.
    + unfold Kx. rewrite Eb. exact K1.
    + intros pre T1 post E. change (alist_get [] n0 (y_down s')) with (alist_get [] n0 (y_down s)) in E.
      rewrite Einb in E. destruct (F1 _ _ _ E) as (Tne & Imp). split; [exact Tne|]. intros Hin. apply Imp.
      intros i Hi. specialize (Hin i Hi). rewrite Erp in Hin. rewrite !in_app_iff in *.
      destruct Hin as [Hq|Hq]; [left; exact (main_step_q_incl _ _ _ _ Es i Hq)|right; exact Hq].
Qed.

(* ---- a flag of one node changes ---- *)
Lemma upd_flag_view ws n f' :
  let ws' := upd_flagw ws n f' in
  ws_n2p ws' = ws_n2p ws /\ ws_pending ws' = ws_pending ws /\ ws_coll ws' = ws_coll ws /\
  (forall k, bkw ws' k = bkw ws k) /\ wtokens ws' = wtokens ws /\
  (forall f, aget n (ws_nt ws) = Some f -> n_sdsent f' = n_sdsent f -> forall k, sdsent_of ws' k = sdsent_of ws k) /\
  (forall f, aget n (ws_nt ws) = Some f -> n_down f' = n_down f -> forall k, ndown ws' k = ndown ws k) /\
  (forall k, k <> n -> ndown ws' k = ndown ws k).
Proof.
  cbv zeta. unfold upd_flagw. split; [reflexivity|]. split; [reflexivity|]. split; [reflexivity|]. split; [reflexivity|].
  split; [reflexivity|]. split; [|split].
  - intros f Ef Hs k. unfold sdsent_of. wsproj. rewrite LoadProofs.aget_aset. destruct (Nat.eqb k n) eqn:E; [|reflexivity].
    apply Nat.eqb_eq in E. subst k. rewrite Ef. exact Hs.
  - intros f Ef Hs k. unfold ndown. wsproj. rewrite LoadProofs.aget_aset. destruct (Nat.eqb k n) eqn:E; [|reflexivity].
    apply Nat.eqb_eq in E. subst k. rewrite Ef. exact Hs.
  - intros k Hk. unfold ndown. wsproj. rewrite LoadProofs.aget_aset. apply Nat.eqb_neq in Hk. rewrite Hk. reflexivity.
Qed.

(* the controller's state after a worker has died: at most the "channel closed" flag of the node *)
Lemma crash_d s n ws :
  d_sched (y_d s) = StW ws ->
  exists ws', d_sched (y_d (crash_worker c s n)) = StW ws' /\
    ws_coll ws' = ws_coll ws /\ (forall k, bkw ws' k = bkw ws k) /\ wtokens ws' = wtokens ws /\
    (forall k, sdsent_of ws' k = sdsent_of ws k) /\ (forall k, ndown ws' k = ndown ws k) /\
    d_active (y_d (crash_worker c s n)) = d_active (y_d s) /\ d_requeue (y_d (crash_worker c s n)) = d_requeue (y_d s).
Proof.
  intros Els. unfold crash_worker. cbn [y_d].
  assert (SAME : exists ws', d_sched (y_d s) = StW ws' /\
    ws_coll ws' = ws_coll ws /\ (forall k, bkw ws' k = bkw ws k) /\ wtokens ws' = wtokens ws /\
    (forall k, sdsent_of ws' k = sdsent_of ws k) /\ (forall k, ndown ws' k = ndown ws k) /\
    d_active (y_d s) = d_active (y_d s) /\ d_requeue (y_d s) = d_requeue (y_d s)).
  { exists ws. auto 10. }
  destruct (c_strict c); [|exact SAME].
  destruct (aget n (d_nt (y_d s))) as [f|] eqn:Ef; [|exact SAME].
  assert (Ef' : aget n (ws_nt ws) = Some f) by (unfold d_nt in Ef; rewrite Els in Ef; exact Ef).
  eexists. split; [apply d_set_nt_schedw; exact Els|].
  destruct (upd_flag_view ws n {| n_spec := n_spec f; n_down := n_down f; n_sdsent := n_sdsent f; n_closed := true |})
    as (_ & _ & A3 & A4 & A5 & A6 & A7 & _).
  split; [exact A3|]. split; [exact A4|]. split; [exact A5|]. split; [exact (A6 f Ef' eq_refl)|].
  split; [exact (A7 f Ef' eq_refl)|]. split; reflexivity.
Qed.

Lemma hsigs_view ws ws' s s' k :
  ndown ws' k = ndown ws k -> y_evq s' = y_evq s -> alist_get [] k (y_up s') = alist_get [] k (y_up s) ->
  hsigs ws' s' k = hsigs ws s k.
Proof. intros A B C0. unfold hsigs. rewrite A, B, C0. reflexivity. Qed.

(* a worker that can still die is heard in full *)
Lemma mortal_heard P s ws n w :
  NodeInvW OR P s ws n w -> mem_nat n (y_dead s) = false -> wph w <> PExited ->
  hsigs ws s n = xsigs s n /\ In n (d_active (y_d s)).
Proof.
  intros (_ & _ & _ & D) Hd Hp. rewrite Hd in D. destruct (P n).
  - destruct D as [D1 _ _ _ _ D6 _]. split.
    + assert (Hnd : ndown ws n = false).
      { unfold ndown. destruct (aget n (ws_nt ws)) as [f|] eqn:Ef; [|reflexivity]. destruct (n_down f) eqn:Edf; [|reflexivity].
        exfalso. exact (Hp (D6 f eq_refl Edf)). }
      apply hsigs_open; [exact Hnd|].
      destruct (hasfin _) eqn:Ef; [|reflexivity]. exfalso. destruct (hasfin_cutfin _ Ef) as (b & Hb).
      pose proof (sw_chan _ _ _ _ _ _ _ D1) as Ch.
      assert (Hin : In (XFin b) (hsigs ws s n)) by (unfold hsigs, hup; rewrite Hnd; apply in_or_app; right; exact Hb).
      pose proof (xchan_ok_in _ _ _ Ch Hin) as Hq. apply Hp. apply prank_4. unfold prec in Hq. cbn in Hq. lia.
    + destruct (in_dec Nat.eq_dec n (d_active (y_d s))) as [Hin|Hni]; [exact Hin|].
      destruct (sw_act _ _ _ _ _ _ _ D1 Hni) as (_ & F). contradiction.
  - split; [exact (ALX_hsigs _ _ _ _ D)|]. destruct D as [D1 _ _ _ _ _].
    destruct (in_dec Nat.eq_dec n (d_active (y_d s))) as [Hin|Hni]; [exact Hin|].
    destruct (nw_act _ _ _ _ _ _ D1 Hni) as (_ & F). contradiction.
Qed.

Lemma aget_in_amap {V} k (v : V) m : NoDup (akeys m) -> In (k, v) m -> aget k m = Some v.
Proof.
  induction m as [|[k' v'] m IH]; intros ND Hin; [destruct Hin|]. cbn [akeys map fst] in ND. inversion ND as [|x l Hn ND']; subst.
  cbn [aget]. destruct Hin as [E|Hin].
  - inv E. rewrite Nat.eqb_refl. reflexivity.
  - destruct (Nat.eqb k k') eqn:E; [|apply IH; assumption]. apply Nat.eqb_eq in E. subst k'. exfalso. apply Hn.
    unfold akeys. change k with (fst (k, v)). apply in_map. exact Hin.
Qed.

(* ---- a worker dies (LCrash, or on entering a crashing test) ---- *)
Lemma ts_crash s n0 w0 H cr :
  XW c s -> TS s H cr -> mem_nat n0 (y_dead s) = false -> aget n0 (y_w s) = Some w0 -> wph w0 <> PExited ->
  TS (crash_worker c s n0) H cr.
Proof.
  intros X T Hd Ew Hph. pose proof T as [K Rq Hw Tk Dn Dh Or].
  destruct (w_dj _ _ X) as (ws & P & DJd & NIs & _). pose proof DJd as ([Els _ _ _ _ _] & _).
  pose proof (NIs n0 w0 Ew) as NI.
  destruct (mortal_heard _ _ _ _ _ NI Hd Hph) as (Hheard & Hact).
  destruct (crash_d s n0 ws Els) as (ws' & Els' & Ec' & Eb' & Et' & Esd' & End' & Ea' & Er').
  set (s' := crash_worker c s n0) in *.
  assert (DEAD : forall k, mem_nat k (y_dead s') = Nat.eqb k n0 || mem_nat k (y_dead s)) by (intros k; reflexivity).
  assert (XS : forall k, xsigs s' k = xsigs s k).
  { intros k. unfold xsigs, s', crash_worker. cbn [y_evq y_up]. destruct (Nat.eq_dec k n0) as [->|Hk].
    - rewrite FifoProofs.alist_get_aset_eq, flat_map_app. cbn. rewrite app_nil_r. reflexivity.
    - rewrite FifoProofs.alist_get_aset_neq by exact Hk. reflexivity. }
  assert (UPK : forall k, k <> n0 -> alist_get [] k (y_up s') = alist_get [] k (y_up s)).
  { intros k Hk. unfold s', crash_worker. cbn [y_up]. apply FifoProofs.alist_get_aset_neq. exact Hk. }
  assert (DNK : forall k, k <> n0 -> alist_get [] k (y_down s') = alist_get [] k (y_down s)).
  { intros k Hk. unfold s', crash_worker. cbn [y_down]. apply FifoProofs.alist_get_aset_neq. exact Hk. }
  assert (GONE : forall k, gone s' k = gone s k).
  { intros k. unfold gone. rewrite DEAD, Ea'. destruct (Nat.eqb k n0) eqn:E; [|reflexivity].
    apply Nat.eqb_eq in E. subst k. rewrite Hd. apply mem_nat_In in Hact. rewrite Hact. reflexivity. }
  constructor.
  - exact K.
  - rewrite Er'. exact Rq.
  - exact Hw.
  - intros ws1 E1. assert (ws1 = ws') by congruence. subst ws1. rewrite Ec', Et'. exact (Tk ws Els).
  - intros k w Hk. change (y_w s') with (y_w s) in Hk. rewrite (Dn k w Hk). apply Permutation_app_head.
    unfold hsx. rewrite DEAD. destruct (Nat.eqb k n0) eqn:E.
    + apply Nat.eqb_eq in E. subst k. cbn [orb]. rewrite Hd, XS. unfold hsigs_of. rewrite Els, Hheard. reflexivity.
    + cbn [orb]. apply Nat.eqb_neq in E. destruct (mem_nat k (y_dead s)); [rewrite XS; reflexivity|].
      unfold hsigs_of. rewrite Els, Els'. rewrite (hsigs_view ws ws' s s' k (End' k) eq_refl (UPK k E)). reflexivity.
  - unfold DHx. change (y_w s') with (y_w s).
    rewrite (fmkv_ext (fun k w => if gone s' k then running w else []) (fun k w => if gone s k then running w else []));
      [exact Dh|]. intros k v _. rewrite GONE. reflexivity.
  - intros ws1 k w E1 Hk. assert (ws1 = ws') by congruence. subst ws1. change (y_w s') with (y_w s) in Hk.
    destruct (Nat.eq_dec k n0) as [->|Hne].
    + (* the worker that has just died: the test it was running heads the rest of its book *)
      assert (w = w0) by congruence. subst w. unfold ORDN. rewrite DEAD, Nat.eqb_refl. cbn [orb]. intros _ Hrun.
      assert (Hr : in_regime w0 = true).
      { unfold running in Hrun. unfold in_regime. destruct (wph w0); try reflexivity; exfalso; apply Hrun; reflexivity. }
      pose proof (Or ws n0 w0 Els Ew) as O. unfold ORDN in O. rewrite Hd in O. destruct (O Hr) as ((U & V & Ebk & PV) & _ & _).
      destruct (regime_alx _ _ _ _ _ NI Hd Hr) as (_ & _ & AX). pose proof (ax_ni _ _ _ _ AX) as D1.
      pose proof (suf_front _ _ _ _ _ (nw_nd _ _ _ _ _ _ D1) Ebk PV (nw_ord _ _ _ _ _ _ D1)) as EU.
      destruct (running_owed w0) as (y & Ey).
      rewrite XS, Eb'. exists (y ++ flat_map cmd_inds (alist_get [] n0 (y_down s)) ++ V). split.
      * rewrite Ebk, EU, Ey, <- !app_assoc. reflexivity.
      * exists (y ++ flat_map cmd_inds (alist_get [] n0 (y_down s)) ++ R w0). rewrite PV. unfold backs. permc.
    + apply (ORDN_ext s s' ws ws' k w); auto.
      rewrite DEAD. apply Nat.eqb_neq in Hne. rewrite Hne. reflexivity.
Qed.

(* ---- steps that change at most node flags other than "shutdown sent" and "down" ---- *)
Lemma TS_flagchange s s' ws ws' H cr :
  TS s H cr ->
  y_w s' = y_w s -> y_dead s' = y_dead s -> y_evq s' = y_evq s -> y_up s' = y_up s -> y_down s' = y_down s ->
  d_active (y_d s') = d_active (y_d s) -> d_requeue (y_d s') = d_requeue (y_d s) ->
  d_sched (y_d s) = StW ws -> d_sched (y_d s') = StW ws' ->
  ws_coll ws' = ws_coll ws -> (forall k, bkw ws' k = bkw ws k) -> wtokens ws' = wtokens ws ->
  (forall k, sdsent_of ws' k = sdsent_of ws k) -> (forall k, ndown ws' k = ndown ws k) ->
  TS s' H cr.
Proof.
  intros [K Rq Hw Tk Dn Dh Or] Ew Ed Eq Eu Edn Ea Er Els Els' Ec Eb Et Esd End.
  assert (XS : forall k, xsigs s' k = xsigs s k) by (intros k; unfold xsigs; rewrite Eq, Eu; reflexivity).
  constructor.
  - rewrite Ew. exact K.
  - rewrite Er. exact Rq.
  - rewrite Ew. exact Hw.
  - intros ws1 E1. assert (ws1 = ws') by congruence. subst ws1. rewrite Ec, Et. exact (Tk ws Els).
  - intros k w Hk. rewrite Ew in Hk. rewrite (Dn k w Hk). apply Permutation_app_head.
    unfold hsx. rewrite Ed, XS. destruct (mem_nat k (y_dead s)); [reflexivity|].
    unfold hsigs_of. rewrite Els, Els'.
    rewrite (hsigs_view ws ws' s s' k (End k) Eq (f_equal (alist_get [] k) Eu)). reflexivity.
  - unfold DHx. rewrite Ew.
    rewrite (fmkv_ext (fun k w => if gone s' k then running w else []) (fun k w => if gone s k then running w else []));
      [exact Dh|]. intros k v _. unfold gone. rewrite Ed, Ea. reflexivity.
  - intros ws1 k w E1 Hk. assert (ws1 = ws') by congruence. subst ws1. rewrite Ew in Hk.
    apply (ORDN_ext s s' ws ws' k w); auto; [rewrite Ed; reflexivity|rewrite Edn; reflexivity].
Qed.

Lemma ts_close_if_dead s n ws H cr :
  TS s H cr -> d_sched (y_d s) = StW ws -> TS (close_if_dead s n) H cr.
Proof.
  intros T Els. unfold close_if_dead. destruct (mem_nat n (y_dead s)); [|exact T].
  destruct (aget n (d_nt (y_d s))) as [f|] eqn:Ef; [|exact T]. destruct (n_down f) eqn:Edf; [|exact T].
  assert (Ef' : aget n (ws_nt ws) = Some f) by (unfold d_nt in Ef; rewrite Els in Ef; exact Ef).
  set (f' := {| n_spec := n_spec f; n_down := true; n_sdsent := n_sdsent f; n_closed := true |}).
  destruct (upd_flag_view ws n f') as (_ & _ & A3 & A4 & A5 & A6 & A7 & _).
  apply (TS_flagchange s _ ws (upd_flagw ws n f') H cr T); try reflexivity; auto.
  - apply d_set_nt_schedw. exact Els.
  - exact (A6 f Ef' eq_refl).
  - apply (A7 f Ef'). cbn. symmetry. exact Edf.
Qed.

(* the controller marks a node down when it reads its "finished" *)
Lemma pfr_fin_down n b d ws f d' o r :
  d_sched d = StW ws -> aget n (ws_nt ws) = Some f -> n_down f = false ->
  process_from_remote n (UEv (EFinished b)) d = (d', o, r) ->
  d' = d_set_nt d (aset n (down_flag' f) (d_nt d)).
Proof.
  intros Els Ef Edn Ep.
  assert (Ent : d_nt d = ws_nt ws) by (unfold d_nt; rewrite Els; reflexivity).
  unfold process_from_remote in Ep. rewrite mbind_get, Ent, Ef in Ep. cbn [of_opt] in Ep. rewrite mbind_ret, Edn in Ep.
  rewrite mbind_put in Ep. unfold ret in Ep. injection Ep as Ed _ _. rewrite <- Ed, Ent. reflexivity.
Qed.

Lemma up_xsig_fin m b : In (XFin b) (up_xsig m) -> exists b', m = UEv (EFinished b').
Proof.
  intros Hb. destruct m as [e|ids|sk|i ms|dec| | |]; cbn in Hb; try contradiction; try (destruct Hb as [F|[]]; discriminate).
  destruct e; cbn in Hb; try contradiction; try (destruct Hb as [F|[]]; discriminate). eauto.
Qed.

(* ---- LRecv: the controller's receiver thread reads one message ---- *)
Lemma ts_recv s n0 m rest d' outs r rr H cr :
  XW c s -> TS s H cr -> aget n0 (y_up s) = Some (m :: rest) ->
  process_from_remote n0 m (y_d s) = (d', outs, r) ->
  outs = [] /\ exists evs, r = Ok evs /\
  TS (close_if_dead (set_evq (set_d {| y_d := y_d s; y_evq := y_evq s; y_down := y_down s; y_up := aset n0 rest (y_up s);
                        y_w := y_w s; y_dead := y_dead s; y_result := rr |} d') (y_evq s ++ evs)) n0) H cr.
Proof.
  intros X T Eup Ep. pose proof T as [K Rq Hw Tk Dn Dh Or].
  pose proof X as [Lo Hi (ws & P & DJd & NIs & Pout) Eq Eu Ea Er Edead].
  pose proof DJd as ([Els J _ _ _ _] & _).
  pose proof (alist_get_some [] _ _ _ Eup) as Eup'.
  assert (HnG : n0 < d_next_gw (y_d s)).
  { destruct (Nat.lt_ge_cases n0 (d_next_gw (y_d s))) as [H0|H0]; [exact H0|].
    destruct (Hi n0 H0) as (_ & F & _). rewrite Eup' in F. discriminate. }
  destruct (aget n0 (y_w s)) as [w0|] eqn:Ew; [|exfalso; exact (Lo n0 HnG Ew)].
  destruct (aget n0 (ws_nt ws)) as [f|] eqn:Ef; [|exfalso; apply (proj2 (xj_ntk _ _ _ _ J n0) HnG); exact Ef].
  pose proof (NIs n0 w0 Ew) as NI. destruct NI as (A0 & B0 & C0 & D0).
  pose proof (Eu n0) as En. rewrite Eup' in En. inversion En as [|m1 r1 Gm Gr]; subst.
  destruct (pfr_effx X0 _ _ _ _ _ _ _ _ _ Els Ef Gm HnG Ep) as (-> & evs & -> & Hd' & Hdrop & Hsig & Hok & Hend & Hnoend).
  split; [reflexivity|]. exists evs. split; [reflexivity|].
  match goal with |- TS (close_if_dead ?x _) _ _ => set (sA := x) end.
  assert (Ent : d_nt (y_d s) = ws_nt ws) by (unfold d_nt; rewrite Els; reflexivity).
  (* the controller's state afterwards *)
  assert (DX : exists wsA, d_sched d' = StW wsA /\ ws_coll wsA = ws_coll ws /\ (forall k, bkw wsA k = bkw ws k) /\
             wtokens wsA = wtokens ws /\ (forall k, sdsent_of wsA k = sdsent_of ws k) /\
             (forall k, k <> n0 -> ndown wsA k = ndown ws k) /\
             d_active d' = d_active (y_d s) /\ d_requeue d' = d_requeue (y_d s) /\
             ((d' = y_d s /\ wsA = ws) \/
              (ndown wsA n0 = true /\ n_down f = false /\ (m = UEnd \/ exists b, m = UEv (EFinished b))))).
  { destruct Hd' as [->|(-> & Hf & Hm)].
    - exists ws. repeat (split; [auto; fail|]). left. auto.
    - exists (upd_flagw ws n0 (down_flag' f)).
      destruct (upd_flag_view ws n0 (down_flag' f)) as (_ & _ & A3 & A4 & A5 & A6 & _ & A8).
      split; [apply d_set_nt_schedw; exact Els|]. split; [exact A3|]. split; [exact A4|]. split; [exact A5|].
      split; [exact (A6 f Ef eq_refl)|]. split; [exact A8|]. split; [reflexivity|]. split; [reflexivity|].
      right. split; [|auto]. unfold ndown. rewrite aget_upd_flagw, Nat.eqb_refl. reflexivity. }
  destruct DX as (wsA & ElsA & EcA & EbA & EtA & EsdA & EndA & Eact & Erq & DCASE).
  assert (ND0 : ndown ws n0 = n_down f) by (unfold ndown; rewrite Ef; reflexivity).
  assert (SIGK : forall k, k <> n0 -> evq_xsigs k evs = []).
  { intros k Hk. destruct (n_down f) eqn:Edn.
    - destruct (Hdrop eq_refl) as (-> & _). reflexivity.
    - rewrite (Hsig eq_refl k). apply Nat.eqb_neq in Hk. rewrite Nat.eqb_sym, Hk. reflexivity. }
  assert (XSK : forall k, k <> n0 -> xsigs sA k = xsigs s k).
  { intros k Hk. unfold xsigs, sA. cbn [set_evq set_d y_evq y_up]. rewrite evq_xsigs_app, (SIGK k Hk), app_nil_r.
    rewrite FifoProofs.alist_get_aset_neq by exact Hk. reflexivity. }
  assert (HSK : forall k, k <> n0 -> hsigs wsA sA k = hsigs ws s k).
  { intros k Hk. unfold hsigs, sA. cbn [set_evq set_d y_evq y_up]. rewrite evq_xsigs_app, (SIGK k Hk), app_nil_r, (EndA k Hk).
    rewrite FifoProofs.alist_get_aset_neq by exact Hk. reflexivity. }
  assert (HEARD : n_down f = false -> xsigs sA n0 = xsigs s n0).
  { intros Edn. unfold xsigs, sA. cbn [set_evq set_d y_evq y_up].
    rewrite FifoProofs.alist_get_aset_eq, evq_xsigs_app, (Hsig Edn), Nat.eqb_refl, Eup'. cbn [flat_map]. rewrite <- app_assoc. reflexivity. }
  (* what is heard of n0 *)
  assert (XSN : mem_nat n0 (y_dead s) = true \/ in_regime w0 = true -> xsigs sA n0 = xsigs s n0).
  { intros [Hdd|Hr].
    - rewrite Hdd in D0. destruct D0 as [_ D2 _ _].
      destruct D2 as [pre g X1 X2 X3 X4 X5 X6 X7|q1 q2 X1 _ _ _ _ _ _|X1 _ _ _ _]; try congruence.
      apply HEARD. congruence.
    - assert (Hc : {mem_nat n0 (y_dead s) = true} + {mem_nat n0 (y_dead s) = false})
        by (destruct (mem_nat n0 (y_dead s)); auto).
      destruct Hc as [Hdd|Hdd].
      + rewrite Hdd in D0. destruct D0 as [_ D2 _ _].
        destruct D2 as [pre g X1 X2 X3 X4 X5 X6 X7|q1 q2 X1 _ _ _ _ _ _|X1 _ _ _ _]; try congruence.
        apply HEARD. congruence.
      + destruct (regime_alx P s ws n0 w0 (conj A0 (conj B0 (conj C0 D0))) Hdd Hr) as (_ & _ & AX).
        destruct (n_down f) eqn:Edn; [|apply HEARD; reflexivity].
        destruct (ax_down _ _ _ _ AX f Ef Edn) as (Y1 & _). destruct (Hdrop eq_refl) as (-> & _).
        rewrite Eup' in Y1. cbn [flat_map] in Y1. apply app_eq_nil in Y1. destruct Y1 as (Y1 & Y2).
        unfold xsigs, sA. cbn [set_evq set_d y_evq y_up]. rewrite FifoProofs.alist_get_aset_eq, app_nil_r, Eup'.
        cbn [flat_map]. rewrite Y1, Y2. reflexivity. }
  assert (HSN : mem_nat n0 (y_dead s) = false -> hsigs wsA sA n0 = hsigs ws s n0).
  { intros Hdd. rewrite Hdd in D0.
    assert (Hne : m <> UEnd).
    { intros ->. destruct (P n0).
      - destruct D0 as [_ _ D3 _ _ _ _]. rewrite Eup' in D3. apply D3. left. reflexivity.
      - destruct D0 as [_ _ D3 _ _ _]. rewrite Eup' in D3. apply D3. left. reflexivity. }
    unfold hsigs, sA. cbn [set_evq set_d y_evq y_up]. rewrite evq_xsigs_app, FifoProofs.alist_get_aset_eq, ND0, Eup'.
    destruct (n_down f) eqn:Edf.
    - destruct (Hdrop eq_refl) as (-> & Ed'). destruct DCASE as [(_ & ->)|(_ & F & _)]; [|discriminate].
      rewrite ND0. cbn. rewrite app_nil_r. reflexivity.
    - rewrite (Hsig eq_refl), Nat.eqb_refl, <- app_assoc. f_equal.
      destruct DCASE as [(Ed' & ->)|(Hdown & _ & [->|(b & ->)])]; [| contradiction |].
      + rewrite ND0. unfold hup. cbn [flat_map].
        assert (Hnf : hasfin (up_xsig m) = false).
        { apply nofin_hasfin. intros b Hb. destruct (up_xsig_fin m b Hb) as (b' & ->).
          pose proof (pfr_fin_down _ _ _ _ _ _ _ _ Els Ef Edf Ep) as Ex. rewrite Ed' in Ex.
          assert (Xq : aget n0 (d_nt (d_set_nt (y_d s) (aset n0 (down_flag' f) (d_nt (y_d s))))) = Some (down_flag' f)).
          { rewrite d_nt_set. apply FifoProofs.aget_aset_eq. }
          rewrite <- Ex, Ent, Ef in Xq. injection Xq as Xq. apply (f_equal n_down) in Xq. cbn in Xq. congruence. }
        rewrite cutfin_app, Hnf. reflexivity.
      + rewrite Hdown. cbn. reflexivity. }
  assert (TA : TS sA H cr).
  { constructor.
    - exact K.
    - unfold sA. cbn [set_evq set_d y_d]. rewrite Erq. exact Rq.
    - exact Hw.
    - intros ws1 E1. unfold sA in E1. cbn [set_evq set_d y_d] in E1. assert (ws1 = wsA) by congruence. subst ws1.
      rewrite EcA, EtA. exact (Tk ws Els).
    - intros k w Hk. change (y_w sA) with (y_w s) in Hk. rewrite (Dn k w Hk). apply Permutation_app_head.
      unfold hsx. change (y_dead sA) with (y_dead s). unfold hsigs_of. change (y_d sA) with d'. rewrite Els, ElsA.
      destruct (Nat.eq_dec k n0) as [->|Hne].
      + destruct (mem_nat n0 (y_dead s)) eqn:Hdd; [rewrite (XSN (or_introl eq_refl))|rewrite (HSN eq_refl)]; reflexivity.
      + rewrite (XSK k Hne), (HSK k Hne). reflexivity.
    - unfold DHx. change (y_w sA) with (y_w s).
      rewrite (fmkv_ext (fun k w => if gone sA k then running w else []) (fun k w => if gone s k then running w else []));
        [exact Dh|]. intros k v _. unfold gone. change (y_dead sA) with (y_dead s). change (y_d sA) with d'. rewrite Eact. reflexivity.
    - intros ws1 k w E1 Hk. unfold sA in E1. cbn [set_evq set_d y_d] in E1. assert (ws1 = wsA) by congruence. subst ws1.
      change (y_w sA) with (y_w s) in Hk.
      assert (EXT : xsigs sA k = xsigs s k -> ORDN sA wsA k w).
      { intros E. apply (ORDN_ext s sA ws wsA k w); auto. }
      destruct (Nat.eq_dec k n0) as [->|Hne]; [|apply EXT; apply XSK; exact Hne].
      assert (w = w0) by congruence. subst w.
      destruct (mem_nat n0 (y_dead s)) eqn:Hdd; [apply EXT; apply XSN; left; reflexivity|].
      destruct (in_regime w0) eqn:Hr; [apply EXT; apply XSN; right; reflexivity|].
      unfold ORDN. change (y_dead sA) with (y_dead s). rewrite Hdd, Hr. discriminate. }
  apply (ts_close_if_dead sA n0 wsA H cr TA). exact ElsA.
Qed.

(* ---- one controller iteration seen from one alive node whose main thread is in the loop ---- *)
Definition SUFl (book B : list nat) : Prop := exists U V, book = U ++ V /\ Permutation V B.
Definition Kl (book B : list nat) (sd : bool) : Prop := B <> [] -> length B < length book \/ sd = true.
Definition FLl (book : list nat) (cmds : list cmd) (w : wst) : Prop :=
  forall pre T post, winbox w ++ cmds = pre ++ CSteal T :: post ->
    T <> [] /\
    (incl T (ents_idx (wq w) ++ item_inds (wrpend w) ++ flat_map cmd_inds pre) ->
     exists A, A <> [] /\ book = A ++ T).

Lemma ev_cases k ev :
  (exists i ms, ev = QComplete k i ms) \/ (exists ixs, ev = QUnscheduled k ixs) \/
  ((forall b, bookmidw ev k b = b) /\ xcompletes (ev_xsigs_for k ev) = [] /\ xbacks (ev_xsigs_for k ev) = [] /\
   nuns (ev_xsigs_for k ev) = 0 /\ unsev ev k = 0).
Proof.
  destruct ev as [n|n ids|n key fl|n i|n i|n i j oc|n i ms|n ixs| |n|n sk|n];
    try (right; right; unfold ev_xsigs_for; cbn [ev_xsig bookmidw unsev];
         repeat split; try reflexivity; destruct (Nat.eqb n k); reflexivity).
  - destruct (Nat.eq_dec n k) as [->|Hne]; [left; eauto|]. right. right.
    unfold ev_xsigs_for. cbn [ev_xsig bookmidw unsev]. apply Nat.eqb_neq in Hne. rewrite Hne, (Nat.eqb_sym k n), Hne.
    repeat split; reflexivity.
  - destruct (Nat.eq_dec n k) as [->|Hne]; [right; left; eauto|]. right. right.
    unfold ev_xsigs_for. cbn [ev_xsig bookmidw unsev]. apply Nat.eqb_neq in Hne. rewrite Hne, (Nat.eqb_sym k n), Hne.
    repeat split; reflexivity.
Qed.

Lemma length_app_lt {A} (a b : list A) : a <> [] -> length b < length (a ++ b).
Proof. intros H. rewrite app_length. destruct a; [contradiction|cbn; lia]. Qed.

Lemma ctl_node_ord ws ws' act k ev L' dn cm w hnk :
  WInv w ->
  NIW ws act k (ev_xsigs_for k ev ++ L') dn w ->
  bkw ws' k = bookmidw ev k (bkw ws k) ++ flat_map cmd_inds cm ->
  cnt (ws_steal ws) k + nstc cm = cnt (ws_steal ws') k + unsev ev k ->
  (bkw ws' k <> bookmidw ev k (bkw ws k) -> length (bookmidw ev k (bkw ws k)) < 2 /\ sdsent_of ws k = false) ->
  (forall T, In (CSteal T) cm -> exists keep, bkw ws' k = keep ++ T /\ 2 <= length keep /\ T <> []) ->
  (sdsent_of ws k = true -> sdsent_of ws' k = true) ->
  Permutation (done_w w) (hnk ++ xcompletes (ev_xsigs_for k ev ++ L')) ->
  SUFl (bkw ws k) (xbacks (ev_xsigs_for k ev ++ L') ++ R w) ->
  Kl (bkw ws k) (xbacks (ev_xsigs_for k ev ++ L') ++ R w) (sdsent_of ws k) ->
  FLl (bkw ws k) dn w ->
  SUFl (bkw ws' k) (xbacks L' ++ R w) /\ Kl (bkw ws' k) (xbacks L' ++ R w) (sdsent_of ws' k) /\
  FLl (bkw ws' k) (dn ++ cm) w.
Proof.
  intros Iw D1 HBK HST GRD STL SDM DONE (U & V & Ebk & PV) K1 F1.
  set (L := ev_xsigs_for k ev ++ L') in *.
  set (B := xbacks L ++ R w) in *. set (B' := xbacks L' ++ R w).
  set (X := flat_map cmd_inds cm) in *.
  pose proof (nw_nd _ _ _ _ _ _ D1) as NDb.
  pose proof (suf_front _ _ _ _ _ NDb Ebk PV (nw_ord _ _ _ _ _ _ D1)) as EU.
  pose proof (nw_steal _ _ _ _ _ _ D1) as St. pose proof (cnt_le1 (ws_steal ws) k) as Cle.
  pose proof (cnt_le1 (ws_steal ws') k) as Cle'.
  destruct (nw_flags _ _ _ _ _ _ D1) as (f & Ef & Mk).
  assert (Esd : sdsent_of ws k = n_sdsent f) by (unfold sdsent_of; rewrite Ef; reflexivity).
  (* the book is appended to only when it is short and the node has not been told to shut down *)
  assert (NOAPP : 2 <= length (bookmidw ev k (bkw ws k)) \/ sdsent_of ws k = true -> X = []).
  { intros Hc. destruct X as [|x0 X0] eqn:EX; [reflexivity|exfalso].
    assert (Hne : bkw ws' k <> bookmidw ev k (bkw ws k)).
    { rewrite HBK. intros F. rewrite <- (app_nil_r (bookmidw ev k (bkw ws k))) in F at 2. apply app_inv_head in F. discriminate. }
    destruct (GRD Hne) as (G1 & G2). destruct Hc as [Hc|Hc]; [lia|congruence]. }
  (* a worker that has emitted a completion and owes nothing more has taken the shutdown marker *)
  assert (W1 : forall i, In i (xcompletes L) -> owed_main w = [] -> markpopped w).
  { intros i Hi Hom. apply (owed_main_nil_markpopped w Iw Hom). intros F. rewrite F in DONE.
    apply Permutation_nil in DONE. apply app_eq_nil in DONE. destruct DONE as (_ & DONE). rewrite DONE in Hi. destruct Hi. }
  assert (MP : markpopped w -> sdsent_of ws k = true /\ (forall pre T post, winbox w ++ dn <> pre ++ CSteal T :: post)).
  { intros Hm. destruct (markpopped_empty _ _ _ Hm Mk) as (_ & _ & _ & Mi & Md & Hs). split; [rewrite Esd; exact Hs|].
    intros pre T post E.
    assert (Z : flat_map cmd_marks (winbox w ++ dn) = []) by (rewrite flat_map_app, Mi, Md; reflexivity).
    rewrite E, flat_map_app in Z. apply app_eq_nil in Z. destruct Z as (_ & Z). discriminate Z. }
  (* requests that were in flight before the iteration / requests sent in the iteration *)
  assert (NEWREQ : forall pre2 T post (Q : Prop), cm = pre2 ++ CSteal T :: post ->
            T <> [] /\ (Q -> exists A, A <> [] /\ bkw ws' k = A ++ T)).
  { intros pre2 T post Q E. destruct (STL T) as (keep & E1 & E2 & E3); [rewrite E; apply in_or_app; right; left; reflexivity|].
    split; [exact E3|]. intros _. exists keep. split; [|exact E1]. destruct keep; [cbn in E2; lia|discriminate]. }
  assert (OLDREQ : forall pre T post1, winbox w ++ dn = pre ++ CSteal T :: post1 ->
            nuns L = 0 /\ nrep (wreply w) = 0 /\ B = [] /\ V = [] /\ bkw ws k = U /\ unsev ev k = 0 /\ nstc cm = 0).
  { intros pre T post1 E. pose proof (nstc_has_steal pre T post1) as X1. rewrite <- E, nstc_app in X1.
    assert (Z1 : nuns L = 0) by lia. assert (Z2 : nrep (wreply w) = 0) by lia.
    assert (EB : B = []) by (unfold B; rewrite (nuns_zero_xbacks _ Z1), (nrep_zero_R _ Z2); reflexivity).
    assert (EV : V = []) by (rewrite EB in PV; apply Permutation_nil; apply Permutation_sym; exact PV).
    split; [exact Z1|]. split; [exact Z2|]. split; [exact EB|]. split; [exact EV|].
    split; [rewrite Ebk, EV, app_nil_r; reflexivity|].
    assert (Z3 : unsev ev k <= nuns L).
    { unfold L. rewrite nuns_app, nuns_ev. lia. }
    split; lia. }
  destruct (ev_cases k ev) as [(i & ms & ->)|[(ixs & ->)|(BM & XC & XB & XN & UN)]].
  - (* a completion of this node is handled: the head of the book goes *)
    assert (EL : L = XComp i :: L') by (unfold L, ev_xsigs_for; cbn [ev_xsig]; rewrite Nat.eqb_refl; reflexivity).
    assert (EBB : B' = B) by (unfold B, B'; rewrite EL; reflexivity).
    set (front' := xcompletes L' ++ owed_w w ++ flat_map cmd_inds dn).
    assert (EU' : U = i :: front') by (rewrite EU, EL; reflexivity).
    assert (EM : bookmidw (QComplete k i ms) k (bkw ws k) = front' ++ V).
    { cbn [bookmidw]. rewrite Nat.eqb_refl, Ebk, EU'. cbn [app remove_first]. rewrite Nat.eqb_refl. reflexivity. }
    rewrite EM in HBK, NOAPP, GRD. rewrite EBB. clear EBB.
    assert (Hi : In i (xcompletes L)) by (rewrite EL; left; reflexivity).
    assert (MIDK : B <> [] -> length B < length (front' ++ V) \/ sdsent_of ws k = true).
    { intros HB. destruct front' as [|x0 fr] eqn:Efr.
      - right. unfold front' in Efr. apply app_eq_nil in Efr. destruct Efr as (_ & Efr). apply app_eq_nil in Efr.
        destruct Efr as (Eow & _). unfold owed_w in Eow. apply app_eq_nil in Eow. destruct Eow as (Eom & _).
        exact (proj1 (MP (W1 i Hi Eom))).
      - left. rewrite <- (Permutation_length PV). apply length_app_lt. discriminate. }
    assert (XNIL : B <> [] -> X = []).
    { intros HB. apply NOAPP. destruct (MIDK HB) as [Hl|Hs]; [left|right; exact Hs].
      destruct B; [contradiction|]. cbn [length] in Hl. lia. }
    split; [|split].
    + destruct B as [|b0 Bt] eqn:EB0.
      * apply Permutation_sym, Permutation_nil in PV. subst V. exists (front' ++ X), []. rewrite HBK, !app_nil_r. split; [reflexivity|constructor].
      * exists front', V. rewrite HBK, (XNIL ltac:(discriminate)), app_nil_r. split; [reflexivity|exact PV].
    + intros HB. rewrite HBK, (XNIL HB), app_nil_r. destruct (MIDK HB) as [Hl|Hs]; [left; exact Hl|right; exact (SDM Hs)].
    + intros pre T post E. rewrite app_assoc in E. destruct (app_split_steal _ _ _ _ _ E) as [(post1 & E1 & ->)|(pre2 & -> & E2)].
      * destruct (F1 _ _ _ E1) as (Tne & Imp). split; [exact Tne|]. intros Hin. destruct (Imp Hin) as (A & Ane & EA).
        destruct (OLDREQ _ _ _ E1) as (_ & _ & _ & EV & EbU & _ & _).
        destruct A as [|a0 A']; [contradiction|]. rewrite EbU, EU' in EA. cbn [app] in EA. injection EA as <- EA.
        assert (Ane' : A' <> []).
        { intros ->. cbn [app] in EA.
          (* everything left in the book is named by the request and still ahead of it: impossible *)
          assert (NDf : NoDup front').
          { rewrite Ebk, EU', EV, app_nil_r in NDb. inversion NDb; assumption. }
          assert (Eom : owed_main w = []).
          { destruct (owed_main w) as [|x0 om] eqn:Eom; [reflexivity|exfalso].
            assert (Hx : In x0 T) by (rewrite <- EA; unfold front', owed_w; rewrite Eom; apply in_or_app; right; left; reflexivity).
            specialize (Hin x0 Hx).
            assert (Htail : In x0 (ents_idx (wq w) ++ item_inds (wrpend w) ++ flat_map cmd_inds (winbox w) ++ flat_map cmd_inds dn)).
            { rewrite !in_app_iff in Hin. rewrite !in_app_iff. destruct Hin as [Hq|[Hq|Hq]]; [tauto|tauto|].
              assert (Hp : In x0 (flat_map cmd_inds (winbox w ++ dn))) by (rewrite E1, fm_cmd_app; apply in_or_app; left; exact Hq).
              rewrite fm_cmd_app in Hp. apply in_app_or in Hp. tauto. }
            unfold front', owed_w in NDf. rewrite Eom in NDf. apply WorkerProofs.nodup_app_r in NDf.
            rewrite <- !app_assoc in NDf. cbn [app] in NDf. inversion NDf as [|y ys Hn _]; subst. apply Hn. apply in_or_app. right. exact Htail. }
          exact (proj2 (MP (W1 i Hi Eom)) _ _ _ E1). }
        exists A'. split; [exact Ane'|]. rewrite HBK, EV, app_nil_r, EA.
        rewrite NOAPP; [apply app_nil_r|]. left. rewrite EV, app_nil_r, EA, app_length.
        destruct A'; [contradiction|]. destruct T; [contradiction|]. cbn [length]. lia.
      * exact (NEWREQ _ _ _ _ E2).
  - (* the reply of this node is handled: the withdrawn suffix goes *)
    assert (EL : L = XUns ixs :: L') by (unfold L, ev_xsigs_for; cbn [ev_xsig]; rewrite Nat.eqb_refl; reflexivity).
    assert (Z0 : nuns L = S (nuns L')) by (rewrite EL; reflexivity).
    assert (Z1 : nuns L' = 0) by lia. assert (Z2 : nrep (wreply w) = 0) by lia.
    assert (Z3 : nstc dn + nstc (winbox w) = 0) by lia.
    assert (EB : B = ixs).
    { unfold B. rewrite EL. cbn [xbacks flat_map]. fold (xbacks L'). rewrite (nuns_zero_xbacks _ Z1), (nrep_zero_R _ Z2), !app_nil_r. reflexivity. }
    assert (EB' : B' = []) by (unfold B'; rewrite (nuns_zero_xbacks _ Z1), (nrep_zero_R _ Z2); reflexivity).
    rewrite EB in PV.
    assert (EM : bookmidw (QUnscheduled k ixs) k (bkw ws k) = U).
    { cbn [bookmidw]. rewrite Nat.eqb_refl, Ebk. change (fun i : nat => negb (mem_nat i ixs)) with (notin ixs). rewrite filter_app.
      rewrite (filter_notin_none ixs V) by (intros j Hj; eapply Permutation_in; eauto). rewrite app_nil_r.
      apply filter_notin_id. intros j Hj Hx. rewrite Ebk in NDb.
      apply (WorkerProofs.nodup_app_disj _ _ j NDb Hj). eapply Permutation_in; [apply Permutation_sym; exact PV|exact Hx]. }
    rewrite EM in HBK. rewrite EB'.
    split; [|split].
    + exists (U ++ X), []. rewrite HBK, app_nil_r. split; [reflexivity|constructor].
    + intros F. exfalso. apply F. reflexivity.
    + intros pre T post E. rewrite app_assoc in E. destruct (app_split_steal _ _ _ _ _ E) as [(post1 & E1 & ->)|(pre2 & -> & E2)].
      * exfalso. pose proof (nstc_has_steal pre T post1) as X1. rewrite <- E1, nstc_app in X1. lia.
      * exact (NEWREQ _ _ _ _ E2).
  - (* any other event *)
    assert (EBB : B' = B) by (unfold B, B', L; rewrite xbacks_app, XB; reflexivity).
    rewrite (BM (bkw ws k)) in HBK, NOAPP, GRD. rewrite EBB. clear EBB.
    assert (XNIL : B <> [] -> X = []).
    { intros HB. apply NOAPP. destruct (K1 HB) as [Hl|Hs]; [left|right; exact Hs].
      fold B in Hl. destruct B; [contradiction|]. cbn [length] in Hl. lia. }
    split; [|split].
    + destruct B as [|b0 Bt] eqn:EB0.
      * apply Permutation_sym, Permutation_nil in PV. subst V. exists (U ++ X), []. rewrite HBK, Ebk, !app_nil_r. split; [reflexivity|constructor].
      * exists U, V. rewrite HBK, (XNIL ltac:(discriminate)), app_nil_r. split; [exact Ebk|exact PV].
    + intros HB. rewrite HBK, (XNIL HB), app_nil_r. destruct (K1 HB) as [Hl|Hs]; [left; exact Hl|right; exact (SDM Hs)].
    + intros pre T post E. rewrite app_assoc in E. destruct (app_split_steal _ _ _ _ _ E) as [(post1 & E1 & ->)|(pre2 & -> & E2)].
      * destruct (F1 _ _ _ E1) as (Tne & Imp). split; [exact Tne|]. intros Hin. destruct (Imp Hin) as (A & Ane & EA).
        exists A. split; [exact Ane|]. rewrite HBK, EA. rewrite NOAPP; [apply app_nil_r|]. left. rewrite EA, app_length.
        destruct A; [contradiction|]. destruct T; [contradiction|]. cbn [length]. lia.
      * exact (NEWREQ _ _ _ _ E2).
Qed.

(* ---- LCtl: one iteration of the controller's main loop ---- *)
Definition evH (ev : cevent) : list (nat * nat) :=
  match ev with QComplete n i _ => [(n, i)] | _ => [] end.
(* the index reported as crashed by the iteration handling [ev] *)
Definition evcr (ev : cevent) (ws : wsstate) : list nat :=
  match ev with QErrorDown n => firstn 1 (bkw ws n) | _ => [] end.

Lemma evtokx_split ev ws : evtokx ev ws = map snd (evH ev) ++ evcr ev ws.
Proof. destruct ev; reflexivity. Qed.

Lemma hn_evH k ev : hn k (evH ev) = xcompletes (ev_xsigs_for k ev).
Proof.
  unfold hn, ev_xsigs_for.
  destruct ev as [n|n ids|n key fl|n i|n i|n i j oc|n i ms|n ixs| |n|n sk|n]; cbn [evH ev_xsig filter fst map];
    try reflexivity; try (destruct (Nat.eqb n k); reflexivity).
Qed.

(* the node whose errordown heads the queue: dead, still active, nothing in flight from it *)
Lemma errd_node_quiet P s ws n q wn :
  NodeInvW OR P s ws n wn -> y_evq s = QErrorDown n :: q ->
  mem_nat n (y_dead s) = true /\ In n (d_active (y_d s)) /\ xsigs s n = [].
Proof.
  intros (_ & _ & _ & D) Eevq.
  assert (HIN : In (QErrorDown n) (y_evq s)) by (rewrite Eevq; left; reflexivity).
  assert (ERR : is_errd n (QErrorDown n) = true) by (cbn; apply Nat.eqb_refl).
  destruct (mem_nat n (y_dead s)) eqn:Hd.
  2:{ exfalso. destruct (P n).
      - destruct D as [_ _ _ D4 _ _ _]. rewrite (D4 _ HIN) in ERR. discriminate.
      - destruct D as [_ _ _ D4 _ _]. rewrite (D4 _ HIN) in ERR. discriminate. }
  split; [reflexivity|]. destruct D as [_ D2 _ _].
  destruct D2 as [pre f X1 X2 X3 X4 X5 X6 X7|q1 q2 X1 X2 X3 X4 X5 X6 X7|X1 X2 X3 X4 X5].
  - rewrite (X5 _ HIN) in ERR. discriminate.
  - split; [exact X6|]. rewrite Eevq in X2. destruct q1 as [|e1 q1'].
    + cbn [app] in X2. injection X2 as E2. unfold xsigs. rewrite X1, Eevq, evq_xsigs_cons, E2, X3. reflexivity.
    + cbn [app] in X2. injection X2 as E1 E2. subst e1. rewrite (X4 _ (or_introl eq_refl)) in ERR. discriminate.
  - rewrite (X2 _ HIN) in ERR. discriminate.
Qed.

Lemma firstn1_prefix (r Z : list nat) : length r <= 1 -> sub r (firstn 1 (r ++ Z)).
Proof.
  intros H. destruct r as [|a [|b r]]; [exists (firstn 1 Z); reflexivity|cbn; apply sub_refl|cbn in H; lia].
Qed.

Lemma running_len w : length (running w) <= 1.
Proof. unfold running. destruct (wph w); cbn; lia. Qed.

Lemma ts_ctl_core s ev q d' outs r ws H cr :
  XW c s -> TS s H cr -> y_result s = None -> y_evq s = ev :: q ->
  d_loop_once ev (y_d s) = (d', outs, r) -> d_sched (y_d s) = StW ws ->
  TS (apply_outs (set_d (set_evq s q) d') outs) (H ++ evH ev) (cr ++ evcr ev ws).
Proof.
  intros X T Eres Eevq El Els0. pose proof T as [K Rq Hw Tk Dn Dh Or].
  pose proof X as [Lo Hi (ws0 & P & DJd & NIs & Pout) Eq Eu Ea Er Edead].
  specialize (Ea Eres).
  pose proof DJd as ([Els J AL _ _ _] & _). assert (ws0 = ws) by congruence. subst ws0.
  pose proof (pre_from_invx c Hpos P s ws ev q X DJd NIs Eevq) as Hpre.
  destruct (loop_once_okx N X0 Hpos ev _ ws d' outs r DJd Hpre El) as (-> & ws' & vo & Eo & E & DJ2 & _ & _).
  destruct (loop_factsx N X0 Hpos ev _ ws d' outs _ DJd Hpre Rq El) as (ws'' & Els'' & (TOK1 & TOK2) & GRD & STL).
  pose proof DJ2 as ([Els2 J2 _ _ _ _] & _). assert (ws'' = ws') by congruence. subst ws''.
  pose proof (loop_once_requeue0 _ _ _ _ _ El Rq) as Rq'.
  pose proof (loop_once_step _ _ _ _ _ El) as (_ & _ & _ & SP).
  set (G := d_next_gw (y_d s)) in *.
  assert (SPW : (d_next_gw d' = G /\ forall id sp, ~ In (OHook (HSpawn id sp)) outs) \/
                (d_next_gw d' = S G /\ (exists sp, In (OHook (HSpawn G sp)) outs) /\
                 forall id sp, In (OHook (HSpawn id sp)) outs -> id = G)).
  { destruct SP as [(C0 & G0)|(C1 & G1 & _ & _ & sp & SPx)].
    - left. split; [exact G0|]. intros id sp Hin. pose proof (count_zero_notin _ _ _ C0 Hin) as F. discriminate.
    - right. split; [exact G1|]. split.
      + destruct (count_pos_in _ _ C1) as (x & Hx & Fx). exists sp. rewrite <- (SPx x Hx Fx). exact Hx.
      + intros id sp' Hin. specialize (SPx _ Hin eq_refl). inv SPx. reflexivity. }
  assert (SPID : forall id sp, In (OHook (HSpawn id sp)) outs -> id = G).
  { intros id sp Hin. destruct SPW as [(_ & F)|(_ & _ & B)]; [exfalso; exact (F _ _ Hin)|eapply B; eauto]. }
  assert (OUTG : forall m, G <= m -> cmds_to m outs = []).
  { intros m Hm. rewrite Eo, cmds_to_vfilter, (hx_out _ _ _ _ _ _ _ _ E m Hm). destruct (closedb (ws_nt ws) m); reflexivity. }
  set (sA := set_d (set_evq s q) d').
  set (s1 := apply_outs sA outs).
  destruct (apply_outs_frame outs sA) as (F1 & F2 & F3). cbn [sA set_d set_evq y_evq y_d y_dead] in F1, F2, F3.
  fold s1 in F1, F2, F3.
  assert (UP : forall k, alist_get [] k (y_up s1) = alist_get [] k (y_up s)).
  { intros k. unfold s1. rewrite apply_outs_up; [reflexivity|]. intros id sp Hin. rewrite (SPID _ _ Hin).
    cbn [sA set_d set_evq y_up]. apply (Hi G). unfold G. lia. }
  assert (DOWN : forall k, alist_get [] k (y_down s1) =
            if mem_nat k (y_dead s) then alist_get [] k (y_down s) else alist_get [] k (y_down s) ++ cmds_to k outs).
  { intros k. unfold s1. rewrite apply_outs_down; [reflexivity|]. intros id sp Hin. rewrite (SPID _ _ Hin).
    split; [apply OUTG; lia|]. cbn [sA set_d set_evq y_down]. apply (Hi G). unfold G. lia. }
  assert (YW : y_w s1 = if existsb is_spawn outs then aset G w_init (y_w s) else y_w s).
  { unfold s1. rewrite (apply_outs_yw_G G outs sA SPID). reflexivity. }
  assert (GN : aget G (y_w s) = None) by (apply (Hi G); unfold G; lia).
  assert (SIGS : forall k, xsigs s k = ev_xsigs_for k ev ++ xsigs s1 k).
  { intros k. rewrite (xsigs_headx s ev q k Eevq). unfold xsigs. rewrite F1, UP. reflexivity. }
  assert (NDW : forall k, k < G -> ndown ws' k = ndown ws k).
  { intros k Hk. pose proof (hx_nt _ _ _ _ _ _ _ _ E k Hk) as R0. unfold ndown.
    destruct (aget k (ws_nt ws)) as [f|], (aget k (ws_nt ws')) as [f'|]; cbn in R0; try contradiction; [|reflexivity].
    destruct (NRW_fields _ _ _ R0) as (_ & B & _). exact B. }
  assert (SDM : forall k, k < G -> sdsent_of ws k = true -> sdsent_of ws' k = true).
  { intros k Hk. pose proof (hx_nt _ _ _ _ _ _ _ _ E k Hk) as R0. unfold sdsent_of.
    destruct (aget k (ws_nt ws)) as [f|], (aget k (ws_nt ws')) as [f'|]; cbn in R0; try contradiction; [|discriminate].
    destruct (NRW_fields _ _ _ R0) as (_ & _ & _ & D & _). intros Hs. apply D. left. exact Hs. }
  assert (HSIGS : forall k, k < G -> hsigs ws s k = ev_xsigs_for k ev ++ hsigs ws' s1 k).
  { intros k Hk. rewrite (hsigs_head ws s ev q k Eevq). unfold hsigs. rewrite F1, UP, (NDW k Hk). reflexivity. }
  assert (EVOK : ok_evw X0 G ev).
  { pose proof Eq as Eq'. rewrite Forall_forall in Eq'. apply Eq'. rewrite Eevq. left. reflexivity. }
  assert (WLT : forall k w, aget k (y_w s) = Some w -> k < G).
  { intros k w Hk. destruct (Nat.lt_ge_cases k G) as [Hlt|Hge]; [exact Hlt|]. destruct (Hi k Hge) as (F & _). congruence. }
  assert (HSX : forall k w, aget k (y_w s) = Some w -> xcompletes (hsx s k) = xcompletes (ev_xsigs_for k ev) ++ xcompletes (hsx s1 k)).
  { intros k w Hk. unfold hsx. rewrite F3. destruct (mem_nat k (y_dead s)).
    - rewrite (SIGS k), xcompletes_app. reflexivity.
    - unfold hsigs_of. rewrite F2, Els, Els2, (HSIGS k (WLT k w Hk)), xcompletes_app. reflexivity. }
  assert (SG1 : xsigs s1 G = []).
  { assert (Z : xsigs s G = []).
    { unfold xsigs. destruct (Hi G (le_n _)) as (_ & UG & _). rewrite UG. cbn. rewrite app_nil_r. apply (evq_xsigs_fresh c Hpos). exact Eq. }
    pose proof (SIGS G) as Z2. rewrite Z in Z2. symmetry in Z2. apply app_eq_nil in Z2. tauto. }
  assert (DEADG : mem_nat G (y_dead s) = false).
  { apply mem_nat_false. intros Hin. specialize (Edead _ Hin). fold G in Edead. lia. }
  (* who is gone *)
  assert (GONE : forall k w, In (k, w) (y_w s) -> (forall n, ev = QErrorDown n -> k <> n) -> gone s1 k = gone s k).
  { intros k w Hin Hne. unfold gone. rewrite F3, F2. destruct (mem_nat k (y_dead s)) eqn:Hd; [|reflexivity]. cbn [andb]. f_equal.
    pose proof (aget_in_amap k w (y_w s) K Hin) as Ew.
    destruct (NIs k w Ew) as (_ & _ & _ & DD0). rewrite Hd in DD0. destruct DD0 as [D1 _ _ _].
    destruct (mem_nat k (d_active (y_d s))) eqn:Ha.
    - apply mem_nat_In in Ha. destruct (hx_act _ _ _ _ _ _ _ _ E k Ha) as [Y|[(b & Y)|Y]].
      + apply mem_nat_In. exact Y.
      + exfalso. apply (NDX_nofin _ _ _ _ b D1). rewrite (SIGS k). apply in_or_app. left.
        unfold ev_xsigs_for. rewrite Y, Nat.eqb_refl. left. reflexivity.
      + exfalso. exact (Hne k Y eq_refl).
    - apply mem_nat_false in Ha. apply mem_nat_false. intros Y.
      destruct (hx_actb _ _ _ _ _ _ _ _ E k Y) as [Z|(Z & _)]; [contradiction|].
      fold G in Z. subst k. congruence. }
  assert (DH1 : sub (fmkv (fun k w => if gone s1 k then running w else []) (y_w s)) (cr ++ evcr ev ws)).
  { destruct (classic_errd ev) as [(n & ->)|Hne].
    - assert (HnG : n < G) by (destruct EVOK as (_ & Hn); exact Hn).
      destruct (aget n (y_w s)) as [wn|] eqn:Ewn; [|exfalso; exact (Lo n HnG Ewn)].
      destruct (errd_node_quiet P s ws n q wn (NIs n wn Ewn) Eevq) as (Hdn & Han & XS0).
      destruct (hx_err _ _ _ _ _ _ _ _ E n eq_refl) as (_ & Hna').
      assert (G1 : gone s1 n = true).
      { unfold gone. rewrite F3, F2, Hdn. apply mem_nat_false in Hna'. rewrite Hna'. reflexivity. }
      assert (G0 : gone s n = false).
      { unfold gone. rewrite Hdn. apply mem_nat_In in Han. rewrite Han. reflexivity. }
      assert (RUN : sub (running wn) (firstn 1 (bkw ws n))).
      { destruct (running wn) as [|c0 rr] eqn:Erun; [exists (firstn 1 (bkw ws n)); reflexivity|].
        pose proof (Or ws n wn Els Ewn) as O. unfold ORDN in O. rewrite Hdn in O.
        destruct (O Han) as (Z & EZ & _); [rewrite Erun; discriminate|].
        rewrite XS0 in EZ. cbn [xcompletes flat_map app] in EZ. rewrite EZ, <- Erun. apply firstn1_prefix. apply running_len. }
      destruct (aset_split n wn wn (y_w s) Ewn) as (pre & post & Em & _).
      assert (NDm : NoDup (akeys (y_w s))) by exact K.
      unfold DHx in Dh. rewrite Em in Dh |- *. unfold fmkv in Dh |- *. rewrite !flat_map_app in Dh |- *.
      cbn [flat_map fst snd] in Dh |- *. rewrite G1. rewrite G0 in Dh. cbn [app] in Dh.
      assert (EXT : forall part, (forall x, In x part -> In x (y_w s) /\ fst x <> n) ->
                flat_map (fun p => if gone s1 (fst p) then running (snd p) else []) part =
                flat_map (fun p => if gone s (fst p) then running (snd p) else []) part).
      { intros part Hp. apply fm_ext_in. intros [k w] Hin. destruct (Hp _ Hin) as (A1 & A2). cbn [fst snd] in *.
        rewrite (GONE k w A1); [reflexivity|]. intros n0 E0. injection E0 as <-. exact A2. }
      assert (PRE : forall x, In x pre -> In x (y_w s) /\ fst x <> n).
      { intros x Hx. split; [rewrite Em; apply in_or_app; left; exact Hx|].
        intros F. rewrite Em in NDm. unfold akeys in NDm. rewrite map_app in NDm. cbn [map fst] in NDm.
        apply NoDup_remove_2 in NDm. apply NDm. apply in_or_app. left. rewrite <- F. apply in_map. exact Hx. }
      assert (POST : forall x, In x post -> In x (y_w s) /\ fst x <> n).
      { intros x Hx. split; [rewrite Em; apply in_or_app; right; right; exact Hx|].
        intros F. rewrite Em in NDm. unfold akeys in NDm. rewrite map_app in NDm. cbn [map fst] in NDm.
        apply NoDup_remove_2 in NDm. apply NDm. apply in_or_app. right. rewrite <- F. apply in_map. exact Hx. }
      rewrite (EXT pre PRE), (EXT post POST). cbn [evcr].
      destruct Dh as (x & Px). destruct RUN as (y & Py).
      exists (x ++ y). rewrite <- Px, <- Py. permc.
    - rewrite (fmkv_ext _ (fun k w => if gone s k then running w else [])).
      + fold (DHx s). eapply sub_trans; [exact Dh|]. apply sub_app_l.
      + intros k w Hin. rewrite (GONE k w Hin); [reflexivity|]. intros n E0. exfalso. exact (Hne n E0). }
  (* the order of the books, node by node *)
  assert (ORD1 : forall k w, aget k (y_w s) = Some w -> ORDN s1 ws' k w).
  { intros k w Hk. pose proof (WLT k w Hk) as Hlt. pose proof (NIs k w Hk) as NI.
    pose proof (Or ws k w Els Hk) as O. unfold ORDN in *. rewrite F3, F2.
    pose proof (hx_bk _ _ _ _ _ _ _ _ E k) as HBK.
    assert (NDb : NoDup (bkw ws k)) by (apply bkw_nodup; apply (xj_nd _ _ _ _ J)).
    destruct (mem_nat k (y_dead s)) eqn:Hdd.
    - (* dead, errordown still to come *)
      intros Hact' Hrun.
      assert (Hact : In k (d_active (y_d s))).
      { destruct (hx_actb _ _ _ _ _ _ _ _ E k Hact') as [Y|(Y & _)]; [exact Y|]. fold G in Y. lia. }
      assert (HNE : forall j, ev = QErrorDown j -> j <> k).
      { intros j -> ->. destruct (hx_err _ _ _ _ _ _ _ _ E k eq_refl) as (_ & F). contradiction. }
      destruct (O Hact Hrun) as (Z & EZ & SZ).
      destruct NI as (_ & _ & _ & DD). rewrite Hdd in DD. destruct DD as [_ D2 _ _].
      rewrite (bookmidx_eq ev k _ HNE) in HBK.
      rewrite (SIGS k) in EZ, SZ. rewrite HBK.
      set (Xk := flat_map cmd_inds (cmds_to k vo)).
      destruct (ev_cases k ev) as [(i & ms & ->)|[(ixs & ->)|(BM & XC & XB & _ & _)]].
      + assert (EL : ev_xsigs_for k (QComplete k i ms) = [XComp i]) by (unfold ev_xsigs_for; cbn [ev_xsig]; rewrite Nat.eqb_refl; reflexivity).
        rewrite EL in EZ, SZ. cbn [app xcompletes xbacks flat_map] in EZ, SZ. fold (xcompletes (xsigs s1 k)) in EZ. fold (xbacks (xsigs s1 k)) in SZ.
        exists (Z ++ Xk). split.
        * cbn [bookmidw]. rewrite Nat.eqb_refl, EZ. cbn [remove_first]. rewrite Nat.eqb_refl, <- !app_assoc. reflexivity.
        * eapply sub_trans; [exact SZ|apply sub_app_l].
      + assert (EL : ev_xsigs_for k (QUnscheduled k ixs) = [XUns ixs]) by (unfold ev_xsigs_for; cbn [ev_xsig]; rewrite Nat.eqb_refl; reflexivity).
        rewrite EL in EZ, SZ. cbn [app xcompletes xbacks flat_map] in EZ, SZ. fold (xcompletes (xsigs s1 k)) in EZ. fold (xbacks (xsigs s1 k)) in SZ.
        destruct SZ as (y & Py).
        assert (NDZ : NoDup ((xcompletes (xsigs s1 k) ++ running w) ++ Z)) by (rewrite <- app_assoc, <- EZ; exact NDb).
        assert (DISJ : forall j, In j (xcompletes (xsigs s1 k) ++ running w) -> ~ In j ixs).
        { intros j Hj Hx. apply (WorkerProofs.nodup_app_disj _ _ j NDZ Hj).
          eapply Permutation_in; [exact Py|]. apply in_or_app. left. apply in_or_app. left. exact Hx. }
        assert (PZ : Permutation Z (ixs ++ (xbacks (xsigs s1 k) ++ y))) by (rewrite <- Py; permc).
        assert (NDZ2 : NoDup Z) by (apply WorkerProofs.nodup_app_r in NDZ; exact NDZ).
        destruct (nodup_perm_disj ixs _ Z NDZ2 PZ) as (Hdisj & _ & _).
        pose proof (filter_withdraw ixs _ Z PZ Hdisj) as Pfil.
        exists (filter (notin ixs) Z ++ Xk). split.
        * cbn [bookmidw]. rewrite Nat.eqb_refl, EZ. change (fun i : nat => negb (mem_nat i ixs)) with (notin ixs).
          rewrite app_assoc, filter_app, (filter_notin_id ixs _ DISJ), <- !app_assoc. reflexivity.
        * eapply sub_trans; [|apply sub_app_l]. exists y. unfold notin. rewrite Pfil. reflexivity.
      + rewrite (BM (bkw ws k)). rewrite xcompletes_app, XC in EZ. rewrite xbacks_app, XB in SZ. cbn [app] in EZ, SZ.
        exists (Z ++ Xk). split; [rewrite EZ, <- !app_assoc; reflexivity|eapply sub_trans; [exact SZ|apply sub_app_l]].
    - (* alive *)
      intros Hr. destruct (O Hr) as (S1 & K1 & FL1).
      destruct (regime_alx _ _ _ _ _ NI Hdd Hr) as (Iw & _ & AX). pose proof (ax_ni _ _ _ _ AX) as D1.
      assert (Hq : no_errd k (y_evq s)) by (destruct AX as [_ _ _ D4 _ _]; exact D4).
      rewrite Eevq in Hq. destruct (no_errd_cons_inv _ _ _ Hq) as (Hev & _).
      assert (HNE : forall j, ev = QErrorDown j -> j <> k) by (apply is_errd_false; exact Hev).
      assert (CM : cmds_to k outs = cmds_to k vo) by (rewrite Eo, cmds_to_vfilter, (ax_open _ _ _ _ AX); reflexivity).
      rewrite (bookmidx_eq ev k _ HNE) in HBK.
      rewrite (SIGS k) in D1.
      assert (HST : cnt (ws_steal ws) k + nstc (cmds_to k vo) = cnt (ws_steal ws') k + unsev ev k).
      { apply (hx_steal _ _ _ _ _ _ _ _ E k). intros F. exact (HNE k F eq_refl). }
      assert (GRDk : bkw ws' k <> bookmidw ev k (bkw ws k) -> length (bookmidw ev k (bkw ws k)) < 2 /\ sdsent_of ws k = false).
      { intros Hne. rewrite <- (bookmidx_eq ev k _ HNE) in Hne |- *. destruct (GRD k Hne) as (A & f & Ef & Hf).
        split; [exact A|]. unfold sdsent_of. rewrite Ef. exact Hf. }
      assert (STLk : forall T0, In (CSteal T0) (cmds_to k vo) -> exists keep, bkw ws' k = keep ++ T0 /\ 2 <= length keep /\ T0 <> []).
      { intros T0 Hin. rewrite <- CM in Hin. apply (STL k T0). unfold cmds_to in Hin. apply in_flat_map in Hin.
        destruct Hin as (x & Hx & Hc). destruct x as [h|m0 c0| |]; cbn in Hc; try contradiction.
        destruct (Nat.eqb m0 k) eqn:Em; [|contradiction]. apply Nat.eqb_eq in Em. subst m0. destruct Hc as [->|[]]. exact Hx. }
      assert (DONEk : Permutation (done_w w) (hn k H ++ xcompletes (ev_xsigs_for k ev ++ xsigs s1 k))).
      { rewrite (Dn k w Hk). apply Permutation_app_head. unfold hsx. rewrite Hdd. unfold hsigs_of. rewrite Els.
        rewrite (ALX_hsigs _ _ _ _ AX), (SIGS k). reflexivity. }
      unfold SUFx, Kx, FLx, backs in *. rewrite (SIGS k) in S1, K1. rewrite DOWN, Hdd, CM.
      exact (ctl_node_ord ws ws' _ k ev (xsigs s1 k) _ (cmds_to k vo) w (hn k H) Iw D1 HBK HST GRDk STLk (SDM k Hlt) DONEk S1 K1 FL1). }
  constructor.
  - rewrite YW. destruct (existsb is_spawn outs); [apply akeys_aset_nodup|]; exact K.
  - rewrite F2. exact Rq'.
  - intros p Hp. apply in_app_or in Hp.
    assert (OLD : aget (fst p) (y_w s) <> None -> aget (fst p) (y_w s1) <> None).
    { intros Hn. rewrite YW. destruct (existsb is_spawn outs); [apply aget_aset_some|]; exact Hn. }
    apply OLD. destruct Hp as [Hp|Hp]; [exact (Hw p Hp)|].
    destruct ev; cbn [evH] in Hp; try contradiction. destruct Hp as [<-|[]]. cbn [fst].
    apply Lo. destruct EVOK as (_ & Hn). exact Hn.
  - rewrite F2. intros ws1 E1. assert (ws1 = ws') by congruence. subst ws1.
    pose proof (Tk ws Els) as Tks. destruct (ws_coll ws) as [coll|] eqn:Ec.
    + destruct (TOK1 coll eq_refl) as (Ec' & Pt). rewrite Ec'. rewrite <- Tks, <- Pt.
      rewrite map_app, evtokx_split. permc.
    + destruct Tks as (-> & ->).
      assert (B0 : forall m, bkw ws m = []) by (intros m; apply (ljx_nocoll_bkw N X0 _ ws m J Ec)).
      assert (EH0 : evH ev = []).
      { destruct ev; try reflexivity. cbn [PREX] in Hpre. rewrite B0 in Hpre. destruct Hpre. }
      assert (ET0 : evcr ev ws = []).
      { destruct ev; try reflexivity; cbn [evcr]. rewrite B0. reflexivity. }
      rewrite EH0, ET0. cbn [app].
      destruct (TOK2 eq_refl) as [Ec'|(c1 & Ec' & Pt)]; rewrite Ec'; [auto|]. cbn [map app]. rewrite app_nil_r. exact Pt.
  - intros k w Hk. rewrite YW in Hk. rewrite hn_app, hn_evH.
    assert (OLDK : aget k (y_w s) = Some w ->
              Permutation (done_w w) ((hn k H ++ xcompletes (ev_xsigs_for k ev)) ++ xcompletes (hsx s1 k))).
    { intros Hk0. rewrite (Dn k w Hk0), (HSX k w Hk0), app_assoc. reflexivity. }
    destruct (existsb is_spawn outs); [|exact (OLDK Hk)].
    rewrite LoadProofs.aget_aset in Hk. destruct (Nat.eqb k G) eqn:EkG; [|exact (OLDK Hk)].
    apply Nat.eqb_eq in EkG. subst k. injection Hk as <-.
    assert (HG : hn G H = []).
    { apply hn_none. intros p Hp Ep. apply (Hw p Hp). rewrite Ep. exact GN. }
    assert (EG : ev_xsigs_for G ev = []).
    { unfold ev_xsigs_for. destruct (ev_xsig ev) as [[m g]|] eqn:Eg; [|reflexivity].
      destruct (Nat.eqb m G) eqn:Em; [|reflexivity]. apply Nat.eqb_eq in Em. subst m. exfalso.
      destruct EVOK as (_ & Hn). destruct ev; cbn in Eg; try discriminate Eg; injection Eg as E1 _; cbn in Hn; lia. }
    rewrite HG, EG. cbn [app xcompletes flat_map]. unfold hsx. rewrite F3, DEADG. unfold hsigs_of. rewrite F2, Els2.
    unfold hsigs. rewrite F1, UP.
    assert (Z1 : evq_xsigs G q = []).
    { apply (evq_xsigs_fresh c Hpos). rewrite Eevq in Eq. inversion Eq; assumption. }
    destruct (Hi G (le_n _)) as (_ & UG & _). rewrite Z1, UG. unfold hup. destruct (ndown ws' G); reflexivity.
  - unfold DHx. rewrite YW. destruct (existsb is_spawn outs); [|exact DH1].
    rewrite (fmkv_new _ G w_init _ GN).
    assert (GG : gone s1 G = false) by (unfold gone; rewrite F3, DEADG; reflexivity).
    rewrite GG, app_nil_r. exact DH1.
  - rewrite F2. intros ws1 k w E1 Hk. assert (ws1 = ws') by congruence. subst ws1. rewrite YW in Hk.
    destruct (existsb is_spawn outs) eqn:Esp; [|exact (ORD1 k w Hk)].
    rewrite LoadProofs.aget_aset in Hk. destruct (Nat.eqb k G) eqn:EkG; [|exact (ORD1 k w Hk)].
    apply Nat.eqb_eq in EkG. subst k. injection Hk as <-.
    (* the replacement worker that has just been started *)
    unfold ORDN. rewrite F3, DEADG. intros _.
    assert (BKG : bkw ws' G = []).
    { destruct (hx_gw _ _ _ _ _ _ _ _ E) as [Y|(_ & _ & _ & Hnn & _)].
      - exfalso. destruct SPW as [(_ & Fno)|(A & _ & _)]; [|fold G in Y; lia].
        apply existsb_exists in Esp. destruct Esp as (x & Hx & Fx). destruct x as [h| | |]; try discriminate. destruct h; try discriminate.
        exact (Fno _ _ Hx).
      - apply bkw_none. apply LoadProofs.aget_none_keys. exact Hnn. }
    assert (BG : backs s1 G w_init = []) by (unfold backs; rewrite SG1; reflexivity).
    split; [|split].
    + exists [], []. rewrite BKG, BG. split; [reflexivity|constructor].
    + intros F. rewrite BG in F. exfalso. apply F. reflexivity.
    + intros pre T0 post E0. exfalso. rewrite DOWN, DEADG in E0. destruct (Hi G (le_n _)) as (_ & _ & DG).
      rewrite DG, (OUTG G (le_n _)) in E0. cbn in E0. destruct pre; discriminate E0.
Qed.

(* ---- states that differ at most in the result and in controller fields nothing above looks at ---- *)
Lemma TS_VE s0 s ws H cr : VE s0 s -> d_sched (y_d s0) = StW ws -> TS s0 H cr -> TS s H cr.
Proof.
  intros (A1 & A2 & A3 & A4 & A5 & A6 & A7 & A8) Els T.
  apply (TS_flagchange s0 s ws ws H cr T); auto. rewrite A6. exact Els.
Qed.

(* the index reported as crashed by the step with label l taken in state s *)
Definition crash_idxw (s : sys) (l : label) : list nat :=
  match l with
  | LCtl => match y_evq s, d_sched (y_d s) with
            | ev :: _, StW ws => evcr ev ws
            | _, _ => []
            end
  | _ => []
  end.

Lemma xw_sched s : XW c s -> exists ws, d_sched (y_d s) = StW ws.
Proof. intros X. destruct (w_dj _ _ X) as (ws & P & ([Els _ _ _ _ _] & _) & _). eauto. Qed.

Lemma step_ts_ctl s s' o w H cr :
  XW c s -> TS s H cr -> sys_step c s LCtl = Some (s', o, w) ->
  exists H', TS s' H' (cr ++ crash_idxw s LCtl).
Proof.
  intros X T HS. pose proof X as [Lo Hi (ws & P & DJd & NIs & Pout) Eq Eu Ea Er Edead].
  pose proof DJd as ([Els _ _ _ _ _] & _).
  unfold sys_step in HS. destruct (y_result s) eqn:Eres; [discriminate|].
  specialize (Ea eq_refl).
  destruct (d_active (y_d s)) as [|a0 ar] eqn:Eact; [contradiction|].
  destruct (y_evq s) as [|ev q] eqn:Eevq; [discriminate|].
  destruct (d_loop_once ev (y_d s)) as [[d' outs] r] eqn:El.
  pose proof (ts_ctl_core s ev q d' outs r ws H cr X T Eres Eevq El Els) as CORE.
  destruct (step_ctl_corex c Hpos s ev q d' outs r X Eres Eevq El) as (-> & Hfin & XC).
  set (s1 := apply_outs (set_d (set_evq s q) d') outs) in *.
  exists (H ++ evH ev). unfold crash_idxw. rewrite Eevq, Els.
  assert (XR : XW c (set_result s1 (Some RFinished))) by (apply XC; [intros e; discriminate|discriminate]).
  destruct (xw_sched _ XR) as (ws1 & Els1). cbn [set_result y_d] in Els1.
  assert (RES : forall rr, TS (set_result s1 rr) (H ++ evH ev) (cr ++ evcr ev ws)).
  { intros rr. apply (TS_VE s1 _ ws1); [unfold VE; cbn [set_result y_w y_dead y_evq y_up y_down y_d]; auto 10|exact Els1|exact CORE]. }
  destruct (d_session_finished d') eqn:Efin.
  - injection HS as <- _ _. apply RES.
  - destruct (d_active d') as [|b0 br] eqn:Eact'.
    + assert (Hsd : d_shuttingdown d' = false).
      { unfold d_session_finished in Efin. rewrite Eact', andb_true_r in Efin. exact Efin. }
      destruct (w_dj _ _ XR) as (ws2 & P2 & DJ2 & _).
      destruct (apply_outs_frame outs (set_d (set_evq s q) d')) as (F1 & F2 & F3). cbn [set_d set_evq y_evq y_d y_dead] in F1, F2, F3.
      cbn [set_result y_d] in DJ2. fold s1 in F2. rewrite F2 in DJ2.
      destruct DJ2 as ([Els2 _ _ _ Jb2 _] & _ & Jss2).
      assert (Hss : d_shouldstop d' = false).
      { apply not_true_false. intros F. rewrite (Jss2 F) in Hsd. discriminate. }
      assert (Hnn : s_nodes (d_sched d') = []).
      { rewrite Els2. cbn [s_nodes]. specialize (Jb2 Hss). rewrite Eact' in Jb2.
        destruct (ws_nodes ws2) as [|k rr]; [reflexivity|]. exfalso. apply (Jb2 k). left. reflexivity. }
      rewrite (trigger_no_nodes d' Hsd Hnn) in HS. cbn [apply_outs] in HS. injection HS as <- _ _.
      apply (TS_VE s1 _ ws1); [|exact Els1|exact CORE].
      unfold VE. cbn [set_result set_d y_w y_dead y_evq y_up y_down y_d d_set_shuttingdown d_sched d_active d_requeue].
      rewrite F2. repeat split; reflexivity.
    + injection HS as <- _ _. exact CORE.
Qed.

Lemma step_ts s l s' o w H cr :
  XW c s -> TS s H cr -> sys_step c s l = Some (s', o, w) ->
  exists H', TS s' H' (cr ++ crash_idxw s l).
Proof.
  intros X T HS. destruct l as [n0|n0|n0|n0| |n0]; [| | | |eapply step_ts_ctl; eauto|];
    exists H; cbn [crash_idxw]; rewrite app_nil_r; unfold sys_step in HS; (destruct (y_result s) eqn:Eres; [discriminate|]).
  - (* LDeliver *)
    destruct (mem_nat n0 (y_dead s)) eqn:Hd; [discriminate|].
    destruct (aget n0 (y_down s)) as [[|cmd rest]|] eqn:Ed; try discriminate.
    destruct (aget n0 (y_w s)) as [w0|] eqn:Ew; try discriminate. inv HS.
    eapply ts_deliver; eauto.
  - (* LRecvW *)
    destruct (mem_nat n0 (y_dead s)) eqn:Hd; [discriminate|].
    destruct (aget n0 (y_w s)) as [w0|] eqn:Ew; try discriminate.
    destruct (negb (wcb w0)) eqn:Ecb; [discriminate|]. apply negb_false_iff in Ecb.
    destruct (recv_step (c_oracle c n0) w0) as [w' evs] eqn:Es. inv HS.
    eapply ts_recvw; eauto.
  - (* LMain *)
    destruct (mem_nat n0 (y_dead s)) eqn:Hd; [discriminate|].
    destruct (aget n0 (y_w s)) as [w0|] eqn:Ew; try discriminate.
    destruct (dies_now c n0 w0) eqn:Edie.
    + inv HS. apply (ts_crash s n0 w0 H cr X T Hd Ew). unfold dies_now in Edie. destruct (wph w0); discriminate.
    + destruct (main_step (c_oracle c n0) w0) as [[w' evs]|] eqn:Es; [|discriminate]. inv HS.
      eapply ts_main; eauto.
  - (* LRecv *)
    destruct (aget n0 (y_up s)) as [[|m rest]|] eqn:Eup; try discriminate.
    cbn [y_d] in HS.
    destruct (process_from_remote n0 m (y_d s)) as [[d' outs] r] eqn:Ep.
    destruct (ts_recv s n0 m rest d' outs r None H cr X T Eup Ep) as (-> & evs & -> & TR).
    cbn [apply_outs] in HS. inv HS. exact TR.
  - (* LCrash *)
    destruct (mem_nat n0 (y_dead s)) eqn:Hd; [discriminate|].
    destruct (aget n0 (y_w s)) as [w0|] eqn:Ew; try discriminate.
    destruct (wph w0) eqn:Eph; try discriminate; inv HS; apply (ts_crash s n0 w0 H cr X T Hd Ew); rewrite Eph; discriminate.
Qed.

(* ---- whole runs ---- *)
Definition run_fromw (s : sys) (ls : list label) : sys :=
  fold_left (fun s l => match sys_step c s l with Some (s', _, _) => s' | None => s end) ls s.

(* the indices reported as crashed along a run, in order *)
Fixpoint crashedw (s : sys) (ls : list label) : list nat :=
  match ls with
  | [] => []
  | l :: r =>
      match sys_step c s l with
      | Some (s', _, _) => crash_idxw s l ++ crashedw s' r
      | None => crashedw s r
      end
  end.

Lemma ts_run ls : forall s cr H,
  XW c s \/ ErrStW c s -> TS s H cr ->
  (XW c (run_fromw s ls) \/ ErrStW c (run_fromw s ls)) /\ exists H', TS (run_fromw s ls) H' (cr ++ crashedw s ls).
Proof.
  induction ls as [|l ls IH]; intros s cr H G T.
  - cbn. split; [exact G|]. exists H. rewrite app_nil_r. exact T.
  - cbn [run_fromw fold_left crashedw]. fold (run_fromw). destruct (sys_step c s l) as [[[s' o] w]|] eqn:E.
    + destruct G as [X|(R0 & _)]; [|unfold sys_step in E; rewrite R0 in E; discriminate].
      destruct (step_ts s l s' o w H cr X T E) as (H1 & T1).
      pose proof (step_xw c Hng Hpos s l s' o w X E) as G1.
      destruct (IH s' _ H1 G1 T1) as (G2 & H2 & T2). split; [exact G2|]. exists H2. rewrite app_assoc. exact T2.
    + apply (IH s cr H); assumption.
Qed.

(* ---- the initial state ---- *)
Hypothesis Hmode : c_mode c = MSteal.
Hypothesis Hrq0 : c_requeue c = 0.

Lemma aget_map_const {V} (v : V) l n x : aget n (map (fun k => (k, v)) l) = Some x -> x = v.
Proof.
  induction l as [|k l IH]; cbn; [discriminate|]. destruct (Nat.eqb n k); [intros E; inv E; reflexivity|exact IH].
Qed.

Lemma TS_init : TS (sys_init c) [] [].
Proof.
  assert (ES : d_sched (y_d (sys_init c)) = StW (ws_init (init_nt c) N)).
  { cbn [sys_init y_d d_sched]. rewrite Hmode. reflexivity. }
  assert (XS : forall n, xsigs (sys_init c) n = []).
  { intros n. unfold xsigs. cbn [sys_init y_evq y_up]. rewrite alist_get_map_nil. reflexivity. }
  constructor.
  - cbn [sys_init y_w]. rewrite (akeys_map_seq (fun _ => w_init)). apply seq_NoDup.
  - exact Hrq0.
  - intros p [].
  - intros ws Els. rewrite ES in Els. injection Els as <-. cbn [ws_init ws_coll]. auto.
  - intros n w Hn. cbn [sys_init y_w] in Hn. apply aget_map_const in Hn. subst w.
    unfold hsx. cbn [sys_init y_dead mem_nat existsb]. unfold hsigs_of. rewrite ES. unfold hsigs.
    cbn [sys_init y_evq y_up]. rewrite alist_get_map_nil. cbn. unfold hup. destruct (ndown _ n); reflexivity.
  - unfold DHx. cbn [sys_init y_w]. rewrite (fmkv_const_nil _ w_init); [apply sub_refl|].
    intros k. unfold gone. cbn [sys_init y_dead mem_nat existsb andb]. reflexivity.
  - intros ws n w Els Hn. rewrite ES in Els. injection Els as <-. cbn [sys_init y_w] in Hn. apply aget_map_const in Hn. subst w.
    unfold ORDN. cbn [sys_init y_dead mem_nat existsb]. intros _.
    assert (BK : bkw (ws_init (init_nt c) N) n = []) by reflexivity.
    assert (BS : backs (sys_init c) n w_init = []) by (unfold backs; rewrite XS; reflexivity).
    split; [|split].
    + exists [], []. rewrite BK, BS. split; [reflexivity|constructor].
    + intros F. rewrite BS in F. exfalso. apply F. reflexivity.
    + intros pre T0 post E0. exfalso. cbn [sys_init y_down w_init winbox app] in E0. rewrite alist_get_map_nil in E0.
      destruct pre; discriminate E0.
Qed.

(* ====================================================================================== *)
(* E. the statements, for one reachable state                                              *)
(* ====================================================================================== *)
Lemma fm_superset2 (f : nat -> list nat) (K0 : list nat) : forall K,
  NoDup K0 -> NoDup K -> incl K0 K -> (forall k, In k K -> ~ In k K0 -> f k = []) ->
  Permutation (flat_map f K) (flat_map f K0).
Proof.
  induction K0 as [|a K0 IH]; intros K ND0 ND Hi Hz.
  - rewrite flat_map_nil_in; [reflexivity|]. intros k Hk. apply Hz; [exact Hk|intros []].
  - inversion ND0 as [|a' l' Ha ND0']; subst.
    assert (Hin : In a K) by (apply Hi; left; reflexivity).
    destruct (in_split _ _ Hin) as (l1 & l2 & ->).
    assert (ND' : NoDup (l1 ++ l2)) by (eapply NoDup_remove_1; eauto).
    assert (Hna : ~ In a (l1 ++ l2)) by (eapply NoDup_remove_2; eauto).
    rewrite flat_map_app. cbn [flat_map]. rewrite <- (IH (l1 ++ l2) ND0' ND').
    + rewrite flat_map_app. permc.
    + intros k Hk. assert (Hk' : In k (l1 ++ a :: l2)) by (apply Hi; right; exact Hk).
      apply in_app_or in Hk'. apply in_or_app. destruct Hk' as [X|[X|X]]; auto. subst k. contradiction.
    + intros k Hk Hnk. apply Hz.
      * apply in_app_or in Hk. apply in_or_app. destruct Hk; [left|right; right]; assumption.
      * intros [X|X]; [subst k; contradiction|contradiction].
Qed.

Lemma fmkv_app_perm2 {V} (g1 g2 : nat -> V -> list nat) (m : amap V) :
  Permutation (fmkv (fun k v => g1 k v ++ g2 k v) m) (fmkv g1 m ++ fmkv g2 m).
Proof.
  induction m as [|[k v] m IH]; [reflexivity|]. unfold fmkv in *. cbn [flat_map fst snd]. permc_with IH.
Qed.

Lemma hn_sum_exact H : forall keys, NoDup keys -> (forall p, In p H -> In (fst p) keys) ->
  Permutation (flat_map (fun n => hn n H) keys) (map snd H).
Proof.
  induction H as [|[k i] H IH]; intros keys ND Hin.
  - rewrite flat_map_nil_in; [reflexivity|]. intros n _. reflexivity.
  - cbn [map snd].
    assert (E : forall n, hn n ((k, i) :: H) = (if Nat.eqb k n then [i] else []) ++ hn n H).
    { intros n. unfold hn. cbn [filter fst]. destruct (Nat.eqb k n); reflexivity. }
    rewrite (flat_map_ext_in _ (fun n => (if Nat.eqb k n then [i] else []) ++ hn n H) keys) by (intros n _; apply E).
    rewrite flat_map_app_perm. change (i :: map snd H) with ([i] ++ map snd H). apply Permutation_app.
    + apply flat_map_single; [exact ND|]. apply (Hin (k, i)). left. reflexivity.
    + apply IH; [exact ND|]. intros p Hp. apply Hin. right. exact Hp.
Qed.

Lemma sub_split (a b : list nat) : NoDup b -> sub a b -> Permutation b (a ++ filter (notin a) b).
Proof.
  intros ND (x & Px). assert (P : Permutation b (a ++ x)) by (symmetry; exact Px).
  destruct (nodup_perm_disj a x b ND P) as (Hd & _ & _).
  rewrite (filter_withdraw a x b P Hd). exact P.
Qed.

(* the rest of node k's book once the completions the controller still hears are taken off: what the worker
   holds (frozen state if dead), what is on its wire down (or was lost there), and the indices withdrawn
   from it for a reply that the controller has not processed *)
Definition restw (s : sys) (ws : wsstate) (k : nat) : list nat :=
  filter (notin (xcompletes (hsx s k))) (bkw ws k).
(* per worker: the tests it completed ++ the rest of its book *)
Definition holdingsw (s : sys) : list nat :=
  match d_sched (y_d s) with
  | StW ws => fmkv (fun k w => done_w w ++ restw s ws k) (y_w s)
  | _ => []
  end.

Lemma xsigs_nil_done s n : alist_get [] n (y_up s) = [] -> evq_xsigs n (y_evq s) = [] -> xsigs s n = [].
Proof. intros A B. unfold xsigs. rewrite A, B. reflexivity. Qed.

Lemma sub_perm_l a a' b : Permutation a a' -> sub a' b -> sub a b.
Proof. intros P S. eapply sub_trans; [apply sub_perm; exact P|exact S]. Qed.
Lemma sub_perm_r a b b' : Permutation b b' -> sub a b' -> sub a b.
Proof. intros P S. eapply sub_trans; [exact S|apply sub_perm; symmetry; exact P]. Qed.

(* one worker: what it has started is handled, or in its book, or its crash item; the completions
   still heard are in its book *)
Lemma node_account P s ws n w H cr :
  TS s H cr -> d_sched (y_d s) = StW ws -> aget n (y_w s) = Some w -> NodeInvW OR P s ws n w ->
  sub (done_w w ++ running w) (hn n H ++ bkw ws n ++ (if gone s n then running w else [])) /\
  sub (xcompletes (hsx s n)) (bkw ws n).
Proof.
  intros [K Rq Hw Tk Dn Dh Or] Els Ew NI. pose proof (Dn n w Ew) as PD. pose proof (Or ws n w Els Ew) as O.
  destruct NI as (Iw & _ & _ & D). unfold hsx in *. unfold ORDN in O. unfold gone.
  assert (Hc : {mem_nat n (y_dead s) = true} + {mem_nat n (y_dead s) = false}) by (destruct (mem_nat n (y_dead s)); auto).
  destruct Hc as [Hd|Hd]; rewrite Hd in *.
  - destruct D as [_ D2 _ _].
    assert (ACT : forall st, In n (d_active (y_d s)) -> NDXcpl st ws n (xsigs s n) w ->
      sub (done_w w ++ running w) (hn n H ++ bkw ws n ++ (if true && negb (mem_nat n (d_active (y_d s))) then running w else [])) /\
      sub (xcompletes (xsigs s n)) (bkw ws n)).
    { intros st Hact (Sb & _ & _). pose proof Hact as Hact'. apply mem_nat_In in Hact'. rewrite Hact'. cbn [negb andb]. rewrite app_nil_r.
      assert (S2 : sub (xcompletes (xsigs s n)) (bkw ws n)) by (eapply sub_trans; [apply sub_app_l|exact Sb]).
      split; [|exact S2].
      apply (sub_perm_l _ ((hn n H ++ xcompletes (xsigs s n)) ++ running w)); [apply Permutation_app_tail; exact PD|].
      rewrite <- app_assoc. apply sub_app; [apply sub_refl|].
      destruct (running w) as [|c0 rr] eqn:Erun; [rewrite app_nil_r; exact S2|].
      assert (Hrn : c0 :: rr <> []) by discriminate. unfold PREFx in O. rewrite Erun in O.
      destruct (O Hact Hrn) as (Z & EZ & _). rewrite EZ, app_assoc. apply sub_app_l. }
    destruct D2 as [pre f X1 X2 X3 X4 X5 X6 X7|q1 q2 X1 X2 X3 X4 X5 X6 X7|X1 X2 X3 X4 X5].
    + exact (ACT _ X6 X7).
    + exact (ACT _ X6 X7).
    + apply mem_nat_false in X4. rewrite X4. cbn [negb andb]. rewrite (xsigs_nil_done s n X1 X3) in *.
      cbn [xcompletes flat_map] in *. rewrite app_nil_r in PD. split; [|exists (bkw ws n); reflexivity].
      apply (sub_perm_l _ (hn n H ++ running w)); [apply Permutation_app_tail; exact PD|].
      apply sub_app; [apply sub_refl|apply sub_app_r].
  - cbn [andb]. rewrite app_nil_r. unfold hsigs_of in *. rewrite Els in *. destruct (P n).
    + destruct D as [D1 _ _ _ _ _ _]. pose proof (sw_sub _ _ _ _ _ _ _ D1) as Sb.
      assert (S2 : sub (xcompletes (hsigs ws s n)) (bkw ws n)) by (eapply sub_trans; [apply sub_app_l|exact Sb]).
      assert (Er : running w = []).
      { unfold running. destruct (sw_ph _ _ _ _ _ _ _ D1) as [E0|E0]; rewrite E0; reflexivity. }
      split; [|exact S2]. rewrite Er, app_nil_r. apply (sub_perm_l _ _ _ PD). apply sub_app; [apply sub_refl|exact S2].
    + pose proof (ALX_hsigs _ _ _ _ D) as EH. rewrite EH in *. destruct D as [D1 _ _ _ _ _].
      pose proof (nw_coupled _ _ _ _ _ _ D1) as Cp. destruct (running_owed w) as (y & Ey).
      split.
      * apply (sub_perm_l _ ((hn n H ++ xcompletes (xsigs s n)) ++ running w)); [apply Permutation_app_tail; exact PD|].
        rewrite <- app_assoc. apply sub_app; [apply sub_refl|]. apply (sub_perm_r _ _ _ Cp).
        rewrite Ey, <- !app_assoc, app_assoc. apply sub_app_l.
      * apply (sub_perm_r _ _ _ Cp). apply sub_app_l.
Qed.

(* the books, node by node, summed over all worker ids *)
Lemma books_by_keys s ws :
  XW c s -> NoDup (akeys (y_w s)) -> d_sched (y_d s) = StW ws ->
  Permutation (flat_map (bkw ws) (akeys (y_w s))) (wbooks ws).
Proof.
  intros X K Els. pose proof X as [Lo _ _ _ _ _ _ _]. destruct (xw_ws s ws X Els) as (P & ([_ J _ _ _ _] & _) & _).
  assert (E1 : wbooks ws = flat_map (bkw ws) (ws_nodes ws)).
  { unfold StealProofs.books, ws_nodes.
    pose proof (flat_map_keys_vals (fun v : list nat => v) (ws_n2p ws) (xj_wf _ _ _ _ J)) as FK. cbn beta in FK.
    transitivity (flat_map (fun p : nat * list nat => snd p) (ws_n2p ws)); [reflexivity|]. rewrite <- FK.
    apply flat_map_ext_in. intros k _. unfold bkw, alist_get. destruct (aget k (ws_n2p ws)); reflexivity. }
  rewrite E1. apply fm_superset2; [exact (xj_wf _ _ _ _ J)|exact K| |].
  - intros k Hk. apply LoadProofs.aget_In_keys. apply Lo. exact (xj_nodes _ _ _ _ J k Hk).
  - intros k _ Hk. apply bkw_none. apply LoadProofs.aget_none_keys. exact Hk.
Qed.

Lemma worker_in s k w : NoDup (akeys (y_w s)) -> In (k, w) (y_w s) -> aget k (y_w s) = Some w.
Proof. intros K Hin. apply aget_in_amap; assumption. Qed.

(* what was started is accounted for: handled, or in a book, or reported as crashed *)
Lemma started_sub_w s ws H cr :
  XW c s -> TS s H cr -> d_sched (y_d s) = StW ws -> sub (started s) (map snd H ++ wbooks ws ++ cr).
Proof.
  intros X T Els. pose proof T as [K Rq Hw Tk Dn Dh Or]. destruct (xw_ws s ws X Els) as (P & _ & NIs).
  assert (S1 : sub (started s) (fmkv (fun k w => hn k H ++ bkw ws k ++ (if gone s k then running w else [])) (y_w s))).
  { unfold started. apply (sub_fmkv (fun _ w => map (fun r => snd (fst r)) (wran w))). intros k w Hin.
    pose proof (worker_in s k w K Hin) as Ew. pose proof (NIs k w Ew) as NI. pose proof NI as (Iw & _).
    rewrite (wran_done_running w Iw). exact (proj1 (node_account P s ws k w H cr T Els Ew NI)). }
  eapply sub_trans; [exact S1|].
  eapply sub_perm_l; [apply fmkv_app_perm2|]. apply sub_app.
  - rewrite (fmkv_keyfun (fun k => hn k H)). apply hn_sum. exact K.
  - eapply sub_perm_l; [apply fmkv_app_perm2|]. apply sub_app.
    + rewrite (fmkv_keyfun (bkw ws)). apply sub_perm. apply books_by_keys; assumption.
    + exact Dh.
Qed.

(* no test is started twice *)
Lemma started_nodup_w s H cr : XW c s -> TS s H cr -> NoDup (started s).
Proof.
  intros X T. destruct (xw_sched s X) as (ws & Els). pose proof (started_sub_w s ws H cr X T Els) as S1.
  pose proof (ts_tok _ _ _ T ws Els) as Tk. destruct (ws_coll ws) as [coll|] eqn:Ec.
  - eapply sub_nodup; [|apply (seq_NoDup (length coll) 0)]. eapply sub_trans; [exact S1|].
    exists (ws_pending ws). rewrite <- Tk. unfold StealProofs.tokens. permc.
  - destruct Tk as (-> & ->). destruct (xw_ws s ws X Els) as (P & ([_ J _ _ _ _] & _) & _).
    pose proof (xj_b0 _ _ _ _ J Ec) as T0. unfold StealProofs.tokens in T0. apply app_eq_nil in T0. destruct T0 as (_ & B0).
    rewrite B0 in S1. cbn in S1. apply sub_nil_inv in S1. rewrite S1. constructor.
Qed.

Lemma perm_flat_map_in {A} (f g : A -> list nat) l :
  (forall x, In x l -> Permutation (f x) (g x)) -> Permutation (flat_map f l) (flat_map g l).
Proof.
  induction l as [|a l IH]; intros Hp; [reflexivity|]. cbn [flat_map]. apply Permutation_app.
  - apply Hp. left. reflexivity.
  - apply IH. intros x Hx. apply Hp. right. exact Hx.
Qed.

(* token conservation *)
Lemma conservation_w s H cr coll :
  XW c s -> TS s H cr -> the_collw s = Some coll ->
  Permutation (pool_ws s ++ holdingsw s ++ cr) (seq 0 (length coll)).
Proof.
  intros X T Ec. destruct (xw_sched s X) as (ws & Els). pose proof T as [K Rq Hw Tk Dn Dh Or].
  destruct (xw_ws s ws X Els) as (P & ([_ J _ _ _ _] & _) & NIs).
  unfold the_collw in Ec. rewrite Els in Ec. pose proof (Tk ws Els) as Tks. rewrite Ec in Tks.
  unfold pool_ws, holdingsw. rewrite Els. rewrite <- Tks. unfold StealProofs.tokens.
  assert (PH : Permutation (fmkv (fun k w => done_w w ++ restw s ws k) (y_w s)) (map snd H ++ wbooks ws)).
  { transitivity (fmkv (fun k w => hn k H ++ bkw ws k) (y_w s)).
    - unfold fmkv. apply perm_flat_map_in. intros [k w] Hin. cbn [fst snd].
      pose proof (worker_in s k w K Hin) as Ew. pose proof (NIs k w Ew) as NI.
      destruct (node_account P s ws k w H cr T Els Ew NI) as (_ & Sb).
      assert (NDb : NoDup (bkw ws k)) by (apply bkw_nodup; apply (xj_nd _ _ _ _ J)).
      rewrite (Dn k w Ew), <- app_assoc. apply Permutation_app_head. symmetry. apply sub_split; assumption.
    - rewrite fmkv_app_perm2. apply Permutation_app.
      + rewrite (fmkv_keyfun (fun k => hn k H)). apply hn_sum_exact; [exact K|].
        intros p Hp. apply LoadProofs.aget_In_keys. apply Hw. exact Hp.
      + rewrite (fmkv_keyfun (bkw ws)). apply books_by_keys; assumption. }
  rewrite PH. permc.
Qed.

End TokW.

(* ---- transfer along VE (the state in which the controller has raised) ---- *)
Lemma hsx_VE s0 s k : VE s0 s -> hsx s k = hsx s0 k.
Proof.
  intros (A1 & A2 & A3 & A4 & A5 & A6 & _). unfold hsx, hsigs_of, hsigs, xsigs. rewrite A2, A3, A4, A6. reflexivity.
Qed.
Lemma holdingsw_VE s0 s : VE s0 s -> holdingsw s = holdingsw s0.
Proof.
  intros V. pose proof V as (A1 & _ & _ & _ & _ & A6 & _). unfold holdingsw. rewrite A6, A1.
  destruct (d_sched (y_d s0)); try reflexivity. apply fmkv_ext. intros k w _. unfold restw. rewrite (hsx_VE s0 s k V). reflexivity.
Qed.
Lemma pool_ws_VE s0 s : VE s0 s -> pool_ws s = pool_ws s0.
Proof. intros (_ & _ & _ & _ & _ & A6 & _). unfold pool_ws. rewrite A6. reflexivity. Qed.
Lemma the_collw_VE s0 s : VE s0 s -> the_collw s = the_collw s0.
Proof. intros (_ & _ & _ & _ & _ & A6 & _). unfold the_collw. rewrite A6. reflexivity. Qed.

Section TokMainW.
  Variable c : config.
  Variable ls : list label.
  Hypothesis Hmode : c_mode c = MSteal.
  Hypothesis Hnogarbled : no_garbled c.
  Hypothesis Hnodes : 0 < c_numnodes c.
  Hypothesis Hrequeue : c_requeue c = 0.

  (* the indices reported as crashed during the run, in the order of the reports *)
  Definition crashed_in_runw : list nat := crashedw c (sys_init c) ls.

  Lemma run_witnessw :
    exists s0 H, XW c s0 /\ VE s0 (sys_run c ls) /\ TS s0 H crashed_in_runw.
  Proof.
    assert (Hrq : rq_ok c) by (left; exact Hrequeue).
    destruct (ts_run c Hnogarbled Hnodes ls (sys_init c) [] [])
      as (G & H & T); [left; apply XW_init; assumption|apply TS_init; assumption|].
    change (run_fromw c (sys_init c) ls) with (sys_run c ls) in G, T. cbn [app] in T. fold crashed_in_runw in T.
    destruct G as [X|(_ & _ & s0 & X0 & V)].
    - exists (sys_run c ls), H. split; [exact X|]. split; [apply VE_refl|exact T].
    - exists s0, H. split; [exact X0|]. split; [exact V|].
      destruct (xw_sched c s0 X0) as (ws & E0).
      apply (TS_VE (sys_run c ls) s0 ws); [apply VE_sym; exact V| |exact T].
      destruct V as (_ & _ & _ & _ & _ & A6 & _). rewrite A6. exact E0.
  Qed.

  (* C03 (b) / C01 for worksteal WITH crashes: no test is ever started twice -- finished tests are not run
     again, the test a dead worker was running is reported as crashed and not run again, every other test
     (withdrawn ones included) is started at most once, by one worker *)
  Theorem steal_crash_started_nodup : NoDup (started (sys_run c ls)).
  Proof.
    destruct run_witnessw as (s0 & H & X0 & V & T). rewrite (started_VE s0 _ V).
    exact (started_nodup_w c Hnodes Hrequeue s0 H _ X0 T).
  Qed.

  (* C03 (c) for worksteal WITH crashes: token conservation.  Once the collection is fixed, every position
     of the collection is in exactly one of: the pool; the tests a worker (alive or dead) has completed;
     the rest of a node's book (what an alive worker holds or has on its wire, the indices withdrawn from
     it for a reply the controller has not processed yet; what a dead worker held when it died or what was
     lost on its wire or in its unsent reply, until its errordown is handled); the positions reported as
     crashed. *)
  Theorem steal_crash_conservation : forall coll,
    the_collw (sys_run c ls) = Some coll ->
    Permutation (pool_ws (sys_run c ls) ++ holdingsw (sys_run c ls) ++ crashed_in_runw) (seq 0 (length coll)).
  Proof.
    intros coll Ec. destruct run_witnessw as (s0 & H & X0 & V & T).
    rewrite (pool_ws_VE s0 _ V), (holdingsw_VE s0 _ V). apply (conservation_w c Hnodes Hrequeue s0 H); [exact X0|exact T|].
    rewrite <- (the_collw_VE s0 _ V). exact Ec.
  Qed.

  (* every test that was started is a position of the collection *)
  Corollary steal_crash_started_in_range : forall coll i,
    the_collw (sys_run c ls) = Some coll -> In i (started (sys_run c ls)) -> i < length coll.
  Proof.
    intros coll i Ec Hi. destruct run_witnessw as (s0 & H & X0 & V & T).
    rewrite (started_VE s0 _ V) in Hi. rewrite (the_collw_VE s0 _ V) in Ec.
    destruct (xw_sched c s0 X0) as (ws & Els). unfold the_collw in Ec. rewrite Els in Ec.
    pose proof (started_sub_w c Hnodes Hrequeue s0 ws H _ X0 T Els) as S1.
    pose proof (ts_tok _ _ _ T ws Els) as Tk. rewrite Ec in Tk.
    assert (Hin : In i (seq 0 (length coll))).
    { eapply Permutation_in; [exact Tk|]. pose proof (sub_in _ _ _ S1 Hi) as Hi2. unfold StealProofs.tokens.
      rewrite !in_app_iff in *. tauto. }
    apply in_seq in Hin. lia.
  Qed.
End TokMainW.

Check steal_crash_started_nodup.
Print Assumptions steal_crash_started_nodup.
Check steal_crash_conservation.
Print Assumptions steal_crash_conservation.
Check steal_crash_started_in_range.
Print Assumptions steal_crash_started_in_range.

(* ---- the order of the books in every reachable state, and the identity of the crash item ---- *)
Section OrderW.
  Variable c : config.
  Variable ls : list label.
  Hypothesis Hmode : c_mode c = MSteal.
  Hypothesis Hnogarbled : no_garbled c.
  Hypothesis Hnodes : 0 < c_numnodes c.
  Hypothesis Hrequeue : c_requeue c = 0.

  (* the new invariant.  For an alive worker whose main thread is in the loop: the indices withdrawn from it
     for a reply the controller has not processed are a SUFFIX of the node's book (SUFx), not the whole book
     unless the node has been told to shut down (Kx), and a request still on its way names a proper suffix of
     the book unless the main thread has already taken one of the named tests (FLx).  For a dead worker whose
     errordown is still to come: the completions in flight, then the test it was running, head its book. *)
  Theorem steal_crash_book_order : forall ws n w,
    d_sched (y_d (sys_run c ls)) = StW ws -> aget n (y_w (sys_run c ls)) = Some w -> ORDN (sys_run c ls) ws n w.
  Proof.
    intros ws n w Els Ew. destruct (run_witnessw c ls Hmode Hnogarbled Hnodes Hrequeue) as (s0 & H & X0 & V & T).
    pose proof V as (A1 & A2 & A3 & A4 & A5 & A6 & A7 & _). rewrite A6 in Els. rewrite A1 in Ew.
    apply (ORDN_ext s0 (sys_run c ls) ws ws n w); auto.
    - rewrite A2. reflexivity.
    - unfold xsigs. rewrite A3, A4. reflexivity.
    - rewrite A5. reflexivity.
    - exact (ts_ord _ _ _ T ws n w Els Ew).
  Qed.

  (* C03 (a), sharpened: when the controller handles the errordown of worker n, the crash item -- the head
     of n's book -- IS the test n was running when it died, if it was running one (CrashStealTheorems.v only
     shows that the head of the book with the unsent reply struck out is what the dead worker held) *)
  Theorem steal_crash_item_is_running_test : forall n q wn ws,
    y_evq (sys_run c ls) = QErrorDown n :: q -> aget n (y_w (sys_run c ls)) = Some wn ->
    d_sched (y_d (sys_run c ls)) = StW ws -> y_result (sys_run c ls) = None ->
    running wn <> [] -> crash_idxw (sys_run c ls) LCtl = running wn.
  Proof.
    intros n q wn ws Eevq Ew Els Eres Hrun.
    assert (Hrq : rq_ok c) by (left; exact Hrequeue).
    destruct (xw_run c Hmode Hnogarbled Hnodes Hrq ls) as [X|(F & _)]; [|congruence].
    destruct (xw_ws c _ ws X Els) as (P & _ & NIs).
    destruct (errd_node_quiet c P _ ws n q wn (NIs n wn Ew) Eevq) as (Hdn & Han & XS0).
    pose proof (steal_crash_book_order ws n wn Els Ew) as O. unfold ORDN in O. rewrite Hdn in O.
    destruct (O Han Hrun) as (Z & EZ & _). rewrite XS0 in EZ. cbn [xcompletes flat_map app] in EZ.
    unfold crash_idxw. rewrite Eevq, Els. cbn [evcr]. rewrite EZ.
    assert (Hl : length (running wn) <= 1) by (unfold running; destruct (wph wn); cbn; lia).
    destruct (running wn) as [|c0 [|c1 rr]]; [contradiction|reflexivity|cbn in Hl; lia].
  Qed.
End OrderW.

Check steal_crash_book_order.
Print Assumptions steal_crash_book_order.
Check steal_crash_item_is_running_test.
Print Assumptions steal_crash_item_is_running_test.

(* what "the rest of the book" is for an alive worker whose own session has not stopped: what it holds, what is
   on its wire down, and the indices withdrawn from it for a reply the controller has not processed yet *)
Lemma restw_alive c s ws n w :
  XW c s -> d_sched (y_d s) = StW ws -> aget n (y_w s) = Some w -> mem_nat n (y_dead s) = false ->
  unstopped c s n ->
  Permutation (restw s ws n)
    (owed_w w ++ flat_map cmd_inds (alist_get [] n (y_down s)) ++ xbacks (xsigs s n) ++ R w).
Proof.
  intros X Els Ew Hd Hu. destruct (xw_ws c s ws X Els) as (P & _ & NIs). pose proof (NIs n w Ew) as NI.
  pose proof (unstopped_P c P s ws n w NI Ew Hu) as EP. destruct NI as (_ & _ & _ & D). rewrite Hd, EP in D.
  pose proof (ALX_hsigs _ _ _ _ D) as EH. destruct D as [D1 _ _ _ _ _].
  pose proof (nw_coupled _ _ _ _ _ _ D1) as Cp. pose proof (nw_nd _ _ _ _ _ _ D1) as ND.
  unfold restw, hsx. rewrite Hd. unfold hsigs_of. rewrite Els, EH.
  destruct (nodup_perm_disj _ _ _ ND Cp) as (Hdisj & _ & _).
  exact (filter_withdraw _ _ _ Cp Hdisj).
Qed.

(* ====================================================================================== *)
(* F. non-vacuity: concrete worksteal sessions with crashes, evaluated                      *)
(* ====================================================================================== *)
(* result; pool; holdings; crash reports (positions); tests started (all workers); dead workers *)
Definition xt_view (c : config) (ls : list label) :=
  let s := sys_run c ls in
  (y_result s, pool_ws s, holdingsw s, crashed_in_runw c ls, started s, y_dead s).
(* per worker: id, completed, running, book, rest of the book, computed but unsent reply *)
Definition xt_nodes (c : config) (ls : list label) :=
  let s := sys_run c ls in
  match d_sched (y_d s) with
  | StW ws => map (fun p => (fst p, done_w (snd p), running (snd p), bkw ws (fst p), restw s ws (fst p), wreply (snd p))) (y_w s)
  | _ => []
  end.

Lemma xt_hyps :
  c_mode c01w_cfg = MSteal /\ no_garbled c01w_cfg /\ 0 < c_numnodes c01w_cfg /\ c_requeue c01w_cfg = 0.
Proof. destruct c01w_hyps as (H1 & H2 & H3 & _). repeat split; assumption. Qed.

(* (a) the session of CrashStealTheorems.v, example (d): the victim of a withdrawal request (worker 1, book
   [4;5;6;7], request for [6;7] on its wire) is killed before its main thread has moved; "t4" is reported as
   crashed, 5 6 7 go back to the pool; the session finishes.  Every position is completed by exactly one
   worker or reported as crashed; nothing is started twice. *)
Example xt_ex_conservation :
  let ls := xs_victim_handled ++ rounds 60 xs_rr4 in
  xt_view c01w_cfg ls =
    (Some RFinished, [], [0; 1; 2; 3; 5; 8; 9; 10; 11; 6; 7], [4], [0; 1; 2; 3; 5; 8; 9; 10; 11; 6; 7], [1]) /\
  Permutation (pool_ws (sys_run c01w_cfg ls) ++ holdingsw (sys_run c01w_cfg ls) ++ crashed_in_runw c01w_cfg ls) (seq 0 12) /\
  NoDup (started (sys_run c01w_cfg ls)).
Proof.
  cbv zeta. destruct xt_hyps as (H1 & H2 & H3 & H4). split; [vm_compute; reflexivity|]. split.
  - apply (steal_crash_conservation _ _ H1 H2 H3 H4 (c_coll c01w_cfg 0)). vm_compute. reflexivity.
  - apply (steal_crash_started_nodup _ _ H1 H2 H3 H4).
Qed.
Print Assumptions xt_ex_conservation.

(* (b) THE CASE THE NEW INVARIANT IS ABOUT.  Worker 1 has executed the withdrawal request (6 7 have left its
   queue, the reply [6;7] is computed but not sent), then its main thread takes 4 and 5 and runs test 4;
   now it is killed.  Its book is still [4;5;6;7]: the withdrawn indices are a SUFFIX of the book, the
   running test is its head. *)
Definition xt_run_die : list label :=
  c01w_sched_stolen ++ [LMain 1; LMain 1; LMain 1; LMain 1; LMain 1] ++ [LCrash 1].
Example xt_ex_dead_running :
  xt_nodes c01w_cfg xt_run_die =
    [(0, [0; 1; 2], [], [3], [3], None);
     (1, [], [4], [4; 5; 6; 7], [4; 5; 6; 7], Some [6; 7]);
     (2, [], [], [8; 9; 10; 11], [8; 9; 10; 11], None)].
Proof. vm_compute. reflexivity. Qed.

(* the controller hears the last messages of worker 1 and its end marker; when it handles the errordown, the
   crash item is the test worker 1 was running (steal_crash_item_is_running_test), although the reply that
   would have taken 6 7 out of the book was never sent *)
Definition xt_errordown_next : list label := xt_run_die ++ c01_rep 4 [LRecv 1] ++ c01_rep 3 [LCtl].
Example xt_ex_crash_item_is_running :
  let s := sys_run c01w_cfg xt_errordown_next in
  y_result s = None /\ y_evq s = [QErrorDown 1] /\ bookw s 1 = [4; 5; 6; 7] /\
  option_map (fun w => (running w, wreply w)) (aget 1 (y_w s)) = Some ([4], Some [6; 7]) /\
  crash_idxw s LCtl = [4].
Proof. vm_compute. repeat split; reflexivity. Qed.

(* the session runs to the end: 4 -- started once, by the dead worker -- is reported as crashed and is not run
   again; 5 6 7 are run by others *)
Example xt_ex_dead_running_finished :
  xt_view c01w_cfg (xt_errordown_next ++ [LCtl] ++ rounds 70 xs_rr4) =
    (Some RFinished, [], [0; 1; 2; 3; 5; 8; 9; 10; 11; 6; 7], [4], [0; 1; 2; 3; 5; 4; 8; 9; 10; 11; 6; 7], [1]).
Proof. vm_compute. reflexivity. Qed.

(* (c) WHY c_requeue c = 0 IS NEEDED: the same schedule with a plugin that re-queues one crash item
   (pytest_handlecrashitem -> mark_test_pending): test 4 is started twice *)
Definition xt_cfg_requeue : config :=
  {| c_mode := MSteal; c_numnodes := 3; c_chunk := None; c_maxfail := 0%Z; c_max_restart := Some 4%Z;
     c_requeue := 1; c_coll := c_coll c01w_cfg; c_oracle := c_oracle c01w_cfg;
     c_dur := fun _ => 0%Z; c_crash_in := fun _ _ => false; c_strict := false; c_spec := fun _ => 0 |}.
Example xt_ex_requeue_started_twice :
  let s := sys_run xt_cfg_requeue (xt_errordown_next ++ [LCtl] ++ rounds 70 xs_rr4) in
  y_result s = Some RFinished /\ ~ NoDup (started s).
Proof.
  cbv zeta. split; [vm_compute; reflexivity|].
  match goal with |- ~ NoDup (started ?st) => assert (E : started st = [0; 1; 2; 3; 5; 4; 8; 9; 10; 11; 4; 6; 7]) by (vm_compute; reflexivity) end.
  rewrite E. intros ND. do 5 (apply NoDup_cons_iff in ND; destruct ND as (_ & ND)).
  apply NoDup_cons_iff in ND. destruct ND as (Hn & _). apply Hn. cbn. auto 10.
Qed.
