(* SystemGapsD.v — the reachable-state invariant of the whole system behind C16 for the scope
   family and each (hypothesis: no undecodable report, no_garbled c):

     GI s :=  s is reachable,
              DI (y_d s)                          (SystemGapsC: guard or locked)
              no undecodable message is on a wire or can be produced by a worker,
              the "workerready token" of every worker exists at most once (in the worker that
              has not started, on its wire, or in the controller's queue) and is gone once the
              worker is registered or has been told to shut down.

   GI_step: every step keeps GI (as long as the session has no result) and its outputs satisfy
   the ordered guard OGD of SystemGapsA. *)
From XV Require Import Base Worker Ctl SchedLoad SchedSteal SchedScope SchedEach Sched DSession System NoHook
  DSessionProofs ShutdownOnce StopProofs FifoProofs ExactlyOnce SystemCorollaries SystemGapsA SystemGapsB SystemGapsC.
Open Scope nat_scope.

(* ------------------------------------------------------------------------------------------ *)
(* the workerready token                                                                       *)
(* ------------------------------------------------------------------------------------------ *)
Definition is_ready_up (m : upmsg) : bool := match m with UEv EReady => true | _ => false end.
Definition is_qready (n : nat) (e : cevent) : bool := match e with QReady k => Nat.eqb k n | _ => false end.
Definition bootw (ow : option wst) : nat :=
  match ow with Some w => match wph w with PBoot => 1 | _ => 0 end | None => 0 end.
Definition cupl (l : list upmsg) : nat := length (filter is_ready_up l).
Definition cq (q : list cevent) (n : nat) : nat := length (filter (is_qready n) q).
Definition rtok (s : sys) (n : nat) : nat :=
  bootw (aget n (y_w s)) + cupl (alist_get [] n (y_up s)) + cq (y_evq s) n.

Lemma cupl_app a b : cupl (a ++ b) = cupl a + cupl b.
Proof. unfold cupl. rewrite filter_app, app_length. reflexivity. Qed.
Lemma cq_app a b n : cq (a ++ b) n = cq a n + cq b n.
Proof. unfold cq. rewrite filter_app, app_length. reflexivity. Qed.
Lemma cq_in q n : In (QReady n) q -> 1 <= cq q n.
Proof.
  unfold cq. induction q as [|e q IH]; [intros []|]. intros [->|Hin]; cbn [filter is_qready].
  - rewrite Nat.eqb_refl. cbn. lia.
  - destruct (is_qready n e); cbn; [lia|auto].
Qed.
Lemma cq_zero q n : (forall k, In (QReady k) q -> k <> n) -> cq q n = 0.
Proof.
  unfold cq. induction q as [|e q IH]; intros H; [reflexivity|]. cbn [filter].
  destruct (is_qready n e) eqn:E.
  - destruct e; try discriminate. cbn in E. apply Nat.eqb_eq in E. subst. exfalso. apply (H n); [left; reflexivity|reflexivity].
  - apply IH. intros k Hk. apply H. right. exact Hk.
Qed.

(* the protocol script of the running test holds no workerready *)
Definition norsc (w : wst) : Prop :=
  match wph w with PRun _ _ sc => ~ In EReady sc | _ => True end.
Lemma norsc_ph a b : wph a = wph b -> norsc b -> norsc a.
Proof. unfold norsc. intros ->. auto. Qed.
Lemma script_of_noready o i : ~ In EReady (tl (script_of o i)).
Proof.
  unfold script_of. cbn [app tl]. intros H. apply in_app_or in H. destruct H as [H|[H|[]]]; [|discriminate].
  apply in_map_iff in H. destruct H as (p & E & _). discriminate.
Qed.

(* what the worker's main thread does to the token *)
Lemma main_step_ready o w w' evs :
  main_step o w = Some (w', evs) -> norsc w ->
  norsc w' /\
  ((wph w = PBoot /\ evs = [EReady] /\ wph w' <> PBoot) \/
   (wph w <> PBoot /\ wph w' <> PBoot /\ ~ In EReady evs)).
Proof.
  unfold main_step, norsc. destruct (wph w) as [|rest| | |cur|cur nxt|cur nxt script|s|] eqn:P; intros H NR.
  - inversion H; subst. cbn. split; [exact I|]. left. repeat split; auto. discriminate.
  - destruct rest as [|[k f] rest]; inversion H; subst; cbn; (split; [exact I|right; split; [discriminate|split; [discriminate|]]]);
      intros [X|[]]; discriminate.
  - inversion H; subst. cbn. split; [exact I|right]. split; [discriminate|split; [discriminate|]]. intros [X|[]]; discriminate.
  - destruct (wq w) as [|[t [i|]] q'].
    + destruct (wcb w); [discriminate|]. inversion H; subst. cbn. rewrite P. split; [exact I|right].
      split; [discriminate|split; [discriminate|]]. intros [].
    + inversion H; subst. cbn. split; [exact I|right]. split; [discriminate|split; [discriminate|]]. intros [].
    + inversion H; subst. cbn. split; [exact I|right]. split; [discriminate|split; [discriminate|]]. intros [].
  - destruct (wq w) as [|nxt q']; [discriminate|]. inversion H; subst. cbn. split; [exact I|right].
    split; [discriminate|split; [discriminate|]]. intros [].
  - inversion H; subst. cbn. split; [apply script_of_noready|right].
    split; [discriminate|split; [discriminate|]]. intros [X|[]]; discriminate.
  - destruct script as [|e script].
    + inversion H; subst. cbn. split.
      * destruct (stops_after o (snd cur)); [exact I|]. destruct (snd nxt); exact I.
      * right. split; [discriminate|]. split; [|intros [X|[]]; discriminate].
        destruct (stops_after o (snd cur)); [discriminate|]. destruct (snd nxt); discriminate.
    + inversion H; subst. cbn. split; [intros K; apply NR; right; exact K|right].
      split; [discriminate|split; [discriminate|]]. intros [X|[]]. apply NR. left. exact X.
  - inversion H; subst. cbn. split; [exact I|right]. split; [discriminate|split; [discriminate|]]. intros [X|[]]; discriminate.
  - discriminate.
Qed.

Lemma up_ready_count c n evs :
  cupl (map (up_of_wevent c n) evs) = length (filter (fun e => match e with EReady => true | _ => false end) evs).
Proof.
  unfold cupl. induction evs as [|e evs IH]; [reflexivity|]. cbn [map filter].
  destruct e as [| |k f| |i|i k [| | |]|i|i|ixs|b]; cbn [up_of_wevent is_ready_up length]; rewrite ?IH; reflexivity.
Qed.
Lemma noready_count (evs : list wevent) :
  ~ In EReady evs -> length (filter (fun e => match e with EReady => true | _ => false end) evs) = 0.
Proof.
  induction evs as [|e evs IH]; intros Hn; [reflexivity|]. cbn [filter].
  destruct e; try (apply IH; intros K; apply Hn; right; exact K). exfalso. apply Hn. left. reflexivity.
Qed.

(* what the controller's receiver thread does to the token *)
Lemma pfr_events n m d d' o evs :
  process_from_remote n m d = (d', o, Ok evs) ->
  (m = UEv EReady /\ (evs = [QReady n] \/ evs = [])) \/
  (m <> UEv EReady /\ forall k, ~ In (QReady k) evs).
Proof.
  unfold process_from_remote, mbind, get, of_opt.
  destruct (aget n (d_nt d)) as [f|] eqn:Ef; cbn [ret raise]; [|unfold raise; intros H; inversion H].
  unfold ret.
  destruct m as [e|ids|sk|i ms|dec| | |]; try destruct e; destruct (n_down f) eqn:Edn; unfold put; intros H;
    try (inversion H; subst;
         first [ left; split; [reflexivity|auto; fail]
               | right; split; [discriminate|intros kk Hk; cbn in Hk; intuition discriminate] ]; fail).
  (* undecodable message, node not down yet: errordown is queued *)
  right. split; [discriminate|]. intros kk Hk. revert H.
  destruct (d_node_shutdown n d) as [[d1 o1] r1]. destruct r1; [|intros X; inversion X].
  destruct (aget n (d_nt d1)); unfold put; intros X; inversion X; subst; destruct Hk as [Y|[]]; discriminate.
Qed.

(* ------------------------------------------------------------------------------------------ *)
(* applying the controller's outputs: spawned workers are new                                  *)
(* ------------------------------------------------------------------------------------------ *)
Lemma alist_get_aset {V} (dflt : V) k n v (m : amap V) :
  alist_get dflt k (aset n v m) = if Nat.eqb k n then v else alist_get dflt k m.
Proof. unfold alist_get. rewrite ShutdownOnce.aget_aset. destruct (Nat.eqb k n); reflexivity. Qed.

Lemma apply_outs_wu outs : forall s n,
  (In n (spawn_ids outs) ->
     aget n (y_w (apply_outs s outs)) = Some w_init /\ alist_get [] n (y_up (apply_outs s outs)) = []) /\
  (~ In n (spawn_ids outs) ->
     aget n (y_w (apply_outs s outs)) = aget n (y_w s) /\
     alist_get [] n (y_up (apply_outs s outs)) = alist_get [] n (y_up s)).
Proof.
  induction outs as [|x outs IH]; intros s n; [split; [intros []|intros _; split; reflexivity]|].
  destruct x as [h|m cmd| |]; cbn [apply_outs spawn_ids]; try apply IH.
  - destruct h; try apply IH.
    match goal with |- context [apply_outs ?s1 outs] => set (S1 := s1) end.
    destruct (IH S1 n) as (A & B). cbn [In]. split.
    + intros Hin. destruct (in_dec Nat.eq_dec n (spawn_ids outs)) as [Hi|Hni]; [exact (A Hi)|].
      destruct Hin as [->|Hin]; [|contradiction]. destruct (B Hni) as (B1 & B2). rewrite B1, B2.
      unfold S1. cbn [y_w y_up]. rewrite ShutdownOnce.aget_aset, alist_get_aset, Nat.eqb_refl. split; reflexivity.
    + intros Hni. assert (Hne : n <> newid) by (intros ->; apply Hni; left; reflexivity).
      assert (Hni2 : ~ In n (spawn_ids outs)) by (intros K; apply Hni; right; exact K).
      destruct (B Hni2) as (B1 & B2). rewrite B1, B2. unfold S1. cbn [y_w y_up].
      rewrite ShutdownOnce.aget_aset, alist_get_aset. apply Nat.eqb_neq in Hne. rewrite Hne. split; reflexivity.
  - destruct (mem_nat m (y_dead s)); [apply IH|].
    match goal with |- context [apply_outs ?s1 outs] => exact (IH s1 n) end.
Qed.

(* ------------------------------------------------------------------------------------------ *)
(* the invariant                                                                               *)
(* ------------------------------------------------------------------------------------------ *)
Section GapsSys.
Variable c : config.
Hypothesis Hng : no_garbled c.

Definition reach (s : sys) : Prop := exists ls o w, sys_exec c (sys_init c) ls = (s, o, w).

Definition NoBad (s : sys) : Prop :=
  (forall n w, aget n (y_w s) = Some w -> nogarb w /\ norsc w) /\
  (forall n, ~ In UBad (alist_get [] n (y_up s))).

Definition TK (s : sys) : Prop :=
  (forall n, rtok s n <= 1 /\ (consd (y_d s) n -> rtok s n = 0)) /\
  (forall n, consd (y_d s) n -> n < d_next_gw (y_d s)) /\
  (forall n, In (QReady n) (y_evq s) -> n < d_next_gw (y_d s)).

Definition GI (s : sys) : Prop := reach s /\ DI (y_d s) /\ NoBad s /\ TK s.

Lemma reach_step s l s' o w : reach s -> sys_step c s l = Some (s', o, w) -> reach s'.
Proof.
  intros (ls & o0 & w0 & H) E. exists (ls ++ [l]), (o0 ++ o ++ []), (w0 ++ w ++ []).
  rewrite sys_exec_app, H. cbn [sys_exec]. rewrite E. reflexivity.
Qed.

(* ---- a worker-side step: worker n0 and its wire change, the token stays balanced ---- *)
Lemma worker_step_inv s s' n0 w0 w' msgs :
  NoBad s -> TK s -> aget n0 (y_w s) = Some w0 ->
  (forall k, consd (y_d s') k <-> consd (y_d s) k) -> d_next_gw (y_d s') = d_next_gw (y_d s) ->
  y_evq s' = y_evq s ->
  (forall n, aget n (y_w s') = if Nat.eqb n n0 then Some w' else aget n (y_w s)) ->
  (forall n, alist_get [] n (y_up s') =
             if Nat.eqb n n0 then alist_get [] n0 (y_up s) ++ msgs else alist_get [] n (y_up s)) ->
  nogarb w' -> norsc w' -> ~ In UBad msgs ->
  bootw (Some w') + cupl msgs = bootw (Some w0) ->
  NoBad s' /\ TK s'.
Proof.
  intros (NB1 & NB2) (T1 & T2 & T3) Ew Hc Hg Hq Hw Hu NG NR NBm Bal. split.
  - split.
    + intros n w. rewrite Hw. destruct (Nat.eqb n n0); [intros X; inversion X; subst; auto|apply NB1].
    + intros n. rewrite Hu. destruct (Nat.eqb n n0) eqn:E; [|apply NB2].
      apply Nat.eqb_eq in E. subst n. intros K. apply in_app_or in K. destruct K as [K|K]; [exact (NB2 n0 K)|exact (NBm K)].
  - assert (RT : forall n, rtok s' n = rtok s n).
    { intros n. unfold rtok. rewrite Hw, Hu, Hq. destruct (Nat.eqb n n0) eqn:E; [|reflexivity].
      apply Nat.eqb_eq in E. subst n. rewrite cupl_app, Ew. lia. }
    split; [|split].
    + intros n. rewrite RT. destruct (T1 n) as (A & B). split; [exact A|]. intros K. apply B. apply Hc. exact K.
    + intros n K. rewrite Hg. apply T2. apply Hc. exact K.
    + intros n K. rewrite Hg. apply T3. rewrite <- Hq. exact K.
Qed.

Lemma up_no_bad n evs :
  Forall (fun e => is_garbled e = false) evs -> ~ In UBad (map (up_of_wevent c n) evs).
Proof.
  intros F K. apply in_map_iff in K. destruct K as (e & E & Hin). rewrite Forall_forall in F.
  exact (up_of_wevent_not_bad c n e (F e Hin) E).
Qed.

Lemma consd_refl_iff d : forall k, consd d k <-> consd d k. Proof. tauto. Qed.

(* ---- the death of a worker ---- *)
Lemma crash_inv s n w0 :
  DI (y_d s) -> NoBad s -> TK s -> aget n (y_w s) = Some w0 ->
  DI (y_d (crash_worker c s n)) /\ NoBad (crash_worker c s n) /\ TK (crash_worker c s n).
Proof.
  intros HD NB T Ew.
  assert (DD : DI (y_d (crash_worker c s n)) /\ (forall k, consd (y_d (crash_worker c s n)) k <-> consd (y_d s) k) /\
               d_next_gw (y_d (crash_worker c s n)) = d_next_gw (y_d s)).
  { unfold crash_worker. cbn [y_d]. destruct (c_strict c); [|split; [exact HD|split; [tauto|reflexivity]]].
    destruct (aget n (d_nt (y_d s))) as [f|] eqn:Ef; [|split; [exact HD|split; [tauto|reflexivity]]].
    destruct (close_DI n f _ Ef HD) as (A & B). split; [exact A|]. split; [exact B|reflexivity]. }
  destruct DD as (D1 & D2 & D3). split; [exact D1|].
  apply (worker_step_inv s (crash_worker c s n) n w0 w0 [UEnd]); try assumption.
  - reflexivity.
  - intros k. unfold crash_worker. cbn [y_w]. destruct (Nat.eqb k n) eqn:E; [|reflexivity].
    apply Nat.eqb_eq in E. subst k. exact Ew.
  - intros k. unfold crash_worker. cbn [y_up]. apply alist_get_aset.
  - destruct NB as (NB1 & _). apply (NB1 n w0 Ew).
  - destruct NB as (NB1 & _). apply (NB1 n w0 Ew).
  - intros [X|[]]. discriminate.
  - cbn. lia.
Qed.

(* ---- the controller's receiver thread takes the next message of worker n ---- *)
Lemma pfr_next_gw n m d d' o r : m <> UBad -> process_from_remote n m d = (d', o, r) -> d_next_gw d' = d_next_gw d.
Proof. intros Hm H. destruct (pfr_frame _ _ _ _ _ _ Hm H) as (_ & [->|(f & _ & ->)]); reflexivity. Qed.

Lemma close_if_dead_frame s n :
  y_evq (close_if_dead s n) = y_evq s /\ y_w (close_if_dead s n) = y_w s /\ y_up (close_if_dead s n) = y_up s /\
  d_next_gw (y_d (close_if_dead s n)) = d_next_gw (y_d s) /\
  (DI (y_d s) -> DI (y_d (close_if_dead s n)) /\
                 forall k, consd (y_d (close_if_dead s n)) k <-> consd (y_d s) k).
Proof.
  assert (TRIV : y_evq s = y_evq s /\ y_w s = y_w s /\ y_up s = y_up s /\ d_next_gw (y_d s) = d_next_gw (y_d s) /\
                 (DI (y_d s) -> DI (y_d s) /\ forall k, consd (y_d s) k <-> consd (y_d s) k)).
  { repeat (split; [reflexivity|]). intros HD. split; [exact HD|intros k; tauto]. }
  unfold close_if_dead. destruct (mem_nat n (y_dead s)); [|exact TRIV].
  destruct (aget n (d_nt (y_d s))) as [f|] eqn:Ef; [|exact TRIV].
  destruct (n_down f) eqn:Edn; [|exact TRIV].
  cbn [set_d y_evq y_w y_up y_d]. repeat (split; [reflexivity|]). intros HD.
  replace {| n_spec := n_spec f; n_down := true; n_sdsent := n_sdsent f; n_closed := true |}
    with (close_flag f) by (unfold close_flag; rewrite Edn; reflexivity).
  apply (close_DI n f _ Ef HD).
Qed.

Lemma recv_inv s n m rest d' outs evs :
  WF s -> DI (y_d s) -> NoBad s -> TK s ->
  aget n (y_up s) = Some (m :: rest) ->
  process_from_remote n m (y_d s) = (d', outs, Ok evs) ->
  let s3 := {| y_d := d'; y_evq := y_evq s ++ evs; y_down := y_down s; y_up := aset n rest (y_up s);
               y_w := y_w s; y_dead := y_dead s; y_result := y_result s |} in
  outs = [] /\ DI (y_d (close_if_dead s3 n)) /\ NoBad (close_if_dead s3 n) /\ TK (close_if_dead s3 n).
Proof.
  intros W HD (NB1 & NB2) (T1 & T2 & T3) Eup Ep s3.
  assert (Hw : alist_get [] n (y_up s) = m :: rest) by (unfold alist_get; rewrite Eup; reflexivity).
  assert (Hm : m <> UBad). { intros ->. apply (NB2 n). rewrite Hw. left. reflexivity. }
  destruct (recv_DI _ _ _ _ _ _ Hm Ep HD) as (-> & HD' & Hc). split; [reflexivity|].
  pose proof (pfr_next_gw _ _ _ _ _ _ Hm Ep) as Hg.
  destruct (close_if_dead_frame s3 n) as (F1 & F2 & F3 & F4 & F5).
  change (y_d s3) with d' in F4, F5. change (y_evq s3) with (y_evq s ++ evs) in F1.
  change (y_w s3) with (y_w s) in F2. change (y_up s3) with (aset n rest (y_up s)) in F3.
  destruct (F5 HD') as (HD'' & Hc'').
  split; [exact HD''|].
  assert (Hn : n < d_next_gw (y_d s)).
  { destruct W as (W1 & _). destruct (Nat.lt_ge_cases n (d_next_gw (y_d s))) as [L|G]; [exact L|].
    destruct (W1 n G) as (X & _). rewrite X in Eup. discriminate. }
  split.
  - split.
    + intros k w. rewrite F2. apply NB1.
    + intros k. rewrite F3. rewrite alist_get_aset.
      destruct (Nat.eqb k n) eqn:E; [|apply NB2]. intros K. apply (NB2 n). rewrite Hw. right. exact K.
  - assert (RT : forall k, rtok (close_if_dead s3 n) k <= rtok s k).
    { intros k. unfold rtok. rewrite F2, F3, F1, cq_app.
      rewrite alist_get_aset. destruct (pfr_events _ _ _ _ _ _ Ep) as [(-> & Hev)|(Hne & Hev)].
      - destruct (Nat.eqb k n) eqn:E.
        + apply Nat.eqb_eq in E. subst k. rewrite Hw. unfold cupl at 2. cbn [filter is_ready_up length].
          fold (cupl rest). destruct Hev as [-> | ->]; cbn [cq filter is_qready length]; rewrite ?Nat.eqb_refl; cbn [length]; lia.
        + assert (Z : cq evs k = 0).
          { apply cq_zero. intros j Hj. destruct Hev as [-> | ->]; [|destruct Hj].
            destruct Hj as [X|[]]. inversion X; subst. apply Nat.eqb_neq in E. auto. }
          rewrite Z. lia.
      - assert (Z : cq evs k = 0) by (apply cq_zero; intros j Hj; destruct (Hev j Hj)).
        rewrite Z. destruct (Nat.eqb k n) eqn:E; [|lia].
        apply Nat.eqb_eq in E. subst k. rewrite Hw. unfold cupl. cbn [filter].
        destruct (is_ready_up m); cbn [length]; lia. }
    split; [|split].
    + intros k. destruct (T1 k) as (A & B). split; [specialize (RT k); lia|].
      intros K. apply Hc'', Hc in K. specialize (B K). specialize (RT k). lia.
    + intros k K. rewrite F4, Hg. apply T2. apply Hc, Hc''. exact K.
    + intros k K. rewrite F4, Hg. rewrite F1 in K. apply in_app_or in K. destruct K as [K|K]; [apply T3; exact K|].
      destruct (pfr_events _ _ _ _ _ _ Ep) as [(_ & [-> | ->])|(_ & Hev)].
      * destruct K as [X|[]]. inversion X; subst. exact Hn.
      * destruct K.
      * destruct (Hev k K).
Qed.

(* ---- one iteration of the controller loop ---- *)
Lemma cq_cons ev q n : cq (ev :: q) n = (if is_qready n ev then 1 else 0) + cq q n.
Proof. unfold cq. cbn [filter]. destruct (is_qready n ev); reflexivity. Qed.

Lemma ctl_inv s ev q d' outs :
  WF s -> DI (y_d s) -> NoBad s -> TK s -> y_evq s = ev :: q ->
  d_loop_once ev (y_d s) = (d', outs, Ok tt) ->
  let s1 := apply_outs (set_d (set_evq s q) d') outs in
  DI (y_d s1) /\ NoBad s1 /\ TK s1.
Proof.
  intros W HD (NB1 & NB2) (T1 & T2 & T3) Eq H s1.
  assert (Hside : forall n, ev = QReady n -> ~ consd (y_d s) n).
  { intros n -> K. destruct (T1 n) as (_ & B). specialize (B K). unfold rtok in B. rewrite Eq, cq_cons in B.
    cbn [is_qready] in B. rewrite Nat.eqb_refl in B. lia. }
  destruct (loop_once_DI _ _ _ _ HD Hside H) as (HD' & C).
  destruct (step_spawn_ids _ _ _ (loop_once_step _ _ _ _ _ H)) as (SP & NG).
  assert (D1 : y_d s1 = d') by (unfold s1; rewrite y_d_apply_outs; reflexivity).
  assert (Q1 : y_evq s1 = q) by (unfold s1; rewrite (proj1 (apply_outs_frame outs _)); reflexivity).
  pose proof (apply_outs_wu outs (set_d (set_evq s q) d')) as WU. fold s1 in WU.
  cbn [set_d set_evq y_w y_up] in WU.
  assert (SPge : forall k, In k (spawn_ids outs) -> d_next_gw (y_d s) <= k).
  { intros k Hk. rewrite SP in Hk. apply in_seq in Hk. lia. }
  unfold TK. rewrite D1. split; [exact HD'|]. split.
  - split.
    + intros k w. destruct (in_dec Nat.eq_dec k (spawn_ids outs)) as [Hi|Hni].
      * rewrite (proj1 (proj1 (WU k) Hi)). intros X. injection X as <-. split; exact I.
      * rewrite (proj1 (proj2 (WU k) Hni)). apply NB1.
    + intros k. destruct (in_dec Nat.eq_dec k (spawn_ids outs)) as [Hi|Hni].
      * rewrite (proj2 (proj1 (WU k) Hi)). intros [].
      * rewrite (proj2 (proj2 (WU k) Hni)). apply NB2.
  - assert (OLD : forall k, consd d' k -> k < d_next_gw (y_d s)).
    { intros k K. destruct (C k K) as [K1| ->]; [apply T2; exact K1|]. apply T3. rewrite Eq. left. reflexivity. }
    split; [|split].
    + intros k. unfold rtok. rewrite Q1. destruct (in_dec Nat.eq_dec k (spawn_ids outs)) as [Hi|Hni].
      * destruct (proj1 (WU k) Hi) as (A1 & A2). rewrite A1, A2.
        assert (Z : cq q k = 0).
        { apply cq_zero. intros j Hj ->. assert (L : k < d_next_gw (y_d s)) by (apply T3; rewrite Eq; right; exact Hj).
          specialize (SPge k Hi). lia. }
        rewrite Z. cbn. split; [lia|]. intros K. specialize (OLD k K). specialize (SPge k Hi). lia.
      * destruct (proj2 (WU k) Hni) as (A1 & A2). rewrite A1, A2.
        destruct (T1 k) as (B1 & B2). unfold rtok in B1, B2. rewrite Eq, cq_cons in B1, B2.
        split; [lia|]. intros K. destruct (C k K) as [K1| ->]; [specialize (B2 K1); lia|].
        cbn [is_qready] in B1. rewrite Nat.eqb_refl in B1. lia.
    + intros k K. specialize (OLD k K). lia.
    + intros k K. rewrite Q1 in K. assert (L : k < d_next_gw (y_d s)) by (apply T3; rewrite Eq; right; exact K). lia.
Qed.

(* ------------------------------------------------------------------------------------------ *)
(* the step theorems                                                                           *)
(* ------------------------------------------------------------------------------------------ *)
Lemma OGD_close d n f f' :
  aget n (d_nt d) = Some f -> n_sdsent f' = n_sdsent f -> OGD d (d_set_nt d (aset n f' (d_nt d))) [].
Proof.
  intros Ef Hs. apply OGK_OGD. split; [|reflexivity]. apply og_rel_nil. rewrite d_nt_set.
  eapply nt_rel_keep; [exact Ef|exact Hs].
Qed.

Lemma crash_OGD s n : OGD (y_d s) (y_d (crash_worker c s n)) [].
Proof.
  unfold crash_worker. cbn [y_d]. destruct (c_strict c); [|apply OGD_refl].
  destruct (aget n (d_nt (y_d s))) as [f|] eqn:Ef; [|apply OGD_refl].
  eapply OGD_close; [exact Ef|reflexivity].
Qed.

Lemma close_if_dead_OGD s n : OGD (y_d s) (y_d (close_if_dead s n)) [].
Proof.
  unfold close_if_dead. destruct (mem_nat n (y_dead s)); [|apply OGD_refl].
  destruct (aget n (d_nt (y_d s))) as [f|] eqn:Ef; [|apply OGD_refl].
  destruct (n_down f); [|apply OGD_refl]. cbn [set_d y_d]. eapply OGD_close; [exact Ef|reflexivity].
Qed.

(* the outputs of every step from a state with DI satisfy the ordered guard *)
Theorem step_OGD s l s' o w :
  DI (y_d s) -> sys_step c s l = Some (s', o, w) -> OGD (y_d s) (y_d s') o.
Proof.
  intros HD H. unfold sys_step in H. destruct (y_result s); [discriminate|].
  destruct l as [n|n|n|n| |n].
  - destruct (mem_nat n (y_dead s)); [discriminate|].
    destruct (aget n (y_down s)) as [[|cmd rest]|]; try discriminate.
    destruct (aget n (y_w s)); [|discriminate]. inversion H; subst. apply OGD_refl.
  - destruct (mem_nat n (y_dead s)); [discriminate|].
    destruct (aget n (y_w s)) as [w0|]; [|discriminate].
    destruct (negb (wcb w0)); [discriminate|].
    destruct (recv_step (c_oracle c n) w0) as [w1 evs]. inversion H; subst. apply OGD_refl.
  - destruct (mem_nat n (y_dead s)); [discriminate|].
    destruct (aget n (y_w s)) as [w0|]; [|discriminate].
    destruct (dies_now c n w0); [inversion H; subst; apply crash_OGD|].
    destruct (main_step (c_oracle c n) w0) as [[w1 evs]|]; [|discriminate]. inversion H; subst. apply OGD_refl.
  - destruct (aget n (y_up s)) as [[|m rest]|]; try discriminate. cbn [y_d] in H.
    destruct (process_from_remote n m (y_d s)) as [[d' outs] r] eqn:E.
    pose proof (OGK_OGD _ _ _ (ogk_process_from_remote n m (y_d s) _ _ _ E)) as G.
    destruct r as [evs|e]; inversion H; subst; clear H.
    + match goal with |- OGD _ _ ?oo => rewrite <- (app_nil_r oo) end. eapply OGD_trans; [exact G|].
      match goal with |- OGD _ (y_d (close_if_dead ?s3 n)) [] =>
        assert (E3 : y_d s3 = d') by (cbn [set_evq y_d]; rewrite y_d_apply_outs; reflexivity);
        pose proof (close_if_dead_OGD s3 n) as K; rewrite E3 in K; exact K end.
    + cbn [set_result y_d]. rewrite y_d_apply_outs. exact G.
  - destruct (d_active (y_d s)) as [|a act] eqn:Ea.
    + destruct (d_no_active (y_d s)) as [[d' outs] r] eqn:E. inversion H; subst.
      cbn [set_result y_d]. rewrite y_d_apply_outs. exact (OGK_OGD _ _ _ (ogk_no_active (y_d s) _ _ _ E)).
    + destruct (y_evq s) as [|ev q]; [discriminate|].
      destruct (d_loop_once ev (y_d s)) as [[d' outs] r] eqn:E.
      pose proof (loop_once_OGD _ _ _ _ _ HD E) as G.
      destruct r as [u|e].
      * destruct (d_session_finished d').
        { inversion H; subst. cbn [set_result y_d]. rewrite y_d_apply_outs. exact G. }
        destruct (d_active d') as [|a' act'] eqn:Ea'.
        { destruct (d_no_active d') as [[d2 outs2] r2] eqn:E2. inversion H; subst.
          cbn [set_result y_d]. rewrite y_d_apply_outs. cbn [set_d y_d].
          eapply OGD_trans; [exact G|exact (OGK_OGD _ _ _ (ogk_no_active d' _ _ _ E2))]. }
        inversion H; subst. rewrite y_d_apply_outs. exact G.
      * inversion H; subst. cbn [set_result y_d]. rewrite y_d_apply_outs. exact G.
  - destruct (mem_nat n (y_dead s)); [discriminate|].
    destruct (aget n (y_w s)) as [w0|]; [|discriminate].
    destruct (wph w0); try discriminate; inversion H; subst; apply crash_OGD.
Qed.

Lemma bootw_le ow : bootw ow <= 1.
Proof. destruct ow as [w|]; cbn; [destruct (wph w); lia|lia]. Qed.

Lemma cupl_unsched n ixs : cupl (map (up_of_wevent c n) [EUnscheduled ixs]) = 0.
Proof. reflexivity. Qed.

(* every step keeps the invariant, as long as the session has no result *)
Theorem GI_step s l s' o w :
  GI s -> sys_step c s l = Some (s', o, w) -> y_result s' = None -> GI s'.
Proof.
  intros (R & HD & NB & T) H Hres. split; [eapply reach_step; eassumption|].
  assert (W : WF s) by (destruct R as (ls & o0 & w0 & R); exact (fifo_wf _ _ _ _ _ R)).
  unfold sys_step in H. destruct (y_result s) eqn:Eres; [discriminate|].
  destruct l as [n|n|n|n| |n].
  - (* LDeliver *)
    destruct (mem_nat n (y_dead s)); [discriminate|].
    destruct (aget n (y_down s)) as [[|cmd rest]|]; try discriminate.
    destruct (aget n (y_w s)) as [w0|] eqn:Ew; [|discriminate]. inversion H; subst; clear H.
    split; [exact HD|].
    match goal with |- NoBad ?S /\ _ =>
      apply (worker_step_inv s S n w0 (deliver w0 cmd) [] NB T Ew (fun k => iff_refl _) eq_refl eq_refl) end; cbn [y_d y_w y_up].
    + intros k. apply ShutdownOnce.aget_aset.
    + intros k. destruct (Nat.eqb k n) eqn:E; [|reflexivity]. apply Nat.eqb_eq in E. subst k. rewrite app_nil_r. reflexivity.
    + apply (nogarb_ph _ w0); [reflexivity|apply (proj1 NB n w0 Ew)].
    + apply (norsc_ph _ w0); [reflexivity|apply (proj1 NB n w0 Ew)].
    + intros [].
    + cbn. lia.
  - (* LRecvW *)
    destruct (mem_nat n (y_dead s)); [discriminate|].
    destruct (aget n (y_w s)) as [w0|] eqn:Ew; [|discriminate].
    destruct (negb (wcb w0)); [discriminate|].
    destruct (recv_step (c_oracle c n) w0) as [w1 evs] eqn:Es. inversion H; subst; clear H.
    destruct (recv_step_facts _ _ _ _ Es) as (P & Ev).
    destruct (recv_step_nogarb _ _ _ _ Es (proj1 (proj1 NB n w0 Ew))) as (NG1 & NG2).
    split; [exact HD|].
    match goal with |- NoBad ?S /\ _ =>
      apply (worker_step_inv s S n w0 w1 (map (up_of_wevent c n) evs) NB T Ew (fun k => iff_refl _) eq_refl eq_refl) end;
      cbn [push_up set_w y_d y_w y_up y_evq].
    + intros k. apply ShutdownOnce.aget_aset.
    + intros k. apply alist_get_aset.
    + exact NG1.
    + apply (norsc_ph _ w0); [exact P|apply (proj1 NB n w0 Ew)].
    + apply up_no_bad. exact NG2.
    + unfold bootw. rewrite P. destruct Ev as [->|(ixs & ->)]; cbn; lia.
  - (* LMain *)
    destruct (mem_nat n (y_dead s)); [discriminate|].
    destruct (aget n (y_w s)) as [w0|] eqn:Ew; [|discriminate].
    destruct (dies_now c n w0).
    { inversion H; subst; clear H. exact (crash_inv s n w0 HD NB T Ew). }
    destruct (main_step (c_oracle c n) w0) as [[w1 evs]|] eqn:Es; [|discriminate]. inversion H; subst; clear H.
    destruct (main_step_nogarb _ _ _ _ (Hng n) Es (proj1 (proj1 NB n w0 Ew))) as (NG1 & NG2).
    destruct (main_step_ready _ _ _ _ Es (proj2 (proj1 NB n w0 Ew))) as (NR1 & RD).
    split; [exact HD|].
    match goal with |- NoBad ?S /\ _ =>
      apply (worker_step_inv s S n w0 w1 (map (up_of_wevent c n) evs) NB T Ew (fun k => iff_refl _) eq_refl eq_refl) end;
      cbn [push_up set_w y_d y_w y_up y_evq].
    + intros k. apply ShutdownOnce.aget_aset.
    + intros k. apply alist_get_aset.
    + exact NG1.
    + exact NR1.
    + apply up_no_bad. exact NG2.
    + rewrite up_ready_count. unfold bootw. destruct RD as [(P0 & -> & P1)|(P0 & P1 & NE)].
      * rewrite P0. destruct (wph w1); try (cbn; lia). contradiction.
      * rewrite (noready_count _ NE). destruct (wph w0); try contradiction; destruct (wph w1); try contradiction; lia.
  - (* LRecv *)
    destruct (aget n (y_up s)) as [[|m rest]|] eqn:Eup; try discriminate. cbn [y_d] in H.
    destruct (process_from_remote n m (y_d s)) as [[d' outs] r] eqn:Ep.
    destruct r as [evs|e]; [|inversion H; subst; cbn in Hres; discriminate].
    destruct (recv_inv s n m rest d' outs evs W HD NB T Eup Ep) as (-> & A & B & C0).
    inversion H; subst; clear H. rewrite Eres in A, B, C0. split; [exact A|split; [exact B|exact C0]].
  - (* LCtl *)
    destruct (d_active (y_d s)) as [|a act] eqn:Ea.
    { destruct (d_no_active (y_d s)) as [[d' outs] r]. inversion H; subst. cbn in Hres. discriminate. }
    destruct (y_evq s) as [|ev q] eqn:Eq; [discriminate|].
    destruct (d_loop_once ev (y_d s)) as [[d' outs] r] eqn:El.
    destruct r as [[]|e]; [|inversion H; subst; cbn in Hres; discriminate].
    destruct (d_session_finished d'); [inversion H; subst; cbn in Hres; discriminate|].
    destruct (d_active d') as [|a' act'].
    { destruct (d_no_active d') as [[d2 outs2] r2]. inversion H; subst. cbn in Hres. discriminate. }
    inversion H; subst; clear H. exact (ctl_inv s ev q d' o W HD NB T Eq El).
  - (* LCrash *)
    destruct (mem_nat n (y_dead s)); [discriminate|].
    destruct (aget n (y_w s)) as [w0|] eqn:Ew; [|discriminate].
    destruct (wph w0); try discriminate; inversion H; subst; exact (crash_inv s n w0 HD NB T Ew).
Qed.

(* ---- the initial state ---- *)
Lemma s_nodes_init : s_nodes (d_sched (y_d (sys_init c))) = [].
Proof. cbn [sys_init y_d d_sched]. rewrite s_nodes_set_nt. destruct (c_mode c); reflexivity. Qed.

Lemma GI_init :
  (exists k, c_mode c = MScope k) \/ c_mode c = MEach -> 0 < c_numnodes c -> GI (sys_init c).
Proof.
  intros Hmode Hpos. split; [exists [], [], []; reflexivity|].
  assert (NC0 : forall k, ~ consd (y_d (sys_init c)) k).
  { intros k [F|I0].
    - pose proof (flag_init c k) as F0. unfold d_nt in F0. rewrite F0 in F. discriminate.
    - rewrite s_nodes_init in I0. destruct I0. }
  split; [|split].
  - split; [|split].
    + (* SId *)
      unfold SId. cbn [sys_init y_d d_sched d_failed_nodes]. split; [apply SIs_set_nt|split; [apply is_ce_set_nt|lia]];
        destruct Hmode as [(k & ->)| ->]; cbn [s_init SIs is_ce]; auto.
      split; [constructor|]. intros _. split; [reflexivity|]. split; [reflexivity|]. intros n w [].
    + intros [L|[L|(L & _)]].
      * cbn in L. discriminate.
      * unfold exhausted in L. cbn [sys_init y_d d_max_restart d_failed_nodes] in L.
        destruct (c_max_restart c); [lia|destruct L].
      * cbn [sys_init y_d d_sched] in L. rewrite s_tests_finished_set_nt in L.
        destruct Hmode as [(k & E)|E]; rewrite E in L; cbn in L.
        -- unfold sc_tests_finished, sc_collection_is_completed in L. cbn in L.
           destruct (c_numnodes c); [lia|discriminate].
        -- discriminate.
    + left. unfold Gd. cbn [sys_init y_d d_sched].
      destruct Hmode as [(k & ->)| ->]; cbn [s_init s_set_nt Gs]; [intros _ n []|intros n []].
  - split.
    + intros n w Hw. cbn [sys_init y_w] in Hw. apply aget_map_seq_const in Hw. subst w. split; exact I.
    + intros n. cbn [sys_init y_up]. unfold alist_get.
      destruct (aget n (map (fun n0 => (n0, @nil upmsg)) (seq 0 (c_numnodes c)))) as [l|] eqn:E; [|intros []].
      apply aget_map_seq_const in E. subst l. intros [].
  - split; [|split].
    + intros n. split; [|intros K; destruct (NC0 n K)].
      unfold rtok. cbn [sys_init y_evq y_up cq filter length].
      assert (U : cupl (alist_get [] n (map (fun n0 => (n0, @nil upmsg)) (seq 0 (c_numnodes c)))) = 0).
      { unfold alist_get. destruct (aget n (map (fun n0 => (n0, @nil upmsg)) (seq 0 (c_numnodes c)))) as [l|] eqn:E; [|reflexivity].
        apply aget_map_seq_const in E. subst l. reflexivity. }
      rewrite U. pose proof (bootw_le (aget n (y_w (sys_init c)))). lia.
    + intros n K. destruct (NC0 n K).
    + intros n [].
Qed.
End GapsSys.
