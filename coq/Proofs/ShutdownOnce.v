(* ShutdownOnce.v — controller side of "at most one shutdown command per worker, and no work
   after it":
     A1  every scheduler operation tells a worker to shut down at most once, only if it was not
         told before, and the _shutdown_sent flag never goes back              (s_step_sdflag)
     A2  work (CRun / CRunAll / CSteal) is only sent to workers whose flag is unset at the start
         of the operation                                                       (s_step_guard ...)
     A3  the same for one iteration of the controller loop and for the receiver thread
     A4  over whole runs of the controller loop: at most one shutdown per worker.
   Technique: as in NoHook.v / DSessionProofs.v, a predicate on monadic computations that is
   closed under the monad's constructors, an Ltac that decomposes a method body, one lemma per
   method.

   Summary of A2 (s_step level; SNew excluded as for A1):
     - unconditional, all four schedulers, every state: SAddNode, SAddColl, SComplete, SPending,
       SUnsched, SRemove, SFlags, SShutdown                               (s_step_guard)
     - SSchedule, unconditional: worksteal always; load / loadscope when the initial distribution
       has already been done (collection is set)                          (s_step_guard_schedule_later)
     - SSchedule, NEEDS the hypothesis "no registered node is flagged": the initial distribution of
       load (l_schedule sends to every node), of loadscope (_assign_work_unit for every node; here
       also NoDup of the registered nodes), and each (e_schedule_node only looks at _started)
                                                                          (s_step_guard_schedule)
       vm_compute witnesses of a violation without the hypothesis:
       ex_load_initial_unguarded, ex_scope_initial_unguarded, ex_each_unguarded.
   Controller level: loop_once_guard / run_guard (all events except collectionfinish, the only
   handler that calls schedule()). *)
From XV Require Import Base Worker Ctl SchedLoad SchedSteal SchedScope SchedEach Sched DSession NoHook
  DSessionProofs.
Open Scope nat_scope.

(* ------------------------------------------------------------------------------------------ *)
(* counting                                                                                    *)
(* ------------------------------------------------------------------------------------------ *)
Definition is_sd (n : nat) (x : out) : bool :=
  match x with OSend m CShutdown => Nat.eqb m n | _ => false end.
Definition is_work (n : nat) (x : out) : bool :=
  match x with
  | OSend m (CRun _) => Nat.eqb m n
  | OSend m CRunAll => Nat.eqb m n
  | OSend m (CSteal _) => Nat.eqb m n
  | _ => false
  end.

Definition sd_count (n : nat) (o : list out) : nat :=
  length (filter (fun x => match x with OSend m CShutdown => Nat.eqb m n | _ => false end) o).
Definition work_count (n : nat) (o : list out) : nat := length (filter (is_work n) o).

Lemma sd_count_app n a b : sd_count n (a ++ b) = sd_count n a + sd_count n b.
Proof. unfold sd_count. rewrite filter_app, app_length. reflexivity. Qed.
Lemma work_count_app n a b : work_count n (a ++ b) = work_count n a + work_count n b.
Proof. unfold work_count. rewrite filter_app, app_length. reflexivity. Qed.
Lemma sd_count_nil n : sd_count n [] = 0. Proof. reflexivity. Qed.
Lemma work_count_nil n : work_count n [] = 0. Proof. reflexivity. Qed.
Lemma sd_count_one n x : sd_count n [x] = if is_sd n x then 1 else 0.
Proof. unfold sd_count. cbn. fold (is_sd n x). destruct (is_sd n x); reflexivity. Qed.
Lemma work_count_one n x : work_count n [x] = if is_work n x then 1 else 0.
Proof. unfold work_count. cbn. destruct (is_work n x); reflexivity. Qed.

(* ------------------------------------------------------------------------------------------ *)
(* node tables                                                                                 *)
(* ------------------------------------------------------------------------------------------ *)
Lemma aget_aset {V} k n (v : V) m : aget k (aset n v m) = if Nat.eqb k n then Some v else aget k m.
Proof.
  induction m as [|[k' v'] m IH]; cbn.
  - destruct (Nat.eqb k n); reflexivity.
  - destruct (Nat.eqb n k') eqn:E; cbn.
    + apply Nat.eqb_eq in E. subst k'. destruct (Nat.eqb k n); reflexivity.
    + destruct (Nat.eqb k k') eqn:E2.
      * apply Nat.eqb_eq in E2. subst k'. rewrite Nat.eqb_sym, E. reflexivity.
      * exact IH.
Qed.

Definition flag (nt : ntable) (n : nat) : bool :=
  match aget n nt with Some c => n_sdsent c | None => false end.

Definition sdflag_rel (nt nt' : ntable) (o : list out) : Prop :=
  forall n, (flag nt n = true -> flag nt' n = true /\ sd_count n o = 0)
         /\ (sd_count n o <= 1)
         /\ (sd_count n o = 1 -> flag nt n = false /\ flag nt' n = true).

(* no WorkerController object appears in the table *)
Definition dom_keep (nt nt' : ntable) : Prop := forall m, aget m nt = None -> aget m nt' = None.

(* the relation carried through the scheduler code *)
Definition nt_rel (nt nt' : ntable) (o : list out) : Prop := sdflag_rel nt nt' o /\ dom_keep nt nt'.

Lemma sdflag_refl nt : sdflag_rel nt nt [].
Proof. intros n. rewrite sd_count_nil. repeat split; auto; try lia. Qed.

Theorem sdflag_trans a b c o1 o2 :
  sdflag_rel a b o1 -> sdflag_rel b c o2 -> sdflag_rel a c (o1 ++ o2).
Proof.
  intros H1 H2 n. destruct (H1 n) as (A1 & A2 & A3). destruct (H2 n) as (B1 & B2 & B3).
  rewrite sd_count_app. split; [|split].
  - intros F. destruct (A1 F) as (Fb & Z1). destruct (B1 Fb) as (Fc & Z2). split; [exact Fc|lia].
  - destruct (sd_count n o1) as [|[|k]] eqn:E1; [lia| |lia].
    destruct (A3 eq_refl) as (_ & Fb). destruct (B1 Fb) as (_ & Z2). lia.
  - intros E. destruct (sd_count n o1) as [|[|k]] eqn:E1; [| |lia].
    + assert (E2 : sd_count n o2 = 1) by lia. destruct (B3 E2) as (Fb & Fc). split; [|exact Fc].
      destruct (flag a n) eqn:Fa; [|reflexivity]. destruct (A1 eq_refl) as (Fb' & _). congruence.
    + destruct (A3 eq_refl) as (Fa & Fb). destruct (B1 Fb) as (Fc & _). auto.
Qed.

Lemma nt_rel_refl nt : nt_rel nt nt [].
Proof. split; [apply sdflag_refl|intros m H; exact H]. Qed.
Lemma nt_rel_trans a b c o1 o2 : nt_rel a b o1 -> nt_rel b c o2 -> nt_rel a c (o1 ++ o2).
Proof. intros (A1 & A2) (B1 & B2). split; [eapply sdflag_trans; eauto|intros m H; auto]. Qed.

(* outputs that are not shutdown commands do not matter *)
Lemma sdflag_emit nt x : (forall n, is_sd n x = false) -> sdflag_rel nt nt [x].
Proof. intros Hx n. rewrite sd_count_one, Hx. repeat split; auto; try lia. Qed.
Lemma nt_rel_emit nt x : (forall n, is_sd n x = false) -> nt_rel nt nt [x].
Proof. intros Hx. split; [apply sdflag_emit; exact Hx|intros m H; exact H]. Qed.

(* updating the record of an existing node without touching _shutdown_sent *)
Lemma nt_rel_keep nt n c c' :
  aget n nt = Some c -> n_sdsent c' = n_sdsent c -> nt_rel nt (aset n c' nt) [].
Proof.
  intros Hc Hs. split.
  - intros m. rewrite sd_count_nil.
    assert (F : flag (aset n c' nt) m = flag nt m).
    { unfold flag. rewrite aget_aset. destruct (Nat.eqb m n) eqn:E; [|reflexivity].
      apply Nat.eqb_eq in E. subst m. rewrite Hc. exact Hs. }
    rewrite F. repeat split; auto; lia.
  - intros m Hm. rewrite aget_aset. destruct (Nat.eqb m n) eqn:E; [|exact Hm].
    apply Nat.eqb_eq in E. subst m. congruence.
Qed.

(* WorkerController.shutdown on a node that was not told yet: the flag is set, and the command
   is on the wire unless the channel is closed *)
Lemma nt_rel_shutdown nt n c c' o :
  aget n nt = Some c -> n_sdsent c = false -> n_sdsent c' = true ->
  (o = [] \/ o = [OSend n CShutdown]) -> nt_rel nt (aset n c' nt) o.
Proof.
  intros Hc Hs Hs' Ho. split.
  - intros m. destruct (Nat.eqb m n) eqn:E.
    + apply Nat.eqb_eq in E. subst m.
      assert (F : flag nt n = false) by (unfold flag; rewrite Hc; exact Hs).
      assert (F' : flag (aset n c' nt) n = true) by (unfold flag; rewrite aget_aset, Nat.eqb_refl; exact Hs').
      rewrite F, F'. destruct Ho as [->| ->].
      * rewrite sd_count_nil. repeat split; auto; try lia; discriminate.
      * rewrite sd_count_one. cbn [is_sd]. rewrite Nat.eqb_refl. repeat split; auto; try lia; discriminate.
    + assert (F : flag (aset n c' nt) m = flag nt m) by (unfold flag; rewrite aget_aset, E; reflexivity).
      assert (Z : sd_count m o = 0).
      { destruct Ho as [->| ->]; [reflexivity|]. rewrite sd_count_one. cbn [is_sd].
        rewrite Nat.eqb_sym, E. reflexivity. }
      rewrite F, Z. repeat split; auto; lia.
  - intros m Hm. rewrite aget_aset. destruct (Nat.eqb m n) eqn:E; [|exact Hm].
    apply Nat.eqb_eq in E. subst m. congruence.
Qed.

(* ------------------------------------------------------------------------------------------ *)
(* a logic for M S: [from R s0 m] — running m from s0 ends in a state s' and with outputs o    *)
(* such that R s0 s' o.  R is reflexive (with no output) and composes along output append.     *)
(* ------------------------------------------------------------------------------------------ *)
Definition rrefl {S} (R : S -> S -> list out -> Prop) : Prop := forall s, R s s [].
Definition rtrans {S} (R : S -> S -> list out -> Prop) : Prop :=
  forall a b c o1 o2, R a b o1 -> R b c o2 -> R a c (o1 ++ o2).

Section Logic.
  Context {S : Type}.
  Variable R : S -> S -> list out -> Prop.

  Definition from {A} (s0 : S) (m : M S A) : Prop := forall s' o r, m s0 = (s', o, r) -> R s0 s' o.
  Definition spec {A} (m : M S A) : Prop := forall s0, from s0 m.

  Lemma f_ret {A} s0 (a : A) : rrefl R -> from s0 (ret a).
  Proof. intros Rr s' o r H. inversion H; subst. apply Rr. Qed.
  Lemma f_raise {A} s0 e : rrefl R -> from s0 (@raise S A e).
  Proof. intros Rr s' o r H. inversion H; subst. apply Rr. Qed.
  Lemma f_massert s0 b : rrefl R -> from s0 (@massert S b).
  Proof. destruct b; [apply f_ret|apply f_raise]. Qed.
  Lemma f_of_opt {A} s0 (x : option A) e : rrefl R -> from s0 (@of_opt S A x e).
  Proof. destruct x; [apply f_ret|apply f_raise]. Qed.
  Lemma f_getv s0 : rrefl R -> from s0 (@get S).
  Proof. intros Rr s' o r H. inversion H; subst. apply Rr. Qed.
  Lemma f_emit s0 x : R s0 s0 [x] -> from s0 (@emit S x).
  Proof. intros Hx s' o r H. inversion H; subst. exact Hx. Qed.
  Lemma f_put s0 s1 : R s0 s1 [] -> from s0 (put s1).
  Proof. intros Hr s' o r H. inversion H; subst. exact Hr. Qed.

  Lemma f_bind {A B} s0 (m : M S A) (f : A -> M S B) :
    rtrans R -> from s0 m -> (forall a s1, from s1 (f a)) -> from s0 (mbind m f).
  Proof.
    intros Rt Hm Hf s' o r H. unfold mbind in H.
    destruct (m s0) as [[s1 o1] r1] eqn:E1. specialize (Hm _ _ _ E1).
    destruct r1 as [a|e].
    - destruct (f a s1) as [[s2 o2] r2] eqn:E2. inversion H; subst.
      eapply Rt; [exact Hm|]. exact (Hf a s1 _ _ _ E2).
    - inversion H; subst. exact Hm.
  Qed.

  (* binds whose first component does not change the state: the continuation is checked at the
     state actually read, with what the first component established *)
  Lemma f_get {B} s0 (k : S -> M S B) : from s0 (k s0) -> from s0 (mbind get k).
  Proof.
    intros Hk s' o r H. unfold mbind, get in H.
    destruct (k s0 s0) as [[s2 o2] r2] eqn:E2. inversion H; subst. apply (Hk _ _ _ E2).
  Qed.
  Lemma f_ret_bind {A B} s0 (a : A) (k : A -> M S B) : from s0 (k a) -> from s0 (mbind (ret a) k).
  Proof.
    intros Hk s' o r H. unfold mbind, ret in H.
    destruct (k a s0) as [[s2 o2] r2] eqn:E2. inversion H; subst. apply (Hk _ _ _ E2).
  Qed.
  Lemma f_of_opt_bind {A B} s0 (x : option A) e (k : A -> M S B) :
    rrefl R -> (forall a, x = Some a -> from s0 (k a)) -> from s0 (mbind (of_opt x e) k).
  Proof.
    intros Rr Hk. destruct x as [a|]; cbn [of_opt].
    - apply f_ret_bind. apply Hk. reflexivity.
    - intros s' o r H. inversion H; subst. apply Rr.
  Qed.
  Lemma f_massert_bind {B} s0 (b : bool) (k : unit -> M S B) :
    rrefl R -> (b = true -> from s0 (k tt)) -> from s0 (mbind (massert b) k).
  Proof.
    intros Rr Hk. destruct b; cbn [massert].
    - apply f_ret_bind. apply Hk. reflexivity.
    - intros s' o r H. inversion H; subst. apply Rr.
  Qed.
  (* put followed by more code: the new state is known exactly *)
  Lemma f_put_bind {B} s0 s1 (k : unit -> M S B) :
    rtrans R -> R s0 s1 [] -> from s1 (k tt) -> from s0 (mbind (put s1) k).
  Proof.
    intros Rt Hr Hk s' o r H. unfold mbind, put in H.
    destruct (k tt s1) as [[s2 o2] r2] eqn:E2. cbn [app] in H. inversion H; subst.
    change o with ([] ++ o). eapply Rt; [exact Hr|apply (Hk _ _ _ E2)].
  Qed.

  Lemma f_catch s0 (m : M S unit) e : from s0 m -> from s0 (catch m e).
  Proof.
    intros Hm s' o r H. unfold catch in H.
    destruct (m s0) as [[s1 o1] r1] eqn:E1. specialize (Hm _ _ _ E1).
    destruct r1 as [a|e']; [inversion H; subst; exact Hm|].
    destruct (String.eqb _ _); inversion H; subst; exact Hm.
  Qed.
  Lemma f_mfor {A} (l : list A) (f : A -> M S unit) :
    rrefl R -> rtrans R -> (forall a, spec (f a)) -> spec (mfor l f).
  Proof.
    intros Rr Rt Hf. induction l as [|x l IH]; intros s0; cbn [mfor]; [apply f_ret; exact Rr|].
    apply f_bind; [exact Rt|apply Hf|intros _ s1; apply IH].
  Qed.

  (* node_flags / node_shutting_down read the table and nothing else *)
  Lemma f_flags_bind {B} (nt_of : S -> ntable) s0 n (k : nctl -> M S B) :
    rrefl R -> (forall c, aget n (nt_of s0) = Some c -> from s0 (k c)) ->
    from s0 (mbind (node_flags nt_of n) k).
  Proof.
    intros Rr Hk s' o r H. unfold node_flags, mbind, get, of_opt in H.
    destruct (aget n (nt_of s0)) as [c|] eqn:E; cbn [ret raise] in H.
    - unfold ret in H. destruct (k c s0) as [[s2 o2] r2] eqn:E2. inversion H; subst.
      exact (Hk c eq_refl _ _ _ E2).
    - unfold raise in H. inversion H; subst. apply Rr.
  Qed.
  Lemma f_flags (nt_of : S -> ntable) s0 n : rrefl R -> from s0 (node_flags nt_of n).
  Proof. intros Rr. unfold node_flags. apply f_get. apply f_of_opt. exact Rr. Qed.
  Lemma f_nsd_bind {B} (nt_of : S -> ntable) s0 n (k : bool -> M S B) :
    rrefl R -> (forall c, aget n (nt_of s0) = Some c -> from s0 (k (shutting_down c))) ->
    from s0 (mbind (node_shutting_down nt_of n) k).
  Proof.
    intros Rr Hk s' o r H. unfold node_shutting_down, node_flags, mbind, get, of_opt in H.
    destruct (aget n (nt_of s0)) as [c|] eqn:E; cbn [ret raise] in H.
    - unfold ret in H. cbn [app] in H. destruct (k (shutting_down c) s0) as [[s2 o2] r2] eqn:E2.
      inversion H; subst. exact (Hk c eq_refl _ _ _ E2).
    - unfold raise in H. inversion H; subst. apply Rr.
  Qed.
End Logic.

(* ------------------------------------------------------------------------------------------ *)
(* the relation on states with a node table                                                    *)
(* ------------------------------------------------------------------------------------------ *)
Section NtRel.
  Context {S : Type} (nt_of : S -> ntable) (set_nt : S -> ntable -> S).
  Hypothesis nt_set : forall s v, nt_of (set_nt s v) = v.

  Definition ntR (s s' : S) (o : list out) : Prop := nt_rel (nt_of s) (nt_of s') o.
  Lemma ntR_refl : rrefl ntR. Proof. intros s. apply nt_rel_refl. Qed.
  Lemma ntR_trans : rtrans ntR. Proof. intros a b c o1 o2. apply nt_rel_trans. Qed.

  Lemma sd_node_send n c : c <> CShutdown -> spec ntR (node_send nt_of n c).
  Proof.
    intros Hc s0. unfold node_send. apply f_flags_bind; [apply ntR_refl|]. intros f Hf.
    destruct (n_closed f); [apply f_ret, ntR_refl|].
    apply f_emit. apply nt_rel_emit. intros m. destruct c; try reflexivity. contradiction.
  Qed.

  (* the one primitive that sets _shutdown_sent *)
  Lemma sd_node_shutdown n : spec ntR (node_shutdown nt_of set_nt n).
  Proof.
    intros s0 s' o r H. unfold node_shutdown, node_send, node_flags, mbind, get, of_opt in H.
    destruct (aget n (nt_of s0)) as [f|] eqn:Ef; cbn [ret raise] in H.
    2:{ unfold raise in H. inversion H; subst. apply ntR_refl. }
    unfold ret in H. cbn [app] in H.
    destruct (n_down f || n_sdsent f) eqn:Esd.
    { inversion H; subst. apply ntR_refl. }
    apply orb_false_iff in Esd. destruct Esd as (_ & Es).
    rewrite Ef in H. cbn [app] in H.
    destruct (n_closed f); unfold emit, put in H; inversion H; subst; unfold ntR; rewrite nt_set;
      (eapply nt_rel_shutdown; [exact Ef|exact Es|reflexivity|]); [left|right]; reflexivity.
  Qed.
End NtRel.

(* when a shutdown command does go out, the node was neither down nor told before *)
Lemma node_shutdown_sent_only_if {S} (nt_of : S -> ntable) set_nt n s s' o r m :
  node_shutdown nt_of set_nt n s = (s', o, r) -> sd_count m o <> 0 ->
  m = n /\ o = [OSend n CShutdown] /\ r = Ok tt /\
  exists c, aget n (nt_of s) = Some c /\ n_down c = false /\ n_sdsent c = false /\ n_closed c = false.
Proof.
  unfold node_shutdown, node_send, node_flags, mbind, get, of_opt.
  destruct (aget n (nt_of s)) as [f|] eqn:Ef; cbn [ret raise]; [|intros H; inversion H; intros C; elim C; reflexivity].
  unfold ret. destruct (n_down f || n_sdsent f) eqn:Esd; [intros H; inversion H; intros C; elim C; reflexivity|].
  rewrite Ef. apply orb_false_iff in Esd. destruct Esd as (Ed & Es).
  destruct (n_closed f) eqn:Ec; unfold emit, put; intros H; inversion H; subst; intros C.
  - elim C; reflexivity.
  - cbn [app] in C. rewrite sd_count_one in C. cbn [is_sd] in C.
    destruct (Nat.eqb n m) eqn:E; [|elim C; reflexivity]. apply Nat.eqb_eq in E.
    split; [congruence|]. split; [reflexivity|]. split; [reflexivity|]. exists f. auto.
Qed.

(* ------------------------------------------------------------------------------------------ *)
(* A1 for the four schedulers                                                                  *)
(* ------------------------------------------------------------------------------------------ *)
Create HintDb sdrel.
Create HintDb sddb.
#[export] Hint Resolve ntR_refl ntR_trans : sdrel.

Ltac rr := solve [auto with sdrel].

(* goal-directed decomposition of a method body; [leaf] closes calls of already treated methods *)
Ltac sd1 :=
  first
    [ apply f_ret; rr | apply f_raise; rr | apply f_massert; rr | apply f_of_opt; rr
    | apply f_getv; rr
    | apply f_put; unfold ntR; exact (nt_rel_refl _)
    | apply f_emit; unfold ntR; apply nt_rel_emit; intros ?; reflexivity
    | apply f_catch
    | apply f_mfor; [rr | rr | intros ? ?]
    | apply sd_node_send; discriminate
    | apply sd_node_shutdown; intros; reflexivity
    | apply f_flags; rr
    | match goal with
      | |- from _ _ (mbind get _) => apply f_get
      | |- from _ _ (mbind (ret _) _) => apply f_ret_bind
      | |- from _ _ (mbind (of_opt _ _) _) => apply f_of_opt_bind; [rr | intros ? ?]
      | |- from _ _ (mbind (massert _) _) => apply f_massert_bind; [rr | intros ?]
      | |- from _ _ (mbind (node_flags _ _) _) => apply f_flags_bind; [rr | intros ? ?]
      | |- from _ _ (mbind (node_shutting_down _ _) _) => apply f_nsd_bind; [rr | intros ? ?]
      | |- from _ _ (mbind _ _) => apply f_bind; [rr | | intros ? ?]
      end
    | progress cbv zeta
    | match goal with
      | |- from _ _ (match ?x with _ => _ end) => destruct x eqn:?
      | |- from _ _ (let '(_, _) := ?x in _) => destruct x eqn:?
      end
    | solve [eauto with sddb] ].
Ltac sd := repeat sd1.

Notation lfrom := (from (ntR l_nt)).
Notation wfrom := (from (ntR ws_nt)).
Notation cfrom := (from (ntR sc_nt)).
Notation efrom := (from (ntR e_nt)).

(* ---- load ---- *)
Lemma sd_l_send_tests n num s0 : lfrom s0 (l_send_tests n num).
Proof. unfold l_send_tests. sd. Qed.
#[export] Hint Resolve sd_l_send_tests : sddb.
Lemma sd_l_check_schedule n d s0 : lfrom s0 (l_check_schedule n d).
Proof. unfold l_check_schedule. sd. Qed.
#[export] Hint Resolve sd_l_check_schedule : sddb.
Lemma sd_l_round_robin fuel all cur s0 : lfrom s0 (l_round_robin fuel all cur).
Proof.
  revert cur s0. induction fuel as [|f IH]; intros cur s0; cbn [l_round_robin]; [sd|].
  destruct cur as [|n r]; [destruct all as [|n r]; [sd|]|];
    (apply f_bind; [rr|apply sd_l_send_tests|intros _ s1; apply IH]).
Qed.
#[export] Hint Resolve sd_l_round_robin : sddb.
Lemma sd_l_same s0 : lfrom s0 l_same_collection.
Proof. unfold l_same_collection. sd. Qed.
#[export] Hint Resolve sd_l_same : sddb.
Lemma sd_l_schedule s0 : lfrom s0 l_schedule.
Proof. unfold l_schedule. sd. Qed.
#[export] Hint Resolve sd_l_schedule : sddb.
Lemma sd_l_add_node n s0 : lfrom s0 (l_add_node n).
Proof. unfold l_add_node. sd. Qed.
#[export] Hint Resolve sd_l_add_node : sddb.
Lemma sd_l_add_coll n c s0 : lfrom s0 (l_add_node_collection n c).
Proof. unfold l_add_node_collection. sd. Qed.
#[export] Hint Resolve sd_l_add_coll : sddb.
Lemma sd_l_complete n i d s0 : lfrom s0 (l_mark_test_complete n i d).
Proof. unfold l_mark_test_complete. sd. Qed.
#[export] Hint Resolve sd_l_complete : sddb.
Lemma sd_l_pending it s0 : lfrom s0 (l_mark_test_pending it).
Proof. unfold l_mark_test_pending. sd. Qed.
#[export] Hint Resolve sd_l_pending : sddb.
Lemma sd_l_remove n s0 : lfrom s0 (l_remove_node n).
Proof. unfold l_remove_node. sd. Qed.
#[export] Hint Resolve sd_l_remove : sddb.

(* ---- worksteal ---- *)
Lemma sd_ws_send_tests n num s0 : wfrom s0 (ws_send_tests n num).
Proof. unfold ws_send_tests. sd. Qed.
#[export] Hint Resolve sd_ws_send_tests : sddb.
Lemma sd_ws_distribute idle s0 : wfrom s0 (ws_distribute idle).
Proof.
  revert s0. induction idle as [|n r IH]; intros s0; cbn [ws_distribute]; [sd|].
  apply f_get. cbv zeta. apply f_bind; [rr|apply sd_ws_send_tests|intros _ s1; apply IH].
Qed.
#[export] Hint Resolve sd_ws_distribute : sddb.
Lemma sd_ws_check s0 : wfrom s0 ws_check_schedule.
Proof. unfold ws_check_schedule. sd. Qed.
#[export] Hint Resolve sd_ws_check : sddb.
Lemma sd_ws_add_node n s0 : wfrom s0 (ws_add_node n).
Proof. unfold ws_add_node. sd. Qed.
#[export] Hint Resolve sd_ws_add_node : sddb.
Lemma sd_ws_add_coll n c s0 : wfrom s0 (ws_add_node_collection n c).
Proof. unfold ws_add_node_collection. sd. Qed.
#[export] Hint Resolve sd_ws_add_coll : sddb.
Lemma sd_ws_complete n i s0 : wfrom s0 (ws_mark_test_complete n i).
Proof. unfold ws_mark_test_complete. sd. Qed.
#[export] Hint Resolve sd_ws_complete : sddb.
Lemma sd_ws_pending it s0 : wfrom s0 (ws_mark_test_pending it).
Proof. unfold ws_mark_test_pending. sd. Qed.
#[export] Hint Resolve sd_ws_pending : sddb.
Lemma sd_ws_unsched n ixs s0 : wfrom s0 (ws_remove_pending_tests_from_node n ixs).
Proof. unfold ws_remove_pending_tests_from_node. sd. Qed.
#[export] Hint Resolve sd_ws_unsched : sddb.
Lemma sd_ws_remove n s0 : wfrom s0 (ws_remove_node n).
Proof. unfold ws_remove_node. sd. Qed.
#[export] Hint Resolve sd_ws_remove : sddb.
Lemma sd_ws_same s0 : wfrom s0 ws_same_collection.
Proof. unfold ws_same_collection. sd. Qed.
#[export] Hint Resolve sd_ws_same : sddb.
Lemma sd_ws_schedule s0 : wfrom s0 ws_schedule.
Proof. unfold ws_schedule. sd. Qed.
#[export] Hint Resolve sd_ws_schedule : sddb.

(* ---- scope family ---- *)
Lemma sd_sc_add_node n s0 : cfrom s0 (sc_add_node n).
Proof. unfold sc_add_node. sd. Qed.
#[export] Hint Resolve sd_sc_add_node : sddb.
Lemma sd_sc_assign n s0 : cfrom s0 (sc_assign_work_unit n).
Proof. unfold sc_assign_work_unit. sd. Qed.
#[export] Hint Resolve sd_sc_assign : sddb.
Lemma sd_sc_top_up fuel n s0 : cfrom s0 (sc_top_up fuel n).
Proof. revert s0. induction fuel as [|f IH]; intros s0; cbn [sc_top_up]; sd. Qed.
#[export] Hint Resolve sd_sc_top_up : sddb.
Lemma sd_sc_reschedule n s0 : cfrom s0 (sc_reschedule n).
Proof. unfold sc_reschedule. sd. Qed.
#[export] Hint Resolve sd_sc_reschedule : sddb.
Lemma sd_sc_remove n s0 : cfrom s0 (sc_remove_node n).
Proof. unfold sc_remove_node. sd. Qed.
#[export] Hint Resolve sd_sc_remove : sddb.
Lemma sd_sc_add_coll n c s0 : cfrom s0 (sc_add_node_collection n c).
Proof. unfold sc_add_node_collection. sd. Qed.
#[export] Hint Resolve sd_sc_add_coll : sddb.
Lemma sd_sc_complete n i s0 : cfrom s0 (sc_mark_test_complete n i).
Proof. unfold sc_mark_test_complete. sd. Qed.
#[export] Hint Resolve sd_sc_complete : sddb.
Lemma sd_sc_same s0 : cfrom s0 sc_same_collection.
Proof. unfold sc_same_collection. sd. Qed.
#[export] Hint Resolve sd_sc_same : sddb.
Lemma sd_sc_pop_extra k s0 : cfrom s0 (sc_pop_extra k).
Proof. revert s0. induction k as [|k IH]; intros s0; cbn [sc_pop_extra]; sd. Qed.
#[export] Hint Resolve sd_sc_pop_extra : sddb.
Lemma sd_sc_schedule s0 : cfrom s0 sc_schedule.
Proof. unfold sc_schedule. sd. Qed.
#[export] Hint Resolve sd_sc_schedule : sddb.

(* ---- each ---- *)
Lemma sd_e_add_node n s0 : efrom s0 (e_add_node n).
Proof. unfold e_add_node. sd. Qed.
#[export] Hint Resolve sd_e_add_node : sddb.
Lemma sd_e_inherit n c dead s0 : efrom s0 (e_inherit n c dead).
Proof. revert s0. induction dead as [|[d p] r IH]; intros s0; cbn [e_inherit]; sd. Qed.
#[export] Hint Resolve sd_e_inherit : sddb.
Lemma sd_e_add_coll n c s0 : efrom s0 (e_add_node_collection n c).
Proof. unfold e_add_node_collection. sd. Qed.
#[export] Hint Resolve sd_e_add_coll : sddb.
Lemma sd_e_complete n i s0 : efrom s0 (e_mark_test_complete n i).
Proof. unfold e_mark_test_complete. sd. Qed.
#[export] Hint Resolve sd_e_complete : sddb.
Lemma sd_e_remove n s0 : efrom s0 (e_remove_node n).
Proof. unfold e_remove_node. sd. Qed.
#[export] Hint Resolve sd_e_remove : sddb.
Lemma sd_e_schedule_node n s0 : efrom s0 (e_schedule_node n).
Proof. unfold e_schedule_node. sd. Qed.
#[export] Hint Resolve sd_e_schedule_node : sddb.
Lemma sd_e_schedule s0 : efrom s0 e_schedule.
Proof. unfold e_schedule. sd. Qed.
#[export] Hint Resolve sd_e_schedule : sddb.

(* ---- the scheduler interface ---- *)
Lemma s_nt_set st v : s_nt (s_set_nt st v) = v.
Proof. destruct st; reflexivity. Qed.

Lemma lift_from {S A B} (nt_of : S -> ntable) (wrap : S -> sstate) (f : A -> B) (m : M S A) s st' o r :
  (forall x, s_nt (wrap x) = nt_of x) -> from (ntR nt_of) s m ->
  lift wrap f (m s) = (st', o, r) -> nt_rel (nt_of s) (s_nt st') o.
Proof.
  intros Hw Hm H. unfold lift in H. destruct (m s) as [[s1 o1] r1] eqn:E.
  inversion H; subst. rewrite Hw. exact (Hm _ _ _ E).
Qed.

Definition is_new (op : sop) : bool := match op with SNew _ _ => true | _ => false end.

Ltac lifted H :=
  (eapply lift_from; [|
    |exact H]); [intros; reflexivity|]; eauto with sddb.

(* every scheduler operation except the creation of a WorkerController *)
Theorem s_step_nt_rel st op st' o r :
  is_new op = false -> s_step st op = (st', o, r) -> nt_rel (s_nt st) (s_nt st') o.
Proof.
  destruct op; cbn [is_new s_step]; intros Hn H; try discriminate.
  - destruct st; cbn [s_nt]; lifted H.
  - destruct st; cbn [s_nt]; lifted H.
  - destruct st; cbn [s_nt]; lifted H.
  - destruct st; cbn [s_nt]; lifted H.
  - destruct st; cbn [s_nt]; try (inversion H; subst; apply nt_rel_refl); lifted H.
  - destruct st; cbn [s_nt]; try (inversion H; subst; apply nt_rel_refl); lifted H.
  - destruct st; cbn [s_nt]; lifted H.
  - destruct (aget n (s_nt st)) as [c|] eqn:Ec; inversion H; subst; [|apply nt_rel_refl].
    rewrite s_nt_set. eapply nt_rel_keep; [exact Ec|reflexivity].
  - destruct st; cbn [s_nt]; (eapply lift_from; [| |exact H]); [intros; reflexivity| |intros; reflexivity|
      |intros; reflexivity| |intros; reflexivity|]; apply sd_node_shutdown; intros; reflexivity.
Qed.

(* A1 *)
Theorem s_step_sdflag st op st' o r :
  is_new op = false -> s_step st op = (st', o, r) -> sdflag_rel (s_nt st) (s_nt st') o.
Proof. intros Hn H. exact (proj1 (s_step_nt_rel _ _ _ _ _ Hn H)). Qed.
Print Assumptions s_step_sdflag.

Theorem s_step_dom_keep st op st' o r :
  is_new op = false -> s_step st op = (st', o, r) -> dom_keep (s_nt st) (s_nt st').
Proof. intros Hn H. exact (proj2 (s_step_nt_rel _ _ _ _ _ Hn H)). Qed.

(* the creation of a WorkerController with an unused id: nothing is sent, the existing records
   are untouched, and the new one has _shutdown_sent = False *)
Theorem s_step_new_sdflag st n spec st' o r :
  aget n (s_nt st) = None -> s_step st (SNew n spec) = (st', o, r) ->
  o = [] /\ r = Ok None /\
  (forall m, m <> n -> aget m (s_nt st') = aget m (s_nt st)) /\
  (exists c, aget n (s_nt st') = Some c /\ n_sdsent c = false) /\
  (forall m, flag (s_nt st') m = flag (s_nt st) m) /\
  sdflag_rel (s_nt st) (s_nt st') o.
Proof.
  intros Hf H. cbn [s_step] in H. inversion H; subst. clear H. rewrite s_nt_set.
  assert (F : forall m, flag (aset n {| n_spec := spec; n_down := false; n_sdsent := false; n_closed := false |}
                                   (s_nt st)) m = flag (s_nt st) m).
  { intros m. unfold flag. rewrite aget_aset. destruct (Nat.eqb m n) eqn:E; [|reflexivity].
    apply Nat.eqb_eq in E. subst m. rewrite Hf. reflexivity. }
  split; [reflexivity|]. split; [reflexivity|]. split.
  { intros m Hm. rewrite aget_aset. apply Nat.eqb_neq in Hm. rewrite Hm. reflexivity. }
  split.
  { eexists. rewrite aget_aset, Nat.eqb_refl. split; reflexivity. }
  split; [exact F|].
  intros m. rewrite F, sd_count_nil. repeat split; auto; lia.
Qed.
Print Assumptions s_step_new_sdflag.

(* ------------------------------------------------------------------------------------------ *)
(* A3: the controller                                                                          *)
(* ------------------------------------------------------------------------------------------ *)
(* ids at or above the group counter are unused *)
Definition fresh (d : dstate) : Prop := forall m, d_next_gw d <= m -> aget m (d_nt d) = None.

(* everything except _clone_node: no new WorkerController, the id counter stays *)
Definition RK (d d' : dstate) (o : list out) : Prop :=
  nt_rel (d_nt d) (d_nt d') o /\ d_next_gw d' = d_next_gw d.
(* with _clone_node: needs, and keeps, the freshness of ids *)
Definition RD (d d' : dstate) (o : list out) : Prop :=
  fresh d -> fresh d' /\ sdflag_rel (d_nt d) (d_nt d') o.

Lemma RK_refl : rrefl RK. Proof. intros d. split; [apply nt_rel_refl|reflexivity]. Qed.
Lemma RK_trans : rtrans RK.
Proof. intros a b c o1 o2 (A1 & A2) (B1 & B2). split; [eapply nt_rel_trans; eauto|congruence]. Qed.
Lemma RD_refl : rrefl RD. Proof. intros d F. split; [exact F|apply sdflag_refl]. Qed.
Lemma RD_trans : rtrans RD.
Proof.
  intros a b c o1 o2 HA HB F. destruct (HA F) as (Fb & S1). destruct (HB Fb) as (Fc & S2).
  split; [exact Fc|eapply sdflag_trans; eauto].
Qed.
#[export] Hint Resolve RK_refl RK_trans RD_refl RD_trans : sdrel.

Lemma RK_RD d d' o : RK d d' o -> RD d d' o.
Proof.
  intros ((Hs & Hd) & Hg) F. split; [|exact Hs]. intros m Hm. apply Hd. apply F. rewrite <- Hg. exact Hm.
Qed.
Lemma rk_rd {A} d0 (m : D A) : from RK d0 m -> from RD d0 m.
Proof. intros H d' o r E. apply RK_RD. exact (H _ _ _ E). Qed.

Lemma d_nt_set d v : d_nt (d_set_nt d v) = v.
Proof. unfold d_nt, d_set_nt. cbn [d_sched d_set_sched]. apply s_nt_set. Qed.

Lemma node_shutdown_frame {S} (nt_of : S -> ntable) set_nt n s s' o r :
  node_shutdown nt_of set_nt n s = (s', o, r) -> s' = s \/ exists v, s' = set_nt s v.
Proof.
  unfold node_shutdown, node_send, node_flags, mbind, get, of_opt.
  destruct (aget n (nt_of s)) as [f|] eqn:Ef; cbn [ret raise]; [|intros H; inversion H; auto].
  unfold ret. destruct (n_down f || n_sdsent f); [intros H; inversion H; auto|].
  rewrite Ef.
  destruct (n_closed f); unfold emit, put; intros H; inversion H; right; eexists; reflexivity.
Qed.

Ltac solve_rel :=
  try apply RK_RD;
  split;
  [ first [ exact (nt_rel_refl _)
          | apply nt_rel_emit; intros ?; reflexivity
          | rewrite d_nt_set; eapply nt_rel_keep; [eassumption|reflexivity] ]
  | reflexivity ].

Create HintDb dddb.
Ltac dd1 :=
  first
    [ apply f_ret; rr | apply f_raise; rr | apply f_massert; rr | apply f_of_opt; rr
    | apply f_getv; rr
    | apply f_put; solve_rel
    | apply f_emit; solve_rel
    | apply f_mfor; [rr | rr | intros ? ?]
    | match goal with
      | |- from _ _ (mbind get _) => apply f_get
      | |- from _ _ (mbind (ret _) _) => apply f_ret_bind
      | |- from _ _ (mbind (of_opt _ _) _) => apply f_of_opt_bind; [rr | intros ? ?]
      | |- from _ _ (mbind (massert _) _) => apply f_massert_bind; [rr | intros ?]
      | |- from _ _ (mbind _ _) => apply f_bind; [rr | | intros ? ?]
      end
    | progress cbv zeta
    | match goal with
      | |- from _ _ (match ?x with _ => _ end) => destruct x eqn:?
      | |- from _ _ (let '(_, _) := ?x in _) => destruct x eqn:?
      end
    | solve [eauto with dddb]
    | apply rk_rd; solve [eauto with dddb] ].
Ltac dd := repeat dd1.

Lemma rk_sched_op op d0 : is_new op = false -> from RK d0 (d_sched_op op).
Proof.
  intros Hn d' o r H. unfold d_sched_op in H.
  destruct (s_step (d_sched d0) op) as [[st o1] r1] eqn:E. inversion H; subst.
  split; [|reflexivity]. exact (s_step_nt_rel _ _ _ _ _ Hn E).
Qed.
Lemma rk_sched_op_remove n d0 : from RK d0 (d_sched_op (SRemove n)).
Proof. apply rk_sched_op. reflexivity. Qed.
Lemma rk_sched_op_pending i d0 : from RK d0 (d_sched_op (SPending i)).
Proof. apply rk_sched_op. reflexivity. Qed.
Lemma rk_sched_op_addnode n d0 : from RK d0 (d_sched_op (SAddNode n)).
Proof. apply rk_sched_op. reflexivity. Qed.
Lemma rk_sched_op_addcoll n c d0 : from RK d0 (d_sched_op (SAddColl n c)).
Proof. apply rk_sched_op. reflexivity. Qed.
Lemma rk_sched_op_schedule d0 : from RK d0 (d_sched_op SSchedule).
Proof. apply rk_sched_op. reflexivity. Qed.
Lemma rk_sched_op_complete n i ms d0 : from RK d0 (d_sched_op (SComplete n i ms)).
Proof. apply rk_sched_op. reflexivity. Qed.
Lemma rk_sched_op_unsched n ixs d0 : from RK d0 (d_sched_op (SUnsched n ixs)).
Proof. apply rk_sched_op. reflexivity. Qed.
#[export] Hint Resolve rk_sched_op_remove rk_sched_op_pending rk_sched_op_addnode rk_sched_op_addcoll
  rk_sched_op_schedule rk_sched_op_complete rk_sched_op_unsched : dddb.

Lemma rk_node_shutdown n d0 : from RK d0 (d_node_shutdown n).
Proof.
  intros d' o r H. split.
  - exact (sd_node_shutdown d_nt d_set_nt d_nt_set n d0 _ _ _ H).
  - destruct (node_shutdown_frame _ _ _ _ _ _ _ H) as [->|(v & ->)]; reflexivity.
Qed.
#[export] Hint Resolve rk_node_shutdown : dddb.

Lemma rk_triggershutdown d0 : from RK d0 d_triggershutdown.
Proof. unfold d_triggershutdown. dd. Qed.
#[export] Hint Resolve rk_triggershutdown : dddb.
Lemma rk_active_remove n d0 : from RK d0 (d_active_remove n).
Proof. unfold d_active_remove. dd. Qed.
#[export] Hint Resolve rk_active_remove : dddb.
Lemma rk_handlefailures f d0 : from RK d0 (d_handlefailures f).
Proof. unfold d_handlefailures. dd. Qed.
#[export] Hint Resolve rk_handlefailures : dddb.
Lemma rk_handle_crashitem item n d0 : from RK d0 (d_handle_crashitem item n).
Proof. unfold d_handle_crashitem, hook. dd. Qed.
#[export] Hint Resolve rk_handle_crashitem : dddb.

Lemma rk_try_block n d0 : from RK d0 (try_block n).
Proof.
  intros d' o r H. unfold try_block in H.
  destruct (d_sched_op (SRemove n) d0) as [[d1 o1] r1] eqn:E1.
  pose proof (rk_sched_op_remove n d0 _ _ _ E1) as R1.
  destruct r1 as [[item|]|e].
  - destruct (d_handle_crashitem item n d1) as [[d2 o2] r2] eqn:E2. inversion H; subst.
    eapply RK_trans; [exact R1|exact (rk_handle_crashitem _ _ _ _ _ _ E2)].
  - inversion H; subst. exact R1.
  - destruct e; inversion H; subst; exact R1.
Qed.
#[export] Hint Resolve rk_try_block : dddb.

Lemma rk_handle ev d0 : death_event ev = false -> from RK d0 (d_handle ev).
Proof.
  destruct ev as [n|n ids|n key fl|n i|n i|n i k oc|n i ms|n ixs| |n|n sk|n]; cbn [death_event d_handle];
    intros Hd; try discriminate; unfold hook; try (dd; fail).
  unfold d_worker_workerfinished, hook. destruct sk; try discriminate; dd.
Qed.

(* the receiver thread *)
Lemma rk_process_from_remote n m d0 : from RK d0 (process_from_remote n m).
Proof.
  unfold process_from_remote. apply f_get. apply f_of_opt_bind; [rr|]. intros f Hf. cbv zeta.
  destruct m as [e|ids|sk|i ms|[|]| | |]; try destruct e; dd.
Qed.

Theorem process_from_remote_sdflag n m d d' o r :
  process_from_remote n m d = (d', o, r) ->
  sdflag_rel (d_nt d) (d_nt d') o /\ d_next_gw d' = d_next_gw d /\ (fresh d -> fresh d').
Proof.
  intros H. pose proof (rk_process_from_remote n m d _ _ _ H) as K.
  split; [exact (proj1 (proj1 K))|]. split; [exact (proj2 K)|].
  intros F. exact (proj1 (RK_RD _ _ _ K F)).
Qed.
Print Assumptions process_from_remote_sdflag.

(* ---- the death path: _clone_node creates a WorkerController with the next unused id ---- *)
Lemma sdflag_new nt n c x :
  aget n nt = None -> n_sdsent c = false -> (forall k, is_sd k x = false) ->
  sdflag_rel nt (aset n c nt) [x].
Proof.
  intros Hn Hc Hx m.
  assert (F : flag (aset n c nt) m = flag nt m).
  { unfold flag. rewrite aget_aset. destruct (Nat.eqb m n) eqn:E; [|reflexivity].
    apply Nat.eqb_eq in E. subst m. rewrite Hn. exact Hc. }
  rewrite F, sd_count_one, Hx. repeat split; auto; lia.
Qed.

Lemma rd_clone n d0 : from RD d0 (d_clone_node n).
Proof.
  intros d' o r H F. revert H.
  unfold d_clone_node, mbind, get, of_opt, hook, emit, put, ret, raise.
  destruct (aget n (d_nt d0)) as [f|] eqn:Ef.
  2:{ intros H; inversion H; subst. split; [exact F|apply sdflag_refl]. }
  unfold d_sched_op. cbn [s_step]. intros H. inversion H; subst. clear H. cbn [app].
  unfold fresh, d_nt. cbn [d_next_gw d_sched d_set_active d_set_next_gw d_set_sched]. rewrite s_nt_set.
  split.
  - intros m Hm. rewrite aget_aset. destruct (Nat.eqb m (d_next_gw d0)) eqn:E.
    + apply Nat.eqb_eq in E. lia.
    + apply F. lia.
  - apply sdflag_new; [apply F; lia|reflexivity|intros k; reflexivity].
Qed.
#[export] Hint Resolve rd_clone : dddb.

Lemma rd_errordown n d0 : from RD d0 (d_worker_errordown n).
Proof. rewrite errordown_unfold. unfold hook. dd. Qed.
#[export] Hint Resolve rd_errordown : dddb.

Lemma rd_handle ev d0 : from RD d0 (d_handle ev).
Proof.
  destruct (death_event ev) eqn:Ed; [|apply rk_rd, rk_handle; exact Ed].
  destruct ev as [| | | | | | | | | |n sk|n]; try discriminate; cbn [d_handle].
  - destruct sk; try discriminate. unfold d_worker_workerfinished, hook. dd.
  - apply rd_errordown.
Qed.
#[export] Hint Resolve rd_handle : dddb.

Lemma rd_loop_once ev d0 : from RD d0 (d_loop_once ev).
Proof. unfold d_loop_once. dd. Qed.

(* A3 *)
Theorem loop_once_sdflag ev d d' o r :
  d_loop_once ev d = (d', o, r) -> fresh d -> sdflag_rel (d_nt d) (d_nt d') o /\ fresh d'.
Proof. intros H F. destruct (rd_loop_once ev d _ _ _ H F) as (F' & Hs). split; assumption. Qed.
Print Assumptions loop_once_sdflag.

(* for events other than the two death notices no hypothesis on ids is needed *)
Lemma rk_loop_once ev d0 : death_event ev = false -> from RK d0 (d_loop_once ev).
Proof. intros Hd. unfold d_loop_once. pose proof (fun d => rk_handle ev d Hd). dd. Qed.

Theorem loop_once_sdflag_no_death ev d d' o r :
  death_event ev = false -> d_loop_once ev d = (d', o, r) ->
  sdflag_rel (d_nt d) (d_nt d') o /\ d_next_gw d' = d_next_gw d.
Proof. intros Hd H. destruct (rk_loop_once ev d Hd _ _ _ H) as ((Hs & _) & Hg). split; assumption. Qed.
Print Assumptions loop_once_sdflag_no_death.

Theorem handle_sdflag ev d d' o r :
  d_handle ev d = (d', o, r) -> fresh d -> sdflag_rel (d_nt d) (d_nt d') o /\ fresh d'.
Proof. intros H F. destruct (rd_handle ev d _ _ _ H F) as (F' & Hs). split; assumption. Qed.

Theorem triggershutdown_sdflag d d' o r :
  d_triggershutdown d = (d', o, r) -> sdflag_rel (d_nt d) (d_nt d') o.
Proof. intros H. exact (proj1 (proj1 (rk_triggershutdown d _ _ _ H))). Qed.

(* ------------------------------------------------------------------------------------------ *)
(* A4: whole runs of the controller loop                                                       *)
(* ------------------------------------------------------------------------------------------ *)
Lemma run_sdflag evs d d' o r :
  d_run evs d = (d', o, r) -> fresh d -> sdflag_rel (d_nt d) (d_nt d') o /\ fresh d'.
Proof.
  revert d d' o r. induction evs as [|ev rest IH]; intros d d' o r H F; cbn [d_run] in H.
  - inversion H; subst. split; [apply sdflag_refl|exact F].
  - destruct (d_loop_once ev d) as [[d1 o1] r1] eqn:E1.
    destruct (loop_once_sdflag _ _ _ _ _ E1 F) as (S1 & F1).
    destruct r1 as [[]|e].
    + destruct (d_run rest d1) as [[d2 o2] r2] eqn:E2. inversion H; subst.
      destruct (IH _ _ _ _ E2 F1) as (S2 & F2). split; [eapply sdflag_trans; eauto|exact F2].
    + inversion H; subst. split; assumption.
Qed.

Theorem run_shutdown_once evs d d' o r :
  d_run evs d = (d', o, r) -> fresh d -> forall n, sd_count n o <= 1.
Proof. intros H F n. destruct (run_sdflag _ _ _ _ _ H F) as (Hs & _). exact (proj1 (proj2 (Hs n))). Qed.
Print Assumptions run_shutdown_once.

(* a worker that was already told before the run is never told again *)
Theorem run_no_second_shutdown evs d d' o r n :
  d_run evs d = (d', o, r) -> fresh d -> flag (d_nt d) n = true -> sd_count n o = 0 /\ flag (d_nt d') n = true.
Proof.
  intros H F Hn. destruct (run_sdflag _ _ _ _ _ H F) as (Hs & _).
  destruct (proj1 (Hs n) Hn) as (A & B). split; assumption.
Qed.
Print Assumptions run_no_second_shutdown.

(* ------------------------------------------------------------------------------------------ *)
(* A2: work is only sent to workers that were not told to shut down                            *)
(* ------------------------------------------------------------------------------------------ *)
(* A1 plus the guard: no work for a node whose flag was set at the start *)
Definition g_rel (nt nt' : ntable) (o : list out) : Prop :=
  nt_rel nt nt' o /\ forall n, flag nt n = true -> work_count n o = 0.
(* "frozen": the table is unchanged, no shutdown command at all, and the guard *)
Definition z_rel (nt nt' : ntable) (o : list out) : Prop :=
  nt' = nt /\ (forall n, sd_count n o = 0) /\ (forall n, flag nt n = true -> work_count n o = 0).

Lemma g_rel_refl nt : g_rel nt nt [].
Proof. split; [apply nt_rel_refl|intros; reflexivity]. Qed.
Lemma g_rel_trans a b c o1 o2 : g_rel a b o1 -> g_rel b c o2 -> g_rel a c (o1 ++ o2).
Proof.
  intros (A1 & A2) (B1 & B2). split; [eapply nt_rel_trans; eauto|].
  intros n F. rewrite work_count_app, (A2 n F). destruct (proj1 (proj1 A1 n) F) as (Fb & _).
  rewrite (B2 n Fb). reflexivity.
Qed.
Lemma z_rel_refl nt : z_rel nt nt [].
Proof. split; [reflexivity|split; intros; reflexivity]. Qed.
Lemma z_rel_trans a b c o1 o2 : z_rel a b o1 -> z_rel b c o2 -> z_rel a c (o1 ++ o2).
Proof.
  intros (-> & A2 & A3) (-> & B2 & B3). split; [reflexivity|]. split.
  - intros n. rewrite sd_count_app, A2, B2. reflexivity.
  - intros n F. rewrite work_count_app, (A3 n F), (B3 n F). reflexivity.
Qed.
Lemma z_g a b o : z_rel a b o -> g_rel a b o.
Proof.
  intros (-> & Z1 & Z2). split; [|exact Z2]. split; [|intros m H; exact H].
  intros n. rewrite Z1. repeat split; auto; try lia; discriminate.
Qed.
Lemma z_rel_emit nt x : (forall n, is_sd n x = false) -> (forall n, is_work n x = false) -> z_rel nt nt [x].
Proof.
  intros H1 H2. split; [reflexivity|]. split; intros n.
  - rewrite sd_count_one, H1. reflexivity.
  - intros _. rewrite work_count_one, H2. reflexivity.
Qed.
(* sending work to a node whose flag is unset *)
Lemma z_rel_send nt n c : c <> CShutdown -> flag nt n = false -> z_rel nt nt [OSend n c].
Proof.
  intros Hc Hf. split; [reflexivity|]. split; intros m.
  - rewrite sd_count_one. destruct c; try reflexivity. contradiction.
  - intros Fm. rewrite work_count_one.
    assert (E : Nat.eqb n m = false) by (apply Nat.eqb_neq; intros ->; congruence).
    destruct c; cbn [is_work]; rewrite ?E; reflexivity.
Qed.

Lemma flag_of_sd nt n c : aget n nt = Some c -> shutting_down c = false -> flag nt n = false.
Proof. intros H E. unfold flag. rewrite H. unfold shutting_down in E. apply orb_false_iff in E. apply E. Qed.

Lemma node_shutdown_out {S} (nt_of : S -> ntable) set_nt n s s' o r :
  node_shutdown nt_of set_nt n s = (s', o, r) ->
  (s' = s \/ exists v, s' = set_nt s v) /\ (o = [] \/ o = [OSend n CShutdown]).
Proof.
  unfold node_shutdown, node_send, node_flags, mbind, get, of_opt.
  destruct (aget n (nt_of s)) as [f|] eqn:Ef; cbn [ret raise]; [|intros H; inversion H; auto].
  unfold ret. destruct (n_down f || n_sdsent f); [intros H; inversion H; auto|].
  rewrite Ef.
  destruct (n_closed f); unfold emit, put; intros H; inversion H; (split; [right; eexists; reflexivity|auto]).
Qed.

(* the logic once more, with what the first part of a bind established *)
Lemma f_bind_r {S A B} (R : S -> S -> list out -> Prop) s0 (m : M S A) (f : A -> M S B) :
  rtrans R -> from R s0 m -> (forall a s1 o1, R s0 s1 o1 -> from R s1 (f a)) -> from R s0 (mbind m f).
Proof.
  intros Rt Hm Hf s' o r H. unfold mbind in H.
  destruct (m s0) as [[s1 o1] r1] eqn:E1. specialize (Hm _ _ _ E1).
  destruct r1 as [a|e].
  - destruct (f a s1) as [[s2 o2] r2] eqn:E2. inversion H; subst.
    eapply Rt; [exact Hm|]. exact (Hf a s1 o1 Hm _ _ _ E2).
  - inversion H; subst. exact Hm.
Qed.

Section GRel.
  Context {S : Type} (nt_of : S -> ntable) (set_nt : S -> ntable -> S).
  Hypothesis nt_set : forall s v, nt_of (set_nt s v) = v.

  Definition gR (s s' : S) (o : list out) : Prop := g_rel (nt_of s) (nt_of s') o.
  Definition zR (s s' : S) (o : list out) : Prop := z_rel (nt_of s) (nt_of s') o.
  Lemma gR_refl : rrefl gR. Proof. intros s. apply g_rel_refl. Qed.
  Lemma gR_trans : rtrans gR. Proof. intros a b c o1 o2. apply g_rel_trans. Qed.
  Lemma zR_refl : rrefl zR. Proof. intros s. apply z_rel_refl. Qed.
  Lemma zR_trans : rtrans zR. Proof. intros a b c o1 o2. apply z_rel_trans. Qed.

  Lemma z_g_from {A} s0 (m : M S A) : from zR s0 m -> from gR s0 m.
  Proof. intros H s' o r E. apply z_g. exact (H _ _ _ E). Qed.

  Lemma z_node_send n c s0 : c <> CShutdown -> flag (nt_of s0) n = false -> from zR s0 (node_send nt_of n c).
  Proof.
    intros Hc Hf. unfold node_send. apply f_flags_bind; [apply zR_refl|]. intros f Ef.
    destruct (n_closed f); [apply f_ret, zR_refl|].
    apply f_emit. apply z_rel_send; assumption.
  Qed.

  Lemma g_node_shutdown n s0 : from gR s0 (node_shutdown nt_of set_nt n).
  Proof.
    intros s' o r H. split; [exact (sd_node_shutdown nt_of set_nt nt_set n s0 _ _ _ H)|].
    intros m _. destruct (node_shutdown_out _ _ _ _ _ _ _ H) as (_ & [->| ->]); reflexivity.
  Qed.
End GRel.
#[export] Hint Resolve gR_refl gR_trans zR_refl zR_trans : sdrel.

Create HintDb gdb.
Ltac pre :=
  first [ assumption | congruence
        | eapply flag_of_sd; eassumption
        | solve [eauto] ].
Ltac g_rel_now :=
  unfold gR, zR;
  first [ exact (g_rel_refl _) | exact (z_rel_refl _)
        | apply z_g, z_rel_emit; intros ?; reflexivity
        | apply z_rel_emit; intros ?; reflexivity ].
Ltac g1 :=
  first
    [ apply f_ret; rr | apply f_raise; rr | apply f_massert; rr | apply f_of_opt; rr
    | apply f_getv; rr
    | apply f_put; g_rel_now
    | apply f_emit; g_rel_now
    | apply f_mfor; [rr | rr | intros ? ?]
    | apply g_node_shutdown; intros; reflexivity
    | apply z_node_send; [discriminate | pre]
    | apply z_g_from, z_node_send; [discriminate | pre]
    | apply f_flags; rr
    | match goal with
      | |- from _ _ (mbind get _) => apply f_get
      | |- from _ _ (mbind (ret _) _) => apply f_ret_bind
      | |- from _ _ (mbind (of_opt _ _) _) => apply f_of_opt_bind; [rr | intros ? ?]
      | |- from _ _ (mbind (massert _) _) => apply f_massert_bind; [rr | intros ?]
      | |- from _ _ (mbind (put _) _) => apply f_put_bind; [rr | g_rel_now | ]
      | |- from _ _ (mbind (node_flags _ _) _) => apply f_flags_bind; [rr | intros ? ?]
      | |- from _ _ (mbind (node_shutting_down _ _) _) => apply f_nsd_bind; [rr | intros ? ?]
      | |- from (zR _) _ (mbind _ _) =>
          apply f_bind_r; [rr | | let H := fresh "Z" in intros ? ? ? H; destruct H as (H & _)]
      | |- from _ _ (mbind _ _) => apply f_bind; [rr | | intros ? ?]
      end
    | progress cbv zeta
    | match goal with
      | |- from _ _ (match ?x with _ => _ end) => destruct x eqn:?
      | |- from _ _ (let '(_, _) := ?x in _) => destruct x eqn:?
      end
    | solve [eauto with gdb] ].
Ltac gg := repeat g1.

Notation lg := (from (gR l_nt)).
Notation lz := (from (zR l_nt)).
Notation wg := (from (gR ws_nt)).
Notation wz := (from (zR ws_nt)).
Notation cg := (from (gR sc_nt)).
Notation cz := (from (zR sc_nt)).
Notation eg := (from (gR e_nt)).
Notation ez := (from (zR e_nt)).

(* ---- load ---- *)
Lemma z_l_send_tests n num s0 : flag (l_nt s0) n = false -> lz s0 (l_send_tests n num).
Proof. intros Hf. unfold l_send_tests. gg. Qed.
#[export] Hint Extern 1 (from (zR l_nt) _ (l_send_tests _ _)) => apply z_l_send_tests; pre : gdb.
#[export] Hint Extern 1 (from (gR l_nt) _ (l_send_tests _ _)) => apply z_g_from, z_l_send_tests; pre : gdb.
Lemma g_l_check_schedule n d s0 : lg s0 (l_check_schedule n d).
Proof. unfold l_check_schedule. gg. Qed.
#[export] Hint Resolve g_l_check_schedule : gdb.
Lemma g_l_add_node n s0 : lg s0 (l_add_node n).
Proof. unfold l_add_node. gg. Qed.
#[export] Hint Resolve g_l_add_node : gdb.
Lemma g_l_add_coll n c s0 : lg s0 (l_add_node_collection n c).
Proof. unfold l_add_node_collection. gg. Qed.
#[export] Hint Resolve g_l_add_coll : gdb.
Lemma g_l_complete n i d s0 : lg s0 (l_mark_test_complete n i d).
Proof. unfold l_mark_test_complete. gg. Qed.
#[export] Hint Resolve g_l_complete : gdb.
Lemma g_l_pending it s0 : lg s0 (l_mark_test_pending it).
Proof. unfold l_mark_test_pending. gg. Qed.
#[export] Hint Resolve g_l_pending : gdb.
Lemma g_l_remove n s0 : lg s0 (l_remove_node n).
Proof. unfold l_remove_node. gg. Qed.
#[export] Hint Resolve g_l_remove : gdb.

(* computations that leave the state alone and send nothing (the collection comparison) *)
Definition stateless {S A} (m : M S A) (s0 : S) : Prop :=
  forall s' o r, m s0 = (s', o, r) -> s' = s0 /\ forall n, sd_count n o = 0 /\ work_count n o = 0.

Lemma g_rel_quiet nt o : (forall n, sd_count n o = 0 /\ work_count n o = 0) -> g_rel nt nt o.
Proof.
  intros H. split; [split; [|intros m Hm; exact Hm]|intros n _; apply H].
  intros n. rewrite (proj1 (H n)). repeat split; auto; try lia; discriminate.
Qed.

Lemma f_bind_stateless {S A B} (nt_of : S -> ntable) s0 (m : M S A) (k : A -> M S B) :
  stateless m s0 -> (forall a, from (gR nt_of) s0 (k a)) -> from (gR nt_of) s0 (mbind m k).
Proof.
  intros Hm Hk s' o r H. apply mbind_inv in H.
  destruct H as [(s1 & o1 & a & o2 & H1 & H2 & ->)|(e & H1 & ->)].
  - destruct (Hm _ _ _ H1) as (-> & Q). eapply gR_trans; [apply g_rel_quiet; exact Q|exact (Hk a _ _ _ H2)].
  - destruct (Hm _ _ _ H1) as (-> & Q). apply g_rel_quiet. exact Q.
Qed.

Lemma colldiff_mfor {S} col first (others : list (nat * list string)) (s s' : S) o r :
  mfor others (fun p => if coll_eqb col (snd p) then ret tt else emit (OCollDiff first (fst p))) s = (s', o, r) ->
  s' = s /\ forall n, sd_count n o = 0 /\ work_count n o = 0.
Proof.
  revert o r. induction others as [|p others IH]; cbn [mfor]; intros o r H.
  - inversion H; subst. split; [reflexivity|intros; split; reflexivity].
  - apply mbind_inv in H. destruct H as [(s1 & o1 & a & o2 & H1 & H2 & ->)|(e & H1 & ->)].
    + assert (E : s1 = s /\ forall n, sd_count n o1 = 0 /\ work_count n o1 = 0).
      { destruct (coll_eqb col (snd p)); unfold ret, emit in H1; inversion H1; subst;
          (split; [reflexivity|intros; split; reflexivity]). }
      destruct E as (-> & Q1). destruct (IH _ _ H2) as (-> & Q2). split; [reflexivity|].
      intros n. rewrite sd_count_app, work_count_app. destruct (Q1 n), (Q2 n). lia.
    + destruct (coll_eqb col (snd p)); unfold ret, emit in H1; inversion H1.
Qed.

Lemma stateless_l_same s0 : stateless l_same_collection s0.
Proof.
  intros s' o r H. unfold l_same_collection in H. unfold mbind at 1 in H. unfold get in H.
  destruct (l_n2c s0) as [|[first col] others].
  - unfold raise in H. inversion H; subst. split; [reflexivity|intros; split; reflexivity].
  - destruct ((mfor others (fun p => if coll_eqb col (snd p) then ret tt else emit (OCollDiff first (fst p)));;;
               ret (forallb (fun p => coll_eqb col (snd p)) others)) s0) as [[sx ox] rx] eqn:E.
    inversion H; subst. clear H. apply mbind_inv in E.
    destruct E as [(s1 & o1 & a & o2 & H1 & H2 & ->)|(e & H1 & ->)].
    + unfold ret in H2. inversion H2; subst. rewrite app_nil_r. exact (colldiff_mfor _ _ _ _ _ _ _ H1).
    + exact (colldiff_mfor _ _ _ _ _ _ _ H1).
Qed.

(* a loop of frozen steps whose precondition only depends on the node table *)
Lemma z_mfor_pre {S A} (nt_of : S -> ntable) (l : list A) (f : A -> M S unit) (P : ntable -> A -> Prop) s0 :
  (forall a s, In a l -> P (nt_of s) a -> from (zR nt_of) s (f a)) ->
  (forall a, In a l -> P (nt_of s0) a) -> from (zR nt_of) s0 (mfor l f).
Proof.
  revert s0. induction l as [|x l IH]; intros s0 Hf Hp; cbn [mfor]; [apply f_ret; rr|].
  apply f_bind_r; [rr|apply Hf; [left; reflexivity|apply Hp; left; reflexivity]|].
  intros _ s1 o1 (Z & _). apply IH.
  - intros a s Ha. apply Hf. right. exact Ha.
  - intros a Ha. unfold ntable in *. rewrite Z. apply Hp. right. exact Ha.
Qed.

Lemma z_l_round_robin fuel all cur s0 :
  (forall n, In n all -> flag (l_nt s0) n = false) -> (forall n, In n cur -> flag (l_nt s0) n = false) ->
  lz s0 (l_round_robin fuel all cur).
Proof.
  revert cur s0. induction fuel as [|f IH]; intros cur s0 Ha Hc; cbn [l_round_robin]; [gg|].
  destruct cur as [|n r]; [destruct all as [|n r]; [gg|]|].
  - apply f_bind_r; [rr|apply z_l_send_tests; apply Ha; left; reflexivity|].
    intros _ s1 o1 (Z & _). apply IH; intros m Hm; rewrite Z; apply Ha; [exact Hm|right; exact Hm].
  - apply f_bind_r; [rr|apply z_l_send_tests; apply Hc; left; reflexivity|].
    intros _ s1 o1 (Z & _). apply IH; intros m Hm; rewrite Z; [apply Ha; exact Hm|apply Hc; right; exact Hm].
Qed.

(* LoadScheduling.schedule: the later calls are guarded by check_schedule; the INITIAL distribution
   sends to every registered node without looking at _shutdown_sent, so the guard needs the
   hypothesis that no registered node has been told to shut down (see ex_load_initial_unguarded) *)
Lemma g_l_schedule s0 :
  (l_coll s0 = None -> forall n, In n (l_nodes s0) -> flag (l_nt s0) n = false) -> lg s0 l_schedule.
Proof.
  intros Hyp. unfold l_schedule. apply f_get. apply f_massert_bind; [rr|intros Hc].
  destruct (l_coll s0) eqn:Ec; [gg|]. specialize (Hyp eq_refl).
  apply f_bind_stateless; [apply stateless_l_same|intros same].
  destruct (negb same); [gg|]. apply f_get. apply f_of_opt_bind; [rr|intros coll Hcoll].
  apply f_put_bind; [rr|g_rel_now|]. destruct coll as [|c0 cr]; [gg|].
  apply f_get. cbv zeta. apply f_put_bind; [rr|g_rel_now|]. apply f_get. cbv zeta.
  apply f_bind; [rr| |intros; gg].
  match goal with |- from _ _ (if ?x then _ else _) => destruct x end.
  - apply z_g_from, z_l_round_robin; exact Hyp.
  - match goal with |- from _ _ (if ?x then _ else _) => destruct x end; [gg|]. cbv zeta.
    apply z_g_from. apply (z_mfor_pre l_nt _ _ (fun nt n => flag nt n = false)).
    + intros n s Hn Hf. apply z_l_send_tests. exact Hf.
    + exact Hyp.
Qed.

(* ---- worksteal: every send is guarded (nodes_up excludes nodes that are shutting down) ---- *)
Lemma f_bind_zg {S A B} (nt_of : S -> ntable) s0 (m : M S A) (k : A -> M S B) :
  from (zR nt_of) s0 m -> (forall a s1, nt_of s1 = nt_of s0 -> from (gR nt_of) s1 (k a)) ->
  from (gR nt_of) s0 (mbind m k).
Proof.
  intros Hm Hk s' o r H. apply mbind_inv in H.
  destruct H as [(s1 & o1 & a & o2 & H1 & H2 & ->)|(e & H1 & ->)].
  - pose proof (Hm _ _ _ H1) as Z. eapply gR_trans; [apply z_g; exact Z|].
    exact (Hk a s1 (proj1 Z) _ _ _ H2).
  - apply z_g. exact (Hm _ _ _ H1).
Qed.

Lemma z_ws_send_tests n num s0 : flag (ws_nt s0) n = false -> wz s0 (ws_send_tests n num).
Proof. intros Hf. unfold ws_send_tests. gg. Qed.
Lemma z_ws_distribute idle s0 :
  (forall n, In n idle -> flag (ws_nt s0) n = false) -> wz s0 (ws_distribute idle).
Proof.
  revert s0. induction idle as [|n r IH]; intros s0 Hp; cbn [ws_distribute]; [gg|].
  apply f_get. cbv zeta. apply f_bind_r; [rr|apply z_ws_send_tests; apply Hp; left; reflexivity|].
  intros _ s1 o1 (Z & _). apply IH. intros m Hm. rewrite Z. apply Hp. right. exact Hm.
Qed.

Lemma ws_up_unflagged s n : In n (ws_up s) -> flag (ws_nt s) n = false.
Proof.
  unfold ws_up. intros H. apply filter_In in H. destruct H as (_ & H).
  destruct (aget n (ws_nt s)) as [c|] eqn:E; [|discriminate].
  apply andb_true_iff in H. destruct H as (H & _). apply negb_true_iff in H.
  eapply flag_of_sd; eassumption.
Qed.
Lemma first_max_in s l best v : first_max s l best = Some v -> In v l \/ best = Some v.
Proof.
  revert best. induction l as [|n r IH]; intros best H; cbn [first_max] in H; [right; exact H|].
  destruct best as [b|].
  - destruct (ws_len s b <? ws_len s n).
    + destruct (IH _ H) as [K|K]; [left; right; exact K|left; left; congruence].
    + destruct (IH _ H) as [K|K]; [left; right; exact K|right; exact K].
  - destruct (IH _ H) as [K|K]; [left; right; exact K|left; left; congruence].
Qed.

Lemma g_ws_check s0 : wg s0 ws_check_schedule.
Proof.
  unfold ws_check_schedule. apply f_get. destruct (ws_coll s0); [|gg]. cbv zeta.
  assert (Hidle : forall n, In n (ws_idle s0 (ws_up s0)) -> flag (ws_nt s0) n = false).
  { intros n Hn. unfold ws_idle in Hn. apply filter_In in Hn. apply ws_up_unflagged. apply Hn. }
  destruct (ws_idle s0 (ws_up s0)) as [|i0 idle] eqn:Ei; [gg|].
  apply f_bind_zg.
  { destruct (ws_pending s0); [gg|]. apply z_ws_distribute. exact Hidle. }
  intros _ s1 Z.
  assert (Hup : forall v, first_max s1 (ws_up s0) None = Some v -> flag (ws_nt s1) v = false).
  { intros v Hv. rewrite Z. apply ws_up_unflagged. destruct (first_max_in _ _ _ _ Hv) as [K|K]; [exact K|discriminate]. }
  gg.
Qed.
#[export] Hint Resolve g_ws_check : gdb.
Lemma g_ws_add_node n s0 : wg s0 (ws_add_node n).
Proof. unfold ws_add_node. gg. Qed.
#[export] Hint Resolve g_ws_add_node : gdb.
Lemma g_ws_add_coll n c s0 : wg s0 (ws_add_node_collection n c).
Proof. unfold ws_add_node_collection. gg. Qed.
#[export] Hint Resolve g_ws_add_coll : gdb.
Lemma g_ws_complete n i s0 : wg s0 (ws_mark_test_complete n i).
Proof. unfold ws_mark_test_complete. gg. Qed.
#[export] Hint Resolve g_ws_complete : gdb.
Lemma g_ws_pending it s0 : wg s0 (ws_mark_test_pending it).
Proof. unfold ws_mark_test_pending. gg. Qed.
#[export] Hint Resolve g_ws_pending : gdb.
Lemma g_ws_unsched n ixs s0 : wg s0 (ws_remove_pending_tests_from_node n ixs).
Proof. unfold ws_remove_pending_tests_from_node. gg. Qed.
#[export] Hint Resolve g_ws_unsched : gdb.
Lemma g_ws_remove n s0 : wg s0 (ws_remove_node n).
Proof. unfold ws_remove_node. gg. Qed.
#[export] Hint Resolve g_ws_remove : gdb.
Lemma g_ws_same s0 : wg s0 ws_same_collection.
Proof. unfold ws_same_collection. gg. Qed.
#[export] Hint Resolve g_ws_same : gdb.
Lemma g_ws_schedule s0 : wg s0 ws_schedule.
Proof. unfold ws_schedule. gg. Qed.
#[export] Hint Resolve g_ws_schedule : gdb.

(* ---- scope family ---- *)
#[export] Hint Extern 1 (flag _ _ = false) => congruence : gdb.
Lemma z_sc_assign n s0 : flag (sc_nt s0) n = false -> cz s0 (sc_assign_work_unit n).
Proof. intros Hf. unfold sc_assign_work_unit. gg. Qed.
#[export] Hint Extern 1 (from (zR sc_nt) _ (sc_assign_work_unit _)) => apply z_sc_assign; pre : gdb.
Lemma z_sc_top_up fuel n s0 : flag (sc_nt s0) n = false -> cz s0 (sc_top_up fuel n).
Proof. revert s0. induction fuel as [|f IH]; intros s0 Hf; cbn [sc_top_up]; gg. Qed.
#[export] Hint Extern 1 (from (zR sc_nt) _ (sc_top_up _ _)) => apply z_sc_top_up; pre : gdb.
Lemma z_sc_assign_topup n s0 :
  flag (sc_nt s0) n = false ->
  cz s0 (sc_assign_work_unit n ;;; (s1 <- get ;; sc_top_up (length (sc_wq s1)) n)).
Proof. intros Hf. gg. Qed.
Lemma g_sc_reschedule n s0 : cg s0 (sc_reschedule n).
Proof.
  unfold sc_reschedule. apply f_nsd_bind; [rr|]. intros c Hc.
  destruct (shutting_down c) eqn:Esd; [gg|]. apply f_get.
  destruct (sc_wq s0); [gg|]. destruct (negb (ahas n (sc_reg s0))); [gg|].
  apply f_of_opt_bind; [rr|]. intros wl Hw. destruct (2 <? pending_of wl); [gg|].
  apply z_g_from, z_sc_assign_topup. eapply flag_of_sd; eassumption.
Qed.
#[export] Hint Resolve g_sc_reschedule : gdb.
Lemma g_sc_add_node n s0 : cg s0 (sc_add_node n).
Proof. unfold sc_add_node. gg. Qed.
#[export] Hint Resolve g_sc_add_node : gdb.
Lemma g_sc_remove n s0 : cg s0 (sc_remove_node n).
Proof. unfold sc_remove_node. gg. Qed.
#[export] Hint Resolve g_sc_remove : gdb.
Lemma g_sc_add_coll n c s0 : cg s0 (sc_add_node_collection n c).
Proof. unfold sc_add_node_collection. gg. Qed.
#[export] Hint Resolve g_sc_add_coll : gdb.
Lemma g_sc_complete n i s0 : cg s0 (sc_mark_test_complete n i).
Proof. unfold sc_mark_test_complete. gg. Qed.
#[export] Hint Resolve g_sc_complete : gdb.
Lemma g_sc_pop_extra k s0 : cg s0 (sc_pop_extra k).
Proof. revert s0. induction k as [|k IH]; intros s0; cbn [sc_pop_extra]; gg. Qed.
#[export] Hint Resolve g_sc_pop_extra : gdb.

(* ---- each: everything except schedule() sends no work at all ---- *)
Lemma g_e_add_node n s0 : eg s0 (e_add_node n).
Proof. unfold e_add_node. gg. Qed.
#[export] Hint Resolve g_e_add_node : gdb.
Lemma g_e_inherit n c dead s0 : eg s0 (e_inherit n c dead).
Proof. revert s0. induction dead as [|[d p] r IH]; intros s0; cbn [e_inherit]; gg. Qed.
#[export] Hint Resolve g_e_inherit : gdb.
Lemma g_e_add_coll n c s0 : eg s0 (e_add_node_collection n c).
Proof. unfold e_add_node_collection. gg. Qed.
#[export] Hint Resolve g_e_add_coll : gdb.
Lemma g_e_complete n i s0 : eg s0 (e_mark_test_complete n i).
Proof. unfold e_mark_test_complete. gg. Qed.
#[export] Hint Resolve g_e_complete : gdb.
Lemma g_e_remove n s0 : eg s0 (e_remove_node n).
Proof. unfold e_remove_node. gg. Qed.
#[export] Hint Resolve g_e_remove : gdb.

(* ---- relations that need, and keep, an invariant of the state ---- *)
Definition with_inv {S} (I : S -> Prop) (R : S -> S -> list out -> Prop) (s s' : S) (o : list out) : Prop :=
  I s -> I s' /\ R s s' o.
Lemma with_inv_refl {S} (I : S -> Prop) R : rrefl R -> rrefl (with_inv I R).
Proof. intros Rr s HI. split; [exact HI|apply Rr]. Qed.
Lemma with_inv_trans {S} (I : S -> Prop) R : rtrans R -> rtrans (with_inv I R).
Proof.
  intros Rt a b c o1 o2 HA HB HI. destruct (HA HI) as (Ib & R1). destruct (HB Ib) as (Ic & R2).
  split; [exact Ic|eapply Rt; eauto].
Qed.

Lemma f_mfor_in {S A} (R : S -> S -> list out -> Prop) (l : list A) (f : A -> M S unit) :
  rrefl R -> rtrans R -> (forall a, In a l -> spec R (f a)) -> spec R (mfor l f).
Proof.
  intros Rr Rt. induction l as [|x l IH]; intros Hf s0; cbn [mfor]; [apply f_ret; exact Rr|].
  apply f_bind; [exact Rt|apply Hf; left; reflexivity|intros _ s1; apply IH].
  intros a Ha. apply Hf. right. exact Ha.
Qed.

Lemma node_send_out {S} (nt_of : S -> ntable) n c s s' o r :
  node_send nt_of n c s = (s', o, r) -> s' = s /\ (o = [] \/ o = [OSend n c]).
Proof.
  unfold node_send, node_flags, mbind, get, of_opt.
  destruct (aget n (nt_of s)) as [f|]; cbn [ret raise]; [|intros H; inversion H; auto].
  unfold ret. destruct (n_closed f); unfold emit; intros H; inversion H; auto.
Qed.

(* shutdown(n) changes no other node's flag *)
Lemma node_shutdown_flags {S} (nt_of : S -> ntable) set_nt n s s' o r :
  (forall s v, nt_of (set_nt s v) = v) ->
  node_shutdown nt_of set_nt n s = (s', o, r) -> forall m, m <> n -> flag (nt_of s') m = flag (nt_of s) m.
Proof.
  intros nt_set. unfold node_shutdown, node_send, node_flags, mbind, get, of_opt.
  destruct (aget n (nt_of s)) as [f|] eqn:Ef; cbn [ret raise]; [|intros H; inversion H; auto].
  unfold ret. destruct (n_down f || n_sdsent f); [intros H; inversion H; auto|].
  rewrite Ef.
  destruct (n_closed f); unfold emit, put; intros H m Hm; inversion H; rewrite nt_set; unfold flag;
    rewrite aget_aset; apply Nat.eqb_neq in Hm; rewrite Hm; reflexivity.
Qed.

Lemma inv_node_send {S} (nt_of : S -> ntable) (I : S -> Prop) n c s0 :
  c <> CShutdown -> (I s0 -> flag (nt_of s0) n = false) ->
  from (with_inv I (gR nt_of)) s0 (node_send nt_of n c).
Proof.
  intros Hc Hf s' o r H HI. destruct (node_send_out _ _ _ _ _ _ _ H) as (-> & _).
  split; [exact HI|]. apply z_g. exact (z_node_send nt_of n c s0 Hc (Hf HI) _ _ _ H).
Qed.

(* ---- each: schedule() sends to every node that is not in _started; a node is put there
        together with its shutdown(), so "flag set => started" is the invariant ---- *)
Definition e_inv (keys : list nat) (s : estate) : Prop :=
  forall n, In n keys -> flag (e_nt s) n = true -> mem_nat n (e_started s) = true.

Lemma mem_nat_app n a b : mem_nat n (a ++ b) = mem_nat n a || mem_nat n b.
Proof. unfold mem_nat. apply existsb_app. Qed.

Notation ei keys := (from (with_inv (e_inv keys) (gR e_nt))).

Lemma ei_refl keys : rrefl (with_inv (e_inv keys) (gR e_nt)).
Proof. apply with_inv_refl, gR_refl. Qed.
Lemma ei_trans keys : rtrans (with_inv (e_inv keys) (gR e_nt)).
Proof. apply with_inv_trans, gR_trans. Qed.
#[export] Hint Resolve ei_refl ei_trans : sdrel.

Lemma ei_mark_started keys n s0 :
  ei keys s0 (s1 <- get ;; put (e_set_started s1 (e_started s1 ++ [n]))).
Proof.
  apply f_get. apply f_put. intros HJ. split; [|apply g_rel_refl].
  intros m Hm Hf. cbn [e_started e_set_started]. rewrite mem_nat_app. rewrite (HJ m Hm Hf). reflexivity.
Qed.

Lemma ei_shutdown_started keys n s0 :
  ei keys s0 (node_shutdown e_nt e_set_nt n ;;; s1 <- get ;; put (e_set_started s1 (e_started s1 ++ [n]))).
Proof.
  intros s' o r H HJ. apply mbind_inv in H.
  destruct H as [(s1 & o1 & [] & o2 & H1 & H2 & ->)|(e & H1 & ->)].
  - pose proof (g_node_shutdown e_nt e_set_nt (fun _ _ => eq_refl) n s0 _ _ _ H1) as G1.
    unfold mbind, get, put in H2. inversion H2; subst. clear H2. rewrite app_nil_r.
    split; [|exact G1].
    intros m Hm Hf. cbn [e_started e_set_started e_nt] in *. rewrite mem_nat_app.
    destruct (Nat.eqb m n) eqn:E.
    + cbn. rewrite E. apply orb_true_r.
    + apply Nat.eqb_neq in E.
      rewrite (node_shutdown_flags e_nt e_set_nt n _ _ _ _ (fun _ _ => eq_refl) H1 m E) in Hf.
      assert (Es : e_started s1 = e_started s0).
      { destruct (node_shutdown_out _ _ _ _ _ _ _ H1) as ([->|(v & ->)] & _); reflexivity. }
      rewrite Es, (HJ m Hm Hf). reflexivity.
  - pose proof (g_node_shutdown e_nt e_set_nt (fun _ _ => eq_refl) n s0 _ _ _ H1) as G1.
    split; [|exact G1].
    (* shutdown() raised: only possible before anything was changed *)
    assert (Es : s' = s0).
    { revert H1. unfold node_shutdown, node_send, node_flags, mbind, get, of_opt.
      destruct (aget n (e_nt s0)) as [f|] eqn:Ef; cbn [ret raise]; [|intros H; inversion H; auto].
      unfold ret. destruct (n_down f || n_sdsent f); [intros H; inversion H; auto|].
      rewrite Ef. destruct (n_closed f); unfold emit, put; intros H; inversion H. }
    subst s'. exact HJ.
Qed.

Lemma ei_schedule_node keys n s0 : In n keys -> ei keys s0 (e_schedule_node n).
Proof.
  intros Hin. unfold e_schedule_node. apply f_get.
  destruct (mem_nat n (e_started s0)) eqn:Em; [apply f_ret; rr|].
  apply f_of_opt_bind; [rr|]. intros pend Hp.
  assert (Hflag : e_inv keys s0 -> flag (e_nt s0) n = false).
  { intros HJ. destruct (flag (e_nt s0) n) eqn:F; [|reflexivity]. rewrite (HJ n Hin F) in Em. discriminate. }
  destruct pend as [|p pend]; [destruct (aget n (e_n2c s0)) as [coll|]|].
  - apply f_put_bind; [rr|intros HJ; split; [exact HJ|apply g_rel_refl]|].
    apply f_bind; [rr|apply inv_node_send; [discriminate|exact Hflag]|].
    intros _ s1. apply ei_shutdown_started.
  - apply f_ret; rr.
  - apply f_bind; [rr|apply inv_node_send; [discriminate|exact Hflag]|].
    intros _ s1. apply ei_mark_started.
Qed.

(* EachScheduling.schedule sends to every node not yet started without looking at
   _shutdown_sent; a replacement node that was found to be unnecessary (add_node_collection)
   is both shut down and marked started, so on states reached that way it is fine, but on an
   arbitrary state the guard needs the hypothesis (see ex_each_unguarded) *)
Lemma g_e_schedule s0 :
  (forall n, In n (e_nodes s0) -> flag (e_nt s0) n = false) -> eg s0 e_schedule.
Proof.
  intros Hyp s' o r H.
  assert (K : ei (akeys (e_n2p s0)) s0 e_schedule).
  { unfold e_schedule. apply f_get. apply f_massert_bind; [rr|intros _].
    apply f_mfor_in; [rr|rr|]. intros n Hn s. apply ei_schedule_node. exact Hn. }
  apply (K _ _ _ H). intros n Hn Hf. rewrite (Hyp n Hn) in Hf. discriminate.
Qed.

(* more generally: it is enough that flagged nodes are already marked as started *)
Lemma g_e_schedule_started s0 :
  (forall n, In n (e_nodes s0) -> flag (e_nt s0) n = true -> mem_nat n (e_started s0) = true) ->
  eg s0 e_schedule.
Proof.
  intros Hyp s' o r H.
  assert (K : ei (akeys (e_n2p s0)) s0 e_schedule).
  { unfold e_schedule. apply f_get. apply f_massert_bind; [rr|intros _].
    apply f_mfor_in; [rr|rr|]. intros n Hn s. apply ei_schedule_node. exact Hn. }
  apply (K _ _ _ H). exact Hyp.
Qed.

(* ---- loadscope: the initial distribution ---- *)
Lemma stateless_sc_same s0 : stateless sc_same_collection s0.
Proof.
  intros s' o r H. unfold sc_same_collection in H. unfold mbind at 1 in H. unfold get in H.
  destruct (sc_reg s0) as [|[first col] others].
  - unfold raise in H. inversion H; subst. split; [reflexivity|intros; split; reflexivity].
  - destruct ((mfor others (fun p => if coll_eqb col (snd p) then ret tt else emit (OCollDiff first (fst p)));;;
               ret (forallb (fun p => coll_eqb col (snd p)) others)) s0) as [[sx ox] rx] eqn:E.
    inversion H; subst. clear H. apply mbind_inv in E.
    destruct E as [(s1 & o1 & a & o2 & H1 & H2 & ->)|(e & H1 & ->)].
    + unfold ret in H2. inversion H2; subst. rewrite app_nil_r. exact (colldiff_mfor _ _ _ _ _ _ _ H1).
    + exact (colldiff_mfor _ _ _ _ _ _ _ H1).
Qed.
Lemma g_sc_same s0 : cg s0 sc_same_collection.
Proof. unfold sc_same_collection. gg. Qed.
#[export] Hint Resolve g_sc_same : gdb.

(* registered nodes are distinct and none of them has been told to shut down *)
Definition sc_inv (s : scstate) : Prop :=
  NoDup (sc_nodes s) /\ forall n, In n (sc_nodes s) -> flag (sc_nt s) n = false.

Lemma rev_cons_inv {A} (l : list A) x rest : rev l = x :: rest -> l = rev rest ++ [x].
Proof. intros H. rewrite <- (rev_involutive l), H. reflexivity. Qed.

(* popping the superfluous nodes and shutting them down keeps the invariant: the popped node
   is no longer registered *)
Lemma sc_pop_extra_inv k s0 s' o r : sc_pop_extra k s0 = (s', o, r) -> sc_inv s0 -> sc_inv s'.
Proof.
  revert s0 s' o r. induction k as [|k IH]; intros s0 s' o r H HI; cbn [sc_pop_extra] in H.
  - inversion H; subst. exact HI.
  - apply mbind_inv in H. destruct H as [(sg & og & sv & oR & Hg & H & ->)|(e & Hg & _)]; [|inversion Hg].
    unfold get in Hg. inversion Hg; subst sg og sv. clear Hg.
    destruct (rev (sc_assigned s0)) as [|[n w] rest] eqn:Er.
    + unfold raise in H. inversion H; subst. exact HI.
    + apply rev_cons_inv in Er.
      apply mbind_inv in H. destruct H as [(sp & op & [] & oR2 & Hp & H & ->)|(e & Hp & _)]; [|inversion Hp].
      unfold put in Hp. inversion Hp; subst sp op. clear Hp.
      set (X := sc_set_assigned s0 (removelast (sc_assigned s0))) in *.
      assert (HX : sc_nodes s0 = sc_nodes X ++ [n] /\ sc_nt X = sc_nt s0).
      { unfold X, sc_nodes. cbn [sc_assigned sc_set_assigned sc_nt]. split; [|reflexivity].
        rewrite Er at 1. rewrite Er, removelast_last. unfold akeys. rewrite map_app. reflexivity. }
      destruct HX as (HX1 & HX2). destruct HI as (ND & FL). rewrite HX1 in ND, FL.
      assert (Hn : ~ In n (sc_nodes X)).
      { apply NoDup_remove_2 in ND. rewrite app_nil_r in ND. exact ND. }
      assert (NDX : NoDup (sc_nodes X)).
      { apply NoDup_remove_1 in ND. rewrite app_nil_r in ND. exact ND. }
      assert (STEP : forall s2 o2 r2, node_shutdown sc_nt sc_set_nt n X = (s2, o2, r2) -> sc_inv s2).
      { intros s2 o2 r2 H2. pose proof (node_shutdown_flags sc_nt sc_set_nt n _ _ _ _ (fun _ _ => eq_refl) H2) as F2.
        assert (N2 : sc_nodes s2 = sc_nodes X).
        { destruct (node_shutdown_out _ _ _ _ _ _ _ H2) as ([->|(v & ->)] & _); reflexivity. }
        split; [rewrite N2; exact NDX|]. rewrite N2. intros m Hm. rewrite F2; [|intros ->; contradiction].
        rewrite HX2. apply FL. apply in_or_app. left. exact Hm. }
      apply mbind_inv in H.
      destruct H as [(s2 & o2 & [] & o3 & H2 & H3 & ->)|(e & H2 & ->)].
      * eapply IH; [exact H3|]. eapply STEP; exact H2.
      * eapply STEP; exact H2.
Qed.

Lemma f_bind_inv {S A B} (R : S -> S -> list out -> Prop) (I : S -> Prop) s0 (m : M S A) (k : A -> M S B) :
  rtrans R -> from R s0 m -> I s0 -> (forall s' o r, m s0 = (s', o, r) -> I s0 -> I s') ->
  (forall a s1, I s1 -> from R s1 (k a)) -> from R s0 (mbind m k).
Proof.
  intros Rt Hm HI Hinv Hk s' o r H. apply mbind_inv in H.
  destruct H as [(s1 & o1 & a & o2 & H1 & H2 & ->)|(e & H1 & ->)].
  - eapply Rt; [exact (Hm _ _ _ H1)|]. exact (Hk a s1 (Hinv _ _ _ H1 HI) _ _ _ H2).
  - exact (Hm _ _ _ H1).
Qed.

(* LoadScopeScheduling.schedule: later calls go through _reschedule, which checks
   node.shutting_down; the INITIAL distribution assigns a work unit to every registered node
   without looking at _shutdown_sent (see ex_scope_initial_unguarded) *)
Lemma g_sc_schedule s0 :
  (sc_coll s0 = None -> sc_inv s0) -> cg s0 sc_schedule.
Proof.
  intros Hyp. unfold sc_schedule. apply f_get. apply f_massert_bind; [rr|intros Hc].
  destruct (sc_coll s0) eqn:Ec; [gg|]. specialize (Hyp eq_refl).
  apply f_bind_stateless; [apply stateless_sc_same|intros same].
  destruct (negb same); [gg|]. apply f_get. apply f_of_opt_bind; [rr|intros coll Hcoll].
  apply f_put_bind; [rr|g_rel_now|]. destruct coll as [|c0 cr]; [gg|].
  apply f_get. apply f_put_bind; [rr|g_rel_now|]. apply f_get.
  apply (f_bind_inv _ sc_inv); [rr|apply g_sc_pop_extra|exact Hyp|apply sc_pop_extra_inv|].
  intros _ s4 (ND4 & FL4). apply f_get. apply f_bind_zg.
  - apply (z_mfor_pre sc_nt _ _ (fun nt n => flag nt n = false)).
    + intros n s Hn Hf. apply z_sc_assign. exact Hf.
    + exact FL4.
  - intros _ s5 _. gg.
Qed.

(* ---- A2 at the scheduler interface ---- *)
(* what schedule() needs to know about the state for the guard to hold; nothing for worksteal,
   nothing for load / loadscope once the initial distribution is done *)
Definition guard_hyp (st : sstate) : Prop :=
  match st with
  | StL s => l_coll s = None -> forall n, In n (l_nodes s) -> flag (l_nt s) n = false
  | StW _ => True
  | StC s => sc_coll s = None -> NoDup (sc_nodes s) /\ forall n, In n (sc_nodes s) -> flag (sc_nt s) n = false
  | StE s => forall n, In n (e_nodes s) -> flag (e_nt s) n = true -> mem_nat n (e_started s) = true
  end.

Lemma lift_g {S A B} (nt_of : S -> ntable) (wrap : S -> sstate) (f : A -> B) (m : M S A) s st' o r :
  (forall x, s_nt (wrap x) = nt_of x) -> from (gR nt_of) s m ->
  lift wrap f (m s) = (st', o, r) -> g_rel (nt_of s) (s_nt st') o.
Proof.
  intros Hw Hm H. unfold lift in H. destruct (m s) as [[s1 o1] r1] eqn:E.
  inversion H; subst. rewrite Hw. exact (Hm _ _ _ E).
Qed.

Ltac lifted_g H :=
  (eapply lift_g; [| |exact H]); [intros; reflexivity|]; eauto with gdb.

Theorem s_step_g_rel st op st' o r :
  is_new op = false -> (op = SSchedule -> guard_hyp st) ->
  s_step st op = (st', o, r) -> g_rel (s_nt st) (s_nt st') o.
Proof.
  destruct op; cbn [is_new s_step]; intros Hn Hg H; try discriminate.
  - destruct st; cbn [s_nt]; lifted_g H.
  - destruct st; cbn [s_nt]; lifted_g H.
  - specialize (Hg eq_refl). destruct st; cbn [s_nt guard_hyp] in *; (eapply lift_g; [| |exact H]);
      try (intros; reflexivity).
    + apply g_l_schedule. exact Hg.
    + apply g_ws_schedule.
    + apply g_sc_schedule. exact Hg.
    + apply g_e_schedule_started. exact Hg.
  - destruct st; cbn [s_nt]; lifted_g H.
  - destruct st; cbn [s_nt]; try (inversion H; subst; apply g_rel_refl); lifted_g H.
  - destruct st; cbn [s_nt]; try (inversion H; subst; apply g_rel_refl); lifted_g H.
  - destruct st; cbn [s_nt]; lifted_g H.
  - destruct (aget n (s_nt st)) as [c|] eqn:Ec; inversion H; subst; [|apply g_rel_refl].
    rewrite s_nt_set. split; [eapply nt_rel_keep; [exact Ec|reflexivity]|intros; reflexivity].
  - destruct st; cbn [s_nt]; (eapply lift_g; [| |exact H]); try (intros; reflexivity);
      apply g_node_shutdown; intros; reflexivity.
Qed.

(* A2, unconditional part: every operation other than SNew and SSchedule, for all four
   schedulers and every state *)
Theorem s_step_guard st op st' o r :
  is_new op = false -> op <> SSchedule -> s_step st op = (st', o, r) ->
  forall n, flag (s_nt st) n = true -> work_count n o = 0.
Proof.
  intros Hn Hs H. apply (proj2 (s_step_g_rel _ _ _ _ _ Hn (fun E => False_ind _ (Hs E)) H)).
Qed.
Print Assumptions s_step_guard.

(* A2 for schedule(): unconditional for worksteal, and for load / loadscope once the initial
   distribution has been done *)
Definition sched_guarded (st : sstate) : bool :=
  match st with
  | StL s => match l_coll s with Some _ => true | None => false end
  | StW _ => true
  | StC s => match sc_coll s with Some _ => true | None => false end
  | StE _ => false
  end.

Theorem s_step_guard_schedule_later st st' o r :
  sched_guarded st = true -> s_step st SSchedule = (st', o, r) ->
  forall n, flag (s_nt st) n = true -> work_count n o = 0.
Proof.
  intros Hg H.
  assert (G : guard_hyp st).
  { destruct st as [s|s|s|s]; cbn [sched_guarded guard_hyp] in *.
    - destruct (l_coll s); [discriminate|discriminate Hg].
    - exact I.
    - destruct (sc_coll s); [discriminate|discriminate Hg].
    - discriminate Hg. }
  exact (proj2 (s_step_g_rel st SSchedule _ _ _ eq_refl (fun _ => G) H)).
Qed.
Print Assumptions s_step_guard_schedule_later.

(* A2 for schedule() in the remaining cases (initial distribution of load / loadscope, and
   each): under the hypothesis that no registered node is flagged at the start. For loadscope
   the registered nodes must also be distinct (true for every state built by add_node, which
   asserts that the node is new; needed because _assign_work_unit is driven by the keys of
   assigned_work after the superfluous nodes were popped and shut down). *)
Theorem s_step_guard_schedule st st' o r :
  (forall n, In n (s_nodes st) -> flag (s_nt st) n = false) -> NoDup (s_nodes st) ->
  s_step st SSchedule = (st', o, r) ->
  forall n, flag (s_nt st) n = true -> work_count n o = 0.
Proof.
  intros Hf Hd H.
  assert (G : guard_hyp st).
  { destruct st as [s|s|s|s]; cbn [guard_hyp s_nodes s_nt] in *.
    - intros _; exact Hf.
    - exact I.
    - intros _; split; [exact Hd|exact Hf].
    - intros m Hm Fm; rewrite (Hf m Hm) in Fm; discriminate. }
  exact (proj2 (s_step_g_rel st SSchedule _ _ _ eq_refl (fun _ => G) H)).
Qed.
Print Assumptions s_step_guard_schedule.

(* ---- witnesses: without the hypothesis the initial distributions do send work to a node that
        has been told to shut down ---- *)
Definition run_ops (st : sstate) (ops : list sop) : sstate :=
  fold_left (fun st op => fst (fst (s_step st op))) ops st.

Definition ex_load_pre : sstate :=
  run_ops (s_init MLoad 1 None) [SNew 0 0; SAddNode 0; SShutdown 0; SAddColl 0 ["a"%string; "b"%string]].
Example ex_load_initial_unguarded :
  flag (s_nt ex_load_pre) 0 = true /\
  snd (fst (s_step ex_load_pre SSchedule)) = [OSend 0 (CRun [0; 1])] /\
  work_count 0 (snd (fst (s_step ex_load_pre SSchedule))) = 1.
Proof. vm_compute. repeat split. Qed.

Definition ex_scope_pre : sstate :=
  run_ops (s_init (MScope KScope) 1 None) [SNew 0 0; SAddNode 0; SShutdown 0; SAddColl 0 ["m.py::a"%string]].
Example ex_scope_initial_unguarded :
  flag (s_nt ex_scope_pre) 0 = true /\
  snd (fst (s_step ex_scope_pre SSchedule)) = [OSend 0 (CRun [0])] /\
  work_count 0 (snd (fst (s_step ex_scope_pre SSchedule))) = 1.
Proof. vm_compute. repeat split. Qed.

Definition ex_each_pre : sstate :=
  run_ops (s_init MEach 1 None) [SNew 0 0; SAddNode 0; SShutdown 0; SAddColl 0 ["a"%string]].
Example ex_each_unguarded :
  flag (s_nt ex_each_pre) 0 = true /\
  snd (fst (s_step ex_each_pre SSchedule)) = [OSend 0 CRunAll] /\
  work_count 0 (snd (fst (s_step ex_each_pre SSchedule))) = 1.
Proof. vm_compute. repeat split. Qed.

(* ---- non-vacuity of A1: a shutdown is sent once, and not again ---- *)
Definition ex_ws_pre : sstate := run_ops (s_init MSteal 1 None) [SNew 0 0; SAddNode 0].
Example ex_shutdown_once :
  snd (fst (s_step ex_ws_pre (SShutdown 0))) = [OSend 0 CShutdown] /\
  snd (fst (s_step (fst (fst (s_step ex_ws_pre (SShutdown 0)))) (SShutdown 0))) = [] /\
  flag (s_nt (fst (fst (s_step ex_ws_pre (SShutdown 0))))) 0 = true.
Proof. vm_compute. repeat split. Qed.

(* ------------------------------------------------------------------------------------------ *)
(* A2 at the controller: once a worker has been told to shut down, no later iteration of the   *)
(* controller loop sends it work (the one handler that calls schedule(), collectionfinish, is  *)
(* treated separately)                                                                          *)
(* ------------------------------------------------------------------------------------------ *)
Definition GK (d d' : dstate) (o : list out) : Prop :=
  g_rel (d_nt d) (d_nt d') o /\ d_next_gw d' = d_next_gw d.
Definition GD (d d' : dstate) (o : list out) : Prop :=
  fresh d -> fresh d' /\ sdflag_rel (d_nt d) (d_nt d') o /\
             (forall n, flag (d_nt d) n = true -> work_count n o = 0).

Lemma GK_refl : rrefl GK. Proof. intros d. split; [apply g_rel_refl|reflexivity]. Qed.
Lemma GK_trans : rtrans GK.
Proof. intros a b c o1 o2 (A1 & A2) (B1 & B2). split; [eapply g_rel_trans; eauto|congruence]. Qed.
Lemma GD_refl : rrefl GD.
Proof. intros d F. split; [exact F|]. split; [apply sdflag_refl|intros; reflexivity]. Qed.
Lemma GD_trans : rtrans GD.
Proof.
  intros a b c o1 o2 HA HB F. destruct (HA F) as (Fb & S1 & W1). destruct (HB Fb) as (Fc & S2 & W2).
  split; [exact Fc|]. split; [eapply sdflag_trans; eauto|].
  intros n Fn. rewrite work_count_app, (W1 n Fn). destruct (proj1 (S1 n) Fn) as (Fbn & _).
  rewrite (W2 n Fbn). reflexivity.
Qed.
#[export] Hint Resolve GK_refl GK_trans GD_refl GD_trans : sdrel.

Lemma GK_GD d d' o : GK d d' o -> GD d d' o.
Proof.
  intros (((Hs & Hd) & Hw) & Hg) F. split; [|split; [exact Hs|exact Hw]].
  intros m Hm. apply Hd. apply F. rewrite <- Hg. exact Hm.
Qed.
Lemma gk_gd {A} d0 (m : D A) : from GK d0 m -> from GD d0 m.
Proof. intros H d' o r E. apply GK_GD. exact (H _ _ _ E). Qed.

Lemma g_rel_nil nt nt' : nt_rel nt nt' [] -> g_rel nt nt' [].
Proof. intros H. split; [exact H|intros; reflexivity]. Qed.

Ltac solve_grel :=
  try apply GK_GD;
  split;
  [ first [ exact (g_rel_refl _)
          | apply z_g, z_rel_emit; intros ?; reflexivity
          | apply g_rel_nil; rewrite d_nt_set; eapply nt_rel_keep; [eassumption|reflexivity] ]
  | reflexivity ].

Create HintDb gddb.
Ltac gd1 :=
  first
    [ apply f_ret; rr | apply f_raise; rr | apply f_massert; rr | apply f_of_opt; rr
    | apply f_getv; rr
    | apply f_put; solve_grel
    | apply f_emit; solve_grel
    | apply f_mfor; [rr | rr | intros ? ?]
    | match goal with
      | |- from _ _ (mbind get _) => apply f_get
      | |- from _ _ (mbind (ret _) _) => apply f_ret_bind
      | |- from _ _ (mbind (of_opt _ _) _) => apply f_of_opt_bind; [rr | intros ? ?]
      | |- from _ _ (mbind (massert _) _) => apply f_massert_bind; [rr | intros ?]
      | |- from _ _ (mbind _ _) => apply f_bind; [rr | | intros ? ?]
      end
    | progress cbv zeta
    | match goal with
      | |- from _ _ (match ?x with _ => _ end) => destruct x eqn:?
      | |- from _ _ (let '(_, _) := ?x in _) => destruct x eqn:?
      end
    | solve [eauto with gddb]
    | apply gk_gd; solve [eauto with gddb] ].
Ltac gd := repeat gd1.

Lemma gk_sched_op op d0 : is_new op = false -> op <> SSchedule -> from GK d0 (d_sched_op op).
Proof.
  intros Hn Hs d' o r H. unfold d_sched_op in H.
  destruct (s_step (d_sched d0) op) as [[st o1] r1] eqn:E. inversion H; subst.
  split; [|reflexivity]. exact (s_step_g_rel _ _ _ _ _ Hn (fun E' => False_ind _ (Hs E')) E).
Qed.
Lemma gk_sched_op_remove n d0 : from GK d0 (d_sched_op (SRemove n)).
Proof. apply gk_sched_op; [reflexivity|discriminate]. Qed.
Lemma gk_sched_op_pending i d0 : from GK d0 (d_sched_op (SPending i)).
Proof. apply gk_sched_op; [reflexivity|discriminate]. Qed.
Lemma gk_sched_op_addnode n d0 : from GK d0 (d_sched_op (SAddNode n)).
Proof. apply gk_sched_op; [reflexivity|discriminate]. Qed.
Lemma gk_sched_op_addcoll n c d0 : from GK d0 (d_sched_op (SAddColl n c)).
Proof. apply gk_sched_op; [reflexivity|discriminate]. Qed.
Lemma gk_sched_op_complete n i ms d0 : from GK d0 (d_sched_op (SComplete n i ms)).
Proof. apply gk_sched_op; [reflexivity|discriminate]. Qed.
Lemma gk_sched_op_unsched n ixs d0 : from GK d0 (d_sched_op (SUnsched n ixs)).
Proof. apply gk_sched_op; [reflexivity|discriminate]. Qed.
#[export] Hint Resolve gk_sched_op_remove gk_sched_op_pending gk_sched_op_addnode gk_sched_op_addcoll
  gk_sched_op_complete gk_sched_op_unsched : gddb.

Lemma gk_node_shutdown n d0 : from GK d0 (d_node_shutdown n).
Proof.
  intros d' o r H. split.
  - exact (g_node_shutdown d_nt d_set_nt d_nt_set n d0 _ _ _ H).
  - destruct (node_shutdown_frame _ _ _ _ _ _ _ H) as [->|(v & ->)]; reflexivity.
Qed.
#[export] Hint Resolve gk_node_shutdown : gddb.
Lemma gk_triggershutdown d0 : from GK d0 d_triggershutdown.
Proof. unfold d_triggershutdown. gd. Qed.
#[export] Hint Resolve gk_triggershutdown : gddb.
Lemma gk_active_remove n d0 : from GK d0 (d_active_remove n).
Proof. unfold d_active_remove. gd. Qed.
#[export] Hint Resolve gk_active_remove : gddb.
Lemma gk_handlefailures f d0 : from GK d0 (d_handlefailures f).
Proof. unfold d_handlefailures. gd. Qed.
#[export] Hint Resolve gk_handlefailures : gddb.
Lemma gk_handle_crashitem item n d0 : from GK d0 (d_handle_crashitem item n).
Proof. unfold d_handle_crashitem, hook. gd. Qed.
#[export] Hint Resolve gk_handle_crashitem : gddb.
Lemma gk_try_block n d0 : from GK d0 (try_block n).
Proof.
  intros d' o r H. unfold try_block in H.
  destruct (d_sched_op (SRemove n) d0) as [[d1 o1] r1] eqn:E1.
  pose proof (gk_sched_op_remove n d0 _ _ _ E1) as R1.
  destruct r1 as [[item|]|e].
  - destruct (d_handle_crashitem item n d1) as [[d2 o2] r2] eqn:E2. inversion H; subst.
    eapply GK_trans; [exact R1|exact (gk_handle_crashitem _ _ _ _ _ _ E2)].
  - inversion H; subst. exact R1.
  - destruct e; inversion H; subst; exact R1.
Qed.
#[export] Hint Resolve gk_try_block : gddb.

Lemma gd_clone n d0 : from GD d0 (d_clone_node n).
Proof.
  intros d' o r H F. destruct (rd_clone n d0 _ _ _ H F) as (F' & Hs). split; [exact F'|]. split; [exact Hs|].
  intros m _. revert H. unfold d_clone_node, mbind, get, of_opt, hook, emit, put, ret, raise.
  destruct (aget n (d_nt d0)) as [f|]; [|intros H; inversion H; reflexivity].
  unfold d_sched_op. cbn [s_step]. intros H. inversion H; subst. reflexivity.
Qed.
#[export] Hint Resolve gd_clone : gddb.
Lemma gd_errordown n d0 : from GD d0 (d_worker_errordown n).
Proof. rewrite errordown_unfold. unfold hook. gd. Qed.
#[export] Hint Resolve gd_errordown : gddb.

Definition calls_schedule (ev : cevent) : bool := match ev with QCollFinish _ _ => true | _ => false end.

Lemma gd_handle ev d0 : calls_schedule ev = false -> from GD d0 (d_handle ev).
Proof.
  destruct ev as [n|n ids|n key fl|n i|n i|n i k oc|n i ms|n ixs| |n|n sk|n]; cbn [calls_schedule d_handle];
    intros Hc; try discriminate; unfold hook; try (gd; fail).
  unfold d_worker_workerfinished, hook. destruct sk; gd.
Qed.

Lemma gd_loop_tail (u : unit) d0 :
  from GD d0 ((d <- get ;; if s_tests_finished (d_sched d) then d_triggershutdown else ret tt) ;;;
              (d <- get ;; if d_shouldstop d then d_triggershutdown else ret tt)).
Proof. gd. Qed.

Theorem loop_once_guard ev d d' o r :
  calls_schedule ev = false -> d_loop_once ev d = (d', o, r) -> fresh d ->
  forall n, flag (d_nt d) n = true -> work_count n o = 0 /\ sd_count n o = 0 /\ flag (d_nt d') n = true.
Proof.
  intros Hc H F n Fn.
  assert (K : from GD d (d_loop_once ev)).
  { unfold d_loop_once. apply f_bind; [rr|apply gd_handle; exact Hc|intros u d1; apply (gd_loop_tail tt)]. }
  destruct (K _ _ _ H F) as (_ & Hs & Hw). destruct (proj1 (Hs n) Fn) as (A & B). auto.
Qed.
Print Assumptions loop_once_guard.

(* collectionfinish while the session is shutting down is ignored altogether *)
Theorem loop_once_guard_collfinish_late n ids d d' o r :
  d_shuttingdown d = true -> d_loop_once (QCollFinish n ids) d = (d', o, r) -> fresh d ->
  forall m, flag (d_nt d) m = true -> work_count m o = 0 /\ sd_count m o = 0.
Proof.
  intros Hsd H F m Fm.
  assert (K : from GD d (d_loop_once (QCollFinish n ids))).
  { unfold d_loop_once. apply f_bind; [rr| |intros u d1; apply (gd_loop_tail tt)].
    cbn [d_handle]. apply f_get. rewrite Hsd. apply f_ret. rr. }
  destruct (K _ _ _ H F) as (_ & Hs & Hw). destruct (proj1 (Hs m) Fm) as (A & B). auto.
Qed.
Print Assumptions loop_once_guard_collfinish_late.

(* over runs without collectionfinish events: a worker that has been told to shut down gets
   neither work nor a second shutdown *)
Theorem run_guard evs d d' o r :
  Forall (fun ev => calls_schedule ev = false) evs -> d_run evs d = (d', o, r) -> fresh d ->
  forall n, flag (d_nt d) n = true -> work_count n o = 0 /\ sd_count n o = 0.
Proof.
  intros Hev. revert d d' o r. induction Hev as [|ev rest Hc Hrest IH]; intros d d' o r H F n Fn; cbn [d_run] in H.
  - inversion H; subst. split; reflexivity.
  - destruct (d_loop_once ev d) as [[d1 o1] r1] eqn:E1.
    destruct (loop_once_guard _ _ _ _ _ Hc E1 F n Fn) as (W1 & S1 & F1).
    destruct (loop_once_sdflag _ _ _ _ _ E1 F) as (_ & Fr1).
    destruct r1 as [[]|e].
    + destruct (d_run rest d1) as [[d2 o2] r2] eqn:E2. inversion H; subst.
      destruct (IH _ _ _ _ E2 Fr1 n F1) as (W2 & S2).
      rewrite work_count_app, sd_count_app. lia.
    + inversion H; subst. auto.
Qed.
Print Assumptions run_guard.
