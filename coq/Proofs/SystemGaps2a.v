(* SystemGaps2a.v — law W of the four schedulers (used by SystemGaps2.v for C11):

     every scheduler operation other than schedule(), add_node() and the creation of a
     WorkerController sends work (CRun / CRunAll / CSteal) ONLY to nodes that, at the start of
     the operation, are registered with the scheduler AND are not shutting down
     (WorkerController.shutting_down = _down or _shutdown_sent); it registers no node; and a node
     that is shutting down stays so.                                          (s_step_wlaw)

   This strengthens ShutdownOnce.s_step_guard (which only looks at the _shutdown_sent flag and
   says nothing about registration).  Technique: the [from R s0 m] logic of ShutdownOnce.v with a
   new pair of relations (g_w / z_w) over the node table AND the registered nodes. *)
From XV Require Import Base Worker Ctl SchedLoad SchedSteal SchedScope SchedEach Sched DSession NoHook
  DSessionProofs ShutdownOnce.
Open Scope nat_scope.

(* ------------------------------------------------------------------------------------------ *)
(* association lists                                                                            *)
(* ------------------------------------------------------------------------------------------ *)
Lemma w2_aget_in {V} k (m : amap V) v : aget k m = Some v -> In k (akeys m).
Proof.
  induction m as [|[k' v'] m IH]; cbn; [discriminate|].
  destruct (Nat.eqb k k') eqn:E; [apply Nat.eqb_eq in E; auto|auto].
Qed.
Lemma w2_ahas_in {V} k (m : amap V) : ahas k m = true -> In k (akeys m).
Proof. unfold ahas. destruct (aget k m) eqn:E; [intros _; eapply w2_aget_in; exact E|discriminate]. Qed.
Lemma w2_akeys_aset_in {V} k (v : V) m : In k (akeys m) -> akeys (aset k v m) = akeys m.
Proof.
  induction m as [|[k' v'] m IH]; cbn; intros H; [destruct H|].
  destruct (Nat.eqb k k') eqn:E; cbn; [reflexivity|]. f_equal. apply IH.
  destruct H as [H|H]; [subst k'; rewrite Nat.eqb_refl in E; discriminate|exact H].
Qed.
Lemma w2_akeys_aset_incl {V} k (v : V) m : In k (akeys m) -> incl (akeys (aset k v m)) (akeys m).
Proof. intros H. rewrite (w2_akeys_aset_in k v m H). apply incl_refl. Qed.
Lemma w2_akeys_aset_self {V} k (v : V) m : In k (akeys (aset k v m)).
Proof.
  induction m as [|[k' v'] m IH]; cbn; [auto|].
  destruct (Nat.eqb k k') eqn:E; cbn; [apply Nat.eqb_eq in E; auto|auto].
Qed.
Lemma w2_akeys_adel_incl {V} k (m : amap V) : incl (akeys (adel k m)) (akeys m).
Proof.
  induction m as [|[k' v'] m IH]; cbn; [apply incl_refl|].
  destruct (Nat.eqb k k'); [apply incl_tl, incl_refl|].
  cbn. intros x [Hx|Hx]; [left; exact Hx|right; apply IH; exact Hx].
Qed.

(* ------------------------------------------------------------------------------------------ *)
(* the relations                                                                                *)
(* ------------------------------------------------------------------------------------------ *)
(* WorkerController.shutting_down of node n (False for an unknown node) *)
Definition sdn (nt : ntable) (n : nat) : bool :=
  match aget n nt with Some c => shutting_down c | None => false end.

Lemma sdn_of_sd nt n c : aget n nt = Some c -> shutting_down c = false -> sdn nt n = false.
Proof. intros H E. unfold sdn. rewrite H. exact E. Qed.

Lemma flag_sdn nt n : flag nt n = true -> sdn nt n = true.
Proof.
  unfold flag, sdn. destruct (aget n nt) as [c|]; [|discriminate]. intros H. unfold shutting_down.
  rewrite H. apply orb_true_r.
Qed.

(* work only goes to nodes that are registered and not shutting down *)
Definition w_work (nt : ntable) (nodes : list nat) (o : list out) : Prop :=
  forall n, work_count n o <> 0 -> In n nodes /\ sdn nt n = false.

Definition sdn_mono (nt nt' : ntable) : Prop := forall n, sdn nt n = true -> sdn nt' n = true.

Definition g_w (nt : ntable) (nodes : list nat) (nt' : ntable) (nodes' : list nat) (o : list out) : Prop :=
  sdn_mono nt nt' /\ incl nodes' nodes /\ w_work nt nodes o.
(* "frozen": the node table is unchanged *)
Definition z_w (nt : ntable) (nodes : list nat) (nt' : ntable) (nodes' : list nat) (o : list out) : Prop :=
  nt' = nt /\ incl nodes' nodes /\ w_work nt nodes o.

Lemma w_work_nil nt nodes : w_work nt nodes [].
Proof. intros n H. elim H. reflexivity. Qed.

Lemma g_w_refl nt nodes : g_w nt nodes nt nodes [].
Proof. split; [intros n H; exact H|]. split; [apply incl_refl|apply w_work_nil]. Qed.
Lemma z_w_refl nt nodes : z_w nt nodes nt nodes [].
Proof. split; [reflexivity|]. split; [apply incl_refl|apply w_work_nil]. Qed.

Lemma g_w_trans a na b nb c nc o1 o2 :
  g_w a na b nb o1 -> g_w b nb c nc o2 -> g_w a na c nc (o1 ++ o2).
Proof.
  intros (A1 & A2 & A3) (B1 & B2 & B3). split; [intros n H; auto|]. split; [eapply incl_tran; eassumption|].
  intros n H. rewrite work_count_app in H.
  destruct (Nat.eq_dec (work_count n o1) 0) as [E1|E1]; [|exact (A3 n E1)].
  assert (E2 : work_count n o2 <> 0) by lia. destruct (B3 n E2) as (I2 & S2). split; [apply A2; exact I2|].
  destruct (sdn a n) eqn:Sa; [|reflexivity]. rewrite (A1 n Sa) in S2. discriminate.
Qed.
Lemma z_w_trans a na b nb c nc o1 o2 :
  z_w a na b nb o1 -> z_w b nb c nc o2 -> z_w a na c nc (o1 ++ o2).
Proof.
  intros (-> & A2 & A3) (-> & B2 & B3). split; [reflexivity|]. split; [eapply incl_tran; eassumption|].
  intros n H. rewrite work_count_app in H.
  destruct (Nat.eq_dec (work_count n o1) 0) as [E1|E1]; [|exact (A3 n E1)].
  assert (E2 : work_count n o2 <> 0) by lia. destruct (B3 n E2) as (I2 & S2). split; [apply A2; exact I2|exact S2].
Qed.
Lemma z_g_w a na b nb o : z_w a na b nb o -> g_w a na b nb o.
Proof. intros (-> & A2 & A3). split; [intros n H; exact H|]. split; assumption. Qed.

Lemma z_w_emit nt nodes x : (forall n, is_work n x = false) -> z_w nt nodes nt nodes [x].
Proof.
  intros Hx. split; [reflexivity|]. split; [apply incl_refl|].
  intros n H. rewrite work_count_one, Hx in H. elim H. reflexivity.
Qed.
(* a command for a registered node that is not shutting down *)
Lemma z_w_send nt nodes n c : In n nodes -> sdn nt n = false -> z_w nt nodes nt nodes [OSend n c].
Proof.
  intros Hi Hs. split; [reflexivity|]. split; [apply incl_refl|].
  intros m H. rewrite work_count_one in H.
  assert (E : n = m).
  { destruct (Nat.eqb n m) eqn:E; [apply Nat.eqb_eq; exact E|].
    destruct c; cbn [is_work] in H; rewrite ?E in H; elim H; reflexivity. }
  subst m. auto.
Qed.
(* a put that leaves the table alone and registers nothing *)
Lemma z_w_put nt nodes nodes' : incl nodes' nodes -> z_w nt nodes nt nodes' [].
Proof. intros H. split; [reflexivity|]. split; [exact H|apply w_work_nil]. Qed.

(* what WorkerController.shutdown does to the table *)
Definition sd_flag (f : nctl) : nctl :=
  {| n_spec := n_spec f; n_down := n_down f; n_sdsent := true; n_closed := n_closed f |}.

Lemma node_shutdown_nt {S} (nt_of : S -> ntable) set_nt n s s' o r :
  node_shutdown nt_of set_nt n s = (s', o, r) ->
  (s' = s \/ exists f, aget n (nt_of s) = Some f /\ s' = set_nt s (aset n (sd_flag f) (nt_of s))) /\
  (o = [] \/ o = [OSend n CShutdown]).
Proof.
  unfold node_shutdown, node_send, node_flags, mbind, get, of_opt.
  destruct (aget n (nt_of s)) as [f|] eqn:Ef; cbn [ret raise]; [|intros H; inversion H; auto].
  unfold ret. destruct (n_down f || n_sdsent f); [intros H; inversion H; auto|].
  rewrite Ef.
  destruct (n_closed f) eqn:Ec; unfold emit, put; intros H; inversion H;
    (split; [right; exists f; split; [reflexivity|unfold sd_flag; rewrite Ec; reflexivity]|auto]).
Qed.

Lemma sdn_mono_shutdown nt n f : sdn_mono nt (aset n (sd_flag f) nt).
Proof.
  intros m H. unfold sdn in *. rewrite aget_aset. destruct (Nat.eqb m n); [|exact H].
  unfold shutting_down, sd_flag. cbn. apply orb_true_r.
Qed.

Lemma work_count_sd m n : work_count m [OSend n CShutdown] = 0.
Proof. reflexivity. Qed.

Section WRel.
  Context {S : Type} (nt_of : S -> ntable) (set_nt : S -> ntable -> S) (nodes_of : S -> list nat).
  Hypothesis nt_set : forall s v, nt_of (set_nt s v) = v.
  Hypothesis nodes_set : forall s v, nodes_of (set_nt s v) = nodes_of s.

  Definition gWR (s s' : S) (o : list out) : Prop := g_w (nt_of s) (nodes_of s) (nt_of s') (nodes_of s') o.
  Definition zWR (s s' : S) (o : list out) : Prop := z_w (nt_of s) (nodes_of s) (nt_of s') (nodes_of s') o.
  Lemma gWR_refl : rrefl gWR. Proof. intros s. apply g_w_refl. Qed.
  Lemma gWR_trans : rtrans gWR. Proof. intros a b c o1 o2. apply g_w_trans. Qed.
  Lemma zWR_refl : rrefl zWR. Proof. intros s. apply z_w_refl. Qed.
  Lemma zWR_trans : rtrans zWR. Proof. intros a b c o1 o2. apply z_w_trans. Qed.

  Lemma zw_gw_from {A} s0 (m : M S A) : from zWR s0 m -> from gWR s0 m.
  Proof. intros H s' o r E. apply z_g_w. exact (H _ _ _ E). Qed.

  Lemma zw_node_send n c s0 :
    In n (nodes_of s0) -> sdn (nt_of s0) n = false -> from zWR s0 (node_send nt_of n c).
  Proof.
    intros Hi Hs. unfold node_send. apply f_flags_bind; [apply zWR_refl|]. intros f Ef.
    destruct (n_closed f); [apply f_ret, zWR_refl|].
    apply f_emit. apply z_w_send; assumption.
  Qed.

  Lemma gw_node_shutdown n s0 : from gWR s0 (node_shutdown nt_of set_nt n).
  Proof.
    intros s' o r H. destruct (node_shutdown_nt _ _ _ _ _ _ _ H) as (Hs & Ho).
    assert (W : w_work (nt_of s0) (nodes_of s0) o).
    { intros m Hm. destruct Ho as [->| ->]; elim Hm; reflexivity. }
    destruct Hs as [->|(f & Ef & ->)].
    - split; [intros m Hm; exact Hm|]. split; [apply incl_refl|exact W].
    - unfold gWR. rewrite nt_set, nodes_set. split; [apply sdn_mono_shutdown|]. split; [apply incl_refl|exact W].
  Qed.

  Lemma f_bind_zgw {A B} s0 (m : M S A) (k : A -> M S B) :
    from zWR s0 m -> (forall a s1, nt_of s1 = nt_of s0 -> from gWR s1 (k a)) ->
    from gWR s0 (mbind m k).
  Proof.
    intros Hm Hk s' o r H. apply mbind_inv in H.
    destruct H as [(s1 & o1 & a & o2 & H1 & H2 & ->)|(e & H1 & ->)].
    - pose proof (Hm _ _ _ H1) as Z. eapply gWR_trans; [apply z_g_w; exact Z|].
      exact (Hk a s1 (proj1 Z) _ _ _ H2).
    - apply z_g_w. exact (Hm _ _ _ H1).
  Qed.
End WRel.
#[export] Hint Resolve gWR_refl gWR_trans zWR_refl zWR_trans : sdrel.

Create HintDb wdb.
Ltac wnodes := unfold l_nodes, ws_nodes, sc_nodes, e_nodes in *.
Ltac wpre :=
  first [ assumption | congruence
        | eapply sdn_of_sd; eassumption
        | apply w2_akeys_aset_self
        | eapply w2_aget_in; eassumption
        | apply w2_ahas_in; assumption
        | wnodes; first [ assumption | apply w2_akeys_aset_self | eapply w2_aget_in; eassumption
                        | apply w2_ahas_in; assumption ]
        | solve [eauto] ].
Ltac wincl :=
  first [ apply incl_refl
        | wnodes; cbn;
          first [ apply incl_refl
                | apply w2_akeys_adel_incl
                | apply w2_akeys_aset_incl; wpre ] ].
Ltac w_now :=
  unfold gWR, zWR;
  first [ exact (g_w_refl _ _) | exact (z_w_refl _ _)
        | apply z_g_w, z_w_emit; intros ?; reflexivity
        | apply z_w_emit; intros ?; reflexivity
        | apply z_g_w, z_w_put; wincl
        | apply z_w_put; wincl ].
Ltac w1 :=
  first
    [ apply f_ret; rr | apply f_raise; rr | apply f_massert; rr | apply f_of_opt; rr
    | apply f_getv; rr
    | apply f_put; w_now
    | apply f_emit; w_now
    | apply f_mfor; [rr | rr | intros ? ?]
    | apply gw_node_shutdown; intros; reflexivity
    | apply zw_node_send; [wpre | wpre]
    | apply zw_gw_from, zw_node_send; [wpre | wpre]
    | apply f_flags; rr
    | match goal with
      | |- from _ _ (mbind get _) => apply f_get
      | |- from _ _ (mbind (ret _) _) => apply f_ret_bind
      | |- from _ _ (mbind (of_opt _ _) _) => apply f_of_opt_bind; [rr | intros ? ?]
      | |- from _ _ (mbind (massert _) _) => apply f_massert_bind; [rr | intros ?]
      | |- from _ _ (mbind (put _) _) => apply f_put_bind; [rr | w_now | ]
      | |- from _ _ (mbind (node_flags _ _) _) => apply f_flags_bind; [rr | intros ? ?]
      | |- from _ _ (mbind (node_shutting_down _ _) _) => apply f_nsd_bind; [rr | intros ? ?]
      | |- from (zWR _ _) _ (mbind _ _) =>
          apply f_bind_r; [rr | | let H := fresh "Z" in intros ? ? ? H; destruct H as (H & _)]
      | |- from _ _ (mbind _ _) => apply f_bind; [rr | | intros ? ?]
      end
    | progress cbv zeta
    | match goal with
      | |- from _ _ (match ?x with _ => _ end) => destruct x eqn:?
      | |- from _ _ (let '(_, _) := ?x in _) => destruct x eqn:?
      end
    | solve [eauto with wdb] ].
Ltac ww := repeat w1.

Notation lgw := (from (gWR l_nt l_nodes)).
Notation lzw := (from (zWR l_nt l_nodes)).
Notation wgw := (from (gWR ws_nt ws_nodes)).
Notation wzw := (from (zWR ws_nt ws_nodes)).
Notation cgw := (from (gWR sc_nt sc_nodes)).
Notation czw := (from (zWR sc_nt sc_nodes)).
Notation egw := (from (gWR e_nt e_nodes)).
Notation ezw := (from (zWR e_nt e_nodes)).

(* ---- load ---- *)
Lemma zw_l_send_tests n num s0 : sdn (l_nt s0) n = false -> lzw s0 (l_send_tests n num).
Proof. intros Hf. unfold l_send_tests. ww. Qed.
#[export] Hint Extern 1 (from (zWR l_nt l_nodes) _ (l_send_tests _ _)) => apply zw_l_send_tests; wpre : wdb.
#[export] Hint Extern 1 (from (gWR l_nt l_nodes) _ (l_send_tests _ _)) =>
  apply zw_gw_from, zw_l_send_tests; wpre : wdb.
Lemma gw_l_check_schedule n d s0 : lgw s0 (l_check_schedule n d).
Proof. unfold l_check_schedule. ww. Qed.
#[export] Hint Resolve gw_l_check_schedule : wdb.
Lemma gw_l_add_coll n c s0 : lgw s0 (l_add_node_collection n c).
Proof. unfold l_add_node_collection. ww. Qed.
#[export] Hint Resolve gw_l_add_coll : wdb.
Lemma gw_l_complete n i d s0 : lgw s0 (l_mark_test_complete n i d).
Proof. unfold l_mark_test_complete. ww. Qed.
#[export] Hint Resolve gw_l_complete : wdb.
Lemma gw_l_pending it s0 : lgw s0 (l_mark_test_pending it).
Proof. unfold l_mark_test_pending. ww. Qed.
#[export] Hint Resolve gw_l_pending : wdb.
Lemma gw_l_remove n s0 : lgw s0 (l_remove_node n).
Proof. unfold l_remove_node. ww. Qed.
#[export] Hint Resolve gw_l_remove : wdb.

(* ---- worksteal: every send goes to a node of nodes_up (registered, not shutting down) ---- *)
Lemma zw_ws_send_tests n num s0 : sdn (ws_nt s0) n = false -> wzw s0 (ws_send_tests n num).
Proof. intros Hf. unfold ws_send_tests. ww. Qed.
Lemma zw_ws_distribute idle s0 :
  (forall n, In n idle -> sdn (ws_nt s0) n = false) -> wzw s0 (ws_distribute idle).
Proof.
  revert s0. induction idle as [|n r IH]; intros s0 Hp; cbn [ws_distribute]; [ww|].
  apply f_get. cbv zeta. apply f_bind_r; [rr|apply zw_ws_send_tests; apply Hp; left; reflexivity|].
  intros _ s1 o1 (Z & _). apply IH. intros m Hm. rewrite Z. apply Hp. right. exact Hm.
Qed.

Lemma ws_up_not_sd s n : In n (ws_up s) -> sdn (ws_nt s) n = false.
Proof.
  unfold ws_up. intros H. apply filter_In in H. destruct H as (_ & H).
  destruct (aget n (ws_nt s)) as [c|] eqn:E; [|discriminate].
  apply andb_true_iff in H. destruct H as (H & _). apply negb_true_iff in H.
  eapply sdn_of_sd; eassumption.
Qed.

Lemma gw_ws_check s0 : wgw s0 ws_check_schedule.
Proof.
  unfold ws_check_schedule. apply f_get. destruct (ws_coll s0); [|ww]. cbv zeta.
  assert (Hidle : forall n, In n (ws_idle s0 (ws_up s0)) -> sdn (ws_nt s0) n = false).
  { intros n Hn. unfold ws_idle in Hn. apply filter_In in Hn. apply ws_up_not_sd. apply Hn. }
  destruct (ws_idle s0 (ws_up s0)) as [|i0 idle] eqn:Ei; [ww|].
  apply f_bind_zgw.
  { destruct (ws_pending s0); [ww|]. apply zw_ws_distribute. exact Hidle. }
  intros _ s1 Z.
  assert (Hup : forall v, first_max s1 (ws_up s0) None = Some v -> sdn (ws_nt s1) v = false).
  { intros v Hv. rewrite Z. apply ws_up_not_sd. destruct (first_max_in _ _ _ _ Hv) as [K|K]; [exact K|discriminate]. }
  ww.
Qed.
#[export] Hint Resolve gw_ws_check : wdb.
Lemma gw_ws_add_coll n c s0 : wgw s0 (ws_add_node_collection n c).
Proof. unfold ws_add_node_collection. ww. Qed.
#[export] Hint Resolve gw_ws_add_coll : wdb.
Lemma gw_ws_complete n i s0 : wgw s0 (ws_mark_test_complete n i).
Proof. unfold ws_mark_test_complete. ww. Qed.
#[export] Hint Resolve gw_ws_complete : wdb.
Lemma gw_ws_pending it s0 : wgw s0 (ws_mark_test_pending it).
Proof. unfold ws_mark_test_pending. ww. Qed.
#[export] Hint Resolve gw_ws_pending : wdb.
Lemma gw_ws_unsched n ixs s0 : wgw s0 (ws_remove_pending_tests_from_node n ixs).
Proof. unfold ws_remove_pending_tests_from_node. ww. Qed.
#[export] Hint Resolve gw_ws_unsched : wdb.
Lemma gw_ws_remove n s0 : wgw s0 (ws_remove_node n).
Proof. unfold ws_remove_node. ww. Qed.
#[export] Hint Resolve gw_ws_remove : wdb.

(* ---- scope family: _reschedule checks node.shutting_down and the node's entry in assigned_work ---- *)
Lemma zw_sc_assign n s0 :
  In n (sc_nodes s0) -> sdn (sc_nt s0) n = false -> czw s0 (sc_assign_work_unit n).
Proof. intros Hi Hf. unfold sc_assign_work_unit. ww. Qed.
Lemma zw_sc_top_up fuel n s0 : sdn (sc_nt s0) n = false -> czw s0 (sc_top_up fuel n).
Proof.
  revert s0. induction fuel as [|f IH]; intros s0 Hf; cbn [sc_top_up]; [ww|].
  apply f_get. destruct (sc_wq s0); [ww|]. apply f_of_opt_bind; [rr|]. intros wl Hw.
  destruct (pending_of wl <? 2); [|ww].
  apply f_bind_r; [rr|apply zw_sc_assign; [unfold sc_nodes; eapply w2_aget_in; exact Hw|exact Hf]|].
  intros _ s1 o1 (Z & _). apply IH. rewrite Z. exact Hf.
Qed.
Lemma gw_sc_reschedule n s0 : cgw s0 (sc_reschedule n).
Proof.
  unfold sc_reschedule. apply f_nsd_bind; [rr|]. intros c Hc.
  destruct (shutting_down c) eqn:Esd; [ww|]. apply f_get.
  destruct (sc_wq s0); [ww|]. destruct (negb (ahas n (sc_reg s0))); [ww|].
  apply f_of_opt_bind; [rr|]. intros wl Hw. destruct (2 <? pending_of wl); [ww|].
  assert (Hs : sdn (sc_nt s0) n = false) by (eapply sdn_of_sd; eassumption).
  apply zw_gw_from. apply f_bind_r; [rr|apply zw_sc_assign; [unfold sc_nodes; eapply w2_aget_in; exact Hw|exact Hs]|].
  intros _ s1 o1 (Z & _). apply f_get. apply zw_sc_top_up. rewrite Z. exact Hs.
Qed.
#[export] Hint Resolve gw_sc_reschedule : wdb.
Lemma gw_sc_remove n s0 : cgw s0 (sc_remove_node n).
Proof. unfold sc_remove_node. ww. Qed.
#[export] Hint Resolve gw_sc_remove : wdb.
Lemma gw_sc_add_coll n c s0 : cgw s0 (sc_add_node_collection n c).
Proof. unfold sc_add_node_collection. ww. Qed.
#[export] Hint Resolve gw_sc_add_coll : wdb.
Lemma gw_sc_complete n i s0 : cgw s0 (sc_mark_test_complete n i).
Proof. unfold sc_mark_test_complete. ww. Qed.
#[export] Hint Resolve gw_sc_complete : wdb.

(* ---- each: only schedule() sends work ---- *)
Lemma gw_e_inherit n c dead s0 : In n (e_nodes s0) -> egw s0 (e_inherit n c dead).
Proof.
  revert s0. induction dead as [|[d p] r IH]; intros s0 Hn; cbn [e_inherit]; ww.
Qed.
Lemma gw_e_add_coll n c s0 : egw s0 (e_add_node_collection n c).
Proof.
  unfold e_add_node_collection. apply f_get. apply f_massert_bind; [rr|]. intros Hh.
  assert (Hn : In n (e_nodes s0)) by (unfold e_nodes; apply w2_ahas_in; exact Hh).
  destruct (negb (e_completed s0)); [ww|].
  apply f_bind; [rr|apply gw_e_inherit; exact Hn|]. intros _ s1. ww.
Qed.
#[export] Hint Resolve gw_e_add_coll : wdb.
Lemma gw_e_complete n i s0 : egw s0 (e_mark_test_complete n i).
Proof. unfold e_mark_test_complete. ww. Qed.
#[export] Hint Resolve gw_e_complete : wdb.
Lemma gw_e_remove n s0 : egw s0 (e_remove_node n).
Proof. unfold e_remove_node. ww. Qed.
#[export] Hint Resolve gw_e_remove : wdb.

(* ------------------------------------------------------------------------------------------ *)
(* law W at the scheduler interface                                                             *)
(* ------------------------------------------------------------------------------------------ *)
Lemma s_nodes_set_nt' st v : s_nodes (s_set_nt st v) = s_nodes st.
Proof. destruct st; reflexivity. Qed.

Lemma lift_w {S A B} (nt_of : S -> ntable) (nodes_of : S -> list nat) (wrap : S -> sstate) (f : A -> B)
      (m : M S A) s st' o r :
  (forall x, s_nt (wrap x) = nt_of x) -> (forall x, s_nodes (wrap x) = nodes_of x) ->
  from (gWR nt_of nodes_of) s m ->
  lift wrap f (m s) = (st', o, r) -> g_w (nt_of s) (nodes_of s) (s_nt st') (s_nodes st') o.
Proof.
  intros Hw Hn Hm H. unfold lift in H. destruct (m s) as [[s1 o1] r1] eqn:E.
  inversion H; subst. rewrite Hw, Hn. exact (Hm _ _ _ E).
Qed.

(* the operations DSession performs on a scheduler other than schedule(), add_node() (which
   registers a node and sends nothing) and the two model-only operations SNew / SFlags *)
Definition wl_op (op : sop) : bool :=
  match op with
  | SAddColl _ _ | SComplete _ _ _ | SPending _ | SUnsched _ _ | SRemove _ | SShutdown _ => true
  | _ => false
  end.

Ltac lifted_w H :=
  (eapply lift_w; [| | |exact H]); [intros; reflexivity|intros; reflexivity|]; eauto with wdb.

Theorem s_step_g_w st op st' o r :
  wl_op op = true -> s_step st op = (st', o, r) ->
  g_w (s_nt st) (s_nodes st) (s_nt st') (s_nodes st') o.
Proof.
  destruct op; cbn [wl_op s_step]; intros Hn H; try discriminate.
  - destruct st; cbn [s_nt s_nodes]; lifted_w H.
  - destruct st; cbn [s_nt s_nodes]; lifted_w H.
  - destruct st; cbn [s_nt s_nodes]; try (inversion H; subst; apply g_w_refl); lifted_w H.
  - destruct st; cbn [s_nt s_nodes]; try (inversion H; subst; apply g_w_refl); lifted_w H.
  - destruct st; cbn [s_nt s_nodes]; lifted_w H.
  - destruct st; cbn [s_nt s_nodes]; (eapply lift_w; [| | |exact H]); try (intros; reflexivity);
      apply gw_node_shutdown; intros; reflexivity.
Qed.

(* LAW W.  [sdn nt n = false]: n's WorkerController is not shutting down (_down and _shutdown_sent
   both unset) *)
Theorem s_step_wlaw st op st' o r :
  wl_op op = true -> s_step st op = (st', o, r) ->
  (forall n, work_count n o <> 0 -> In n (s_nodes st) /\ sdn (s_nt st) n = false) /\
  incl (s_nodes st') (s_nodes st) /\
  (forall n f, aget n (s_nt st) = Some f -> shutting_down f = true ->
               exists f', aget n (s_nt st') = Some f' /\ shutting_down f' = true).
Proof.
  intros Hop H. destruct (s_step_g_w _ _ _ _ _ Hop H) as (M & I & W). split; [exact W|split; [exact I|]].
  intros n f Ef Hs. assert (Sn : sdn (s_nt st) n = true) by (unfold sdn; rewrite Ef; exact Hs).
  specialize (M n Sn). unfold sdn in M. destruct (aget n (s_nt st')) as [f'|]; [|discriminate].
  exists f'. auto.
Qed.
Print Assumptions s_step_wlaw.

(* add_node(): registers the node, sends nothing, leaves the table alone *)
Lemma w2_akeys_aset_cases {V} n (v : V) m k : In k (akeys (aset n v m)) -> k = n \/ In k (akeys m).
Proof.
  induction m as [|[k' v'] m IH]; cbn; [intros [H|[]]; auto|].
  destruct (Nat.eqb n k') eqn:E; cbn; [intros [H|H]; auto|].
  intros [H|H]; [auto|]. destruct (IH H); auto.
Qed.
Theorem s_step_addnode st n st' o r :
  s_step st (SAddNode n) = (st', o, r) ->
  o = [] /\ s_nt st' = s_nt st /\ incl (s_nodes st') (n :: s_nodes st).
Proof.
  cbn [s_step]. destruct st as [s|s|s|s]; unfold lift, l_add_node, ws_add_node, sc_add_node, e_add_node,
    mbind, get, massert, put, ret, raise;
  match goal with |- context [negb (ahas n ?m)] => destruct (negb (ahas n m)) end;
  intros H; inversion H; subst; cbn [s_nt s_nodes l_nt ws_nt sc_nt e_nt l_set_n2p ws_set_n2p sc_set_assigned e_set_n2p
    l_nodes ws_nodes sc_nodes e_nodes l_n2p ws_n2p sc_assigned e_n2p app];
  (split; [reflexivity|split; [reflexivity|]]);
  try (intros k Hk; destruct (w2_akeys_aset_cases _ _ _ _ Hk) as [->|Hk']; [left; reflexivity|right; exact Hk']);
  apply incl_tl, incl_refl.
Qed.
