(* PureProofs.v — first theorems about the pure helper models (C14 Warn.v, C18 StatRec.v, C19 Rsync.v). *)
From XV Require Import Base StatRec Rsync Warn.
Open Scope nat_scope.

(* ---------------- C14 ---------------- *)
Section Warn.
  Variable resolve : string -> string -> result unit.
  Variable construct : string -> string -> list string -> ctor_result.

  (* the event handler is total by construction; when the warning can be rebuilt it is the rebuilt one *)
  Lemma handle_same_when_rebuildable d r :
    unserialize resolve construct d = Ok r -> handle_warning resolve construct d = r.
  Proof. unfold handle_warning. intros ->. reflexivity. Qed.

  Lemma unserialize_location d r :
    unserialize resolve construct d = Ok r -> rw_filename r = wd_filename d /\ rw_lineno r = wd_lineno d.
  Proof.
    unfold unserialize, bind. repeat match goal with |- context [match ?x with _ => _ end] => destruct x end;
      intros H; inversion H; subst; cbn; auto.
  Qed.

  (* file name and line number always survive, rebuilt or generic *)
  Lemma handle_location w :
    let r := handle_warning resolve construct (serialize w) in
    rw_filename r = ww_filename w /\ rw_lineno r = ww_lineno w.
  Proof.
    cbv zeta. unfold handle_warning.
    destruct (unserialize resolve construct (serialize w)) as [r|e] eqn:E.
    - destruct (unserialize_location _ _ E) as (A & B). rewrite A, B.
      unfold serialize. destruct (ww_message w); cbn; auto.
    - unfold generic_fallback, serialize. destruct (ww_message w); cbn; auto.
  Qed.

  (* a plain-string warning keeps its text exactly, whatever happens to the category *)
  Lemma handle_str_text t cat f l :
    rw_message (handle_warning resolve construct
                  (serialize {| ww_message := WStr t; ww_category := cat; ww_filename := f; ww_lineno := l |})) = RStr t.
  Proof.
    unfold handle_warning, unserialize, serialize, generic_fallback, bind, truthy. cbn.
    destruct cat as [[cm cc]|]; cbn; [|reflexivity].
    destruct (negb (String.eqb cm "")); cbn; [|reflexivity].
    destruct (resolve cm cc); cbn; reflexivity.
  Qed.

  (* a Warning instance arrives as the same class with the same arguments, or as the generic warning
     carrying module, class name and text *)
  Lemma handle_inst_same_or_generic m c dmp a t cat f l :
    m <> ""%string ->
    let r := rw_message (handle_warning resolve construct
                  (serialize {| ww_message := WInst m c dmp a t; ww_category := cat; ww_filename := f; ww_lineno := l |})) in
    (r = RInst m c a /\ dmp = true) \/ r = RGeneric (generic_text m c t).
  Proof.
    intros Hm. cbv zeta. unfold handle_warning, unserialize, serialize, generic_fallback, bind, truthy. cbn.
    assert (E : String.eqb m "" = false) by (apply String.eqb_neq; exact Hm). rewrite E. cbn.
    destruct cat as [[cm cc]|]; cbn.
    - destruct (resolve m c) eqn:R1; cbn; [|right; reflexivity].
      destruct dmp; cbn; [destruct (construct m c a); cbn|];
        destruct (negb (String.eqb cm "")); cbn; try destruct (resolve cm cc) eqn:R2; cbn; auto.
    - destruct (resolve m c) eqn:R1; cbn; [|right; reflexivity].
      destruct dmp; cbn; [destruct (construct m c a); cbn|]; auto.
  Qed.

  (* the category is kept whenever the warning could be rebuilt *)
  Lemma unserialize_category w r :
    unserialize resolve construct (serialize w) = Ok r ->
    rw_category r = match ww_category w with
                    | Some (m, c) => if String.eqb m "" then None else Some (m, c)
                    | None => None
                    end.
  Proof.
    unfold unserialize, serialize, bind, truthy. destruct w as [msg cat f l]. cbn.
    destruct cat as [[cm cc]|]; cbn.
    - destruct msg as [t|m c dmp a t]; cbn.
      + destruct (String.eqb cm ""); cbn; [intros H; inversion H; reflexivity|].
        destruct (resolve cm cc); cbn; intros H; inversion H; reflexivity.
      + destruct (negb (String.eqb m "")); cbn.
        * destruct (resolve m c); cbn; [|discriminate].
          destruct dmp; cbn; [destruct (construct m c a); cbn; try discriminate|];
            (destruct (String.eqb cm ""); cbn; [intros H; inversion H; reflexivity|];
             destruct (resolve cm cc); cbn; intros H; inversion H; reflexivity).
        * destruct (String.eqb cm ""); cbn; [intros H; inversion H; reflexivity|].
          destruct (resolve cm cc); cbn; intros H; inversion H; reflexivity.
    - destruct msg as [t|m c dmp a t]; cbn.
      + intros H; inversion H; reflexivity.
      + destruct (negb (String.eqb m "")); cbn; [|intros H; inversion H; reflexivity].
        destruct (resolve m c); cbn; [|discriminate].
        destruct dmp; cbn; [destruct (construct m c a); cbn; try discriminate|]; intros H; inversion H; reflexivity.
  Qed.
End Warn.

(* the bare function is NOT total: an unimportable module makes it raise (why the handler has a fallback) *)
Example unserialize_not_total_refuted :
  exists w, unserialize (fun _ _ => Err EImport) (fun _ _ _ => CBuilt) (serialize w) = Err EImport.
Proof.
  exists {| ww_message := WInst "sub.test_w" "MyW" true ["careful"] "careful"; ww_category := None;
            ww_filename := "sub/test_w.py"; ww_lineno := 6%Z |}%string.
  reflexivity.
Qed.

(* ---------------- C18: the failure memory ---------------- *)
Lemma mem_str_In x l : mem_str x l = true <-> In x l.
Proof.
  unfold mem_str. rewrite existsb_exists. split.
  - intros (y & Hy & E). apply String.eqb_eq in E. subst. exact Hy.
  - intros H. exists x. split; [exact H|apply String.eqb_refl].
Qed.

Lemma dedup_str_spec seen l x : In x (dedup_str seen l) <-> In x l /\ ~ In x seen.
Proof.
  revert seen. induction l as [|a l IH]; intros seen; cbn; [tauto|].
  destruct (mem_str a seen) eqn:M.
  - apply mem_str_In in M. rewrite IH. split; [tauto|]. intros [[->|H] Hn]; tauto.
  - assert (Hn : ~ In a seen) by (intros H; apply mem_str_In in H; congruence).
    cbn. rewrite IH. cbn. split.
    + intros [->|(H1 & H2)]; [tauto|]. split; [tauto|]. intros H; apply H2; right; exact H.
    + intros ([->|H1] & H2); [tauto|]. destruct (string_dec a x) as [->|Hne]; [tauto|].
      right. split; [exact H1|]. intros [H|H]; [congruence|tauto].
Qed.

Lemma dedup_str_nodup seen l : NoDup (dedup_str seen l).
Proof.
  revert seen. induction l as [|a l IH]; intros seen; cbn; [constructor|].
  destruct (mem_str a seen) eqn:M; [apply IH|]. constructor; [|apply IH].
  rewrite dedup_str_spec. intros (_ & H). apply H. left. reflexivity.
Qed.

(* after a run that collected: the distinct failing ids of that run, first occurrences in order *)
Theorem remember_spec old failures :
  let r := remember old failures false in
  NoDup r /\ (forall x, In x r <-> In x failures) /\
  (forall pre x post, failures = pre ++ x :: post -> ~ In x pre -> exists pre' post', r = pre' ++ x :: post' /\
                      (forall y, In y pre' -> In y pre)).
Proof.
  cbv zeta. unfold remember. split; [apply dedup_str_nodup|]. split.
  - intros x. rewrite dedup_str_spec. cbn. tauto.
  - assert (G : forall seen pre x post, ~ In x pre -> ~ In x seen ->
              exists pre' post', dedup_str seen (pre ++ x :: post) = pre' ++ x :: post' /\ (forall y, In y pre' -> In y pre)).
    { intros seen pre. revert seen. induction pre as [|a pre IH]; intros seen x post Hp Hs; cbn.
      - assert (M : mem_str x seen = false).
        { destruct (mem_str x seen) eqn:M; [apply mem_str_In in M; tauto|reflexivity]. }
        rewrite M. exists [], (dedup_str (x :: seen) post). split; [reflexivity|intros y []].
      - assert (Hax : a <> x) by (intros ->; apply Hp; left; reflexivity).
        assert (Hp' : ~ In x pre) by (intros H; apply Hp; right; exact H).
        destruct (mem_str a seen).
        + destruct (IH seen x post Hp' Hs) as (p' & q' & E & I). exists p', q'. split; [exact E|]. intros y Hy; right; auto.
        + destruct (IH (a :: seen) x post Hp') as (p' & q' & E & I); [intros [H|H]; [congruence|tauto]|].
          exists (a :: p'), q'. rewrite E. split; [reflexivity|]. intros y [->|Hy]; [left; reflexivity|right; auto]. }
    intros pre x post -> Hp. apply G; [exact Hp|intros []].
Qed.

(* when collection itself failed the remembered set is kept as it was *)
Theorem remember_collection_failed old failures : remember old failures true = old.
Proof. reflexivity. Qed.

(* ---------------- C19: purely local workers never synchronise ---------------- *)
Theorem local_popen_never_syncs specs :
  (forall sp, In sp specs -> x_popen sp = true /\ x_chdir sp = false) ->
  needs_rsync_roots specs = false /\
  (forall sp, In sp specs -> rsync_transfers sp = false /\ rewrites_args sp = false).
Proof.
  intros H. split.
  - unfold needs_rsync_roots. induction specs as [|sp r IH]; [reflexivity|].
    cbn. destruct (H sp (or_introl eq_refl)) as (A & B). rewrite A, B. cbn. apply IH.
    intros s Hs. apply H. right. exact Hs.
  - intros sp Hs. destruct (H sp Hs) as (A & B). unfold rsync_transfers, rewrites_args. rewrite A, B. auto.
Qed.

Theorem remote_or_chdir_syncs specs sp :
  In sp specs -> (x_popen sp = false \/ x_chdir sp = true) ->
  needs_rsync_roots specs = true /\ rsync_transfers sp = true /\ rewrites_args sp = true.
Proof.
  intros Hin Hc. split.
  - unfold needs_rsync_roots. apply existsb_exists. exists sp. split; [exact Hin|].
    destruct Hc as [-> | ->]; [reflexivity|apply orb_true_r].
  - unfold rsync_transfers, rewrites_args. destruct Hc as [-> | ->]; cbn; auto.
    destruct (x_popen sp); cbn; auto.
Qed.

(* an argument naming nothing on disk is passed through unchanged *)
Theorem reltoroot_nonexisting_unchanged exists_ roots arg p0 sel :
  split2 arg = p0 :: sel -> exists_ (parse_path p0) = false -> reltoroot_arg exists_ roots arg = Ok arg.
Proof. intros Hs He. unfold reltoroot_arg. rewrite Hs, He. reflexivity. Qed.

(* an existing path outside all roots is rejected *)
Theorem reltoroot_outside_rejected exists_ roots arg p0 sel :
  split2 arg = p0 :: sel -> exists_ (parse_path p0) = true ->
  first_root (parse_path p0) roots = None -> reltoroot_arg exists_ roots arg = Err EValue.
Proof. intros Hs He Hr. unfold reltoroot_arg. rewrite Hs, He, Hr. reflexivity. Qed.

(* an existing path under a root is rewritten to '<root name>/<relative path>' with the selectors untouched *)
Theorem reltoroot_rewrites exists_ roots arg p0 sel r rel :
  split2 arg = p0 :: sel -> exists_ (parse_path p0) = true ->
  first_root (parse_path p0) roots = Some (r, rel) ->
  reltoroot_arg exists_ roots arg =
  Ok (join_sep ((path_name r ++ ["/"%char] ++ path_str {| p_abs := false; p_parts := rel |}) :: sel)).
Proof. intros Hs He Hr. unfold reltoroot_arg. rewrite Hs, He, Hr. reflexivity. Qed.
