(* SystemCorollaries.v — the controller-level theorems (DSessionProofs, ShutdownOnce, StopProofs)
   lifted to the WHOLE SYSTEM: statements about
       sys_exec c (sys_init c) ls = (s, outs, wevs)
   for every configuration c (all six modes) and every schedule ls (crashes included).

   Part A  the bridge: the controller's part of every system run is a sequence of controller
           moves (loop_once / no-active / receiver thread / channel-closed flag), [ctrace];
           any relation that is reflexive, composes along output append and holds for the four
           kinds of move holds for every system run                       (sys_exec_lift)
   Part B  C10 restart budget, C12 worker identities
   Part C  C16 command stream: at most one shutdown per worker
   Part D  C11 stop flag
*)
From XV Require Import Base Worker Ctl SchedLoad SchedSteal SchedScope SchedEach Sched DSession System
  NoHook DSessionProofs ShutdownOnce StopProofs FifoProofs.
From XV Require Coupling.
Open Scope nat_scope.

(* ====================================================================================== *)
(* Part A: the bridge                                                                      *)
(* ====================================================================================== *)

(* the channel of worker n is known to be closed (Channel.send would raise): set by the system
   when a worker dies (strict channels) or when the end marker of a dead worker has been seen *)
Definition close_flag (f : nctl) : nctl :=
  {| n_spec := n_spec f; n_down := n_down f; n_sdsent := n_sdsent f; n_closed := true |}.

(* one move of the controller side of the system; the flag says whether the move completed
   without a Python exception (a move that raises ends the session with an error result) *)
Definition is_ok {A} (r : result A) : bool := match r with Ok _ => true | Err _ => false end.

Inductive cmove : bool -> dstate -> dstate -> list out -> Prop :=
| CM_loop ev d d' o r : d_loop_once ev d = (d', o, r) -> cmove (is_ok r) d d' o
| CM_noact d d' o r : d_no_active d = (d', o, r) -> cmove false d d' o
| CM_recv n m d d' o r : process_from_remote n m d = (d', o, r) -> cmove (is_ok r) d d' o
| CM_close n f d : aget n (d_nt d) = Some f ->
                   cmove true d (d_set_nt d (aset n (close_flag f) (d_nt d))) [].

(* a trace of moves; a move that raised is the last one *)
Inductive ctrace : bool -> dstate -> dstate -> list out -> Prop :=
| CT_nil d : ctrace true d d []
| CT_last d d' o : cmove false d d' o -> ctrace false d d' o
| CT_step k d d1 d2 o1 o2 :
    cmove true d d1 o1 -> ctrace k d1 d2 o2 -> ctrace k d d2 (o1 ++ o2).

Lemma ctrace_one k d d' o : cmove k d d' o -> ctrace k d d' o.
Proof.
  intros H. destruct k; [|apply CT_last; exact H].
  rewrite <- (app_nil_r o). eapply CT_step; [exact H|apply CT_nil].
Qed.

Lemma ctrace_app' k1 d d1 o1 : ctrace k1 d d1 o1 -> k1 = true ->
  forall k2 d2 o2, ctrace k2 d1 d2 o2 -> ctrace k2 d d2 (o1 ++ o2).
Proof.
  induction 1 as [d|d d' o Hm|k d da db oa ob Hm Ht IH]; intros Ek k2 d2 o2 H2; [exact H2|discriminate|].
  rewrite <- app_assoc. eapply CT_step; [exact Hm|apply IH; assumption].
Qed.

Lemma ctrace_app k2 d d1 d2 o1 o2 :
  ctrace true d d1 o1 -> ctrace k2 d1 d2 o2 -> ctrace k2 d d2 (o1 ++ o2).
Proof. intros H1 H2. eapply ctrace_app'; [exact H1|reflexivity|exact H2]. Qed.

Lemma ctrace_app_nil d d1 d2 o : ctrace true d d1 o -> ctrace true d1 d2 [] -> ctrace true d d2 o.
Proof. intros H1 H2. rewrite <- (app_nil_r o). eapply ctrace_app; eassumption. Qed.

Lemma y_d_apply_outs s outs : y_d (apply_outs s outs) = y_d s.
Proof. apply (apply_outs_frame outs s). Qed.

Lemma y_result_apply_outs outs : forall s, y_result (apply_outs s outs) = y_result s.
Proof.
  induction outs as [|x outs IH]; intros s; [reflexivity|].
  destruct x as [h|n cmd| |]; cbn [apply_outs]; try apply IH.
  - destruct h; try apply IH. rewrite IH. reflexivity.
  - destruct (mem_nat n (y_dead s)); rewrite IH; reflexivity.
Qed.

Lemma crash_worker_ctrace c s n : ctrace true (y_d s) (y_d (crash_worker c s n)) [].
Proof.
  unfold crash_worker. cbn [y_d]. destruct (c_strict c); [|apply CT_nil].
  destruct (aget n (d_nt (y_d s))) as [f|] eqn:Ef; [|apply CT_nil].
  apply ctrace_one. apply (CM_close n f). exact Ef.
Qed.

Lemma close_if_dead_ctrace s n : ctrace true (y_d s) (y_d (close_if_dead s n)) [].
Proof.
  unfold close_if_dead. destruct (mem_nat n (y_dead s)); [|apply CT_nil].
  destruct (aget n (d_nt (y_d s))) as [f|] eqn:Ef; [|apply CT_nil].
  destruct (n_down f) eqn:Edn; [|apply CT_nil].
  cbn [set_d y_d]. apply ctrace_one.
  replace {| n_spec := n_spec f; n_down := true; n_sdsent := n_sdsent f; n_closed := true |}
    with (close_flag f) by (unfold close_flag; rewrite Edn; reflexivity).
  apply (CM_close n f). exact Ef.
Qed.

Lemma close_if_dead_result s n : y_result (close_if_dead s n) = y_result s.
Proof.
  unfold close_if_dead. destruct (mem_nat n (y_dead s)); [|reflexivity].
  destruct (aget n (d_nt (y_d s))) as [f|]; [|reflexivity]. destruct (n_down f); reflexivity.
Qed.

(* the session has ended with a Python exception escaping the controller *)
Definition errored (s : sys) : Prop := exists e, y_result s = Some (RError e).

(* THE BRIDGE, one step: whatever the label, the controller state moves by controller moves, the
   outputs of the step are exactly the outputs of these moves, and if one of the moves raised
   the session has an error result *)
Theorem sys_step_ctrace c s l s' o w :
  sys_step c s l = Some (s', o, w) ->
  exists k, ctrace k (y_d s) (y_d s') o /\ (k = false -> errored s') /\
            (k = true -> y_result s' = None \/ y_result s' = Some RFinished \/ y_result s' = Some RInterrupted).
Proof.
  unfold sys_step. destruct (y_result s) eqn:Eres; [discriminate|].
  assert (T0 : forall s1, y_d s1 = y_d s -> y_result s1 = None ->
               exists k, ctrace k (y_d s) (y_d s1) [] /\ (k = false -> errored s1) /\
                 (k = true -> y_result s1 = None \/ y_result s1 = Some RFinished \/ y_result s1 = Some RInterrupted)).
  { intros s1 E1 E2. exists true. rewrite E1. split; [apply CT_nil|]. split; [discriminate|auto]. }
  assert (TC : forall n, exists k, ctrace k (y_d s) (y_d (crash_worker c s n)) [] /\ (k = false -> errored (crash_worker c s n)) /\
                 (k = true -> y_result (crash_worker c s n) = None \/ y_result (crash_worker c s n) = Some RFinished \/
                              y_result (crash_worker c s n) = Some RInterrupted)).
  { intros n. exists true. split; [apply crash_worker_ctrace|]. split; [discriminate|]. intros _. left. exact Eres. }
  destruct l as [n|n|n|n| |n].
  - (* LDeliver *)
    destruct (mem_nat n (y_dead s)); [discriminate|].
    destruct (aget n (y_down s)) as [[|cmd rest]|]; try discriminate.
    destruct (aget n (y_w s)); [|discriminate]. intros H; inversion H; subst. apply T0; first [reflexivity|exact Eres].
  - (* LRecvW *)
    destruct (mem_nat n (y_dead s)); [discriminate|].
    destruct (aget n (y_w s)) as [w0|]; [|discriminate].
    destruct (negb (wcb w0)); [discriminate|].
    destruct (recv_step (c_oracle c n) w0) as [w1 evs]. intros H; inversion H; subst. apply T0; first [reflexivity|exact Eres].
  - (* LMain *)
    destruct (mem_nat n (y_dead s)); [discriminate|].
    destruct (aget n (y_w s)) as [w0|]; [|discriminate].
    destruct (dies_now c n w0).
    + intros H; inversion H; subst. apply TC.
    + destruct (main_step (c_oracle c n) w0) as [[w1 evs]|]; [|discriminate].
      intros H; inversion H; subst. apply T0; first [reflexivity|exact Eres].
  - (* LRecv *)
    destruct (aget n (y_up s)) as [[|m rest]|]; try discriminate.
    cbn [y_d].
    destruct (process_from_remote n m (y_d s)) as [[d' outs] r] eqn:E.
    pose proof (CM_recv _ _ _ _ _ _ E) as M.
    destruct r as [evs|e]; intros H; inversion H; subst; clear H; cbn [is_ok] in M.
    + exists true. split; [|split; [discriminate|]].
      * eapply ctrace_app_nil; [apply ctrace_one; exact M|].
        match goal with |- ctrace _ _ (y_d (close_if_dead ?s2 n)) [] =>
          assert (E2 : y_d s2 = d') by (cbn [set_evq y_d]; rewrite y_d_apply_outs; reflexivity);
          generalize (close_if_dead_ctrace s2 n); generalize dependent s2 end.
        intros s2 E2. rewrite E2. exact (fun K => K).
      * intros _. left. rewrite close_if_dead_result. cbn [set_evq y_result].
        rewrite y_result_apply_outs. reflexivity.
    + exists false. split; [|split; [intros _; exists e; reflexivity|discriminate]].
      cbn [set_result y_d]. rewrite y_d_apply_outs. cbn [set_d y_d]. apply ctrace_one. exact M.
  - (* LCtl *)
    destruct (d_active (y_d s)) as [|a act] eqn:Ea.
    + destruct (d_no_active (y_d s)) as [[d' outs] r] eqn:E. intros H; inversion H; subst.
      exists false. split; [|split; [intros _; eexists; reflexivity|discriminate]].
      cbn [set_result y_d]. rewrite y_d_apply_outs. cbn [set_d y_d].
      apply ctrace_one. eapply CM_noact; exact E.
    + destruct (y_evq s) as [|ev q]; [discriminate|].
      destruct (d_loop_once ev (y_d s)) as [[d' outs] r] eqn:E.
      pose proof (CM_loop _ _ _ _ _ E) as M.
      destruct r as [u|e]; cbn [is_ok] in M.
      * destruct (d_session_finished d').
        { intros H; inversion H; subst. exists true. split; [|split; [discriminate|]].
          - cbn [set_result y_d]. rewrite y_d_apply_outs. cbn [set_d y_d]. apply ctrace_one. exact M.
          - intros _. right. cbn [set_result y_result]. destruct (d_shouldstop d'); auto. }
        destruct (d_active d') as [|a' act'] eqn:Ea'.
        { destruct (d_no_active d') as [[d2 outs2] r2] eqn:E2. intros H; inversion H; subst.
          exists false. split; [|split; [intros _; eexists; reflexivity|discriminate]].
          cbn [set_result y_d]. rewrite y_d_apply_outs. cbn [set_d y_d].
          eapply ctrace_app; [apply ctrace_one; exact M|]. apply ctrace_one. eapply CM_noact; exact E2. }
        intros H; inversion H; subst. exists true. split; [|split; [discriminate|]].
        -- rewrite y_d_apply_outs. cbn [set_d y_d]. apply ctrace_one. exact M.
        -- intros _. left. rewrite y_result_apply_outs. exact Eres.
      * intros H; inversion H; subst. exists false. split; [|split; [intros _; exists e; reflexivity|discriminate]].
        cbn [set_result y_d]. rewrite y_d_apply_outs. cbn [set_d y_d]. apply ctrace_one. exact M.
  - (* LCrash *)
    destruct (mem_nat n (y_dead s)); [discriminate|].
    destruct (aget n (y_w s)) as [w0|]; [|discriminate].
    destruct (wph w0); try discriminate; intros H; inversion H; subst; apply TC.
Qed.

(* once the session has a result nothing moves any more *)
Lemma sys_exec_done c ls : forall s, y_result s <> None -> sys_exec c s ls = (s, [], []).
Proof.
  induction ls as [|l ls IH]; intros s Hr; cbn [sys_exec]; [reflexivity|].
  unfold sys_step. destruct (y_result s) eqn:Er; [apply IH; rewrite Er; discriminate|contradiction].
Qed.

(* THE BRIDGE, whole runs: all outputs of a system run are the outputs of a controller trace;
   the trace contains a move that raised iff the session ended with an error result *)
Definition not_errored (s : sys) : Prop := forall e, y_result s <> Some (RError e).

Theorem sys_controller_trace c ls : forall s s' o w,
  sys_exec c s ls = (s', o, w) ->
  exists k, ctrace k (y_d s) (y_d s') o /\ (k = false -> errored s') /\
            (k = true -> not_errored s -> not_errored s').
Proof.
  induction ls as [|l ls IH]; intros s s' o w H; cbn [sys_exec] in H.
  - inversion H; subst. exists true. split; [apply CT_nil|]. split; [discriminate|auto].
  - destruct (sys_step c s l) as [[[s1 o1] w1]|] eqn:E; [|eapply IH; exact H].
    destruct (sys_exec c s1 ls) as [[s2 o2] w2] eqn:E2. inversion H; subst.
    destruct (sys_step_ctrace _ _ _ _ _ _ E) as (k1 & T1 & F1 & G1).
    destruct k1.
    + destruct (IH _ _ _ _ E2) as (k2 & T2 & F2 & G2). exists k2.
      split; [eapply ctrace_app; eassumption|]. split; [exact F2|].
      intros K _. apply (G2 K). intros e He.
      destruct (G1 eq_refl) as [X|[X|X]]; rewrite X in He; discriminate.
    + destruct (F1 eq_refl) as (e & Er).
      rewrite (sys_exec_done c ls s1) in E2 by (rewrite Er; discriminate). inversion E2; subst.
      exists false. rewrite !app_nil_r. split; [exact T1|]. split; [|discriminate].
      intros _. exists e. exact Er.
Qed.

Lemma not_errored_init c : not_errored (sys_init c).
Proof. intros e. discriminate. Qed.

(* lifting: a relation that holds for every controller move holds for every system run *)
Section Lift.
  Variable R : dstate -> dstate -> list out -> Prop.
  Hypothesis R_refl : rrefl R.
  Hypothesis R_trans : rtrans R.
  Hypothesis R_move : forall k d d' o, cmove k d d' o -> R d d' o.

  Lemma ctrace_lift k d d' o : ctrace k d d' o -> R d d' o.
  Proof.
    induction 1 as [d|d d' o Hm|k d d1 d2 o1 o2 Hm Ht IH]; [apply R_refl|eapply R_move; exact Hm|].
    eapply R_trans; [eapply R_move; exact Hm|exact IH].
  Qed.

  Theorem sys_exec_lift c ls s s' o w :
    sys_exec c s ls = (s', o, w) -> R (y_d s) (y_d s') o.
  Proof.
    intros H. destruct (sys_controller_trace _ _ _ _ _ _ H) as (k & T & _). eapply ctrace_lift; exact T.
  Qed.
End Lift.

(* the same for relations that only hold for moves that did not raise: they hold for every run
   that did not end with an error result *)
Section LiftOk.
  Variable R : dstate -> dstate -> list out -> Prop.
  Hypothesis R_refl : rrefl R.
  Hypothesis R_trans : rtrans R.
  Hypothesis R_move : forall d d' o, cmove true d d' o -> R d d' o.

  Lemma ctrace_lift_ok' k a b o : ctrace k a b o -> k = true -> R a b o.
  Proof.
    induction 1 as [d|d d' o Hm|k d d1 d2 o1 o2 Hm Ht IH]; intros Ek; [apply R_refl|discriminate|].
    eapply R_trans; [apply R_move; exact Hm|apply IH; exact Ek].
  Qed.
  Lemma ctrace_lift_ok a b o : ctrace true a b o -> R a b o.
  Proof. intros H. eapply ctrace_lift_ok'; [exact H|reflexivity]. Qed.

  Theorem sys_exec_lift_ok c ls s s' o w :
    sys_exec c s ls = (s', o, w) -> not_errored s' -> R (y_d s) (y_d s') o.
  Proof.
    intros H Hn. destruct (sys_controller_trace _ _ _ _ _ _ H) as (k & T & F & _).
    destruct k; [apply ctrace_lift_ok; exact T|]. destruct (F eq_refl) as (e & He). destruct (Hn e He).
  Qed.
End LiftOk.

(* relations that need an invariant P of the controller state which only moves that did not
   raise re-establish: since a move that raised is the last one, the relation holds for every run
   from a state with P *)
Section LiftPre.
  Variable P : dstate -> Prop.
  Variable R : dstate -> dstate -> list out -> Prop.
  Hypothesis R_refl : rrefl R.
  Hypothesis R_trans : rtrans R.
  Hypothesis R_move : forall k d d' o, cmove k d d' o -> P d -> R d d' o /\ (k = true -> P d').

  Lemma ctrace_lift_pre k d d' o : ctrace k d d' o -> P d -> R d d' o /\ (k = true -> P d').
  Proof.
    induction 1 as [d|d d' o Hm|k d d1 d2 o1 o2 Hm Ht IH]; intros Hp.
    - split; [apply R_refl|auto].
    - exact (R_move _ _ _ _ Hm Hp).
    - destruct (R_move _ _ _ _ Hm Hp) as (R1 & P1). destruct (IH (P1 eq_refl)) as (R2 & P2).
      split; [eapply R_trans; eassumption|exact P2].
  Qed.

  Theorem sys_exec_lift_pre c ls s s' o w :
    sys_exec c s ls = (s', o, w) -> P (y_d s) ->
    R (y_d s) (y_d s') o /\ (not_errored s' -> P (y_d s')).
  Proof.
    intros H Hp. destruct (sys_controller_trace _ _ _ _ _ _ H) as (k & T & F & _).
    destruct (ctrace_lift_pre _ _ _ _ T Hp) as (R1 & P1). split; [exact R1|].
    intros Hn. destruct k; [apply P1; reflexivity|]. destruct (F eq_refl) as (e & He). destruct (Hn e He).
  Qed.
End LiftPre.

Print Assumptions sys_controller_trace.
Print Assumptions sys_exec_lift.
Print Assumptions sys_exec_lift_ok.
Print Assumptions sys_exec_lift_pre.

(* ====================================================================================== *)
(* Part B: C10 (restart budget) and C12 (worker identities)                                *)
(* ====================================================================================== *)

(* the receiver thread spawns nothing and leaves the restart bookkeeping alone *)
Lemma quiet_process_from_remote n m : quiet (process_from_remote n m).
Proof.
  intros d0. unfold process_from_remote.
  apply DSessionProofs.f_get. apply (DSessionProofs.f_bind _ _ same_budget_trans); [apply (DSessionProofs.f_of_opt _ _ same_budget_refl)|].
  intros f d1 Hb. cbv zeta.
  assert (PUT : forall v, DSessionProofs.from same_budget quiet_out d1 (put (d_set_nt d0 v))).
  { intros v. apply DSessionProofs.f_put. destruct Hb as (B1 & B2 & B3). repeat split; cbn; congruence. }
  assert (NS : forall d, DSessionProofs.from same_budget quiet_out d (d_node_shutdown n)) by (intros d; apply quiet_node_shutdown).
  assert (RT : forall (l : list cevent) d, DSessionProofs.from same_budget quiet_out d (ret l))
    by (intros l d; apply (DSessionProofs.f_ret _ _ same_budget_refl)).
  assert (SEQ : forall v (l : list cevent), DSessionProofs.from same_budget quiet_out d1 (put (d_set_nt d0 v) ;;; ret l)).
  { intros v l. apply (DSessionProofs.f_bind _ _ same_budget_trans); [apply PUT|intros; apply RT]. }
  destruct m as [e|ids|sk|i ms|dec| | |]; destruct (n_down f); try apply RT; try apply SEQ.
  - destruct e; try apply RT; apply SEQ.
  - apply (DSessionProofs.f_bind _ _ same_budget_trans); [apply NS|]. intros _ d2 _.
    apply DSessionProofs.f_get. apply (DSessionProofs.f_bind _ _ same_budget_trans); [|intros; apply RT].
    destruct (aget n (d_nt d2)); [|apply (DSessionProofs.f_ret _ _ same_budget_refl)].
    apply DSessionProofs.f_put. repeat split.
Qed.

Lemma cmove_step_rel k d d' o : cmove k d d' o -> step_rel d d' o.
Proof.
  intros [ev d0 d1 o1 r H|d0 d1 o1 r H|n m d0 d1 o1 r H|n f d0 Hf].
  - eapply loop_once_step; exact H.
  - eapply quiet_step; [apply quiet_no_active|exact H].
  - eapply quiet_step; [apply quiet_process_from_remote|exact H].
  - unfold step_rel. cbn. rewrite count_nil. repeat split; try lia. left. split; reflexivity.
Qed.

(* what composes: budget consumed and ids handed out *)
Definition budget_rel (d d' : dstate) (o : list out) : Prop :=
  d_max_restart d' = d_max_restart d /\
  (forall m, d_max_restart d = Some m ->
             (Z.of_nat (count is_spawn o) <= remaining d - remaining d')%Z) /\
  spawn_ids o = seq (d_next_gw d) (count is_spawn o) /\
  d_next_gw d' = d_next_gw d + count is_spawn o.

Lemma budget_rel_refl : rrefl budget_rel.
Proof. intros d. unfold budget_rel. rewrite count_nil. cbn. repeat split; try lia. Qed.

Lemma budget_rel_trans : rtrans budget_rel.
Proof.
  intros a b c o1 o2 (A1 & A2 & A3 & A4) (B1 & B2 & B3 & B4). unfold budget_rel.
  rewrite count_app, spawn_ids_app, A3, B3, A4, seq_app. repeat split; try congruence; try lia.
  intros m Hm. specialize (A2 m Hm). specialize (B2 m (eq_trans A1 Hm)). lia.
Qed.

Lemma budget_rel_move k d d' o : cmove k d d' o -> budget_rel d d' o.
Proof.
  intros H. apply cmove_step_rel in H. pose proof H as (S1 & _).
  destruct (step_spawn_ids _ _ _ H) as (I & G). unfold budget_rel.
  split; [exact S1|]. split; [|auto].
  intros m Em. exact (proj1 (step_rel_remaining _ _ _ _ Em H)).
Qed.

Theorem sys_exec_budget c ls s s' o w :
  sys_exec c s ls = (s', o, w) -> budget_rel (y_d s) (y_d s') o.
Proof. apply (sys_exec_lift budget_rel budget_rel_refl budget_rel_trans budget_rel_move). Qed.

Lemma remaining_nonneg d : (0 <= remaining d)%Z.
Proof. unfold remaining. destruct (d_max_restart d); lia. Qed.

(* ---- C10: the restart budget, for the whole session ---- *)
Theorem sys_restart_budget c ls s outs wevs b :
  sys_exec c (sys_init c) ls = (s, outs, wevs) -> c_max_restart c = Some b ->
  count is_spawn outs <= Z.to_nat (Z.max 0 b).
Proof.
  intros H Hb. destruct (sys_exec_budget _ _ _ _ _ _ H) as (_ & B & _).
  specialize (B b Hb). pose proof (remaining_nonneg (y_d s)) as N.
  unfold remaining at 1 in B. cbn [sys_init y_d d_max_restart d_failed_nodes] in B. rewrite Hb in B.
  replace (b - 0)%Z with b in B by lia. lia.
Qed.

Corollary sys_restart_disabled c ls s outs wevs b :
  sys_exec c (sys_init c) ls = (s, outs, wevs) -> c_max_restart c = Some b -> (b <= 0)%Z ->
  count is_spawn outs = 0 /\ forall id sp, ~ In (OHook (HSpawn id sp)) outs.
Proof.
  intros H Hb Hle. pose proof (sys_restart_budget _ _ _ _ _ _ H Hb) as B.
  assert (C0 : count is_spawn outs = 0) by lia. split; [exact C0|].
  intros id sp Hin. eapply not_spawn_in; [exact C0|exact Hin|reflexivity].
Qed.

(* the budget still available in the final state accounts for every spawn *)
Corollary sys_restart_budget_exact c ls s outs wevs b :
  sys_exec c (sys_init c) ls = (s, outs, wevs) -> c_max_restart c = Some b ->
  (Z.of_nat (count is_spawn outs) <= Z.max 0 b - remaining (y_d s))%Z.
Proof.
  intros H Hb. destruct (sys_exec_budget _ _ _ _ _ _ H) as (_ & B & _).
  specialize (B b Hb). unfold remaining at 1 in B.
  cbn [sys_init y_d d_max_restart d_failed_nodes] in B. rewrite Hb in B.
  replace (b - 0)%Z with b in B by lia. exact B.
Qed.

(* ---- C12: identities of the replacement workers ---- *)
Theorem sys_spawn_ids c ls s outs wevs :
  sys_exec c (sys_init c) ls = (s, outs, wevs) ->
  spawn_ids outs = seq (c_numnodes c) (count is_spawn outs) /\
  d_next_gw (y_d s) = c_numnodes c + count is_spawn outs.
Proof.
  intros H. destruct (sys_exec_budget _ _ _ _ _ _ H) as (_ & _ & I & G). split; assumption.
Qed.

Corollary sys_spawn_ids_distinct_fresh c ls s outs wevs :
  sys_exec c (sys_init c) ls = (s, outs, wevs) ->
  NoDup (spawn_ids outs) /\
  (forall j, In j (spawn_ids outs) -> c_numnodes c <= j < d_next_gw (y_d s)) /\
  (forall k j, nth_error (spawn_ids outs) k = Some j -> j = c_numnodes c + k).
Proof.
  intros H. destruct (sys_spawn_ids _ _ _ _ _ H) as (I & G). rewrite I, G.
  split; [apply seq_NoDup|]. split.
  - intros j Hj. apply in_seq in Hj. lia.
  - intros k j Hk. assert (Hlt : k < count is_spawn outs).
    { rewrite <- (seq_length (count is_spawn outs) (c_numnodes c)). apply nth_error_Some. congruence. }
    rewrite (nth_error_nth' _ 0) in Hk by (rewrite seq_length; exact Hlt).
    rewrite seq_nth in Hk by exact Hlt. congruence.
Qed.

(* the same for every extension of a run: an id handed out is never handed out again later, and
   the ids of the longer run extend those of the shorter one *)
Corollary sys_spawn_ids_never_reused c ls1 ls2 s1 o1 w1 s2 o2 w2 :
  sys_exec c (sys_init c) ls1 = (s1, o1, w1) -> sys_exec c s1 ls2 = (s2, o2, w2) ->
  spawn_ids (o1 ++ o2) = spawn_ids o1 ++ spawn_ids o2 /\
  NoDup (spawn_ids o1 ++ spawn_ids o2) /\
  (forall j, In j (spawn_ids o2) -> ~ In j (spawn_ids o1) /\ c_numnodes c <= j).
Proof.
  intros H1 H2.
  assert (H : sys_exec c (sys_init c) (ls1 ++ ls2) = (s2, o1 ++ o2, w1 ++ w2)).
  { rewrite sys_exec_app, H1, H2. reflexivity. }
  destruct (sys_spawn_ids_distinct_fresh _ _ _ _ _ H) as (ND & FR & _).
  rewrite spawn_ids_app in ND, FR. split; [apply spawn_ids_app|]. split; [exact ND|].
  intros j Hj. split.
  - intros Hj1. clear -ND Hj Hj1. induction (spawn_ids o1) as [|x l IH]; [destruct Hj1|].
    cbn in ND. inversion ND; subst. destruct Hj1 as [->|Hj1]; [apply H1; apply in_or_app; right; exact Hj|auto].
  - apply (FR j). apply in_or_app. right. exact Hj.
Qed.

Print Assumptions sys_restart_budget.
Print Assumptions sys_restart_disabled.
Print Assumptions sys_spawn_ids.
Print Assumptions sys_spawn_ids_distinct_fresh.
Print Assumptions sys_spawn_ids_never_reused.

(* ====================================================================================== *)
(* Part C: C16 — the command stream of every worker holds at most one shutdown command      *)
(*         (all six modes, every schedule)                                                  *)
(* ====================================================================================== *)
Notation cmds_to := Coupling.cmds_to.

Definition is_shutdown (x : cmd) : bool := match x with CShutdown => true | _ => false end.
Definition nsd (cs : list cmd) : nat := length (filter is_shutdown cs).

Lemma sd_count_cmds n o : sd_count n o = nsd (cmds_to n o).
Proof.
  unfold sd_count, nsd, cmds_to, Coupling.cmds_to. induction o as [|x o IH]; [reflexivity|].
  cbn [filter flat_map]. rewrite filter_app, app_length, <- IH.
  destruct x as [h|m cm| |]; cbn [Coupling.cmd_to filter length]; try reflexivity.
  destruct cm; cbn; destruct (Nat.eqb m n); reflexivity.
Qed.

Lemma cmove_RD k d d' o : cmove k d d' o -> RD d d' o.
Proof.
  intros [ev d0 d1 o1 r H|d0 d1 o1 r H|n m d0 d1 o1 r H|n f d0 Hf].
  - exact (rd_loop_once ev d0 _ _ _ H).
  - apply RK_RD. unfold d_no_active, mbind in H.
    destruct (d_triggershutdown d0) as [[dt ot] rt] eqn:Et.
    pose proof (rk_triggershutdown d0 _ _ _ Et) as K.
    destruct rt as [u|e]; unfold raise in H; inversion H; subst; rewrite ?app_nil_r; exact K.
  - apply RK_RD. exact (rk_process_from_remote n m d0 _ _ _ H).
  - apply RK_RD. split; [|reflexivity]. rewrite ShutdownOnce.d_nt_set.
    eapply nt_rel_keep; [exact Hf|reflexivity].
Qed.

Theorem sys_exec_RD c ls s s' o w : sys_exec c s ls = (s', o, w) -> RD (y_d s) (y_d s') o.
Proof. apply (sys_exec_lift RD RD_refl RD_trans cmove_RD). Qed.

Lemma d_nt_init c : d_nt (y_d (sys_init c)) = init_nt c.
Proof. unfold d_nt. cbn [sys_init y_d d_sched]. apply ShutdownOnce.s_nt_set. Qed.

Lemma fresh_init c : fresh (y_d (sys_init c)).
Proof.
  intros m Hm. rewrite d_nt_init. cbn [sys_init y_d d_next_gw] in Hm. unfold init_nt.
  apply (aget_map_seq_none (fun n => {| n_spec := c_spec c n; n_down := false; n_sdsent := false;
                                         n_closed := false |})). lia.
Qed.

Lemma flag_init c n : flag (d_nt (y_d (sys_init c))) n = false.
Proof.
  rewrite d_nt_init. unfold flag, init_nt.
  induction (seq 0 (c_numnodes c)) as [|a l IH]; cbn; [reflexivity|].
  destruct (Nat.eqb n a); [reflexivity|exact IH].
Qed.

(* every reachable controller state has fresh ids *)
Theorem sys_fresh c ls s outs wevs :
  sys_exec c (sys_init c) ls = (s, outs, wevs) -> fresh (y_d s).
Proof. intros H. exact (proj1 (sys_exec_RD _ _ _ _ _ _ H (fresh_init c))). Qed.

(* ---- C16, first half: at most one shutdown command per worker in the whole session; a worker
        has been sent one only if its _shutdown_sent flag is set in the final state ---- *)
Theorem sys_shutdown_once c ls s outs wevs :
  sys_exec c (sys_init c) ls = (s, outs, wevs) ->
  forall n, nsd (cmds_to n outs) <= 1 /\
            (nsd (cmds_to n outs) = 1 -> flag (d_nt (y_d s)) n = true).
Proof.
  intros H n. destruct (sys_exec_RD _ _ _ _ _ _ H (fresh_init c)) as (_ & Hs).
  destruct (Hs n) as (_ & B & C). rewrite <- sd_count_cmds. split; [exact B|].
  intros E. exact (proj2 (C E)).
Qed.

(* between any two points of a session: a worker whose flag is set is never sent a second
   shutdown command, and the flag stays *)
Theorem sys_no_second_shutdown c ls1 ls2 s1 o1 w1 s2 o2 w2 n :
  sys_exec c (sys_init c) ls1 = (s1, o1, w1) -> sys_exec c s1 ls2 = (s2, o2, w2) ->
  flag (d_nt (y_d s1)) n = true ->
  nsd (cmds_to n o2) = 0 /\ flag (d_nt (y_d s2)) n = true.
Proof.
  intros H1 H2 Fn. pose proof (sys_fresh _ _ _ _ _ H1) as F1.
  destruct (sys_exec_RD _ _ _ _ _ _ H2 F1) as (_ & Hs).
  destruct (proj1 (Hs n) Fn) as (A & B). rewrite <- sd_count_cmds. split; assumption.
Qed.

(* so the shutdown command, if any, is the last SHUTDOWN of the stream: splitting the stream at a
   shutdown command, no other one follows or precedes *)
Corollary sys_shutdown_unique c ls s outs wevs n a b :
  sys_exec c (sys_init c) ls = (s, outs, wevs) ->
  cmds_to n outs = a ++ CShutdown :: b -> ~ In CShutdown a /\ ~ In CShutdown b.
Proof.
  intros H E. destruct (sys_shutdown_once _ _ _ _ _ H n) as (B & _). rewrite E in B.
  unfold nsd in B. rewrite filter_app, app_length in B. cbn [filter is_shutdown length] in B.
  assert (Z : forall l, In CShutdown l -> 1 <= length (filter is_shutdown l)).
  { induction l as [|x l IH]; [intros []|]. intros [->|Hin]; cbn; [lia|].
    destruct (is_shutdown x); cbn; [lia|auto]. }
  split; intros Hin; apply Z in Hin; lia.
Qed.

Print Assumptions sys_shutdown_once.
Print Assumptions sys_no_second_shutdown.
Print Assumptions sys_shutdown_unique.

(* ====================================================================================== *)
(* Part D: C11 — the stop flag (all six modes, every schedule)                             *)
(* ====================================================================================== *)
Definition is_workcmd (x : cmd) : bool :=
  match x with CRun _ | CRunAll | CSteal _ => true | _ => false end.
Definition nwork (cs : list cmd) : nat := length (filter is_workcmd cs).

Lemma work_count_cmds n o : work_count n o = nwork (cmds_to n o).
Proof.
  unfold work_count, nwork, cmds_to, Coupling.cmds_to. induction o as [|x o IH]; [reflexivity|].
  cbn [filter flat_map]. rewrite filter_app, app_length, <- IH.
  destruct x as [h|m cm| |]; cbn [Coupling.cmd_to filter length is_work]; try reflexivity.
  destruct cm; cbn; destruct (Nat.eqb m n); reflexivity.
Qed.

Lemma nwork_zero cs : nwork cs = 0 <-> Forall (fun x => is_workcmd x = false) cs.
Proof.
  unfold nwork. induction cs as [|x cs IH]; [split; [constructor|reflexivity]|].
  cbn [filter]. destruct (is_workcmd x) eqn:E; cbn [length].
  - split; [discriminate|]. intros H. inversion H; subst. congruence.
  - rewrite IH. split; [intros H; constructor; assumption|intros H; inversion H; assumption].
Qed.

(* the receiver thread leaves the stop flag and the shutting-down flag alone *)
Lemma keep_process_from_remote n m d0 : ShutdownOnce.from (lift2 sd_keep) d0 (process_from_remote n m).
Proof.
  unfold process_from_remote. apply ShutdownOnce.f_get.
  apply f_of_opt_bind; [apply sd_keep_rrefl|]. intros f Hf. cbv zeta.
  destruct m as [e|ids|sk|i ms|dec| | |]; try destruct e; st.
Qed.

Lemma keep_no_active d0 : ShutdownOnce.from (lift2 sd_keep) d0 d_no_active.
Proof. unfold d_no_active. st. Qed.

(* ---- C11 (a): the stop flag is sticky over the whole system, from any state ---- *)
Lemma cmove_stop_mono k d d' o : cmove k d d' o -> lift2 stop_mono d d' o.
Proof.
  intros [ev d0 d1 o1 r H|d0 d1 o1 r H|n m d0 d1 o1 r H|n f d0 Hf].
  - exact (mono_loop_once ev d0 _ _ _ H).
  - intros Hs. rewrite (proj1 (keep_no_active d0 _ _ _ H)). exact Hs.
  - intros Hs. rewrite (proj1 (keep_process_from_remote n m d0 _ _ _ H)). exact Hs.
  - intros Hs. exact Hs.
Qed.

Theorem sys_stop_sticky c ls s1 s2 o w :
  sys_exec c s1 ls = (s2, o, w) -> d_shouldstop (y_d s1) = true -> d_shouldstop (y_d s2) = true.
Proof.
  apply (sys_exec_lift (lift2 stop_mono) stop_mono_rrefl stop_mono_rtrans cmove_stop_mono).
Qed.

(* ---- C11 (b): whenever the stop flag is set the session is shutting down (in every reachable
        state in which no exception has escaped) ---- *)
Definition stop_sd (d : dstate) : Prop := d_shouldstop d = true -> d_shuttingdown d = true.

Lemma cmove_ok_inv d d' o : cmove true d d' o ->
  (exists ev, d_loop_once ev d = (d', o, Ok tt)) \/
  (exists n m evs, process_from_remote n m d = (d', o, Ok evs)) \/
  (exists n f, aget n (d_nt d) = Some f /\ d' = d_set_nt d (aset n (close_flag f) (d_nt d)) /\ o = []).
Proof.
  intros H. inversion H as [ev d0 d1 o1 r H1 Ek|d0 d1 o1 r H1|n m d0 d1 o1 r H1 Ek|n f d0 Hf]; subst.
  - destruct r as [[]|e]; [|discriminate]. left. exists ev. exact H1.
  - destruct r as [evs|e]; [|discriminate]. right. left. exists n, m, evs. exact H1.
  - right. right. exists n, f. auto.
Qed.

Lemma cmove_stop_sd d d' o : cmove true d d' o -> stop_sd d -> stop_sd d'.
Proof.
  intros H Hs. destruct (cmove_ok_inv _ _ _ H) as [(ev & E)|[(n & m & evs & E)|(n & f & Hf & -> & ->)]].
  - intros S'. eapply loop_once_stop_shuts_down; eassumption.
  - destruct (keep_process_from_remote n m d _ _ _ E) as (K1 & K2). intros S'. apply K2, Hs. congruence.
  - exact Hs.
Qed.

Theorem sys_stop_shutting_down c ls s outs wevs :
  sys_exec c (sys_init c) ls = (s, outs, wevs) -> not_errored s ->
  d_shouldstop (y_d s) = true -> d_shuttingdown (y_d s) = true.
Proof.
  intros H Hn.
  refine (sys_exec_lift_ok (lift2 (fun d d' => stop_sd d -> stop_sd d')) _ _ _ c ls _ _ _ _ H Hn _).
  - intros d X; exact X.
  - intros a b d0 o1 o2 A B X. exact (B (A X)).
  - intros d d' o M. exact (cmove_stop_sd _ _ _ M).
  - intros X. discriminate.
Qed.

(* ---- C11 (c): after the stop flag has been set, a worker whose shutdown flag is set is never
        sent work (nor a second shutdown command) in any later step ---- *)
Lemma gk_process_from_remote n m d0 : ShutdownOnce.from GK d0 (process_from_remote n m).
Proof.
  unfold process_from_remote. apply ShutdownOnce.f_get. apply f_of_opt_bind; [rr|]. intros f Hf. cbv zeta.
  destruct m as [e|ids|sk|i ms|[|]| | |]; try destruct e; gd.
Qed.

Lemma gk_no_active d0 : ShutdownOnce.from GK d0 d_no_active.
Proof. unfold d_no_active. gd. Qed.

Definition stopping (d : dstate) : Prop :=
  fresh d /\ d_shouldstop d = true /\ d_shuttingdown d = true.
Definition guard_rel (d d' : dstate) (o : list out) : Prop :=
  sdflag_rel (d_nt d) (d_nt d') o /\ forall n, flag (d_nt d) n = true -> work_count n o = 0.

Lemma guard_rel_refl : rrefl guard_rel.
Proof. intros d. split; [apply sdflag_refl|intros; reflexivity]. Qed.
Lemma guard_rel_trans : rtrans guard_rel.
Proof.
  intros a b c o1 o2 (S1 & W1) (S2 & W2). split; [eapply sdflag_trans; eauto|].
  intros n Fn. rewrite work_count_app, (W1 n Fn). destruct (proj1 (S1 n) Fn) as (Fbn & _).
  rewrite (W2 n Fbn). reflexivity.
Qed.

(* every iteration of the controller loop that starts while the session is shutting down is
   guarded, collectionfinish included (it is ignored) *)
Lemma gd_loop_once_shutting_down ev d :
  d_shuttingdown d = true -> ShutdownOnce.from GD d (d_loop_once ev).
Proof.
  intros Hsd. unfold d_loop_once. apply ShutdownOnce.f_bind; [rr| |intros u d1; apply (gd_loop_tail tt)].
  destruct (calls_schedule ev) eqn:Ec; [|apply gd_handle; exact Ec].
  destruct ev; try discriminate. cbn [d_handle]. apply ShutdownOnce.f_get. rewrite Hsd. apply ShutdownOnce.f_ret. rr.
Qed.

Lemma cmove_guard k d d' o : cmove k d d' o -> stopping d -> guard_rel d d' o /\ (k = true -> stopping d').
Proof.
  intros M (F & Ss & Sd).
  assert (G : GD d d' o).
  { destruct M as [ev d0 d1 o1 r H|d0 d1 o1 r H|n m d0 d1 o1 r H|n f d0 Hf].
    - exact (gd_loop_once_shutting_down ev d0 Sd _ _ _ H).
    - apply GK_GD. exact (gk_no_active d0 _ _ _ H).
    - apply GK_GD. exact (gk_process_from_remote n m d0 _ _ _ H).
    - apply GK_GD. split; [|reflexivity]. apply g_rel_nil. rewrite ShutdownOnce.d_nt_set.
      eapply nt_rel_keep; [exact Hf|reflexivity]. }
  destruct (G F) as (F' & S' & W'). split; [split; assumption|].
  intros ->. split; [exact F'|].
  pose proof (cmove_stop_mono _ _ _ _ M Ss) as Ss'. split; [exact Ss'|].
  apply (cmove_stop_sd _ _ _ M); [intros _; exact Sd|exact Ss'].
Qed.

Theorem sys_stop_guard c ls1 ls2 s1 o1 w1 s2 o2 w2 :
  sys_exec c (sys_init c) ls1 = (s1, o1, w1) -> not_errored s1 ->
  sys_exec c s1 ls2 = (s2, o2, w2) ->
  d_shouldstop (y_d s1) = true ->
  d_shouldstop (y_d s2) = true /\
  (not_errored s2 -> d_shuttingdown (y_d s2) = true) /\
  forall n, flag (d_nt (y_d s1)) n = true ->
    nwork (cmds_to n o2) = 0 /\ nsd (cmds_to n o2) = 0 /\ flag (d_nt (y_d s2)) n = true.
Proof.
  intros H1 Hn1 H2 Ss.
  assert (St : stopping (y_d s1)).
  { split; [eapply sys_fresh; exact H1|]. split; [exact Ss|].
    eapply sys_stop_shutting_down; eassumption. }
  destruct (sys_exec_lift_pre stopping guard_rel guard_rel_refl guard_rel_trans cmove_guard _ _ _ _ _ _ H2 St)
    as ((Hs & Hw) & P2).
  split; [eapply sys_stop_sticky; eassumption|]. split; [intros Hn2; apply (P2 Hn2)|].
  intros n Fn. rewrite <- work_count_cmds, <- sd_count_cmds.
  destruct (proj1 (Hs n) Fn) as (A & B). split; [apply Hw; exact Fn|]. split; assumption.
Qed.

Print Assumptions sys_stop_sticky.
Print Assumptions sys_stop_shutting_down.
Print Assumptions sys_stop_guard.

(* ====================================================================================== *)
(* Part C': C16, second half, all modes: a worker whose shutdown flag is set is sent nothing  *)
(*          in any step EXCEPT possibly the one controller iteration that calls schedule()  *)
(*          (collectionfinish handled while the session is not shutting down)               *)
(* ====================================================================================== *)
(* the next controller turn handles a collectionfinish event while the session is not shutting
   down: the only place where DSession calls schedule() *)
Definition schedule_turn (s : sys) : bool :=
  match d_active (y_d s), y_evq s with
  | _ :: _, QCollFinish _ _ :: _ => negb (d_shuttingdown (y_d s))
  | _, _ => false
  end.

Lemma GD_guard d d' o n :
  GD d d' o -> fresh d -> flag (d_nt d) n = true ->
  fresh d' /\ flag (d_nt d') n = true /\ nwork (cmds_to n o) = 0 /\ nsd (cmds_to n o) = 0.
Proof.
  intros G F Fn. destruct (G F) as (F' & Hs & Hw). destruct (proj1 (Hs n) Fn) as (A & B).
  rewrite <- work_count_cmds, <- sd_count_cmds. auto.
Qed.

Theorem sys_step_guard c s l s' o w n :
  fresh (y_d s) -> sys_step c s l = Some (s', o, w) -> flag (d_nt (y_d s)) n = true ->
  (l = LCtl -> schedule_turn s = false) ->
  nwork (cmds_to n o) = 0 /\ nsd (cmds_to n o) = 0.
Proof.
  intros F H Fn Hl. unfold sys_step in H. destruct (y_result s); [discriminate|].
  assert (NIL : nwork (cmds_to n []) = 0 /\ nsd (cmds_to n []) = 0) by (split; reflexivity).
  destruct l as [n0|n0|n0|n0| |n0].
  - destruct (mem_nat n0 (y_dead s)); [discriminate|].
    destruct (aget n0 (y_down s)) as [[|cmd rest]|]; try discriminate.
    destruct (aget n0 (y_w s)); [|discriminate]. inversion H; subst. exact NIL.
  - destruct (mem_nat n0 (y_dead s)); [discriminate|].
    destruct (aget n0 (y_w s)) as [w0|]; [|discriminate].
    destruct (negb (wcb w0)); [discriminate|].
    destruct (recv_step (c_oracle c n0) w0) as [w1 evs]. inversion H; subst. exact NIL.
  - destruct (mem_nat n0 (y_dead s)); [discriminate|].
    destruct (aget n0 (y_w s)) as [w0|]; [|discriminate].
    destruct (dies_now c n0 w0); [inversion H; subst; exact NIL|].
    destruct (main_step (c_oracle c n0) w0) as [[w1 evs]|]; [|discriminate]. inversion H; subst. exact NIL.
  - destruct (aget n0 (y_up s)) as [[|m rest]|]; try discriminate. cbn [y_d] in H.
    destruct (process_from_remote n0 m (y_d s)) as [[d' outs] r] eqn:E.
    pose proof (GK_GD _ _ _ (gk_process_from_remote n0 m (y_d s) _ _ _ E)) as G.
    destruct (GD_guard _ _ _ n G F Fn) as (_ & _ & A & B).
    destruct r; inversion H; subst; split; assumption.
  - specialize (Hl eq_refl). unfold schedule_turn in Hl.
    destruct (d_active (y_d s)) as [|a act] eqn:Ea.
    + destruct (d_no_active (y_d s)) as [[d' outs] r] eqn:E. inversion H; subst.
      pose proof (GK_GD _ _ _ (gk_no_active (y_d s) _ _ _ E)) as G.
      destruct (GD_guard _ _ _ n G F Fn) as (_ & _ & A & B). split; assumption.
    + destruct (y_evq s) as [|ev q]; [discriminate|].
      destruct (d_loop_once ev (y_d s)) as [[d' outs] r] eqn:E.
      assert (G : GD (y_d s) d' outs).
      { destruct (calls_schedule ev) eqn:Ec.
        - destruct ev; try discriminate. apply negb_false_iff in Hl.
          exact (gd_loop_once_shutting_down _ _ Hl _ _ _ E).
        - unfold d_loop_once in E.
          refine (ShutdownOnce.f_bind GD (y_d s) _ _ GD_trans (gd_handle ev (y_d s) Ec) _ _ _ _ E).
          intros u d1. apply (gd_loop_tail tt). }
      destruct (GD_guard _ _ _ n G F Fn) as (F' & Fn' & A & B).
      destruct r as [u|e].
      * destruct (d_session_finished d'); [inversion H; subst; split; assumption|].
        destruct (d_active d') as [|a' act'] eqn:Ea'; [|inversion H; subst; split; assumption].
        destruct (d_no_active d') as [[d2 outs2] r2] eqn:E2. inversion H; subst.
        pose proof (GK_GD _ _ _ (gk_no_active d' _ _ _ E2)) as G2.
        destruct (GD_guard _ _ _ n G2 F' Fn') as (_ & _ & A2 & B2).
        rewrite Coupling.cmds_to_app. unfold nwork, nsd in *. rewrite !filter_app, !app_length. lia.
      * inversion H; subst. split; assumption.
  - destruct (mem_nat n0 (y_dead s)); [discriminate|].
    destruct (aget n0 (y_w s)) as [w0|]; [|discriminate].
    destruct (wph w0); try discriminate; inversion H; subst; exact NIL.
Qed.

(* for reachable states: after a worker's shutdown command has been sent (its flag is set), no step
   other than a schedule() turn sends it anything *)
Corollary sys_nothing_after_shutdown_except_schedule c ls s o0 w0 l s' o w n :
  sys_exec c (sys_init c) ls = (s, o0, w0) ->
  In CShutdown (cmds_to n o0) ->
  sys_step c s l = Some (s', o, w) -> (l = LCtl -> schedule_turn s = false) ->
  nwork (cmds_to n o) = 0 /\ nsd (cmds_to n o) = 0.
Proof.
  intros H Hin Hs Hl. pose proof (sys_fresh _ _ _ _ _ H) as F.
  assert (Fn : flag (d_nt (y_d s)) n = true).
  { destruct (sys_shutdown_once _ _ _ _ _ H n) as (B & C). apply C.
    assert (1 <= nsd (cmds_to n o0)).
    { clear -Hin. unfold nsd. induction (cmds_to n o0) as [|x l IH]; [destruct Hin|].
      destruct Hin as [->|Hin]; cbn; [lia|]. destruct (is_shutdown x); cbn; [lia|auto]. }
    lia. }
  eapply sys_step_guard; eassumption.
Qed.
Print Assumptions sys_step_guard.
Print Assumptions sys_nothing_after_shutdown_except_schedule.

(* ====================================================================================== *)
(* Non-vacuity: concrete sessions with crashes, evaluated; the theorems instantiated        *)
(* ====================================================================================== *)
Local Open Scope string_scope.
(* two initial workers, six tests; test 0 fails; worker n dies on entering test i iff crash n i *)
Definition xc_cfg (m : mode) (mr : option Z) (mf : Z) (rq : nat) (crash : nat -> nat -> bool) : config :=
  {| c_mode := m; c_numnodes := 2; c_chunk := None; c_maxfail := mf; c_max_restart := mr;
     c_requeue := rq; c_coll := fun _ => ["a"; "b"; "c"; "d"; "e"; "f"]; c_oracle := fun _ =>
       {| reports_of := fun i => match i with 0 => [Passed; Failed] | _ => [Passed] end;
          stops_after := fun _ => false; ncollected := 6; coll_reports := [] |};
     c_dur := fun _ => 0%Z; c_crash_in := crash; c_strict := false; c_spec := fun _ => 0 |}.
(* one turn of every component, workers 0..3 *)
Definition xc_round : list label :=
  [LMain 0; LMain 1; LMain 2; LMain 3; LRecvW 0; LRecvW 1; LRecvW 2; LRecvW 3;
   LDeliver 0; LDeliver 1; LDeliver 2; LDeliver 3; LRecv 0; LRecv 1; LRecv 2; LRecv 3; LCtl].
(* worker 1 dies entering test 3, its replacement (worker 2) dies entering test 4 *)
Definition xc_crash (n i : nat) : bool :=
  (Nat.eqb n 1 && Nat.eqb i 3) || (Nat.eqb n 2 && Nat.eqb i 5) || (Nat.eqb n 2 && Nat.eqb i 4).
(* result, ids of the replacement workers, number of spawns, group counter, the command streams
   of workers 0..3, stop flag, shutting-down flag *)
Definition xc_summary (c : config) (ls : list label) :=
  let '(s, o, _) := sys_exec c (sys_init c) ls in
  (y_result s, spawn_ids o, count is_spawn o, d_next_gw (y_d s), map (fun n => cmds_to n o) [0; 1; 2; 3],
   d_shouldstop (y_d s), d_shuttingdown (y_d s)).

(* budget 4: both deaths are replaced (ids 2 and 3, in order) *)
Example xc_budget_4 :
  xc_summary (xc_cfg MLoad (Some 4%Z) 0%Z 0 xc_crash) (rounds 80 xc_round) =
  (Some RFinished, [2; 3], 2, 4,
   [[CRun [0; 1]; CRun [5]; CShutdown]; [CRun [2; 3]; CRun [4]]; [CRun [4]; CShutdown]; [CShutdown]],
   false, true).
Proof. vm_compute. reflexivity. Qed.
(* budget 1: only the first death is replaced -- the bound of sys_restart_budget is reached *)
Example xc_budget_1 :
  xc_summary (xc_cfg MLoad (Some 1%Z) 0%Z 0 xc_crash) (rounds 80 xc_round) =
  (Some RFinished, [2], 1, 3,
   [[CRun [0; 1]; CRun [5]; CShutdown]; [CRun [2; 3]; CRun [4]]; [CRun [4]; CShutdown]; []],
   false, true).
Proof. vm_compute. reflexivity. Qed.
(* budget 0: restarting is disabled, nothing is spawned *)
Example xc_budget_0 :
  xc_summary (xc_cfg MLoad (Some 0%Z) 0%Z 0 xc_crash) (rounds 80 xc_round) =
  (Some RFinished, [], 0, 2, [[CRun [0; 1]; CRun [5]; CShutdown]; [CRun [2; 3]; CRun [4]]; []; []], false, true).
Proof. vm_compute. reflexivity. Qed.
(* worksteal with a plugin that re-queues one crash item *)
Example xc_steal :
  xc_summary (xc_cfg MSteal (Some 4%Z) 0%Z 1 xc_crash) (rounds 80 xc_round) =
  (Some RFinished, [2; 3], 2, 4,
   [[CRun [0; 1; 2]; CRun [5]; CShutdown]; [CRun [3; 4; 5]]; [CRun [3; 4; 5]; CSteal [5]; CShutdown]; [CShutdown]],
   false, true).
Proof. vm_compute. reflexivity. Qed.
(* loadfile with --maxfail 1: the failure of test 0 stops the session; the replacement of the
   crashed worker 1 is shut down as soon as it reports in and never gets work *)
Example xc_stop :
  xc_summary (xc_cfg (MScope KFile) (Some 4%Z) 1%Z 0 xc_crash) (rounds 80 xc_round) =
  (Some RInterrupted, [2], 1, 3,
   [[CRun [0]; CRun [2]; CShutdown]; [CRun [1]; CRun [3]; CShutdown]; [CShutdown]; []], true, true).
Proof. vm_compute. reflexivity. Qed.

(* the theorems, instantiated on the budget-1 session *)
Example xc_theorems_apply :
  let c := xc_cfg MLoad (Some 1%Z) 0%Z 0 xc_crash in
  let '(s, o, w) := sys_exec c (sys_init c) (rounds 80 xc_round) in
  count is_spawn o <= 1 /\ spawn_ids o = seq 2 (count is_spawn o) /\ NoDup (spawn_ids o) /\
  (forall n, nsd (cmds_to n o) <= 1) /\ count is_spawn o = 1.
Proof.
  cbv zeta.
  destruct (sys_exec (xc_cfg MLoad (Some 1%Z) 0%Z 0 xc_crash) (sys_init (xc_cfg MLoad (Some 1%Z) 0%Z 0 xc_crash))
              (rounds 80 xc_round)) as [[s o] w] eqn:E.
  split; [exact (sys_restart_budget _ _ _ _ _ 1%Z E eq_refl)|].
  split; [exact (proj1 (sys_spawn_ids _ _ _ _ _ E))|].
  split; [exact (proj1 (sys_spawn_ids_distinct_fresh _ _ _ _ _ E))|].
  split; [intros n; exact (proj1 (sys_shutdown_once _ _ _ _ _ E n))|].
  vm_compute in E. inversion E; subst. vm_compute. reflexivity.
Qed.

(* C11 on the --maxfail session: after 20 rounds the stop flag is set (and the session is shutting
   down); from there to the end it stays set and worker 0, whose flag is set, gets nothing more *)
Example xc_stop_theorems_apply :
  let c := xc_cfg (MScope KFile) (Some 4%Z) 1%Z 0 xc_crash in
  let '(s1, o1, w1) := sys_exec c (sys_init c) (rounds 20 xc_round) in
  let '(s2, o2, w2) := sys_exec c s1 (rounds 60 xc_round) in
  d_shouldstop (y_d s1) = true /\ d_shuttingdown (y_d s1) = true /\ flag (d_nt (y_d s1)) 0 = true /\
  d_shouldstop (y_d s2) = true /\ nwork (cmds_to 0 o2) = 0 /\ nsd (cmds_to 0 o2) = 0.
Proof.
  cbv zeta.
  destruct (sys_exec (xc_cfg (MScope KFile) (Some 4%Z) 1%Z 0 xc_crash)
              (sys_init (xc_cfg (MScope KFile) (Some 4%Z) 1%Z 0 xc_crash)) (rounds 20 xc_round)) as [[s1 o1] w1] eqn:E1.
  destruct (sys_exec (xc_cfg (MScope KFile) (Some 4%Z) 1%Z 0 xc_crash) s1 (rounds 60 xc_round)) as [[s2 o2] w2] eqn:E2.
  assert (F : d_shouldstop (y_d s1) = true /\ flag (d_nt (y_d s1)) 0 = true /\ y_result s1 = None).
  { vm_compute in E1. inversion E1; subst. vm_compute. repeat split; reflexivity. }
  destruct F as (F1 & F2 & F3).
  assert (N1 : not_errored s1) by (intros e; rewrite F3; discriminate).
  destruct (sys_stop_guard _ _ _ _ _ _ _ _ _ E1 N1 E2 F1) as (A & _ & B).
  destruct (B 0 F2) as (B1 & B2 & _).
  split; [exact F1|]. split; [exact (sys_stop_shutting_down _ _ _ _ _ E1 N1 F1)|]. split; [exact F2|].
  split; [exact A|]. split; [exact B1|exact B2].
Qed.
Print Assumptions xc_theorems_apply.
Print Assumptions xc_stop_theorems_apply.
