(* CrashTermination.v -- property C02 ("the distributed session always terminates"), the termination half,
   for --dist load WITH worker failures and a FINITE restart budget (c_max_restart c = Some b).

   Measure.  meas c s = (Kx (y_d s), mux c s), ordered lexicographically (lexlt):
     Kx d  = number of active nodes + remaining restart budget: the number of worker deaths the controller can
             still see (every errordown event removes an active node; a replacement is added only while the
             budget lasts, and uses one unit of it);
     mux   = the potential of Termination.v adapted to crashes: pool entries are priced for ANY worker id that
             can ever exist (Wd d = group counter + remaining budget), a dead worker's share is only what is
             left on its wire up (its queue, its wire down and its frozen state will never cause a move), the
             sum ranges over all worker processes ever started.
   step_lexx / crash_c02_measure: in every reachable state, every enabled move that is USEFUL (Progress.useful)
   or a CRASH (LCrash n at any moment, or a main-thread step into a test with c_crash_in) either ends the
   session or makes the measure strictly smaller: Kx goes down when the controller handles an errordown
   (the only step at which mux may go up: the dead node's tests return to the pool, a crash item may be
   re-queued, a replacement boots); every other useful move and every crash makes mux smaller and leaves Kx
   alone (or smaller: workerfinished).
   crash_c02_terminates: from a reachable state there is no infinite schedule of useful moves and crashes.
   crash_c02_bounded:    from a reachable state, the runs of useful moves and crashes have bounded length
                         (the bound is obtained from the well-founded order and finite branching; it is not
                         given in closed form).
   crash_c02_maximal_run_ends (from CrashProgress): a run that cannot be extended by a useful non-crash move
                         has ended the session.
   crash_c02_bound (part E, extra hypothesis c_requeue c = 0: no plugin re-queues crash items): an EXPLICIT
                         bound.  Phi c s = mux c s + Kx * (weight of all tokens, pool and books) + boot costs of
                         the workers that may still be started; every useful move and every crash makes Phi
                         strictly smaller (step_phi), so a run of useful moves and crashes from a reachable
                         state s is at most Phi c s + 1 long.  (With re-queueing the crash item goes back to
                         the pool and the token weight does not shrink at an errordown; the bounded form
                         crash_c02_bounded still holds.)
   Hypotheses: c_mode c = MLoad, no_garbled c, 0 < c_numnodes c, c_max_restart c = Some b.  Nothing else: any
   schedule, any c_crash_in, c_requeue, c_strict, any collections.
   For c_max_restart c = None (a --tx-only run: get_default_max_worker_restart returns None) the statement is
   FALSE: every dead worker is replaced, for ever (example crt_ex_unbounded_restarts) -- a recorded finding. *)
From XV Require Import Base Worker Ctl SchedLoad SchedSteal SchedScope SchedEach Sched DSession System
  NoHook DSessionProofs WorkerProofs LoadProofs FifoProofs ExactlyOnce Coupling CrashCoupling CrashTheorems CrashProgress.
From XV Require LivenessLaws Progress Termination.
From Coq Require Import Permutation.
Open Scope nat_scope.
Import Termination.
Import Progress.
Import DSessionProofs.

(* ###################################### part A ###################################### *)


(* ====================================================================================== *)
(* A. what is sent is paid for by what leaves the pool                                      *)
(* ====================================================================================== *)
Section Sent.
Variable f : nat -> nat.   (* the cost of a pool entry *)

(* the (virtual) pool shrinks by a prefix [moved], and the indices sent cost no more than that prefix *)
Definition SL (s s' : lstate) (o : list out) : Prop :=
  exists moved, l_pending s = moved ++ l_pending s' /\ sumf f (sent_inds o) <= sumf f moved.

Lemma SL_refl s : SL s s [].
Proof. exists []. split; [reflexivity|]. cbn. lia. Qed.

Lemma SL_trans a b c o1 o2 : SL a b o1 -> SL b c o2 -> SL a c (o1 ++ o2).
Proof.
  intros (m1 & E1 & L1) (m2 & E2 & L2). exists (m1 ++ m2). split; [rewrite E1, E2, app_assoc; reflexivity|].
  rewrite sent_inds_app, !sumf_app. lia.
Qed.

Lemma SL_check n dur s s' o : l_check_schedule n dur s = (s', o, Ok tt) -> SL s s' o.
Proof.
  intros H. destruct (l_check_schedule_L4 _ _ _ _ _ H) as (_ & moved & Ep & Hs).
  exists moved. split; [exact Ep|]. destruct Hs as [-> | ->]; [lia|cbn; lia].
Qed.

Lemma SL_mfor_check l dur : forall s s' o,
  mfor l (fun m => l_check_schedule m dur) s = (s', o, Ok tt) -> SL s s' o.
Proof.
  apply mfor_ok_inv; [apply SL_refl|apply SL_trans|]. intros x s s' o _ H. eapply SL_check; eauto.
Qed.

Lemma SL_send n num s s' o : l_send_tests n num s = (s', o, Ok tt) -> SL s s' o.
Proof.
  intros H. pose proof (l_send_tests_sent_weak _ _ _ _ _ _ H) as Hs.
  apply l_send_tests_spec in H. destruct H as (Ep & _).
  exists (py_take num (l_pending s)). split; [exact Ep|]. destruct Hs as [-> | ->]; [lia|cbn; lia].
Qed.

Lemma SL_mfor_send num l : forall s s' o,
  mfor l (fun n => l_send_tests n num) s = (s', o, Ok tt) -> SL s s' o.
Proof.
  apply mfor_ok_inv; [apply SL_refl|apply SL_trans|]. intros x s s' o _ H. eapply SL_send; eauto.
Qed.

Lemma SL_round_robin fuel all : forall cur s s' o,
  l_round_robin fuel all cur s = (s', o, Ok tt) -> SL s s' o.
Proof.
  induction fuel as [|k IH]; intros cur s s' o H.
  - cbn in H. unfold ret in H. inv H. apply SL_refl.
  - cbn [l_round_robin] in H. destruct cur as [|n r].
    + destruct all as [|n r]; [unfold raise in H; inv H|].
      apply LoadProofs.mbind_inv in H. destruct H as [(e & _ & F)|(s1 & o1 & [] & o2 & H1 & H2 & ->)]; [discriminate|].
      eapply SL_trans; [eapply SL_send; eauto|eapply IH; eauto].
    + apply LoadProofs.mbind_inv in H. destruct H as [(e & _ & F)|(s1 & o1 & [] & o2 & H1 & H2 & ->)]; [discriminate|].
      eapply SL_trans; [eapply SL_send; eauto|eapply IH; eauto].
Qed.

Lemma SL_quiet s s' o : LoadProofs.quiet s s' o -> SL s s' o.
Proof. intros (P & _ & _ & S0 & _). exists []. rewrite P, S0. split; [reflexivity|cbn; lia]. Qed.

(* schedule(): either nothing was fixed and nothing sent, or the pool is (a suffix of) 0..len-1 of a recorded
   collection, resp. of the old pool *)
Lemma SL_schedule s s' o :
  l_schedule s = (s', o, Ok tt) -> (l_coll s = None -> l_pending s = [] /\ books s = []) ->
  match l_coll s with
  | Some c0 => l_coll s' = Some c0 /\ SL s s' o
  | None =>
      (l_coll s' = None /\ sent_inds o = []) \/
      (exists k coll others moved, l_n2c s = (k, coll) :: others /\ l_coll s' = Some coll /\
         seq 0 (length coll) = moved ++ l_pending s' /\ sumf f (sent_inds o) <= sumf f moved)
  end.
Proof.
  intros H Hi. destruct (l_coll s) as [c0|] eqn:Ec.
  - unfold l_schedule in H. rewrite mbind_get in H.
    destruct (l_collection_is_completed s); cbn [massert] in H; [|unfold mbind, raise in H; discriminate].
    rewrite mbind_ret, Ec in H. split; [|eapply SL_mfor_check; exact H].
    pose proof (mfor_check_keeps _ _ _ _ _ _ H) as (Kc & _). congruence.
  - destruct (Hi eq_refl) as (Ep & Eb). unfold l_schedule in H.
    mbo2 H t0 p0 a0 uu0 Hg. unfold get in Hg. injection Hg as <- <- <-. cbn [app].
    mbo2 H t1 p1 a1 uu1 Ha.
    assert (E1 : t1 = s /\ p1 = []).
    { destruct (l_collection_is_completed s); unfold massert, ret, raise in Ha; inv Ha; auto. }
    destruct E1 as (-> & ->). cbn [app]. clear Ha. rewrite Ec in H.
    mbo2 H t2 p2 same uu2 Hs. apply l_same_collection_effect in Hs. destruct Hs as (-> & Es).
    rewrite sent_inds_app, Es. cbn [app].
    destruct same; cbn [negb] in H.
    2:{ unfold ret in H. inv H. left. auto. }
    right.
    mbo2 H t3 p3 a3 uu3 Hg. unfold get in Hg. injection Hg as <- <- <-. cbn [app].
    mbo2 H t4 p4 coll uu4 Ho4.
    destruct (l_n2c s) as [|[k c] others] eqn:En2c; cbn in Ho4; [discriminate|]. injection Ho4 as <- <- <-. cbn [app].
    mbo2 H t5 p5 a5 uu5 Hp. unfold put in Hp. injection Hp as <- <- <-. cbn [app].
    exists k, c, others.
    destruct c as [|c0 cr].
    { unfold ret in H. inv H. exists []. cbn. split; [reflexivity|]. split; [reflexivity|]. split; [reflexivity|lia]. }
    set (coll := c0 :: cr) in *.
    set (s1 := l_set_pending (l_set_coll s (Some coll)) (seq 0 (length coll))) in *.
    mbo2 H t6 p6 a6 uu6 Hg. unfold get in Hg. injection Hg as <- <- <-. cbn [app].
    mbo2 H t7 p7 a7 uu7 Hp. unfold put in Hp. injection Hp as <- <- <-. cbn [app].
    mbo2 H t8 p8 a8 uu8 Hg. unfold get in Hg. injection Hg as <- <- <-. cbn [app].
    match type of H with context [l_set_chunk s1 (Some ?ch)] => set (chunk := ch) in * end.
    set (s3 := l_set_chunk s1 (Some chunk)) in *.
    mbo2 H t9 p9 a9 uu9 Hmid.
    mbo2 H t10 p10 a10 uu10 Hg. unfold get in Hg. injection Hg as <- <- <-. cbn [app].
    assert (Hsl : SL s3 t9 p9).
    { destruct a9. destruct (zlen (l_pending s3) <? 2 * zlen (l_nodes s3))%Z.
      - eapply SL_round_robin. exact Hmid.
      - destruct (zlen (l_n2p s3) =? 0)%Z; [unfold raise in Hmid; inv Hmid|].
        eapply SL_mfor_send. exact Hmid. }
    assert (Hok : keeps s3 t9 p9).
    { destruct a9. destruct (zlen (l_pending s3) <? 2 * zlen (l_nodes s3))%Z.
      - exact (proj1 (proj2 (l_round_robin_step_ok _ _ _ _ _ _ Hmid))).
      - destruct (zlen (l_n2p s3) =? 0)%Z; [unfold raise in Hmid; inv Hmid|].
        exact (proj1 (proj2 (mfor_send_tests_step_ok _ _ _ _ _ Hmid))). }
    assert (Hq : LoadProofs.quiet t9 s' uu10).
    { destruct (l_pending t9).
      - eapply mfor_shutdown_quiet. exact H.
      - unfold ret in H. inv H. apply quiet_refl. }
    pose proof (SL_trans _ _ _ _ _ Hsl (SL_quiet _ _ _ Hq)) as (moved & Em & Hl).
    destruct Hok as (Kc & _). destruct Hq as (_ & _ & (Qc & _) & _).
    exists moved. split; [reflexivity|]. split; [rewrite Qc, Kc; reflexivity|]. split; [exact Em|exact Hl].
Qed.

End Sent.

(* ====================================================================================== *)
(* B. no empty run command                                                                 *)
(* ====================================================================================== *)

Lemma ne_l_add_node n : allout Q_ne (l_add_node n).
Proof. unfold l_add_node. nel. Qed.
Lemma ne_l_add_coll n ids : allout Q_ne (l_add_node_collection n ids).
Proof. unfold l_add_node_collection. nel. Qed.
Lemma ne_l_remove n : allout Q_ne (l_remove_node n).
Proof. unfold l_remove_node. nel; apply ne_l_check_schedule. Qed.

(* a good_out-free version of Coupling.sent_perm *)
Lemma sent_perm' keys outs :
  NoDup keys -> (forall k, ~ In k keys -> cmds_to k outs = []) ->
  Permutation (flat_map (fun k => flat_map cmd_inds (cmds_to k outs)) keys) (sent_inds outs).
Proof.
  intros ND. induction outs as [|x outs IH]; intros Hk.
  - cbn. rewrite flat_map_nil_in; [reflexivity|]. intros k _. reflexivity.
  - assert (Hk' : forall k, ~ In k keys -> cmds_to k outs = []).
    { intros k Hn. specialize (Hk k Hn). cbn [cmds_to flat_map] in Hk. apply app_eq_nil in Hk. tauto. }
    specialize (IH Hk').
    assert (E : forall k, flat_map cmd_inds (cmds_to k (x :: outs)) =
                          flat_map cmd_inds (cmd_to k x) ++ flat_map cmd_inds (cmds_to k outs)).
    { intros k. cbn [cmds_to flat_map]. apply flat_map_app. }
    rewrite (flat_map_ext_in _ _ keys (fun k _ => E k)).
    rewrite flat_map_app_perm. unfold sent_inds. cbn [flat_map]. fold (sent_inds outs).
    apply Permutation_app; [|exact IH].
    destruct x as [h|m cm| |]; try (rewrite flat_map_nil_in; [reflexivity|]; intros k _; reflexivity).
    destruct (in_dec Nat.eq_dec m keys) as [Hin|Hni].
    + assert (E2 : forall k, flat_map cmd_inds (cmd_to k (OSend m cm)) = if Nat.eqb m k then cmd_inds cm else []).
      { intros k. cbn [cmd_to]. destruct (Nat.eqb m k); cbn; [apply app_nil_r|reflexivity]. }
      rewrite (flat_map_ext_in _ _ keys (fun k _ => E2 k)).
      rewrite (flat_map_single m (cmd_inds cm) keys ND Hin). destruct cm; reflexivity.
    + exfalso. specialize (Hk m Hni). cbn [cmds_to flat_map cmd_to] in Hk. rewrite Nat.eqb_refl in Hk. discriminate.
Qed.

(* ###################################### part B ###################################### *)

Section Costs.
Variable c : config.
Notation N := (c_numnodes c).
Notation X0 := (c_coll c).
Hypothesis Hpos : 0 < N.

(* W bounds every worker id that will ever exist; a test in the pool may go to any of them *)
Definition pcostx (W i : nat) : nat := 4 + sumf (fun n => Tst c n i) (seq 0 W).
Definition prepoolx (W : nat) : nat := sumf (fun n => sumf (pcostx W) (seq 0 (length (X0 n)))) (seq 0 W).
Definition poolpotx (W : nat) (ls : lstate) : nat :=
  match l_coll ls with None => prepoolx W | Some _ => sumf (pcostx W) (l_pending ls) end.

(* what the iteration sends is paid for by the pool *)
Definition PL (W : nat) (ls ls' : lstate) (o : list out) : Prop :=
  sumf (pcostx W) (sent_inds o) + poolpotx W ls' <= poolpotx W ls.

Lemma PL_trans W a b d o1 o2 : PL W a b o1 -> PL W b d o2 -> PL W a d (o1 ++ o2).
Proof. unfold PL. rewrite sent_inds_app, sumf_app. lia. Qed.

Lemma PL_same W ls ls' o :
  l_coll ls' = l_coll ls -> l_pending ls' = l_pending ls -> sent_inds o = [] -> PL W ls ls' o.
Proof. intros A B C0. unfold PL, poolpotx. rewrite A, B, C0. cbn. lia. Qed.

Lemma PL_SL W ls ls' o c0 :
  l_coll ls = Some c0 -> l_coll ls' = Some c0 -> SL (pcostx W) ls ls' o -> PL W ls ls' o.
Proof.
  intros A B (moved & Em & Hl). unfold PL, poolpotx. rewrite A, B, Em, sumf_app. lia.
Qed.

Lemma sent_inds_no_cmds o : (forall m, cmds_to m o = []) -> sent_inds o = [].
Proof.
  induction o as [|x o IH]; intros H; [reflexivity|].
  assert (H' : forall m, cmds_to m o = []).
  { intros m. specialize (H m). cbn [cmds_to flat_map] in H. apply app_eq_nil in H. tauto. }
  unfold sent_inds. cbn [flat_map]. fold (sent_inds o). rewrite (IH H'), app_nil_r.
  destruct x as [h|m cm| |]; try reflexivity.
  exfalso. specialize (H m). cbn [cmds_to flat_map cmd_to] in H. rewrite Nat.eqb_refl in H. discriminate.
Qed.

Lemma ne_no_cmds o : (forall m, cmds_to m o = []) -> Forall Q_ne o.
Proof.
  induction o as [|x o IH]; intros H; [constructor|].
  assert (H' : forall m, cmds_to m o = []).
  { intros m. specialize (H m). cbn [cmds_to flat_map] in H. apply app_eq_nil in H. tauto. }
  constructor; [|exact (IH H')]. destruct x as [h|m cm| |]; try exact I.
  exfalso. specialize (H m). cbn [cmds_to flat_map cmd_to] in H. rewrite Nat.eqb_refl in H. discriminate.
Qed.

(* the frame of an iteration that does not handle an errordown *)
Definition FR (d d1 : dstate) : Prop :=
  d_next_gw d1 = d_next_gw d /\ d_failed_nodes d1 = d_failed_nodes d /\ d_max_restart d1 = d_max_restart d /\
  length (d_active d1) <= length (d_active d).

Lemma FR_refl d : FR d d.
Proof. unfold FR. auto. Qed.
Ltac frs := first [apply FR_refl | (unfold FR; cbn; repeat split; auto)].
Lemma FR_trans a b d : FR a b -> FR b d -> FR a d.
Proof. intros (A1 & A2 & A3 & A4) (B1 & B2 & B3 & B4). unfold FR. repeat split; try congruence. lia. Qed.

Lemma filter_length_le {A} (g : A -> bool) l : length (filter g l) <= length l.
Proof. induction l as [|x l IH]; cbn; [lia|]. destruct (g x); cbn; lia. Qed.

Lemma node_shutdown_sent n s s' o r : node_shutdown l_nt l_set_nt n s = (s', o, r) -> sent_inds o = [].
Proof. intros H. apply node_shutdown_effect in H. tauto. Qed.

(* ---- the handlers (all but errordown) ---- *)
(* the collection, when it gets fixed, is some worker's: the pool it creates was provided for *)
Definition CBx (W : nat) (ls ls1 : lstate) : Prop :=
  l_coll ls = None -> forall coll, l_coll ls1 = Some coll -> sumf (pcostx W) (seq 0 (length coll)) <= prepoolx W.
Ltac cbx := (intros ?E0 ?coll0 ?E1; cbn in *; exfalso; congruence).

Lemma handle_pl ev d ls d1 o1 ls1 W :
  DJ' N X0 d ls -> PRE' X0 ev d ls -> (forall n, ev <> QErrorDown n) -> d_next_gw d <= W ->
  d_handle ev d = (d1, o1, Ok tt) -> d_sched d1 = StL ls1 ->
  Forall Q_ne o1 /\ PL W ls ls1 o1 /\ FR d d1 /\ CBx W ls ls1.
Proof.
  intros DJd Hpre Hne HW H Els1. pose proof DJd as (J0 & Jss & Jemp & Jmis).
  pose proof J0 as [Els J _ _ _ _ _ _ AL _].
  assert (QUIET : match ev with
                  | QLogStart _ _ | QLogFinish _ _ | QWarning | QReport _ _ _ _ | QCollectReport _ _ _ => True
                  | _ => False end -> Forall Q_ne o1 /\ PL W ls ls1 o1 /\ FR d d1 /\ CBx W ls ls1).
  { intros Hq. destruct (handle_quiet' ev d d1 o1 _ Hq H) as (_ & S & C0).
    destruct S as (S1 & S2 & S3 & S4 & S5 & S6 & S7 & S8).
    assert (ls1 = ls) by congruence. subst ls1.
    split; [apply ne_no_cmds; exact C0|]. split; [apply PL_same; auto; apply sent_inds_no_cmds; exact C0|].
    split; [unfold FR; rewrite S3; auto|cbx]. }
  destruct ev as [n|n ids|n key fl|n i|n i|n i k0 oc|n i ms|n ixs| |n|n sk|n];
    try (apply QUIET; exact I); try (cbn in Hpre; contradiction).
  - (* ready *)
    cbn [d_handle] in H. unfold hook in H. rewrite mbind_emit, mbind_get in H.
    destruct (d_shuttingdown d) eqn:Esd.
    + rewrite (d_node_shutdown_lift n d ls Els) in H.
      destruct (node_shutdown l_nt l_set_nt n ls) as [[ls2 o2] r2] eqn:En. cbn [liftD] in H. inv H.
      cbn in Els1. inv Els1.
      pose proof (node_shutdown_effect _ _ _ _ _ En) as (P & B & (Kc & _) & S0 & _).
      split; [constructor; [exact I|exact (ne_node_shutdown l_nt l_set_nt n _ _ _ _ En)]|].
      split; [apply PL_same; auto|split; [frs|cbx]].
    + unfold mbind at 1 in H. rewrite (sched_op_run _ d ls Els) in H. cbn [s_step] in H.
      destruct (l_add_node n ls) as [[ls2 o2] r2] eqn:Ea. cbn [lift] in H.
      destruct r2 as [[]|e]; [|discriminate]. unfold no_str, ret in H. inv H. cbn in Els1. inv Els1.
      pose proof Ea as Ea'. unfold l_add_node in Ea'. rewrite mbind_get in Ea'.
      destruct (negb (ahas n (l_n2p ls))); cbn [massert] in Ea'; [|unfold mbind, raise in Ea'; discriminate].
      rewrite mbind_ret in Ea'. unfold put in Ea'. inv Ea'.
      split; [repeat constructor|]. split; [apply PL_same; reflexivity|split; [frs|cbx]].
  - (* collectionfinish *)
    destruct Hpre as (HnG & Hnew & Hids).
    assert (SAMEST : forall x, (d, @nil out, x) = (d1, o1, Ok tt) -> Forall Q_ne o1 /\ PL W ls ls1 o1 /\ FR d d1 /\ CBx W ls ls1).
    { intros x E. inv E. assert (ls1 = ls) by congruence. subst ls1.
      split; [constructor|]. split; [apply PL_same; reflexivity|split; [frs|cbx]]. }
    cbn [d_handle] in H. rewrite mbind_get in H.
    destruct (d_shuttingdown d) eqn:Esd; [eapply SAMEST; exact H|].
    rewrite Els in H. cbn [s_nodes] in H.
    destruct (mem_nat n (l_nodes ls)) eqn:Em; cbn [negb] in H; [|eapply SAMEST; exact H].
    clear SAMEST. apply mem_nat_In in Em.
    unfold hook in H. rewrite mbind_emit in H. unfold mbind at 1 in H.
    rewrite (sched_op_run _ d ls Els) in H. cbn [s_step] in H.
    destruct (l_add_node_collection n ids ls) as [[lsa oa] ra] eqn:Ea. cbn [lift] in H.
    destruct ra as [[]|e]; [|discriminate].
    rewrite mbind_get in H. cbn [d_sched d_set_sched s_collection_is_completed app] in H.
    destruct (add_coll_frame _ _ _ _ _ Ea) as (Fp & Fq & Fc & Fm & Fch & FN).
    assert (SA : sent_inds oa = []).
    { pose proof Ea as Ea'. unfold l_add_node_collection in Ea'. rewrite mbind_get in Ea'.
      destruct (ahas n (l_n2p ls)); cbn [massert] in Ea'; [|unfold mbind, raise in Ea'; discriminate].
      rewrite mbind_ret in Ea'. destruct (l_collection_is_completed ls).
      - destruct (l_coll ls) as [[|c0 cr]|]; try (unfold raise in Ea'; discriminate).
        destruct (coll_eqb ids (c0 :: cr)); [unfold put in Ea'; inv Ea'; reflexivity|].
        destruct (first_key (l_n2c ls)) as [other|]; cbn [of_opt] in Ea'; [|unfold mbind, raise in Ea'; discriminate].
        rewrite mbind_ret, mbind_emit in Ea'.
        destruct (node_shutdown l_nt l_set_nt n ls) as [[s2 o2] r2] eqn:En. inv Ea'.
        unfold sent_inds. cbn [flat_map run_inds app]. exact (node_shutdown_sent _ _ _ _ _ En).
      - unfold put in Ea'. inv Ea'. reflexivity. }
    assert (NA : Forall Q_ne oa) by exact (ne_l_add_coll n ids _ _ _ _ Ea).
    assert (PA : PL W ls lsa oa) by (apply PL_same; auto).
    assert (I3 : l_coll lsa = None -> l_pending lsa = [] /\ books lsa = []).
    { rewrite Fc, Fq. unfold books. rewrite Fp. exact (lj_i3' _ _ _ _ J). }
    assert (N2CA : forall k x, In (k, x) (l_n2c lsa) -> x = X0 k /\ k < d_next_gw d).
    { intros k x Hin. destruct FN as [(E & _)|(E & _)]; rewrite E in Hin.
      - apply in_aset in Hin. destruct Hin as [(-> & ->)|Hin]; [auto|].
        split; [exact (lj_ids' _ _ _ _ J k x Hin)|].
        apply (lj_n2c' _ _ _ _ J). unfold akeys. change k with (fst (k, x)). apply in_map. exact Hin.
      - split; [exact (lj_ids' _ _ _ _ J k x Hin)|].
        apply (lj_n2c' _ _ _ _ J). unfold akeys. change k with (fst (k, x)). apply in_map. exact Hin. }
    destruct (l_collection_is_completed lsa) eqn:Eca.
    + unfold mbind at 1 in H. rewrite (sched_op_run _ (d_set_sched d (StL lsa)) lsa eq_refl) in H. cbn [s_step] in H.
      destruct (l_schedule lsa) as [[ls2 o2] r2] eqn:Es. cbn [lift] in H.
      destruct r2 as [[]|e]; [|discriminate]. unfold no_str, ret in H. inv H. cbn in Els1. inv Els1.
      rewrite app_nil_r.
      split; [constructor; [exact I|apply Forall_app; split; [exact NA|exact (ne_l_schedule _ _ _ _ Es)]]|].
      pose proof (SL_schedule (pcostx W) _ _ _ Es I3) as SLs0.
      assert (CBa : CBx W ls ls1).
      { intros E0 coll0 E1. rewrite <- Fc in E0. rewrite E0 in SLs0.
        destruct SLs0 as [(Ec1 & _)|(k & coll & others & moved & En2c & Ec1 & Em2 & Hl)]; [congruence|].
        assert (coll0 = coll) by congruence. subst coll0.
        assert (Hk : In (k, coll) (l_n2c lsa)) by (rewrite En2c; left; reflexivity).
        destruct (N2CA k coll Hk) as (Eck & HkG).
        unfold prepoolx. rewrite Eck.
        apply (sumf_in_le (fun n0 => sumf (pcostx W) (seq 0 (length (X0 n0))))). apply in_seq. lia. }
      split; [|split; [frs|exact CBa]].
      change (OHook (HCollFinished n) :: oa ++ o2) with ([OHook (HCollFinished n)] ++ (oa ++ o2)).
      apply (PL_trans W ls ls ls1); [apply PL_same; reflexivity|].
      apply (PL_trans W ls lsa ls1); [exact PA|].
      pose proof (SL_schedule (pcostx W) _ _ _ Es I3) as SLs.
      destruct (l_coll lsa) as [c0|] eqn:Ecl.
      * destruct SLs as (Ec1 & SLx). eapply PL_SL; eauto.
      * destruct SLs as [(Ec1 & S0)|(k & coll & others & moved & En2c & Ec1 & Em2 & Hl)].
        -- unfold PL, poolpotx. rewrite Ecl, Ec1, S0. cbn. lia.
        -- unfold PL, poolpotx. rewrite Ecl, Ec1.
           assert (Hk : In (k, coll) (l_n2c lsa)) by (rewrite En2c; left; reflexivity).
           destruct (N2CA k coll Hk) as (Eck & HkG).
           assert (Hle : sumf (pcostx W) (seq 0 (length coll)) <= prepoolx W).
           { unfold prepoolx. rewrite Eck.
             apply (sumf_in_le (fun n0 => sumf (pcostx W) (seq 0 (length (X0 n0))))). apply in_seq. lia. }
           rewrite Em2, sumf_app in Hle. lia.
    + unfold ret in H. inv H. cbn in Els1. inv Els1.
      split; [constructor; [exact I|rewrite app_nil_r; exact NA]|]. split; [|split; [frs|cbx]].
      rewrite app_nil_r. change (OHook (HCollFinished n) :: oa) with ([OHook (HCollFinished n)] ++ oa).
      apply (PL_trans W ls ls ls1); [apply PL_same; reflexivity|exact PA].
  - (* complete *)
    cbn [d_handle] in H. unfold mbind at 1 in H. rewrite (sched_op_run _ d ls Els) in H. cbn [s_step] in H.
    destruct (l_mark_test_complete n i ms ls) as [[ls2 o2] r2] eqn:Em. cbn [lift] in H.
    destruct r2 as [[]|e]; [|discriminate]. unfold no_str, ret in H. inv H. cbn in Els1. inv Els1.
    rewrite app_nil_r.
    pose proof (l_mark_test_complete_keeps _ _ _ _ _ _ _ Em) as (Kc & _).
    split; [exact (ne_l_complete n i ms _ _ _ _ Em)|]. split; [|split; [frs|cbx]].
    apply l_mark_test_complete_cases in Em.
    destruct Em as [(_ & _ & _ & F)|[(cur & _ & _ & _ & _ & F)|(cur & cur' & Ec & Er & Hcs)]]; try discriminate.
    pose proof (SL_check (pcostx W) _ _ _ _ _ Hcs) as (moved & Emv & Hl).
    cbn [l_pending l_set_n2p] in Emv. unfold PL, poolpotx. rewrite Kc.
    destruct (l_coll ls) as [c0|] eqn:Ecl.
    + rewrite Emv, sumf_app. lia.
    + assert (Z : sumf (pcostx W) moved <= sumf (pcostx W) (l_pending ls)) by (rewrite Emv, sumf_app; lia).
      destruct (lj_i3' _ _ _ _ J Ecl) as (P0 & _). rewrite P0 in Z. cbn in Z. lia.
  - (* finished *)
    cbn [d_handle] in H. unfold d_worker_workerfinished, hook in H. rewrite mbind_emit in H.
    destruct sk; cbn [PRE'] in Hpre; [| |contradiction].
    + destruct Hpre as (Hina & Hbook & _).
      rewrite mbind_get in H. rewrite Els in H. cbn [s_nodes] in H.
      assert (STEP : exists ls2,
        ((if mem_nat n (l_nodes ls)
          then r0 <- d_sched_op (SRemove n);; massert match r0 with Some s0 => (s0 =? "")%string | None => true end
          else ret tt) d) = (d_set_sched d (StL ls2), [], Ok tt) /\
        l_coll ls2 = l_coll ls /\ l_pending ls2 = l_pending ls).
      { destruct (mem_nat n (l_nodes ls)) eqn:Em.
        - apply mem_nat_In in Em. specialize (Hbook Em).
          destruct (remove_empty_facts _ _ Hpos _ n ls J Hbook) as (Er & _ & Fq & Fc & _).
          exists (rm_state n ls). split; [|auto].
          unfold mbind. rewrite (sched_op_run _ d ls Els). cbn [s_step]. rewrite Er. cbn [lift]. reflexivity.
        - exists ls. split; [rewrite d_set_sched_same by exact Els; reflexivity|]. auto. }
      destruct STEP as (ls2 & Erun & Fc & Fq).
      unfold mbind at 1 in H. rewrite Erun in H.
      rewrite (active_remove_run n (d_set_sched d (StL ls2)) Hina) in H. inv H.
      cbn in Els1. inv Els1.
      split; [repeat constructor|]. split; [apply PL_same; auto|].
      split; [unfold FR; cbn; repeat split; auto; apply filter_length_le|cbx].
    + assert (STEP : exists d2, (d0 <- get;; (if d_shouldstop d0 then ret tt else put (d_set_shouldstop d0 true))) d = (d2, [], Ok tt) /\
                same_ctl' d d2).
      { rewrite mbind_get. destruct (d_shouldstop d) eqn:Ess.
        - exists d. split; [reflexivity|apply same_ctl'_refl].
        - eexists. split; [reflexivity|]. unfold same_ctl'. cbn. auto 12. }
      destruct STEP as (d2 & Erun & S). pose proof S as (S1 & S2 & S3 & _ & S5 & S6 & S7 & S8).
      unfold mbind at 1 in H. rewrite Erun in H.
      assert (Hina : In n (d_active d2)) by (rewrite S3; exact Hpre).
      rewrite (active_remove_run n d2 Hina) in H. inv H.
      cbn [d_sched d_set_active] in Els1. assert (ls1 = ls) by congruence. subst ls1.
      split; [repeat constructor|]. split; [apply PL_same; reflexivity|].
      split; [unfold FR; cbn; repeat split; auto; rewrite <- S3; apply filter_length_le|cbx].
  - exfalso. exact (Hne n eq_refl).
Qed.

(* ---- one iteration of the loop that does not handle an errordown ---- *)
Theorem loop_pl ev d ls d' o ls' W :
  DJ' N X0 d ls -> d_active d <> [] -> PRE' X0 ev d ls -> (forall n, ev <> QErrorDown n) -> d_next_gw d <= W ->
  d_loop_once ev d = (d', o, Ok tt) -> d_sched d' = StL ls' ->
  Forall Q_ne o /\ PL W ls ls' o /\ FR d d' /\ CBx W ls ls'.
Proof.
  intros DJd Hact Hpre Hne HW H Els'. rewrite loop_once_unfold in H.
  apply LoadProofs.mbind_inv in H. destruct H as [(e & _ & F)|(d1 & o1 & [] & o2 & H1 & H2 & ->)]; [discriminate|].
  destruct (handle_heff _ _ Hpos _ _ _ _ _ _ DJd Hact Hpre H1) as (_ & ls1 & vo1 & E1).
  pose proof (he_dj' _ _ _ _ _ _ _ _ E1) as J1. pose proof J1 as [Els1 JJ1 _ _ _ _ _ _ _ _].
  destruct (handle_pl _ _ _ _ _ _ W DJd Hpre Hne HW H1 Els1) as (NE1 & PL1 & FR1 & CB1).
  destruct (loop_rest_eff' _ _ _ _ _ _ _ _ Els1 JJ1 H2) as (_ & ls2 & vo2 & Ed' & T & _ & _ & P & B & _ & _).
  assert (ls' = ls2) by (rewrite Ed' in Els'; cbn in Els'; congruence). subst ls2.
  destruct (tr_keeps _ _ _ T) as (Kc & _).
  assert (S2 : sent_inds o2 = []).
  { unfold loop_rest in H2. apply LoadProofs.mbind_inv in H2.
    assert (TS : forall dd dd' oo rr, d_sched dd = StL ls1 \/ True -> d_triggershutdown dd = (dd', oo, rr) -> forall lsx, d_sched dd = StL lsx -> sent_inds oo = []).
    { intros dd dd' oo rr _ Ht lsx Ex. unfold d_triggershutdown in Ht. unfold mbind at 1, get in Ht.
      destruct (d_shuttingdown dd); [unfold ret in Ht; inv Ht; reflexivity|].
      unfold mbind, put in Ht.
      rewrite (mfor_liftD d_node_shutdown (fun n => node_shutdown l_nt l_set_nt n) _ d_node_shutdown_lift
                 (d_set_shuttingdown dd true) lsx) in Ht by exact Ex.
      rewrite Ex in Ht. cbn [s_nodes] in Ht.
      destruct (mfor (l_nodes lsx) (fun n => node_shutdown l_nt l_set_nt n) lsx) as [[lsy oy] ry] eqn:Em.
      cbn [liftD app] in Ht. inv Ht. pose proof (mfor_shutdown_quiet _ _ _ _ _ Em) as (_ & _ & _ & S0 & _). exact S0. }
    destruct H2 as [(e & _ & F)|(dm & om & [] & on & Ha & Hb & ->)]; [discriminate|].
    rewrite mbind_get in Ha, Hb. rewrite sent_inds_app.
    assert (Sm : sent_inds om = [] /\ exists lsm, d_sched dm = StL lsm).
    { destruct (s_tests_finished (d_sched d1)).
      - split; [eapply TS; eauto|].
        destruct (trigger_shape d1 ls1 dm om Els1) as (lsx & -> & _).
        { destruct (d_triggershutdown d1) as [[a b] r0] eqn:Et. destruct r0 as [[]|e]; [congruence|].
          exfalso. unfold d_triggershutdown in Et. unfold mbind at 1, get in Et.
          destruct (d_shuttingdown d1); [unfold ret in Et; discriminate|].
          unfold mbind, put in Et.
          rewrite (mfor_liftD d_node_shutdown (fun n => node_shutdown l_nt l_set_nt n) _ d_node_shutdown_lift
                     (d_set_shuttingdown d1 true) ls1) in Et by exact Els1.
          inversion Ha. }
        eexists. reflexivity.
      - unfold ret in Ha. inv Ha. split; [reflexivity|eauto]. }
    destruct Sm as (-> & lsm & Elsm). cbn [app].
    destruct (d_shouldstop dm); [eapply TS; eauto|unfold ret in Hb; inv Hb; reflexivity]. }
  split; [apply Forall_app; split; [exact NE1|exact (ne_loop_rest _ _ _ _ H2)]|].
  split; [|split].
  - apply (PL_trans W ls ls1 ls'); [exact PL1|]. apply PL_same; auto.
  - eapply FR_trans; [exact FR1|]. rewrite Ed'. unfold FR. cbn. auto.
  - intros E0 coll0 E9. rewrite Kc in E9. exact (CB1 E0 coll0 E9).
Qed.

(* ---- errordown: the number of deaths the session can still see goes down ---- *)
Definition Rem (d : dstate) : nat :=
  match d_max_restart d with Some m => Z.to_nat (m - d_failed_nodes d) | None => 0 end.
Definition Kx (d : dstate) : nat := length (d_active d) + Rem d.
Definition Wd (d : dstate) : nat := d_next_gw d + Rem d.

Lemma filter_neq_lt n (l : list nat) : In n l -> length (filter (fun m => negb (Nat.eqb m n)) l) < length l.
Proof.
  induction l as [|x l IH]; [intros []|]. intros [->|Hin]; cbn.
  - rewrite Nat.eqb_refl. cbn. pose proof (filter_length_le (fun m => negb (Nat.eqb m n)) l). lia.
  - specialize (IH Hin). destruct (Nat.eqb x n); cbn; lia.
Qed.

Lemma errordown_K n d ls d1 o1 :
  DJ' N X0 d ls -> PRE' X0 (QErrorDown n) d ls -> d_max_restart d <> None ->
  d_handle (QErrorDown n) d = (d1, o1, Ok tt) ->
  Kx d1 < Kx d /\ Wd d1 <= Wd d /\ d_max_restart d1 = d_max_restart d.
Proof.
  intros (J0 & _) Hina Hmr H. cbn [PRE'] in Hina. pose proof J0 as [Els J Jb K1 RS K2 EX RQ AL FN].
  cbn [d_handle] in H. rewrite errordown_unfold in H.
  apply LoadProofs.mbind_inv in H. destruct H as [(e & Hh & F)|(d0 & o0 & [] & oR & Hh & E & ->)]; [discriminate|].
  rewrite hook_run in Hh. injection Hh as <- <-. rename d1 into dx.
  apply LoadProofs.mbind_inv in E. destruct E as [(e & Ht & F)|(da & oa & [] & ob & Ht & E & ->)]; [discriminate|].
  destruct (try_block_eff _ _ Hpos _ _ _ _ _ _ J0 Ht) as (_ & lsa & voa & rqa & -> & _ & Ja & _).
  assert (HnG : n < d_next_gw d) by (apply AL; exact Hina).
  assert (Efn : exists fn, aget n (l_nt lsa) = Some fn).
  { destruct (aget n (l_nt lsa)) as [fn|] eqn:Ef; [eauto|]. exfalso. apply (proj2 (lj_ntk' _ _ _ _ Ja n) HnG). exact Ef. }
  destruct Efn as (fn & Efn).
  rewrite mbind_get in E. cbv zeta in E. rewrite mbind_put in E.
  set (da := d_set_requeue (d_set_sched d (StL lsa)) rqa) in *.
  set (db := d_set_failed_nodes da (d_failed_nodes da + 1)%Z) in *.
  change (d_max_restart da) with (d_max_restart d) in E. change (d_failed_nodes da) with (d_failed_nodes d) in E.
  destruct (d_max_restart d) as [m0|] eqn:Emr; [|contradiction].
  pose proof (filter_neq_lt n (d_active d) Hina) as Hlt.
  destruct (m0 <? d_failed_nodes d + 1)%Z eqn:Elt.
  - (* the budget is used up *)
    apply LoadProofs.mbind_inv in E. destruct E as [(e & Hg & F)|(dc & oc & [] & od & Hg & E2 & ->)]; [discriminate|].
    apply LoadProofs.mbind_inv in Hg. destruct Hg as [(e & Hh & F)|(d0 & o0 & [] & oR & Hh & Hg & ->)]; [discriminate|].
    rewrite hook_run in Hh. injection Hh as <- <-.
    destruct (trigger_shape db lsa dc oR eq_refl Hg) as (ls2 & -> & _).
    assert (Hin2 : In n (d_active (d_with db true ls2))) by exact Hina.
    rewrite (active_remove_run n _ Hin2) in E2. inv E2.
    unfold Kx, Wd, Rem. cbn. rewrite Emr. split; [|split; [|reflexivity]]; lia.
  - (* a replacement worker is started *)
    apply Z.ltb_ge in Elt.
    assert (CL : ((d2 <- get ;; put (d_set_shuttingdown d2 false)) ;;; d_clone_node n) db =
                 (d_set_active (d_set_next_gw (d_set_sched (d_set_shuttingdown db false)
                     (StL (l_set_nt lsa (aset (d_next_gw d) (mkfresh (n_spec fn)) (l_nt lsa))))) (S (d_next_gw d)))
                    (d_active d ++ [d_next_gw d]),
                  [OHook (HSpawn (d_next_gw d) (n_spec fn))], Ok tt)).
    { unfold mbind at 1. rewrite mbind_get. unfold put.
      rewrite (clone_run n (d_set_shuttingdown db false) lsa fn eq_refl Efn). reflexivity. }
    apply LoadProofs.mbind_inv in E. destruct E as [(e & Hg & F)|(dc & oc & [] & od & Hg & E2 & ->)]; [discriminate|].
    rewrite CL in Hg. injection Hg as <- <-. clear CL.
    match type of E2 with d_active_remove n ?D = _ => set (dc := D) in * end.
    assert (Hin2 : In n (d_active dc)) by (unfold dc; cbn; apply in_or_app; left; exact Hina).
    rewrite (active_remove_run n _ Hin2) in E2. inv E2.
    unfold Kx, Wd, Rem, dc. cbn. rewrite Emr.
    rewrite filter_app, app_length. cbn [filter].
    assert (Gn : Nat.eqb (d_next_gw d) n = false) by (apply Nat.eqb_neq; lia).
    rewrite Gn. cbn [negb length].
    split; [|split; [|reflexivity]]; lia.
Qed.

Theorem loop_K n d ls d' o :
  DJ' N X0 d ls -> d_active d <> [] -> PRE' X0 (QErrorDown n) d ls -> d_max_restart d <> None ->
  d_loop_once (QErrorDown n) d = (d', o, Ok tt) ->
  Kx d' < Kx d /\ Wd d' <= Wd d /\ d_max_restart d' = d_max_restart d.
Proof.
  intros DJd Hact Hpre Hmr H. rewrite loop_once_unfold in H.
  apply LoadProofs.mbind_inv in H. destruct H as [(e & _ & F)|(d1 & o1 & [] & o2 & H1 & H2 & ->)]; [discriminate|].
  destruct (handle_heff _ _ Hpos _ _ _ _ _ _ DJd Hact Hpre H1) as (_ & ls1 & vo1 & E1).
  pose proof (he_dj' _ _ _ _ _ _ _ _ E1) as J1. pose proof J1 as [Els1 JJ1 _ _ _ _ _ _ _ _].
  destruct (loop_rest_eff' _ _ _ _ _ _ _ _ Els1 JJ1 H2) as (_ & ls2 & vo2 & -> & _).
  exact (errordown_K _ _ _ _ _ DJd Hpre Hmr H1).
Qed.

End Costs.

(* ###################################### part C ###################################### *)

Section MuX.
Variable c : config.
Notation N := (c_numnodes c).
Notation X0 := (c_coll c).
Hypothesis Hmode : c_mode c = MLoad.
Hypothesis Hng : no_garbled c.
Hypothesis Hpos : 0 < N.

(* a dead worker never moves again and nothing reaches it: only its wire up counts *)
Definition nodepotx (s : sys) (n : nat) : nat :=
  2 * length (alist_get [] n (y_up s)) +
  (if mem_nat n (y_dead s) then 0
   else dcost c n (alist_get [] n (y_down s)) + match aget n (y_w s) with Some w => wpot c n w | None => 0 end).
Definition ctlpotx (d : dstate) : nat :=
  match d_sched d with
  | StL ls => poolpotx c (Wd d) ls + sumf (sdn ls) (seq 0 (d_next_gw d))
  | _ => 0
  end.
Definition mux (s : sys) : nat :=
  ctlpotx (y_d s) + length (y_evq s) + sumf (nodepotx s) (seq 0 (d_next_gw (y_d s))).

Lemma Tst_le_sumx W n i : n < W -> Tst c n i <= sumf (fun k => Tst c k i) (seq 0 W).
Proof. intros H. apply (sumf_in_le (fun k => Tst c k i)). apply in_seq. lia. Qed.

Lemma run_cost_lex W n ixs : n < W -> ixs <> [] -> 2 + sumf (rcost c n) (map Idx ixs) <= sumf (pcostx c W) ixs.
Proof.
  intros HnN Hnil.
  assert (G : forall l, sumf (rcost c n) (map Idx l) + 2 * length l <= sumf (pcostx c W) l).
  { induction l as [|i l IH]; [cbn; lia|]. cbn [map length]. rewrite !sumf_cons. unfold rcost at 1, pcostx at 1.
    cbn [icost]. pose proof (Tst_le_sumx W n i HnN). lia. }
  destruct ixs as [|i l]; [congruence|]. specialize (G (i :: l)). cbn [length] in G. lia.
Qed.

Lemma NR_costx W n f cs f' :
  n < W -> NR f cs f' -> Forall ne_cmd cs ->
  dcost c n cs + sdterm f' <= sdterm f + sumf (pcostx c W) (flat_map cmd_inds cs).
Proof.
  intros HnN R. induction R as [f|f ixs cs f' Hs R IH|f cs f' Hs R IH]; intros Hnil.
  - unfold dcost. cbn [flat_map]. rewrite !sumf_nil. lia.
  - inversion Hnil as [|x l Hx Hl]; subst. specialize (IH Hl). unfold dcost in *. rewrite sumf_cons.
    cbn [flat_map cmd_inds]. rewrite sumf_app. unfold cmdcost at 1. cbn [cmd_items].
    assert (Hi : ixs <> []) by (destruct ixs as [|i0 l0]; [exact (False_ind _ Hx)|discriminate]).
    pose proof (run_cost_lex W n ixs HnN Hi). lia.
  - destruct (NR_sdsent_true _ _ _ R eq_refl) as (-> & ->). unfold dcost. rewrite sumf_cons, sumf_nil.
    unfold cmdcost. cbn [cmd_items flat_map cmd_inds]. rewrite sumf_cons, !sumf_nil.
    unfold rcost, sdterm, SDC. cbn. rewrite Hs. lia.
Qed.

(* a worker that has not exited can still make at least three moves' worth *)
Lemma wpot_alive n w : wph w <> PExited -> 3 <= wpot c n w.
Proof.
  intros H. unfold wpot, phpot. destruct (wph w); try lia; try contradiction.
Qed.

(* only node n0's share changes *)
Lemma mu_node_stepx s s' n0 k :
  y_d s' = y_d s -> y_evq s' = y_evq s -> n0 < d_next_gw (y_d s) ->
  (forall n, n <> n0 -> nodepotx s' n = nodepotx s n) ->
  nodepotx s' n0 + k <= nodepotx s n0 -> mux s' + k <= mux s.
Proof.
  intros Ed Eq HnN Hoth Hn0. unfold mux. rewrite Ed, Eq.
  set (G := d_next_gw (y_d s)) in *.
  pose proof (sumf_change_one (nodepotx s) (nodepotx s') (seq 0 G) n0 (seq_NoDup G 0)) as X.
  assert (Hin : In n0 (seq 0 G)) by (apply in_seq; lia).
  specialize (X Hin (fun n _ Hn => Hoth n Hn)). lia.
Qed.

(* a change of the controller's flags that leaves "told to shut down" alone does not touch the measure *)
Lemma ctlpotx_flags d d' ls ls' :
  d_sched d = StL ls -> d_sched d' = StL ls' ->
  l_coll ls' = l_coll ls -> l_pending ls' = l_pending ls ->
  (forall n, option_map n_sdsent (aget n (l_nt ls')) = option_map n_sdsent (aget n (l_nt ls))) ->
  d_next_gw d' = d_next_gw d -> d_failed_nodes d' = d_failed_nodes d -> d_max_restart d' = d_max_restart d ->
  ctlpotx d' = ctlpotx d.
Proof.
  intros E E' Ec Ep Ef Eg Efl Em. unfold ctlpotx, Wd, Rem, poolpotx. rewrite E, E', Ec, Ep, Eg, Efl, Em.
  f_equal. apply sumf_ext_in. intros n _. unfold sdn. rewrite Ef. reflexivity.
Qed.

Lemma upd_flag_sdsent ls n f f' k :
  aget n (l_nt ls) = Some f -> n_sdsent f' = n_sdsent f ->
  option_map n_sdsent (aget k (l_nt (upd_flag ls n f'))) = option_map n_sdsent (aget k (l_nt ls)).
Proof.
  intros Ef Hs. rewrite aget_upd_flag. destruct (Nat.eqb k n) eqn:E; [|reflexivity].
  apply Nat.eqb_eq in E. subst k. rewrite Ef. cbn. f_equal. exact Hs.
Qed.

(* the controller's receiver thread queues at most one event per message *)
Lemma pfr_len' n m d d' o evs :
  m <> UBad -> process_from_remote n m d = (d', o, Ok evs) -> length evs <= 1.
Proof.
  intros Hm H. unfold process_from_remote, mbind, get, of_opt, ret, raise, put in H. cbn beta iota zeta in H.
  destruct (aget n (d_nt d)) as [f|] eqn:Ef; cbn beta iota zeta in H; [|discriminate].
  destruct (n_down f) eqn:Edn.
  { assert (H' : (d, @nil out, Ok (@nil cevent)) = (d', o, Ok evs)).
    { destruct m as [e|ids|sk|i ms|dec| | |]; exact H. }
    inv H'. cbn. lia. }
  destruct m as [e|ids|sk|i ms|dec| | |]; try contradiction; try (inv H; cbn; lia).
  destruct e; inv H; cbn; lia.
Qed.

(* ---- a worker process dies ---- *)
Lemma mux_crash s n0 w0 :
  XInv c s -> mem_nat n0 (y_dead s) = false -> aget n0 (y_w s) = Some w0 -> wph w0 <> PExited ->
  mux (crash_worker c s n0) + 1 <= mux s /\ Kx (y_d (crash_worker c s n0)) = Kx (y_d s) /\
  d_max_restart (y_d (crash_worker c s n0)) = d_max_restart (y_d s).
Proof.
  intros X Hd Ew Hph. pose proof X as [Lo Hi (ls & DJd & NIs) Eq Eu Ea Er Edead].
  pose proof DJd as ([Els J _ _ _ _ _ _ _ _] & _).
  pose proof (worker_lt c s n0 w0 X Ew) as HnG.
  destruct (aget n0 (l_nt ls)) as [f0|] eqn:Ef0; [|exfalso; apply (proj2 (lj_ntk' _ _ _ _ J n0) HnG); exact Ef0].
  set (s' := crash_worker c s n0).
  assert (CT : ctlpotx (y_d s') = ctlpotx (y_d s) /\ d_next_gw (y_d s') = d_next_gw (y_d s) /\
               Kx (y_d s') = Kx (y_d s) /\ d_max_restart (y_d s') = d_max_restart (y_d s)).
  { unfold s', crash_worker. cbn [y_d]. destruct (c_strict c); [|auto].
    rewrite (d_nt_l _ _ Els), Ef0.
    split; [|split; [reflexivity|split; reflexivity]].
    apply (ctlpotx_flags _ _ ls (upd_flag ls n0 (closed_flag f0))); try reflexivity; auto.
    - rewrite <- (d_nt_l _ _ Els). apply d_set_nt_sched. exact Els.
    - intros k. apply (upd_flag_sdsent ls n0 f0); auto. }
  destruct CT as (CT & EG & EK & EM). split; [|split; [exact EK|exact EM]].
  unfold mux. rewrite CT, EG. change (y_evq s') with (y_evq s).
  set (G := d_next_gw (y_d s)) in *.
  pose proof (sumf_change_one (nodepotx s) (nodepotx s') (seq 0 G) n0 (seq_NoDup G 0)) as Z.
  assert (Hin : In n0 (seq 0 G)) by (apply in_seq; lia).
  assert (Hoth : forall n, In n (seq 0 G) -> n <> n0 -> nodepotx s' n = nodepotx s n).
  { intros n _ Hn. unfold nodepotx, s', crash_worker. cbn [y_up y_down y_w y_dead].
    rewrite mem_nat_cons. apply Nat.eqb_neq in Hn. rewrite Hn. cbn [orb]. apply Nat.eqb_neq in Hn.
    rewrite !alist_get_aset_neq by exact Hn. reflexivity. }
  specialize (Z Hin Hoth).
  assert (Hn0 : nodepotx s' n0 + 1 <= nodepotx s n0).
  { unfold nodepotx, s', crash_worker. cbn [y_up y_down y_w y_dead].
    rewrite mem_nat_cons, Nat.eqb_refl, Hd, Ew. cbn [orb]. rewrite alist_get_aset_eq, app_length. cbn [length].
    pose proof (wpot_alive n0 w0 Hph). lia. }
  lia.
Qed.

(* ---- closing the channel of a dead worker changes nothing ---- *)
Lemma mux_close s n : XInv c s -> mux (close_if_dead s n) = mux s /\ Kx (y_d (close_if_dead s n)) = Kx (y_d s) /\
  d_max_restart (y_d (close_if_dead s n)) = d_max_restart (y_d s).
Proof.
  intros X. pose proof X as [_ _ (ls & DJd & _) _ _ _ _ _]. pose proof DJd as ([Els J _ _ _ _ _ _ _ _] & _).
  unfold close_if_dead. destruct (mem_nat n (y_dead s)) eqn:Hd; [|auto].
  destruct (aget n (d_nt (y_d s))) as [f|] eqn:Ef; [|auto].
  destruct (n_down f) eqn:Edn; [|auto].
  rewrite (d_nt_l _ _ Els) in Ef.
  set (fc := {| n_spec := n_spec f; n_down := true; n_sdsent := n_sdsent f; n_closed := true |}).
  split; [|split; reflexivity].
  unfold mux. cbn [set_d y_d y_evq].
  assert (CT : ctlpotx (d_set_nt (y_d s) (aset n fc (d_nt (y_d s)))) = ctlpotx (y_d s)).
  { apply (ctlpotx_flags _ _ ls (upd_flag ls n fc)); try reflexivity; auto.
    - apply d_set_nt_sched. exact Els.
    - intros k. apply (upd_flag_sdsent ls n f); auto. }
  rewrite CT. reflexivity.
Qed.

(* ---- LCtl, any event but errordown: the measure goes down ---- *)
Lemma mux_ctl s ev q d' outs rr :
  XInv c s -> y_result s = None -> y_evq s = ev :: q -> (forall n, ev <> QErrorDown n) ->
  d_loop_once ev (y_d s) = (d', outs, Ok tt) ->
  let s' := set_result (apply_outs (set_d (set_evq s q) d') outs) rr in
  mux s' + 1 <= mux s /\ Kx (y_d s') <= Kx (y_d s) /\ d_max_restart (y_d s') = d_max_restart (y_d s).
Proof.
  intros X Eres Eevq Hne El. cbv zeta. pose proof X as [Lo Hi (ls & DJd & NIs) Eq Eu Ea Er Edead].
  specialize (Ea Eres).
  pose proof (pre_from_inv' c s ls ev q X DJd NIs Eevq) as Hpre.
  destruct (loop_once_ok' N X0 Hpos ev _ ls d' outs _ DJd Ea Hpre El) as (_ & ls' & vo & Eo & E & DJ2 & _ & _).
  pose proof DJ2 as ([Els' J' _ _ _ _ _ _ _ _] & _).
  pose proof DJd as ([Els J _ _ _ _ _ _ AL _] & _).
  set (G := d_next_gw (y_d s)) in *.
  set (W := Wd (y_d s)).
  assert (HW : G <= W) by (unfold W, Wd; fold G; lia).
  destruct (loop_pl c Hpos ev _ ls d' outs ls' W DJd Ea Hpre Hne HW El Els') as (NE & PLx & (Fg & Ffl & Fm & Fa) & _).
  fold G in Fg.
  assert (NOSP : forall id sp, ~ In (OHook (HSpawn id sp)) outs).
  { pose proof (loop_once_step _ _ _ _ _ El) as (_ & _ & _ & SP).
    destruct SP as [(C0 & _)|(_ & G1 & _)]; [|fold G in G1; lia].
    intros id sp Hin. pose proof (count_zero_notin _ _ _ C0 Hin) as F. discriminate. }
  assert (OUTG : forall m, G <= m -> cmds_to m outs = []).
  { intros m Hm. rewrite Eo, cmds_to_vfilter, (he_out' _ _ _ _ _ _ _ _ E m Hm). destruct (closedb (l_nt ls) m); reflexivity. }
  set (sA := set_d (set_evq s q) d').
  destruct (apply_outs_frame outs sA) as (F1 & F2 & F3). cbn [sA set_d set_evq y_evq y_d y_dead] in F1, F2, F3.
  assert (UP : forall k, alist_get [] k (y_up (apply_outs sA outs)) = alist_get [] k (y_up s)).
  { intros k. rewrite apply_outs_up; [reflexivity|]. intros id sp Hin. exfalso. exact (NOSP _ _ Hin). }
  assert (DOWN : forall k, alist_get [] k (y_down (apply_outs sA outs)) =
            if mem_nat k (y_dead s) then alist_get [] k (y_down s) else alist_get [] k (y_down s) ++ cmds_to k outs).
  { intros k. rewrite apply_outs_down; [reflexivity|]. intros id sp Hin. exfalso. exact (NOSP _ _ Hin). }
  assert (WOLD : forall k, aget k (y_w (apply_outs sA outs)) = aget k (y_w s)).
  { intros k. rewrite apply_outs_w_none; [reflexivity|]. intros sp Hin. exact (NOSP _ _ Hin). }
  set (s1 := apply_outs sA outs) in *.
  assert (EW : Wd d' = W) by (unfold W, Wd, Rem; rewrite Fg, Ffl, Fm; reflexivity).
  split; [|split].
  2:{ cbn [set_result y_d]. rewrite F2. unfold Kx, Rem. rewrite Ffl, Fm. lia. }
  2:{ cbn [set_result y_d]. rewrite F2. exact Fm. }
  (* the nodes' shares *)
  set (extra := fun k => if mem_nat k (y_dead s) then 0 else dcost c k (cmds_to k outs)).
  assert (Enode : forall k, nodepotx (set_result s1 rr) k = nodepotx s k + extra k).
  { intros k. unfold nodepotx, extra. cbn [set_result y_up y_down y_w y_dead]. rewrite F3, UP, DOWN, WOLD.
    destruct (mem_nat k (y_dead s)); [lia|]. unfold dcost. rewrite sumf_app. lia. }
  (* per node: commands and the shutdown budget *)
  assert (Hnode : forall k, In k (seq 0 G) ->
            extra k + sdn ls' k <= sdn ls k + sumf (pcostx c W) (flat_map cmd_inds (cmds_to k outs))).
  { intros k Hk. apply in_seq in Hk. assert (HkG : k < G) by lia.
    destruct (aget k (l_nt ls)) as [f|] eqn:Ef; [|exfalso; apply (proj2 (lj_ntk' _ _ _ _ J k) HkG); exact Ef].
    pose proof (he_nt' _ _ _ _ _ _ _ _ E k HkG) as R. rewrite Ef in R.
    destruct (aget k (l_nt ls')) as [f'|] eqn:Ef'; [|destruct R]. cbn in R.
    rewrite (sdn_some ls k f Ef), (sdn_some ls' k f' Ef').
    assert (CM : cmds_to k outs = if closedb (l_nt ls) k then [] else cmds_to k vo) by (rewrite Eo; apply cmds_to_vfilter).
    destruct (closedb (l_nt ls) k) eqn:Ecl.
    - unfold extra. rewrite CM. unfold dcost. cbn [flat_map]. rewrite !sumf_nil.
      destruct (NR_fields _ _ _ R) as (_ & _ & _ & Dsd & _).
      assert (Z : sdterm f' <= sdterm f).
      { unfold sdterm. destruct (n_sdsent f) eqn:Es; [|destruct (n_sdsent f'); unfold SDC; lia].
        rewrite (proj2 Dsd (or_introl eq_refl)). lia. }
      destruct (mem_nat k (y_dead s)); lia.
    - assert (NEk : Forall ne_cmd (cmds_to k outs)) by (apply ne_cmds_to; exact NE).
      rewrite CM in NEk |- *.
      pose proof (NR_costx W k f _ f' ltac:(lia) R NEk) as Z.
      unfold extra. rewrite CM. destruct (mem_nat k (y_dead s)); lia. }
  assert (Hsum : sumf extra (seq 0 G) + sumf (sdn ls') (seq 0 G) <=
                 sumf (sdn ls) (seq 0 G) + sumf (pcostx c W) (sent_inds outs)).
  { rewrite <- !sumf_add.
    assert (CK : forall k, ~ In k (seq 0 G) -> cmds_to k outs = []).
    { intros k Hk. apply OUTG. destruct (Nat.lt_ge_cases k G) as [Hl|Hl]; [|exact Hl]. exfalso. apply Hk. apply in_seq. lia. }
    rewrite <- (sumf_perm (pcostx c W) _ _ (sent_perm' (seq 0 G) outs (seq_NoDup G 0) CK)).
    rewrite sumf_flat_map. rewrite <- sumf_add. apply sumf_le_in. exact Hnode. }
  unfold PL in PLx.
  unfold mux. cbn [set_result y_d y_evq]. rewrite F1, F2, Fg. fold G.
  rewrite (sumf_ext_in (nodepotx (set_result s1 rr)) (fun k => nodepotx s k + extra k) _ (fun k _ => Enode k)).
  rewrite sumf_add. unfold ctlpotx. rewrite Els', Els, Eevq, Fg, EW. fold G W. cbn [length]. lia.
Qed.

(* ---- every useful move and every crash ---- *)
Definition ulabel (s : sys) (l : label) : Prop := useful s l = true \/ exists n, l = LCrash n.

(* the lexicographic order on (deaths the session can still see, potential) *)
Definition lexlt (a b : nat * nat) : Prop := fst a < fst b \/ (fst a <= fst b /\ snd a < snd b).
Definition meas (s : sys) : nat * nat := (Kx (y_d s), mux s).

Theorem step_lexx s l s' o w :
  XInv c s -> d_max_restart (y_d s) <> None -> ulabel s l -> sys_step c s l = Some (s', o, w) ->
  y_result s' <> None \/
  (d_max_restart (y_d s') = d_max_restart (y_d s) /\ lexlt (meas s') (meas s)).
Proof.
  intros X Hmr Hu H. pose proof X as [Lo Hi (ls & DJd & NIs) Eq Eu Ea Er Edead].
  pose proof DJd as ([Els J _ _ _ _ _ _ _ _] & _).
  assert (SAME_D : forall s2 k, y_d s2 = y_d s -> mux s2 + k <= mux s -> 0 < k ->
            d_max_restart (y_d s2) = d_max_restart (y_d s) /\ lexlt (meas s2) (meas s)).
  { intros s2 k Ed Hm Hk. rewrite Ed. split; [reflexivity|]. right. unfold meas. cbn [fst snd]. rewrite Ed. lia. }
  unfold sys_step in H. destruct (y_result s) eqn:Eres; [discriminate|].
  destruct l as [n0|n0|n0|n0| |n0].
  - (* LDeliver *)
    destruct (mem_nat n0 (y_dead s)) eqn:Hd; [discriminate|].
    destruct (aget n0 (y_down s)) as [[|cmd rest]|] eqn:Ed; try discriminate.
    destruct (aget n0 (y_w s)) as [w0|] eqn:Ew; try discriminate.
    inv H. right. pose proof (worker_lt c s n0 w0 X Ew) as HnG.
    apply (SAME_D _ 1); [reflexivity| |lia].
    apply (mu_node_stepx _ _ n0); auto.
    + intros n Hn. unfold nodepotx. cbn [y_up y_down y_w y_dead]. rewrite alist_get_aset_neq, aget_aset_neq by exact Hn. reflexivity.
    + unfold nodepotx. cbn [y_up y_down y_w y_dead]. rewrite Hd, alist_get_aset_eq, aget_aset_eq, Ew, (alist_get_some [] _ _ _ Ed).
      rewrite deliver_pot. unfold dcost. rewrite sumf_cons. lia.
  - (* LRecvW *)
    destruct (mem_nat n0 (y_dead s)) eqn:Hd; [discriminate|].
    destruct (aget n0 (y_w s)) as [w0|] eqn:Ew; try discriminate.
    destruct Hu as [Hu|(k & F)]; [|discriminate]. cbn [useful] in Hu. rewrite Ew in Hu.
    destruct (negb (wcb w0)); [discriminate|].
    destruct (recv_step (c_oracle c n0) w0) as [w' evs] eqn:Es. inv H. right.
    pose proof (worker_lt c s n0 w0 X Ew) as HnG.
    destruct (NIs n0 w0 Ew) as (Iw & Gw & NGw & D). rewrite Hd in D. destruct D as [D1 _ _ _ _ _].
    destruct (NI_recv (c_oracle c n0) _ _ _ _ _ _ _ Gw D1) as (Ev & _). rewrite Es in Ev. cbn [snd] in Ev. subst evs.
    pose proof (recv_step_pot c (c_oracle c n0) n0 w0 Gw (proj1 (ni_wx _ _ _ _ _ _ _ D1)) Hu) as Z. rewrite Es in Z. cbn [fst] in Z.
    apply (SAME_D _ 1); [reflexivity| |lia].
    apply (mu_node_stepx _ _ n0); auto.
    + intros n Hn. unfold nodepotx. cbn [push_up set_w y_up y_down y_w y_dead].
      rewrite alist_get_aset_neq, aget_aset_neq by exact Hn. reflexivity.
    + unfold nodepotx. cbn [push_up set_w y_up y_down y_w y_dead map]. rewrite Hd, alist_get_aset_eq, aget_aset_eq, Ew, app_nil_r. lia.
  - (* LMain *)
    destruct (mem_nat n0 (y_dead s)) eqn:Hd; [discriminate|].
    destruct (aget n0 (y_w s)) as [w0|] eqn:Ew; try discriminate.
    destruct (dies_now c n0 w0) eqn:Edie.
    + inv H. right.
      assert (Hph : wph w0 <> PExited) by (unfold dies_now in Edie; destruct (wph w0); discriminate).
      destruct (mux_crash s n0 w0 X Hd Ew Hph) as (A & B & C0). split; [exact C0|]. right. unfold meas. cbn [fst snd]. lia.
    + destruct (main_step (c_oracle c n0) w0) as [[w' evs]|] eqn:Es; [|discriminate]. inv H. right.
      pose proof (worker_lt c s n0 w0 X Ew) as HnG.
      pose proof (main_step_pot c n0 w0 w' evs Es) as Z.
      apply (SAME_D _ 1); [reflexivity| |lia].
      apply (mu_node_stepx _ _ n0); auto.
      * intros n Hn. unfold nodepotx. cbn [push_up set_w y_up y_down y_w y_dead].
        rewrite alist_get_aset_neq, aget_aset_neq by exact Hn. reflexivity.
      * unfold nodepotx. cbn [push_up set_w y_up y_down y_w y_dead]. rewrite Hd, alist_get_aset_eq, aget_aset_eq, Ew, app_length, map_length. lia.
  - (* LRecv *)
    destruct (aget n0 (y_up s)) as [[|m rest]|] eqn:Eup; try discriminate.
    cbn [y_d] in H.
    destruct (process_from_remote n0 m (y_d s)) as [[d' outs] r] eqn:Ep.
    destruct (step_recv c Hpos s n0 m rest d' outs r X Eup Ep) as (-> & evs & -> & X2 & _ & _).
    rewrite Eres in X2. cbn [apply_outs] in H. inv H. right.
    pose proof (Eu n0) as En. rewrite (alist_get_some [] _ _ _ Eup) in En. inversion En as [|m1 r1 Gm Gr]; subst.
    assert (Hm : m <> UBad) by (intros ->; exact Gm).
    pose proof (pfr_len' _ _ _ _ _ _ Hm Ep) as Hlen.
    match goal with |- context [close_if_dead ?S2 n0] => set (s2 := S2) in * end.
    destruct (mux_close s2 n0 X2) as (M1 & M2 & M3). unfold meas, lexlt. cbn [fst snd]. rewrite M1, M2, M3.
    assert (HnG : n0 < d_next_gw (y_d s)).
    { destruct (Nat.lt_ge_cases n0 (d_next_gw (y_d s))) as [Hl|Hl]; [exact Hl|].
      destruct (Hi n0 Hl) as (_ & F & _). rewrite (alist_get_some [] _ _ _ Eup) in F. discriminate. }
    assert (FLD : ctlpotx d' = ctlpotx (y_d s) /\ d_next_gw d' = d_next_gw (y_d s) /\ Kx d' = Kx (y_d s) /\
                  d_max_restart d' = d_max_restart (y_d s)).
    { destruct (pfr_shape' _ _ _ _ _ _ Hm Ep) as [->|(f & Ef & ->)]; [auto|].
      rewrite (d_nt_l _ _ Els) in Ef. split; [|split; [reflexivity|split; reflexivity]].
      apply (ctlpotx_flags _ _ ls (upd_flag ls n0 (down_flag' f))); try reflexivity; auto.
      - apply d_set_nt_sched. exact Els.
      - intros k. apply (upd_flag_sdsent ls n0 f); auto. }
    destruct FLD as (CT & EG & EK & EM).
    cbn [s2 set_evq set_d y_d]. split; [exact EM|]. right. split; [lia|].
    unfold mux. cbn [s2 set_evq set_d y_d y_evq]. rewrite CT, EG, app_length.
    set (G := d_next_gw (y_d s)) in *.
    pose proof (sumf_change_one (nodepotx s) (nodepotx s2) (seq 0 G) n0 (seq_NoDup G 0)) as Z.
    assert (Hin : In n0 (seq 0 G)) by (apply in_seq; lia).
    assert (Hoth : forall n, In n (seq 0 G) -> n <> n0 -> nodepotx s2 n = nodepotx s n).
    { intros n _ Hn. unfold nodepotx, s2. cbn [set_evq set_d y_up y_down y_w y_dead]. rewrite alist_get_aset_neq by exact Hn. reflexivity. }
    specialize (Z Hin Hoth).
    assert (Hn0 : nodepotx s2 n0 + 2 = nodepotx s n0).
    { unfold nodepotx, s2. cbn [set_evq set_d y_up y_down y_w y_dead]. rewrite alist_get_aset_eq, (alist_get_some [] _ _ _ Eup). cbn [length]. lia. }
    lia.
  - (* LCtl *)
    specialize (Ea eq_refl).
    destruct (d_active (y_d s)) as [|a0 ar] eqn:Eact; [contradiction|].
    destruct (y_evq s) as [|ev q] eqn:Eevq; [discriminate|].
    destruct (d_loop_once ev (y_d s)) as [[d' outs] r] eqn:El.
    destruct (step_ctl_core c Hpos s ev q d' outs r X Eres Eevq El) as (-> & _ & _).
    assert (Hact : d_active (y_d s) <> []) by (rewrite Eact; discriminate).
    assert (CORE : forall rr,
      let s1 := set_result (apply_outs (set_d (set_evq s q) d') outs) rr in
      d_max_restart (y_d s1) = d_max_restart (y_d s) /\ lexlt (meas s1) (meas s)).
    { intros rr. cbv zeta.
      assert (DEC : (exists n, ev = QErrorDown n) \/ (forall n, ev <> QErrorDown n)).
      { destruct ev; try (right; intros ? F; discriminate). left. eexists. reflexivity. }
      destruct DEC as [(n & ->)|Hne].
      - pose proof (pre_from_inv' c s ls _ q X DJd NIs Eevq) as Hpre.
        destruct (loop_K c Hpos n _ ls d' outs DJd Hact Hpre Hmr El) as (A & _ & B).
        destruct (apply_outs_frame outs (set_d (set_evq s q) d')) as (_ & F2 & _). cbn [set_d y_d] in F2.
        unfold meas. cbn [set_result y_d fst snd]. rewrite F2. split; [exact B|]. left. cbn. exact A.
      - destruct (mux_ctl s ev q d' outs rr X Eres Eevq Hne El) as (A & B & C0). cbv zeta in A, B, C0.
        split; [exact C0|]. right. unfold meas. cbn [fst snd]. lia. }
    destruct (d_session_finished d').
    + inv H. left. cbn. destruct (d_shouldstop d'); discriminate.
    + destruct (d_active d') as [|b0 br].
      * left. destruct (d_no_active d') as [[d2 o2] r2]. inv H. cbn. discriminate.
      * assert (Er1 : y_result (apply_outs (set_d (set_evq s q) d') outs) = None).
        { rewrite apply_outs_result. cbn. exact Eres. }
        rewrite <- (set_result_same' _ None Er1) in H. inv H. right. apply CORE.
  - (* LCrash *)
    destruct (mem_nat n0 (y_dead s)) eqn:Hd; [discriminate|].
    destruct (aget n0 (y_w s)) as [w0|] eqn:Ew; try discriminate.
    assert (Hph : wph w0 <> PExited) by (intros F; rewrite F in H; discriminate).
    assert (E : s' = crash_worker c s n0) by (destruct (wph w0); try discriminate; inv H; reflexivity).
    subst s'. right. destruct (mux_crash s n0 w0 X Hd Ew Hph) as (A & B & C0).
    split; [exact C0|]. right. unfold meas. cbn [fst snd]. lia.
Qed.

End MuX.


(* ###################################### part D ###################################### *)

Lemma lexlt_wf : well_founded lexlt.
Proof.
  intros [a b]. revert b. induction a as [a IHa] using lt_wf_ind. intros b.
  induction b as [b IHb] using lt_wf_ind. constructor. intros [a' b'] [H|(H1 & H2)]; cbn [fst snd] in *.
  - apply IHa. exact H.
  - destruct (Nat.eq_dec a' a) as [->|Hne]; [apply IHb; exact H2|apply IHa; lia].
Qed.

Lemma pfr_quiet n m : quiet (process_from_remote n m).
Proof.
  intros d0. unfold process_from_remote. qs; try apply quiet_node_shutdown;
    (apply f_put; match goal with H : same_budget _ _ |- _ => destruct H as (A & B & C0) end; repeat split; cbn; congruence).
Qed.

(* the restart budget is never touched *)
Lemma step_max_restart c s l s' o w :
  sys_step c s l = Some (s', o, w) -> d_max_restart (y_d s') = d_max_restart (y_d s).
Proof.
  intros H. unfold sys_step in H. destruct (y_result s); [discriminate|].
  assert (CR : forall n, d_max_restart (y_d (crash_worker c s n)) = d_max_restart (y_d s)).
  { intros n. unfold crash_worker. cbn [y_d]. destruct (c_strict c); [|reflexivity].
    destruct (aget n (d_nt (y_d s))); reflexivity. }
  destruct l as [n0|n0|n0|n0| |n0].
  - destruct (mem_nat n0 (y_dead s)); [discriminate|].
    destruct (aget n0 (y_down s)) as [[|cmd rest]|]; try discriminate.
    destruct (aget n0 (y_w s)); try discriminate. injection H as <- <- <-. reflexivity.
  - destruct (mem_nat n0 (y_dead s)); [discriminate|].
    destruct (aget n0 (y_w s)) as [w0|]; try discriminate.
    destruct (negb (wcb w0)); [discriminate|].
    destruct (recv_step (c_oracle c n0) w0). injection H as <- <- <-. reflexivity.
  - destruct (mem_nat n0 (y_dead s)); [discriminate|].
    destruct (aget n0 (y_w s)) as [w0|]; try discriminate.
    destruct (dies_now c n0 w0); [injection H as <- <- <-; apply CR|].
    destruct (main_step (c_oracle c n0) w0) as [[w' evs]|]; [|discriminate]. injection H as <- <- <-. reflexivity.
  - destruct (aget n0 (y_up s)) as [[|m rest]|]; try discriminate. cbn [y_d] in H.
    destruct (process_from_remote n0 m (y_d s)) as [[d' outs] r] eqn:Ep.
    destruct (quiet_counts _ _ _ _ _ (pfr_quiet n0 m) Ep) as ((_ & B & _) & _).
    assert (CL : forall s2, d_max_restart (y_d (close_if_dead s2 n0)) = d_max_restart (y_d s2)).
    { intros s2. unfold close_if_dead. destruct (mem_nat n0 (y_dead s2)); [|reflexivity].
      destruct (aget n0 (d_nt (y_d s2))) as [f|]; [|reflexivity]. destruct (n_down f); reflexivity. }
    destruct r as [evs|e].
    + injection H as <- <- <-. rewrite CL. cbn [set_evq y_d].
      destruct (apply_outs_frame outs (set_d {| y_d := y_d s; y_evq := y_evq s; y_down := y_down s;
                 y_up := aset n0 rest (y_up s); y_w := y_w s; y_dead := y_dead s; y_result := None |} d')) as (_ & F2 & _).
      rewrite F2. exact B.
    + injection H as <- <- <-. cbn [set_result y_d].
      destruct (apply_outs_frame outs (set_d {| y_d := y_d s; y_evq := y_evq s; y_down := y_down s;
                 y_up := aset n0 rest (y_up s); y_w := y_w s; y_dead := y_dead s; y_result := None |} d')) as (_ & F2 & _).
      rewrite F2. exact B.
  - destruct (d_active (y_d s)).
    + destruct (d_no_active (y_d s)) as [[d' outs] r] eqn:En. injection H as <- <- <-. cbn [set_result y_d].
      destruct (apply_outs_frame outs (set_d s d')) as (_ & F2 & _). rewrite F2. cbn [set_d y_d].
      destruct (quiet_counts _ _ _ _ _ quiet_no_active En) as ((_ & B & _) & _). exact B.
    + destruct (y_evq s) as [|ev q]; [discriminate|].
      destruct (d_loop_once ev (y_d s)) as [[d' outs] r] eqn:El.
      pose proof (loop_once_step _ _ _ _ _ El) as (B & _).
      destruct (apply_outs_frame outs (set_d (set_evq s q) d')) as (_ & F2 & _). cbn [set_d y_d] in F2.
      destruct r as [[]|e]; [|injection H as <- <- <-; cbn [set_result y_d]; rewrite F2; exact B].
      destruct (d_session_finished d'); [injection H as <- <- <-; cbn [set_result y_d]; rewrite F2; exact B|].
      destruct (d_active d'); [|injection H as <- <- <-; rewrite F2; exact B].
      destruct (d_no_active d') as [[d2 o2] r2] eqn:En. injection H as <- <- <-. cbn [set_result y_d].
      destruct (apply_outs_frame o2 (set_d (apply_outs (set_d (set_evq s q) d') outs) d2)) as (_ & G2 & _).
      rewrite G2. cbn [set_d y_d].
      destruct (quiet_counts _ _ _ _ _ quiet_no_active En) as ((_ & B2 & _) & _). congruence.
  - destruct (mem_nat n0 (y_dead s)); [discriminate|].
    destruct (aget n0 (y_w s)) as [w0|]; try discriminate.
    destruct (wph w0); try discriminate; injection H as <- <- <-; apply CR.
Qed.

Lemma restart_frame c ls : d_max_restart (y_d (sys_run c ls)) = c_max_restart c.
Proof.
  unfold sys_run.
  assert (G : forall s, d_max_restart (y_d s) = c_max_restart c ->
     d_max_restart (y_d (fold_left (fun s l => match sys_step c s l with Some (s', _, _) => s' | None => s end) ls s)) = c_max_restart c).
  { induction ls as [|l ls IH]; intros s Hs; cbn [fold_left]; [exact Hs|].
    apply IH. destruct (sys_step c s l) as [[[s' o] w]|] eqn:E; [|exact Hs].
    rewrite (step_max_restart _ _ _ _ _ _ E). exact Hs. }
  apply G. reflexivity.
Qed.

Section MainT.
  Variable c : config.
  Hypothesis Hmode : c_mode c = MLoad.
  Hypothesis Hnogarbled : no_garbled c.
  Hypothesis Hnodes : 0 < c_numnodes c.
  Variable b : Z.
  Hypothesis Hbudget : c_max_restart c = Some b.

  (* the state after k steps of the (infinite) schedule f, started in s *)
  Fixpoint st_after (s : sys) (f : nat -> label) (k : nat) : sys :=
    match k with
    | 0 => s
    | S k' => match sys_step c s (f 0) with
              | Some (s', _, _) => st_after s' (fun i => f (S i)) k'
              | None => s
              end
    end.

  (* f is, from s on, an infinite schedule of enabled moves each of which is useful or a crash *)
  Definition inf_run (s : sys) (f : nat -> label) : Prop :=
    forall k, ulabel (st_after s f k) (f k) /\ sys_step c (st_after s f k) (f k) <> None.

  Lemma inf_run_tail s f s' o w :
    sys_step c s (f 0) = Some (s', o, w) -> inf_run s f -> inf_run s' (fun i => f (S i)).
  Proof.
    intros E H k. specialize (H (S k)). cbn [st_after] in H. rewrite E in H. exact H.
  Qed.

  Lemma no_inf_run_from s :
    XInv c s -> d_max_restart (y_d s) <> None -> forall f, ~ inf_run s f.
  Proof.
    intros X Hm. pose proof (lexlt_wf (meas c s)) as A. remember (meas c s) as m eqn:Em.
    revert s X Hm Em. induction A as [m _ IH]. intros s X Hm -> f Hf.
    destruct (Hf 0) as (Hu & He). cbn [st_after] in Hu, He.
    destruct (sys_step c s (f 0)) as [[[s' o] w]|] eqn:E; [|congruence].
    pose proof (inf_run_tail s f s' o w E Hf) as Hf'.
    assert (DEAD : y_result s' <> None -> False).
    { intros Hr. destruct (Hf' 0) as (_ & He'). cbn [st_after] in He'. apply He'.
      unfold sys_step. destruct (y_result s'); [reflexivity|contradiction]. }
    destruct (step_lexx c Hnodes s (f 0) s' o w X Hm Hu E) as [Hr|(Hm' & Hlt)]; [exact (DEAD Hr)|].
    destruct (step_xinv c Hnogarbled Hnodes s (f 0) s' o w X E) as [X'|(R & _)].
    - apply (IH (meas c s') Hlt s' X' ltac:(congruence) eq_refl _ Hf').
    - apply DEAD. rewrite R. discriminate.
  Qed.

  (* the lexicographic measure decreases along every useful move and every crash of a reachable state *)
  Theorem crash_c02_measure : forall ls l s' o w,
    ulabel (sys_run c ls) l -> sys_step c (sys_run c ls) l = Some (s', o, w) ->
    y_result s' <> None \/ lexlt (meas c s') (meas c (sys_run c ls)).
  Proof.
    intros ls l s' o w Hu E. set (s := sys_run c ls) in *.
    assert (Hr : y_result s = None) by (unfold sys_step in E; destruct (y_result s); [discriminate|reflexivity]).
    destruct (qinv_run c Hmode Hnogarbled Hnodes ls) as [(X & _)|R]; [|contradiction].
    fold s in X.
    assert (Hm : d_max_restart (y_d s) <> None).
    { pose proof (restart_frame c ls) as F. fold s in F. rewrite F, Hbudget. discriminate. }
    destruct (step_lexx c Hnodes s l s' o w X Hm Hu E) as [A|(_ & A)]; [left; exact A|right; exact A].
  Qed.

  (* C02 with worker failures, termination: from a reachable state there is no infinite schedule of useful
     moves and crashes *)
  Theorem crash_c02_terminates : forall ls f, ~ inf_run (sys_run c ls) f.
  Proof.
    intros ls f. destruct (qinv_run c Hmode Hnogarbled Hnodes ls) as [(X & _)|R].
    - apply no_inf_run_from; [exact X|]. rewrite (restart_frame c ls), Hbudget. discriminate.
    - intros Hf. destruct (Hf 0) as (_ & He). cbn [st_after] in He. apply He.
      unfold sys_step. destruct (y_result (sys_run c ls)); [reflexivity|contradiction].
  Qed.

  (* ---- a bound on the length of every run of useful moves and crashes ---- *)
  Fixpoint urun (s : sys) (ls : list label) : Prop :=
    match ls with
    | [] => True
    | l :: r => ulabel s l /\ match sys_step c s l with Some (s', _, _) => urun s' r | None => False end
    end.

  Definition cands (s : sys) : list label :=
    LCtl :: flat_map (fun n => [LDeliver n; LRecvW n; LMain n; LRecv n; LCrash n]) (seq 0 (d_next_gw (y_d s))).

  Lemma enabled_in_cands s l : XInv c s -> sys_step c s l <> None -> In l (cands s).
  Proof.
    intros X H. pose proof X as [_ Hi _ _ _ _ _ _].
    assert (W : forall n w0, aget n (y_w s) = Some w0 -> In n (seq 0 (d_next_gw (y_d s)))).
    { intros n w0 Ew. apply in_seq. pose proof (worker_lt c s n w0 X Ew). lia. }
    assert (IN : forall n (l0 : label), In n (seq 0 (d_next_gw (y_d s))) ->
               In l0 [LDeliver n; LRecvW n; LMain n; LRecv n; LCrash n] -> In l0 (cands s)).
    { intros n l0 Hn Hl. right. apply in_flat_map. exists n. split; assumption. }
    unfold sys_step in H. destruct (y_result s); [congruence|].
    destruct l as [n|n|n|n| |n].
    - destruct (mem_nat n (y_dead s)); [congruence|].
      destruct (aget n (y_down s)) as [[|cm rest]|]; try congruence.
      destruct (aget n (y_w s)) as [w0|] eqn:Ew; [|congruence]. eapply IN; [eapply W; eauto|cbn; auto].
    - destruct (mem_nat n (y_dead s)); [congruence|].
      destruct (aget n (y_w s)) as [w0|] eqn:Ew; [|congruence]. eapply IN; [eapply W; eauto|cbn; auto].
    - destruct (mem_nat n (y_dead s)); [congruence|].
      destruct (aget n (y_w s)) as [w0|] eqn:Ew; [|congruence]. eapply IN; [eapply W; eauto|cbn; auto].
    - destruct (aget n (y_up s)) as [[|m rest]|] eqn:Eu; try congruence.
      eapply IN; [|cbn; auto 10]. apply in_seq.
      destruct (Nat.lt_ge_cases n (d_next_gw (y_d s))) as [Hl|Hl]; [lia|].
      destruct (Hi n Hl) as (_ & F & _). rewrite (alist_get_some [] _ _ _ Eu) in F. discriminate.
    - left. reflexivity.
    - destruct (mem_nat n (y_dead s)); [congruence|].
      destruct (aget n (y_w s)) as [w0|] eqn:Ew; [|congruence]. eapply IN; [eapply W; eauto|cbn; auto 10].
  Qed.

  Lemma ulabel_dec s l : ulabel s l \/ ~ ulabel s l.
  Proof.
    unfold ulabel. destruct (useful s l) eqn:E; [left; left; reflexivity|].
    destruct l; try (right; intros [F|(k & F)]; discriminate). left. right. eexists. reflexivity.
  Qed.

  Lemma urun_ended s ls : y_result s <> None -> urun s ls -> length ls <= 0.
  Proof.
    intros Hr H. destruct ls as [|l r]; [cbn; lia|]. cbn [urun] in H. destruct H as (_ & H).
    unfold sys_step in H. destruct (y_result s); [destruct H|contradiction].
  Qed.

  Lemma bounded_from s :
    XInv c s -> d_max_restart (y_d s) <> None -> exists B, forall ls, urun s ls -> length ls <= B.
  Proof.
    intros X Hm. pose proof (lexlt_wf (meas c s)) as A. remember (meas c s) as m eqn:Em.
    revert s X Hm Em. induction A as [m _ IH]. intros s X Hm ->.
    assert (SUCC : forall l s' o w, sys_step c s l = Some (s', o, w) -> ulabel s l ->
               exists B, forall r, urun s' r -> length r <= B).
    { intros l s' o w E Hu.
      destruct (step_lexx c Hnodes s l s' o w X Hm Hu E) as [Hr|(Hm' & Hlt)].
      - exists 0. intros r. apply urun_ended. exact Hr.
      - destruct (step_xinv c Hnogarbled Hnodes s l s' o w X E) as [X'|(R & _)].
        + apply (IH (meas c s') Hlt s' X' ltac:(congruence) eq_refl).
        + exists 0. intros r. apply urun_ended. rewrite R. discriminate. }
    assert (ALL : forall cs, exists B, forall l, In l cs -> forall s' o w r,
               sys_step c s l = Some (s', o, w) -> ulabel s l -> urun s' r -> length r <= B).
    { induction cs as [|l cs IHcs]; [exists 0; intros l []|].
      destruct IHcs as (B1 & HB1).
      destruct (sys_step c s l) as [[[s' o] w]|] eqn:E.
      - destruct (ulabel_dec s l) as [Hu|Hnu].
        + destruct (SUCC l s' o w E Hu) as (B2 & HB2). exists (Nat.max B1 B2).
          intros l0 [<-|Hin] s0 o0 w0 r E0 Hu0 Hr.
          * rewrite E in E0. inv E0. specialize (HB2 r Hr). lia.
          * specialize (HB1 l0 Hin s0 o0 w0 r E0 Hu0 Hr). lia.
        + exists B1. intros l0 [<-|Hin] s0 o0 w0 r E0 Hu0 Hr; [contradiction|eapply HB1; eauto].
      - exists B1. intros l0 [<-|Hin] s0 o0 w0 r E0 Hu0 Hr; [congruence|eapply HB1; eauto]. }
    destruct (ALL (cands s)) as (B & HB). exists (S B). intros [|l r] H; [cbn; lia|].
    cbn [urun] in H. destruct H as (Hu & H).
    destruct (sys_step c s l) as [[[s' o] w]|] eqn:E; [|destruct H].
    assert (Hin : In l (cands s)) by (apply enabled_in_cands; [exact X|congruence]).
    specialize (HB l Hin s' o w r E Hu H). cbn [length]. lia.
  Qed.

  (* C02 with worker failures, termination (bounded form): from every reachable state the runs made of useful
     moves and crashes have bounded length *)
  Theorem crash_c02_bounded : forall ls0, exists B, forall ls, urun (sys_run c ls0) ls -> length ls <= B.
  Proof.
    intros ls0. destruct (qinv_run c Hmode Hnogarbled Hnodes ls0) as [(X & _)|R].
    - apply bounded_from; [exact X|]. rewrite (restart_frame c ls0), Hbudget. discriminate.
    - exists 0. intros ls. apply urun_ended. exact R.
  Qed.

  (* ... and a run that cannot be extended by a useful non-crash move has ended the session *)
  Theorem crash_c02_maximal_run_ends : forall ls,
    (forall l, no_crash_label l -> useful (sys_run c ls) l = true -> sys_step c (sys_run c ls) l = None) ->
    y_result (sys_run c ls) <> None.
  Proof.
    intros ls Hmax Hres.
    destruct (crash_c02_no_deadlock_useful c ls Hmode Hnogarbled Hnodes Hres) as (l & A & B0 & C0).
    apply C0. apply Hmax; assumption.
  Qed.
End MainT.

Check crash_c02_measure.
Print Assumptions crash_c02_measure.
Check crash_c02_terminates.
Print Assumptions crash_c02_terminates.
Check crash_c02_bounded.
Print Assumptions crash_c02_bounded.
Check crash_c02_maximal_run_ends.
Print Assumptions crash_c02_maximal_run_ends.

(* ###################################### part E ###################################### *)
(* ====================================================================================== *)
(* E. an explicit bound (no plugin re-queues crash items: c_requeue c = 0)                 *)
(* ====================================================================================== *)
Lemma ne_l_pending item : allout Q_ne (l_mark_test_pending item).
Proof. unfold l_mark_test_pending. nel; apply ne_l_check_schedule. Qed.

(* triggershutdown sends shutdown commands only and leaves pool and collection alone *)
Lemma trigger_quiet d ls d' o :
  d_sched d = StL ls -> d_triggershutdown d = (d', o, Ok tt) ->
  exists ls', d_sched d' = StL ls' /\ l_coll ls' = l_coll ls /\ l_pending ls' = l_pending ls /\
    sent_inds o = [] /\ Forall Q_ne o.
Proof.
  intros Els H. pose proof (ne_triggershutdown _ _ _ _ H) as NE.
  unfold d_triggershutdown in H. unfold mbind at 1, get in H.
  destruct (d_shuttingdown d) eqn:Esd.
  - unfold ret in H. inv H. exists ls. auto.
  - unfold mbind, put in H.
    rewrite (mfor_liftD d_node_shutdown (fun n => node_shutdown l_nt l_set_nt n) _ d_node_shutdown_lift
               (d_set_shuttingdown d true) ls) in H by exact Els.
    rewrite Els in H. cbn [s_nodes] in H.
    destruct (mfor (l_nodes ls) (fun n => node_shutdown l_nt l_set_nt n) ls) as [[ls2 o2] r2] eqn:Em.
    cbn [liftD app] in H. inv H.
    pose proof (mfor_shutdown_quiet _ _ _ _ _ Em) as (P & _ & (Kc & _) & S0 & _).
    exists ls2. auto.
Qed.

Lemma label_eq_ctl (l : label) : l = LCtl \/ l <> LCtl.
Proof. destruct l; try (right; discriminate). left. reflexivity. Qed.

Section Bound.
Variable c : config.
Notation N := (c_numnodes c).
Notation X0 := (c_coll c).
Hypothesis Hmode : c_mode c = MLoad.
Hypothesis Hng : no_garbled c.
Hypothesis Hpos : 0 < N.

Notation Pw W := (sumf (pcostx c W)).

(* ---- the costs are monotone in the bound on worker ids ---- *)
Lemma seq_split0 a b : a <= b -> seq 0 b = seq 0 a ++ seq a (b - a).
Proof. intros H. replace b with (a + (b - a)) at 1 by lia. apply seq_app. Qed.

Lemma pcostx_mono W' W i : W' <= W -> pcostx c W' i <= pcostx c W i.
Proof. intros H. unfold pcostx. rewrite (seq_split0 W' W H), sumf_app. lia. Qed.

Lemma Pw_mono W' W l : W' <= W -> Pw W' l <= Pw W l.
Proof. intros H. apply sumf_le_in. intros x _. apply pcostx_mono. exact H. Qed.

Lemma prepoolx_mono W' W : W' <= W -> prepoolx c W' <= prepoolx c W.
Proof.
  intros H. unfold prepoolx. rewrite (seq_split0 W' W H), sumf_app.
  assert (Z : sumf (fun n => Pw W' (seq 0 (length (X0 n)))) (seq 0 W') <=
              sumf (fun n => Pw W (seq 0 (length (X0 n)))) (seq 0 W')).
  { apply sumf_le_in. intros n _. apply Pw_mono. exact H. }
  lia.
Qed.

Lemma poolpotx_mono W' W ls : W' <= W -> poolpotx c W' ls <= poolpotx c W ls.
Proof. intros H. unfold poolpotx. destruct (l_coll ls); [apply Pw_mono|apply prepoolx_mono]; exact H. Qed.

(* ---- the try block of errordown, without re-queueing ---- *)
Lemma try_pl G n d ls da oa W :
  d_sched d = StL ls -> LJ' N X0 G ls -> d_requeue d = 0 -> try_block n d = (da, oa, Ok tt) ->
  exists lsa, d_sched da = StL lsa /\ Forall Q_ne oa /\ l_coll lsa = l_coll ls /\
    Pw W (sent_inds oa) + Pw W (l_pending lsa) <= Pw W (l_pending ls) + Pw W (bk ls n).
Proof.
  intros Els J Hrq H.
  unfold try_block in H. rewrite (sched_op_run _ d ls Els) in H. cbn [s_step] in H.
  destruct (l_remove_node n ls) as [[lsb ob] rb] eqn:Er. cbn [lift] in H.
  pose proof (ne_l_remove n _ _ _ _ Er) as NEb.
  destruct (rm_state_fields n ls) as (Fp & Fq & Fc & Fn & Fch & Fm).
  destruct rb as [[item|]|e].
  - destruct (d_handle_crashitem item n (d_set_sched d (StL lsb))) as [[d2 o2] r2] eqn:Eh. inv H.
    unfold d_handle_crashitem, hook in Eh. rewrite mbind_emit, mbind_get in Eh. cbn [d_requeue d_set_sched] in Eh.
    rewrite Hrq in Eh. rewrite mbind_ret in Eh. unfold emit in Eh. inv Eh.
    exists lsb. split; [reflexivity|].
    split; [apply Forall_app; split; [exact NEb|repeat constructor]|].
    apply l_remove_node_cases in Er.
    destruct Er as [(_ & _ & _ & F)|[(_ & _ & _ & F)|(i & rest & Eb & Er)]]; try discriminate.
    destruct Er as [(_ & _ & _ & F)|[(c0 & _ & _ & _ & _ & F)|(c0 & it & r0 & Ec & En & Hm & Hr)]]; try discriminate.
    destruct r0 as [[]|e]; [|discriminate].
    pose proof (mfor_check_keeps _ _ _ _ _ _ Hm) as (Kc & _). cbn [l_coll l_set_pending] in Kc.
    split; [rewrite Kc; exact Fc|].
    destruct (SL_mfor_check (pcostx c W) _ _ _ _ _ Hm) as (moved & Em & Hl).
    cbn [l_pending l_set_pending] in Em.
    rewrite sent_inds_app. replace (sent_inds [OHook (HCrashItem item n); OHook (HCrashReport item n)]) with (@nil nat) by reflexivity.
    rewrite app_nil_r.
    assert (Z : Pw W (l_pending ls ++ rest) = Pw W moved + Pw W (l_pending lsb)) by (rewrite Em, sumf_app; reflexivity).
    rewrite sumf_app in Z. unfold bk, alist_get. rewrite Eb, sumf_cons. lia.
  - inv H. apply l_remove_node_cases in Er.
    destruct Er as [(_ & _ & _ & F)|[(Eb & -> & -> & _)|(i & rest & Eb & Er)]]; try discriminate.
    + exists (rm_state n ls). split; [reflexivity|]. split; [constructor|]. split; [exact Fc|]. rewrite Fq. cbn. lia.
    + destruct Er as [(_ & _ & _ & F)|[(c0 & _ & _ & _ & _ & F)|(c0 & it & r0 & _ & _ & _ & F)]]; try discriminate.
      destruct r0; discriminate.
  - destruct e; inv H.
    destruct (aget n (l_n2p ls)) as [[|i rest]|] eqn:Eb.
    + destruct (remove_empty_facts _ _ Hpos _ n ls J Eb) as (Er' & _). congruence.
    + exfalso.
      assert (Hcoll : l_coll ls <> None) by (eapply books_nonempty_coll; eauto).
      destruct (l_coll ls) as [X|] eqn:Ecoll; [|contradiction].
      assert (Hi : i < length X).
      { apply (lj_valid' _ _ _ _ J X Ecoll). unfold tokens, books. apply in_or_app. right.
        destruct (aget_split _ _ _ _ Eb) as (pre & post & Hm & _). rewrite Hm, flat_map_app. apply in_or_app. right.
        cbn. left. reflexivity. }
      destruct (nth_error X i) as [item|] eqn:Enth; [|apply nth_error_None in Enth; lia].
      assert (HX0 : X <> []) by (intros E0; rewrite E0 in Hi; cbn in Hi; lia).
      assert (Hk : forall m, In m (akeys (adel n (l_n2p ls))) -> aget m (l_nt ls) <> None).
      { intros m Hm. apply (nodes_known' _ _ _ ls J). eapply adel_keys_incl; eauto. }
      destruct (remove_node_TRv _ _ _ _ _ _ _ _ _ Eb Ecoll Enth Hk (lj_chunk' _ _ _ _ J X Ecoll HX0) Er) as (F & _).
      discriminate.
    + apply l_remove_node_unknown in Er; [|exact Eb]. destruct Er as (_ & -> & ->).
      exists ls. split; [reflexivity|]. split; [constructor|]. split; [reflexivity|]. cbn. lia.
Qed.

(* ---- errordown, the whole handler ---- *)
Lemma errordown_pl n d ls d1 o1 ls1 W :
  DJ' N X0 d ls -> PRE' X0 (QErrorDown n) d ls -> d_requeue d = 0 ->
  d_handle (QErrorDown n) d = (d1, o1, Ok tt) -> d_sched d1 = StL ls1 ->
  Forall Q_ne o1 /\ l_coll ls1 = l_coll ls /\
  Pw W (sent_inds o1) + Pw W (l_pending ls1) <= Pw W (l_pending ls) + Pw W (bk ls n).
Proof.
  intros (J0 & _) Hina Hrq H Els1. cbn [PRE'] in Hina. pose proof J0 as [Els J Jb K1 RS K2 EX RQ AL FN].
  cbn [d_handle] in H. rewrite errordown_unfold in H.
  apply LoadProofs.mbind_inv in H. destruct H as [(e & Hh & F)|(d0 & o0 & [] & oR & Hh & E & ->)]; [discriminate|].
  rewrite hook_run in Hh. injection Hh as <- <-. rename d1 into dx.
  apply LoadProofs.mbind_inv in E. destruct E as [(e & Ht & F)|(da & oa & [] & ob & Ht & E & ->)]; [discriminate|].
  destruct (try_pl _ _ _ _ _ _ W Els J Hrq Ht) as (lsa' & Elsa' & NEa & Eca & PLa).
  destruct (try_block_eff _ _ Hpos _ _ _ _ _ _ J0 Ht) as (_ & lsa & voa & rqa & -> & _ & Ja & _).
  cbn in Elsa'. inv Elsa'. rename lsa' into lsa.
  assert (HnG : n < d_next_gw d) by (apply AL; exact Hina).
  assert (Efn : exists fn, aget n (l_nt lsa) = Some fn).
  { destruct (aget n (l_nt lsa)) as [fn|] eqn:Ef; [eauto|]. exfalso. apply (proj2 (lj_ntk' _ _ _ _ Ja n) HnG). exact Ef. }
  destruct Efn as (fn & Efn).
  rewrite mbind_get in E. cbv zeta in E. rewrite mbind_put in E.
  set (da := d_set_requeue (d_set_sched d (StL lsa)) rqa) in *.
  set (db := d_set_failed_nodes da (d_failed_nodes da + 1)%Z) in *.
  assert (SENT1 : forall x y, sent_inds (OHook x :: y) = sent_inds y) by reflexivity.
  assert (FIN : forall ob2, Forall Q_ne ob2 -> sent_inds ob2 = [] -> l_coll ls1 = l_coll lsa -> l_pending ls1 = l_pending lsa ->
            Forall Q_ne (OHook (HNodeDown n true) :: oa ++ ob2) /\ l_coll ls1 = l_coll ls /\
            Pw W (sent_inds (OHook (HNodeDown n true) :: oa ++ ob2)) + Pw W (l_pending ls1) <= Pw W (l_pending ls) + Pw W (bk ls n)).
  { intros ob2 N2 S2 C2 P2. split; [constructor; [exact I|apply Forall_app; split; assumption]|].
    split; [congruence|]. rewrite SENT1, sent_inds_app, S2, P2. rewrite app_nil_r. exact PLa. }
  change (d_max_restart da) with (d_max_restart d) in E. change (d_failed_nodes da) with (d_failed_nodes d) in E.
  assert (TRIG : forall m0, ((hook (HSummary (m0 =? 0)%Z) ;;; d_triggershutdown) ;;; d_active_remove n) db = (dx, ob, Ok tt) ->
            Forall Q_ne ob /\ sent_inds ob = [] /\ l_coll ls1 = l_coll lsa /\ l_pending ls1 = l_pending lsa).
  { intros m0 E0.
    apply LoadProofs.mbind_inv in E0. destruct E0 as [(e & Hg & F)|(dc & oc & [] & od & Hg & E2 & ->)]; [discriminate|].
    apply LoadProofs.mbind_inv in Hg. destruct Hg as [(e & Hh & F)|(d0 & o0 & [] & oR & Hh & Hg & ->)]; [discriminate|].
    rewrite hook_run in Hh. injection Hh as <- <-.
    destruct (trigger_quiet db lsa dc oR eq_refl Hg) as (ls2 & Els2 & Kc & P2 & S2 & N2).
    assert (Hin2 : In n (d_active dc)).
    { destruct (LivenessLaws.d_triggershutdown_spec _ _ _ Hg) as (_ & _ & _ & _ & _ & _ & _ & _ & Ea2). rewrite Ea2. exact Hina. }
    rewrite (active_remove_run n _ Hin2) in E2. inv E2. cbn [d_sched d_set_active] in Els1.
    assert (ls1 = ls2) by congruence. subst ls2.
    rewrite app_nil_r. cbn [app]. split; [constructor; [exact I|exact N2]|]. split; [rewrite SENT1; exact S2|]. auto. }
  assert (CLONE : (((d2 <- get ;; put (d_set_shuttingdown d2 false)) ;;; d_clone_node n) ;;; d_active_remove n) db = (dx, ob, Ok tt) ->
            Forall Q_ne ob /\ sent_inds ob = [] /\ l_coll ls1 = l_coll lsa /\ l_pending ls1 = l_pending lsa).
  { intros E0.
    assert (CL : ((d2 <- get ;; put (d_set_shuttingdown d2 false)) ;;; d_clone_node n) db =
                 (d_set_active (d_set_next_gw (d_set_sched (d_set_shuttingdown db false)
                     (StL (l_set_nt lsa (aset (d_next_gw d) (mkfresh (n_spec fn)) (l_nt lsa))))) (S (d_next_gw d)))
                    (d_active d ++ [d_next_gw d]),
                  [OHook (HSpawn (d_next_gw d) (n_spec fn))], Ok tt)).
    { unfold mbind at 1. rewrite mbind_get. unfold put.
      rewrite (clone_run n (d_set_shuttingdown db false) lsa fn eq_refl Efn). reflexivity. }
    apply LoadProofs.mbind_inv in E0. destruct E0 as [(e & Hg & F)|(dc & oc & [] & od & Hg & E2 & ->)]; [discriminate|].
    rewrite CL in Hg. injection Hg as <- <-. clear CL.
    match type of E2 with d_active_remove n ?D = _ => set (dc := D) in * end.
    assert (Hin2 : In n (d_active dc)) by (unfold dc; cbn; apply in_or_app; left; exact Hina).
    rewrite (active_remove_run n _ Hin2) in E2. inv E2. cbn in Els1. inv Els1.
    split; [repeat constructor|]. split; [reflexivity|]. split; reflexivity. }
  destruct (d_max_restart d) as [m0|] eqn:Emr.
  - destruct (m0 <? d_failed_nodes d + 1)%Z.
    + destruct (TRIG m0 E) as (A1 & A2 & A3 & A4). apply FIN; assumption.
    + destruct (CLONE E) as (A1 & A2 & A3 & A4). apply FIN; assumption.
  - destruct (CLONE E) as (A1 & A2 & A3 & A4). apply FIN; assumption.
Qed.

Lemma loop_rest_quiet d ls d' o :
  d_sched d = StL ls -> loop_rest d = (d', o, Ok tt) ->
  exists ls', d_sched d' = StL ls' /\ l_coll ls' = l_coll ls /\ l_pending ls' = l_pending ls /\
    sent_inds o = [] /\ Forall Q_ne o.
Proof.
  intros Els H. pose proof (ne_loop_rest _ _ _ _ H) as NE. unfold loop_rest in H.
  apply LoadProofs.mbind_inv in H. destruct H as [(e & _ & F)|(dm & om & [] & on & Ha & Hb & ->)]; [discriminate|].
  rewrite mbind_get in Ha, Hb.
  assert (A : exists lsm, d_sched dm = StL lsm /\ l_coll lsm = l_coll ls /\ l_pending lsm = l_pending ls /\ sent_inds om = []).
  { destruct (s_tests_finished (d_sched d)).
    - destruct (trigger_quiet d ls dm om Els Ha) as (lsm & X1 & X2 & X3 & X4 & _). eauto.
    - unfold ret in Ha. inv Ha. exists ls. auto. }
  destruct A as (lsm & Elsm & Cm & Pm & Sm).
  assert (B : exists ls', d_sched d' = StL ls' /\ l_coll ls' = l_coll lsm /\ l_pending ls' = l_pending lsm /\ sent_inds on = []).
  { destruct (d_shouldstop dm).
    - destruct (trigger_quiet dm lsm d' on Elsm Hb) as (ls' & X1 & X2 & X3 & X4 & _). eauto.
    - unfold ret in Hb. inv Hb. exists lsm. auto. }
  destruct B as (ls' & Els' & C' & P' & S').
  exists ls'. split; [exact Els'|]. split; [congruence|]. split; [congruence|]. split; [|exact NE].
  rewrite sent_inds_app, Sm, S'. reflexivity.
Qed.

Theorem loop_ple n d ls d' o ls' W :
  DJ' N X0 d ls -> d_active d <> [] -> PRE' X0 (QErrorDown n) d ls -> d_requeue d = 0 ->
  d_loop_once (QErrorDown n) d = (d', o, Ok tt) -> d_sched d' = StL ls' ->
  Forall Q_ne o /\ l_coll ls' = l_coll ls /\
  Pw W (sent_inds o) + Pw W (l_pending ls') <= Pw W (l_pending ls) + Pw W (bk ls n).
Proof.
  intros DJd Hact Hpre Hrq H Els'. rewrite loop_once_unfold in H.
  apply LoadProofs.mbind_inv in H. destruct H as [(e & _ & F)|(d1 & o1 & [] & o2 & H1 & H2 & ->)]; [discriminate|].
  destruct (handle_heff _ _ Hpos _ _ _ _ _ _ DJd Hact Hpre H1) as (_ & ls1 & vo1 & E1).
  pose proof (he_dj' _ _ _ _ _ _ _ _ E1) as J1. pose proof J1 as [Els1 JJ1 _ _ _ _ _ _ _ _].
  destruct (errordown_pl _ _ _ _ _ _ W DJd Hpre Hrq H1 Els1) as (NE1 & C1 & PL1).
  destruct (loop_rest_quiet _ _ _ _ Els1 H2) as (ls2 & Els2 & C2 & P2 & S2 & NE2).
  assert (ls2 = ls') by congruence. subst ls2.
  split; [apply Forall_app; split; assumption|]. split; [congruence|].
  rewrite sent_inds_app, S2, app_nil_r, P2. exact PL1.
Qed.

(* ---- the potential ---- *)
Definition bootc (n : nat) : nat := SDC + wpot c n w_init.
Definition tokpot (W : nat) (ls : lstate) : nat := poolpotx c W ls + Pw W (books ls).
Definition Ex (d : dstate) : nat :=
  match d_sched d with
  | StL ls => Kx d * tokpot (Wd d) ls + sumf bootc (seq (d_next_gw d) (Rem d))
  | _ => 0
  end.
Definition Phi (s : sys) : nat := mux c s + Ex (y_d s).

Lemma tokpot_mono W' W ls : W' <= W -> tokpot W' ls <= tokpot W ls.
Proof. intros H. unfold tokpot. pose proof (poolpotx_mono W' W ls H). pose proof (Pw_mono W' W (books ls) H). lia. Qed.

(* all tokens (pool and books) never gain weight when no crash item is re-queued *)
Lemma tokpot_step ev d ls d' ls' vo W :
  HEFF' N X0 ev d ls d' ls' vo -> d_requeue d = 0 -> LJ' N X0 (d_next_gw d') ls' -> CBx c W ls ls' ->
  d_requeue d' = 0 /\ tokpot W ls' <= tokpot W ls.
Proof.
  intros E Hrq J' CB. destruct (he_tok' _ _ _ _ _ _ _ _ E Hrq) as (Hr1 & Mono & Pt).
  split; [exact Hr1|]. unfold tokpot, poolpotx.
  destruct (l_coll ls') as [coll|] eqn:Ec'.
  - specialize (Pt coll eq_refl).
    assert (TK : forall l, Pw W (tokens l) = Pw W (l_pending l) + Pw W (books l)) by (intros l; unfold tokens; apply sumf_app).
    destruct (l_coll ls) as [X|] eqn:Ec.
    + pose proof (sumf_perm (pcostx c W) _ _ Pt) as Z. rewrite sumf_app, !TK in Z. lia.
    + pose proof (sumf_perm (pcostx c W) _ _ Pt) as Z. rewrite sumf_app, TK in Z.
      pose proof (CB Ec coll Ec'). lia.
  - destruct (l_coll ls) as [X|] eqn:Ec; [specialize (Mono X eq_refl); congruence|].
    destruct (lj_i3' _ _ _ _ J' Ec') as (_ & B0). rewrite B0. cbn. lia.
Qed.

Lemma Ex_upd d ls n f' :
  d_sched d = StL ls ->
  Ex (d_set_nt d (aset n f' (d_nt d))) = Ex d /\ Kx (d_set_nt d (aset n f' (d_nt d))) = Kx d /\
  d_requeue (d_set_nt d (aset n f' (d_nt d))) = d_requeue d.
Proof.
  intros Els. split; [|split; reflexivity]. unfold Ex. rewrite (d_set_nt_sched d ls n f' Els), Els. reflexivity.
Qed.

(* every label but LCtl leaves the controller's part of the potential alone *)
Lemma nonctl_frame s l s' o w :
  XInv c s -> l <> LCtl -> sys_step c s l = Some (s', o, w) ->
  Ex (y_d s') = Ex (y_d s) /\ Kx (y_d s') = Kx (y_d s) /\ d_requeue (y_d s') = d_requeue (y_d s).
Proof.
  intros X Hl H. pose proof X as [_ _ (ls & DJd & _) _ Eu _ _ _]. pose proof DJd as ([Els _ _ _ _ _ _ _ _ _] & _).
  unfold sys_step in H. destruct (y_result s); [discriminate|].
  assert (CR : forall n, Ex (y_d (crash_worker c s n)) = Ex (y_d s) /\ Kx (y_d (crash_worker c s n)) = Kx (y_d s) /\
                         d_requeue (y_d (crash_worker c s n)) = d_requeue (y_d s)).
  { intros n. unfold crash_worker. cbn [y_d]. destruct (c_strict c); [|auto].
    destruct (aget n (d_nt (y_d s))); [|auto]. apply (Ex_upd _ ls). exact Els. }
  destruct l as [n0|n0|n0|n0| |n0]; [| | | |contradiction|].
  - destruct (mem_nat n0 (y_dead s)); [discriminate|].
    destruct (aget n0 (y_down s)) as [[|cmd rest]|]; try discriminate.
    destruct (aget n0 (y_w s)); try discriminate. injection H as <- <- <-. auto.
  - destruct (mem_nat n0 (y_dead s)); [discriminate|].
    destruct (aget n0 (y_w s)) as [w0|]; try discriminate.
    destruct (negb (wcb w0)); [discriminate|].
    destruct (recv_step (c_oracle c n0) w0). injection H as <- <- <-. auto.
  - destruct (mem_nat n0 (y_dead s)); [discriminate|].
    destruct (aget n0 (y_w s)) as [w0|]; try discriminate.
    destruct (dies_now c n0 w0); [injection H as <- <- <-; apply CR|].
    destruct (main_step (c_oracle c n0) w0) as [[w' evs]|]; [|discriminate]. injection H as <- <- <-. auto.
  - destruct (aget n0 (y_up s)) as [[|m rest]|] eqn:Eup; try discriminate. cbn [y_d] in H.
    destruct (process_from_remote n0 m (y_d s)) as [[d' outs] r] eqn:Ep.
    destruct (step_recv c Hpos s n0 m rest d' outs r X Eup Ep) as (-> & evs & -> & X2 & _ & _).
    cbn [apply_outs] in H. injection H as <- <- <-.
    pose proof (Eu n0) as En. rewrite (alist_get_some [] _ _ _ Eup) in En. inversion En as [|m1 r1 Gm Gr]; subst.
    assert (Hm : m <> UBad) by (intros ->; exact Gm).
    match goal with |- context [close_if_dead ?S2 n0] => set (s2 := S2) in * end.
    assert (A2 : Ex (y_d s2) = Ex (y_d s) /\ Kx (y_d s2) = Kx (y_d s) /\ d_requeue (y_d s2) = d_requeue (y_d s)).
    { cbn [s2 set_evq set_d y_d]. destruct (pfr_shape' _ _ _ _ _ _ Hm Ep) as [->|(f & Ef & ->)]; [auto|].
      apply (Ex_upd _ ls). exact Els. }
    assert (A3 : Ex (y_d (close_if_dead s2 n0)) = Ex (y_d s2) /\ Kx (y_d (close_if_dead s2 n0)) = Kx (y_d s2) /\
                 d_requeue (y_d (close_if_dead s2 n0)) = d_requeue (y_d s2)).
    { pose proof X2 as [_ _ (ls2 & DJ2 & _) _ _ _ _ _]. pose proof DJ2 as ([Els2 _ _ _ _ _ _ _ _ _] & _).
      unfold close_if_dead. destruct (mem_nat n0 (y_dead s2)); [|auto].
      destruct (aget n0 (d_nt (y_d s2))) as [f|]; [|auto]. destruct (n_down f); [|auto].
      cbn [set_d y_d]. apply (Ex_upd _ ls2). exact Els2. }
    destruct A2 as (B1 & B2 & B3). destruct A3 as (C1 & C2 & C3). split; [congruence|]. split; congruence.
  - destruct (mem_nat n0 (y_dead s)); [discriminate|].
    destruct (aget n0 (y_w s)) as [w0|]; try discriminate.
    destruct (wph w0); try discriminate; injection H as <- <- <-; apply CR.
Qed.

(* ---- LCtl, any event but errordown ---- *)
Lemma phi_ctl s ev q d' outs rr :
  XInv c s -> y_result s = None -> y_evq s = ev :: q -> (forall n, ev <> QErrorDown n) ->
  d_requeue (y_d s) = 0 -> d_loop_once ev (y_d s) = (d', outs, Ok tt) ->
  let s' := set_result (apply_outs (set_d (set_evq s q) d') outs) rr in
  Phi s' + 1 <= Phi s /\ d_requeue (y_d s') = 0 /\ d_max_restart (y_d s') = d_max_restart (y_d s).
Proof.
  intros X Eres Eevq Hne Hrq El. cbv zeta.
  destruct (mux_ctl c Hpos s ev q d' outs rr X Eres Eevq Hne El) as (Hmu & HK & Hmax). cbv zeta in Hmu, HK, Hmax.
  pose proof X as [Lo Hi (ls & DJd & NIs) Eq Eu Ea Er Edead]. specialize (Ea Eres).
  pose proof (pre_from_inv' c s ls ev q X DJd NIs Eevq) as Hpre.
  destruct (loop_once_ok' N X0 Hpos ev _ ls d' outs _ DJd Ea Hpre El) as (_ & ls' & vo & Eo & E & DJ2 & _ & _).
  pose proof DJ2 as ([Els' J' _ _ _ _ _ _ _ _] & _). pose proof DJd as ([Els J _ _ _ _ _ _ _ _] & _).
  set (W := Wd (y_d s)).
  assert (HW : d_next_gw (y_d s) <= W) by (unfold W, Wd; lia).
  destruct (loop_pl c Hpos ev _ ls d' outs ls' W DJd Ea Hpre Hne HW El Els') as (_ & _ & (Fg & Ffl & Fm & Fa) & CB).
  destruct (tokpot_step ev _ ls d' ls' vo W E Hrq J' CB) as (Hrq' & HT).
  destruct (apply_outs_frame outs (set_d (set_evq s q) d')) as (_ & F2 & _). cbn [set_d y_d] in F2.
  cbn [set_result y_d] in *. rewrite F2 in *.
  split; [|split; [exact Hrq'|exact Hmax]].
  unfold Phi. cbn [set_result y_d]. rewrite F2.
  assert (HE : Ex d' <= Ex (y_d s)).
  { unfold Ex. rewrite Els', Els.
    assert (EW : Wd d' = W) by (unfold W, Wd, Rem; rewrite Fg, Ffl, Fm; reflexivity).
    assert (ER : Rem d' = Rem (y_d s)) by (unfold Rem; rewrite Ffl, Fm; reflexivity).
    rewrite EW, ER, Fg. fold W.
    pose proof (Nat.mul_le_mono _ _ _ _ HK HT). lia. }
  lia.
Qed.

Lemma sumf_bk_le (f : nat -> nat) ls n : sumf f (bk ls n) <= sumf f (books ls).
Proof.
  unfold bk, alist_get, books. destruct (aget n (l_n2p ls)) as [b|] eqn:Eb; [|cbn; lia].
  destruct (aget_split _ _ _ _ Eb) as (pre & post & Hm & _). rewrite Hm, flat_map_app, sumf_app.
  cbn [flat_map snd]. rewrite sumf_app. lia.
Qed.

Lemma sumf_seq_prefix (f : nat -> nat) a k k' : k' <= k -> sumf f (seq a k') <= sumf f (seq a k).
Proof.
  intros H. replace k with (k' + (k - k')) by lia. rewrite seq_app, sumf_app. lia.
Qed.

(* ---- LCtl handling an errordown ---- *)
Lemma phi_ctl_err s n q d' outs rr :
  XInv c s -> y_result s = None -> y_evq s = QErrorDown n :: q ->
  d_max_restart (y_d s) <> None -> d_requeue (y_d s) = 0 ->
  d_loop_once (QErrorDown n) (y_d s) = (d', outs, Ok tt) ->
  let s' := set_result (apply_outs (set_d (set_evq s q) d') outs) rr in
  Phi s' + 1 <= Phi s /\ d_requeue (y_d s') = 0 /\ d_max_restart (y_d s') = d_max_restart (y_d s).
Proof.
  intros X Eres Eevq Hmr Hrq El. cbv zeta. pose proof X as [Lo Hi (ls & DJd & NIs) Eq Eu Ea Er Edead].
  specialize (Ea Eres).
  pose proof (pre_from_inv' c s ls _ q X DJd NIs Eevq) as Hpre.
  destruct (loop_once_ok' N X0 Hpos _ _ ls d' outs _ DJd Ea Hpre El) as (_ & ls' & vo & Eo & E & DJ2 & _ & _).
  pose proof DJ2 as ([Els' J' _ _ _ _ _ _ _ _] & _). pose proof DJd as ([Els J _ _ _ _ _ _ AL _] & _).
  set (G := d_next_gw (y_d s)) in *. set (W := Wd (y_d s)).
  assert (HW : G <= W) by (unfold W, Wd; fold G; lia).
  destruct (loop_K c Hpos n _ ls d' outs DJd Ea Hpre Hmr El) as (HK & HWd & Hmax). fold W in HWd.
  destruct (loop_ple n _ ls d' outs ls' W DJd Ea Hpre Hrq El Els') as (NE & Ecoll & PLe).
  assert (CB : CBx c W ls ls') by (intros E0 coll0 E1; congruence).
  destruct (tokpot_step _ _ ls d' ls' vo W E Hrq J' CB) as (Hrq' & HT).
  pose proof (loop_once_step _ _ _ _ _ El) as (_ & _ & _ & SP). fold G in SP.
  assert (SPW : (d_next_gw d' = G /\ forall id sp, ~ In (OHook (HSpawn id sp)) outs) \/
                (d_next_gw d' = S G /\ (exists sp, In (OHook (HSpawn G sp)) outs) /\
                 forall id sp, In (OHook (HSpawn id sp)) outs -> id = G)).
  { destruct SP as [(C0 & G0)|(C1 & G1 & _ & _ & sp & SPx)].
    - left. split; [exact G0|]. intros id sp Hin. pose proof (count_zero_notin _ _ _ C0 Hin) as F. discriminate.
    - right. split; [exact G1|]. split.
      + destruct (count_pos_in _ _ C1) as (x & Hx & Fx). exists sp. rewrite <- (SPx x Hx Fx). exact Hx.
      + intros id sp' Hin. specialize (SPx _ Hin eq_refl). inv SPx. reflexivity. }
  assert (SPID : forall id sp, In (OHook (HSpawn id sp)) outs -> id = G /\ d_next_gw d' = S G).
  { intros id sp Hin. destruct SPW as [(_ & F)|(A & _ & B)]; [exfalso; exact (F _ _ Hin)|]. split; [eapply B; eauto|exact A]. }
  assert (OUTG : forall m, G <= m -> cmds_to m outs = []).
  { intros m Hm. rewrite Eo, cmds_to_vfilter, (he_out' _ _ _ _ _ _ _ _ E m Hm). destruct (closedb (l_nt ls) m); reflexivity. }
  set (sA := set_d (set_evq s q) d').
  destruct (apply_outs_frame outs sA) as (F1 & F2 & F3). cbn [sA set_d set_evq y_evq y_d y_dead] in F1, F2, F3.
  assert (UP : forall k, alist_get [] k (y_up (apply_outs sA outs)) = alist_get [] k (y_up s)).
  { intros k. rewrite apply_outs_up; [reflexivity|]. intros id sp Hin. destruct (SPID _ _ Hin) as (-> & _).
    cbn [sA set_d set_evq y_up]. apply (Hi G). lia. }
  assert (DOWN : forall k, alist_get [] k (y_down (apply_outs sA outs)) =
            if mem_nat k (y_dead s) then alist_get [] k (y_down s) else alist_get [] k (y_down s) ++ cmds_to k outs).
  { intros k. rewrite apply_outs_down; [reflexivity|]. intros id sp Hin. destruct (SPID _ _ Hin) as (-> & _).
    split; [apply OUTG; lia|]. cbn [sA set_d set_evq y_down]. apply (Hi G). lia. }
  assert (WOLD : forall k, k < G -> aget k (y_w (apply_outs sA outs)) = aget k (y_w s)).
  { intros k Hk. rewrite apply_outs_w_none; [reflexivity|]. intros sp Hin. destruct (SPID _ _ Hin) as (-> & _). lia. }
  set (s1 := apply_outs sA outs) in *.
  cbn [set_result y_d]. rewrite F2. split; [|split; [exact Hrq'|exact Hmax]].
  (* the old nodes' shares *)
  set (extra := fun k => if mem_nat k (y_dead s) then 0 else dcost c k (cmds_to k outs)).
  assert (Enode : forall k, k < G -> nodepotx c (set_result s1 rr) k = nodepotx c s k + extra k).
  { intros k Hk. unfold nodepotx, extra. cbn [set_result y_up y_down y_w y_dead]. rewrite F3, UP, DOWN, (WOLD k Hk).
    destruct (mem_nat k (y_dead s)); [lia|]. unfold dcost. rewrite sumf_app. lia. }
  assert (Hnode : forall k, In k (seq 0 G) ->
            extra k + sdn ls' k <= sdn ls k + Pw W (flat_map cmd_inds (cmds_to k outs))).
  { intros k Hk. apply in_seq in Hk. assert (HkG : k < G) by lia.
    destruct (aget k (l_nt ls)) as [f|] eqn:Ef; [|exfalso; apply (proj2 (lj_ntk' _ _ _ _ J k) HkG); exact Ef].
    pose proof (he_nt' _ _ _ _ _ _ _ _ E k HkG) as R. rewrite Ef in R.
    destruct (aget k (l_nt ls')) as [f'|] eqn:Ef'; [|destruct R]. cbn in R.
    rewrite (sdn_some ls k f Ef), (sdn_some ls' k f' Ef').
    assert (CM : cmds_to k outs = if closedb (l_nt ls) k then [] else cmds_to k vo) by (rewrite Eo; apply cmds_to_vfilter).
    destruct (closedb (l_nt ls) k) eqn:Ecl.
    - unfold extra. rewrite CM. unfold dcost. cbn [flat_map]. rewrite !sumf_nil.
      destruct (NR_fields _ _ _ R) as (_ & _ & _ & Dsd & _).
      assert (Z : sdterm f' <= sdterm f).
      { unfold sdterm. destruct (n_sdsent f) eqn:Es; [|destruct (n_sdsent f'); unfold SDC; lia].
        rewrite (proj2 Dsd (or_introl eq_refl)). lia. }
      destruct (mem_nat k (y_dead s)); lia.
    - assert (NEk : Forall ne_cmd (cmds_to k outs)) by (apply ne_cmds_to; exact NE).
      rewrite CM in NEk |- *.
      pose proof (NR_costx c Hpos W k f _ f' ltac:(lia) R NEk) as Z.
      unfold extra. rewrite CM. destruct (mem_nat k (y_dead s)); lia. }
  assert (Hsum : sumf extra (seq 0 G) + sumf (sdn ls') (seq 0 G) <= sumf (sdn ls) (seq 0 G) + Pw W (sent_inds outs)).
  { rewrite <- !sumf_add.
    assert (CK : forall k, ~ In k (seq 0 G) -> cmds_to k outs = []).
    { intros k Hk. apply OUTG. destruct (Nat.lt_ge_cases k G) as [Hl|Hl]; [|exact Hl]. exfalso. apply Hk. apply in_seq. lia. }
    rewrite <- (sumf_perm (pcostx c W) _ _ (sent_perm' (seq 0 G) outs (seq_NoDup G 0) CK)).
    rewrite sumf_flat_map. rewrite <- sumf_add. apply sumf_le_in. exact Hnode. }
  assert (ESUM : sumf (nodepotx c (set_result s1 rr)) (seq 0 G) = sumf (nodepotx c s) (seq 0 G) + sumf extra (seq 0 G)).
  { rewrite <- sumf_add. apply sumf_ext_in. intros k Hk. apply in_seq in Hk. apply Enode. lia. }
  (* pool, tokens *)
  set (T := tokpot W ls) in *. set (T' := tokpot W ls') in *.
  assert (HP : Pw W (sent_inds outs) + poolpotx c W ls' <= T).
  { unfold T, tokpot, poolpotx. rewrite Ecoll. pose proof (sumf_bk_le (pcostx c W) ls n) as Z.
    destruct (l_coll ls) eqn:Ec; [lia|].
    destruct (lj_i3' _ _ _ _ J Ec) as (P0 & B0). rewrite P0, B0 in *. unfold bk, alist_get in PLe.
    assert (Z2 : Pw W (bk ls n) = 0).
    { pose proof (sumf_bk_le (pcostx c W) ls n) as Z3. rewrite B0 in Z3. cbn in Z3. lia. }
    unfold bk, alist_get in Z2. cbn in PLe. lia. }
  assert (HKT : Kx d' * tokpot (Wd d') ls' + T <= Kx (y_d s) * T).
  { pose proof (tokpot_mono (Wd d') W ls' HWd) as M0. fold T' in M0.
    assert (M1 : Kx d' * tokpot (Wd d') ls' <= (Kx (y_d s) - 1) * T) by (apply Nat.mul_le_mono; lia).
    assert (M2 : (Kx (y_d s) - 1) * T + T = Kx (y_d s) * T).
    { destruct (Kx (y_d s)) as [|k0]; [lia|]. cbn. rewrite Nat.sub_0_r. lia. }
    lia. }
  pose proof (poolpotx_mono (Wd d') W ls' HWd) as MP.
  unfold Phi, mux, ctlpotx, Ex. cbn [set_result y_d y_evq]. rewrite F1, F2, Els', Els, Eevq. cbn [length].
  fold G W T.
  destruct SPW as [(EG & _)|(EG & (sp & Hin) & _)]; rewrite EG.
  - (* no replacement *)
    assert (HR : Rem d' <= Rem (y_d s)) by (unfold Wd in HWd; unfold W, Wd in HWd; fold G in HWd; rewrite EG in HWd; lia).
    pose proof (sumf_seq_prefix bootc G _ _ HR) as HB.
    rewrite ESUM. lia.
  - (* a replacement worker G was started *)
    destruct (he_gw' _ _ _ _ _ _ _ _ E) as [Y|(_ & (f & Ef & (Hf1 & Hf2 & Hf3)) & Hina & Hnn & Hnc)]; [fold G in Y; lia|].
    fold G in Ef, Hina, Hnn, Hnc.
    assert (HR : S (Rem d') <= Rem (y_d s)) by (unfold W, Wd in HWd; fold G in HWd; rewrite EG in HWd; lia).
    assert (HB : SDC + wpot c G w_init + sumf bootc (seq (S G) (Rem d')) <= sumf bootc (seq G (Rem (y_d s)))).
    { destruct (Rem (y_d s)) as [|r0]; [lia|]. cbn [seq]. rewrite sumf_cons.
      pose proof (sumf_seq_prefix bootc (S G) r0 (Rem d') ltac:(lia)). change (bootc G) with (SDC + wpot c G w_init). lia. }
    rewrite !seq_S, !sumf_app, !sumf_cons, !sumf_nil. cbn [plus].
    assert (HdG : mem_nat G (y_dead s) = false).
    { apply mem_nat_false. intros Hin'. specialize (Edead _ Hin'). fold G in Edead. lia. }
    destruct (Hi G (le_n G)) as (_ & UG & DG).
    assert (EGn : nodepotx c (set_result s1 rr) G = wpot c G w_init).
    { unfold nodepotx. cbn [set_result y_up y_down y_w y_dead]. rewrite F3, UP, DOWN, HdG, UG, DG, (OUTG G (le_n G)).
      unfold s1. rewrite (apply_outs_spawned outs sA G) by (right; eauto). unfold dcost. cbn. lia. }
    assert (ESG : sdn ls' G = SDC) by (rewrite (sdn_some ls' G f Ef); unfold sdterm; rewrite Hf1; reflexivity).
    rewrite EGn, ESG, ESUM. lia.
Qed.

(* ---- every useful move and every crash makes Phi smaller ---- *)
Theorem step_phi s l s' o w :
  XInv c s -> d_max_restart (y_d s) <> None -> d_requeue (y_d s) = 0 -> ulabel s l ->
  sys_step c s l = Some (s', o, w) ->
  y_result s' <> None \/
  (d_max_restart (y_d s') = d_max_restart (y_d s) /\ d_requeue (y_d s') = 0 /\ Phi s' < Phi s).
Proof.
  intros X Hmr Hrq Hu H.
  destruct (label_eq_ctl l) as [->|Hl].
  - pose proof X as [_ _ _ _ _ Ea _ _].
    pose proof H as H0. unfold sys_step in H. destruct (y_result s) eqn:Eres; [discriminate|]. specialize (Ea eq_refl).
    destruct (d_active (y_d s)) as [|a0 ar] eqn:Eact; [contradiction|].
    destruct (y_evq s) as [|ev q] eqn:Eevq; [discriminate|].
    destruct (d_loop_once ev (y_d s)) as [[d' outs] r] eqn:El.
    destruct (step_ctl_core c Hpos s ev q d' outs r X Eres Eevq El) as (-> & _ & _).
    assert (CORE : forall rr,
      let s1 := set_result (apply_outs (set_d (set_evq s q) d') outs) rr in
      Phi s1 + 1 <= Phi s /\ d_requeue (y_d s1) = 0 /\ d_max_restart (y_d s1) = d_max_restart (y_d s)).
    { intros rr.
      assert (DEC : (exists n, ev = QErrorDown n) \/ (forall n, ev <> QErrorDown n)).
      { destruct ev; try (right; intros ? F; discriminate). left. eexists. reflexivity. }
      destruct DEC as [(n & ->)|Hne].
      - exact (phi_ctl_err s n q d' outs rr X Eres Eevq Hmr Hrq El).
      - exact (phi_ctl s ev q d' outs rr X Eres Eevq Hne Hrq El). }
    destruct (d_session_finished d').
    + injection H as <- _ _. left. cbn. destruct (d_shouldstop d'); discriminate.
    + destruct (d_active d') as [|b0 br].
      * left. destruct (d_no_active d') as [[d2 o2] r2]. injection H as <- _ _. cbn. discriminate.
      * assert (Er1 : y_result (apply_outs (set_d (set_evq s q) d') outs) = None).
        { rewrite apply_outs_result. cbn. exact Eres. }
        rewrite <- (set_result_same' _ None Er1) in H. injection H as <- _ _. right.
        destruct (CORE None) as (A & B & C0). cbv zeta in A, B, C0. split; [exact C0|]. split; [exact B|lia].
  - destruct (nonctl_frame s l s' o w X Hl H) as (FE & FK & FR0).
    destruct (step_lexx c Hpos s l s' o w X Hmr Hu H) as [A|(A & B)]; [left; exact A|right].
    split; [exact A|]. split; [congruence|].
    unfold Phi. rewrite FE. destruct B as [B|(_ & B)]; unfold meas in B; cbn [fst snd] in B; lia.
Qed.

End Bound.

Section MainB.
  Variable c : config.
  Hypothesis Hmode : c_mode c = MLoad.
  Hypothesis Hnogarbled : no_garbled c.
  Hypothesis Hnodes : 0 < c_numnodes c.
  Variable b : Z.
  Hypothesis Hbudget : c_max_restart c = Some b.
  Hypothesis Hrequeue : c_requeue c = 0.

  Lemma urun_bound : forall ls s,
    XInv c s -> d_max_restart (y_d s) <> None -> d_requeue (y_d s) = 0 ->
    urun c s ls -> length ls <= S (Phi c s).
  Proof.
    induction ls as [|l r IH]; intros s X Hm Hr H; [cbn; lia|].
    cbn [urun] in H. destruct H as (Hu & H).
    destruct (sys_step c s l) as [[[s' o] w]|] eqn:E; [|destruct H].
    destruct (step_phi c Hnodes s l s' o w X Hm Hr Hu E) as [Hres|(Hm' & Hr' & Hlt)].
    - pose proof (urun_ended c Hnodes s' r Hres H). cbn [length]. lia.
    - destruct (step_xinv c Hnogarbled Hnodes s l s' o w X E) as [X'|(R & _)].
      + assert (Hm2 : d_max_restart (y_d s') <> None) by congruence.
        specialize (IH s' X' Hm2 Hr' H). cbn [length]. lia.
      + assert (Hres : y_result s' <> None) by (rewrite R; discriminate).
        pose proof (urun_ended c Hnodes s' r Hres H). cbn [length]. lia.
  Qed.

  (* the re-queue counter stays at 0 *)
  Lemma requeue_run ls0 :
    y_result (sys_run c ls0) <> None \/ (XInv c (sys_run c ls0) /\ d_requeue (y_d (sys_run c ls0)) = 0).
  Proof.
    unfold sys_run.
    assert (G : forall s, y_result s <> None \/ (XInv c s /\ d_requeue (y_d s) = 0) ->
       let s' := fold_left (fun s l => match sys_step c s l with Some (s', _, _) => s' | None => s end) ls0 s in
       y_result s' <> None \/ (XInv c s' /\ d_requeue (y_d s') = 0)).
    { induction ls0 as [|l ls IH]; intros s Hs; cbn [fold_left]; [exact Hs|].
      apply IH. destruct (sys_step c s l) as [[[s' o] w]|] eqn:E; [|exact Hs].
      destruct Hs as [Hr|(X & Hr)].
      { exfalso. unfold sys_step in E. destruct (y_result s); [discriminate|]. apply Hr. reflexivity. }
      destruct (step_xinv c Hnogarbled Hnodes s l s' o w X E) as [X'|(R & _)]; [|left; rewrite R; discriminate].
      right. split; [exact X'|].
      destruct (label_eq_ctl l) as [->|Hl].
      - pose proof X as [_ _ (ls1 & DJd & NIs) _ _ Ea _ _].
        unfold sys_step in E. destruct (y_result s) eqn:Eres; [discriminate|]. specialize (Ea eq_refl).
        destruct (d_active (y_d s)) as [|a0 ar] eqn:Eact; [contradiction|].
        destruct (y_evq s) as [|ev q] eqn:Eevq; [discriminate|].
        destruct (d_loop_once ev (y_d s)) as [[d' outs] r] eqn:El.
        assert (Hact : d_active (y_d s) <> []) by (rewrite Eact; discriminate).
        pose proof (pre_from_inv' c s ls1 ev q X DJd NIs Eevq) as Hpre.
        destruct (loop_once_ok' _ _ Hnodes ev _ ls1 d' outs r DJd Hact Hpre El) as (-> & ls' & vo & _ & HE & _).
        destruct (he_tok' _ _ _ _ _ _ _ _ HE Hr) as (Hr1 & _).
        destruct (apply_outs_frame outs (set_d (set_evq s q) d')) as (_ & F2 & _). cbn [set_d y_d] in F2.
        destruct (d_session_finished d'); [injection E as <- _ _; cbn [set_result y_d]; rewrite F2; exact Hr1|].
        destruct (d_active d').
        + exfalso. destruct (d_no_active d') as [[d2 o2] r2]. injection E as <- _ _.
          pose proof X' as [_ _ _ _ _ _ Er' _]. apply (Er' ERuntimeNoWorkers). reflexivity.
        + injection E as <- _ _. rewrite F2. exact Hr1.
      - destruct (nonctl_frame c Hnodes s l s' o w X Hl E) as (_ & _ & FR0). congruence. }
    apply G. right. split; [apply XInv_init; assumption|exact Hrequeue].
  Qed.

  (* C02 with worker failures, termination with an explicit bound (no re-queued crash items): from a reachable
     state s, a run of useful moves and crashes is at most Phi c s + 1 long *)
  Theorem crash_c02_bound : forall ls0 ls,
    urun c (sys_run c ls0) ls -> length ls <= S (Phi c (sys_run c ls0)).
  Proof.
    intros ls0 ls H. destruct (requeue_run ls0) as [R|(X & Hr)].
    - pose proof (urun_ended c Hnodes _ ls R H). lia.
    - apply urun_bound; auto. rewrite (restart_frame c ls0), Hbudget. discriminate.
  Qed.

  Corollary crash_c02_bound_init : forall ls, urun c (sys_init c) ls -> length ls <= S (Phi c (sys_init c)).
  Proof. intros ls H. exact (crash_c02_bound [] ls H). Qed.
End MainB.

Check step_phi.
Print Assumptions step_phi.
Check crash_c02_bound.
Print Assumptions crash_c02_bound.
Check crash_c02_bound_init.

(* ====================================================================================== *)
(* Non-vacuity                                                                             *)
(* ====================================================================================== *)
Fixpoint meas_trace (c : config) (s : sys) (ls : list label) : list (nat * nat) :=
  match ls with
  | [] => [meas c s]
  | l :: r => meas c s :: match sys_step c s l with Some (s', _, _) => meas_trace c s' r | None => [] end
  end.
Definition lexltb (a b : nat * nat) : bool :=
  (fst a <? fst b) || ((fst a <=? fst b) && (snd a <? snd b)).
Fixpoint decreasing (l : list (nat * nat)) : bool :=
  match l with
  | a :: ((b :: _) as r) => lexltb b a && decreasing r
  | _ => true
  end.

(* (a) the session of CrashProgress.crp_ex_greedy_two_crashes (2 workers, 6 tests, budget 4; worker 0 killed
   before move 40, worker 1 dies entering test 3): the measure starts at (6, 2770) -- 2 active nodes + 4
   restarts -- and decreases lexicographically along all 129 moves.  The two places where the potential goes
   UP are the two controller iterations that handle an errordown: (6,118) -> (5,210) and (5,102) -> (4,194). *)
Example crt_ex_trace :
  let c := crx_cfg 6 crx_crash13 in
  let ls := crp_greedy c (sys_init c) 2000 0 [(40, 0)] in
  let tr := meas_trace c (sys_init c) ls in
  meas c (sys_init c) = (6, 2770) /\ length ls = 129 /\ decreasing tr = true /\
  filter (fun p => Nat.ltb (snd (fst p)) (snd (snd p))) (combine tr (tl tr)) =
    [((6, 118), (5, 210)); ((5, 102), (4, 194))].
Proof. vm_compute. repeat split. Qed.

(* (b) the theorems instantiated at the state right after the external crash *)
Example crt_ex_theorems_apply :
  let c := crx_cfg 6 crx_crash13 in
  (forall f, ~ inf_run c (sys_run c crp_after_crash) f) /\
  (exists B, forall ls, urun c (sys_run c crp_after_crash) ls -> length ls <= B).
Proof.
  cbv zeta. destruct (crx_hyps 6 crx_crash13) as (H1 & H2 & H3 & _). split.
  - intros f. apply (crash_c02_terminates _ H1 H2 H3 4%Z eq_refl).
  - apply (crash_c02_bounded _ H1 H2 H3 4%Z eq_refl).
Qed.
Print Assumptions crt_ex_theorems_apply.

(* (c) WITHOUT a restart budget (c_max_restart = None) every dead worker is replaced: one worker, and ten
   times in a row the (replacement) worker is killed before it boots, its end marker is read and its
   errordown handled.  The session has not ended, the group counter is at 11, Kx never moved: this can go on
   for ever -- termination needs the finite budget. *)
Definition crt_cfg_none : config :=
  {| c_mode := MLoad; c_numnodes := 1; c_chunk := None; c_maxfail := 0%Z; c_max_restart := None;
     c_requeue := 0; c_coll := fun _ => crx_names 4; c_oracle := fun _ => crx_oracle 4;
     c_dur := fun _ => 0%Z; c_crash_in := fun _ _ => false; c_strict := false; c_spec := fun _ => 0 |}.
Definition crt_kill_round (g : nat) : list label := [LCrash g; LRecv g; LCtl].
Example crt_ex_unbounded_restarts :
  let s := sys_run crt_cfg_none (flat_map crt_kill_round (seq 0 10)) in
  y_result s = None /\ d_next_gw (y_d s) = 11 /\ length (y_dead s) = 10 /\ d_active (y_d s) = [10] /\
  Kx (y_d s) = Kx (y_d (sys_init crt_cfg_none)).
Proof. vm_compute. repeat split. Qed.

(* (d) the explicit bound: for the session of (a) Phi starts at 19254 (the run takes 129 moves), and it goes down
   with every move of the run, errordown iterations included *)
Fixpoint phi_trace (c : config) (s : sys) (ls : list label) : list nat :=
  match ls with
  | [] => [Phi c s]
  | l :: r => Phi c s :: match sys_step c s l with Some (s', _, _) => phi_trace c s' r | None => [] end
  end.
Fixpoint strictly_dec (l : list nat) : bool :=
  match l with a :: ((b :: _) as r) => (b <? a) && strictly_dec r | _ => true end.
Example crt_ex_phi :
  let c := crx_cfg 6 crx_crash13 in
  let ls := crp_greedy c (sys_init c) 2000 0 [(40, 0)] in
  Phi c (sys_init c) = 19 * 1000 + 254 /\ mux c (sys_init c) = 2770 /\ length ls = 129 /\
  strictly_dec (phi_trace c (sys_init c) ls) = true /\
  (forall ls', urun c (sys_init c) ls' -> length ls' <= 19 * 1000 + 255).
Proof.
  cbv zeta. split; [vm_compute; reflexivity|]. split; [vm_compute; reflexivity|]. split; [vm_compute; reflexivity|].
  split; [vm_compute; reflexivity|].
  intros ls' H. destruct (crx_hyps 6 crx_crash13) as (H1 & H2 & H3 & _).
  pose proof (crash_c02_bound_init _ H1 H2 H3 4%Z eq_refl eq_refl ls' H) as Z.
  assert (E : S (Phi (crx_cfg 6 crx_crash13) (sys_init (crx_cfg 6 crx_crash13))) = 19 * 1000 + 255) by (vm_compute; reflexivity).
  rewrite E in Z. exact Z.
Qed.
Print Assumptions crt_ex_phi.
