(* SystemGaps3b.v — C09 "whoever is sent tests is registered", part 2: the controller loop.

   For one iteration of the controller loop (d_loop_once), the no-active-worker turn and the
   receiver thread: every work command in the outputs goes to a node registered with the scheduler
   in the controller state right after.  Precondition [DPre] on the controller state at the start:
     worksteal / scope family : none
     each : EInv (scheduler invariant)
     load : LK (scheduler invariant) and -- while the session is not shutting down -- at most
            numnodes known nodes. *)
From XV Require Import Base Worker Ctl SchedLoad SchedSteal SchedScope SchedEach Sched DSession System
  NoHook DSessionProofs ShutdownOnce StopProofs FifoProofs SystemCorollaries SystemCorollariesColl SystemGaps3a.
From XV Require CollectionProofs.
Open Scope nat_scope.

Definition regd (d : dstate) : amap (list string) := s_registered (d_sched d).
Notation MrD := (Mr regd).
Notation WrD := (Wr regd).

Definition DPre (d : dstate) : Prop :=
  match d_sched d with
  | StL s => LK s /\ (d_shuttingdown d = false -> length (l_nodes s) <= l_numnodes s)
  | StE s => EInv s
  | _ => True
  end.

Lemma mrd_sched_op op d0 : is_remove op = false -> SPre (d_sched d0) op -> from MrD d0 (d_sched_op op).
Proof.
  intros Hr Hp d' o r H. unfold d_sched_op in H. destruct (s_step (d_sched d0) op) as [[st o1] r1] eqn:E.
  inversion H; subst. pose proof (s_step_work _ _ _ _ _ E Hp) as X. rewrite Hr in X. exact X.
Qed.
Lemma wd_sched_remove n d0 : from WrD d0 (d_sched_op (SRemove n)).
Proof.
  intros d' o r H. unfold d_sched_op in H. destruct (s_step (d_sched d0) (SRemove n)) as [[st o1] r1] eqn:E.
  inversion H; subst. exact (s_step_work _ _ _ _ _ E I).
Qed.
Lemma regd_set_nt d v : regd (d_set_nt d v) = regd d.
Proof. unfold regd, d_set_nt. cbn [d_sched d_set_sched]. apply s_registered_set_nt. Qed.
Lemma mrd_node_shutdown n d0 : from MrD d0 (d_node_shutdown n).
Proof. apply mr_node_shutdown. apply regd_set_nt. Qed.

Create HintDb mrddb.
#[export] Hint Resolve mrd_node_shutdown : mrddb.
#[export] Hint Extern 1 (from _ _ (d_sched_op _)) => (apply mrd_sched_op; [reflexivity | exact I]) : mrddb.
Ltac mrd1 :=
  first
    [ apply f_ret; rr | apply f_raise; rr | apply f_massert; rr | apply f_of_opt; rr
    | apply f_getv; rr
    | apply f_put; first [mr_put | split; [intros ? ? [] | intros ?; rewrite regd_set_nt; auto]]
    | apply f_emit; mr_emit
    | apply f_mfor; [rr | rr | intros ? ?]
    | match goal with
      | |- from _ _ (mbind get _) => apply f_get
      | |- from _ _ (mbind (ret _) _) => apply f_ret_bind
      | |- from _ _ (mbind (of_opt _ _) _) => apply f_of_opt_bind; [rr | intros ? ?]
      | |- from _ _ (mbind (massert _) _) => apply f_massert_bind; [rr | intros ?]
      | |- from _ _ (mbind _ _) => apply f_bind; [rr | | intros ? ?]
      end
    | progress cbv zeta
    | match goal with
      | |- from _ _ (match ?x with _ => _ end) => destruct x eqn:?
      | |- from _ _ (let '(_, _) := ?x in _) => destruct x eqn:?
      end
    | solve [eauto with mrddb] ].
Ltac mrd := repeat mrd1.

Lemma mrd_triggershutdown d0 : from MrD d0 d_triggershutdown.
Proof. unfold d_triggershutdown. mrd. Qed.
#[export] Hint Resolve mrd_triggershutdown : mrddb.
Lemma mrd_active_remove n d0 : from MrD d0 (d_active_remove n).
Proof. unfold d_active_remove. mrd. Qed.
#[export] Hint Resolve mrd_active_remove : mrddb.
Lemma mrd_handlefailures f d0 : from MrD d0 (d_handlefailures f).
Proof. unfold d_handlefailures. mrd. Qed.
#[export] Hint Resolve mrd_handlefailures : mrddb.
Lemma mrd_handle_crashitem item n d0 : from MrD d0 (d_handle_crashitem item n).
Proof. unfold d_handle_crashitem, hook. mrd. Qed.
#[export] Hint Resolve mrd_handle_crashitem : mrddb.
Lemma mrd_clone n d0 : from MrD d0 (d_clone_node n).
Proof. unfold d_clone_node, hook. mrd. Qed.
#[export] Hint Resolve mrd_clone : mrddb.

(* the try: remove_node / else: handle_crashitem block: the registration of n may disappear, then
   the re-dispatch (remove_node itself, then mark_test_pending) only reaches registered nodes *)
Lemma wd_try_block n d0 : from WrD d0 (try_block n).
Proof.
  intros d' o r H. unfold try_block in H.
  destruct (d_sched_op (SRemove n) d0) as [[d1 o1] r1] eqn:E1.
  pose proof (wd_sched_remove n d0 _ _ _ E1) as R1.
  destruct r1 as [[item|]|e].
  - destruct (d_handle_crashitem item n d1) as [[d2 o2] r2] eqn:E2. inversion H; subst.
    eapply Wr_Mr; [exact R1|exact (mrd_handle_crashitem _ _ _ _ _ _ E2)].
  - inversion H; subst. exact R1.
  - destruct e; inversion H; subst; exact R1.
Qed.

Lemma nw_hook h d0 : from (@NWr dstate) d0 (hook h).
Proof. unfold hook. apply f_emit. intros n cm [X|[]]. discriminate. Qed.

(* triggershutdown sends shutdown commands only *)
Lemma nw_triggershutdown d0 : from (@NWr dstate) d0 d_triggershutdown.
Proof.
  unfold d_triggershutdown. apply f_get. destruct (d_shuttingdown d0); [apply f_ret; rr|].
  apply f_bind; [rr|apply f_put; intros k cm []|]. intros _ d1.
  apply f_mfor; [rr|rr|]. intros n. apply nw_node_shutdown.
Qed.

Lemma wd_errordown n d0 : from WrD d0 (d_worker_errordown n).
Proof.
  rewrite errordown_unfold. apply nw_then_w; [apply nw_hook|]. intros _ d1.
  apply w_then_m; [apply wd_try_block|]. intros _ d2. unfold hook. mrd.
Qed.

Lemma wd_workerfinished n sk d0 : from WrD d0 (d_worker_workerfinished n sk).
Proof.
  unfold d_worker_workerfinished. apply nw_then_w; [apply nw_hook|]. intros _ d1. destruct sk.
  - apply f_get. apply w_then_m; [|intros; mrd].
    destruct (mem_nat n (s_nodes (d_sched d1))); [|apply f_ret; exact (Wr_refl _)].
    apply w_then_m; [apply wd_sched_remove|]. intros; mrd.
  - apply m_to_w. mrd.
  - apply nw_then_w; [apply f_get; apply f_put; intros k cm []|]. intros _ d2.
    apply nw_then_w; [apply nw_triggershutdown|intros; apply wd_errordown].
Qed.

(* ---- the collectionfinish turn: add_node_collection, then schedule() when collection is completed ---- *)
Lemma collfinish_pre d n ids d1 o1 a :
  DPre d -> d_shuttingdown d = false -> d_sched_op (SAddColl n ids) d = (d1, o1, Ok a) ->
  s_collection_is_completed (d_sched d1) = true -> SPre (d_sched d1) SSchedule.
Proof.
  intros Hp Hsd H Hc. unfold d_sched_op in H.
  destruct (s_step (d_sched d) (SAddColl n ids)) as [[st oo] rr] eqn:E. inversion H; subst. clear H.
  cbn [d_sched d_set_sched] in *. unfold DPre in Hp.
  pose proof (s_step_sinv _ _ _ _ _ E) as SI.
  destruct (d_sched d) as [s|s|s|s] eqn:Es; cbn [s_step] in E.
  - unfold lift in E. destruct (l_add_node_collection n ids s) as [[s1 o2] r2] eqn:E1. injection E as <- <- Er.
    cbn [SPre s_collection_is_completed] in *. destruct Hp as ((NDn & ND & HI) & CNT).
    destruct (l_add_coll_eff _ _ _ _ _ _ E1) as (A1 & A2 & A3 & A4 & A5).
    intros Hnone k Hk. rewrite A3 in Hnone.
    destruct (l_collection_is_completed s) eqn:Ecs.
    { destruct (A4 eq_refl Hnone) as (e & He). rewrite He in Er. discriminate. }
    destruct A5 as [A5|(Hn & A5 & _)].
    { unfold l_collection_is_completed in *. rewrite A2, A5 in Hc. congruence. }
    apply g3_ahas_keys. rewrite A5. unfold l_nodes in *. rewrite A1 in Hk.
    assert (INC : incl (akeys (aset n ids (l_n2c s))) (akeys (l_n2p s))).
    { intros x Hx. apply g3_akeys_aset_cases in Hx. destruct Hx as [->|Hx]; [exact Hn|apply HI; [reflexivity|exact Hx]]. }
    refine (NoDup_length_incl _ _ INC k Hk); [apply g3_akeys_aset_nodup; exact ND|].
    specialize (CNT Hsd). unfold l_collection_is_completed in Hc. rewrite A2, A5 in Hc. apply Nat.leb_le in Hc.
    rewrite (g3_akeys_length (aset n ids (l_n2c s))). lia.
  - inversion E; subst. destruct (lift_wrap _ _ _ _ _ _ E) as (x & ->). exact I.
  - destruct (lift_wrap _ _ _ _ _ _ E) as (x & ->). exact I.
  - destruct (lift_wrap _ _ _ _ _ _ E) as (x & Ex). subst st. cbn [SPre]. apply SI. exact Hp.
Qed.

Lemma f_bind_res {S A B} (R : S -> S -> list out -> Prop) s0 (m : M S A) (f : A -> M S B) :
  rtrans R -> from R s0 m -> (forall a s1 o1, m s0 = (s1, o1, Ok a) -> from R s1 (f a)) -> from R s0 (mbind m f).
Proof.
  intros Rt Hm Hf s' o r H. unfold mbind in H.
  destruct (m s0) as [[s1 o1] r1] eqn:E1. specialize (Hm _ _ _ E1).
  destruct r1 as [a|e].
  - destruct (f a s1) as [[s2 o2] r2] eqn:E2. inversion H; subst.
    eapply Rt; [exact Hm|]. exact (Hf a s1 o1 eq_refl _ _ _ E2).
  - inversion H; subst. exact Hm.
Qed.

Lemma mrd_collfinish n ids d0 : DPre d0 -> from MrD d0 (d_handle (QCollFinish n ids)).
Proof.
  intros Hp. cbn [d_handle]. apply f_get. destruct (d_shuttingdown d0) eqn:Hsd; [mrd|].
  destruct (negb (mem_nat n (s_nodes (d_sched d0)))); [mrd|].
  apply f_bind_same; [rr| |unfold hook; mrd|].
  { intros s' o r H. unfold hook, emit in H. inversion H. reflexivity. }
  intros _. apply f_bind_res; [rr|apply mrd_sched_op; [reflexivity|exact I]|].
  intros a d1 o1 E1. apply f_get.
  destruct (s_collection_is_completed (d_sched d1)) eqn:Ec; [|mrd].
  apply f_bind; [rr| |intros; mrd]. apply mrd_sched_op; [reflexivity|].
  eapply collfinish_pre; eassumption.
Qed.

Lemma wd_handle ev d0 : DPre d0 -> from WrD d0 (d_handle ev).
Proof.
  intros Hp.
  destruct ev as [n|n ids|n key fl|n i|n i|n i k oc|n i ms|n ixs| |n|n sk|n];
    try (apply m_to_w; cbn [d_handle]; unfold hook; mrd; fail).
  - apply m_to_w. apply mrd_collfinish. exact Hp.
  - cbn [d_handle]. apply wd_workerfinished.
  - cbn [d_handle]. apply wd_errordown.
Qed.

(* ---- one iteration of the controller loop ---- *)
Theorem loop_once_work ev d d' o r :
  DPre d -> d_loop_once ev d = (d', o, r) ->
  forall n cm, In (OSend n cm) o -> is_workcmd cm = true -> ahas n (regd d') = true.
Proof.
  intros Hp H.
  assert (X : from WrD d (d_loop_once ev)).
  { unfold d_loop_once. apply w_then_m; [apply wd_handle; exact Hp|]. intros _ d1. mrd. }
  exact (X _ _ _ H).
Qed.
Lemma mrd_no_active d0 : from MrD d0 d_no_active.
Proof. unfold d_no_active. mrd. Qed.
Lemma mrd_process_from_remote n m d0 : from MrD d0 (process_from_remote n m).
Proof.
  unfold process_from_remote. apply f_get. apply f_of_opt_bind; [rr|]. intros f Hf. cbv zeta.
  destruct m as [e|ids|sk|i ms|[|]| | |]; try destruct e; mrd.
Qed.
Print Assumptions loop_once_work.
