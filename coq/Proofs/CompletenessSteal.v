(* CompletenessSteal.v: conservation (no index is ever lost, withdrawals in flight included) and
   exactly-once at the end of a finished session, for --dist worksteal; non-vacuity examples and the
   counterexample for the hypothesis no_stop. *)
From XV Require Import Base Worker Ctl SchedLoad SchedSteal SchedScope SchedEach Sched DSession System
  NoHook DSessionProofs WorkerProofs StealProofs LoadProofs FifoProofs ExactlyOnce Coupling ExactlyOnceSteal
  CouplingSteal.
From Coq Require Import Permutation.
Open Scope nat_scope.


(* a worker that has exited on the shutdown marker, with nothing of it in flight, holds exactly the
   tests it started *)
Lemma NIW_exited_tokens ws act n dn w :
  NIW ws act n [] dn w -> WInv w -> wph w = PExited ->
  flat_map cmd_inds dn ++ w_tokens_ws w = map (fun r => snd (fst r)) (wran w).
Proof.
  intros [(f & Ef & Mk) Cp Ch Nd Nc Ac Fx Ns Wx Cb St Nbk Ord] I Hp.
  assert (MP : markpopped w) by (apply Fx; left; exact Hp).
  destruct (markpopped_empty _ _ _ MP Mk) as (Eq & Er & Erep & Ei & Ed & _).
  destruct (cmd_marks_nil _ Ei) as (Ei1 & _). destruct (cmd_marks_nil _ Ed) as (Ed1 & _).
  destruct MP as (pre & t & Ep).
  pose proof (inv_phase w I) as E. unfold phase_inv in E. rewrite Hp in E.
  destruct E as (pre0 & lst & Ep0 & Hn & Eran).
  rewrite Ep in Ep0. apply app_inj_tail in Ep0. destruct Ep0 as (<- & <-).
  unfold w_tokens_ws, w_tokens. rewrite Ed1, Ei1, Er, Eq, Erep. cbn [item_inds flat_map app reply_inds ents_idx].
  rewrite app_nil_r.
  rewrite Eran, Ep, <- ents_idx_map_ent, pairs_ents by exact Hn.
  rewrite ents_idx_app. cbn. apply app_nil_r.
Qed.

Lemma evq_inds_nil c q :
  Forall (ok_ev3w c) q -> (forall n, n < c_numnodes c -> evq_xsigs n q = []) -> flat_map ev_inds q = [].
Proof.
  intros Hq. induction Hq as [|ev q (_ & Hev) Hq IH]; intros H; [reflexivity|].
  cbn [flat_map]. rewrite IH.
  - rewrite app_nil_r. destruct ev; try reflexivity. cbn in Hev.
    specialize (H n Hev). cbn [evq_xsigs flat_map] in H. unfold ev_xsigs_for in H. cbn [ev_xsig] in H.
    rewrite Nat.eqb_refl in H. discriminate.
  - intros n Hn. specialize (H n Hn). cbn [evq_xsigs flat_map] in H. apply app_eq_nil in H. tauto.
Qed.

Section CompletenessW.
  Variable c : config.
  Variable ls : list label.
  Hypothesis Hmode : c_mode c = MSteal.
  Hypothesis Hnocrash : forall n i, c_crash_in c n i = false.
  Hypothesis Hnogarbled : no_garbled c.
  Hypothesis Hids : forall n, ~ In ""%string (c_coll c n).
  Hypothesis Hsched : Forall no_crash_label ls.
  Hypothesis Hnodes : 0 < c_numnodes c.

  Let s := sys_run c ls.

  (* conservation: from the initial distribution on, the pool, the wires in both directions (steal
     replies on their way back included) and the workers hold every index of the collection exactly
     once: tokens are neither duplicated nor lost -- as long as no worker's own session has stopped *)
  Theorem conservation_unstopped_ws : (forall n, unstopped c s n) -> forall wss coll,
    d_sched (y_d s) = StW wss -> ws_coll wss = Some coll ->
    Permutation (places_ws s) (seq 0 (length coll)).
  Proof.
    intros Hu wss coll Els Ec. destruct (run_cinvg c ls Hmode Hnocrash Hnogarbled Hids Hsched Hnodes) as (P & CI).
    fold s in CI. unfold places_ws, pool_ws. rewrite Els. apply (cw_perm _ _ _ CI); [|exact Els|exact Ec].
    intros n. eapply unstopped_normal; eauto.
  Qed.

  Theorem conservation_ws : no_stop c -> forall wss coll,
    d_sched (y_d s) = StW wss -> ws_coll wss = Some coll ->
    Permutation (places_ws s) (seq 0 (length coll)).
  Proof. intros Hns. apply conservation_unstopped_ws. intros n. apply no_stop_unstopped. exact Hns. Qed.

  (* exactly once at the end: when the workers agree on the collection and the session ends as
     "finished", every collected test was started exactly once.  (A session in which a worker's own
     session stopped ends as "interrupted".) *)
  Hypothesis Hagree : forall n, n < c_numnodes c -> c_coll c n = c_coll c 0.

  Theorem finished_all_started_ws :
    y_result s = Some RFinished ->
    Permutation (started s) (seq 0 (length (c_coll c 0))).
  Proof.
    intros Hfin. destruct (run_cinvg c ls Hmode Hnocrash Hnogarbled Hids Hsched Hnodes) as (P & CI). fold s in CI.
    destruct CI as [Inv Ek (wss & (J0 & Jss) & NIs) Eq Eu Edn Ea Er Epm Efn Edw Ecl Eef Est Epo].
    destruct (Efn Hfin) as (Hsf & Hss).
    unfold d_session_finished in Hsf. apply andb_true_iff in Hsf. destruct Hsf as (Hsd & Hact).
    assert (Eact : d_active (y_d s) = []) by (destruct (d_active (y_d s)); [reflexivity|discriminate]).
    assert (HP : forall n, P n = false).
    { intros n. destruct (P n) eqn:EP; [|reflexivity]. exfalso. destruct (Est n EP) as [X|X]; [rewrite Eact in X; destruct X|congruence]. }
    destruct J0 as [Els J Jb Jq Jg Jf].
    destruct (Jg Hsd) as [F|(Hc & Hp & _)]; [congruence|].
    destruct (wj_lg _ _ _ J) as (G1 & G3).
    assert (Ecoll : ws_coll wss = Some (c_coll c 0)).
    { apply G3; [|exact Hc]. intros k ids Hin. rewrite (G1 k ids Hin). apply Hagree.
      apply (wj_n2c _ _ _ J). unfold akeys. change k with (fst (k, ids)). apply in_map. exact Hin. }
    pose proof (Epm HP wss _ Els Ecoll) as Pm. rewrite Hp in Pm. cbn [app] in Pm.
    rewrite <- Pm. destruct Inv as [A B C0 D E E' F G].
    assert (Hsig : forall n, n < c_numnodes c -> xsigs s n = [] /\ exists w, aget n (y_w s) = Some w /\ wph w = PExited).
    { intros n Hn. destruct (worker_knownw c s n Ek Hn) as (w & Ew).
      pose proof (NIs n w Ew) as X. unfold NInvG in X. rewrite (HP n), Eact in X.
      assert (Hni : ~ In n (@nil nat)) by (intros []).
      destruct (nw_act _ _ _ _ _ _ X Hni) as (Es & Ep). split; [exact Es|]. exists w. auto. }
    assert (Eevq : evq_inds s = []).
    { unfold evq_inds. apply (evq_inds_nil c); [exact Eq|]. intros n Hn. destruct (Hsig n Hn) as (Es & _).
      unfold xsigs in Es. apply app_eq_nil in Es. tauto. }
    unfold wires_ws. rewrite Eevq, app_nil_r.
    rewrite (started_keys s B). unfold nodes_ws.
    rewrite (flat_map_ext_in _ (node_tokens_ws s) (akeys (y_w s))); [reflexivity|].
    intros k Hk. assert (HkN : k < c_numnodes c) by (rewrite Ek in Hk; apply in_seq in Hk; lia).
    destruct (Hsig k HkN) as (Es & w & Ew & Ep). unfold node_tokens_ws. rewrite Ew.
    pose proof (NIs k w Ew) as X. unfold NInvG in X. rewrite (HP k), Es in X.
    destruct (G k w Ew) as (Iw & _).
    assert (Eup : flat_map up_inds (alist_get [] k (y_up s)) = []).
    { apply up_xsigs_nil_inds. unfold xsigs in Es. apply app_eq_nil in Es. tauto. }
    rewrite Eup, app_nil_r. symmetry. eapply NIW_exited_tokens; eauto.
  Qed.
End CompletenessW.

Print Assumptions conservation_unstopped_ws.
Print Assumptions conservation_ws.
Print Assumptions finished_all_started_ws.
Check conservation_unstopped_ws.
Check conservation_ws.
Check finished_all_started_ws.


(* ====================================================================================== *)
(* Non-vacuity: the session of ExactlyOnceSteal.v (worksteal, 3 workers, 12 tests), continued *)
(* to its end                                                                              *)
(* ====================================================================================== *)
(* the parts of the coupling for node n: book; completions in flight; what the worker owes (taken and
   not completed ++ queue ++ command being unpacked ++ inbox); CRun indices on the wire down; indices
   on their way back; number of steal requests in flight for n; steal_requested_from_node *)
Definition cst_parts (s : sys) (n : nat) :=
  (bookw s n, xcompletes (xsigs s n),
   match aget n (y_w s) with Some w => owed_w w | None => [] end,
   flat_map cmd_inds (alist_get [] n (y_down s)), backw s n, stealreq s n, steal_of s).

(* (a) the steal request for worker 1 has been answered with [6; 7]; the reply is on worker 1's wire
   up.  6 and 7 are still in worker 1's book, next to 4 5 which it still owes; exactly one request
   is in flight, on the node the marker names *)
Example cst_ex_reply_in_flight :
  map (cst_parts (sys_run c01w_cfg c01w_sched_inflight)) [0; 1; 2] =
  [([3], [], [3], [], [], 0, Some 1);
   ([4; 5; 6; 7], [], [4; 5], [], [6; 7], 1, Some 1);
   ([8; 9; 10; 11], [], [], [8; 9; 10; 11], [], 0, Some 1)].
Proof. vm_compute. reflexivity. Qed.

(* (b) the same one step earlier (the reply is computed but not yet sent) and one step later (it is
   an event in the controller's queue): the parts do not change *)
Example cst_ex_reply_stages :
  map (cst_parts (sys_run c01w_cfg c01w_sched_stolen)) [0; 1; 2] =
  map (cst_parts (sys_run c01w_cfg c01w_sched_inflight)) [0; 1; 2] /\
  map (cst_parts (sys_run c01w_cfg c01w_sched_event)) [0; 1; 2] =
  map (cst_parts (sys_run c01w_cfg c01w_sched_inflight)) [0; 1; 2].
Proof. vm_compute. split; reflexivity. Qed.

(* (c) the whole session: the stolen tests 6 and 7 are run by worker 0 (after its own test 3), the
   session ends as "finished", every test was started exactly once *)
Definition cst_rr3 : list label :=
  flat_map (fun n => [LMain n; LRecvW n; LDeliver n; LRecv n; LCtl]) (seq 0 3).
Definition cst_full : list label := c01w_sched_started ++ c01_rep 40 cst_rr3.
Example cst_ex_finished :
  let s := sys_run c01w_cfg cst_full in
  y_result s = Some RFinished /\ started s = [0; 1; 2; 3; 6; 7; 4; 5; 10; 8; 9; 11].
Proof. vm_compute. split; reflexivity. Qed.

Lemma c01w_cfg_hyps :
  c_mode c01w_cfg = MSteal /\ (forall n i, c_crash_in c01w_cfg n i = false) /\ no_garbled c01w_cfg /\
  (forall n, ~ In ""%string (c_coll c01w_cfg n)) /\ 0 < c_numnodes c01w_cfg /\ no_stop c01w_cfg /\
  (forall n, n < c_numnodes c01w_cfg -> c_coll c01w_cfg n = c_coll c01w_cfg 0).
Proof.
  split; [reflexivity|]. split; [reflexivity|]. split.
  { intros n i H. cbn in H. destruct H as [H|[]]. discriminate. }
  split.
  { intros n H. cbn in H. repeat (destruct H as [H|H]; [discriminate|]). exact H. }
  split; [cbn; lia|]. split; [intros n i; reflexivity|]. intros n _. reflexivity.
Qed.

(* the hypotheses of all the theorems hold of that session, in the state with the reply in flight
   and at the end *)
Example cst_ex_theorems_apply :
  let s1 := sys_run c01w_cfg c01w_sched_inflight in
  let s2 := sys_run c01w_cfg cst_full in
  CoupledW s1 /\ CoupledOrd s1 /\ StealOne s1 /\ NoDup (places_ws s1) /\ Permutation (places_ws s1) (seq 0 12) /\
  CoupledW s2 /\ (forall e, y_result s2 <> Some (RError e)) /\ Permutation (started s2) (seq 0 12).
Proof.
  cbv zeta. destruct c01w_cfg_hyps as (H1 & H2 & H3 & H4 & H5 & H6 & H7).
  assert (L1 : Forall no_crash_label c01w_sched_inflight) by (vm_compute; repeat constructor).
  assert (L2 : Forall no_crash_label cst_full) by (vm_compute; repeat constructor).
  split; [apply coupling_invariant_ws; assumption|].
  split; [apply coupling_ordered_ws; assumption|].
  split; [apply steal_request_unique; assumption|].
  split; [apply c01_ws_places_nodup_always; assumption|].
  split.
  { assert (E : exists wss, d_sched (y_d (sys_run c01w_cfg c01w_sched_inflight)) = StW wss /\
                            ws_coll wss = Some (c_coll c01w_cfg 0)).
    { vm_compute. eexists. split; reflexivity. }
    destruct E as (wss & E1 & E2). change 12 with (length (c_coll c01w_cfg 0)).
    exact (conservation_ws c01w_cfg c01w_sched_inflight H1 H2 H3 H4 L1 H5 H6 wss _ E1 E2). }
  split; [apply coupling_invariant_ws; assumption|].
  split; [apply controller_never_raises_ws; assumption|].
  apply (finished_all_started_ws c01w_cfg cst_full H1 H2 H3 H4 L2 H5 H7). exact (proj1 cst_ex_finished).
Qed.
Print Assumptions cst_ex_theorems_apply.


(* (d) the step in which the steal request is issued: worker 1's book is [4; 5; 6; 7], the request
   names its tail [6; 7] and leaves [4; 5] *)
Definition cst_before_request : list label :=
  c01w_dist ++ [LDeliver 0; LDeliver 1] ++ c01_rep 5 [LRecvW 0] ++ c01_rep 5 [LRecvW 1] ++
  c01_rep 18 [LMain 0] ++ c01_rep 12 [LRecv 0] ++ c01_rep 11 [LCtl].
Example cst_ex_request_step :
  exists s' w, sys_step c01w_cfg (sys_run c01w_cfg cst_before_request) LCtl = Some (s', [OSend 1 (CSteal [6; 7])], w) /\
               bookw s' 1 = [4; 5] ++ [6; 7].
Proof. vm_compute. eexists. eexists. split; reflexivity. Qed.

Example cst_ex_tail_applies :
  forall s' o w, sys_step c01w_cfg (sys_run c01w_cfg cst_before_request) LCtl = Some (s', o, w) ->
  forall v ixs, In (OSend v (CSteal ixs)) o ->
  exists keep, bookw s' v = keep ++ ixs /\ 2 <= length keep /\ ixs <> [].
Proof.
  destruct c01w_cfg_hyps as (H1 & H2 & H3 & H4 & H5 & H6 & H7).
  assert (L1 : Forall no_crash_label cst_before_request) by (vm_compute; repeat constructor).
  intros s' o w H. eapply (steal_names_tail c01w_cfg cst_before_request H1 H2 H3 H4 L1 H5 LCtl); [exact I|exact H].
Qed.

(* ====================================================================================== *)
(* The hypothesis no_stop: a worker whose own session stops answers a steal request after   *)
(* its "finished" -- the controller does not hear it any more                              *)
(* ====================================================================================== *)
(* 2 workers, 8 tests; worker 1's session asks to stop after test 4 (its first test) *)
Definition cst_stop_cfg : config :=
  ws_cfg 2 8 0%Z (fun n i => Nat.eqb n 1 && Nat.eqb i 4) (fun _ => [Passed]).
Definition cst_rr2 : list label :=
  flat_map (fun n => [LMain n; LRecvW n; LDeliver n; LRecv n; LCtl]) (seq 0 2).
(* both workers boot, collect, get 4 tests each and queue them; worker 0 runs 0 1 2, the controller
   asks worker 1 for its last two tests; worker 1 runs test 4, its session stops, it reports
   "finished"; only then its receiver thread executes the steal and sends `unscheduled [6; 7]` *)
Definition cst_stop_sched1 : list label :=
  c01_rep 6 cst_rr2 ++ c01_rep 4 [LRecvW 0; LRecvW 1] ++ c01_rep 18 [LMain 0] ++ c01_rep 14 [LRecv 0] ++
  c01_rep 14 [LCtl] ++ c01_rep 12 [LMain 1] ++ [LDeliver 1; LRecvW 1; LRecvW 1].
Example cst_ex_stop_before :
  let s := sys_run cst_stop_cfg cst_stop_sched1 in
  alist_get [] 1 (y_up s) =
    [UEv (ELogStart 4); UEv (EReport 4 0 Passed); UEv (ELogFinish 4); UComplete 4 0%Z;
     UEv (EFinished true); UEv (EUnscheduled [6; 7])] /\
  cst_parts s 1 = ([4; 5; 6; 7], [4], [5], [], [6; 7], 1, Some 1) /\
  places_ws s = [0; 1; 2; 3; 4; 5; 6; 7].
Proof. vm_compute. repeat split; reflexivity. Qed.

(* the controller's receiver thread reads worker 1's wire: after "finished" the node is down and the
   reply is dropped.  6 and 7 are in no place any more but still in the book; no request is in flight
   although the marker says so -- and it will say so for ever; no exception *)
Definition cst_stop_sched2 : list label := cst_stop_sched1 ++ c01_rep 12 [LRecv 1].
Example cst_ex_stop_after :
  let s := sys_run cst_stop_cfg cst_stop_sched2 in
  cst_parts s 1 = ([4; 5; 6; 7], [4], [5], [], [], 0, Some 1) /\
  places_ws s = [0; 1; 2; 3; 4; 5] /\ y_result s = None.
Proof. vm_compute. repeat split; reflexivity. Qed.

Example cst_ex_stop_breaks :
  let s := sys_run cst_stop_cfg cst_stop_sched2 in
  ~ CoupledW s /\ ~ StealOne s /\ ~ Permutation (places_ws s) (seq 0 8).
Proof.
  cbv zeta. split; [|split].
  - intros H. specialize (H 1). apply Permutation_length in H. vm_compute in H. discriminate.
  - intros H. specialize (H 1). vm_compute in H. discriminate.
  - intros H. apply Permutation_length in H. vm_compute in H. discriminate.
Qed.

(* every other hypothesis holds of this run *)
Example cst_ex_stop_hyps :
  c_mode cst_stop_cfg = MSteal /\ (forall n i, c_crash_in cst_stop_cfg n i = false) /\ no_garbled cst_stop_cfg /\
  (forall n, ~ In ""%string (c_coll cst_stop_cfg n)) /\ Forall no_crash_label cst_stop_sched2 /\
  0 < c_numnodes cst_stop_cfg /\ ~ no_stop cst_stop_cfg.
Proof.
  split; [reflexivity|]. split; [reflexivity|]. split.
  { intros n i H. cbn in H. destruct H as [H|[]]. discriminate. }
  split.
  { intros n H. cbn in H. repeat (destruct H as [H|H]; [discriminate|]). exact H. }
  split; [vm_compute; repeat constructor|]. split; [cbn; lia|].
  intros H. specialize (H 1 4). discriminate.
Qed.


(* what still holds of this run: the controller never raises, and the coupling of worker 0 -- whose
   session has not stopped -- is intact (worker 1's is not: cst_ex_stop_breaks) *)
Example cst_ex_stop_general :
  let s := sys_run cst_stop_cfg cst_stop_sched2 in
  (forall e, y_result s <> Some (RError e)) /\ unstopped cst_stop_cfg s 0 /\ ~ unstopped cst_stop_cfg s 1 /\
  Permutation (bookw s 0) (owedw s 0 ++ backw s 0) /\ NoDup (places_ws s).
Proof.
  cbv zeta. destruct cst_ex_stop_hyps as (H1 & H2 & H3 & H4 & H5 & H6 & _).
  assert (U0 : unstopped cst_stop_cfg (sys_run cst_stop_cfg cst_stop_sched2) 0).
  { intros w Hw r Hr. cbn. reflexivity. }
  split; [apply controller_never_raises_ws; assumption|]. split; [exact U0|]. split.
  { intros U1. unfold unstopped in U1.
    assert (E : exists w, aget 1 (y_w (sys_run cst_stop_cfg cst_stop_sched2)) = Some w /\ In ((0, 4), Some (1, 5)) (wran w)).
    { vm_compute. eexists. split; [reflexivity|]. left. reflexivity. }
    destruct E as (w & Ew & Hr). specialize (U1 w Ew _ Hr). clear - U1. cbn in U1. discriminate U1. }
  split; [apply coupling_node_ws; assumption|]. apply c01_ws_places_nodup_always; assumption.
Qed.

(* the session goes on and ends as "interrupted", without an exception *)
Example cst_ex_stop_end :
  y_result (sys_run cst_stop_cfg (cst_stop_sched2 ++ c01_rep 40 cst_rr2)) = Some RInterrupted.
Proof. vm_compute. reflexivity. Qed.

(* the side condition "at least one worker" *)
Example cst_ex_no_workers :
  y_result (sys_run (ws_cfg 0 6 0%Z (fun _ _ => false) (fun _ => [Passed])) [LCtl]) = Some (RError ERuntimeNoWorkers).
Proof. vm_compute. reflexivity. Qed.
