(* CrashCoupling.v -- the load scheduler and the controller (DSession) of pytest-xdist in runs WITH
   worker crashes and replacement workers: parts A-C of the crash coupling proof (part D, the system
   invariant and the theorems, is in CrashTheorems.v; token conservation in CrashTokens.v).

   Nothing is assumed here beyond what the lemmas state: closed channels (c_strict, or a channel whose
   end marker has been read), re-queued crash items (c_requeue), workers with different collections,
   stop requests, --maxfail, any restart budget are all covered.  The hypothesis SAME ("every worker
   collects the same list") only guards the facts that make RuntimeError("no active workers") impossible
   (field dj_k2, he_fin').

   Organisation:
     part A  virtual outputs: what the scheduler WOULD send if no channel were closed.  A command for
             a closed channel is dropped by WorkerController.sendcommand, but the scheduler books it
             all the same; stating the effect of a scheduler call on the virtual outputs lets us reuse
             the transition relation TR of Coupling.v unchanged.
     part B  the load scheduler, closed channels allowed (send_tests ... schedule, remove_node,
             mark_test_pending).
     part C  the controller: invariant DJ' (node ids range below the group counter d_next_gw), every
             handler -- errordown with crash item, re-queueing, restart budget and _clone_node included --
             and one loop iteration (loop_once_ok': it never raises; HEFF': its exact effect). *)
From XV Require Import Base Worker Ctl SchedLoad SchedSteal SchedScope SchedEach Sched DSession System
  NoHook DSessionProofs WorkerProofs LoadProofs FifoProofs ExactlyOnce Coupling.
From Coq Require Import Permutation.
Open Scope nat_scope.

(* ====================================================================================== *)
(* A. virtual outputs                                                                      *)
(* ====================================================================================== *)
Definition closedb (nt : ntable) (m : nat) : bool :=
  match aget m nt with Some f => n_closed f | None => false end.
Definition vkeep (nt : ntable) (x : out) : bool :=
  match x with OSend m _ => negb (closedb nt m) | _ => true end.
Definition vfilter (nt : ntable) (vo : list out) : list out := filter (vkeep nt) vo.

Lemma vfilter_app nt a b : vfilter nt (a ++ b) = vfilter nt a ++ vfilter nt b.
Proof. apply filter_app. Qed.

Lemma vfilter_ext nt nt' vo : (forall m, closedb nt' m = closedb nt m) -> vfilter nt' vo = vfilter nt vo.
Proof.
  intros H. apply filter_ext. intros [h|m c| |]; cbn; try reflexivity. rewrite H. reflexivity.
Qed.

Lemma vfilter_send nt n f c :
  aget n nt = Some f -> vfilter nt [OSend n c] = if n_closed f then [] else [OSend n c].
Proof. intros E. unfold vfilter, closedb. cbn. unfold closedb. rewrite E. destruct (n_closed f); reflexivity. Qed.

Lemma NRo_closed nt nt' m cs : NRo (aget m nt) cs (aget m nt') -> closedb nt' m = closedb nt m.
Proof.
  unfold closedb. destruct (aget m nt) as [f|], (aget m nt') as [f'|]; cbn; try tauto.
  intros R. destruct (NR_fields _ _ _ R) as (_ & _ & C & _). exact C.
Qed.

Lemma TR0_closed s s' vo : TR0 s s' vo -> forall m, closedb (l_nt s') m = closedb (l_nt s) m.
Proof. intros T m. eapply NRo_closed. apply (tr_nt _ _ _ T m). Qed.

(* commands for node n among the real outputs: all the virtual ones when the channel is open *)
Lemma cmds_to_vfilter nt n vo :
  cmds_to n (vfilter nt vo) = if closedb nt n then [] else cmds_to n vo.
Proof.
  induction vo as [|x vo IH]; cbn [vfilter filter]; [destruct (closedb nt n); reflexivity|].
  fold (vfilter nt vo). destruct x as [h|m c| |]; cbn [vkeep]; try (cbn [cmds_to flat_map cmd_to app]; exact IH).
  destruct (Nat.eqb m n) eqn:E.
  - apply Nat.eqb_eq in E. subst m. destruct (closedb nt n) eqn:Ec; cbn [negb].
    + exact IH.
    + cbn [cmds_to flat_map cmd_to]. rewrite Nat.eqb_refl. cbn [app]. f_equal. exact IH.
  - destruct (negb (closedb nt m)).
    + cbn [cmds_to flat_map cmd_to]. rewrite E. cbn [app]. exact IH.
    + rewrite IH. cbn [cmds_to flat_map cmd_to]. rewrite E. reflexivity.
Qed.

Definition TR0v (s s' : lstate) (o : list out) : Prop := exists vo, TR0 s s' vo /\ o = vfilter (l_nt s) vo.
Definition TRv (s s' : lstate) (o : list out) : Prop := exists vo, TR s s' vo /\ o = vfilter (l_nt s) vo.

Lemma TR0v_refl s : TR0v s s [].
Proof. exists []. split; [apply TR0_refl|reflexivity]. Qed.
Lemma TRv_refl s : TRv s s [].
Proof. exists []. split; [apply TR_refl|reflexivity]. Qed.

Lemma TR0v_trans s s1 s2 o1 o2 : TR0v s s1 o1 -> TR0v s1 s2 o2 -> TR0v s s2 (o1 ++ o2).
Proof.
  intros (v1 & T1 & ->) (v2 & T2 & ->). exists (v1 ++ v2). split; [eapply TR0_trans; eauto|].
  rewrite vfilter_app. f_equal. apply vfilter_ext. apply (TR0_closed _ _ _ T1).
Qed.
Lemma TRv_trans s s1 s2 o1 o2 : TRv s s1 o1 -> TRv s1 s2 o2 -> TRv s s2 (o1 ++ o2).
Proof.
  intros (v1 & T1 & ->) (v2 & T2 & ->). exists (v1 ++ v2). split; [eapply TR_trans; eauto|].
  rewrite vfilter_app. f_equal. apply vfilter_ext. apply (TR0_closed _ _ _ (proj1 T1)).
Qed.

Lemma TRv_TR0v s s' o : TRv s s' o -> TR0v s s' o.
Proof. intros (vo & (T & _) & E). exists vo. auto. Qed.

(* ====================================================================================== *)
(* B. the load scheduler with closed channels                                              *)
(* ====================================================================================== *)
Lemma send_tests_TRv n num s s' o r :
  aget n (l_n2p s) <> None ->
  (exists f, aget n (l_nt s) = Some f /\ n_sdsent f = false) ->
  l_send_tests n num s = (s', o, r) ->
  r = Ok tt /\ TRv s s' o /\ l_nt s' = l_nt s.
Proof.
  intros Hp (f & Ef & Hs) H. pose proof (py_take_drop _ num (l_pending s)) as Etd.
  apply l_send_tests_cases in H. cbv zeta in H.
  destruct H as [(Et & -> & -> & ->)|[(Hne & Ec & _)|(Hne & cur & Ec & -> & Hr)]].
  - split; [reflexivity|]. split; [apply TRv_refl|reflexivity].
  - contradiction.
  - destruct Hr as [(En & _)|(c & En & -> & ->)]; [congruence|].
    rewrite Ef in En. inversion En; subst c.
    split; [reflexivity|]. split; [|reflexivity].
    exists [OSend n (CRun (py_take num (l_pending s)))]. split; [|symmetry; apply vfilter_send; exact Ef].
    split.
    + constructor; cbn [l_nt l_set_n2p l_set_pending l_n2p l_pending].
      * intros m. destruct (Nat.eq_dec m n) as [->|Hm].
        -- rewrite cmds_to_one_eq, Ef. cbn. apply NR_run; [exact Hs|constructor].
        -- rewrite cmds_to_one_neq by exact Hm. apply NRo_refl.
      * intros m. unfold bk. cbn [l_n2p l_set_n2p l_set_pending].
        destruct (Nat.eq_dec m n) as [->|Hm].
        -- rewrite cmds_to_one_eq, alist_get_aset_eq. unfold alist_get. rewrite Ec. cbn. rewrite app_nil_r. reflexivity.
        -- rewrite cmds_to_one_neq by exact Hm. rewrite alist_get_aset_neq by exact Hm. cbn. rewrite app_nil_r. reflexivity.
      * unfold keeps. cbn [l_coll l_n2c l_numnodes l_chunk l_n2p l_set_n2p l_set_pending].
        repeat split; try reflexivity. eapply akeys_aset_has; eauto.
      * exists (py_take num (l_pending s)). symmetry. exact Etd.
    + intros (m & Hin). exfalso. destruct (Nat.eq_dec m n) as [->|Hm].
      * rewrite cmds_to_one_eq in Hin. destruct Hin as [F|[]]. discriminate.
      * rewrite cmds_to_one_neq in Hin by exact Hm. destruct Hin.
Qed.

Lemma node_shutdown_TR0v n s s' o r :
  aget n (l_nt s) <> None ->
  node_shutdown l_nt l_set_nt n s = (s', o, r) ->
  r = Ok tt /\ TR0v s s' o /\ l_pending s' = l_pending s /\ l_n2p s' = l_n2p s.
Proof.
  intros Hn H. apply node_shutdown_cases in H.
  destruct H as [(F & _)|[(c & _ & _ & -> & -> & ->)|(c & En & Esd & -> & -> & ->)]].
  - contradiction.
  - split; [reflexivity|]. split; [apply TR0v_refl|]. split; reflexivity.
  - split; [reflexivity|]. split; [|split; reflexivity].
    assert (Hs : n_sdsent c = false).
    { unfold shutting_down in Esd. apply orb_false_iff in Esd. tauto. }
    exists [OSend n CShutdown]. split; [|symmetry; apply vfilter_send; exact En].
    constructor; cbn [l_nt l_set_nt l_n2p l_pending].
    + intros m. rewrite LoadProofs.aget_aset. destruct (Nat.eqb m n) eqn:E.
      * apply Nat.eqb_eq in E. subst m. rewrite cmds_to_one_eq, En. cbn. apply NR_sd; [exact Hs|constructor].
      * apply Nat.eqb_neq in E. rewrite cmds_to_one_neq by exact E. apply NRo_refl.
    + intros m. unfold bk. cbn [l_n2p l_set_nt]. destruct (Nat.eq_dec m n) as [->|Hm].
      * rewrite cmds_to_one_eq. cbn. rewrite app_nil_r. reflexivity.
      * rewrite cmds_to_one_neq by exact Hm. cbn. rewrite app_nil_r. reflexivity.
    + unfold keeps. cbn. auto.
    + exists []. reflexivity.
Qed.

Lemma TR0v_pend_TRv s s' o : TR0v s s' o -> l_pending s' = [] -> TRv s s' o.
Proof. intros (vo & T & E) Hp. exists vo. split; [|exact E]. split; [exact T|]. intros _. exact Hp. Qed.

Lemma node_shutdown_TRv n s s' o r :
  aget n (l_nt s) <> None -> l_pending s = [] ->
  node_shutdown l_nt l_set_nt n s = (s', o, r) -> r = Ok tt /\ TRv s s' o.
Proof.
  intros Hn Hp H. destruct (node_shutdown_TR0v _ _ _ _ _ Hn H) as (-> & T & Ep & _).
  split; [reflexivity|]. apply TR0v_pend_TRv; [exact T|congruence].
Qed.

Lemma TR0v_nt_keys s s' o n : TR0v s s' o -> (aget n (l_nt s') <> None <-> aget n (l_nt s) <> None).
Proof. intros (vo & T & _). apply (TR0_nt_keys _ _ _ n T). Qed.

Lemma mfor_shutdown_TR0v l : forall s s' o r,
  (forall n, In n l -> aget n (l_nt s) <> None) ->
  mfor l (fun n => node_shutdown l_nt l_set_nt n) s = (s', o, r) ->
  r = Ok tt /\ TR0v s s' o /\ l_pending s' = l_pending s /\ l_n2p s' = l_n2p s.
Proof.
  induction l as [|x l IH]; intros s s' o r Hl H.
  - cbn in H. unfold ret in H. inv H. split; [reflexivity|]. split; [apply TR0v_refl|]. split; reflexivity.
  - cbn [mfor] in H. apply LoadProofs.mbind_inv in H.
    destruct H as [(e & H1 & ->)|(s1 & o1 & a & o2 & H1 & H2 & ->)].
    + destruct (node_shutdown_TR0v _ _ _ _ _ (Hl x (or_introl eq_refl)) H1) as (F & _). discriminate.
    + destruct (node_shutdown_TR0v _ _ _ _ _ (Hl x (or_introl eq_refl)) H1) as (_ & T1 & P1 & B1).
      assert (Hl1 : forall n, In n l -> aget n (l_nt s1) <> None).
      { intros n Hn. apply (TR0v_nt_keys _ _ _ n T1). apply Hl. right. exact Hn. }
      destruct (IH _ _ _ _ Hl1 H2) as (-> & T2 & P2 & B2).
      split; [reflexivity|]. split; [eapply TR0v_trans; eauto|]. split; congruence.
Qed.

Lemma check_schedule_TRv n dur s s' o r :
  aget n (l_nt s) <> None -> aget n (l_n2p s) <> None ->
  (l_pending s <> [] -> l_chunk s <> None) ->
  l_check_schedule n dur s = (s', o, r) -> r = Ok tt /\ TRv s s' o.
Proof.
  intros Hn Hp Hc H.
  assert (R : r = Ok tt).
  { revert H. unfold l_check_schedule, node_shutting_down, node_flags, mbind, get, of_opt, ret, raise.
    cbn beta iota zeta delta [app].
    destruct (aget n (l_nt s)) as [c|] eqn:En; [|congruence]. cbn beta iota zeta delta [app].
    destruct (shutting_down c) eqn:Esd; cbn beta iota zeta delta [app]; [intros H; inv H; reflexivity|].
    assert (Hs : n_sdsent c = false).
    { unfold shutting_down in Esd. apply orb_false_iff in Esd. tauto. }
    destruct (l_pending s) as [|p0 pr] eqn:Ep.
    { destruct (node_shutdown l_nt l_set_nt n s) as [[s2 o2] r2] eqn:Esh. intros H. inv H.
      assert (Hn' : aget n (l_nt s) <> None) by congruence.
      destruct (node_shutdown_TR0v _ _ _ _ _ Hn' Esh) as (-> & _). reflexivity. }
    destruct (negb (ahas n (l_n2c s))); cbn beta iota zeta delta [app]; [intros H; inv H; reflexivity|].
    rewrite (zlen_pos (l_n2p s)) by (intros E; rewrite E in Hp; apply Hp; reflexivity).
    cbn beta iota zeta delta [app].
    destruct (aget n (l_n2p s)) as [a|] eqn:Ea; [|congruence]. cbn beta iota zeta delta [app].
    match goal with |- context [if ?b then _ else _] => destruct b end;
      cbn beta iota zeta delta [app]; [|intros H; inv H; reflexivity].
    match goal with |- context [if ?b then _ else _] => destruct b end;
      cbn beta iota zeta delta [app]; [intros H; inv H; reflexivity|].
    destruct (l_chunk s) as [chunk|] eqn:Ech; [|exfalso; apply Hc; [discriminate|reflexivity]].
    cbn beta iota zeta delta [app].
    match goal with |- context [l_send_tests n ?z s] => destruct (l_send_tests n z s) as [[s2 o2] r2] eqn:Es end.
    intros H. inv H.
    assert (Hp' : aget n (l_n2p s) <> None) by congruence.
    destruct (send_tests_TRv _ _ _ _ _ _ Hp' (ex_intro _ c (conj En Hs)) Es) as (-> & _). reflexivity. }
  split; [exact R|]. subst r.
  apply l_check_schedule_cases in H.
  destruct H as [(_ & _ & _ & F)|[(c' & _ & _ & -> & -> & _)|[(c & En & Esd & Ep & H)|[(c & _ & _ & _ & -> & ->)|(c & num & En & Esd & Ep & H)]]]].
  - discriminate.
  - apply TRv_refl.
  - eapply node_shutdown_TRv; eauto.
  - apply TRv_refl.
  - assert (Hs : n_sdsent c = false).
    { unfold shutting_down in Esd. apply orb_false_iff in Esd. tauto. }
    destruct (send_tests_TRv _ _ _ _ _ _ Hp (ex_intro _ c (conj En Hs)) H) as (_ & T & _). exact T.
Qed.

Lemma TRv_keeps s s' o : TRv s s' o -> keeps s s' o.
Proof.
  intros (vo & (T & _) & _). destruct (tr_keeps _ _ _ T) as (A & B & C & D & E). unfold keeps. auto.
Qed.

Lemma TRv_pend s s' o : TRv s s' o -> exists moved, l_pending s = moved ++ l_pending s'.
Proof. intros (vo & (T & _) & _). exact (tr_pend _ _ _ T). Qed.

(* the rescheduling loop  for node in self.nodes: self.check_schedule(node) *)
Lemma mfor_check_TRv l dur : forall s s' o r,
  (forall n, In n l -> aget n (l_nt s) <> None /\ aget n (l_n2p s) <> None) ->
  (l_pending s <> [] -> l_chunk s <> None) ->
  mfor l (fun m => l_check_schedule m dur) s = (s', o, r) -> r = Ok tt /\ TRv s s' o.
Proof.
  induction l as [|x l IH]; intros s s' o r Hl Hc H.
  - cbn in H. unfold ret in H. inv H. split; [reflexivity|apply TRv_refl].
  - cbn [mfor] in H. apply LoadProofs.mbind_inv in H.
    destruct (Hl x (or_introl eq_refl)) as (Hn & Hp).
    destruct H as [(e & H1 & ->)|(s1 & o1 & a & o2 & H1 & H2 & ->)].
    + destruct (check_schedule_TRv _ _ _ _ _ _ Hn Hp Hc H1) as (F & _). discriminate.
    + destruct (check_schedule_TRv _ _ _ _ _ _ Hn Hp Hc H1) as (_ & T1).
      pose proof (TRv_keeps _ _ _ T1) as (_ & _ & _ & Kch & Kk).
      destruct (TRv_pend _ _ _ T1) as (mv & Emv).
      assert (Hl1 : forall n, In n l -> aget n (l_nt s1) <> None /\ aget n (l_n2p s1) <> None).
      { intros n Hin. destruct (Hl n (or_intror Hin)) as (A & B). split.
        - apply (TR0v_nt_keys _ _ _ n (TRv_TR0v _ _ _ T1)). exact A.
        - apply aget_In_keys. rewrite Kk. apply aget_In_keys. exact B. }
      assert (Hc1 : l_pending s1 <> [] -> l_chunk s1 <> None).
      { intros Hne. rewrite Kch. apply Hc. rewrite Emv. intros F. apply app_eq_nil in F. tauto. }
      destruct (IH _ _ _ _ Hl1 Hc1 H2) as (-> & T2). split; [reflexivity|eapply TRv_trans; eauto].
Qed.

Lemma mark_complete_TRv n i dur s s' o r rest :
  aget n (l_nt s) <> None -> aget n (l_n2p s) = Some (i :: rest) ->
  (l_pending s <> [] -> l_chunk s <> None) ->
  l_mark_test_complete n i dur s = (s', o, r) ->
  r = Ok tt /\ TRv (l_set_n2p s (aset n rest (l_n2p s))) s' o.
Proof.
  intros Hn Hb Hc H. apply l_mark_test_complete_cases in H.
  destruct H as [(F & _)|[(cur & Ec & Er & _)|(cur & cur' & Ec & Er & H)]]; try congruence.
  - rewrite Hb in Ec. inv Ec. cbn in Er. rewrite Nat.eqb_refl in Er. discriminate.
  - rewrite Hb in Ec. inv Ec. cbn in Er. rewrite Nat.eqb_refl in Er. inv Er.
    eapply check_schedule_TRv; [| | |exact H]; cbn [l_nt l_set_n2p l_n2p l_pending l_chunk]; auto.
    rewrite LoadProofs.aget_aset, Nat.eqb_refl. discriminate.
Qed.

Lemma node_ready_sendv n num s s' o m :
  l_send_tests n num s = (s', o, Ok tt) -> l_nt s' = l_nt s -> node_ready s m -> node_ready s' m.
Proof. apply node_ready_send. Qed.

Lemma round_robin_TRv fuel all : forall cur s s' o r,
  all <> [] -> (forall n, In n all \/ In n cur -> node_ready s n) ->
  l_round_robin fuel all cur s = (s', o, r) -> r = Ok tt /\ TRv s s' o.
Proof.
  induction fuel as [|f IH]; intros cur s s' o r Ha Hr H.
  - cbn in H. unfold ret in H. inv H. split; [reflexivity|apply TRv_refl].
  - cbn [l_round_robin] in H.
    assert (STEP : forall n rr, (In n all \/ In n cur) -> (forall m, In m rr -> In m all \/ In m cur) ->
              (l_send_tests n 1%Z ;;; l_round_robin f all rr) s = (s', o, r) -> r = Ok tt /\ TRv s s' o).
    { intros n rr Hn Hrr H0. apply LoadProofs.mbind_inv in H0.
      destruct (Hr n Hn) as (Rp & Rn).
      destruct H0 as [(e & H1 & ->)|(s1 & o1 & a & o2 & H1 & H2 & ->)].
      - destruct (send_tests_TRv _ _ _ _ _ _ Rp Rn H1) as (F & _). discriminate.
      - destruct (send_tests_TRv _ _ _ _ _ _ Rp Rn H1) as (_ & T1 & Ent). destruct a.
        assert (Hr1 : forall m, In m all \/ In m rr -> node_ready s1 m).
        { intros m Hm. eapply node_ready_send; eauto. apply Hr. destruct Hm as [Hm|Hm]; [left; exact Hm|apply Hrr; exact Hm]. }
        destruct (IH _ _ _ _ _ Ha Hr1 H2) as (-> & T2). split; [reflexivity|eapply TRv_trans; eauto]. }
    destruct cur as [|n rr].
    + destruct all as [|n rr]; [congruence|].
      eapply (STEP n rr); [left; left; reflexivity| |exact H]. intros m Hm. left. right. exact Hm.
    + eapply (STEP n rr); [right; left; reflexivity| |exact H]. intros m Hm. right. right. exact Hm.
Qed.

Lemma mfor_send_TRv num l : forall s s' o r,
  (forall n, In n l -> node_ready s n) ->
  mfor l (fun n => l_send_tests n num) s = (s', o, r) -> r = Ok tt /\ TRv s s' o.
Proof.
  induction l as [|x l IH]; intros s s' o r Hr H.
  - cbn in H. unfold ret in H. inv H. split; [reflexivity|apply TRv_refl].
  - cbn [mfor] in H. apply LoadProofs.mbind_inv in H.
    destruct (Hr x (or_introl eq_refl)) as (Rp & Rn).
    destruct H as [(e & H1 & ->)|(s1 & o1 & a & o2 & H1 & H2 & ->)].
    + destruct (send_tests_TRv _ _ _ _ _ _ Rp Rn H1) as (F & _). discriminate.
    + destruct (send_tests_TRv _ _ _ _ _ _ Rp Rn H1) as (_ & T1 & Ent). destruct a.
      assert (Hr1 : forall m, In m l -> node_ready s1 m).
      { intros m Hm. eapply node_ready_send; eauto. apply Hr. right. exact Hm. }
      destruct (IH _ _ _ _ Hr1 H2) as (-> & T2). split; [reflexivity|eapply TRv_trans; eauto].
Qed.

Lemma vfilter_quiet nt o : (forall n, cmds_to n o = []) -> vfilter nt o = o.
Proof.
  induction o as [|x o IH]; intros H; [reflexivity|].
  assert (H' : forall n, cmds_to n o = []).
  { intros n. specialize (H n). cbn [cmds_to flat_map] in H. apply app_eq_nil in H. tauto. }
  destruct x as [h|m c| |]; cbn [vfilter filter vkeep]; fold (vfilter nt o); rewrite ?(IH H'); try reflexivity.
  exfalso. specialize (H m). cbn [cmds_to flat_map cmd_to] in H. rewrite Nat.eqb_refl in H. discriminate.
Qed.

(* the first call of schedule() *)
Lemma schedule_first_TRv s s' o r :
  l_coll s = None -> l_pending s = [] ->
  l_collection_is_completed s = true -> l_n2c s <> [] -> l_nodes s <> [] ->
  (forall n, In n (l_nodes s) -> node_ready s n) ->
  l_schedule s = (s', o, r) ->
  r = Ok tt /\ exists vo, o = vfilter (l_nt s) vo /\
  (forall n, NRo (aget n (l_nt s)) (cmds_to n vo) (aget n (l_nt s'))) /\
  (forall n, bk s' n = bk s n ++ flat_map cmd_inds (cmds_to n vo)) /\
  akeys (l_n2p s') = akeys (l_n2p s) /\ l_n2c s' = l_n2c s /\ l_numnodes s' = l_numnodes s /\
  (l_pending s' <> [] -> l_chunk s' <> None) /\
  (forall X, l_coll s' = Some X -> X <> [] -> l_chunk s' <> None) /\
  sdp s' vo /\
  (l_coll s' = None -> l_pending s' = []) /\
  (forall X, (forall k ids, In (k, ids) (l_n2c s) -> ids = X) -> l_coll s' = Some X).
Proof.
  intros Ec Ep Hcomp Hn2c Hnodes Hready H. unfold l_schedule in H.
  apply LoadProofs.mbind_inv in H. destruct H as [(e & H & _)|(t0 & p0 & a0 & q0 & Hg & H & ->)]; [unfold get in H; inv H|].
  unfold get in Hg. injection Hg as <- <- <-. cbn [app].
  rewrite Hcomp in H. unfold massert in H.
  apply LoadProofs.mbind_inv in H. destruct H as [(e & H & _)|(t1 & p1 & a1 & q1 & Ha & H & ->)]; [unfold ret in H; inv H|].
  unfold ret in Ha. injection Ha as <- <- <-. cbn [app].
  rewrite Ec in H.
  apply LoadProofs.mbind_inv in H. destruct H as [(e & Hs & _)|(t2 & p2 & same & q2 & Hs & H & ->)].
  { apply (same_collection_quiet _ _ _ _ Hn2c) in Hs. destruct Hs as (_ & _ & (f0 & c0 & ot0 & _ & F)). discriminate. }
  apply (same_collection_quiet _ _ _ _ Hn2c) in Hs. destruct Hs as (-> & C2 & (f0 & c0 & ot0 & En0 & Esame)).
  assert (ALLEQ : forall X, (forall k ids, In (k, ids) (l_n2c s) -> ids = X) -> same = true /\ c0 = X).
  { intros X HX. rewrite En0 in HX. split; [|apply (HX f0); left; reflexivity].
    inv Esame. apply forallb_forall. intros [k ids] Hin. cbn [snd].
    rewrite (HX f0 c0 (or_introl eq_refl)), (HX k ids (or_intror Hin)). apply coll_eqb_refl. }
  assert (QUIET : forall n, cmds_to n (p2 ++ []) = []) by (intros n; rewrite app_nil_r; apply C2).
  assert (VQ : forall vo, p2 ++ vfilter (l_nt s) vo = vfilter (l_nt s) (p2 ++ vo)).
  { intros vo. rewrite vfilter_app, (vfilter_quiet _ p2 C2). reflexivity. }
  destruct same; cbn [negb] in H.
  2:{ unfold ret in H. inv H. split; [reflexivity|]. exists (p2 ++ []). split; [rewrite <- VQ; reflexivity|].
      split; [intros n; rewrite QUIET; apply NRo_refl|].
      split; [intros n; rewrite QUIET; cbn; rewrite app_nil_r; reflexivity|].
      split; [reflexivity|]. split; [reflexivity|]. split; [reflexivity|].
      split; [intros F; congruence|]. split; [intros X F; congruence|]. split; [intros (n & Hin); rewrite QUIET in Hin; destruct Hin|].
      split; [auto|]. intros X HX. destruct (ALLEQ X HX) as (F & _). discriminate. }
  apply LoadProofs.mbind_inv in H. destruct H as [(e & H & _)|(t3 & p3 & a3 & q3 & Hg & H & ->)]; [unfold get in H; inv H|].
  unfold get in Hg. injection Hg as <- <- <-. cbn [app].
  destruct (l_n2c s) as [|[k c] others] eqn:En2c; [congruence|]. cbn [of_opt] in H.
  assert (Ec0 : c0 = c) by congruence. subst c0.
  apply LoadProofs.mbind_inv in H. destruct H as [(e & H & _)|(t4 & p4 & coll & q4 & Ho4 & H & ->)]; [unfold ret in H; inv H|].
  unfold ret in Ho4. injection Ho4 as <- <- <-. cbn [app].
  apply LoadProofs.mbind_inv in H. destruct H as [(e & H & _)|(t5 & p5 & a5 & q5 & Hp & H & ->)]; [unfold put in H; inv H|].
  unfold put in Hp. injection Hp as <- <- <-. cbn [app].
  destruct c as [|c0 cr].
  { unfold ret in H. inv H. cbn [l_nt l_set_pending l_set_coll l_n2p l_n2c l_numnodes l_pending l_chunk l_coll length seq].
    split; [reflexivity|]. exists (p2 ++ []). split; [rewrite <- VQ; reflexivity|].
    split; [intros n; rewrite QUIET; apply NRo_refl|].
    split; [intros n; rewrite QUIET; cbn; rewrite app_nil_r; reflexivity|].
    split; [reflexivity|]. split; [exact En2c|]. split; [reflexivity|].
    split; [intros F; congruence|]. split; [intros X E HX; inv E; congruence|]. split; [intros _; reflexivity|].
    split; [auto|]. intros X HX. destruct (ALLEQ X HX) as (_ & <-). reflexivity. }
  set (coll := c0 :: cr) in *.
  set (s1 := l_set_pending (l_set_coll s (Some coll)) (seq 0 (length coll))) in *.
  apply LoadProofs.mbind_inv in H. destruct H as [(e & H & _)|(t6 & p6 & a6 & q6 & Hg & H & ->)]; [unfold get in H; inv H|].
  unfold get in Hg. injection Hg as <- <- <-. cbn [app].
  apply LoadProofs.mbind_inv in H. destruct H as [(e & H & _)|(t7 & p7 & a7 & q7 & Hp & H & ->)]; [unfold put in H; inv H|].
  unfold put in Hp. injection Hp as <- <- <-. cbn [app].
  apply LoadProofs.mbind_inv in H. destruct H as [(e & H & _)|(t8 & p8 & a8 & q8 & Hg & H & ->)]; [unfold get in H; inv H|].
  unfold get in Hg. injection Hg as <- <- <-. cbn [app].
  match type of H with context [l_set_chunk s1 (Some ?ch)] => set (chunk := ch) in * end.
  set (s3 := l_set_chunk s1 (Some chunk)) in *.
  assert (Hr3 : forall n, In n (l_nodes s3) -> node_ready s3 n) by exact Hready.
  apply LoadProofs.mbind_inv in H.
  assert (MID : forall t9 p9 r9,
     (if (zlen (l_pending s3) <? 2 * zlen (l_nodes s3))%Z
      then l_round_robin (length (l_pending s3)) (l_nodes s3) (l_nodes s3)
      else if (zlen (l_n2p s3) =? 0)%Z then raise EZeroDiv
           else mfor (l_nodes s3)
                  (fun n => l_send_tests n (Z.max (Z.min (zlen coll / zlen (l_n2p s3) / 4) chunk) 2))) s3 = (t9, p9, r9) ->
     r9 = Ok tt /\ TRv s3 t9 p9).
  { intros t9 p9 r9 Hmid. destruct (zlen (l_pending s3) <? 2 * zlen (l_nodes s3))%Z.
    - eapply round_robin_TRv; [exact Hnodes| |exact Hmid].
      intros n [Hn|Hn]; apply Hr3; exact Hn.
    - rewrite zlen_pos in Hmid.
      + eapply mfor_send_TRv; [exact Hr3|exact Hmid].
      + intros E. apply Hnodes. unfold l_nodes. change (l_n2p s) with (l_n2p s3). rewrite E. reflexivity. }
  destruct H as [(e & Hmid & _)|(t9 & p9 & a9 & q9 & Hmid & H & ->)].
  { apply MID in Hmid. destruct Hmid as (F & _). discriminate. }
  apply MID in Hmid. destruct Hmid as (_ & T9). clear MID.
  apply LoadProofs.mbind_inv in H. destruct H as [(e & H & _)|(t10 & p10 & a10 & q10 & Hg & H & ->)]; [unfold get in H; inv H|].
  unfold get in Hg. injection Hg as <- <- <-. cbn [app].
  assert (FIN : r = Ok tt /\ TRv t9 s' q10).
  { destruct (l_pending t9) eqn:Ep9.
    - assert (Hl : forall n, In n (l_nodes t9) -> aget n (l_nt t9) <> None).
      { intros n Hn. apply (TR0v_nt_keys _ _ _ n (TRv_TR0v _ _ _ T9)).
        destruct (TRv_keeps _ _ _ T9) as (_ & _ & _ & _ & Ek). unfold l_nodes in Hn. rewrite Ek in Hn.
        destruct (Hr3 n Hn) as (_ & (f & Ef & _)). congruence. }
      destruct (mfor_shutdown_TR0v _ _ _ _ _ Hl H) as (-> & T & P & _).
      split; [reflexivity|]. apply TR0v_pend_TRv; [exact T|congruence].
    - unfold ret in H. inv H. split; [reflexivity|apply TRv_refl]. }
  destruct FIN as (-> & T10).
  pose proof (TRv_trans _ _ _ _ _ T9 T10) as (vo & (T & SDP) & Evo).
  destruct (tr_keeps _ _ _ T) as (Kc & Kn & Km & Kch & Kk).
  split; [reflexivity|]. exists (p2 ++ vo).
  split. { rewrite <- VQ. cbn [app]. f_equal. exact Evo. }
  split. { intros n. rewrite cmds_to_app, C2. cbn [app]. apply (tr_nt _ _ _ T n). }
  split. { intros n. rewrite cmds_to_app, C2. cbn [app]. apply (tr_bk _ _ _ T n). }
  split; [exact Kk|]. split; [rewrite Kn; exact En2c|]. split; [exact Km|].
  split. { intros _. rewrite Kch. discriminate. }
  split. { intros X _ _. rewrite Kch. discriminate. }
  split. { intros (n & Hin). apply SDP. exists n. rewrite cmds_to_app, C2 in Hin. exact Hin. }
  split. { intros F. rewrite Kc in F. discriminate. }
  intros X HX. destruct (ALLEQ X HX) as (_ & <-). rewrite Kc. reflexivity.
Qed.

(* shutdown of a list of nodes, with the virtual outputs exposed: nothing goes to a node outside the list *)
Lemma node_shutdown_TR0x n s s' o r :
  aget n (l_nt s) <> None ->
  node_shutdown l_nt l_set_nt n s = (s', o, r) ->
  r = Ok tt /\ l_pending s' = l_pending s /\ l_n2p s' = l_n2p s /\
  exists vo, TR0 s s' vo /\ o = vfilter (l_nt s) vo /\ forall m, m <> n -> cmds_to m vo = [].
Proof.
  intros Hn H. apply node_shutdown_cases in H.
  destruct H as [(F & _)|[(c & _ & _ & -> & -> & ->)|(c & En & Esd & -> & -> & ->)]].
  - contradiction.
  - split; [reflexivity|]. split; [reflexivity|]. split; [reflexivity|].
    exists []. split; [apply TR0_refl|]. split; [reflexivity|]. reflexivity.
  - split; [reflexivity|]. split; [reflexivity|]. split; [reflexivity|].
    assert (Hs : n_sdsent c = false).
    { unfold shutting_down in Esd. apply orb_false_iff in Esd. tauto. }
    exists [OSend n CShutdown]. split; [|split; [symmetry; apply vfilter_send; exact En|]].
    + constructor; cbn [l_nt l_set_nt l_n2p l_pending].
      * intros m. rewrite LoadProofs.aget_aset. destruct (Nat.eqb m n) eqn:E.
        -- apply Nat.eqb_eq in E. subst m. rewrite cmds_to_one_eq, En. cbn. apply NR_sd; [exact Hs|constructor].
        -- apply Nat.eqb_neq in E. rewrite cmds_to_one_neq by exact E. apply NRo_refl.
      * intros m. unfold bk. cbn [l_n2p l_set_nt]. destruct (Nat.eq_dec m n) as [->|Hm].
        -- rewrite cmds_to_one_eq. cbn. rewrite app_nil_r. reflexivity.
        -- rewrite cmds_to_one_neq by exact Hm. cbn. rewrite app_nil_r. reflexivity.
      * unfold keeps. cbn. auto.
      * exists []. reflexivity.
    + intros m Hm. apply cmds_to_one_neq. exact Hm.
Qed.

Lemma mfor_shutdown_TR0x l : forall s s' o r,
  (forall n, In n l -> aget n (l_nt s) <> None) ->
  mfor l (fun n => node_shutdown l_nt l_set_nt n) s = (s', o, r) ->
  r = Ok tt /\ l_pending s' = l_pending s /\ l_n2p s' = l_n2p s /\
  exists vo, TR0 s s' vo /\ o = vfilter (l_nt s) vo /\ forall m, ~ In m l -> cmds_to m vo = [].
Proof.
  induction l as [|x l IH]; intros s s' o r Hl H.
  - cbn in H. unfold ret in H. inv H. split; [reflexivity|]. split; [reflexivity|]. split; [reflexivity|].
    exists []. split; [apply TR0_refl|]. split; reflexivity.
  - cbn [mfor] in H. apply LoadProofs.mbind_inv in H.
    destruct H as [(e & H1 & ->)|(s1 & o1 & a & o2 & H1 & H2 & ->)].
    + destruct (node_shutdown_TR0x _ _ _ _ _ (Hl x (or_introl eq_refl)) H1) as (F & _). discriminate.
    + destruct (node_shutdown_TR0x _ _ _ _ _ (Hl x (or_introl eq_refl)) H1) as (_ & P1 & B1 & v1 & T1 & E1 & C1).
      assert (Hl1 : forall n, In n l -> aget n (l_nt s1) <> None).
      { intros n Hn. apply (TR0_nt_keys _ _ _ n T1). apply Hl. right. exact Hn. }
      destruct (IH _ _ _ _ Hl1 H2) as (-> & P2 & B2 & v2 & T2 & E2 & C2).
      split; [reflexivity|]. split; [congruence|]. split; [congruence|].
      exists (v1 ++ v2). split; [eapply TR0_trans; eauto|]. split.
      * rewrite vfilter_app, E1, E2. f_equal. apply vfilter_ext. apply (TR0_closed _ _ _ T1).
      * intros m Hm. rewrite cmds_to_app, C1, C2; [reflexivity| |]; intros F; apply Hm; [right; exact F|left; congruence].
Qed.

(* remove_node for a node with a non-empty book: the head is the crash item, the rest goes back to
   the END of the pool, and the rescheduling loop runs over the remaining nodes *)
Lemma remove_node_TRv n s s' o r i rest coll item :
  aget n (l_n2p s) = Some (i :: rest) -> l_coll s = Some coll -> nth_error coll i = Some item ->
  (forall m, In m (akeys (adel n (l_n2p s))) -> aget m (l_nt s) <> None) ->
  l_chunk s <> None ->
  l_remove_node n s = (s', o, r) ->
  r = Ok (Some item) /\ TRv (l_set_pending (rm_state n s) (l_pending s ++ rest)) s' o.
Proof.
  intros Ep Ec En Hk Hch H. apply l_remove_node_cases in H.
  destruct (rm_state_fields n s) as (Fp & Fq & Fc & Fn & Fch & Fm).
  destruct H as [(F & _)|[(F & _)|(i' & rest' & Ep' & H)]]; try congruence.
  rewrite Ep in Ep'. inv Ep'.
  destruct H as [(F & _)|[(c' & Ec' & F & _)|(c' & item' & r0 & Ec' & En' & H & Hr)]]; try congruence.
  rewrite Ec in Ec'. inv Ec'. rewrite En in En'. inv En'.
  assert (X : r0 = Ok tt /\ TRv (l_set_pending (rm_state n s) (l_pending s ++ rest')) s' o).
  { eapply mfor_check_TRv; [| |exact H]; cbn [l_nt l_set_pending l_n2p l_pending l_chunk].
    - intros m Hm. rewrite Fn, Fp. split; [apply Hk; exact Hm|apply aget_In_keys; exact Hm].
    - intros _. rewrite Fch. exact Hch. }
  destruct X as (-> & T). split; [first [exact Hr|reflexivity]|exact T].
Qed.

(* ====================================================================================== *)
(* C. the controller with worker deaths and replacement workers                            *)
(* ====================================================================================== *)
Section Ctl.
Variable N : nat.                 (* the initial number of workers (numnodes never changes) *)
Variable collf : nat -> list string.   (* what worker n collects (replacement workers included) *)
Hypothesis HN : 0 < N.
(* every worker collects the same list: needed for "no active workers" never to happen, for nothing else *)
Definition SAME : Prop := forall n, collf n = collf 0.

(* the restart budget is used up: every further death ends the session *)
Definition exhausted (d : dstate) : bool :=
  match d_max_restart d with Some m => (m <? d_failed_nodes d)%Z && (0 <? d_failed_nodes d)%Z | None => false end.

(* the scheduler's own invariant; node ids range below the group counter G *)
Record LJ' (G : nat) (ls : lstate) : Prop := {
  lj_num' : l_numnodes ls = N;
  lj_ntk' : forall n, aget n (l_nt ls) <> None <-> n < G;
  lj_nodes' : forall n, In n (l_nodes ls) -> n < G;
  lj_wf' : NoDup (l_nodes ls);
  lj_n2c' : forall n, In n (akeys (l_n2c ls)) -> n < G;
  lj_n2cnd' : NoDup (akeys (l_n2c ls));
  lj_chunk' : forall X, l_coll ls = Some X -> X <> [] -> l_chunk ls <> None;
  lj_cc' : l_coll ls <> None -> l_collection_is_completed ls = true;
  lj_ids' : forall k ids, In (k, ids) (l_n2c ls) -> ids = collf k;
  lj_coll' : forall X, (forall k ids, In (k, ids) (l_n2c ls) -> ids = X) ->
             l_collection_is_completed ls = true -> l_coll ls = Some X;
  lj_i3' : l_coll ls = None -> l_pending ls = [] /\ books ls = [];
  lj_valid' : valid ls;
}.

Lemma lj_coll_same G ls : SAME -> LJ' G ls -> l_collection_is_completed ls = true -> l_coll ls = Some (collf 0).
Proof.
  intros HS J C. apply (lj_coll' _ _ J); [|exact C]. intros k ids Hin. rewrite (lj_ids' _ _ J k ids Hin). apply HS.
Qed.

Lemma lj_tokens_nil G ls : LJ' G ls -> l_coll ls = Some [] -> tokens ls = [].
Proof.
  intros J E. destruct (tokens ls) as [|i t] eqn:Et; [reflexivity|]. exfalso.
  pose proof (lj_valid' _ _ J [] E i) as V. rewrite Et in V. specialize (V (or_introl eq_refl)). cbn in V. lia.
Qed.

Lemma lj_pchunk G ls : LJ' G ls -> l_pending ls <> [] -> l_chunk ls <> None.
Proof.
  intros J Hp.
  destruct (l_coll ls) as [X|] eqn:Ec; [|destruct (lj_i3' _ _ J Ec) as (P & _); contradiction].
  apply (lj_chunk' _ _ J X Ec). intros E0. rewrite E0 in Ec.
  pose proof (lj_tokens_nil _ _ J Ec) as T. unfold tokens in T.
  apply app_eq_nil in T. destruct T as (T & _). contradiction.
Qed.

Lemma nodes_known' G ls : LJ' G ls -> forall n, In n (l_nodes ls) -> aget n (l_nt ls) <> None.
Proof. intros J n Hn. apply (lj_ntk' _ _ J). apply (lj_nodes' _ _ J). exact Hn. Qed.

(* steps that only touch node flags *)
Lemma LJ'_TR0 G ls ls' o :
  LJ' G ls -> TR0 ls ls' o -> l_pending ls' = l_pending ls -> l_n2p ls' = l_n2p ls -> LJ' G ls'.
Proof.
  intros J T Ep Eb. destruct (tr_keeps _ _ _ T) as (Kc & Kn & Km & Kch & Kk). constructor.
  - rewrite Km. apply J.
  - intros n. rewrite (TR0_nt_keys _ _ _ n T). apply J.
  - unfold l_nodes. rewrite Kk. apply J.
  - unfold l_nodes. rewrite Kk. apply J.
  - rewrite Kn. apply J.
  - rewrite Kn. apply J.
  - rewrite Kc, Kch. apply J.
  - unfold l_collection_is_completed. rewrite Kc, Km, Kn. apply J.
  - rewrite Kn. apply J.
  - unfold l_collection_is_completed. rewrite Kc, Km, Kn. apply J.
  - unfold books. rewrite Kc, Ep, Eb. apply J.
  - intros coll Ec i Hi. rewrite (tokens_eq _ _ Ep Eb) in Hi. rewrite Kc in Ec. exact (lj_valid' _ _ J coll Ec i Hi).
Qed.

Lemma completed_keeps ls ls' :
  l_n2c ls' = l_n2c ls -> l_numnodes ls' = l_numnodes ls ->
  l_collection_is_completed ls' = l_collection_is_completed ls.
Proof. intros A B. unfold l_collection_is_completed. rewrite A, B. reflexivity. Qed.

Lemma vfilter_cons_hook0 nt h vo : vfilter nt (OHook h :: vo) = OHook h :: vfilter nt vo.
Proof. reflexivity. Qed.
Lemma cmds_to_hook0 m h vo : cmds_to m (OHook h :: vo) = cmds_to m vo.
Proof. reflexivity. Qed.


(* a rescheduling step keeps the scheduler invariant (the collection being fixed) *)
Lemma LJ'_TR G ls0 ls1 vo : LJ' G ls0 -> TR0 ls0 ls1 vo -> l_coll ls0 <> None -> valid ls1 -> LJ' G ls1.
Proof.
  intros J T Hc V. destruct (tr_keeps _ _ _ T) as (Kc & Kn & Km & Kch & Kk).
  pose proof (completed_keeps ls0 ls1 Kn Km) as Kcomp. constructor.
  - rewrite Km. apply J.
  - intros k. rewrite (TR0_nt_keys _ _ _ k T). apply J.
  - unfold l_nodes. rewrite Kk. apply J.
  - unfold l_nodes. rewrite Kk. apply J.
  - rewrite Kn. apply J.
  - rewrite Kn. apply J.
  - rewrite Kc, Kch. apply J.
  - rewrite Kc, Kcomp. apply J.
  - rewrite Kn. apply J.
  - rewrite Kc, Kcomp, Kn. apply J.
  - rewrite Kc. intros F. contradiction.
  - exact V.
Qed.

(* triggershutdown: every scheduled node is shut down once; nothing else changes *)
Lemma trigger_eff' G d ls d' o r :
  d_sched d = StL ls -> LJ' G ls ->
  d_triggershutdown d = (d', o, r) ->
  r = Ok tt /\ exists ls' vo, d' = d_with d true ls' /\ TR0 ls ls' vo /\ o = vfilter (l_nt ls) vo /\
    (forall m, ~ In m (l_nodes ls) -> cmds_to m vo = []) /\
    l_pending ls' = l_pending ls /\ l_n2p ls' = l_n2p ls /\
    (d_shuttingdown d = true -> ls' = ls /\ vo = []).
Proof.
  intros Els J H. unfold d_triggershutdown in H. unfold mbind at 1, get in H.
  destruct (d_shuttingdown d) eqn:Esd.
  - unfold ret in H. injection H as <- <- <-. split; [reflexivity|]. exists ls, [].
    split. { unfold d_with. destruct d; cbn in *; subst; reflexivity. }
    split; [apply TR0_refl|]. split; [reflexivity|]. auto.
  - unfold mbind, put in H.
    rewrite (mfor_liftD d_node_shutdown (fun n => node_shutdown l_nt l_set_nt n) _ d_node_shutdown_lift
               (d_set_shuttingdown d true) ls) in H by exact Els.
    rewrite Els in H. cbn [s_nodes] in H.
    destruct (mfor (l_nodes ls) (fun n => node_shutdown l_nt l_set_nt n) ls) as [[ls2 o2] r2] eqn:Em.
    cbn [liftD app] in H. inv H.
    destruct (mfor_shutdown_TR0x _ _ _ _ _ (nodes_known' G ls J) Em) as (-> & P & B & vo & T & E & C).
    split; [reflexivity|]. exists ls2, vo. split; [reflexivity|]. split; [exact T|]. split; [exact E|].
    split; [exact C|]. split; [exact P|]. split; [exact B|]. discriminate.
Qed.

(* the end of a loop iteration *)
Lemma loop_rest_eff' G d ls d' o r :
  d_sched d = StL ls -> LJ' G ls ->
  loop_rest d = (d', o, r) ->
  r = Ok tt /\ exists ls' vo,
    d' = d_with d (d_shuttingdown d || l_tests_finished ls || d_shouldstop d) ls' /\
    TR0 ls ls' vo /\ o = vfilter (l_nt ls) vo /\ (forall m, ~ In m (l_nodes ls) -> cmds_to m vo = []) /\
    l_pending ls' = l_pending ls /\ l_n2p ls' = l_n2p ls /\
    (d_shuttingdown d' = false -> ls' = ls /\ vo = []) /\
    (d_shuttingdown d = true -> ls' = ls /\ vo = []).
Proof.
  intros Els J H. unfold loop_rest in H.
  apply LoadProofs.mbind_inv in H. destruct H as [(e & H1 & ->)|(d1 & o1 & a & o2 & H1 & H2 & ->)].
  - exfalso. unfold mbind at 1, get in H1. rewrite Els in H1. cbn [s_tests_finished] in H1.
    destruct (l_tests_finished ls).
    + destruct (d_triggershutdown d) as [[dx ox] rx] eqn:Et.
      destruct (trigger_eff' _ _ _ _ _ _ Els J Et) as (-> & _). inv H1.
    + unfold ret in H1. inv H1.
  - unfold mbind at 1, get in H1. rewrite Els in H1. cbn [s_tests_finished] in H1.
    unfold mbind at 1, get in H2.
    destruct (l_tests_finished ls) eqn:Etf.
    + destruct (d_triggershutdown d) as [[dx ox] rx] eqn:Et.
      destruct (trigger_eff' _ _ _ _ _ _ Els J Et) as (-> & ls1 & vo & -> & T1 & E1 & C1 & P1 & B1 & N1). inv H1.
      assert (Z : forall b : bool, (if b then d_triggershutdown else ret tt) (d_with d true ls1)
                  = (d_with d true ls1, [], Ok tt)).
      { intros [|]; [|reflexivity]. unfold d_triggershutdown, mbind, get. reflexivity. }
      rewrite Z in H2. inv H2. rewrite app_nil_r, orb_true_r. cbn [orb].
      split; [reflexivity|]. exists ls1, vo. split; [reflexivity|]. split; [exact T1|]. split; [reflexivity|].
      split; [exact C1|]. split; [exact P1|]. split; [exact B1|]. split; [cbn; discriminate|exact N1].
    + unfold ret in H1. inv H1. cbn [app]. rewrite orb_false_r.
      destruct (d_shouldstop d1) eqn:Ess.
      * destruct (d_triggershutdown d1) as [[dx ox] rx] eqn:Et.
        destruct (trigger_eff' _ _ _ _ _ _ Els J Et) as (-> & ls1 & vo & -> & T1 & E1 & C1 & P1 & B1 & N1). inv H2.
        rewrite orb_true_r. split; [reflexivity|]. exists ls1, vo.
        split; [reflexivity|]. split; [exact T1|]. split; [reflexivity|]. split; [exact C1|].
        split; [exact P1|]. split; [exact B1|]. split; [cbn; discriminate|exact N1].
      * unfold ret in H2. inv H2. rewrite orb_false_r. split; [reflexivity|]. exists ls, [].
        split. { unfold d_with. destruct d'; cbn in *; subst; reflexivity. }
        split; [apply TR0_refl|]. split; [reflexivity|]. auto 10.
Qed.

(* ---- the controller's invariant ---- *)
(* DJ0' holds between the handler and the end of the loop iteration, DJ' at the start of an iteration.
   dj_k1: before the initial distribution no node has been told to shut down (unless a stop or the
          end of the restart budget made the session shut down for good);
   dj_rs: why the session is shutting down (all three reasons are permanent);
   dj_k2: a session that is not shutting down still has an active node that was not told to shut
          down, or has nothing left to distribute -- this is why "no active workers" cannot happen. *)
Record DJ0' (d : dstate) (ls : lstate) : Prop := {
  dj_sched' : d_sched d = StL ls;
  dj_lj' : LJ' (d_next_gw d) ls;
  dj_b' : d_shouldstop d = false -> incl (l_nodes ls) (d_active d);
  dj_k1 : l_collection_is_completed ls = false -> d_shouldstop d = false -> exhausted d = false ->
          forall n f, aget n (l_nt ls) = Some f -> n_sdsent f = false;
  dj_rs : d_shuttingdown d = true ->
          d_shouldstop d = true \/ exhausted d = true \/ l_collection_is_completed ls = true;
  dj_k2 : SAME -> d_shuttingdown d = false -> d_shouldstop d = false ->
          (exists k f, In k (d_active d) /\ aget k (l_nt ls) = Some f /\ n_sdsent f = false) \/
          (l_collection_is_completed ls = true /\ l_pending ls = []);
  dj_exh : exhausted d = true -> d_shuttingdown d = true;
  dj_req : True;
  dj_alt : forall n, In n (d_active d) -> n < d_next_gw d;
  dj_fnn : (0 <= d_failed_nodes d)%Z;
}.
Definition DJ' (d : dstate) (ls : lstate) : Prop :=
  DJ0' d ls /\ (d_shouldstop d = true -> d_shuttingdown d = true) /\
  (l_coll ls = Some [] -> d_shuttingdown d = true) /\
  (l_collection_is_completed ls = true -> l_coll ls = None -> d_shuttingdown d = true).

Definition PRE' (ev : cevent) (d : dstate) (ls : lstate) : Prop :=
  match ev with
  | QReady n => n < d_next_gw d /\ (d_shuttingdown d = false -> ~ In n (l_nodes ls) /\ In n (d_active d))
  | QCollFinish n ids => n < d_next_gw d /\ ~ In n (akeys (l_n2c ls)) /\ ids = collf n
  | QComplete n i _ => exists rest, aget n (l_n2p ls) = Some (i :: rest)
  | QFinished n SKNone => In n (d_active d) /\ (In n (l_nodes ls) -> aget n (l_n2p ls) = Some []) /\
                          (exists f, aget n (l_nt ls) = Some f /\ n_sdsent f = true)
  | QFinished n SKStop => In n (d_active d)
  | QErrorDown n => In n (d_active d)
  | QFinished _ SKKbd | QUnscheduled _ _ | QInternalError _ => False
  | _ => True
  end.

Definition bookmid' (ev : cevent) (m : nat) (b : list nat) : list nat :=
  match ev with
  | QComplete n _ _ => if Nat.eqb m n then tl b else b
  | QErrorDown n => if Nat.eqb m n then [] else b
  | _ => b
  end.

(* the index that leaves the controller's accounts when the event is handled *)
Definition evtok (ev : cevent) (ls : lstate) : list nat :=
  match ev with
  | QComplete n i _ => [i]
  | QErrorDown n => firstn 1 (bk ls n)
  | _ => []
  end.

Definition fresh_flags (f : nctl) : Prop := n_sdsent f = false /\ n_down f = false /\ n_closed f = false.

(* the effect of a handler (and, later, of a whole loop iteration); vo are the virtual outputs *)
Record HEFF' (ev : cevent) (d : dstate) (ls : lstate) (d1 : dstate) (ls1 : lstate) (vo : list out) : Prop := {
  he_dj' : DJ0' d1 ls1;
  he_nt' : forall m, m < d_next_gw d -> NRo (aget m (l_nt ls)) (cmds_to m vo) (aget m (l_nt ls1));
  he_out' : forall m, d_next_gw d <= m -> cmds_to m vo = [];
  he_bk' : forall m, bk ls1 m = bookmid' ev m (bk ls m) ++ flat_map cmd_inds (cmds_to m vo);
  he_nodes' : forall m, In m (l_nodes ls1) -> In m (l_nodes ls) \/ ev_sig ev = Some (m, SgReady);
  he_n2c' : forall m, In m (akeys (l_n2c ls1)) -> In m (akeys (l_n2c ls)) \/ ev_sig ev = Some (m, SgCF);
  he_act' : forall m, In m (d_active d) ->
            In m (d_active d1) \/ (exists b, ev_sig ev = Some (m, SgFin b)) \/ ev = QErrorDown m;
  he_fin' : SAME -> d_active d1 = [] ->
            d_shuttingdown d1 = true \/ l_tests_finished ls1 = true \/ d_shouldstop d1 = true;
  he_ss' : d_shouldstop d = true -> d_shouldstop d1 = true;
  he_stop' : forall m, ev_sig ev = Some (m, SgFin true) -> d_shouldstop d1 = true;
  he_gw' : d_next_gw d1 = d_next_gw d \/
           (d_next_gw d1 = S (d_next_gw d) /\
            (exists f, aget (d_next_gw d) (l_nt ls1) = Some f /\ fresh_flags f) /\
            In (d_next_gw d) (d_active d1) /\ ~ In (d_next_gw d) (l_nodes ls1) /\
            ~ In (d_next_gw d) (akeys (l_n2c ls1)));
  he_err' : forall n, ev = QErrorDown n -> ~ In n (l_nodes ls1) /\ ~ In n (d_active d1);
  he_closed' : forall m, closedb (l_nt ls1) m = closedb (l_nt ls) m;
  he_actb' : forall m, In m (d_active d1) -> In m (d_active d) \/ (m = d_next_gw d /\ d_next_gw d1 = S (d_next_gw d));
  (* token accounting (when no plugin re-queues crash items): what the event takes out of pool + books *)
  he_tok' : d_requeue d = 0 -> d_requeue d1 = 0 /\
            (forall X, l_coll ls = Some X -> l_coll ls1 = Some X) /\
            forall coll, l_coll ls1 = Some coll ->
            Permutation (evtok ev ls ++ tokens ls1)
                        (match l_coll ls with Some _ => tokens ls | None => seq 0 (length coll) end);
}.

Lemma tok_same ev ls ls1 :
  evtok ev ls = [] -> l_coll ls1 = l_coll ls -> Permutation (tokens ls1) (tokens ls) ->
  (forall X, l_coll ls = Some X -> l_coll ls1 = Some X) /\
  forall coll, l_coll ls1 = Some coll ->
  Permutation (evtok ev ls ++ tokens ls1) (match l_coll ls with Some _ => tokens ls | None => seq 0 (length coll) end).
Proof. intros E Ec P. split; [intros X HX; congruence|]. intros coll Ec1. rewrite E, <- Ec, Ec1. exact P. Qed.

Definition same_ctl' (d d1 : dstate) : Prop :=
  d_sched d1 = d_sched d /\ d_shuttingdown d1 = d_shuttingdown d /\ d_active d1 = d_active d /\
  (d_shouldstop d = true -> d_shouldstop d1 = true) /\
  d_next_gw d1 = d_next_gw d /\ d_requeue d1 = d_requeue d /\ d_failed_nodes d1 = d_failed_nodes d /\
  d_max_restart d1 = d_max_restart d.

Lemma same_ctl'_refl d : same_ctl' d d.
Proof. unfold same_ctl'. auto 10. Qed.

Lemma exhausted_ext d d1 :
  d_failed_nodes d1 = d_failed_nodes d -> d_max_restart d1 = d_max_restart d -> exhausted d1 = exhausted d.
Proof. intros A B. unfold exhausted. rewrite A, B. reflexivity. Qed.

Lemma not_true_false b : (b = true -> False) -> b = false.
Proof. destruct b; [intros H; exfalso; auto|reflexivity]. Qed.

Lemma DJ0'_same d ls d1 : DJ0' d ls -> same_ctl' d d1 -> DJ0' d1 ls.
Proof.
  intros [Els J Jb K1 RS K2 EX RQ AL FN] (S1 & S2 & S3 & S4 & S5 & S6 & S7 & S8).
  assert (SS : d_shouldstop d1 = false -> d_shouldstop d = false).
  { intros H. apply not_true_false. intros F. rewrite (S4 F) in H. discriminate. }
  pose proof (exhausted_ext d d1 S7 S8) as EE.
  constructor.
  - rewrite S1. exact Els.
  - rewrite S5. exact J.
  - rewrite S3. intros H. apply Jb. apply SS. exact H.
  - rewrite EE. intros Hc H. apply K1; [exact Hc|apply SS; exact H].
  - rewrite S2, EE. intros H. destruct (RS H) as [X|X]; [left; apply S4; exact X|right; exact X].
  - rewrite S2, S3. intros HS H1 H2. apply K2; [exact HS|exact H1|apply SS; exact H2].
  - rewrite S2, EE. exact EX.
  - exact RQ.
  - rewrite S3, S5. exact AL.
  - rewrite S7. exact FN.
Qed.

Lemma heff_same' ev d ls d1 :
  DJ0' d ls -> d_active d <> [] -> same_ctl' d d1 ->
  (forall m b, bookmid' ev m b = b) -> (forall m b, ev_sig ev <> Some (m, SgFin b)) ->
  (forall n, ev <> QErrorDown n) ->
  forall vo, (forall m, cmds_to m vo = []) ->
  HEFF' ev d ls d1 ls vo.
Proof.
  intros J0 Hact S Hb Hf Hne vo Hc. pose proof S as (S1 & S2 & S3 & S4 & S5 & S6 & S7 & S8). constructor.
  - eapply DJ0'_same; eauto.
  - intros m _. rewrite Hc. apply NRo_refl.
  - intros m _. apply Hc.
  - intros m. rewrite Hc, Hb. cbn. rewrite app_nil_r. reflexivity.
  - auto.
  - auto.
  - intros m Hm. left. rewrite S3. exact Hm.
  - rewrite S3. intros _ F. contradiction.
  - exact S4.
  - intros m E. exfalso. exact (Hf _ _ E).
  - left. exact S5.
  - intros n E. exfalso. exact (Hne n E).
  - reflexivity.
  - intros m Hm. left. rewrite <- S3. exact Hm.
  - intros Hr. split; [rewrite S6; exact Hr|]. apply tok_same; [|reflexivity|reflexivity].
    destruct ev; try reflexivity; [exfalso; exact (Hb n (bk ls n ++ [0]) eq_refl) || idtac|exfalso; exact (Hne n eq_refl)].
    specialize (Hb n [0]). cbn in Hb. rewrite Nat.eqb_refl in Hb. discriminate.
Qed.

Lemma handlefailures_same' b d d' o r :
  d_handlefailures b d = (d', o, r) -> r = Ok tt /\ o = [] /\ same_ctl' d d'.
Proof.
  unfold d_handlefailures, same_ctl'. destruct (negb b); [unfold ret; intros H; inv H; auto 12|].
  rewrite mbind_get, mbind_put, mbind_get.
  match goal with |- context [if ?c then _ else _] => destruct c end; unfold put, ret; intros H; inv H; cbn; auto 12.
Qed.

Lemma same_ctl'_trans a b c : same_ctl' a b -> same_ctl' b c -> same_ctl' a c.
Proof.
  intros (A1 & A2 & A3 & A4 & A5 & A6 & A7 & A8) (B1 & B2 & B3 & B4 & B5 & B6 & B7 & B8).
  unfold same_ctl'. repeat split; try congruence. auto.
Qed.

(* events that do not concern the scheduler *)
Lemma handle_quiet' ev d d1 o1 r :
  match ev with
  | QLogStart _ _ | QLogFinish _ _ | QWarning | QReport _ _ _ _ | QCollectReport _ _ _ => True
  | _ => False
  end ->
  d_handle ev d = (d1, o1, r) -> r = Ok tt /\ same_ctl' d d1 /\ (forall m, cmds_to m o1 = []).
Proof.
  pose proof (same_ctl'_refl d) as R.
  destruct ev; try contradiction; intros _; cbn [d_handle].
  - rewrite mbind_get. destruct (mem_nat key (d_collect_seen d)); [unfold ret; intros H; inv H; auto|].
    rewrite mbind_put. unfold hook. rewrite mbind_emit.
    destruct (d_handlefailures failed (d_set_collect_seen d (key :: d_collect_seen d))) as [[d2 o2] r2] eqn:Eh.
    apply handlefailures_same' in Eh. destruct Eh as (-> & -> & S).
    intros H. inv H. split; [reflexivity|]. split; [|intros m; reflexivity].
    eapply same_ctl'_trans; [|exact S]. unfold same_ctl'. cbn. auto 12.
  - rewrite hook_run. intros H. inv H. auto.
  - rewrite hook_run. intros H. inv H. auto.
  - unfold hook. rewrite mbind_emit.
    destruct (d_handlefailures _ d) as [[d2 o2] r2] eqn:Eh.
    apply handlefailures_same' in Eh. destruct Eh as (-> & -> & S).
    intros H. inv H. split; [reflexivity|]. split; [exact S|intros m; reflexivity].
  - rewrite hook_run. intros H. inv H. auto.
Qed.

Lemma TR_sd_back ls0 ls1 vo m f1 :
  TR ls0 ls1 vo -> aget m (l_nt ls1) = Some f1 -> n_sdsent f1 = true ->
  (exists f, aget m (l_nt ls0) = Some f /\ n_sdsent f = true) \/ l_pending ls1 = [].
Proof.
  intros (T & SDP) Ef1 Hs. destruct (NRo_open _ _ _ _ (tr_nt _ _ _ T m) Ef1) as (f & Ef & R).
  destruct (NR_fields _ _ _ R) as (_ & _ & _ & D & _). apply D in Hs. destruct Hs as [Hs|Hs].
  - left. exists f. auto.
  - right. apply SDP. exists m. exact Hs.
Qed.

Lemma TR0_sd_back ls0 ls1 vo m f1 :
  TR0 ls0 ls1 vo -> aget m (l_nt ls1) = Some f1 -> n_sdsent f1 = true ->
  (exists f, aget m (l_nt ls0) = Some f /\ n_sdsent f = true) \/ In CShutdown (cmds_to m vo).
Proof.
  intros T Ef1 Hs. destruct (NRo_open _ _ _ _ (tr_nt _ _ _ T m) Ef1) as (f & Ef & R).
  destruct (NR_fields _ _ _ R) as (_ & _ & _ & D & _). apply D in Hs. destruct Hs as [Hs|Hs].
  - left. exists f. auto.
  - right. exact Hs.
Qed.

Lemma TR0_fwd ls0 ls1 vo m f :
  TR0 ls0 ls1 vo -> aget m (l_nt ls0) = Some f -> exists f1, aget m (l_nt ls1) = Some f1.
Proof.
  intros T Ef. pose proof (tr_nt _ _ _ T m) as R. rewrite Ef in R.
  destruct (aget m (l_nt ls1)) as [f1|]; [eauto|destruct R].
Qed.

Lemma k2_step (act : list nat) nt nt1 (cp cp1 : bool) (pd pd1 : list nat) :
  (forall m f, aget m nt = Some f -> exists f1, aget m nt1 = Some f1) ->
  (forall m f1, aget m nt1 = Some f1 -> n_sdsent f1 = true ->
     (exists f, aget m nt = Some f /\ n_sdsent f = true) \/ (cp1 = true /\ pd1 = [])) ->
  (cp = true /\ pd = [] -> cp1 = true /\ pd1 = []) ->
  ((exists k f, In k act /\ aget k nt = Some f /\ n_sdsent f = false) \/ (cp = true /\ pd = [])) ->
  ((exists k f, In k act /\ aget k nt1 = Some f /\ n_sdsent f = false) \/ (cp1 = true /\ pd1 = [])).
Proof.
  intros Hf Hb Hr [(k & f & Hk & Ef & Hs)|X]; [|right; apply Hr; exact X].
  destruct (Hf k f Ef) as (f1 & Ef1). destruct (n_sdsent f1) eqn:E1.
  - destruct (Hb k f1 Ef1 E1) as [(f' & Ef' & Hs')|X]; [|right; exact X]. congruence.
  - left. exists k, f1. auto.
Qed.

(* flag-only steps of the scheduler (shutdown commands) *)
Lemma DJ0'_flags d ls ls' vo :
  DJ0' d ls -> TR0 ls ls' vo -> l_pending ls' = l_pending ls -> l_n2p ls' = l_n2p ls ->
  (forall m, In CShutdown (cmds_to m vo) -> d_shuttingdown d = true) ->
  DJ0' (d_set_sched d (StL ls')) ls'.
Proof.
  intros [Els J Jb K1 RS K2 EX RQ AL FN] T Ep Eb Hsd.
  destruct (tr_keeps _ _ _ T) as (Kc & Kn & Km & Kch & Kk).
  pose proof (completed_keeps ls ls' Kn Km) as Kcomp.
  constructor; cbn [d_set_sched d_sched d_next_gw d_shouldstop d_shuttingdown d_active d_requeue d_failed_nodes].
  - reflexivity.
  - eapply LJ'_TR0; eauto.
  - unfold l_nodes. rewrite Kk. exact Jb.
  - rewrite Kcomp. intros Hc Hss Hex n f1 Ef1. apply not_true_false. intros Hs.
    destruct (TR0_sd_back _ _ _ _ _ T Ef1 Hs) as [(f & Ef & Hf)|Hin].
    + rewrite (K1 Hc Hss Hex n f Ef) in Hf. discriminate.
    + destruct (RS (Hsd _ Hin)) as [X|[X|X]]; [change (d_shouldstop d = false) in Hss; congruence| |congruence].
      change (exhausted d = false) in Hex. congruence.
  - rewrite Kcomp. exact RS.
  - rewrite Kcomp, Ep. intros HS H1 H2. specialize (K2 HS H1 H2).
    eapply k2_step; [| | |exact K2].
    + intros m f Ef. eapply TR0_fwd; eauto.
    + intros m f1 Ef1 Hs. destruct (TR0_sd_back _ _ _ _ _ T Ef1 Hs) as [X|Hin]; [left; exact X|].
      rewrite (Hsd _ Hin) in H1. discriminate.
    + auto.
  - exact EX.
  - exact RQ.
  - exact AL.
  - exact FN.
Qed.

Lemma d_set_sched_fields d st :
  d_shuttingdown (d_set_sched d st) = d_shuttingdown d /\ d_shouldstop (d_set_sched d st) = d_shouldstop d /\
  d_active (d_set_sched d st) = d_active d /\ d_next_gw (d_set_sched d st) = d_next_gw d /\
  d_requeue (d_set_sched d st) = d_requeue d /\ d_failed_nodes (d_set_sched d st) = d_failed_nodes d /\
  d_max_restart (d_set_sched d st) = d_max_restart d.
Proof. repeat split. Qed.

Lemma exhausted_set_sched d st : exhausted (d_set_sched d st) = exhausted d.
Proof. reflexivity. Qed.

(* ---- workerready ---- *)
Lemma handle_ready' n d ls d1 o1 r :
  DJ' d ls -> d_active d <> [] -> PRE' (QReady n) d ls ->
  d_handle (QReady n) d = (d1, o1, r) ->
  r = Ok tt /\ exists ls1 vo, o1 = vfilter (l_nt ls) vo /\ HEFF' (QReady n) d ls d1 ls1 vo.
Proof.
  intros (J0 & Jss & Jemp & Jmis) Hact (HnG & Hpre) H. pose proof J0 as [Els J Jb K1 RS K2 EX RQ AL FN].
  cbn [d_handle] in H. unfold hook in H. rewrite mbind_emit, mbind_get in H.
  destruct (d_shuttingdown d) eqn:Esd.
  - (* already shutting down: the node is told to shut down and is not scheduled *)
    rewrite (d_node_shutdown_lift n d ls Els) in H.
    destruct (node_shutdown l_nt l_set_nt n ls) as [[ls1 o2] r2] eqn:En. cbn [liftD] in H. inv H.
    assert (Hk : aget n (l_nt ls) <> None) by (apply (lj_ntk' _ _ J); exact HnG).
    destruct (node_shutdown_TR0x _ _ _ _ _ Hk En) as (-> & P & B & vo & T & E & C).
    split; [reflexivity|]. exists ls1, (OHook (HNodeReady n) :: vo).
    split; [cbn [vfilter filter vkeep]; fold (vfilter (l_nt ls) vo); rewrite E; reflexivity|].
    assert (CC : forall m, cmds_to m (OHook (HNodeReady n) :: vo) = cmds_to m vo) by reflexivity.
    destruct (tr_keeps _ _ _ T) as (Kc & Kn & Km & Kch & Kk).
    constructor.
    + apply (DJ0'_flags d ls ls1 vo J0 T P B). intros _ _. exact Esd.
    + intros m _. rewrite CC. apply (tr_nt _ _ _ T).
    + intros m Hm. rewrite CC. apply C. lia.
    + intros m. rewrite CC. cbn [bookmid']. apply (tr_bk _ _ _ T).
    + intros m Hm. left. unfold l_nodes in *. rewrite <- Kk. exact Hm.
    + intros m Hm. left. rewrite <- Kn. exact Hm.
    + intros m Hm. left. exact Hm.
    + cbn. intros _ F. contradiction.
    + cbn. auto.
    + intros m E0. discriminate.
    + left. reflexivity.
    + intros k E0. discriminate.
    + apply (TR0_closed _ _ _ T).
    + intros m Hm. left. exact Hm.
    + intros Hr. split; [exact Hr|]. apply tok_same; [reflexivity|exact Kc|rewrite (tokens_eq _ _ P B); reflexivity].
  - (* the node joins the scheduler with an empty book *)
    destruct (Hpre eq_refl) as (Hnew & Hina).
    assert (Ea : aget n (l_n2p ls) = None) by (apply aget_none_keys; exact Hnew).
    unfold mbind at 1 in H. rewrite (sched_op_run _ d ls Els) in H. cbn [s_step] in H.
    unfold l_add_node, massert, ahas in H. rewrite mbind_get in H. rewrite Ea in H. cbn [negb] in H.
    rewrite mbind_ret in H. unfold put, lift, no_str, ret in H. inv H.
    split; [reflexivity|]. set (ls1 := l_set_n2p ls (aset n [] (l_n2p ls))).
    exists ls1, [OHook (HNodeReady n)]. split; [reflexivity|].
    assert (Ek : l_nodes ls1 = l_nodes ls ++ [n]) by (apply akeys_aset_new; exact Ea).
    assert (Ebk : books ls1 = books ls) by (apply flat_snd_aset_new; exact Ea).
    constructor.
    + constructor; cbn [d_set_sched d_sched d_next_gw d_shouldstop d_shuttingdown d_active d_requeue d_failed_nodes].
      * reflexivity.
      * constructor; [exact (lj_num' _ _ J)|exact (lj_ntk' _ _ J)| | |exact (lj_n2c' _ _ J)|exact (lj_n2cnd' _ _ J)
                      |exact (lj_chunk' _ _ J)|exact (lj_cc' _ _ J)|exact (lj_ids' _ _ J)|exact (lj_coll' _ _ J)| |].
        -- intros m Hm.
           rewrite Ek in Hm. apply in_app_or in Hm. destruct Hm as [Hm|[<-|[]]]; [apply (lj_nodes' _ _ J); exact Hm|exact HnG].
        -- apply akeys_aset_nodup. apply J.
        -- rewrite Ebk. exact (lj_i3' _ _ J).
        -- intros coll Ec i Hi. apply (lj_valid' _ _ J coll Ec). unfold tokens in *. rewrite Ebk in Hi. exact Hi.
      * intros Hss m Hm. rewrite Ek in Hm. apply in_app_or in Hm.
        destruct Hm as [Hm|[<-|[]]]; [apply (Jb Hss); exact Hm|exact Hina].
      * exact K1.
      * rewrite Esd. exact RS.
      * rewrite Esd. exact K2.
      * rewrite Esd. exact EX.
      * exact RQ.
      * exact AL.
      * exact FN.
    + intros m _. apply NRo_refl.
    + intros m _. reflexivity.
    + intros m. cbn. rewrite app_nil_r. unfold bk, ls1. cbn [l_n2p l_set_n2p].
      destruct (Nat.eq_dec m n) as [->|Hm].
      * rewrite alist_get_aset_eq. symmetry. apply alist_get_none. exact Ea.
      * apply alist_get_aset_neq. exact Hm.
    + intros m Hm. rewrite Ek in Hm. apply in_app_or in Hm. destruct Hm as [Hm|[<-|[]]]; [left; exact Hm|right; reflexivity].
    + intros m Hm. left. exact Hm.
    + intros m Hm. left. exact Hm.
    + cbn. intros _ F. contradiction.
    + cbn. auto.
    + intros m E. discriminate.
    + left. reflexivity.
    + intros k E. discriminate.
    + reflexivity.
    + intros m Hm. left. exact Hm.
    + intros Hr. split; [exact Hr|]. apply tok_same; [reflexivity|reflexivity|]. unfold tokens. rewrite Ebk. reflexivity.
Qed.

(* a rescheduling step (check_schedule ...) once the collection is fixed *)
Lemma DJ0'_sched d ls ls0 ls1 vo :
  DJ0' d ls -> TR ls0 ls1 vo -> l_nt ls0 = l_nt ls ->
  LJ' (d_next_gw d) ls1 -> l_coll ls1 <> None ->
  (d_shouldstop d = false -> incl (l_nodes ls1) (d_active d)) ->
  (l_collection_is_completed ls = true /\ l_pending ls = [] -> l_pending ls0 = []) ->
  DJ0' (d_set_sched d (StL ls1)) ls1.
Proof.
  intros [Els J Jb K1 RS K2 EX RQ AL FN] T Ent J1 Hc1 Hb1 Hp0.
  constructor; cbn [d_set_sched d_sched d_next_gw d_shouldstop d_shuttingdown d_active d_requeue d_failed_nodes].
  - reflexivity.
  - exact J1.
  - exact Hb1.
  - intros F. rewrite (lj_cc' _ _ J1 Hc1) in F. discriminate.
  - intros _. right. right. exact (lj_cc' _ _ J1 Hc1).
  - intros HS H1 H2. specialize (K2 HS H1 H2).
    assert (C1 : l_collection_is_completed ls1 = true) by (apply (lj_cc' _ _ J1); exact Hc1).
    eapply k2_step; [| | |exact K2].
    + intros m f Ef. rewrite <- Ent in Ef. eapply TR0_fwd; [apply T|exact Ef].
    + intros m f1 Ef1 Hs. destruct (TR_sd_back _ _ _ _ _ T Ef1 Hs) as [X|X]; [left; rewrite <- Ent; exact X|right; auto].
    + intros X. split; [exact C1|]. specialize (Hp0 X). destruct (tr_pend _ _ _ (proj1 T)) as (mv & Emv).
      rewrite Hp0 in Emv. symmetry in Emv. apply app_eq_nil in Emv. tauto.
  - exact EX.
  - exact RQ.
  - exact AL.
  - exact FN.
Qed.

Lemma books_nonempty_coll G ls n i rest : LJ' G ls -> aget n (l_n2p ls) = Some (i :: rest) -> l_coll ls <> None.
Proof.
  intros J Hb E. destruct (lj_i3' _ _ J E) as (_ & B0). exact (book_in_books _ _ _ _ Hb B0).
Qed.

(* ---- runtest_protocol_complete ---- *)
Lemma handle_complete' n i ms d ls d1 o1 r :
  DJ' d ls -> d_active d <> [] -> PRE' (QComplete n i ms) d ls ->
  d_handle (QComplete n i ms) d = (d1, o1, r) ->
  r = Ok tt /\ exists ls1 vo, o1 = vfilter (l_nt ls) vo /\ HEFF' (QComplete n i ms) d ls d1 ls1 vo.
Proof.
  intros (J0 & Jss & Jemp & Jmis) Hact (rest & Hb) H. pose proof J0 as [Els J Jb K1 RS K2 EX RQ AL FN].
  cbn [d_handle] in H. unfold mbind at 1 in H. rewrite (sched_op_run _ d ls Els) in H. cbn [s_step] in H.
  destruct (l_mark_test_complete n i ms ls) as [[ls1 o2] r2] eqn:Em. cbn [lift] in H.
  assert (Hin : In n (l_nodes ls)) by (apply aget_In_keys; congruence).
  assert (Hk : aget n (l_nt ls) <> None) by exact (nodes_known' _ ls J n Hin).
  destruct (mark_complete_TRv _ _ _ _ _ _ _ _ Hk Hb (lj_pchunk _ _ J) Em) as (-> & vo & T & Evo).
  unfold no_str, ret in H. inv H. rewrite app_nil_r.
  set (ls0 := l_set_n2p ls (aset n rest (l_n2p ls))) in *.
  destruct (tr_keeps _ _ _ (proj1 T)) as (Kc & Kn & Km & Kch & Kk). destruct (tr_pend _ _ _ (proj1 T)) as (moved & Emv).
  assert (Kk0 : akeys (l_n2p ls0) = akeys (l_n2p ls)) by (eapply akeys_aset_has; eauto).
  assert (Hcoll : l_coll ls <> None) by (eapply books_nonempty_coll; eauto).
  assert (Kcomp : l_collection_is_completed ls1 = l_collection_is_completed ls) by (apply completed_keeps; assumption).
  assert (J1 : LJ' (d_next_gw d) ls1).
  { constructor.
    - rewrite Km. apply J.
    - intros k. rewrite (TR0_nt_keys _ _ _ k (proj1 T)). apply J.
    - unfold l_nodes. rewrite Kk, Kk0. apply J.
    - unfold l_nodes. rewrite Kk, Kk0. apply J.
    - rewrite Kn. apply J.
    - rewrite Kn. apply J.
    - rewrite Kc, Kch. apply J.
    - rewrite Kc, Kcomp. apply J.
    - rewrite Kn. apply J.
    - rewrite Kc, Kcomp, Kn. apply J.
    - rewrite Kc. intros F. contradiction.
    - eapply l_mark_test_complete_valid; [exact Em|apply J]. }
  split; [reflexivity|]. exists ls1, vo. split; [reflexivity|]. constructor.
  - apply (DJ0'_sched d ls ls0 ls1 vo J0 T eq_refl J1).
    + rewrite Kc. exact Hcoll.
    + unfold l_nodes. rewrite Kk, Kk0. exact Jb.
    + intros (_ & P). exact P.
  - intros m _. apply (tr_nt _ _ _ (proj1 T) m).
  - intros m Hm. pose proof (tr_nt _ _ _ (proj1 T) m) as R. change (l_nt ls0) with (l_nt ls) in R.
    destruct (aget m (l_nt ls)) as [f|] eqn:Ef.
    + exfalso. assert (X : m < d_next_gw d) by (apply (lj_ntk' _ _ J); congruence). lia.
    + destruct (aget m (l_nt ls1)); [destruct R|exact R].
  - intros m. rewrite (tr_bk _ _ _ (proj1 T) m). f_equal. unfold bk, ls0. cbn [l_n2p l_set_n2p bookmid'].
    destruct (Nat.eqb m n) eqn:E.
    + apply Nat.eqb_eq in E. subst m. rewrite alist_get_aset_eq. unfold alist_get. rewrite Hb. reflexivity.
    + apply Nat.eqb_neq in E. apply alist_get_aset_neq. exact E.
  - intros m Hm. left. unfold l_nodes in *. rewrite Kk, Kk0 in Hm. exact Hm.
  - intros m Hm. left. rewrite Kn in Hm. exact Hm.
  - intros m Hm. left. exact Hm.
  - cbn. intros _ F. contradiction.
  - cbn. auto.
  - intros m E. discriminate.
  - left. reflexivity.
  - intros k E. discriminate.
  - apply (TR0_closed _ _ _ (proj1 T)).
  - intros m Hm. left. exact Hm.
  - intros Hr. split; [exact Hr|]. split; [intros X HX; rewrite Kc; exact HX|]. intros coll Ec1. cbn [evtok app].
    destruct (l_coll ls); [|contradiction]. exact (proj1 (l_mark_test_complete_L5 _ _ _ _ _ _ Em)).
Qed.

(* removing a node whose book is empty *)
Lemma remove_empty_facts G n ls :
  LJ' G ls -> aget n (l_n2p ls) = Some [] ->
  l_remove_node n ls = (rm_state n ls, [], Ok None) /\
  l_nt (rm_state n ls) = l_nt ls /\ l_pending (rm_state n ls) = l_pending ls /\
  l_coll (rm_state n ls) = l_coll ls /\
  (forall m, bk (rm_state n ls) m = bk ls m) /\
  (forall m, In m (l_nodes (rm_state n ls)) -> In m (l_nodes ls) /\ m <> n) /\
  (forall m, In m (akeys (l_n2c (rm_state n ls))) -> In m (akeys (l_n2c ls))) /\
  (l_collection_is_completed ls = true -> l_collection_is_completed (rm_state n ls) = true) /\
  LJ' G (rm_state n ls).
Proof.
  intros J Hbook. destruct (rm_state_fields n ls) as (Fp & Fq & Fc & Fn & Fch & Fm).
  assert (Fcback : l_collection_is_completed (rm_state n ls) = true -> l_n2c (rm_state n ls) = l_n2c ls /\ l_collection_is_completed ls = true).
  { intros C1. rewrite rm_state_n2c. destruct (l_collection_is_completed ls) eqn:C0; [auto|]. exfalso.
    unfold l_collection_is_completed in C0, C1. rewrite Fm, rm_state_n2c in C1.
    change (l_numnodes ls <=? length (l_n2c ls)) with (l_collection_is_completed ls) in C1.
    unfold l_collection_is_completed in C1. rewrite C0 in C1.
    apply Nat.leb_le in C1. apply Nat.leb_gt in C0. pose proof (length_adel_le n (l_n2c ls)). lia. }
  assert (Fnodes : forall m, In m (l_nodes (rm_state n ls)) -> In m (l_nodes ls) /\ m <> n).
  { intros m Hm. unfold l_nodes in *. rewrite Fp in Hm. split; [eapply adel_keys_incl; eauto|].
    intros ->. exact (adel_not_key _ _ _ (lj_wf' _ _ J) Hm). }
  assert (Fn2c : forall m, In m (akeys (l_n2c (rm_state n ls))) -> In m (akeys (l_n2c ls))).
  { intros m. rewrite rm_state_n2c. destruct (l_collection_is_completed ls); [auto|]. apply adel_keys_incl. }
  assert (Fent : forall x, In x (l_n2c (rm_state n ls)) -> In x (l_n2c ls)).
  { intros x. rewrite rm_state_n2c. destruct (l_collection_is_completed ls); [auto|]. apply in_adel. }
  assert (Fbooks : books (rm_state n ls) = books ls).
  { unfold books. rewrite Fp. apply flat_snd_adel_nil. exact Hbook. }
  split.
  { destruct (l_remove_node n ls) as [[ls2 o2] r2] eqn:Er. apply l_remove_node_cases in Er.
    destruct Er as [(F & _)|[(_ & -> & -> & ->)|(i0 & rest0 & F & _)]]; try congruence. }
  split; [exact Fn|]. split; [exact Fq|]. split; [exact Fc|].
  split.
  { intros m. unfold bk. rewrite Fp. destruct (Nat.eq_dec m n) as [->|Hm].
    - rewrite (alist_get_none [] n _ (aget_adel_eq n _ (lj_wf' _ _ J))).
      unfold alist_get. rewrite Hbook. reflexivity.
    - unfold alist_get. rewrite aget_adel_neq by exact Hm. reflexivity. }
  split; [exact Fnodes|]. split; [exact Fn2c|]. split; [apply rm_state_completed|].
  constructor.
  - rewrite Fm. apply J.
  - rewrite Fn. apply J.
  - intros m Hm. apply (lj_nodes' _ _ J). apply Fnodes. exact Hm.
  - unfold l_nodes; rewrite Fp; apply adel_nodup; apply J.
  - intros m Hm. apply (lj_n2c' _ _ J). apply Fn2c. exact Hm.
  - rewrite rm_state_n2c. destruct (l_collection_is_completed ls); [apply J|apply adel_nodup; apply J].
  - rewrite Fc, Fch. apply J.
  - rewrite Fc. intros Hc. apply rm_state_completed. apply (lj_cc' _ _ J). exact Hc.
  - intros k ids Hin. apply (lj_ids' _ _ J k). apply Fent. exact Hin.
  - intros X HX C1. rewrite Fc. destruct (Fcback C1) as (En & C0).
    apply (lj_coll' _ _ J X); [rewrite <- En; exact HX|exact C0].
  - rewrite Fc, Fq, Fbooks. apply J.
  - intros coll Ec i Hi. rewrite Fc in Ec. apply (lj_valid' _ _ J coll Ec). unfold tokens in *. rewrite Fq, Fbooks in Hi. exact Hi.
Qed.

Lemma remove_empty_tokens n ls : aget n (l_n2p ls) = Some [] -> tokens (rm_state n ls) = tokens ls.
Proof.
  intros Hb. destruct (rm_state_fields n ls) as (Fp & Fq & _). unfold tokens, books. rewrite Fp, Fq.
  rewrite (flat_snd_adel_nil _ _ Hb). reflexivity.
Qed.

Ltac dproj' := cbn [d_sched d_shuttingdown d_shouldstop d_active d_countfailures d_maxfail d_failed_nodes
  d_max_restart d_collect_seen d_next_gw d_requeue d_set_sched d_set_active d_set_shouldstop
  d_set_shuttingdown d_set_countfailures d_set_collect_seen d_set_failed_nodes d_set_next_gw d_set_requeue d_with].

(* ---- workerfinished ---- *)
Lemma handle_finished' n sk d ls d1 o1 r :
  DJ' d ls -> d_active d <> [] -> PRE' (QFinished n sk) d ls ->
  d_handle (QFinished n sk) d = (d1, o1, r) ->
  r = Ok tt /\ exists ls1 vo, o1 = vfilter (l_nt ls) vo /\ HEFF' (QFinished n sk) d ls d1 ls1 vo.
Proof.
  intros (J0 & Jss & Jemp & Jmis) Hact Hpre H. pose proof J0 as [Els J Jb K1 RS K2 EX RQ AL FN].
  cbn [d_handle] in H. unfold d_worker_workerfinished, hook in H. rewrite mbind_emit in H.
  destruct sk; cbn [PRE'] in Hpre; [| |contradiction].
  - (* no stop request: the node leaves the scheduler with an empty book *)
    destruct Hpre as (Hina & Hbook & (f & Ef & Hsd)).
    rewrite mbind_get in H. rewrite Els in H. cbn [s_nodes] in H.
    assert (STEP : exists ls1,
      ((if mem_nat n (l_nodes ls)
        then r0 <- d_sched_op (SRemove n);; massert match r0 with Some s0 => (s0 =? "")%string | None => true end
        else ret tt) d) = (d_set_sched d (StL ls1), [], Ok tt) /\
      l_nt ls1 = l_nt ls /\ l_pending ls1 = l_pending ls /\ l_coll ls1 = l_coll ls /\
      (forall m, bk ls1 m = bk ls m) /\
      (forall m, In m (l_nodes ls1) -> In m (l_nodes ls) /\ m <> n) /\
      (forall m, In m (akeys (l_n2c ls1)) -> In m (akeys (l_n2c ls))) /\
      (l_collection_is_completed ls = true -> l_collection_is_completed ls1 = true) /\
      LJ' (d_next_gw d) ls1 /\ tokens ls1 = tokens ls).
    { destruct (mem_nat n (l_nodes ls)) eqn:Em.
      - apply mem_nat_In in Em. specialize (Hbook Em).
        destruct (remove_empty_facts _ n ls J Hbook) as (Er & R).
        exists (rm_state n ls). split; [|repeat (split; [apply R|]); apply remove_empty_tokens; exact Hbook].
        unfold mbind. rewrite (sched_op_run _ d ls Els). cbn [s_step]. rewrite Er. cbn [lift]. reflexivity.
      - apply mem_nat_false in Em. exists ls. split; [rewrite d_set_sched_same by exact Els; reflexivity|].
        split; [reflexivity|]. split; [reflexivity|]. split; [reflexivity|]. split; [reflexivity|].
        split; [intros m Hm; split; [exact Hm|intros ->; contradiction]|]. split; [auto|]. split; [auto|]. split; [exact J|reflexivity]. }
    destruct STEP as (ls1 & Erun & Fn & Fq & Fc & Fbk & Fnodes & Fn2c & Fcomp & J1 & Ftok).
    unfold mbind at 1 in H. rewrite Erun in H.
    rewrite (active_remove_run n (d_set_sched d (StL ls1)) Hina) in H. inv H.
    split; [reflexivity|]. exists ls1, [OHook (HNodeDown n false)]. split; [reflexivity|].
    assert (HB : d_shouldstop d = false ->
                 incl (l_nodes ls1) (filter (fun m => negb (Nat.eqb m n)) (d_active d))).
    { intros Hs2 m Hm. destruct (Fnodes m Hm) as (Hm1 & Hm2). apply in_filter_neq. split; [|exact Hm2].
      apply (Jb Hs2). exact Hm1. }
    assert (K2' : SAME -> d_shuttingdown d = false -> d_shouldstop d = false ->
          (exists k f0, In k (filter (fun m => negb (Nat.eqb m n)) (d_active d)) /\ aget k (l_nt ls1) = Some f0 /\ n_sdsent f0 = false) \/
          (l_collection_is_completed ls1 = true /\ l_pending ls1 = [])).
    { intros HS H1 H2. destruct (K2 HS H1 H2) as [(k & f0 & Hk & Ef0 & Hs0)|(C & P)].
      - left. exists k, f0. rewrite Fn. split; [|auto]. apply in_filter_neq. split; [exact Hk|].
        intros ->. congruence.
      - right. split; [apply Fcomp; exact C|congruence]. }
    constructor.
    + constructor; dproj'.
      * reflexivity.
      * exact J1.
      * exact HB.
      * intros Hc1. rewrite Fn. apply K1. apply not_true_false. intros C. rewrite (Fcomp C) in Hc1. discriminate.
      * intros Hsd0. destruct (RS Hsd0) as [X|[X|X]]; auto.
      * exact K2'.
      * exact EX.
      * exact RQ.
      * intros m Hm. apply in_filter_neq in Hm. apply AL. tauto.
      * exact FN.
    + intros m _. rewrite Fn. apply NRo_refl.
    + intros m _. reflexivity.
    + intros m. cbn. rewrite app_nil_r. apply Fbk.
    + intros m Hm. left. apply Fnodes. exact Hm.
    + intros m Hm. left. apply Fn2c. exact Hm.
    + intros m Hm. dproj'. destruct (Nat.eq_dec m n) as [->|Hne]; [right; left; eexists; reflexivity|].
      left. apply in_filter_neq. split; assumption.
    + dproj'. intros HS Hempty. destruct (d_shuttingdown d) eqn:Esd; [left; reflexivity|].
      destruct (d_shouldstop d) eqn:Ess; [right; right; reflexivity|]. right. left.
      destruct (K2' HS eq_refl eq_refl) as [(k & f0 & Hk & _)|(C & P)]; [rewrite Hempty in Hk; destruct Hk|].
      specialize (HB eq_refl). rewrite Hempty in HB.
      assert (En : l_n2p ls1 = []).
      { destruct (l_n2p ls1) as [|[k v] rest] eqn:E; [reflexivity|]. exfalso.
        apply (HB k). unfold l_nodes. rewrite E. left. reflexivity. }
      unfold l_tests_finished. rewrite C, P, En. reflexivity.
    + dproj'. auto.
    + intros m E. discriminate.
    + left. reflexivity.
    + intros k E. discriminate.
    + intros m. rewrite Fn. reflexivity.
    + intros m Hm. left. dproj'. apply in_filter_neq in Hm. tauto.
    + intros Hr. split; [exact Hr|]. apply tok_same; [reflexivity|exact Fc|rewrite Ftok; reflexivity].
  - (* stop request *)
    assert (STEP : exists d2, (d0 <- get;; (if d_shouldstop d0 then ret tt else put (d_set_shouldstop d0 true))) d = (d2, [], Ok tt) /\
              same_ctl' d d2 /\ d_shouldstop d2 = true).
    { rewrite mbind_get. destruct (d_shouldstop d) eqn:Ess.
      - exists d. split; [reflexivity|]. split; [apply same_ctl'_refl|exact Ess].
      - eexists. split; [reflexivity|]. split; [|reflexivity]. unfold same_ctl'. cbn. auto 12. }
    destruct STEP as (d2 & Erun & S & S4).
    pose proof (DJ0'_same d ls d2 J0 S) as J2. pose proof S as (S1 & S2 & S3 & _ & S5 & S6 & S7 & S8).
    unfold mbind at 1 in H. rewrite Erun in H.
    assert (Hina : In n (d_active d2)) by (rewrite S3; exact Hpre).
    rewrite (active_remove_run n d2 Hina) in H. inv H.
    destruct J2 as [Els2 J2 Jb2 K12 RS2 K22 EX2 RQ2 AL2 FN2].
    split; [reflexivity|]. exists ls, [OHook (HNodeDown n false)]. split; [reflexivity|]. constructor.
    + constructor; dproj'.
      * exact Els2.
      * exact J2.
      * rewrite S4. discriminate.
      * exact K12.
      * exact RS2.
      * rewrite S4. discriminate.
      * exact EX2.
      * exact RQ2.
      * intros m Hm. apply in_filter_neq in Hm. apply AL2. tauto.
      * exact FN2.
    + intros m _. apply NRo_refl.
    + intros m _. reflexivity.
    + intros m. cbn. rewrite app_nil_r. reflexivity.
    + auto.
    + auto.
    + intros m Hm. dproj'. destruct (Nat.eq_dec m n) as [->|Hne]; [right; left; eexists; reflexivity|].
      left. apply in_filter_neq. rewrite S3. split; assumption.
    + dproj'. intros _. right. right. exact S4.
    + dproj'. intros _. exact S4.
    + intros m _. dproj'. exact S4.
    + left. dproj'. exact S5.
    + intros k E. discriminate.
    + reflexivity.
    + intros m Hm. left. dproj'. apply in_filter_neq in Hm. rewrite <- S3. tauto.
    + intros Hr. split; [dproj'; rewrite S6; exact Hr|]. apply tok_same; reflexivity.
Qed.

Lemma length_aset_ge {V} n (v : V) m : length m <= length (aset n v m).
Proof. induction m as [|[k x] m IH]; cbn; [lia|]. destruct (Nat.eqb n k); cbn; lia. Qed.

Lemma add_coll_late n ids ls c0 cr :
  aget n (l_n2p ls) <> None -> l_collection_is_completed ls = true ->
  l_coll ls = Some (c0 :: cr) -> ids = c0 :: cr ->
  l_add_node_collection n ids ls = (l_set_n2c ls (aset n ids (l_n2c ls)), [], Ok tt).
Proof.
  intros Hp Hc Ec ->. unfold l_add_node_collection. rewrite mbind_get. unfold massert, ahas.
  destruct (aget n (l_n2p ls)); [|congruence]. rewrite mbind_ret, Hc, Ec, coll_eqb_refl. reflexivity.
Qed.

Lemma schedule_again_run s c :
  l_collection_is_completed s = true -> l_coll s = Some c ->
  l_schedule s = mfor (l_nodes s) (fun n => l_check_schedule n 0%Z) s.
Proof.
  intros Hc Ec. unfold l_schedule. rewrite mbind_get, Hc. unfold massert. rewrite mbind_ret, Ec. reflexivity.
Qed.

Lemma NRo_keys' a cs b : NRo a cs b -> (b <> None <-> a <> None).
Proof. destruct a, b; cbn; try tauto; intros _; split; intros; discriminate. Qed.

Lemma NRo_out G ls m cs b : LJ' G ls -> G <= m -> NRo (aget m (l_nt ls)) cs b -> cs = [].
Proof.
  intros J Hm R. destruct (aget m (l_nt ls)) as [f|] eqn:Ef.
  - exfalso. assert (X : m < G) by (apply (lj_ntk' _ _ J); congruence). lia.
  - destruct b; [destruct R|exact R].
Qed.

(* ---- collectionfinish ---- *)
Lemma list_eqb_str_eq a : forall b, list_eqb String.eqb a b = true -> a = b.
Proof.
  induction a as [|x a IH]; intros [|y b]; cbn; try discriminate; [reflexivity|].
  intros H. apply andb_true_iff in H. destruct H as (H1 & H2). apply String.eqb_eq in H1. subst y.
  f_equal. apply IH. exact H2.
Qed.

Lemma aget_in {V} n (m : amap V) v : aget n m = Some v -> In (n, v) m.
Proof.
  induction m as [|[k x] m IH]; cbn; [discriminate|]. destruct (Nat.eqb n k) eqn:E.
  - apply Nat.eqb_eq in E. subst k. intros H. inv H. left. reflexivity.
  - intros H. right. apply IH. exact H.
Qed.

Lemma coll_eqb_eq a b : coll_eqb a b = true -> a = b.
Proof. apply list_eqb_str_eq. Qed.

(* a late joiner whose collection differs from THE collection: the difference is logged and the node is shut down *)
Lemma add_coll_late_diff n ids ls c0 cr other rest :
  aget n (l_n2p ls) <> None -> l_collection_is_completed ls = true ->
  l_coll ls = Some (c0 :: cr) -> coll_eqb ids (c0 :: cr) = false -> l_n2c ls = (other, rest) :: tl (l_n2c ls) ->
  l_add_node_collection n ids ls =
  let '(s2, o2, r2) := node_shutdown l_nt l_set_nt n ls in (s2, OLogDiff other n :: o2, r2).
Proof.
  intros Hp Hc Ec Eq En. unfold l_add_node_collection. rewrite mbind_get. unfold massert, ahas.
  destruct (aget n (l_n2p ls)); [|congruence]. rewrite mbind_ret, Hc, Ec, Eq.
  unfold first_key. rewrite En. cbn [of_opt]. rewrite mbind_ret, mbind_emit. reflexivity.
Qed.

Lemma cmds_to_logdiff m a b vo : cmds_to m (OLogDiff a b :: vo) = cmds_to m vo.
Proof. reflexivity. Qed.
Lemma vfilter_cons_logdiff nt a b vo : vfilter nt (OLogDiff a b :: vo) = OLogDiff a b :: vfilter nt vo.
Proof. reflexivity. Qed.

Lemma handle_collfinish' n ids d ls d1 o1 r :
  DJ' d ls -> d_active d <> [] -> PRE' (QCollFinish n ids) d ls ->
  d_handle (QCollFinish n ids) d = (d1, o1, r) ->
  r = Ok tt /\ exists ls1 vo, o1 = vfilter (l_nt ls) vo /\ HEFF' (QCollFinish n ids) d ls d1 ls1 vo.
Proof.
  intros DJd Hact (HnG & Hnew & Hids) H. pose proof DJd as (J0 & Jss & Jemp & Jmis).
  pose proof J0 as [Els J Jb K1 RS K2 EX RQ AL FN].
  assert (SAMEST : forall x, (d, @nil out, x) = (d1, o1, r) -> x = Ok tt ->
                 r = Ok tt /\ exists ls1 vo, o1 = vfilter (l_nt ls) vo /\ HEFF' (QCollFinish n ids) d ls d1 ls1 vo).
  { intros x E Ex. inv E. split; [reflexivity|]. exists ls, []. split; [reflexivity|]. apply heff_same'; auto.
    - apply same_ctl'_refl.
    - intros m b E. discriminate.
    - intros k E. discriminate. }
  cbn [d_handle] in H. rewrite mbind_get in H.
  destruct (d_shuttingdown d) eqn:Esd; [eapply SAMEST; [exact H|reflexivity]|].
  rewrite Els in H. cbn [s_nodes] in H.
  destruct (mem_nat n (l_nodes ls)) eqn:Em; cbn [negb] in H; [|eapply SAMEST; [exact H|reflexivity]].
  clear SAMEST. apply mem_nat_In in Em.
  assert (Hss : d_shouldstop d = false) by (apply not_true_false; intros F; specialize (Jss F); congruence).
  assert (Hex : exhausted d = false) by (apply not_true_false; intros F; specialize (EX F); congruence).
  assert (Hp : aget n (l_n2p ls) <> None) by (apply aget_In_keys; exact Em).
  assert (Hkn : aget n (l_nt ls) <> None) by exact (nodes_known' _ ls J n Em).
  unfold hook in H. rewrite mbind_emit in H. unfold mbind at 1 in H.
  rewrite (sched_op_run _ d ls Els) in H. cbn [s_step] in H.
  set (lsa := l_set_n2c ls (aset n ids (l_n2c ls))) in *.
  assert (IDS : forall k x, In (k, x) (l_n2c lsa) -> x = collf k).
  { intros k x Hin. unfold lsa in Hin. cbn [l_n2c l_set_n2c] in Hin. apply in_aset in Hin.
    destruct Hin as [(-> & ->)|Hin]; [exact Hids|]. apply (lj_ids' _ _ J k). exact Hin. }
  assert (N2Ck : forall m, In m (akeys (l_n2c lsa)) -> m < d_next_gw d).
  { intros m Hm. apply akeys_aset_cases in Hm. destruct Hm as [->|Hm]; [exact HnG|apply (lj_n2c' _ _ J); exact Hm]. }
  assert (N2Cnd : NoDup (akeys (l_n2c lsa))) by (apply akeys_aset_nodup; apply J).
  assert (N2C : forall m, In m (akeys (l_n2c lsa)) -> In m (akeys (l_n2c ls)) \/ ev_sig (QCollFinish n ids) = Some (m, SgCF)).
  { intros m Hm. apply akeys_aset_cases in Hm. destruct Hm as [->|Hm]; [right; reflexivity|left; exact Hm]. }
  assert (CMONO : l_collection_is_completed ls = true -> l_collection_is_completed lsa = true).
  { unfold l_collection_is_completed, lsa. cbn [l_numnodes l_n2c l_set_n2c]. intros C. apply Nat.leb_le in C. apply Nat.leb_le.
    pose proof (length_aset_ge n ids (l_n2c ls)). lia. }
  assert (Hn2c : l_n2c lsa <> []).
  { unfold lsa. cbn [l_n2c l_set_n2c]. destruct (l_n2c ls) as [|[k v] rr]; cbn; [discriminate|].
    destruct (Nat.eqb n k); discriminate. }
  assert (Hnodes : l_nodes lsa <> []) by (intros F; change (l_nodes lsa) with (l_nodes ls) in F; rewrite F in Em; destruct Em).
  assert (CC : forall o2 m, cmds_to m (OHook (HCollFinished n) :: o2) = cmds_to m o2) by reflexivity.
  destruct (l_collection_is_completed ls) eqn:Hc.
  - (* a late joiner (replacement worker): its collection is compared with THE collection *)
    destruct (l_coll ls) as [[|c0 cr]|] eqn:Ecoll; [specialize (Jemp eq_refl); congruence| |specialize (Jmis eq_refl eq_refl); congruence].
    destruct (coll_eqb ids (c0 :: cr)) eqn:Eeq.
    + (* the same collection: the node is taken on, then schedule() *)
      pose proof (coll_eqb_eq _ _ Eeq) as Hids'.
      rewrite (add_coll_late n ids ls c0 cr Hp Hc Ecoll Hids') in H. cbn [lift] in H.
      rewrite mbind_get in H. cbn [d_sched d_set_sched s_collection_is_completed app] in H.
      change (l_collection_is_completed (l_set_n2c ls (aset n ids (l_n2c ls)))) with (l_collection_is_completed lsa) in H.
      rewrite (CMONO eq_refl) in H.
      unfold mbind at 1 in H. rewrite (sched_op_run _ (d_set_sched d (StL lsa)) lsa eq_refl) in H. cbn [s_step] in H.
      destruct (l_schedule lsa) as [[ls1 o2] r2] eqn:Es. cbn [lift] in H.
      pose proof Es as Es'. rewrite (schedule_again_run lsa (c0 :: cr) (CMONO eq_refl) Ecoll) in Es'.
      assert (Hl : forall m, In m (l_nodes lsa) -> aget m (l_nt lsa) <> None /\ aget m (l_n2p lsa) <> None).
      { intros m Hm. split; [exact (nodes_known' _ ls J m Hm)|apply aget_In_keys; exact Hm]. }
      destruct (mfor_check_TRv _ _ _ _ _ _ Hl (lj_pchunk _ _ J) Es') as (-> & vo & T & Evo).
      unfold no_str, ret in H. inv H. rewrite app_nil_r.
      destruct (tr_keeps _ _ _ (proj1 T)) as (Kc & Kn & Km & Kch & Kk).
      assert (Kcomp : l_collection_is_completed ls1 = true).
      { rewrite (completed_keeps lsa ls1 Kn Km). apply CMONO. reflexivity. }
      assert (J1 : LJ' (d_next_gw d) ls1).
      { constructor.
        - rewrite Km. apply J.
        - intros k. rewrite (TR0_nt_keys _ _ _ k (proj1 T)). apply J.
        - unfold l_nodes. rewrite Kk. apply J.
        - unfold l_nodes. rewrite Kk. apply J.
        - rewrite Kn. exact N2Ck.
        - rewrite Kn. exact N2Cnd.
        - rewrite Kc, Kch. apply J.
        - intros _. exact Kcomp.
        - rewrite Kn. exact IDS.
        - intros X HX _. rewrite Kc. change (l_coll lsa) with (l_coll ls). rewrite Ecoll. f_equal.
          rewrite Kn in HX. apply (HX n). unfold lsa. cbn [l_n2c l_set_n2c].
          rewrite <- Hids'. apply aget_in. apply aget_aset_eq.
        - rewrite Kc. cbn [lsa l_coll l_set_n2c]. rewrite Ecoll. discriminate.
        - destruct (l_schedule_again _ _ _ _ Es Ecoll) as (_ & V). apply V.
          intros coll Ec i Hi. exact (lj_valid' _ _ J coll Ec i Hi). }
      split; [reflexivity|]. exists ls1, (OHook (HCollFinished n) :: vo). split; [reflexivity|]. constructor.
      * apply (DJ0'_sched d ls lsa ls1 vo J0 T eq_refl J1).
        -- rewrite Kc. cbn [lsa l_coll l_set_n2c]. rewrite Ecoll. discriminate.
        -- unfold l_nodes. rewrite Kk. exact Jb.
        -- intros (_ & P). exact P.
      * intros m _. rewrite CC. apply (tr_nt _ _ _ (proj1 T) m).
      * intros m Hm. rewrite CC. eapply (NRo_out _ ls m); [exact J|exact Hm|apply (tr_nt _ _ _ (proj1 T) m)].
      * intros m. rewrite CC. cbn [bookmid']. apply (tr_bk _ _ _ (proj1 T) m).
      * intros m Hm. left. unfold l_nodes in *. rewrite Kk in Hm. exact Hm.
      * intros m Hm. rewrite Kn in Hm. apply N2C. exact Hm.
      * intros m Hm. left. exact Hm.
      * cbn. intros _ F. contradiction.
      * cbn. auto.
      * intros m E. discriminate.
      * left. reflexivity.
      * intros k E. discriminate.
      * apply (TR0_closed _ _ _ (proj1 T)).
      * intros m Hm. left. exact Hm.
      * intros Hr. split; [exact Hr|]. apply tok_same; [reflexivity|rewrite Kc; reflexivity|].
        destruct (l_schedule_again _ _ _ _ Es Ecoll) as (((Pm & _) & _ & _) & _). exact Pm.
    + (* a different collection: logged, the node is shut down and not taken on; then schedule() *)
      assert (En2c : exists other rest, l_n2c ls = (other, rest) :: tl (l_n2c ls)).
      { destruct (l_n2c ls) as [|[k v] rr] eqn:E; [|eauto]. exfalso.
        unfold l_collection_is_completed in Hc. rewrite E, (lj_num' _ _ J) in Hc. cbn in Hc. apply Nat.leb_le in Hc. lia. }
      destruct En2c as (other & rest0 & En2c).
      rewrite (add_coll_late_diff n ids ls c0 cr other rest0 Hp Hc Ecoll Eeq En2c) in H.
      destruct (node_shutdown l_nt l_set_nt n ls) as [[lsd od] rd] eqn:Esdn.
      destruct (node_shutdown_TR0x _ _ _ _ _ Hkn Esdn) as (-> & Pd & Bd & vod & Td & Evd & Cd). cbn [lift] in H.
      destruct (tr_keeps _ _ _ Td) as (Kcd & Knd & Kmd & Kchd & Kkd).
      assert (Jd : LJ' (d_next_gw d) lsd) by (eapply LJ'_TR0; eauto).
      assert (Hcd : l_collection_is_completed lsd = true) by (rewrite (completed_keeps ls lsd Knd Kmd); exact Hc).
      assert (Ecd : l_coll lsd = Some (c0 :: cr)) by (rewrite Kcd; exact Ecoll).
      rewrite mbind_get in H. cbn [d_sched d_set_sched s_collection_is_completed app] in H. rewrite Hcd in H.
      unfold mbind at 1 in H. rewrite (sched_op_run _ (d_set_sched d (StL lsd)) lsd eq_refl) in H. cbn [s_step] in H.
      destruct (l_schedule lsd) as [[ls1 o2] r2] eqn:Es. cbn [lift] in H.
      pose proof Es as Es'. rewrite (schedule_again_run lsd (c0 :: cr) Hcd Ecd) in Es'.
      assert (Hl : forall m, In m (l_nodes lsd) -> aget m (l_nt lsd) <> None /\ aget m (l_n2p lsd) <> None).
      { intros m Hm. split; [exact (nodes_known' _ lsd Jd m Hm)|apply aget_In_keys; exact Hm]. }
      destruct (mfor_check_TRv _ _ _ _ _ _ Hl (lj_pchunk _ _ Jd) Es') as (-> & vo & T & Evo).
      unfold no_str, ret in H. inv H. rewrite app_nil_r.
      destruct (tr_keeps _ _ _ (proj1 T)) as (Kc & Kn & Km & Kch & Kk).
      assert (V1 : valid ls1).
      { destruct (l_schedule_again _ _ _ _ Es Ecd) as (_ & V). apply V. exact (lj_valid' _ _ Jd). }
      assert (J1 : LJ' (d_next_gw d) ls1).
      { eapply LJ'_TR; [exact Jd|apply T|rewrite Ecd; discriminate|exact V1]. }
      assert (J0d : DJ0' (d_set_sched d (StL lsd)) lsd).
      { constructor; dproj'.
        - reflexivity.
        - exact Jd.
        - unfold l_nodes. rewrite Bd. exact Jb.
        - intros F. congruence.
        - rewrite Esd. discriminate.
        - intros HS _ _. exfalso.
          pose proof (lj_coll_same _ _ HS J Hc) as E0. rewrite Ecoll in E0. injection E0 as E0.
          assert (X : coll_eqb (collf n) (c0 :: cr) = true) by (rewrite (HS n), E0; apply coll_eqb_refl).
          congruence.
        - rewrite Esd. exact EX.
        - exact RQ.
        - exact AL.
        - exact FN. }
      split; [reflexivity|]. exists ls1, (OHook (HCollFinished n) :: OLogDiff other n :: vod ++ vo).
      split.
      { rewrite vfilter_cons_hook0, vfilter_cons_logdiff, vfilter_app. f_equal. f_equal. f_equal.
        apply vfilter_ext. apply (TR0_closed _ _ _ Td). }
      assert (CC2 : forall m, cmds_to m (OHook (HCollFinished n) :: OLogDiff other n :: vod ++ vo) = cmds_to m vod ++ cmds_to m vo).
      { intros m. rewrite CC, cmds_to_logdiff, cmds_to_app. reflexivity. }
      constructor.
      * apply (DJ0'_sched (d_set_sched d (StL lsd)) lsd lsd ls1 vo J0d T eq_refl J1).
        -- rewrite Kc, Ecd. discriminate.
        -- dproj'. unfold l_nodes. rewrite Kk, Bd. exact Jb.
        -- intros (_ & P). exact P.
      * intros m _. rewrite CC2. eapply NRo_trans; [apply (tr_nt _ _ _ Td m)|apply (tr_nt _ _ _ (proj1 T) m)].
      * intros m Hm. rewrite CC2. rewrite (NRo_out _ ls m _ _ J Hm (tr_nt _ _ _ Td m)).
        rewrite (NRo_out _ lsd m _ _ Jd Hm (tr_nt _ _ _ (proj1 T) m)). reflexivity.
      * intros m. rewrite CC2, flat_map_app, (tr_bk _ _ _ (proj1 T) m), (tr_bk _ _ _ Td m). cbn [bookmid']. rewrite <- app_assoc. reflexivity.
      * intros m Hm. left. unfold l_nodes in *. rewrite Kk, Bd in Hm. exact Hm.
      * intros m Hm. left. rewrite Kn, Knd in Hm. exact Hm.
      * intros m Hm. left. exact Hm.
      * cbn. intros _ F. contradiction.
      * cbn. auto.
      * intros m E. discriminate.
      * left. reflexivity.
      * intros k E. discriminate.
      * intros m. rewrite (TR0_closed _ _ _ (proj1 T) m). apply (TR0_closed _ _ _ Td m).
      * intros m Hm. left. exact Hm.
      * intros Hr. split; [exact Hr|]. apply tok_same; [reflexivity|rewrite Kc; exact Kcd|].
        destruct (l_schedule_again _ _ _ _ Es Ecd) as (((Pm & _) & _ & _) & _). rewrite Pm, (tokens_eq _ _ Pd Bd). reflexivity.
  - (* one of the initial collections *)
    assert (Ecoll : l_coll ls = None).
    { destruct (l_coll ls) eqn:E; [|reflexivity]. rewrite (lj_cc' _ _ J) in Hc; [discriminate|]. rewrite E. discriminate. }
    destruct (lj_i3' _ _ J Ecoll) as (Ep0 & Eb0).
    assert (NOSD : forall m f, aget m (l_nt ls) = Some f -> n_sdsent f = false) by (apply (dj_k1 _ _ J0); assumption).
    rewrite (add_coll_run n ids ls Hp Hc) in H. cbn [lift] in H. fold lsa in H.
    rewrite mbind_get in H. cbn [d_sched d_set_sched s_collection_is_completed app] in H.
    destruct (l_collection_is_completed lsa) eqn:Eca.
    + (* the last collection: schedule() *)
      unfold mbind at 1 in H. rewrite (sched_op_run _ (d_set_sched d (StL lsa)) lsa eq_refl) in H. cbn [s_step] in H.
      destruct (l_schedule lsa) as [[ls1 o2] r2] eqn:Es. cbn [lift] in H.
      assert (Hready : forall m, In m (l_nodes lsa) -> node_ready lsa m).
      { intros m Hm. split; [apply aget_In_keys; exact Hm|].
        destruct (aget m (l_nt ls)) as [f|] eqn:Ef.
        - exists f. split; [exact Ef|]. eapply NOSD; eauto.
        - exfalso. exact (nodes_known' _ ls J m Hm Ef). }
      destruct (schedule_first_TRv lsa ls1 o2 r2 Ecoll Ep0 Eca Hn2c Hnodes Hready Es)
        as (-> & vo & Evo & Tnt & Tbk & Tk & Tn2c & Tnum & Tch & Tch2 & Tsdp & Tcn & Tcoll).
      unfold no_str, ret in H. inv H. rewrite app_nil_r.
      assert (Hc1 : l_collection_is_completed ls1 = true).
      { unfold l_collection_is_completed in *. rewrite Tnum, Tn2c. exact Eca. }
      assert (L8 := l_schedule_L8 _ _ _ Es Ecoll Ep0 Eb0).
      assert (J1 : LJ' (d_next_gw d) ls1).
      { constructor.
        - rewrite Tnum. exact (lj_num' _ _ J).
        - intros m. rewrite (NRo_keys' _ _ _ (Tnt m)). apply (lj_ntk' _ _ J).
        - unfold l_nodes. rewrite Tk. exact (lj_nodes' _ _ J).
        - unfold l_nodes. rewrite Tk. exact (lj_wf' _ _ J).
        - rewrite Tn2c. exact N2Ck.
        - rewrite Tn2c. exact N2Cnd.
        - exact Tch2.
        - intros _. exact Hc1.
        - rewrite Tn2c. exact IDS.
        - intros X HX _. apply Tcoll. rewrite <- Tn2c. exact HX.
        - intros Ec1. destruct L8 as [(_ & -> & _)|(coll & F & _)]; [|congruence]. split; [exact Ep0|exact Eb0].
        - destruct L8 as [(_ & -> & _)|(coll & _ & _ & _ & _ & _ & V)]; [|exact V].
          intros coll Ec. cbn [lsa l_coll l_set_n2c] in Ec. congruence. }
      split; [reflexivity|]. exists ls1, (OHook (HCollFinished n) :: vo). split; [reflexivity|]. constructor.
      * constructor; dproj'.
        -- reflexivity.
        -- exact J1.
        -- unfold l_nodes. rewrite Tk. exact Jb.
        -- intros F. congruence.
        -- intros _. right. right. exact Hc1.
        -- intros HS H1 H2. specialize (K2 HS eq_refl H2).
           eapply k2_step; [| | |exact K2].
           ++ intros m f Ef. pose proof (Tnt m) as R. change (l_nt lsa) with (l_nt ls) in R. rewrite Ef in R.
              destruct (aget m (l_nt ls1)) as [f1|]; [eauto|destruct R].
           ++ intros m f1 Ef1 Hs. destruct (NRo_open _ _ _ _ (Tnt m) Ef1) as (f & Ef & R).
              destruct (NR_fields _ _ _ R) as (_ & _ & _ & D & _). apply D in Hs. destruct Hs as [Hs|Hs].
              ** left. exists f. auto.
              ** right. split; [exact Hc1|]. apply Tsdp. exists m. exact Hs.
           ++ intros (F & _). congruence.
        -- rewrite Esd. exact EX.
        -- exact RQ.
        -- exact AL.
        -- exact FN.
      * intros m _. rewrite CC. apply Tnt.
      * intros m Hm. rewrite CC. eapply (NRo_out _ ls m); [exact J|exact Hm|apply (Tnt m)].
      * intros m. rewrite CC. cbn [bookmid']. apply Tbk.
      * intros m Hm. left. unfold l_nodes in *. rewrite Tk in Hm. exact Hm.
      * intros m Hm. rewrite Tn2c in Hm. apply N2C. exact Hm.
      * intros m Hm. left. exact Hm.
      * cbn. intros _ F. contradiction.
      * cbn. auto.
      * intros m E. discriminate.
      * left. reflexivity.
      * intros k E. discriminate.
      * intros m. apply (NRo_closed (l_nt lsa)) with (cs := cmds_to m vo). apply Tnt.
      * intros m Hm. left. exact Hm.
      * intros Hr. split; [exact Hr|]. split; [intros X HX; congruence|]. intros coll Ec1. rewrite Ecoll. cbn [evtok app].
        destruct L8 as [(F & _)|(coll0 & Ec0 & Pm & _)]; [congruence|]. rewrite Ec0 in Ec1. injection Ec1 as <-. exact Pm.
    + (* not the last one *)
      unfold ret in H. inv H.
      split; [reflexivity|]. exists lsa, [OHook (HCollFinished n)]. split; [reflexivity|]. constructor.
      * constructor; dproj'; rewrite ?Esd; try assumption.
        -- reflexivity.
        -- constructor; [exact (lj_num' _ _ J)|exact (lj_ntk' _ _ J)|exact (lj_nodes' _ _ J)|exact (lj_wf' _ _ J)|exact N2Ck|exact N2Cnd
                        | | |exact IDS| |exact (lj_i3' _ _ J)|].
           ++ intros X F. cbn [lsa l_coll l_set_n2c] in F. congruence.
           ++ intros F. exfalso. apply F. exact Ecoll.
           ++ intros X _ F. congruence.
           ++ intros coll Ec. cbn [lsa l_coll l_set_n2c] in Ec. congruence.
        -- intros _. apply (dj_k1 _ _ J0); assumption.
        -- discriminate.
        -- intros HS H1 H2. destruct (K2 HS eq_refl H2) as [X|(F & _)]; [left; exact X|congruence].
      * intros m _. apply NRo_refl.
      * intros m _. reflexivity.
      * intros m. cbn. rewrite app_nil_r. reflexivity.
      * intros m Hm. left. exact Hm.
      * exact N2C.
      * intros m Hm. left. exact Hm.
      * cbn. intros _ F. contradiction.
      * cbn. auto.
      * intros m E. discriminate.
      * left. reflexivity.
      * intros k E. discriminate.
      * reflexivity.
      * intros m Hm. left. exact Hm.
      * intros Hr. split; [exact Hr|]. apply tok_same; reflexivity.
Qed.

(* the state between "del node2pending[node]" and the rescheduling loop of remove_node *)
Lemma rm_mid_LJ G n ls i rest :
  LJ' G ls -> aget n (l_n2p ls) = Some (i :: rest) ->
  let s0 := l_set_pending (rm_state n ls) (l_pending ls ++ rest) in
  LJ' G s0 /\ l_nt s0 = l_nt ls /\ l_coll s0 = l_coll ls /\
  (forall m, bk s0 m = if Nat.eqb m n then [] else bk ls m) /\
  (forall m, In m (l_nodes s0) -> In m (l_nodes ls) /\ m <> n) /\
  (forall m, In m (akeys (l_n2c s0)) -> In m (akeys (l_n2c ls))) /\
  (forall x, In x (tokens s0) -> In x (tokens ls)).
Proof.
  intros J Hbook s0. destruct (rm_state_fields n ls) as (Fp & Fq & Fc & Fn & Fch & Fm).
  assert (Hcoll : l_coll ls <> None) by (eapply books_nonempty_coll; eauto).
  assert (Fcback : l_collection_is_completed (rm_state n ls) = true -> l_collection_is_completed ls = true).
  { intros C1. destruct (l_collection_is_completed ls) eqn:C0; [auto|]. exfalso.
    unfold l_collection_is_completed in C0, C1. rewrite Fm, rm_state_n2c in C1.
    change (l_numnodes ls <=? length (l_n2c ls)) with (l_collection_is_completed ls) in C1.
    unfold l_collection_is_completed in C1. rewrite C0 in C1.
    apply Nat.leb_le in C1. apply Nat.leb_gt in C0. pose proof (length_adel_le n (l_n2c ls)). lia. }
  assert (Fnodes : forall m, In m (l_nodes s0) -> In m (l_nodes ls) /\ m <> n).
  { intros m Hm. unfold l_nodes, s0 in *. cbn [l_n2p l_set_pending] in Hm. rewrite Fp in Hm. split; [eapply adel_keys_incl; eauto|].
    intros ->. exact (adel_not_key _ _ _ (lj_wf' _ _ J) Hm). }
  assert (Fn2c : forall m, In m (akeys (l_n2c s0)) -> In m (akeys (l_n2c ls))).
  { intros m. unfold s0. cbn [l_n2c l_set_pending]. rewrite rm_state_n2c. destruct (l_collection_is_completed ls); [auto|]. apply adel_keys_incl. }
  assert (Fent : forall x, In x (l_n2c s0) -> In x (l_n2c ls)).
  { intros x. unfold s0. cbn [l_n2c l_set_pending]. rewrite rm_state_n2c. destruct (l_collection_is_completed ls); [auto|]. apply in_adel. }
  assert (Ftok : forall x, In x (tokens s0) -> In x (tokens ls)).
  { intros x Hx. unfold tokens, books, s0 in *. cbn [l_pending l_n2p l_set_pending] in Hx. rewrite Fp in Hx.
    pose proof (flat_snd_adel _ _ _ Hbook) as P.
    apply in_or_app. rewrite <- app_assoc in Hx. apply in_app_or in Hx. destruct Hx as [Hx|Hx]; [left; exact Hx|right].
    eapply Permutation_in; [apply Permutation_sym; exact P|]. cbn [app]. right. exact Hx. }
  assert (Ecomp : l_collection_is_completed s0 = l_collection_is_completed (rm_state n ls)) by reflexivity.
  split; [|split; [exact Fn|split; [exact Fc|split; [|split; [exact Fnodes|split; [exact Fn2c|exact Ftok]]]]]].
  - constructor.
    + unfold s0. cbn [l_numnodes l_set_pending]. rewrite Fm. apply J.
    + unfold s0. cbn [l_nt l_set_pending]. rewrite Fn. apply J.
    + intros m Hm. apply (lj_nodes' _ _ J). apply Fnodes. exact Hm.
    + unfold l_nodes, s0. cbn [l_n2p l_set_pending]. rewrite Fp. apply adel_nodup. apply J.
    + intros m Hm. apply (lj_n2c' _ _ J). apply Fn2c. exact Hm.
    + unfold s0. cbn [l_n2c l_set_pending]. rewrite rm_state_n2c. destruct (l_collection_is_completed ls); [apply J|apply adel_nodup; apply J].
    + unfold s0. cbn [l_coll l_chunk l_set_pending]. rewrite Fc, Fch. apply J.
    + unfold s0 at 1. cbn [l_coll l_set_pending]. rewrite Fc, Ecomp. intros Hc. apply rm_state_completed. apply (lj_cc' _ _ J). exact Hc.
    + intros k ids Hin. apply (lj_ids' _ _ J k). apply Fent. exact Hin.
    + rewrite Ecomp. intros X HX C1. pose proof (Fcback C1) as C0. unfold s0 in HX |- *. cbn [l_coll l_n2c l_set_pending] in HX |- *.
      rewrite Fc. apply (lj_coll' _ _ J X); [|exact C0]. rewrite rm_state_n2c, C0 in HX. exact HX.
    + unfold s0 at 1. cbn [l_coll l_set_pending]. rewrite Fc. intros F. contradiction.
    + intros coll Ec x Hx. unfold s0 in Ec. cbn [l_coll l_set_pending] in Ec. rewrite Fc in Ec.
      apply (lj_valid' _ _ J coll Ec). apply Ftok. exact Hx.
  - intros m. unfold bk, s0. cbn [l_n2p l_set_pending]. rewrite Fp. destruct (Nat.eqb m n) eqn:E.
    + apply Nat.eqb_eq in E. subst m. apply alist_get_none. apply aget_adel_eq. apply J.
    + apply Nat.eqb_neq in E. unfold alist_get. rewrite aget_adel_neq by exact E. reflexivity.
Qed.

Lemma In_vfilter_hook nt h vo : In (OHook h) (vfilter nt vo) <-> In (OHook h) vo.
Proof. unfold vfilter. rewrite filter_In. cbn. tauto. Qed.


Lemma index_of_str_in x l : In x l -> exists i, index_of_str x l = Some i.
Proof.
  induction l as [|y l IH]; [intros []|]. intros Hin. cbn. destruct (String.eqb x y) eqn:E; [eauto|].
  destruct Hin as [->|Hin]; [rewrite String.eqb_refl in E; discriminate|].
  destruct (IH Hin) as (i & ->). eauto.
Qed.

(* mark_test_pending (a plugin re-queues the crash item): the FIRST index carrying that id goes to the
   FRONT of the pool, then the rescheduling loop runs *)
Lemma mark_pending_eff G item ls ls' o r X :
  LJ' G ls -> l_coll ls = Some X -> In item X ->
  l_mark_test_pending item ls = (ls', o, r) ->
  r = Ok tt /\ exists idx, TRv (l_set_pending ls (idx :: l_pending ls)) ls' o /\ LJ' G ls'.
Proof.
  intros J Ec Hin H. destruct (index_of_str_in _ _ Hin) as (idx & Ei).
  pose proof H as H0. rewrite (proj1 (l_mark_test_pending_L7_front _ _ _ _ Ec Ei)) in H.
  assert (Hc : l_coll ls <> None) by (rewrite Ec; discriminate).
  assert (HX0 : X <> []) by (intros E; rewrite E in Hin; destruct Hin).
  assert (Hl : forall m, In m (akeys (l_n2p ls)) ->
             aget m (l_nt (l_set_pending ls (idx :: l_pending ls))) <> None /\
             aget m (l_n2p (l_set_pending ls (idx :: l_pending ls))) <> None).
  { intros m Hm. split; [exact (nodes_known' _ ls J m Hm)|apply aget_In_keys; exact Hm]. }
  destruct (mfor_check_TRv _ _ _ _ _ _ Hl (fun _ => lj_chunk' _ _ J X Ec HX0) H) as (-> & T).
  split; [reflexivity|]. exists idx. split; [exact T|].
  assert (J0 : LJ' G (l_set_pending ls (idx :: l_pending ls))).
  { destruct J as [A1 A2 A3 A4 A5 A6 A7 A8 A9 A10 A11 A12].
    constructor; [exact A1|exact A2|exact A3|exact A4|exact A5|exact A6|exact A7|exact A8|exact A9|exact A10| |].
    - cbn [l_coll l_set_pending]. intros F. contradiction.
    - intros coll Ec' x Hx. cbn [l_coll l_set_pending] in Ec'. unfold tokens in Hx. cbn [l_pending l_set_pending] in Hx.
      destruct Hx as [<-|Hx].
      + rewrite Ec in Ec'. inv Ec'. eapply index_of_str_lt; eauto.
      + apply (A12 coll Ec'). exact Hx. }
  destruct T as (vo & (T & _) & _). eapply LJ'_TR; [exact J0|exact T|exact Hc|].
  eapply l_mark_test_pending_valid; [exact H0|apply J].
Qed.

(* try: crashitem = sched.remove_node(node) / except KeyError: pass / else: handle_crashitem *)
Lemma try_block_eff n d ls d1 o1 r :
  DJ0' d ls -> try_block n d = (d1, o1, r) ->
  r = Ok tt /\ exists ls1 vo rq, d1 = d_set_requeue (d_set_sched d (StL ls1)) rq /\ o1 = vfilter (l_nt ls) vo /\
    LJ' (d_next_gw d) ls1 /\
    (forall m, NRo (aget m (l_nt ls)) (cmds_to m vo) (aget m (l_nt ls1))) /\
    (forall m, bk ls1 m = (if Nat.eqb m n then [] else bk ls m) ++ flat_map cmd_inds (cmds_to m vo)) /\
    (forall m, In m (l_nodes ls1) -> In m (l_nodes ls) /\ m <> n) /\
    (forall m, In m (akeys (l_n2c ls1)) -> In m (akeys (l_n2c ls))) /\
    l_coll ls1 = l_coll ls /\
    (forall m f1, aget m (l_nt ls1) = Some f1 -> n_sdsent f1 = true ->
       (exists f, aget m (l_nt ls) = Some f /\ n_sdsent f = true) \/ l_coll ls <> None) /\
    (forall t k, In (OHook (HCrashReport t k)) vo ->
       k = n /\ exists X i rest, l_coll ls = Some X /\ bk ls n = i :: rest /\ nth_error X i = Some t) /\
    (l_collection_is_completed ls = true -> l_collection_is_completed ls1 = true) /\
    (d_requeue d = 0 -> rq = 0 /\ Permutation (firstn 1 (bk ls n) ++ tokens ls1) (tokens ls)).
Proof.
  intros [Els J Jb K1 RS K2 EX RQ AL FN] H. unfold try_block in H.
  rewrite (sched_op_run _ d ls Els) in H. cbn [s_step] in H.
  destruct (l_remove_node n ls) as [[ls2 o2] r2] eqn:Er. cbn [lift] in H.
  destruct (aget n (l_n2p ls)) as [[|i rest]|] eqn:Eb.
  - (* empty book *)
    destruct (remove_empty_facts _ n ls J Eb) as (Er' & Fn & Fq & Fc & Fbk & Fnodes & Fn2c & Fcomp & J1).
    rewrite Er' in Er. inv Er. inv H. split; [reflexivity|]. exists (rm_state n ls), [], (d_requeue d).
    split; [reflexivity|]. split; [reflexivity|]. split; [exact J1|].
    split; [intros m; rewrite Fn; apply NRo_refl|].
    split. { intros m. cbn. rewrite app_nil_r, Fbk. destruct (Nat.eqb m n) eqn:E; [|reflexivity].
             apply Nat.eqb_eq in E. subst m. unfold bk, alist_get. rewrite Eb. reflexivity. }
    split; [exact Fnodes|]. split; [exact Fn2c|]. split; [exact Fc|].
    split. { intros m f1 Ef1 Hs. left. rewrite Fn in Ef1. eauto. }
    split; [intros t k []|]. split; [exact Fcomp|]. intros Hr. split; [exact Hr|].
    unfold bk, alist_get. rewrite Eb. cbn [firstn app]. rewrite (remove_empty_tokens n ls Eb). reflexivity.
  - (* the head of the book is the crash item *)
    assert (Hcoll : l_coll ls <> None) by (eapply books_nonempty_coll; eauto).
    assert (EXc : exists X, l_coll ls = Some X) by (destruct (l_coll ls) as [X|]; [eauto|contradiction]).
    destruct EXc as (X & Ecoll).
    assert (Hi : i < length X).
    { apply (lj_valid' _ _ J X Ecoll). unfold tokens, books. apply in_or_app. right.
      destruct (aget_split _ _ _ _ Eb) as (pre & post & Hm & _). rewrite Hm, flat_map_app. apply in_or_app. right.
      cbn. left. reflexivity. }
    destruct (nth_error X i) as [item|] eqn:Enth; [|apply nth_error_None in Enth; lia].
    destruct (rm_mid_LJ _ n ls i rest J Eb) as (J0s & Fn & Fc & Fbk & Fnodes & Fn2c & Ftok).
    cbv zeta in J0s, Fn, Fc, Fbk, Fnodes, Fn2c, Ftok.
    assert (HX0 : X <> []) by (intros E; rewrite E in Hi; cbn in Hi; lia).
    assert (Hk : forall m, In m (akeys (adel n (l_n2p ls))) -> aget m (l_nt ls) <> None).
    { intros m Hm. apply (nodes_known' _ ls J). eapply adel_keys_incl; eauto. }
    destruct (remove_node_TRv _ _ _ _ _ _ _ _ _ Eb Ecoll Enth Hk (lj_chunk' _ _ J X Ecoll HX0) Er) as (-> & vo & T & Evo).
    cbn [lift] in H.
    assert (V1 : valid ls2).
    { destruct (l_remove_node_L6 _ _ _ _ _ _ _ _ _ Er Eb Ecoll Enth) as (_ & _ & _ & P & Ec2).
      intros coll Ec x Hx. rewrite Ec2 in Ec. injection Ec as <-. apply (lj_valid' _ _ J X Ecoll).
      eapply Permutation_in; [exact P|]. right. exact Hx. }
    assert (J1 : LJ' (d_next_gw d) ls2).
    { eapply LJ'_TR; [exact J0s|apply T| |exact V1]. rewrite Fc. exact Hcoll. }
    destruct (tr_keeps _ _ _ (proj1 T)) as (Kc & Kn & Km & Kch & Kk).
    assert (NH : Forall not_hook o2) by (eapply (nh_l_remove n); exact Er).
    assert (Ec2 : l_coll ls2 = Some X) by (rewrite Kc, Fc; exact Ecoll).
    assert (CLA : forall m, closedb (l_nt ls2) m = closedb (l_nt ls) m).
    { intros m. rewrite (TR0_closed _ _ _ (proj1 T) m). unfold closedb. rewrite Fn. reflexivity. }
    (* handle_crashitem *)
    unfold d_handle_crashitem, hook in H. rewrite mbind_emit, mbind_get in H. cbn [d_requeue d_set_sched] in H.
    destruct (d_requeue d) as [|k] eqn:Erq.
    + (* the item is not re-queued *)
      rewrite mbind_ret in H. unfold emit in H. inv H.
      split; [reflexivity|]. exists ls2, (vo ++ [OHook (HCrashItem item n); OHook (HCrashReport item n)]), 0.
      split; [rewrite <- Erq; reflexivity|].
      split. { rewrite vfilter_app, Fn. reflexivity. }
      split; [exact J1|].
      assert (CC : forall m, cmds_to m (vo ++ [OHook (HCrashItem item n); OHook (HCrashReport item n)]) = cmds_to m vo).
      { intros m. rewrite cmds_to_app. cbn. apply app_nil_r. }
      split. { intros m. rewrite CC, <- Fn. apply (tr_nt _ _ _ (proj1 T) m). }
      split. { intros m. rewrite CC, (tr_bk _ _ _ (proj1 T) m), Fbk. reflexivity. }
      split. { intros m Hm. apply Fnodes. unfold l_nodes in *. rewrite <- Kk. exact Hm. }
      split. { intros m Hm. apply Fn2c. rewrite <- Kn. exact Hm. }
      split; [rewrite Kc; exact Fc|].
      split. { intros m f1 Ef1 Hs. right. exact Hcoll. }
      split; [|split; [intros _; apply (lj_cc' _ _ J1); rewrite Ec2; discriminate|]].
      2:{ intros _. split; [reflexivity|]. unfold bk, alist_get. rewrite Eb. cbn [firstn app].
          exact (proj1 (proj2 (proj2 (proj2 (l_remove_node_L6 _ _ _ _ _ _ _ _ _ Er Eb Ecoll Enth))))). }
      intros t k Hin. apply in_app_or in Hin. destruct Hin as [Hin|[Hin|[Hin|[]]]]; try discriminate.
      * exfalso. rewrite Forall_forall in NH. apply (NH (OHook (HCrashReport t k))). apply In_vfilter_hook. exact Hin.
      * inv Hin. split; [reflexivity|]. exists X, i, rest. split; [exact Ecoll|]. split; [|exact Enth]. unfold bk, alist_get. rewrite Eb. reflexivity.
    + (* a plugin re-queues the item: mark_test_pending *)
      unfold mbind, put in H.
      rewrite (sched_op_run _ (d_set_requeue (d_set_sched d (StL ls2)) k) ls2 eq_refl) in H. cbn [s_step] in H.
      destruct (l_mark_test_pending item ls2) as [[ls3 o3] r3] eqn:Emp. cbn [lift] in H.
      assert (Hitem : In item X) by (eapply nth_error_In; eauto).
      destruct (mark_pending_eff _ item ls2 ls3 o3 r3 X J1 Ec2 Hitem Emp) as (-> & idx & (vo3 & T3 & Evo3) & J3).
      unfold no_str, ret, emit in H. cbn [app] in H. inv H.
      destruct (tr_keeps _ _ _ (proj1 T3)) as (Kc3 & Kn3 & Km3 & Kch3 & Kk3).
      assert (NH3 : Forall not_hook (vfilter (l_nt (l_set_pending ls2 (idx :: l_pending ls2))) vo3)).
      { eapply (nh_l_pending item). exact Emp. }
      split; [reflexivity|].
      exists ls3, (vo ++ OHook (HCrashItem item n) :: vo3 ++ [OHook (HCrashReport item n)]), k.
      split; [reflexivity|].
      split. { rewrite vfilter_app, Fn. f_equal. rewrite vfilter_cons_hook0. f_equal. rewrite vfilter_app, app_nil_r.
               f_equal. apply vfilter_ext. exact CLA. }
      split; [exact J3|].
      assert (CC : forall m, cmds_to m (vo ++ OHook (HCrashItem item n) :: vo3 ++ [OHook (HCrashReport item n)]) = cmds_to m vo ++ cmds_to m vo3).
      { intros m. rewrite cmds_to_app, cmds_to_hook0, cmds_to_app. cbn. rewrite app_nil_r. reflexivity. }
      split. { intros m. rewrite CC. eapply NRo_trans; [rewrite <- Fn; apply (tr_nt _ _ _ (proj1 T) m)|apply (tr_nt _ _ _ (proj1 T3) m)]. }
      split. { intros m. rewrite CC, flat_map_app, (tr_bk _ _ _ (proj1 T3) m). change (bk (l_set_pending ls2 (idx :: l_pending ls2)) m) with (bk ls2 m).
               rewrite (tr_bk _ _ _ (proj1 T) m), Fbk, <- app_assoc. reflexivity. }
      split. { intros m Hm. apply Fnodes. unfold l_nodes in *. rewrite <- Kk. rewrite Kk3 in Hm. exact Hm. }
      split. { intros m Hm. apply Fn2c. rewrite <- Kn. rewrite Kn3 in Hm. exact Hm. }
      split; [rewrite Kc3; exact (eq_trans Kc Fc)|].
      split. { intros m f1 Ef1 Hs. right. exact Hcoll. }
      split; [|split; [intros _; apply (lj_cc' _ _ J3); rewrite Kc3; cbn [l_coll l_set_pending]; rewrite Ec2; discriminate|discriminate]].
      intros t k0 Hin. apply in_app_or in Hin. destruct Hin as [Hin|[Hin|Hin]]; try discriminate.
      * exfalso. rewrite Forall_forall in NH. apply (NH (OHook (HCrashReport t k0))). apply In_vfilter_hook. exact Hin.
      * apply in_app_or in Hin. destruct Hin as [Hin|[Hin|[]]].
        -- exfalso. rewrite Forall_forall in NH3. apply (NH3 (OHook (HCrashReport t k0))). apply In_vfilter_hook. exact Hin.
        -- inv Hin. split; [reflexivity|]. exists X, i, rest. split; [exact Ecoll|]. split; [|exact Enth]. unfold bk, alist_get. rewrite Eb. reflexivity.
  - (* not scheduled (never became ready): KeyError, swallowed *)
    apply l_remove_node_unknown in Er; [|exact Eb]. destruct Er as (-> & -> & ->). inv H.
    split; [reflexivity|]. exists ls, [], (d_requeue d).
    split; [reflexivity|]. split; [reflexivity|]. split; [exact J|].
    split; [intros m; apply NRo_refl|].
    split. { intros m. cbn. rewrite app_nil_r. destruct (Nat.eqb m n) eqn:E; [|reflexivity].
             apply Nat.eqb_eq in E. subst m. apply alist_get_none. exact Eb. }
    split. { intros m Hm. split; [exact Hm|]. intros ->. apply aget_In_keys in Hm. contradiction. }
    split; [auto|]. split; [reflexivity|].
    split. { intros m f1 Ef1 Hs. left. eauto. }
    split; [intros t k []|]. split; [auto|]. intros Hr. split; [exact Hr|].
    unfold bk. rewrite (alist_get_none [] n _ Eb). reflexivity.
Qed.

Definition mkfresh (spec : nat) : nctl := {| n_spec := spec; n_down := false; n_sdsent := false; n_closed := false |}.

Lemma clone_run n d ls f :
  d_sched d = StL ls -> aget n (l_nt ls) = Some f ->
  d_clone_node n d =
  (d_set_active (d_set_next_gw (d_set_sched d (StL (l_set_nt ls (aset (d_next_gw d) (mkfresh (n_spec f)) (l_nt ls)))))
                               (S (d_next_gw d)))
                (d_active d ++ [d_next_gw d]),
   [OHook (HSpawn (d_next_gw d) (n_spec f))], Ok tt).
Proof.
  intros Els Ef. unfold d_clone_node. rewrite mbind_get. unfold d_nt. rewrite Els. cbn [s_nt]. rewrite Ef.
  cbn [of_opt]. rewrite mbind_ret. cbv zeta. unfold mbind at 1. rewrite (sched_op_run _ d ls Els).
  cbn [s_step s_set_nt s_nt]. rewrite mbind_get, mbind_put. reflexivity.
Qed.

Lemma LJ'_spawn G ls spec :
  LJ' G ls -> LJ' (S G) (l_set_nt ls (aset G (mkfresh spec) (l_nt ls))).
Proof.
  intros J. constructor; cbn [l_set_nt l_numnodes l_nt l_nodes l_n2p l_n2c l_pending l_chunk l_coll].
  - apply J.
  - intros m. rewrite LoadProofs.aget_aset. destruct (Nat.eqb m G) eqn:E.
    + apply Nat.eqb_eq in E. subst m. split; [intros _; lia|discriminate].
    + apply Nat.eqb_neq in E. rewrite (lj_ntk' _ _ J m). lia.
  - intros m Hm. pose proof (lj_nodes' _ _ J m Hm). lia.
  - apply J.
  - intros m Hm. pose proof (lj_n2c' _ _ J m Hm). lia.
  - apply J.
  - apply J.
  - apply (lj_cc' _ _ J).
  - apply (lj_ids' _ _ J).
  - apply (lj_coll' _ _ J).
  - apply (lj_i3' _ _ J).
  - exact (lj_valid' _ _ J).
Qed.

Lemma vfilter_cons_hook nt h vo : vfilter nt (OHook h :: vo) = OHook h :: vfilter nt vo.
Proof. reflexivity. Qed.

Lemma cmds_to_hook m h vo : cmds_to m (OHook h :: vo) = cmds_to m vo.
Proof. reflexivity. Qed.

Lemma exhausted_succ d d' :
  d_max_restart d' = d_max_restart d -> d_failed_nodes d' = (d_failed_nodes d + 1)%Z -> (0 <= d_failed_nodes d)%Z ->
  exhausted d' = match d_max_restart d with Some m => (m <? d_failed_nodes d + 1)%Z | None => false end /\
  (exhausted d = true -> exhausted d' = true).
Proof.
  intros A B C. unfold exhausted. rewrite A, B. destruct (d_max_restart d) as [m|]; [|auto].
  assert (E : (0 <? d_failed_nodes d + 1)%Z = true) by (apply Z.ltb_lt; lia).
  rewrite E, andb_true_r. split; [reflexivity|]. intros H. apply andb_true_iff in H. destruct H as (H & _).
  apply Z.ltb_lt in H. apply Z.ltb_lt. lia.
Qed.

(* ---- errordown: a worker died ---- *)
Lemma handle_errordown' n d ls d1 o1 r :
  DJ' d ls -> d_active d <> [] -> PRE' (QErrorDown n) d ls ->
  d_handle (QErrorDown n) d = (d1, o1, r) ->
  r = Ok tt /\ exists ls1 vo, o1 = vfilter (l_nt ls) vo /\ HEFF' (QErrorDown n) d ls d1 ls1 vo /\
  (forall t k, In (OHook (HCrashReport t k)) vo ->
     k = n /\ exists X i rest, l_coll ls = Some X /\ bk ls n = i :: rest /\ nth_error X i = Some t).
Proof.
  intros (J0 & Jss & Jemp & Jmis) Hact Hina H. cbn [PRE'] in Hina. pose proof J0 as [Els J Jb K1 RS K2 EX RQ AL FN].
  cbn [d_handle] in H. rewrite errordown_unfold in H.
  apply LoadProofs.mbind_inv in H. destruct H as [(e & Hh & _)|(d0 & o0 & [] & oR & Hh & E & ->)]; [rewrite hook_run in Hh; discriminate|].
  rewrite hook_run in Hh. injection Hh as <- <-. cbn [app]. rename d1 into dx.
  apply LoadProofs.mbind_inv in E. destruct E as [(e & Ht & ->)|(da & oa & [] & ob & Ht & E & ->)].
  { destruct (try_block_eff _ _ _ _ _ _ J0 Ht) as (F & _). discriminate. }
  destruct (try_block_eff _ _ _ _ _ _ J0 Ht) as (_ & lsa & voa & rqa & -> & -> & Ja & Tnt & Tbk & Tnodes & Tn2c & Tcoll & Tsd & Tcr & Tcomp & Ttok).
  assert (HnG : n < d_next_gw d) by (apply AL; exact Hina).
  assert (Efn : exists fn, aget n (l_nt lsa) = Some fn).
  { destruct (aget n (l_nt lsa)) as [fn|] eqn:Ef; [eauto|]. exfalso. apply (proj2 (lj_ntk' _ _ Ja n) HnG). exact Ef. }
  destruct Efn as (fn & Efn).
  rewrite mbind_get in E. cbv zeta in E. rewrite mbind_put in E.
  set (da := d_set_requeue (d_set_sched d (StL lsa)) rqa) in *.
  set (db := d_set_failed_nodes da (d_failed_nodes da + 1)%Z) in *.
  assert (Eex : exhausted db = match d_max_restart d with Some m => (m <? d_failed_nodes d + 1)%Z | None => false end /\
                (exhausted d = true -> exhausted db = true)).
  { apply exhausted_succ; [reflexivity|reflexivity|exact FN]. }
  destruct Eex as (Eex & Emono).
  assert (HNT : forall m, m < d_next_gw d -> forall cs, NRo (aget m (l_nt lsa)) cs (aget m (l_nt lsa)) -> True) by auto.
  assert (ACTN : forall m, In m (d_active d) -> m = n \/ In m (filter (fun k => negb (Nat.eqb k n)) (d_active d))).
  { intros m Hm. destruct (Nat.eq_dec m n) as [->|Hne]; [left; reflexivity|right; apply in_filter_neq; auto]. }
  assert (NODESA : d_shouldstop d = false -> incl (l_nodes lsa) (filter (fun k => negb (Nat.eqb k n)) (d_active d))).
  { intros Hs m Hm. destruct (Tnodes m Hm) as (A & B). apply in_filter_neq. split; [apply (Jb Hs); exact A|exact B]. }
  (* the budget decision *)
  assert (DEC :
    (exhausted db = true /\
     exists m0, d_max_restart d = Some m0 /\
     ((hook (HSummary (m0 =? 0)%Z) ;;; d_triggershutdown) ;;; d_active_remove n) db = (dx, ob, r)) \/
    (exhausted db = false /\
     (((d2 <- get ;; put (d_set_shuttingdown d2 false)) ;;; d_clone_node n) ;;; d_active_remove n) db = (dx, ob, r))).
  { pose proof E as E'.
    clear E. change (d_max_restart da) with (d_max_restart d) in E'. change (d_failed_nodes da) with (d_failed_nodes d) in E'.
    destruct (d_max_restart d) as [m0|] eqn:Emr.
    - destruct (m0 <? d_failed_nodes d + 1)%Z eqn:Elt.
      + left. split; [exact Eex|]. exists m0. split; [reflexivity|]. exact E'.
      + right. split; [exact Eex|exact E'].
    - right. split; [exact Eex|exact E']. }
  clear E. destruct DEC as [(Hexh & m0 & Emr & E)|(Hexh & E)].
  - (* the budget is used up: the session shuts down *)
    assert (TRG : forall dc oc rc, (hook (HSummary (m0 =? 0)%Z) ;;; d_triggershutdown) db = (dc, oc, rc) ->
              rc = Ok tt /\ exists ls2 vo2, dc = d_with db true ls2 /\ TR0 lsa ls2 vo2 /\
                oc = OHook (HSummary (m0 =? 0)%Z) :: vfilter (l_nt lsa) vo2 /\
                l_pending ls2 = l_pending lsa /\ l_n2p ls2 = l_n2p lsa /\
                Forall not_hook (vfilter (l_nt lsa) vo2)).
    { intros dc oc rc Hd. apply LoadProofs.mbind_inv in Hd.
      destruct Hd as [(e & Hh & _)|(d0 & o0 & [] & oR & Hh & Hg & ->)]; [rewrite hook_run in Hh; discriminate|].
      rewrite hook_run in Hh. injection Hh as <- <-. cbn [app].
      destruct (trigger_eff' _ db lsa _ _ _ eq_refl Ja Hg) as (-> & ls2 & vo2 & -> & T2 & -> & C2 & P2 & B2 & _).
      split; [reflexivity|]. exists ls2, vo2. split; [reflexivity|]. split; [exact T2|]. split; [reflexivity|].
      split; [exact P2|]. split; [exact B2|].
      assert (NHT : nohook d_triggershutdown).
      { unfold d_triggershutdown. nh; try (unfold d_node_shutdown; apply nohook_node_shutdown). }
      exact (NHT _ _ _ _ Hg). }
    apply LoadProofs.mbind_inv in E. destruct E as [(e & Hg & ->)|(dc & oc & [] & od & Hg & E2 & ->)].
    { destruct (TRG _ _ _ Hg) as (F & _). discriminate. }
    destruct (TRG _ _ _ Hg) as (_ & ls2 & vo2 & -> & T2 & -> & P2 & B2 & NH2). clear TRG.
    assert (Hin2 : In n (d_active (d_with db true ls2))) by exact Hina.
    rewrite (active_remove_run n _ Hin2) in E2. inv E2. rewrite app_nil_r.
    destruct (tr_keeps _ _ _ T2) as (Kc & Kn & Km & Kch & Kk).
    assert (J2 : LJ' (d_next_gw d) ls2) by (eapply LJ'_TR0; eauto).
    split; [reflexivity|]. exists ls2, (OHook (HNodeDown n true) :: voa ++ OHook (HSummary (m0 =? 0)%Z) :: vo2).
    assert (CC : forall m, cmds_to m (OHook (HNodeDown n true) :: voa ++ OHook (HSummary (m0 =? 0)%Z) :: vo2)
                           = cmds_to m voa ++ cmds_to m vo2).
    { intros m. rewrite cmds_to_hook, cmds_to_app, cmds_to_hook. reflexivity. }
    assert (CLA : forall m, closedb (l_nt lsa) m = closedb (l_nt ls) m) by (intros m; eapply NRo_closed; apply Tnt).
    split.
    { rewrite vfilter_cons_hook, vfilter_app, vfilter_cons_hook, (vfilter_ext _ _ vo2 CLA). reflexivity. }
    split; [|intros t k Hin; apply Tcr; destruct Hin as [Hin|Hin]; [discriminate|];
             apply in_app_or in Hin; destruct Hin as [Hin|[Hin|Hin]]; [exact Hin|discriminate|];
             exfalso; rewrite Forall_forall in NH2; apply (NH2 (OHook (HCrashReport t k))); apply In_vfilter_hook; exact Hin].
    constructor.
    + constructor; dproj'.
      * reflexivity.
      * exact J2.
      * intros Hs. unfold l_nodes. rewrite Kk. apply NODESA. exact Hs.
      * intros _ _ F. change (exhausted db = false) in F. congruence.
      * intros _. right. left. exact Hexh.
      * discriminate.
      * reflexivity.
      * exact RQ.
      * intros m Hm. apply in_filter_neq in Hm. apply AL. tauto.
      * unfold db, da. dproj'. lia.
    + intros m Hm. rewrite CC. eapply NRo_trans; [apply Tnt|apply (tr_nt _ _ _ T2 m)].
    + intros m Hm. rewrite CC. rewrite (NRo_out _ ls m _ _ J Hm (Tnt m)).
      rewrite (NRo_out _ lsa m _ _ Ja Hm (tr_nt _ _ _ T2 m)). reflexivity.
    + intros m. rewrite CC, flat_map_app, (tr_bk _ _ _ T2 m), Tbk. cbn [bookmid']. rewrite <- app_assoc. reflexivity.
    + intros m Hm. left. unfold l_nodes in Hm. rewrite Kk in Hm. apply Tnodes. exact Hm.
    + intros m Hm. left. rewrite Kn in Hm. apply Tn2c. exact Hm.
    + intros m Hm. dproj'. destruct (ACTN m Hm) as [->|X]; [right; right; reflexivity|left; exact X].
    + dproj'. intros _ _. left. reflexivity.
    + dproj'. auto.
    + intros m E0. discriminate.
    + left. reflexivity.
    + intros k E0. inv E0. dproj'. split.
      * intros Hm. unfold l_nodes in Hm. rewrite Kk in Hm. destruct (Tnodes _ Hm) as (_ & F). congruence.
      * intros Hm. apply in_filter_neq in Hm. destruct Hm as (_ & F). congruence.
    + intros m. rewrite (TR0_closed _ _ _ T2 m). apply CLA.
    + intros m Hm. left. dproj'. apply in_filter_neq in Hm. tauto.
    + intros Hr. destruct (Ttok Hr) as (Hrq & Pt). split; [unfold db, da; dproj'; exact Hrq|].
      split; [intros X HX; rewrite Kc, Tcoll; exact HX|].
      intros coll Ec1. rewrite Kc, Tcoll in Ec1. rewrite Ec1. cbn [evtok]. rewrite (tokens_eq _ _ P2 B2). exact Pt.
  - (* within the budget: a replacement worker is started *)
    assert (CL : ((d2 <- get ;; put (d_set_shuttingdown d2 false)) ;;; d_clone_node n) db =
                 (d_set_active (d_set_next_gw (d_set_sched (d_set_shuttingdown db false)
                     (StL (l_set_nt lsa (aset (d_next_gw d) (mkfresh (n_spec fn)) (l_nt lsa))))) (S (d_next_gw d)))
                    (d_active d ++ [d_next_gw d]),
                  [OHook (HSpawn (d_next_gw d) (n_spec fn))], Ok tt)).
    { unfold mbind at 1. rewrite mbind_get. unfold put.
      rewrite (clone_run n (d_set_shuttingdown db false) lsa fn eq_refl Efn). reflexivity. }
    apply LoadProofs.mbind_inv in E. destruct E as [(e & Hg & ->)|(dc & oc & [] & od & Hg & E2 & ->)].
    { rewrite CL in Hg. discriminate. }
    rewrite CL in Hg. injection Hg as <- <-. clear CL.
    set (G := d_next_gw d) in *.
    set (lsn := l_set_nt lsa (aset G (mkfresh (n_spec fn)) (l_nt lsa))) in *.
    match type of E2 with d_active_remove n ?D = _ => set (dc := D) in * end.
    assert (Hin2 : In n (d_active dc)) by (unfold dc; dproj'; apply in_or_app; left; exact Hina).
    rewrite (active_remove_run n _ Hin2) in E2. inv E2. rewrite app_nil_r.
    split; [reflexivity|]. exists lsn, (OHook (HNodeDown n true) :: voa ++ [OHook (HSpawn G (n_spec fn))]).
    assert (CC : forall m, cmds_to m (OHook (HNodeDown n true) :: voa ++ [OHook (HSpawn G (n_spec fn))]) = cmds_to m voa).
    { intros m. rewrite cmds_to_hook, cmds_to_app. cbn. apply app_nil_r. }
    assert (CLA : forall m, closedb (l_nt lsa) m = closedb (l_nt ls) m) by (intros m; eapply NRo_closed; apply Tnt).
    assert (GNn : G <> n) by (unfold G; lia).
    assert (AGN : forall m, m <> G -> aget m (l_nt lsn) = aget m (l_nt lsa)).
    { intros m Hm. unfold lsn. cbn [l_nt l_set_nt]. apply aget_aset_neq. exact Hm. }
    assert (AGG : aget G (l_nt lsn) = Some (mkfresh (n_spec fn))) by (unfold lsn; cbn [l_nt l_set_nt]; apply aget_aset_eq).
    assert (GIN : In G (filter (fun k => negb (Nat.eqb k n)) (d_active d ++ [G]))).
    { apply in_filter_neq. split; [apply in_or_app; right; left; reflexivity|exact GNn]. }
    split.
    { rewrite vfilter_cons_hook, vfilter_app. reflexivity. }
    split; [|intros t k Hin; apply Tcr; destruct Hin as [Hin|Hin]; [discriminate|];
             apply in_app_or in Hin; destruct Hin as [Hin|[Hin|[]]]; [exact Hin|discriminate]].
    constructor.
    + constructor; unfold dc; dproj'.
      * reflexivity.
      * apply LJ'_spawn. exact Ja.
      * intros Hs m Hm. apply (NODESA Hs) in Hm. apply in_filter_neq in Hm. apply in_filter_neq.
        split; [apply in_or_app; left; tauto|tauto].
      * intros Hc Hs Hx m f1 Ef1. change (l_collection_is_completed lsn) with (l_collection_is_completed lsa) in Hc.
        change (exhausted db = false) in Hx.
        assert (Hc0 : l_collection_is_completed ls = false).
        { apply not_true_false. intros C. rewrite (Tcomp C) in Hc. discriminate. }
        destruct (Nat.eq_dec m G) as [->|Hm].
        -- rewrite AGG in Ef1. inv Ef1. reflexivity.
        -- rewrite (AGN m Hm) in Ef1. apply not_true_false. intros Hsd.
           destruct (Tsd m f1 Ef1 Hsd) as [(f & Ef & Hf)|F].
           ++ assert (Hx0 : exhausted d = false) by (apply not_true_false; intros F; rewrite (Emono F) in Hx; discriminate).
              rewrite (K1 Hc0 Hs Hx0 m f Ef) in Hf. discriminate.
           ++ rewrite (lj_cc' _ _ J F) in Hc0. discriminate.
      * discriminate.
      * intros _ _ _. left. exists G, (mkfresh (n_spec fn)). split; [exact GIN|]. split; [exact AGG|reflexivity].
      * intros F. change (exhausted db = true) in F. congruence.
      * exact RQ.
      * intros m Hm. apply in_filter_neq in Hm. destruct Hm as (Hm & _). apply in_app_or in Hm.
        destruct Hm as [Hm|[<-|[]]]; [specialize (AL m Hm); unfold G; lia|unfold G; lia].
      * unfold db, da. dproj'. lia.
    + intros m Hm. rewrite CC. rewrite AGN by (unfold G; lia). apply Tnt.
    + intros m Hm. rewrite CC. exact (NRo_out _ ls m _ _ J Hm (Tnt m)).
    + intros m. rewrite CC. change (bk lsn m) with (bk lsa m). rewrite Tbk. reflexivity.
    + intros m Hm. left. apply Tnodes. exact Hm.
    + intros m Hm. left. apply Tn2c. exact Hm.
    + intros m Hm. unfold dc. dproj'. destruct (ACTN m Hm) as [->|X]; [right; right; reflexivity|left].
      apply in_filter_neq in X. apply in_filter_neq. split; [apply in_or_app; left; tauto|tauto].
    + unfold dc. dproj'. intros _ F. rewrite F in GIN. destruct GIN.
    + unfold dc. dproj'. auto.
    + intros m E0. discriminate.
    + right. unfold dc. dproj'. split; [reflexivity|]. split; [exists (mkfresh (n_spec fn)); split; [exact AGG|repeat split]|].
      split; [exact GIN|]. split.
      * intros Hm. change (l_nodes lsn) with (l_nodes lsa) in Hm. pose proof (lj_nodes' _ _ Ja _ Hm). unfold G in *. lia.
      * intros Hm. change (l_n2c lsn) with (l_n2c lsa) in Hm. pose proof (lj_n2c' _ _ Ja _ Hm). unfold G in *. lia.
    + intros k E0. inv E0. unfold dc. dproj'. split.
      * intros Hm. destruct (Tnodes _ Hm) as (_ & F). congruence.
      * intros Hm. apply in_filter_neq in Hm. destruct Hm as (_ & F). congruence.
    + intros m. destruct (Nat.eq_dec m G) as [->|Hm].
      * unfold closedb. rewrite AGG. cbn. destruct (aget G (l_nt ls)) as [f|] eqn:Ef; [|reflexivity].
        exfalso. assert (X : G < d_next_gw d) by (apply (lj_ntk' _ _ J); congruence). unfold G in X. lia.
      * unfold closedb at 1. rewrite (AGN m Hm). apply CLA.
    + intros m Hm. unfold dc in Hm. dproj'. apply in_filter_neq in Hm. destruct Hm as (Hm & _).
      apply in_app_or in Hm. destruct Hm as [Hm|[<-|[]]]; [left; exact Hm|right]. split; reflexivity.
    + intros Hr. destruct (Ttok Hr) as (Hrq & Pt). split; [unfold dc, db, da; dproj'; exact Hrq|].
      split; [intros X HX; change (l_coll lsn) with (l_coll lsa); rewrite Tcoll; exact HX|].
      intros coll Ec1. change (l_coll lsn) with (l_coll lsa) in Ec1. rewrite Tcoll in Ec1. rewrite Ec1. cbn [evtok].
      change (tokens lsn) with (tokens lsa). exact Pt.
Qed.

Lemma tests_finished_inv ls : l_tests_finished ls = true -> l_collection_is_completed ls = true /\ l_pending ls = [].
Proof.
  unfold l_tests_finished. intros H. apply andb_true_iff in H. destruct H as (H & _).
  apply andb_true_iff in H. destruct H as (C & P). split; [exact C|]. destruct (l_pending ls); [reflexivity|discriminate].
Qed.

Lemma books_nil_forallb (m : amap (list nat)) : flat_map snd m = [] -> forallb (fun p => length (snd p) <? 2) m = true.
Proof.
  induction m as [|[k v] m IH]; cbn; [reflexivity|]. intros H. apply app_eq_nil in H. destruct H as (-> & H).
  cbn. apply IH. exact H.
Qed.

(* the end of the loop iteration re-establishes the start-of-iteration invariant *)
Lemma DJ0'_rest d1 ls1 ls2 vo2 :
  DJ0' d1 ls1 -> TR0 ls1 ls2 vo2 -> l_pending ls2 = l_pending ls1 -> l_n2p ls2 = l_n2p ls1 ->
  (d_shuttingdown d1 = true -> ls2 = ls1) ->
  (d_shuttingdown d1 || l_tests_finished ls1 || d_shouldstop d1 = false -> ls2 = ls1) ->
  DJ' (d_with d1 (d_shuttingdown d1 || l_tests_finished ls1 || d_shouldstop d1) ls2) ls2.
Proof.
  intros J0 T Ep Eb Same1 Same2. pose proof J0 as [Els J Jb K1 RS K2 EX RQ AL FN].
  destruct (tr_keeps _ _ _ T) as (Kc & Kn & Km & Kch & Kk).
  pose proof (completed_keeps ls1 ls2 Kn Km) as Kcomp.
  assert (J2 : LJ' (d_next_gw d1) ls2) by (eapply LJ'_TR0; eauto).
  assert (NILTF : l_collection_is_completed ls1 = true -> tokens ls1 = [] -> l_tests_finished ls1 = true).
  { intros C Tk. unfold tokens in Tk. apply app_eq_nil in Tk. destruct Tk as (P0 & B0).
    unfold l_tests_finished. rewrite C, P0. cbn [andb]. apply books_nil_forallb. exact B0. }
  split; [|split; [|split]].
  - constructor; dproj'.
    + reflexivity.
    + exact J2.
    + unfold l_nodes. rewrite Kk. exact Jb.
    + rewrite Kcomp. intros Hc Hss Hex. change (exhausted d1 = false) in Hex.
      destruct (d_shuttingdown d1) eqn:Esd.
      * rewrite (Same1 eq_refl). apply K1; assumption.
      * destruct (l_tests_finished ls1) eqn:Etf.
        -- exfalso. destruct (tests_finished_inv _ Etf) as (C & _). congruence.
        -- rewrite Hss in Same2. rewrite (Same2 eq_refl). apply K1; assumption.
    + rewrite Kcomp. intros Hsd. change (exhausted (d_with d1 (d_shuttingdown d1 || l_tests_finished ls1 || d_shouldstop d1) ls2)) with (exhausted d1).
      destruct (d_shuttingdown d1) eqn:Esd; [apply RS; reflexivity|].
      destruct (l_tests_finished ls1) eqn:Etf.
      * right. right. destruct (tests_finished_inv _ Etf) as (C & _). exact C.
      * cbn in Hsd. left. exact Hsd.
    + intros HS Hsd Hss. rewrite (Same2 Hsd). apply orb_false_iff in Hsd. destruct Hsd as (Hsd & _).
      apply orb_false_iff in Hsd. destruct Hsd as (Hsd & _). apply K2; assumption.
    + intros Hex. change (exhausted d1 = true) in Hex. rewrite (EX Hex). reflexivity.
    + exact RQ.
    + exact AL.
    + exact FN.
  - dproj'. intros Hss. rewrite Hss. apply orb_true_r.
  - dproj'. intros Hc. rewrite Kc in Hc.
    rewrite (NILTF (lj_cc' _ _ J ltac:(rewrite Hc; discriminate)) (lj_tokens_nil _ _ J Hc)), orb_true_r. reflexivity.
  - dproj'. rewrite Kcomp, Kc. intros C Hc. destruct (lj_i3' _ _ J Hc) as (P0 & B0).
    rewrite (NILTF C), orb_true_r; [reflexivity|]. unfold tokens. rewrite P0, B0. reflexivity.
Qed.

Lemma nohook_loop_rest : nohook loop_rest.
Proof. unfold loop_rest, d_triggershutdown. nh; try (unfold d_node_shutdown; apply nohook_node_shutdown). Qed.

Lemma NR_nil_inv f f' : NR f [] f' -> f' = f.
Proof. intros H. inversion H. reflexivity. Qed.

Lemma count_zero_notin f l x : count f l = 0 -> In x l -> f x = false.
Proof.
  unfold count. induction l as [|y l IH]; [intros _ []|]. cbn. destruct (f y) eqn:E; [discriminate|].
  intros H [->|Hin]; [exact E|apply IH; assumption].
Qed.

(* ---- one iteration of the controller loop: it never raises, and its effect ---- *)
Theorem loop_once_ok' ev d ls d' o r :
  DJ' d ls -> d_active d <> [] -> PRE' ev d ls ->
  d_loop_once ev d = (d', o, r) ->
  r = Ok tt /\ exists ls' vo, o = vfilter (l_nt ls) vo /\ HEFF' ev d ls d' ls' vo /\ DJ' d' ls' /\
    (SAME -> d_active d' = [] -> d_shuttingdown d' = true) /\
    (forall t k, In (OHook (HCrashReport t k)) o ->
       ev = QErrorDown k /\ exists X i rest, l_coll ls = Some X /\ bk ls k = i :: rest /\ nth_error X i = Some t).
Proof.
  intros DJd Hact Hpre H. pose proof H as Hfull. rewrite loop_once_unfold in H.
  assert (HE : forall d1 o1 r1, d_handle ev d = (d1, o1, r1) ->
     r1 = Ok tt /\ exists ls1 vo, o1 = vfilter (l_nt ls) vo /\ HEFF' ev d ls d1 ls1 vo /\
     (forall t k, In (OHook (HCrashReport t k)) o1 -> forall n, ev = QErrorDown n ->
        k = n /\ exists X i rest, l_coll ls = Some X /\ bk ls n = i :: rest /\ nth_error X i = Some t)).
  { intros d1 o1 r1 H1.
    assert (NOCR : forall (P : Prop), (exists ls1 vo, o1 = vfilter (l_nt ls) vo /\ HEFF' ev d ls d1 ls1 vo) ->
               (forall n, ev <> QErrorDown n) ->
               exists ls1 vo, o1 = vfilter (l_nt ls) vo /\ HEFF' ev d ls d1 ls1 vo /\
                 (forall t k, In (OHook (HCrashReport t k)) o1 -> forall n, ev = QErrorDown n ->
                    k = n /\ exists X i rest, l_coll ls = Some X /\ bk ls n = i :: rest /\ nth_error X i = Some t)).
    { intros _ (ls1 & vo & A & B) Hne. exists ls1, vo. split; [exact A|]. split; [exact B|].
      intros t k _ n E. exfalso. exact (Hne n E). }
    assert (QUIET : match ev with
                    | QLogStart _ _ | QLogFinish _ _ | QWarning | QReport _ _ _ _ | QCollectReport _ _ _ => True
                    | _ => False end -> r1 = Ok tt /\ exists ls1 vo, o1 = vfilter (l_nt ls) vo /\ HEFF' ev d ls d1 ls1 vo).
    { intros Hq. destruct (handle_quiet' ev d d1 o1 r1 Hq H1) as (-> & S & C). split; [reflexivity|]. exists ls, o1.
      split; [symmetry; apply vfilter_quiet; exact C|].
      apply heff_same'; auto; try apply DJd; destruct ev; try contradiction; try reflexivity; try (intros m b E; discriminate);
        intros ? E; discriminate. }
    destruct ev; try (destruct (QUIET Logic.I) as (-> & X); split; [reflexivity|]; apply (NOCR True X); intros ? E; discriminate);
      try (cbn in Hpre; contradiction).
    - destruct (handle_ready' _ _ _ _ _ _ DJd Hact Hpre H1) as (-> & X). split; [reflexivity|]. apply (NOCR True X); intros ? E; discriminate.
    - destruct (handle_collfinish' _ _ _ _ _ _ _ DJd Hact Hpre H1) as (-> & X). split; [reflexivity|]. apply (NOCR True X); intros ? E; discriminate.
    - destruct (handle_complete' _ _ _ _ _ _ _ _ DJd Hact Hpre H1) as (-> & X). split; [reflexivity|]. apply (NOCR True X); intros ? E; discriminate.
    - destruct (handle_finished' _ _ _ _ _ _ _ DJd Hact Hpre H1) as (-> & X). split; [reflexivity|]. apply (NOCR True X); intros ? E; discriminate.
    - destruct (handle_errordown' _ _ _ _ _ _ DJd Hact Hpre H1) as (-> & ls1 & vo & A & B & C). split; [reflexivity|].
      exists ls1, vo. split; [exact A|]. split; [exact B|]. intros t k Hin n0 E. inv E. apply C.
      rewrite <- (In_vfilter_hook (l_nt ls)). exact Hin. }
  apply LoadProofs.mbind_inv in H. destruct H as [(e & H1 & ->)|(d1 & o1 & a & o2 & H1 & H2 & ->)].
  { destruct (HE _ _ _ H1) as (F & _). discriminate. }
  destruct (HE _ _ _ H1) as (_ & ls1 & vo1 & -> & E1 & CR1). clear HE.
  pose proof (he_dj' _ _ _ _ _ _ E1) as J1. pose proof J1 as [Els1 JJ1 Jb1 K11 RS1 K21 EX1 RQ1 AL1 FN1].
  destruct (loop_rest_eff' _ _ _ _ _ _ Els1 JJ1 H2) as (-> & ls2 & vo2 & -> & T & -> & C2 & P & B & Same2 & Same1).
  assert (Same2' : d_shuttingdown d1 || l_tests_finished ls1 || d_shouldstop d1 = false -> ls2 = ls1).
  { intros X. apply (Same2 X). }
  assert (Same1' : d_shuttingdown d1 = true -> ls2 = ls1) by (intros X; apply (Same1 X)).
  pose proof (DJ0'_rest d1 ls1 ls2 vo2 J1 T P B Same1' Same2') as DJ2.
  destruct (tr_keeps _ _ _ T) as (Kc & Kn & Km & Kch & Kk).
  assert (GW : d_next_gw d <= d_next_gw d1) by (destruct (he_gw' _ _ _ _ _ _ E1) as [X|(X & _)]; lia).
  assert (OUT2 : forall m, d_next_gw d <= m -> cmds_to m vo2 = []).
  { intros m Hm. apply C2. intros Hin. pose proof (lj_nodes' _ _ JJ1 m Hin) as Hlt.
    destruct (he_gw' _ _ _ _ _ _ E1) as [X|(X & _ & _ & Hnn & _)]; [lia|].
    assert (m = d_next_gw d) by lia. subst m. contradiction. }
  split; [reflexivity|]. exists ls2, (vo1 ++ vo2).
  split. { rewrite vfilter_app. f_equal. apply vfilter_ext. apply (he_closed' _ _ _ _ _ _ E1). }
  split; [|split; [exact DJ2|split]].
  - constructor.
    + apply DJ2.
    + intros m Hm. rewrite cmds_to_app. eapply NRo_trans; [apply (he_nt' _ _ _ _ _ _ E1 m Hm)|apply (tr_nt _ _ _ T m)].
    + intros m Hm. rewrite cmds_to_app, (he_out' _ _ _ _ _ _ E1 m Hm), (OUT2 m Hm). reflexivity.
    + intros m. rewrite cmds_to_app, flat_map_app, (tr_bk _ _ _ T m), (he_bk' _ _ _ _ _ _ E1 m), <- app_assoc. reflexivity.
    + intros m Hm. apply (he_nodes' _ _ _ _ _ _ E1). unfold l_nodes in *. rewrite B in Hm. exact Hm.
    + intros m Hm. apply (he_n2c' _ _ _ _ _ _ E1). rewrite Kn in Hm. exact Hm.
    + intros m Hm. exact (he_act' _ _ _ _ _ _ E1 m Hm).
    + dproj'. intros HS Hempty. left.
      destruct (he_fin' _ _ _ _ _ _ E1 HS Hempty) as [X|[X|X]]; rewrite X; rewrite ?orb_true_r, ?orb_true_l; reflexivity.
    + dproj'. apply (he_ss' _ _ _ _ _ _ E1).
    + dproj'. apply (he_stop' _ _ _ _ _ _ E1).
    + dproj'. destruct (he_gw' _ _ _ _ _ _ E1) as [X|(X & (f & Ef & Hf) & Hin & Hnn & Hnc)]; [left; exact X|right].
      split; [exact X|]. split.
      * pose proof (tr_nt _ _ _ T (d_next_gw d)) as R. rewrite Ef in R.
        rewrite (C2 _ Hnn) in R. destruct (aget (d_next_gw d) (l_nt ls2)) as [f2|]; [|destruct R].
        cbn in R. apply NR_nil_inv in R. subst f2. exists f. auto.
      * split; [exact Hin|]. split; [unfold l_nodes; rewrite B; exact Hnn|rewrite Kn; exact Hnc].
    + intros n E. dproj'. destruct (he_err' _ _ _ _ _ _ E1 n E) as (A1 & A2). split; [unfold l_nodes; rewrite B; exact A1|exact A2].
    + intros m. rewrite (TR0_closed _ _ _ T m). apply (he_closed' _ _ _ _ _ _ E1).
    + dproj'. exact (he_actb' _ _ _ _ _ _ E1).
    + dproj'. intros Hr. destruct (he_tok' _ _ _ _ _ _ E1 Hr) as (Hr1 & Mono & Pt). split; [exact Hr1|].
      split; [intros X HX; rewrite Kc; exact (Mono X HX)|].
      intros coll Ec2. rewrite Kc in Ec2. rewrite (tokens_eq _ _ P B). exact (Pt coll Ec2).
  - dproj'. intros HS Hempty.
    destruct (he_fin' _ _ _ _ _ _ E1 HS Hempty) as [X|[X|X]]; rewrite X; rewrite ?orb_true_r, ?orb_true_l; reflexivity.
  - intros t k Hin. apply in_app_or in Hin. destruct Hin as [Hin|Hin].
    + destruct (death_event ev) eqn:Ed.
      * destruct ev; try discriminate.
        -- destruct sk; try discriminate. cbn in Hpre. contradiction.
        -- destruct (CR1 t k Hin n eq_refl) as (-> & X). split; [reflexivity|exact X].
      * exfalso. pose proof (no_crash_report_without_death _ _ _ _ _ Ed Hfull) as Z.
        assert (Hin' : In (OHook (HCrashReport t k)) (vfilter (l_nt ls) vo1 ++ vfilter (l_nt ls1) vo2)) by (apply in_or_app; left; exact Hin).
        pose proof (count_zero_notin _ _ _ Z Hin') as F. discriminate.
    + exfalso. pose proof (nohook_loop_rest _ _ _ _ H2) as NH. rewrite Forall_forall in NH. exact (NH _ Hin).
Qed.

End Ctl.
